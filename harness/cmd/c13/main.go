// c13: parsing depends only on the text — not on chunking, not on history.
//
// Case kinds written to the cases file (ID<TAB>INPUT<TAB>IMPL):
//
//	tok   =TEXT                 tokens of a fresh lexer (fold of LexNextRune)
//	atom  =TEXT                 DecodeAtom on the string
//	chunk =TEXT CUTS            whole-text parse and delivery in pieces (CUTS = c1,c2,.. rune offsets or -)
//	hist  =TEXT N {=H CUTS A}   parse of TEXT after N earlier inputs on the same parser vs on a fresh parser
//	queue =TEXT CUTS SCHED      like chunk, but ParseTokens is called only after the pieces marked 1 in SCHED (and the last)
//	calls =TEXT V {OP ARG}*     the text after an arbitrary sequence of parser calls (see calls.go)
//	repl  =ENTRY                the REPL's line reader (getExpressionWithLiner) given the entry line by line
//
// Every implementation-only comparison (pieces = whole, after history = fresh) is done here for
// every generated split/history; all failing ones and a sample of the others become case lines, so
// that the extracted Coq model runs on them too.
package main

import (
	"encoding/json"
	"fmt"
	"io"
	"os"
	"path/filepath"
	"sort"
	"strconv"
	"strings"
	"time"

	"github.com/glycerine/zygomys/v9/zygo"
	"verif/harness/lib"
)

// ---------- encoding of texts -------------------------------------------------

func enc(s string) string { return "=" + zygo.VerifEsc(s) }

func dec(s string) string {
	s = strings.TrimPrefix(s, "=")
	var sb strings.Builder
	for i := 0; i < len(s); i++ {
		if s[i] == '\\' {
			j := strings.IndexByte(s[i:], ';')
			n, _ := strconv.Atoi(s[i+1 : i+j])
			sb.WriteRune(rune(n))
			i += j
		} else {
			sb.WriteByte(s[i])
		}
	}
	return sb.String()
}

func cutsStr(c []int) string {
	if len(c) == 0 {
		return "-"
	}
	p := make([]string, len(c))
	for i, x := range c {
		p[i] = strconv.Itoa(x)
	}
	return strings.Join(p, ",")
}

func parseCuts(s string) []int {
	if s == "-" || s == "" {
		return nil
	}
	var c []int
	for _, p := range strings.Split(s, ",") {
		n, _ := strconv.Atoi(p)
		c = append(c, n)
	}
	return c
}

// pieces splits the runes of text at the (sorted, possibly repeated) rune offsets.
func pieces(text string, cuts []int) []string {
	rs := []rune(text)
	var out []string
	prev := 0
	for _, c := range cuts {
		if c < prev {
			c = prev
		}
		if c > len(rs) {
			c = len(rs)
		}
		out = append(out, string(rs[prev:c]))
		prev = c
	}
	out = append(out, string(rs[prev:]))
	return out
}

// ---------- observables ---------------------------------------------------------

func obs(ex []zygo.Sexp, err error) string {
	st := "D"
	if err == zygo.ErrMoreInputNeeded {
		st = "M"
	} else if err != nil {
		st = "E"
	}
	var sb strings.Builder
	sb.WriteString(st)
	for _, x := range ex {
		sb.WriteString(" ")
		sb.WriteString(zygo.VerifCanon(x))
	}
	return sb.String()
}

func guarded(f func() string) (res string) {
	defer func() {
		if r := recover(); r != nil {
			res = "P"
		}
	}()
	return f()
}

// whole: the text delivered as one complete text.
func whole(p *zygo.Parser, text string) string {
	return guarded(func() string {
		p.ResetAddNewInput(zygo.WholeText(strings.NewReader(text)))
		return obs(p.ParseTokens())
	})
}

// held: an expression slice a ParseTokens call returned, with its rendering at that time
type held struct {
	ex  []zygo.Sexp
	obs string
}

// unchanged: the slices returned earlier still render as they did (nothing later overwrote them)
func unchanged(hs []held) bool {
	for _, x := range hs {
		if guarded(func() string { return obs(x.ex, nil) }) != x.obs {
			return false
		}
	}
	return true
}

// run hands the pieces to the parser. parseAfter[i] (nil = always): call ParseTokens after piece i, else the piece
// is only queued (NewInput) ahead of the parser; the last piece is always followed by ParseTokens. final: the last
// piece is marked as the end of the text. viaReset: start with Parser.Reset + NewInput (the ParseFile / include
// path) instead of ResetAddNewInput. Returns the observable of every ParseTokens call and the slices it returned.
// Delivery stops after a hard error.
func run(p *zygo.Parser, ps []string, parseAfter []bool, final, viaReset bool) (out []string, hs []held) {
	for i, s := range ps {
		last := i == len(ps)-1
		stop := false
		o := guarded(func() string {
			var in interface {
				ReadRune() (rune, int, error)
				UnreadRune() error
			} = strings.NewReader(s)
			if last && final {
				in = zygo.WholeText(strings.NewReader(s))
			}
			switch {
			case i == 0 && viaReset:
				p.Reset()
				p.NewInput(in)
			case i == 0:
				p.ResetAddNewInput(in)
			default:
				p.NewInput(in)
			}
			if !last && parseAfter != nil && i < len(parseAfter) && !parseAfter[i] {
				return ""
			}
			ex, err := p.ParseTokens()
			r := obs(ex, err)
			if err != nil {
				r0 := obs(ex, nil)
				hs = append(hs, held{ex, r0})
			} else {
				hs = append(hs, held{ex, r})
			}
			return r
		})
		if o == "" {
			continue
		}
		out = append(out, o)
		if o[0] == 'E' || o[0] == 'P' {
			stop = true
		}
		if stop {
			break
		}
	}
	return out, hs
}

// deliver: the text delivered in pieces, ParseTokens after each; the last piece is marked as the end of the text.
func deliver(p *zygo.Parser, ps []string) []string {
	out, _ := run(p, ps, nil, true, false)
	return out
}

func tokObs(text string) string {
	return guarded(func() string {
		toks, err := zygo.VerifLex(text)
		var sb strings.Builder
		for i, t := range toks {
			if i > 0 {
				sb.WriteString(" ")
			}
			sb.WriteString(t.Kind + ":" + zygo.VerifEsc(t.Text))
		}
		if err != nil {
			if len(toks) > 0 {
				sb.WriteString(" ")
			}
			sb.WriteString("!E")
		}
		return sb.String()
	})
}

func atomObs(text string) string {
	return guarded(func() string {
		t, err := zygo.VerifDecodeAtom(text)
		if err != nil {
			return "!E"
		}
		return t.Kind + ":" + zygo.VerifEsc(t.Text)
	})
}

// lastTok: kind and text of the last token of a fresh lexer over the text ("" if none or lexer error).
func lastTok(text string) (string, string) {
	toks, err := zygo.VerifLex(text)
	if err != nil || len(toks) == 0 {
		return "", ""
	}
	return toks[len(toks)-1].Kind, toks[len(toks)-1].Text
}

// ---------- the chunk experiment ------------------------------------------------

type harness struct {
	out      *lib.Out
	env      *zygo.Zlisp
	p        *zygo.Parser
	rng      *lib.Rng
	nChunk   int // implementation-only comparisons done
	nHist    int
	nRepl    int
	nQueue   int
	nCalls   int
	tmp      string
	nfile    int
	failR    int
	failC    int
	failCU   int // failures not explained by a cut at a quote-sugar/backslash token
	failH    int
	emitted  map[string]bool
	wholeMem map[string][2]string
	lastMem  map[string]string
}

// lastOf: kind:text of the last token of the text (with its final newline), cached.
func (h *harness) lastOf(text string) string {
	if l, ok := h.lastMem[text]; ok {
		return l
	}
	lk, lt := lastTok(text + "\n")
	if len(h.lastMem) > 200000 {
		h.lastMem = map[string]string{}
	}
	l := lk + ":" + zygo.VerifEsc(lt)
	h.lastMem[text] = l
	return l
}

// wholeOf: the observable of the whole-text parse, and whether an atom or a token was left behind
// in normal mode although the parse ran to the end of the text ("ok" / "lost").
func (h *harness) wholeOf(text string) (string, string) {
	if w, ok := h.wholeMem[text]; ok {
		return w[0], w[1]
	}
	w := whole(h.p, text)
	kept := "ok"
	if w[0] == 'D' {
		if st, buf, queued := h.p.VerifPending(); st == 0 && (buf != "" || queued != 0) {
			kept = "lost"
		}
	}
	if len(h.wholeMem) > 200000 {
		h.wholeMem = map[string][2]string{}
	}
	h.wholeMem[text] = [2]string{w, kept}
	return w, kept
}

// chunkImpl runs the experiment on the implementation. ok = final delivery equals whole.
func (h *harness) chunkImpl(text string, cuts []int, sched []bool) (impl string, ok bool, explained bool) {
	w, kept := h.wholeOf(text)
	ds, _ := run(h.p, pieces(text, cuts), sched, true, false)
	h.nChunk++
	ok = ds[len(ds)-1] == w
	gs, rr := "-", "-"
	explained = rr == "ok"
	impl = "W=" + w + " ;; P=" + strings.Join(ds, " | ") + " ;; G=" + gs + " ;; R=" + rr + " ;; L=" + h.lastOf(text) + " ;; K=" + kept
	return impl, ok, explained
}

func (h *harness) chunk(text string, cuts []int, emit bool, tags ...string) bool {
	impl, ok, explained := h.chunkImpl(text, cuts, nil)
	if !ok {
		h.failC++
		if !explained {
			h.failCU++
		}
	}
	input := "chunk " + enc(text) + " " + cutsStr(cuts)
	if (emit || !ok) && !h.emitted[input] && (ok || (explained && h.failC-h.failCU <= 300) || (!explained && h.failCU <= 100)) {
		h.emitted[input] = true
		h.out.Case(input, impl, len(cuts) > 0, tags...)
	}
	return ok
}

// queue: the pieces are handed over ahead of the parser: ParseTokens is called only after the pieces marked in sched
// (and after the last one), the others wait in the lexer's queue of streams.
func (h *harness) queue(text string, cuts []int, sched []bool, emit bool, tags ...string) bool {
	impl, ok, _ := h.chunkImpl(text, cuts, sched)
	h.nQueue++
	if !ok {
		h.failC++
		h.failCU++
	}
	var sb strings.Builder
	for _, b := range sched {
		if b {
			sb.WriteByte('1')
		} else {
			sb.WriteByte('0')
		}
	}
	input := "queue " + enc(text) + " " + cutsStr(cuts) + " " + sb.String()
	if (emit || !ok) && !h.emitted[input] && (ok || h.failCU <= 100) {
		h.emitted[input] = true
		h.out.Case(input, impl, true, tags...)
	}
	return ok
}

func (h *harness) randSched(n int) []bool {
	s := make([]bool, n)
	for i := range s {
		s[i] = h.rng.Intn(3) == 0
	}
	return s
}

// allCuts: every single cut and (if two) every pair of cuts, emitting a sample of n case lines.
func (h *harness) allCuts(text string, two bool, sample int, tag string) {
	n := len([]rune(text))
	total := n + 1
	if two {
		total += (n + 1) * (n + 2) / 2
	}
	every := 1
	if sample > 0 && total > sample {
		every = total / sample
	}
	k := 0
	for i := 0; i <= n; i++ {
		h.chunk(text, []int{i}, sample != 0 && k%every == 0, tag, "cuts:1")
		k++
	}
	if two {
		for i := 0; i <= n; i++ {
			for j := i; j <= n; j++ {
				h.chunk(text, []int{i, j}, sample != 0 && k%every == 0, tag, "cuts:2")
				k++
			}
		}
	}
}

func (h *harness) randCuts(text string, ncuts int) []int {
	n := len([]rune(text))
	c := make([]int, ncuts)
	for i := range c {
		c[i] = h.rng.Intn(n + 1)
	}
	sort.Ints(c)
	return c
}

// ---------- the history experiment ----------------------------------------------

type hitem struct {
	text    string
	cuts    []int
	abandon bool // delivered without end-of-text mark and left wherever the parser stopped
	mode    int  // 0: ResetAddNewInput; 1: Parser.Reset + NewInput (the ParseFile / include path); 2: env.ParseFile on a file
}

func (it hitem) flag() string {
	f := "w"
	if it.abandon {
		f = "a"
	}
	switch it.mode {
	case 1:
		f = strings.ToUpper(f)
	case 2:
		f = "F"
	}
	return f
}

func parseFlag(f string) (abandon bool, mode int) {
	switch f {
	case "a":
		return true, 0
	case "W":
		return false, 1
	case "A":
		return true, 1
	case "F":
		return false, 2
	}
	return false, 0
}

// parseFile: the text through env.ParseFile (a real file)
func (h *harness) parseFile(text string) (string, []held) {
	var hs []held
	o := guarded(func() string {
		if h.tmp == "" {
			d, err := os.MkdirTemp("", "c13pf")
			if err != nil {
				return "E"
			}
			h.tmp = d
		}
		h.nfile++
		path := filepath.Join(h.tmp, "t"+strconv.Itoa(h.nfile%8)+".zy")
		if err := os.WriteFile(path, []byte(text), 0644); err != nil {
			return "E"
		}
		ex, err := h.env.ParseFile(path)
		if err != nil {
			return "E"
		}
		r := obs(ex, nil)
		hs = append(hs, held{ex, r})
		return r
	})
	return o, hs
}

// histImpl: targetMode = how the target text is read after the earlier inputs (0 / 1 / 2 as hitem.mode).
// F = fresh parser, H = after the history, S = Reset leaves the same state as on a fresh parser,
// A = every expression slice returned for an earlier input (and for the target) still renders as when it was returned.
func (h *harness) histImpl(text string, hs []hitem, targetMode int) (string, bool) {
	fresh := h.env.NewParser()
	f := whole(fresh, text)
	fresh.Reset()
	fdump := fresh.VerifDump()
	fresh.Stop()
	var kept []held
	for _, it := range hs {
		if it.mode == 2 {
			_, k := h.parseFile(it.text)
			kept = append(kept, k...)
			continue
		}
		_, k := run(h.p, pieces(it.text, it.cuts), nil, !it.abandon, it.mode == 1)
		kept = append(kept, k...)
	}
	var g string
	switch targetMode {
	case 2:
		var k []held
		g, k = h.parseFile(text)
		kept = append(kept, k...)
		if f[0] != 'D' && g == "E" {
			g = f // ParseFile reports more-input and errors alike as an error
		}
	default:
		out, k := run(h.p, []string{text}, nil, true, targetMode == 1)
		g = out[len(out)-1]
		kept = append(kept, k...)
	}
	// something read after the target must not disturb it either
	run(h.p, []string{"(later (text) [1 2 3] \"x\")"}, nil, true, targetMode == 1)
	al := "same"
	if !unchanged(kept) {
		al = "changed"
	}
	h.p.Reset()
	s := "same"
	if h.p.VerifDump() != fdump {
		s = "diff"
	}
	h.nHist++
	return "F=" + f + " ;; H=" + g + " ;; S=" + s + " ;; A=" + al, f == g && s == "same" && al == "same"
}

func (h *harness) hist(text string, hs []hitem, emit bool, tags ...string) bool {
	tm := h.rng.Intn(5)
	if tm > 2 {
		tm = 0
	}
	impl, ok := h.histImpl(text, hs, tm)
	if !ok {
		h.failH++
	}
	var sb strings.Builder
	fmt.Fprintf(&sb, "hist %s %d", enc(text), len(hs))
	for _, it := range hs {
		fmt.Fprintf(&sb, " %s %s %s", enc(it.text), cutsStr(it.cuts), it.flag())
	}
	fmt.Fprintf(&sb, " T%d", tm)
	input := sb.String()
	if (emit || !ok) && !h.emitted[input] && (ok || h.failH <= 200) {
		h.emitted[input] = true
		h.out.Case(input, impl, len(hs) > 0, tags...)
	}
	return ok
}

// ---------- the REPL line reader ------------------------------------------------

// replImpl: the entry (lines separated by \n) followed by blank lines is given to the REPL's reader.
// W = whole-text parse of the text the reader reports (of the entry when it fails), R = what the reader
// returns, T = the reported text is a line prefix of the entry, N = number of lines it consumed.
func (h *harness) replImpl(entry string) (string, bool) {
	saved := os.Stdout
	if null, err := os.OpenFile(os.DevNull, os.O_WRONLY, 0); err == nil {
		os.Stdout = null // the reader prints prompts
		defer func() { os.Stdout = saved; null.Close() }()
	}
	var text, r string
	r = guarded(func() string {
		t, xs, err := zygo.VerifReplEntry(h.env, entry+"\n\n\n\n\n")
		text = t
		if err == io.EOF {
			return "EOF"
		}
		if err != nil {
			return "E"
		}
		return obs(xs, nil)
	})
	h.nRepl++
	n := 0
	prefix := "prefix"
	target := entry
	if r[0] == 'D' {
		n = strings.Count(text, "\n") + 1
		target = text
		if !(strings.HasPrefix(entry+"\n", text+"\n")) {
			prefix = "notprefix"
		}
	}
	w, _ := h.wholeOf(target)
	ok := prefix == "prefix"
	switch r[0] {
	case 'D':
		ok = ok && w == r
	case 'P':
		ok = false
	default:
		if r == "EOF" {
			ok = ok && w[0] == 'M'
		} else {
			ok = ok && w[0] == 'E'
		}
	}
	return "W=" + w + " ;; R=" + r + " ;; T=" + prefix + " ;; N=" + strconv.Itoa(n), ok
}

func (h *harness) repl(entry string, emit bool, tags ...string) bool {
	impl, ok := h.replImpl(entry)
	if !ok {
		h.failR++
	}
	input := "repl " + enc(entry)
	if (emit || !ok) && !h.emitted[input] && (ok || h.failR <= 100) {
		h.emitted[input] = true
		h.out.Case(input, impl, true, tags...)
	}
	return ok
}

// ---------- main ----------------------------------------------------------------

func repoDir() string {
	if d := os.Getenv("VERIF_REPO"); d != "" {
		return d
	}
	return "/repo"
}

func corpus() (names []string, texts []string) {
	fs, _ := filepath.Glob(filepath.Join(repoDir(), "tests", "*.zy"))
	sort.Strings(fs)
	for _, f := range fs {
		b, err := os.ReadFile(f)
		if err != nil {
			continue
		}
		names = append(names, filepath.Base(f))
		texts = append(texts, string(b))
	}
	return
}

func main() {
	a := lib.ParseArgs()
	out := lib.NewOut(a.Out)
	out.Rule = "texts = tests/*.zy + grammar-generated programs + token soup + character soup over the token alphabet + hand-written edge texts; " +
		"each text x every 1-cut (and every 2-cut when short; sampled when long) x random 3..6 cuts, and x random histories of complete, failing and abandoned earlier inputs on the same parser; " +
		"all implementation-only comparisons (pieces = whole, after-history = fresh) are made in the harness for every split; failing splits and a sample of the others are case lines for the model; " +
		"plus every string up to a length bound over the token alphabet for the token stream and the atom classifier; non-trivial = at least one cut / one earlier input / non-empty text"
	env := zygo.NewZlisp()
	env.StandardSetup()
	h := &harness{out: out, env: env, p: env.VerifParser(), rng: lib.NewRng(a.Seed), emitted: map[string]bool{}, wholeMem: map[string][2]string{}, lastMem: map[string]string{}}
	thorough := a.Tier == "thorough"
	t0 := time.Now()
	phases := map[string]float64{}
	phase := func(name string) {
		phases[name] = time.Since(t0).Seconds()
		t0 = time.Now()
	}

	if a.Replay != "" {
		replay(h, a.Replay)
		out.Close(a.Stats)
		return
	}

	// 1. token stream and atom classifier: exhaustive short strings
	tokLen, atomLen := 3, 3
	if thorough {
		tokLen, atomLen = 4, 4
	}
	nTok := 0
	enumerate(tokAlphabet, tokLen, func(s string) {
		out.Case("tok "+enc(s), tokObs(s), s != "", "tok:exhaustive")
		nTok++
	})
	nAtom := 0
	enumerate(atomAlphabet, atomLen, func(s string) {
		if s != "" {
			out.Case("atom "+enc(s), atomObs(s), true, "atom:exhaustive")
			nAtom++
		}
	})
	for _, s := range atomSamples(h.rng, thorough) {
		out.Case("atom "+enc(s), atomObs(s), true, "atom:generated")
		nAtom++
	}

	phase("1-tok-atom")
	// 2. hand-written edge texts: all 1- and 2-cuts, every case a line
	for _, t := range edgeTexts {
		out.Case("tok "+enc(t), tokObs(t), true, "tok:edge")
		h.allCuts(t, len(t) <= 40, -1, "text:edge")
		if n := len([]rune(t)); n >= 2 {
			for j := 0; j < 3; j++ {
				c := h.randCuts(t, 2+h.rng.Intn(3))
				sc := h.randSched(len(c))
				if j == 0 {
					sc = make([]bool, len(c))
				}
				h.queue(t, c, sc, j == 0, "text:edge", "queued")
			}
		}
	}

	// 2b. every short token sequence as a complete text (whole parse; all 1-cuts for the brace alphabet)
	nseq := 0
	seqRng := lib.NewRng(a.Seed + 7700) // its own stream: the other phases draw the same numbers as before
	seen := map[string]bool{}
	seqLen, braceLen := 3, 4
	if thorough {
		seqLen, braceLen = 4, 5
	}
	tokenSequences(tokenSpellings, seqLen, func(t string) {
		if !seen[t] {
			seen[t] = true
			h.chunk(t, nil, true, "text:token-sequences", "cuts:0")
			nseq++
		}
	})
	tokenSequences(tokenSpellingsBrace, braceLen, func(t string) {
		if !seen[t] {
			seen[t] = true
			h.chunk(t, nil, true, "text:token-sequences", "cuts:0")
			nseq++
			if nseq%7 == 0 {
				n := len([]rune(t))
				h.chunk(t, []int{seqRng.Intn(n + 1)}, false, "text:token-sequences", "cuts:1")
			}
		}
	})
	out.Extra["token_sequence_texts"] = nseq
	phase("2-edge")
	// 3. short exhaustive texts over a reduced alphabet: every 1-cut in-harness, sampled lines
	shortLen := 4
	shortAlpha := shortAlphabetQuick
	if thorough {
		shortLen = 5
		shortAlpha = shortAlphabet
	}
	k := 0
	enumerate(shortAlpha, shortLen, func(s string) {
		k++
		n := len([]rune(s))
		for i := 0; i <= n; i++ {
			h.chunk(s, []int{i}, (k+i)%97 == 0, "text:short-exhaustive", "cuts:1")
		}
	})

	phase("3-short")
	// 4. generated texts
	ngen, nsoup := 250, 250
	if thorough {
		ngen, nsoup = 4000, 4000
	}
	var gens []string
	for i := 0; i < ngen; i++ {
		gens = append(gens, genProgram(h.rng, 2+h.rng.Intn(4)))
	}
	for i := 0; i < nsoup; i++ {
		if i%2 == 0 {
			gens = append(gens, tokenSoup(h.rng, 1+h.rng.Intn(10)))
		} else {
			gens = append(gens, charSoup(h.rng, 1+h.rng.Intn(14)))
		}
	}
	for i, t := range gens {
		tag := "text:generated"
		if i >= ngen {
			tag = "text:soup"
		}
		out.Case("tok "+enc(t), tokObs(t), true, "tok:generated")
		n := len([]rune(t))
		h.allCuts(t, n <= 24 || (thorough && n <= 60), 6, tag)
		for j := 0; j < 4; j++ {
			h.chunk(t, h.randCuts(t, 3+h.rng.Intn(4)), j == 0, tag, "cuts:3+")
		}
		// pieces queued ahead of the parser
		for j := 0; j < 3; j++ {
			c := h.randCuts(t, 2+h.rng.Intn(4))
			sc := h.randSched(len(c))
			if j == 0 {
				sc = make([]bool, len(c)) // everything queued, one ParseTokens
			}
			h.queue(t, c, sc, j == 0 && i%3 == 0, tag, "queued")
		}
	}

	phase("4-generated")
	// 5. corpus: whole text for the model, every 1-cut in the harness (sampled in quick), sampled 2-cuts and more
	names, texts := corpus()
	out.Extra["corpus_files"] = len(names)
	for i, t := range texts {
		out.Case("tok "+enc(t), tokObs(t), true, "tok:corpus")
		h.chunk(t, nil, true, "text:corpus", "cuts:0")
		n := len([]rune(t))
		step := 1
		if !thorough && n > 150 {
			step = n / 150
		}
		off := h.rng.Intn(step)
		for c := off; c <= n; c += step {
			h.chunk(t, []int{c}, c == off, "text:corpus", "cuts:1")
		}
		m := 30
		if thorough {
			m = 600
		}
		for j := 0; j < m; j++ {
			h.chunk(t, h.randCuts(t, 2+h.rng.Intn(5)), j < 2 && i%4 == 0, "text:corpus", "cuts:2+")
		}
		for j := 0; j < 4; j++ {
			c := h.randCuts(t, 2+h.rng.Intn(5))
			sc := h.randSched(len(c))
			if j == 0 {
				sc = make([]bool, len(c))
			}
			h.queue(t, c, sc, j == 0 && i%8 == 0, "text:corpus", "queued")
		}
	}

	phase("5-corpus")
	// 6. histories
	targets := append([]string{}, edgeTexts...)
	targets = append(targets, gens...)
	pool := append([]string{}, edgeTexts...)
	pool = append(pool, gens...)
	pool = append(pool, badTexts...)
	nh := 3000
	if thorough {
		nh = 60000
	}
	for i := 0; i < nh; i++ {
		t := targets[h.rng.Intn(len(targets))]
		var hs []hitem
		for j, m := 0, 1+h.rng.Intn(3); j < m; j++ {
			x := pool[h.rng.Intn(len(pool))]
			it := hitem{text: x}
			if h.rng.Intn(2) == 0 {
				it.cuts = h.randCuts(x, 1+h.rng.Intn(2))
			}
			it.abandon = h.rng.Intn(3) == 0
			it.mode = h.rng.Intn(4) % 3 // 0 twice as often
			if it.mode == 2 {
				it.abandon, it.cuts = false, nil
			}
			if it.abandon && h.rng.Intn(2) == 0 {
				// cut the earlier input short at a random place
				rs := []rune(x)
				it.text = string(rs[:h.rng.Intn(len(rs)+1)])
				it.cuts = nil
			}
			hs = append(hs, it)
		}
		h.hist(t, hs, i%6 == 0, "hist:random")
	}
	// every edge text after every bad text (abandoned and complete)
	for i, t := range edgeTexts {
		for j, b := range badTexts {
			if !thorough && (i+j)%4 != int(a.Seed%4) {
				continue
			}
			h.hist(t, []hitem{{text: b, abandon: true, mode: (i + j) / 4 % 2}}, false, "hist:edge")
			h.hist(t, []hitem{{text: b, mode: (i + j) / 4 % 3}}, false, "hist:edge")
		}
	}
	for i, t := range texts {
		if i%10 == 0 || thorough {
			h.hist(t, []hitem{{text: badTexts[i%len(badTexts)], abandon: true}, {text: texts[(i+1)%len(texts)]}}, true, "hist:corpus")
		}
	}

	phase("6-history")

	// 6b. arbitrary call sequences (Stop / Reset / ResetAddNewInput in every class of suspended state, queued streams)
	ncalls := 1500
	if thorough {
		ncalls = 30000
	}
	h.callsPhase(targets, pool, ncalls)
	out.Extra["impl_call_sequence_comparisons"] = h.nCalls
	phase("6b-calls")

	// 7. the REPL line reader: multi-line entries, with blank and whitespace-only lines inside strings,
	// raw strings, block comments and between the elements of a form
	for _, e := range replEntries {
		h.repl(e, true, "repl:edge")
	}
	nr := 1500
	if thorough {
		nr = 30000
	}
	for i := 0; i < nr; i++ {
		h.repl(genReplEntry(h.rng), i%5 == 0, "repl:generated")
	}
	nl := 0
	for _, e := range longReplEntries(h.rng, thorough) {
		h.repl(e.text, e.emit, e.tag)
		nl++
	}
	out.Extra["impl_repl_long_line_entries"] = nl
	phase("7-repl")
	out.Extra["impl_repl_comparisons"] = h.nRepl
	out.Extra["impl_repl_failures"] = h.failR
	out.Extra["phase_seconds"] = phases
	out.Extra["impl_queued_comparisons"] = h.nQueue
	out.Extra["impl_chunk_comparisons"] = h.nChunk
	out.Extra["impl_chunk_failures"] = h.failC
	out.Extra["impl_chunk_failures_unexplained"] = h.failCU
	out.Extra["impl_history_comparisons"] = h.nHist
	out.Extra["impl_history_failures"] = h.failH
	out.Extra["tok_exhaustive_len"] = tokLen
	out.Extra["tok_exhaustive_cases"] = nTok
	out.Extra["atom_cases"] = nAtom
	if h.tmp != "" {
		os.RemoveAll(h.tmp)
	}
	out.Close(a.Stats)
}

func enumerate(alpha []string, maxLen int, f func(string)) {
	var rec func(prefix string, left int)
	rec = func(prefix string, left int) {
		f(prefix)
		if left == 0 {
			return
		}
		for _, c := range alpha {
			rec(prefix+c, left-1)
		}
	}
	rec("", maxLen)
}

// replay: the file is a replay JSON written by the check (field "input" = one case input,
// or "inputs" = a list); run exactly those cases.
func replay(h *harness, path string) {
	b, err := os.ReadFile(path)
	if err != nil {
		fmt.Fprintln(os.Stderr, err)
		os.Exit(2)
	}
	var obj map[string]interface{}
	if err := json.Unmarshal(b, &obj); err != nil {
		fmt.Fprintln(os.Stderr, err)
		os.Exit(2)
	}
	var inputs []string
	if s, ok := obj["input"].(string); ok {
		inputs = append(inputs, s)
	}
	if l, ok := obj["inputs"].([]interface{}); ok {
		for _, x := range l {
			if s, ok := x.(string); ok {
				inputs = append(inputs, s)
			}
		}
	}
	for _, in := range inputs {
		f := strings.Fields(in)
		if len(f) < 2 {
			continue
		}
		switch f[0] {
		case "tok":
			h.out.Case(in, tokObs(dec(f[1])), true, "replay")
		case "atom":
			h.out.Case(in, atomObs(dec(f[1])), true, "replay")
		case "chunk":
			cuts := "-"
			if len(f) > 2 {
				cuts = f[2]
			}
			impl, _, _ := h.chunkImpl(dec(f[1]), parseCuts(cuts), nil)
			h.out.Case(in, impl, true, "replay")
			fmt.Printf("replay %s\n  %s\n", in, strings.ReplaceAll(impl, " ;; ", "\n  "))
		case "queue":
			var sc []bool
			if len(f) > 3 {
				for _, ch := range f[3] {
					sc = append(sc, ch == '1')
				}
			}
			impl, _, _ := h.chunkImpl(dec(f[1]), parseCuts(f[2]), sc)
			h.out.Case(in, impl, true, "replay")
			fmt.Printf("replay %s\n  %s\n", in, strings.ReplaceAll(impl, " ;; ", "\n  "))
		case "calls":
			t, via, cs := parseCalls(f)
			impl, _ := h.callsImpl(t, via, cs)
			h.out.Case(in, impl, true, "replay")
			fmt.Printf("replay %s\n  %s\n", in, strings.ReplaceAll(impl, " ;; ", "\n  "))
		case "repl":
			impl, _ := h.replImpl(dec(f[1]))
			h.out.Case(in, impl, true, "replay")
			fmt.Printf("replay %s\n  %s\n", in, strings.ReplaceAll(impl, " ;; ", "\n  "))
		case "hist":
			n, _ := strconv.Atoi(f[2])
			var hs []hitem
			for i := 0; i < n && 3+3*i+2 < len(f); i++ {
				ab, md := parseFlag(f[5+3*i])
				hs = append(hs, hitem{text: dec(f[3+3*i]), cuts: parseCuts(f[4+3*i]), abandon: ab, mode: md})
			}
			tm := 0
			if last := f[len(f)-1]; len(last) == 2 && last[0] == 'T' {
				tm = int(last[1] - '0')
			}
			impl, _ := h.histImpl(dec(f[1]), hs, tm)
			h.out.Case(in, impl, true, "replay")
			fmt.Printf("replay %s\n  %s\n", in, strings.ReplaceAll(impl, " ;; ", "\n  "))
		}
	}
}
