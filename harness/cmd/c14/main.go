// c14: hashes behave as insertion-ordered maps under every operation history.
//
// Drives the REAL hash of the interpreter through the registered builtins
// (hash hset hdel hget keys len hpair __rangeLen __rangeKey __rangePair str json and the
// range macro), in two ways:
//   mode A: the builtin is looked up by name in the interpreter's global scope
//           (env.FindObject) and applied to Go-built arguments (env.Apply)   -- fast, used
//           for the exhaustive enumeration of all histories up to the length bound;
//   mode S: every call is a script text evaluated by env.EvalString with keys/values bound
//           by AddGlobal                                                     -- used for short
//           exhaustive histories and for long random ones.
// After the history the whole observable surface is read (and read a second time, to see that
// reading changed nothing).  In the exhaustive part every prefix is a case of its own, so this is
// "after EVERY step"; in the random part each prefix is emitted as a case.
//
// cases file:  ID \t INPUT \t IMPL   (INPUT is what the model runner reads, see ocaml/c14/run.ml)
package main

import (
	"encoding/hex"
	"encoding/json"
	"fmt"
	"os"
	"strconv"
	"strings"

	"github.com/glycerine/zygomys/v9/zygo"
	"verif/harness/lib"
)

// ---------------------------------------------------------------- keys

type kspec struct {
	kind  byte // I C Y S A N(int = symbol number of name) F(int = fnv32 code of string) M(char = symbol number of name)
	i     int64
	s     string
	elems []kspec
}

func build(env *zygo.Zlisp, k kspec) zygo.Sexp {
	switch k.kind {
	case 'I':
		return &zygo.SexpInt{Val: k.i}
	case 'C':
		return &zygo.SexpChar{Val: rune(k.i)}
	case 'Y':
		return env.MakeSymbol(k.s)
	case 'S':
		return &zygo.SexpStr{S: k.s}
	case 'N', 'F', 'M':
		var probe zygo.Sexp = env.MakeSymbol(k.s)
		if k.kind == 'F' {
			probe = &zygo.SexpStr{S: k.s}
		}
		code, err := zygo.HashExpression(nil, probe)
		if err != nil {
			panic(err)
		}
		if k.kind == 'M' {
			return &zygo.SexpChar{Val: rune(code)}
		}
		return &zygo.SexpInt{Val: int64(code)}
	case 'A':
		var vs []zygo.Sexp
		for _, e := range k.elems {
			vs = append(vs, build(env, e))
		}
		return &zygo.SexpArray{Val: vs, Env: env}
	}
	panic("bad kspec")
}

// canonical type-tagged form of a key (the same text the model runner prints)
func shape(k zygo.Sexp) string {
	switch x := k.(type) {
	case *zygo.SexpInt:
		return "I" + strconv.FormatInt(x.Val, 10)
	case *zygo.SexpChar:
		return "C" + strconv.FormatInt(int64(x.Val), 10)
	case *zygo.SexpSymbol:
		code, err := zygo.HashExpression(nil, x)
		if err != nil {
			return "Y?"
		}
		return "Y" + strconv.Itoa(code)
	case *zygo.SexpStr:
		return "S" + hex.EncodeToString([]byte(x.S))
	case *zygo.SexpArray:
		var parts []string
		for _, e := range x.Val {
			parts = append(parts, shape(e))
		}
		return "A(" + strings.Join(parts, ",") + ")"
	}
	if k == nil {
		return "?go-nil"
	}
	return "?" + strings.ReplaceAll(k.SexpString(nil), "\t", " ")
}

// how SexpHash.SexpString spells a key inside (str h)
func dstr(k zygo.Sexp) string {
	switch x := k.(type) {
	case *zygo.SexpStr:
		return `"` + x.S + `"`
	case *zygo.SexpSymbol:
		return x.Name()
	}
	return k.SexpString(nil)
}

// how the JSON encoder spells a key as an object key: taken from the real encoder (a probe hash
// holding only that key), because the spelling of keys is not this property's subject
func djson(env *zygo.Zlisp, k zygo.Sexp) (res string) {
	// a key of the shape [[a]] is never stored as such (HashSet stores [a]); its probe hash
	// cannot be encoded at all (finding nested-one-element-array-key) and its spelling is never needed
	defer func() {
		if r := recover(); r != nil {
			res = "?unencodable"
		}
	}()
	if a, isArr := k.(*zygo.SexpArray); isArr && len(a.Val) == 1 {
		// a probe would store the element, not the array: [a] can only be a stored key through
		// [[a]] (finding nested-one-element-array-key); spell it as the encoder spells other arrays
		by, _ := json.Marshal(k.SexpString(nil))
		return string(by)
	}
	h, err := zygo.MakeHash(nil, "hash", env)
	if err != nil {
		panic(err)
	}
	if err := h.HashSet(k, &zygo.SexpInt{Val: 0}); err != nil {
		panic(err)
	}
	s := zygo.SexpToJson(h)
	const prefix = `{"Atype":"hash", `
	idx := strings.Index(s, `:0, "zKeyOrder":[`)
	if !strings.HasPrefix(s, prefix) || idx < len(prefix) {
		panic("json of a one-key hash has an unexpected shape: " + s)
	}
	return s[len(prefix):idx]
}

type universe struct {
	id    string
	specs []kspec
	keys  []zygo.Sexp
}

func (u *universe) header(env *zygo.Zlisp) (input, impl string) {
	var toks []string
	for _, k := range u.keys {
		code, err := zygo.HashExpression(nil, k)
		if err != nil {
			panic(fmt.Sprintf("universe key %s cannot be hashed: %v", shape(k), err))
		}
		toks = append(toks, fmt.Sprintf("%s@%d@%s@%s", shape(k), code,
			hex.EncodeToString([]byte(dstr(k))), hex.EncodeToString([]byte(djson(env, k)))))
	}
	for _, c := range []byte(specials) {
		v := specialValue(env, c)
		toks = append(toks, fmt.Sprintf("=%c@-@%s@%s", c, hex.EncodeToString([]byte(v.SexpString(nil))), hex.EncodeToString([]byte(zygo.SexpToJson(v)))))
	}
	var eq, ac []string
	for _, a := range u.keys {
		for _, b := range u.keys {
			r, err := env.Compare(a, b)
			if err == nil && r == 0 {
				eq = append(eq, "1")
			} else {
				eq = append(eq, "0")
			}
		}
		if _, isArr := a.(*zygo.SexpArray); isArr {
			ac = append(ac, "-")
		} else {
			code, _ := zygo.HashExpression(nil, a)
			ac = append(ac, strconv.Itoa(code))
		}
	}
	return "U " + u.id + " " + strings.Join(toks, " "), "eq=" + strings.Join(eq, "") + ";acode=" + strings.Join(ac, ",")
}

func sym(s string) kspec     { return kspec{kind: 'Y', s: s} }
func str(s string) kspec     { return kspec{kind: 'S', s: s} }
func in(i int64) kspec       { return kspec{kind: 'I', i: i} }
func ch(c rune) kspec        { return kspec{kind: 'C', i: int64(c)} }
func arr(e ...kspec) kspec   { return kspec{kind: 'A', elems: e} }
func symnum(s string) kspec  { return kspec{kind: 'N', s: s} }
func fnvcode(s string) kspec { return kspec{kind: 'F', s: s} }
func symchar(s string) kspec { return kspec{kind: 'M', s: s} }

// universe A = the property's: 2 symbols, 2 strings, 2 ints, a char equal to an int, a one-element
// array, an int equal to a symbol's number (colliding code, different key)
var univA = []kspec{sym("a"), sym("b"), str("s"), str("t"), in(1), in(97), ch('a'), arr(in(1)), symnum("a")}

// universe B = arrays and more collisions: arrays that compare equal but print differently,
// one-element arrays of an int/char pair, the empty array, an int equal to a string's fnv code
var univB = []kspec{arr(in(1), in(97)), arr(in(1), ch('a')), in(97), ch('a'), arr(in(97)), arr(ch('a')), str("s"), fnvcode("s"), arr()}

// universe C = nested one-element arrays: [[1]] is stored as [1] (and then looked up as 1)
var univC = []kspec{in(1), arr(in(1)), arr(arr(in(1))), arr(arr(in(1), in(2))), arr(in(1), in(2))}

// universe V = few keys, many VALUES: histories here also store nil, false, 0, "" and []
var univV = []kspec{sym("a"), str("s"), in(1)}

// universe J = keys of different types that are spelled alike (as JSON member names, partly in print)
var univJ = []kspec{sym("a"), str("a"), in(1), str("1"), ch('x'), str("'x'")}

// universe W = two keys, values that compare equal to each other without being the same value
var univW = []kspec{sym("a"), in(1)}

// universe D = one bucket, three spellings: a symbol, the int with the symbol's number (same code,
// another key) and the char with that number (same code, the SAME key as the int)
var univD = []kspec{sym("a"), symnum("a"), symchar("a")}

// ---------------------------------------------------------------- operations

type op struct {
	del bool
	k   int
	v   int64
	sv  byte // 0 = the integer v; otherwise a special value: N nil, F false, E "", L []
}

// values that look "absent" to careless code: N nil, F false, E "", L [] (and 0); and values that
// are DIFFERENT from each other but equal under Compare (the stored value must be the latest one, not
// one that merely compares equal): the int 97 (written 97), c the char 'a', f the float 97.0,
// h and g two hashes (same TypeName, different content), a and b two distinct arrays [1].
// Immutable values are recognised by type and content, the mutable ones (h g a b) by object identity.
const specials = "NFELcfhgab"
const poolLetters = "hgab"

var pool = map[byte]zygo.Sexp{}

func specialValue(env *zygo.Zlisp, c byte) zygo.Sexp {
	switch c {
	case 'N':
		return zygo.SexpNull
	case 'F':
		return &zygo.SexpBool{Val: false}
	case 'E':
		return &zygo.SexpStr{S: ""}
	case 'L':
		return &zygo.SexpArray{Val: []zygo.Sexp{}, Env: env}
	case 'c':
		return &zygo.SexpChar{Val: 'a'}
	case 'f':
		return &zygo.SexpFloat{Val: 97.0}
	case 'h', 'g', 'a', 'b':
		if v, ok := pool[c]; ok {
			return v
		}
		var v zygo.Sexp
		switch c {
		case 'h', 'g':
			hh, err := zygo.MakeHash(nil, "hash", env)
			if err != nil {
				panic(err)
			}
			name := map[byte]string{'h': "a", 'g': "b"}[c]
			if err := hh.HashSet(env.MakeSymbol(name), &zygo.SexpInt{Val: int64(c)}); err != nil {
				panic(err)
			}
			v = hh
		default:
			v = &zygo.SexpArray{Val: []zygo.Sexp{&zygo.SexpInt{Val: 1}}, Env: env}
		}
		pool[c] = v
		return v
	}
	panic("bad special value")
}

func (o op) String() string {
	if o.del {
		return "d" + strconv.Itoa(o.k)
	}
	if o.sv != 0 {
		return "s" + strconv.Itoa(o.k) + "=" + string(o.sv)
	}
	return "s" + strconv.Itoa(o.k) + "=" + strconv.FormatInt(o.v, 10)
}

func opsString(ops []op) string {
	var p []string
	for _, o := range ops {
		p = append(p, o.String())
	}
	return strings.Join(p, " ")
}

// ---------------------------------------------------------------- drivers

const (
	stOK    = 0
	stErr   = 1
	stCrash = 2
)

type driver interface {
	reset(u *universe, pairs []op)                  // h = (hash k v ..) with the given pairs (none: (hash))
	call(name string, args ...arg) (zygo.Sexp, int) // (name h args...)
	loopValues() (zygo.Sexp, int)                   // key, value, key, value .. seen by the range macro
}

// an argument is a universe key, an integer, a special value, or the default marker
type arg struct {
	kind byte // k i v d
	k    int
	i    int64
}

type base struct {
	env  *zygo.Zlisp
	u    *universe
	dflt zygo.Sexp
}

func classify(err error) int {
	if err == nil {
		return stOK
	}
	if strings.Contains(err.Error(), "caught panic") {
		return stCrash
	}
	return stErr
}

// mode A
type applyDriver struct {
	base
	h   zygo.Sexp
	fns map[string]*zygo.SexpFunction
}

func (d *applyDriver) fn(name string) *zygo.SexpFunction {
	if f, ok := d.fns[name]; ok {
		return f
	}
	obj, found := d.env.FindObject(name)
	f, isFn := obj.(*zygo.SexpFunction)
	if !found || !isFn {
		panic("builtin not found in the global scope: " + name)
	}
	d.fns[name] = f
	return f
}

func (d *applyDriver) apply(name string, args []zygo.Sexp) (res zygo.Sexp, st int) {
	defer func() {
		if r := recover(); r != nil {
			res, st = nil, stCrash
		}
	}()
	v, err := d.env.Apply(d.fn(name), args)
	return v, classify(err)
}

func (d *applyDriver) reset(u *universe, pairs []op) {
	var args []zygo.Sexp
	for _, o := range pairs {
		args = append(args, u.keys[o.k])
		if o.sv != 0 {
			args = append(args, specialValue(d.env, o.sv))
		} else {
			args = append(args, &zygo.SexpInt{Val: o.v})
		}
	}
	h, st := d.apply("hash", args)
	if st != stOK {
		panic("(hash ..) failed")
	}
	d.h = h
}

func (d *applyDriver) call(name string, args ...arg) (zygo.Sexp, int) {
	sx := []zygo.Sexp{d.h}
	for _, a := range args {
		switch a.kind {
		case 'k':
			sx = append(sx, d.u.keys[a.k])
		case 'i':
			sx = append(sx, &zygo.SexpInt{Val: a.i})
		case 'v':
			sx = append(sx, specialValue(d.env, byte(a.i)))
		case 'd':
			sx = append(sx, d.dflt)
		}
	}
	return d.apply(name, sx)
}

func (d *applyDriver) loopValues() (zygo.Sexp, int) { return nil, stErr }

// mode S
type scriptDriver struct {
	base
}

func (d *scriptDriver) eval(src string) (zygo.Sexp, int) {
	r := lib.Eval(d.env, src, 2000000)
	switch r.Class {
	case lib.OutValue:
		return r.Val, stOK
	case lib.OutError:
		return nil, classify(r.Err)
	}
	return nil, stCrash
}

// the constructor as a script text: keys through the globals k<i>, or -- when every key is a symbol
// or a string and every value an integer -- written out as (hash a:1 "s":2) / the literal {a:1 "s":2}
func (d *scriptDriver) reset(u *universe, pairs []op) {
	literal := len(pairs) > 0
	for _, o := range pairs {
		if kd := u.specs[o.k].kind; (kd != 'Y' && kd != 'S') || o.sv != 0 {
			literal = false
		}
	}
	var parts []string
	for _, o := range pairs {
		if literal {
			parts = append(parts, dstr(u.keys[o.k])+":"+strconv.FormatInt(o.v, 10))
			continue
		}
		parts = append(parts, "k"+strconv.Itoa(o.k))
		if o.sv != 0 {
			d.env.AddGlobal("v"+string(o.sv), specialValue(d.env, o.sv))
			parts = append(parts, "v"+string(o.sv))
		} else {
			parts = append(parts, strconv.FormatInt(o.v, 10))
		}
	}
	src := "(def h (hash " + strings.Join(parts, " ") + "))"
	if literal && len(pairs)%2 == 0 {
		src = "(def h {" + strings.Join(parts, " ") + "})"
	}
	if _, st := d.eval(src); st != stOK {
		panic(src + " failed")
	}
}

func (d *scriptDriver) call(name string, args ...arg) (zygo.Sexp, int) {
	src := "(" + name + " h"
	for _, a := range args {
		switch a.kind {
		case 'k':
			// every call passes its own key object, as a script that spells the key out does
			d.env.AddGlobal("k"+strconv.Itoa(a.k), build(d.env, d.u.specs[a.k]))
			src += " k" + strconv.Itoa(a.k)
		case 'i':
			src += " " + strconv.FormatInt(a.i, 10)
		case 'v':
			src += " v" + string(byte(a.i)) // bound by AddGlobal to a fresh special value before the call
			d.env.AddGlobal("v"+string(byte(a.i)), specialValue(d.env, byte(a.i)))
		case 'd':
			src += " dflt"
		}
	}
	return d.eval(src + ")")
}

func (d *scriptDriver) loopValues() (zygo.Sexp, int) {
	if _, st := d.eval("(def acc [])"); st != stOK {
		return nil, stErr
	}
	if _, st := d.eval("(range lk lv h (set acc (append (append acc lk) lv)))"); st != stOK {
		return nil, st
	}
	return d.eval("acc")
}

// ---------------------------------------------------------------- observation

func val(v zygo.Sexp) string {
	for _, c := range []byte(poolLetters) {
		if p, ok := pool[c]; ok && p == v {
			return string(c)
		}
	}
	switch x := v.(type) {
	case *zygo.SexpChar:
		if x.Val == 'a' {
			return "c"
		}
	case *zygo.SexpFloat:
		if x.Val == 97.0 {
			return "f"
		}
	case *zygo.SexpInt:
		return strconv.FormatInt(x.Val, 10)
	case *zygo.SexpBool:
		if !x.Val {
			return "F"
		}
	case *zygo.SexpStr:
		if x.S == "" {
			return "E"
		}
	case *zygo.SexpArray:
		if len(x.Val) == 0 {
			return "L"
		}
	case *zygo.SexpSentinel:
		if v == zygo.SexpNull {
			return "N"
		}
	}
	if v == nil {
		return "?go-nil"
	}
	return "?" + strings.ReplaceAll(v.SexpString(nil), "\t", " ")
}

func outv(v zygo.Sexp, st int) string {
	switch st {
	case stErr:
		return "!"
	case stCrash:
		return "#"
	}
	return val(v)
}

func outpair(v zygo.Sexp, st int) string {
	switch st {
	case stErr:
		return "!"
	case stCrash:
		return "#"
	}
	p, ok := v.(*zygo.SexpPair)
	if !ok {
		return "?" + val(v)
	}
	t, ok := p.Tail.(*zygo.SexpPair)
	if !ok || t.Tail != zygo.SexpNull {
		return "?" + strings.ReplaceAll(v.SexpString(nil), "\t", " ")
	}
	return "(" + shape(p.Head) + ":" + val(t.Head) + ")"
}

func outkey(v zygo.Sexp, st int) string {
	switch st {
	case stErr:
		return "!"
	case stCrash:
		return "#"
	}
	return shape(v)
}

func text(v zygo.Sexp, st int) string {
	switch st {
	case stErr:
		return "!"
	case stCrash:
		return "#"
	}
	switch x := v.(type) {
	case *zygo.SexpStr:
		return strings.ReplaceAll(strings.ReplaceAll(x.S, "\t", "\\t"), "\n", "\\n")
	case *zygo.SexpRaw:
		return strings.ReplaceAll(strings.ReplaceAll(string(x.Val), "\t", "\\t"), "\n", "\\n")
	}
	return "?" + val(v)
}

func positions(nops, nuniv int) []int64 {
	top := nops
	if nuniv < top {
		top = nuniv
	}
	top++
	var ps []int64
	for p := int64(-1); p <= int64(top); p++ {
		ps = append(ps, p)
	}
	return ps
}

func observe(d driver, u *universe, nops int, script bool) string {
	var b strings.Builder
	b.WriteString("len=" + outv(d.call("len")))
	b.WriteString(";keys=")
	ks, st := d.call("keys")
	if a, ok := ks.(*zygo.SexpArray); ok && st == stOK {
		for i, k := range a.Val {
			if i > 0 {
				b.WriteString(",")
			}
			b.WriteString(shape(k))
		}
	} else {
		b.WriteString(outv(ks, st))
	}
	b.WriteString(";get=")
	for i := range u.keys {
		if i > 0 {
			b.WriteString(",")
		}
		b.WriteString(outv(d.call("hget", arg{kind: 'k', k: i})))
	}
	b.WriteString(";getd=")
	for i := range u.keys {
		if i > 0 {
			b.WriteString(",")
		}
		v, st := d.call("hget", arg{kind: 'k', k: i}, arg{kind: 'd'})
		if st == stOK {
			if s, isStr := v.(*zygo.SexpStr); isStr && s.S == "DFLT" {
				b.WriteString("D")
				continue
			}
		}
		b.WriteString(outv(v, st))
	}
	ps := positions(nops, len(u.keys))
	b.WriteString(";hp=")
	for _, p := range ps {
		b.WriteString(outpair(d.call("hpair", arg{kind: 'i', i: p})))
	}
	b.WriteString(";rl=" + outv(d.call("__rangeLen")))
	b.WriteString(";rk=")
	for i, p := range ps {
		if i > 0 {
			b.WriteString(",")
		}
		b.WriteString(outkey(d.call("__rangeKey", arg{kind: 'i', i: p})))
	}
	b.WriteString(";rp=")
	for _, p := range ps {
		b.WriteString(outpair(d.call("__rangePair", arg{kind: 'i', i: p})))
	}
	if script {
		b.WriteString(";lm=")
		v, st := d.loopValues()
		if a, ok := v.(*zygo.SexpArray); ok && st == stOK && len(a.Val)%2 == 0 {
			for i := 0; i+1 < len(a.Val); i += 2 {
				if i > 0 {
					b.WriteString("|")
				}
				b.WriteString(shape(a.Val[i]) + "=" + val(a.Val[i+1]))
			}
		} else {
			b.WriteString(outv(v, st))
		}
	}
	b.WriteString(";str=" + text(d.call("str")))
	b.WriteString(";json=" + text(d.call("json")))
	return b.String()
}

// results handed out earlier are VALUES: a later operation must not change them, and changing
// them must not change the hash.  A held result is re-rendered at the end of the history.
type held struct {
	step int
	what string
	obj  zygo.Sexp
	was  string
}

func renderHeld(v zygo.Sexp) string {
	switch x := v.(type) {
	case *zygo.SexpArray:
		var p []string
		for _, e := range x.Val {
			p = append(p, shape(e))
		}
		return "[" + strings.Join(p, ",") + "]"
	case *zygo.SexpPair:
		return outpair(v, stOK)
	}
	return text(v, stOK)
}

func capture(d driver, step int, hs []held) []held {
	ks, st := d.call("keys")
	n := 0
	if a, ok := ks.(*zygo.SexpArray); ok && st == stOK {
		hs = append(hs, held{step, "keys", ks, renderHeld(ks)})
		n = len(a.Val)
	}
	for p := 0; p < n; p++ {
		if v, st := d.call("hpair", arg{kind: 'i', i: int64(p)}); st == stOK {
			hs = append(hs, held{step, "hpair" + strconv.Itoa(p), v, renderHeld(v)})
		}
		if v, st := d.call("__rangePair", arg{kind: 'i', i: int64(p)}); st == stOK {
			hs = append(hs, held{step, "rangePair" + strconv.Itoa(p), v, renderHeld(v)})
		}
	}
	return hs
}

// overwrite the containers of held results (array slots, pair cells) with junk
func scribble(hs []held) {
	junk := &zygo.SexpStr{S: "JUNK"}
	for _, h := range hs {
		switch x := h.obj.(type) {
		case *zygo.SexpArray:
			for i := range x.Val {
				x.Val[i] = junk
			}
		case *zygo.SexpPair:
			if t, ok := x.Tail.(*zygo.SexpPair); ok {
				t.Head = junk
			}
			x.Head = junk
		}
	}
}

// run a history on a fresh hash; returns the observation after the last step
func runHistory(d driver, u *universe, ops []op, script bool, ctor int) string {
	d.reset(u, ops[:ctor]) // the first ctor operations (all hset) are the constructor's pairs
	var hs []held
	for i, o := range ops {
		if i < ctor {
			continue
		}
		var st int
		if o.del {
			_, st = d.call("hdel", arg{kind: 'k', k: o.k})
		} else if o.sv != 0 {
			_, st = d.call("hset", arg{kind: 'k', k: o.k}, arg{kind: 'v', i: int64(o.sv)})
		} else {
			_, st = d.call("hset", arg{kind: 'k', k: o.k}, arg{kind: 'i', i: o.v})
		}
		if st != stOK {
			return fmt.Sprintf("OPFAILED(%s,%d)", o.String(), st)
		}
		if i+1 < len(ops) {
			hs = capture(d, i+1, hs) // results taken in between, held until the end
		}
	}
	o1 := observe(d, u, len(ops), script)
	o2 := observe(d, u, len(ops), script)
	if o1 != o2 {
		return o1 + ";REOBSERVED-DIFFERENT=" + o2
	}
	for _, h := range hs {
		if now := renderHeld(h.obj); now != h.was {
			return o1 + fmt.Sprintf(";HELD-RESULT-CHANGED(%s taken after step %d was %s now %s)", h.what, h.step, h.was, now)
		}
	}
	// changing what was handed out (now and earlier) must not change the hash
	hs = capture(d, len(ops), hs)
	scribble(hs)
	if o3 := observe(d, u, len(ops), script); o3 != o1 {
		return o1 + ";HASH-CHANGED-THROUGH-A-RESULT=" + o3
	}
	return o1
}

// ---------------------------------------------------------------- main

type replayFile struct {
	Universe string `json:"universe_header"`
	Input    string `json:"input"`
	Cases    []struct {
		Universe string `json:"universe_header"`
		Input    string `json:"input"`
	} `json:"cases"`
}

func main() {
	a := lib.ParseArgs()
	out := lib.NewOut(a.Out)
	out.Rule = "universe A (9 keys: symbols a b, strings s t, ints 1 97, char 'a' (= 97), array [1], int = symbol number of a), universe B (9 keys: arrays [1 97] [1 'a'] [97] ['a'] [], 97, 'a', string s, int = fnv code of s), universe C (5 keys: 1 [1] [[1]] [[1 2]] [1 2]), universe J (6 keys: symbol a, string a, int 1, string 1, char x, string 'x' -- different keys spelled alike), universe W (2 keys a 1 with the mutually Compare-equal values 97, 'a', 97.0, two hashes, two arrays [1]) and universe V (3 keys a s 1 with the values fresh-int, 0, nil, false, empty string, []): ALL histories of hset/hdel (fresh value per step) up to the length bound, each observed after its last step (so after every step of every history); the key list and every positional pair taken after EVERY intermediate step are held and must read the same at the end, and overwriting the handed-out containers must not change the hash; random long histories observed after every step; mode O: every call passes a freshly built key object labelled with an identity, any key (atom or array of != 1 atoms) also in its one-element array form [k]; ALL histories of (hset|hdel) x key x (plain|array form) over universe D (3 keys in one bucket: symbol a, int = a's symbol number, char = a's symbol number) and A, B, C up to the recorded bounds plus random long ones, observing also both lookups with [k], the identities of the objects handed out and the bucket map / KeyOrder / NumKeys themselves; a case is non-trivial when the history has at least 2 operations; distinct = distinct (mode, universe, history) inputs"
	env := zygo.NewZlisp()
	env.StandardSetup()
	dflt := &zygo.SexpStr{S: "DFLT"}
	env.AddGlobal("dflt", dflt)

	mkU := func(id string, specs []kspec) *universe {
		u := &universe{id: id, specs: specs}
		for _, s := range specs {
			u.keys = append(u.keys, build(env, s))
		}
		return u
	}
	uA := mkU("A", univA)
	uB := mkU("B", univB)
	uC := mkU("C", univC)
	uV := mkU("V", univV)
	uW := mkU("W", univW)
	uJ := mkU("J", univJ)
	uD := mkU("D", univD)
	unis := map[string]*universe{"A": uA, "B": uB, "C": uC, "V": uV, "W": uW, "J": uJ, "D": uD}

	var cur *universe
	use := func(u *universe) {
		cur = u
		for i, k := range u.keys {
			env.AddGlobal("k"+strconv.Itoa(i), k)
		}
		in, impl := u.header(env)
		out.Case(in, impl, false, "header:"+u.id)
	}
	ad := &applyDriver{base: base{env: env, dflt: dflt}, fns: map[string]*zygo.SexpFunction{}}
	sd := &scriptDriver{base: base{env: env, dflt: dflt}}
	or := &objRun{env: env, ad: ad}
	emitO := func(ops []oop) {
		impl := or.run(cur, ops)
		input := "O " + cur.id
		if len(ops) > 0 {
			input += " " + oopsString(ops)
		}
		out.Case(input, impl, len(ops) >= 2, "mode:O", "universe:"+cur.id, "len:"+strconv.Itoa(len(ops)))
	}
	var emitC func(mode string, ops []op, ctor int)
	emit := func(mode string, ops []op) { emitC(mode, ops, 0) }
	emitC = func(mode string, ops []op, ctor int) {
		var d driver = ad
		ad.u, sd.u = cur, cur
		if mode == "S" {
			d = sd
		}
		impl := runHistory(d, cur, ops, mode == "S", ctor)
		input := mode + " " + cur.id
		if ctor > 0 {
			input += " c" + strconv.Itoa(ctor)
		}
		if len(ops) > 0 {
			input += " " + opsString(ops)
		}
		out.Case(input, impl, len(ops) >= 2, "mode:"+mode, "universe:"+cur.id, "len:"+strconv.Itoa(len(ops)))
	}

	if a.Replay != "" {
		// a replay file names the universe and the history (the input line of the failing case)
		raw, err := os.ReadFile(a.Replay)
		if err != nil {
			panic(err)
		}
		var rf replayFile
		if err := json.Unmarshal(raw, &rf); err != nil {
			panic(err)
		}
		inputs := []string{rf.Input}
		for _, c := range rf.Cases {
			inputs = append(inputs, c.Input)
		}
		for _, inp := range inputs {
			f := strings.Fields(inp)
			if len(f) < 2 || unis[f[1]] == nil || (f[0] != "A" && f[0] != "S" && f[0] != "O") {
				continue
			}
			use(unis[f[1]])
			if f[0] == "O" {
				emitO(parseOops(f[2:]))
				continue
			}
			var ops []op
			ctor := 0
			for _, t := range f[2:] {
				if t[0] == 'c' {
					ctor, _ = strconv.Atoi(t[1:])
					continue
				}
				if t[0] == 'd' {
					k, _ := strconv.Atoi(t[1:])
					ops = append(ops, op{del: true, k: k})
				} else {
					kv := strings.SplitN(t[1:], "=", 2)
					k, _ := strconv.Atoi(kv[0])
					if len(kv[1]) == 1 && strings.Contains(specials, kv[1]) {
						ops = append(ops, op{k: k, sv: kv[1][0]})
					} else {
						v, _ := strconv.ParseInt(kv[1], 10, 64)
						ops = append(ops, op{k: k, v: v})
					}
				}
			}
			if ctor > len(ops) {
				ctor = len(ops)
			}
			emitC(f[0], ops, ctor)
		}
		out.Close(a.Stats)
		return
	}

	// bounds per tier
	exA, exB, exC, exV, exS := 4, 3, 3, 3, 2
	nRand, randLen := 60, 40
	if a.Tier == "thorough" {
		exA, exB, exC, exV, exS = 5, 4, 5, 4, 3
		nRand, randLen = 600, 80
	}
	var enum func(mode string, prefix []op, depth int)
	ctorBound := 0 // histories up to this length are ALSO run with every leading run of hset as constructor pairs
	enum = func(mode string, prefix []op, depth int) {
		if depth == 0 {
			emit(mode, prefix)
			if len(prefix) <= ctorBound {
				for c := 1; c <= len(prefix) && !prefix[c-1].del; c++ {
					emitC(mode, prefix, c)
				}
			}
			return
		}
		v := int64(len(prefix) + 1)
		for k := range cur.keys {
			enum(mode, append(prefix[:len(prefix):len(prefix)], op{k: k, v: v}), depth-1)
			if cur.id == "V" {
				enum(mode, append(prefix[:len(prefix):len(prefix)], op{k: k, v: 0}), depth-1)
				for _, c := range []byte("NFEL") {
					enum(mode, append(prefix[:len(prefix):len(prefix)], op{k: k, sv: c}), depth-1)
				}
			}
			if cur.id == "W" {
				enum(mode, append(prefix[:len(prefix):len(prefix)], op{k: k, v: 97}), depth-1)
				for _, c := range []byte("cfhgab") {
					enum(mode, append(prefix[:len(prefix):len(prefix)], op{k: k, sv: c}), depth-1)
				}
			}
			enum(mode, append(prefix[:len(prefix):len(prefix)], op{del: true, k: k}), depth-1)
		}
	}
	// shortest histories first: all of length 0, then 1, ... up to the bound
	all := func(mode string, bound int) {
		for d := 0; d <= bound; d++ {
			enum(mode, nil, d)
		}
	}
	ctorBound = 3
	if a.Tier == "thorough" {
		ctorBound = 4
	}
	use(uJ)
	all("A", exA)
	all("S", exS)
	use(uA)
	all("A", exA)
	all("S", exS)
	use(uB)
	all("A", exB)
	all("S", exS-1)
	use(uC)
	all("A", exC)
	all("S", exS)
	use(uV)
	all("A", exV)
	all("S", exS)
	use(uW)
	all("A", exV)
	all("S", exS)

	// mode O: fresh key objects, array forms, object identities and the bookkeeping itself
	exOD, exOA, exOB, exOC := 4, 3, 2, 3
	if a.Tier == "thorough" {
		exOD, exOA, exOB, exOC = 5, 3, 3, 4
	}
	var enumO func(prefix []oop, depth int)
	enumO = func(prefix []oop, depth int) {
		if depth == 0 {
			emitO(prefix)
			return
		}
		v := int64(len(prefix) + 1)
		for k, ks := range cur.specs {
			for _, w := range []bool{false, true} {
				if w && !canWrap(ks) {
					continue
				}
				enumO(append(prefix[:len(prefix):len(prefix)], oop{k: k, wrap: w, v: v}), depth-1)
				enumO(append(prefix[:len(prefix):len(prefix)], oop{del: true, k: k, wrap: w}), depth-1)
			}
		}
	}
	allO := func(u *universe, bound int) {
		use(u)
		for d := 0; d <= bound; d++ {
			enumO(nil, d)
		}
	}
	allO(uD, exOD)
	allO(uA, exOA)
	allO(uB, exOB)
	allO(uC, exOC)

	// random long histories, observed after every step; deletes are biased to live keys
	rng := lib.NewRng(a.Seed)
	for n := 0; n < nRand/2; n++ {
		u := []*universe{uD, uA, uB, uC, uJ}[n%5]
		use(u)
		L := 5 + rng.Intn(randLen)
		nk := 2 + rng.Intn(len(u.keys)-1)
		var ops []oop
		for i := 0; i < L; i++ {
			k := rng.Intn(nk)
			w := rng.Intn(3) == 0 && canWrap(u.specs[k])
			if rng.Intn(10) < 4 {
				ops = append(ops, oop{del: true, k: k, wrap: w})
			} else {
				ops = append(ops, oop{k: k, wrap: w, v: int64(i + 1)})
			}
			emitO(ops)
		}
	}
	for n := 0; n < nRand; n++ {
		u := uA
		if n%4 == 3 {
			u = uB
		}
		if n%10 == 9 {
			u = uC
		}
		if n%10 == 5 {
			u = uV
		}
		if n%10 == 7 {
			u = uW
		}
		if n%10 == 1 {
			u = uJ
		}
		if cur != u {
			use(u)
		}
		mode := "A"
		if n%2 == 1 {
			mode = "S"
		}
		L := 5 + rng.Intn(randLen)
		nk := 2 + rng.Intn(len(u.keys)-1) // restrict to a sub-universe so that keys repeat
		var ops []op
		for i := 0; i < L; i++ {
			k := rng.Intn(nk)
			switch r := rng.Intn(10); {
			case r < 4:
				ops = append(ops, op{del: true, k: k})
			case r < 6:
				if c := rng.Intn(len(specials) + 1); c < len(specials) {
					ops = append(ops, op{k: k, sv: specials[c]})
				} else if rng.Bool() {
					ops = append(ops, op{k: k, v: 0})
				} else {
					ops = append(ops, op{k: k, v: 97})
				}
			default:
				ops = append(ops, op{k: k, v: int64(i + 1)})
			}
			emit(mode, ops)
			if i == 5 || i == L-1 {
				// the same history with its leading run of hset (at most 4) given to the constructor
				c := 0
				for c < len(ops) && c < 4 && !ops[c].del {
					c++
				}
				if c > 0 {
					emitC(mode, ops, c)
				}
			}
		}
	}
	out.Extra["exhaustive_length_universe_A_applied"] = exA
	out.Extra["exhaustive_length_universe_B_applied"] = exB
	out.Extra["exhaustive_length_universe_C_applied"] = exC
	out.Extra["exhaustive_length_universe_V_applied"] = exV
	out.Extra["exhaustive_length_script"] = exS
	out.Extra["exhaustive_length_objects_universe_D_A_B_C"] = []int{exOD, exOA, exOB, exOC}
	out.Extra["random_object_histories"] = nRand / 2
	out.Extra["random_histories"] = nRand
	out.Extra["random_max_length"] = randLen + 4
	out.Close(a.Stats)
}
