// mode O: every call passes its OWN key object (as every script-level call does), labelled with an
// identity; a key may be passed in its one-element array form [k] (token suffix w), which the hash
// functions replace by the element object.  Besides the observable surface of mode A the case
// records WHICH objects come back (keys, hpair, __rangeKey) and the three pieces of bookkeeping
// themselves (SexpHash.Map / KeyOrder / NumKeys are exported fields), which the model runner
// predicts from the Coq model over key objects (Model/HashObj.v).
//
// identities: the n-th operation of a history (1-based) passes the object 100n; an inner array is
// 100n+1, the elements are 100n+2+j.  Objects passed by lookups are not labelled (they are never stored).
package main

import (
	"sort"
	"strconv"
	"strings"

	"github.com/glycerine/zygomys/v9/zygo"
)

type oop struct {
	del  bool
	k    int
	wrap bool
	v    int64
}

func (o oop) String() string {
	w := ""
	if o.wrap {
		w = "w"
	}
	if o.del {
		return "d" + strconv.Itoa(o.k) + w
	}
	return "s" + strconv.Itoa(o.k) + w + "=" + strconv.FormatInt(o.v, 10)
}

func oopsString(ops []oop) string {
	var p []string
	for _, o := range ops {
		p = append(p, o.String())
	}
	return strings.Join(p, " ")
}

func isAtomSpec(k kspec) bool { return k.kind != 'A' }

// [k] can be formed (and is still inside the modelled key shapes) for atoms and for arrays of
// atoms that do not have exactly one element
func canWrap(k kspec) bool {
	if isAtomSpec(k) {
		return true
	}
	if len(k.elems) == 1 {
		return false
	}
	for _, e := range k.elems {
		if !isAtomSpec(e) {
			return false
		}
	}
	return true
}

type objRun struct {
	env *zygo.Zlisp
	ad  *applyDriver
	ids map[zygo.Sexp]int64
}

// a fresh object for the key, labelled from base (0 = unlabelled)
func (r *objRun) fresh(k kspec, base int64, wrap bool) zygo.Sexp {
	label := func(x zygo.Sexp, id int64) zygo.Sexp {
		if base != 0 {
			r.ids[x] = id
		}
		return x
	}
	elems := func(es []kspec) []zygo.Sexp {
		var vs []zygo.Sexp
		for j, e := range es {
			vs = append(vs, label(build(r.env, e), base+2+int64(j)))
		}
		return vs
	}
	if isAtomSpec(k) {
		if !wrap {
			return label(build(r.env, k), base)
		}
		return label(&zygo.SexpArray{Val: []zygo.Sexp{label(build(r.env, k), base+2)}, Env: r.env}, base)
	}
	if len(k.elems) == 1 && !isAtomSpec(k.elems[0]) { // [[a b ..]]
		inner := label(&zygo.SexpArray{Val: elems(k.elems[0].elems), Env: r.env}, base+1)
		return label(&zygo.SexpArray{Val: []zygo.Sexp{inner}, Env: r.env}, base)
	}
	if !wrap {
		return label(&zygo.SexpArray{Val: elems(k.elems), Env: r.env}, base)
	}
	inner := label(&zygo.SexpArray{Val: elems(k.elems), Env: r.env}, base+1)
	return label(&zygo.SexpArray{Val: []zygo.Sexp{inner}, Env: r.env}, base)
}

func (r *objRun) id(x zygo.Sexp) string {
	if id, ok := r.ids[x]; ok {
		return strconv.FormatInt(id, 10)
	}
	return "?"
}

func (r *objRun) call(h zygo.Sexp, name string, args ...zygo.Sexp) (zygo.Sexp, int) {
	return r.ad.apply(name, append([]zygo.Sexp{h}, args...))
}

// the bookkeeping itself: non-empty buckets sorted by the decimal spelling of their code, KeyOrder (identities), NumKeys
func (r *objRun) state(h zygo.Sexp) string {
	hh, ok := h.(*zygo.SexpHash)
	if !ok {
		return "?"
	}
	var bs []string
	for code, arr := range hh.Map {
		if len(arr) == 0 {
			continue
		}
		var ps []string
		// which object / spelling of a key a bucket holds, and the order inside a bucket, cannot be
		// observed from a script: the key is recorded up to Compare = 0 (char as int), the pairs sorted
		for _, p := range arr {
			ps = append(ps, strings.ReplaceAll(shape(p.Head), "C", "I")+"="+val(p.Tail))
		}
		sort.Strings(ps)
		bs = append(bs, strconv.Itoa(code)+":"+strings.Join(ps, ","))
	}
	sort.Strings(bs)
	var ko []string
	for _, k := range hh.KeyOrder {
		ko = append(ko, r.id(k))
	}
	return strings.Join(bs, "|") + "/ko:" + strings.Join(ko, ",") + "/n:" + strconv.Itoa(hh.NumKeys)
}

func (r *objRun) observe(h zygo.Sexp, u *universe, nops int) string {
	var b strings.Builder
	b.WriteString("len=" + outv(r.call(h, "len")))
	b.WriteString(";keys=")
	var koIds []string
	ks, st := r.call(h, "keys")
	if a, ok := ks.(*zygo.SexpArray); ok && st == stOK {
		for i, k := range a.Val {
			if i > 0 {
				b.WriteString(",")
			}
			b.WriteString(shape(k))
			koIds = append(koIds, r.id(k))
		}
	} else {
		b.WriteString(outv(ks, st))
	}
	look := func(field string, wrap, dflt bool) {
		b.WriteString(";" + field + "=")
		for i, ksp := range u.specs {
			if i > 0 {
				b.WriteString(",")
			}
			if wrap && !canWrap(ksp) {
				b.WriteString("-")
				continue
			}
			key := r.fresh(ksp, 0, wrap)
			if !dflt {
				b.WriteString(outv(r.call(h, "hget", key)))
				continue
			}
			v, st := r.call(h, "hget", key, r.ad.dflt)
			if s, isStr := v.(*zygo.SexpStr); st == stOK && isStr && s.S == "DFLT" {
				b.WriteString("D")
			} else {
				b.WriteString(outv(v, st))
			}
		}
	}
	look("get", false, false)
	look("getd", false, true)
	look("getw", true, false)
	look("getdw", true, true)
	ps := positions(nops, 2*len(u.keys))
	var hpIds, rkIds []string
	b.WriteString(";hp=")
	for _, p := range ps {
		v, st := r.call(h, "hpair", &zygo.SexpInt{Val: p})
		b.WriteString(outpair(v, st))
		if pr, ok := v.(*zygo.SexpPair); ok && st == stOK {
			hpIds = append(hpIds, r.id(pr.Head))
		}
	}
	b.WriteString(";rl=" + outv(r.call(h, "__rangeLen")))
	b.WriteString(";rk=")
	for i, p := range ps {
		if i > 0 {
			b.WriteString(",")
		}
		v, st := r.call(h, "__rangeKey", &zygo.SexpInt{Val: p})
		b.WriteString(outkey(v, st))
		if st == stOK {
			rkIds = append(rkIds, r.id(v))
		}
	}
	b.WriteString(";rp=")
	for _, p := range ps {
		b.WriteString(outpair(r.call(h, "__rangePair", &zygo.SexpInt{Val: p})))
	}
	b.WriteString(";ko=" + strings.Join(koIds, ","))
	b.WriteString(";hpo=" + strings.Join(hpIds, ","))
	b.WriteString(";rko=" + strings.Join(rkIds, ","))
	b.WriteString(";st=" + r.state(h))
	b.WriteString(";str=" + text(r.call(h, "str")))
	b.WriteString(";json=" + text(r.call(h, "json")))
	return b.String()
}

func (r *objRun) run(u *universe, ops []oop) string {
	r.ids = map[zygo.Sexp]int64{}
	h, st := r.ad.apply("hash", nil)
	if st != stOK {
		panic("(hash) failed")
	}
	for i, o := range ops {
		key := r.fresh(u.specs[o.k], 100*int64(i+1), o.wrap)
		var st int
		if o.del {
			_, st = r.call(h, "hdel", key)
		} else {
			_, st = r.call(h, "hset", key, &zygo.SexpInt{Val: o.v})
		}
		if st != stOK {
			return "OPFAILED(" + o.String() + "," + strconv.Itoa(st) + ")"
		}
	}
	o1 := r.observe(h, u, len(ops))
	if o2 := r.observe(h, u, len(ops)); o2 != o1 {
		return o1 + ";REOBSERVED-DIFFERENT=" + o2
	}
	return o1
}

func parseOops(toks []string) []oop {
	var ops []oop
	for _, t := range toks {
		if len(t) < 2 {
			continue
		}
		del := t[0] == 'd'
		body := t[1:]
		var v int64
		if !del {
			kv := strings.SplitN(body, "=", 2)
			body = kv[0]
			if len(kv) == 2 {
				v, _ = strconv.ParseInt(kv[1], 10, 64)
			}
		}
		wrap := strings.HasSuffix(body, "w")
		body = strings.TrimSuffix(body, "w")
		k, _ := strconv.Atoi(body)
		ops = append(ops, oop{del: del, k: k, wrap: wrap, v: v})
	}
	return ops
}
