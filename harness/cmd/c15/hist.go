package main

import (
	"fmt"
	"strings"

	"verif/harness/lib"
)

// Stream "hist": multi-evaluation histories.  Macros that make several fresh symbols per
// expansion ((gensym) calls) define hidden globals and getters for them in the caller; later
// evaluations of the caller intern brand-new symbols and bind them (globals, functions with new
// parameter names), expand more macros, and read everything back.  Every step is its own
// EvalString (symbols are interned when a text is read).  The same history with every macro call
// replaced by its expansion written by hand (explicit hidden names) must give the same
// observations: expanding a macro leaves the caller's state untouched, and generated symbols
// never collide with symbols the caller introduces afterwards.

type histStep struct {
	mac, hand string
	observe   bool
}

func (h *H) histories(n int) {
	for i := 0; i < n; i++ {
		h.oneHistory(i)
	}
}

func (h *H) oneHistory(idx int) {
	r := h.rng
	var steps []histStep
	add := func(m, hd string) { steps = append(steps, histStep{mac: m, hand: hd}) }
	same := func(s string) { add(s, s) }
	// macro definitions: k hidden globals, one getter returning them all
	maxK := 4
	for k := 1; k <= maxK; k++ {
		var lets, defs, refs []string
		for j := 0; j < k; j++ {
			lets = append(lets, fmt.Sprintf("s%d (gensym)", j))
			defs = append(defs, fmt.Sprintf("(def ~s%d (+ ~v %d))", j, j))
			refs = append(refs, fmt.Sprintf("~s%d", j))
		}
		def := fmt.Sprintf("(defmac mk%d [g v] (let [%s] ^(begin %s (defn ~g [] (list %s)))))",
			k, strings.Join(lets, " "), strings.Join(defs, " "), strings.Join(refs, " "))
		add(def, "(def unusedmk"+fmt.Sprint(k)+" 0)")
	}
	// a macro that defines hidden globals but takes no new name from the caller
	add("(defmac bump [v] (let [s0 (gensym) s1 (gensym)] ^(begin (def ~s0 ~v) (def ~s1 ~v) (set total (+ total ~s0 ~s1)))))", "(def unusedbump 0)")
	same("(def total 0)")
	// macros whose template unquotes / splices GLOBALS (not parameters): the expansion must be
	// computed again, with the globals' current values, at every call -- also for calls with
	// textually identical arguments, at top level or inside a function compiled later
	hg, hl := r.Intn(50), []int{r.Intn(9), r.Intn(9)}
	hlSrc := func() string {
		parts := []string{}
		for _, x := range hl {
			parts = append(parts, fmt.Sprint(x))
		}
		return strings.Join(parts, " ")
	}
	same(fmt.Sprintf("(def hg %d)", hg))
	same(fmt.Sprintf("(def hl (list %s))", hlSrc()))
	add("(defmac useg [a] ^(list ~a ~hg ~@hl))", "(def unuseduseg 0)")
	add("(defmac usegv [a] ^[~hg ~a ~@hl ~hg])", "(def unusedusegv 0)")
	useArgs := []string{"7", "(+ 1 2)", "total"}
	// names interned up front, so that an expansion naming them interns nothing new
	pre := []string{"getP0", "getP1", "getP2"}
	for _, p := range pre {
		same("(def " + p + " 0)")
	}
	var getters, globals []string
	fresh := 0
	hid := 0
	newName := func(prefix string) string {
		fresh++
		return fmt.Sprintf("%s%dx%dq%d", prefix, idx, fresh, r.Intn(1000))
	}
	obs := func() {
		parts := append([]string{}, globals...)
		for _, g := range getters {
			parts = append(parts, "("+g+")")
		}
		parts = append(parts, "total")
		s := "(list " + strings.Join(parts, " ") + ")"
		steps = append(steps, histStep{mac: s, hand: s, observe: true})
	}
	nsteps := 6 + r.Intn(8)
	for i := 0; i < nsteps; i++ {
		switch r.Intn(11) {
		case 7: // rebind a global that templates unquote
			if r.Intn(2) == 0 {
				hg = r.Intn(50)
				same(fmt.Sprintf("(%s hg %d)", []string{"def", "set"}[r.Intn(2)], hg))
			} else {
				hl = nil
				for j, m := 0, r.Intn(4); j < m; j++ {
					hl = append(hl, r.Intn(9))
				}
				same(fmt.Sprintf("(def hl (list %s))", hlSrc()))
			}
		case 8, 9: // call with (often textually identical) arguments, at top level
			a := useArgs[r.Intn(len(useArgs))]
			if r.Intn(2) == 0 {
				steps = append(steps, histStep{mac: "(useg " + a + ")", hand: fmt.Sprintf("(list %s %d %s)", a, hg, hlSrc()), observe: true})
			} else {
				steps = append(steps, histStep{mac: "(usegv " + a + ")", hand: fmt.Sprintf("[%d %s %s %d]", hg, a, hlSrc(), hg), observe: true})
			}
		case 10: // ... or inside a function compiled now and called now
			a := useArgs[r.Intn(len(useArgs))]
			f := newName("fu")
			add(fmt.Sprintf("(defn %s [] (useg %s))", f, a), fmt.Sprintf("(defn %s [] (list %s %d %s))", f, a, hg, hlSrc()))
			getters = append(getters, f)
		case 0, 1, 2: // expand a k-gensym macro
			k := 1 + r.Intn(maxK)
			var g string
			if r.Intn(3) == 0 {
				g = pre[r.Intn(len(pre))]
			} else {
				g = newName("get")
			}
			v := r.Intn(50)
			var defs, refs []string
			for j := 0; j < k; j++ {
				hid++
				defs = append(defs, fmt.Sprintf("(def hid%dh%d (+ %d %d))", idx, hid, v, j))
				refs = append(refs, fmt.Sprintf("hid%dh%d", idx, hid))
			}
			add(fmt.Sprintf("(mk%d %s %d)", k, g, v),
				fmt.Sprintf("(begin %s (defn %s [] (list %s)))", strings.Join(defs, " "), g, strings.Join(refs, " ")))
			found := false
			for _, x := range getters {
				if x == g {
					found = true
				}
			}
			if !found {
				getters = append(getters, g)
			}
		case 3: // the macro that interns nothing in the caller
			v := r.Intn(9)
			hid += 2
			add(fmt.Sprintf("(bump %d)", v),
				fmt.Sprintf("(begin (def hid%dh%d %d) (def hid%dh%d %d) (set total (+ total hid%dh%d hid%dh%d)))", idx, hid-1, v, idx, hid, v, idx, hid-1, idx, hid))
		case 4, 5: // the caller binds brand-new globals
			for j, m := 0, 1+r.Intn(3); j < m; j++ {
				z := newName("zebra")
				same(fmt.Sprintf("(def %s %d)", z, 100+r.Intn(900)))
				globals = append(globals, z)
			}
		case 6: // a function with brand-new parameter and local names
			f, p, q := newName("fun"), newName("par"), newName("loc")
			same(fmt.Sprintf("(defn %s [%s] (let [%s (* %s 2)] (+ %s %s)))", f, p, q, p, p, q))
			z := newName("res")
			same(fmt.Sprintf("(def %s (%s %d))", z, f, r.Intn(20)))
			globals = append(globals, z)
		}
		if r.Intn(3) == 0 {
			obs()
		}
	}
	obs()

	run := func(hand bool) string {
		env := newEnv()
		h.envN++
		var out []string
		for _, s := range steps {
			src := s.mac
			if hand {
				src = s.hand
			}
			res := lib.Eval(env, src, budget)
			if d, _, _, _ := env.VerifDepths(); d != 0 {
				env.Clear()
			}
			switch res.Class {
			case lib.OutValue:
				if s.observe {
					out = append(out, Canon(res.Val).Tok())
				}
			case lib.OutPanic:
				out = append(out, fmt.Sprintf("PANIC %v", res.Panic))
			default:
				out = append(out, "ERR@"+src)
			}
		}
		return strings.Join(out, " / ")
	}
	// drop the definitions of macros this history never expands
	used := func(name string) bool {
		for _, s := range steps {
			if !strings.HasPrefix(s.mac, "(defmac ") && strings.Contains(s.mac, "("+name+" ") {
				return true
			}
		}
		return false
	}
	kept := steps[:0]
	for _, s := range steps {
		if strings.HasPrefix(s.mac, "(defmac ") {
			name := strings.Fields(s.mac)[1]
			if !used(name) {
				continue
			}
		}
		kept = append(kept, s)
	}
	steps = kept
	actual := run(false)
	expected := run(true)
	var ms []string
	for _, s := range steps {
		m := s.mac
		if s.observe {
			m = "?" + m
		}
		ms = append(ms, m)
	}
	h.out.Case("hist|"+expected+"|"+strings.Join(ms, " ;; "), actual, true, "history", fmt.Sprintf("history-steps-%d", len(steps)/5*5))
}

// replayHist evaluates the recorded steps (observation steps start with '?').
func replayHist(lines []string) string {
	for _, s := range lines {
		if s == "#base" || strings.HasPrefix(s, "!") {
			return runSteps(lines) // a soak history (round6.go)
		}
	}
	env := newEnv()
	var out []string
	for _, s := range lines {
		observe := strings.HasPrefix(s, "?")
		s = strings.TrimPrefix(s, "?")
		res := lib.Eval(env, s, budget)
		if d, _, _, _ := env.VerifDepths(); d != 0 {
			env.Clear()
		}
		switch res.Class {
		case lib.OutValue:
			if observe {
				out = append(out, Canon(res.Val).Tok())
			}
		case lib.OutPanic:
			out = append(out, fmt.Sprintf("PANIC %v", res.Panic))
		default:
			out = append(out, "ERR@"+s)
		}
	}
	return strings.Join(out, " / ")
}
