package main

import (
	"fmt"
	"strings"

	"github.com/glycerine/zygomys/v9/zygo"
	"verif/harness/lib"
)

// A macro whose body is a template over its parameters and two globals
// (g0 = 11, gl = (1 2 3)).
type macroDef struct {
	name     string
	params   []string
	kinds    []byte // 'i' int-valued expression, 'l' list of int-valued expressions (spliced), 'a' any
	variadic bool   // the last parameter collects the remaining argument forms
	probed   bool   // body records the caller's depths before and after the template runs
	body     *T
	src      string // the definition's source text, fixed once (it may carry comments)
}

func (m *macroDef) paramSrc() string {
	ps := append([]string{}, m.params...)
	if m.variadic {
		ps[len(ps)-1] = "& " + ps[len(ps)-1]
	}
	return "[" + strings.Join(ps, " ") + "]"
}

func (m *macroDef) defSrc() string {
	if m.src == "" {
		m.src = m.defSrc1()
	}
	return m.src
}

func (m *macroDef) defSrc1() string {
	if m.probed {
		return fmt.Sprintf("(defmac %s %s (px) (def r__ ^%s%s) (px) r__)", m.name, m.paramSrc(), afterPrefix(), m.body.Src(true))
	}
	return fmt.Sprintf("(defmac %s %s ^%s%s)", m.name, m.paramSrc(), afterPrefix(), m.body.Src(true))
}

func (h *H) pickParam(m *macroDef, kinds string) (string, bool) {
	var c []string
	for i, k := range m.kinds {
		if strings.IndexByte(kinds, k) >= 0 {
			c = append(c, m.params[i])
		}
	}
	if len(c) == 0 {
		return "", false
	}
	return c[h.rng.Intn(len(c))], true
}

func (h *H) intElem(m *macroDef) *T {
	r := h.rng
	switch r.Intn(6) {
	case 0, 1:
		if p, ok := h.pickParam(m, "i"); ok {
			return tu(vy(p))
		}
	case 2:
		if p, ok := h.pickParam(m, "l"); ok {
			return tsp(vy(p))
		}
	case 3:
		return []*T{tu(vy("g0")), tsp(vy("gl"))}[r.Intn(2)]
	}
	return tl(vi(int64(r.Intn(9))))
}

func (h *H) genCode(m *macroDef, depth int) *T {
	r := h.rng
	c := r.Intn(10)
	if depth <= 0 {
		c = r.Intn(4)
	}
	switch c {
	case 0, 1: // (+ ints..)
		t := tlist(tl(vy("+")))
		for i, n := 0, 1+r.Intn(3); i < n; i++ {
			t.L = append(t.L, h.intElem(m))
		}
		return t
	case 2, 3, 4, 5: // (list elems..) or [elems..]
		t := tlist(tl(vy("list")))
		if r.Intn(3) == 0 {
			t = tarr()
		}
		for i, n := 0, r.Intn(5); i < n; i++ {
			switch r.Intn(6) {
			case 0:
				if p, ok := h.pickParam(m, "ai"); ok {
					t.L = append(t.L, tu(vy(p)))
					continue
				}
				fallthrough
			case 1:
				t.L = append(t.L, h.intElem(m))
			case 2:
				t.L = append(t.L, h.genCode(m, depth-1))
			case 3:
				t.L = append(t.L, tlist(tl(vy("quote")), tl(vy(fmt.Sprintf("z%d", r.Intn(3))))))
			case 4:
				t.L = append(t.L, tl(vs(fmt.Sprintf("c%d", r.Intn(3)))))
			default:
				t.L = append(t.L, h.intElem(m))
			}
		}
		return t
	case 6: // (let [t <int>] (list t t))
		return tlist(tl(vy("let")), tarr(tl(vy("t")), h.intElem1(m)), tlist(tl(vy("list")), tl(vy("t")), h.genCode(m, depth-1)))
	case 7: // (cond (< <int> 5) A B)
		return tlist(tl(vy("cond")), tlist(tl(vy("<")), h.intElem1(m), tl(vi(5))), h.genCode(m, depth-1), h.genCode(m, depth-1))
	case 8: // (begin A B)
		return tlist(tl(vy("begin")), h.genCode(m, depth-1), h.genCode(m, depth-1))
	}
	return tlist(tl(vy("list")), h.genCode(m, depth-1), h.intElem(m))
}

// intElem1: exactly one int-valued element (no splice)
func (h *H) intElem1(m *macroDef) *T {
	for i := 0; i < 10; i++ {
		if t := h.intElem(m); t.K != 'S' {
			return t
		}
	}
	return tl(vi(1))
}

func (h *H) intForm() *V {
	r := h.rng
	switch r.Intn(6) {
	case 0:
		return vy("a0")
	case 1:
		return vy("g0")
	case 2:
		return vl(vy("+"), vy("a0"), vi(int64(r.Intn(5))))
	case 3:
		return vl(vy("*"), vy("g0"), vi(2))
	}
	return vi(int64(r.Intn(20)))
}

func (h *H) argForm(kind byte) *V {
	r := h.rng
	switch kind {
	case 'i':
		return h.intForm()
	case 'l':
		f := vl()
		for i, n := 0, r.Intn(4); i < n; i++ {
			f.L = append(f.L, h.intForm())
		}
		return f
	case 'v':
		return vy("w0")
	case 'w':
		return vy("w1")
	}
	switch r.Intn(5) {
	case 0:
		return vy("gl")
	case 1:
		return vl(vy("list"), h.intForm(), vs("w"))
	case 2:
		return vs("str")
	case 3:
		return vl(vy("quote"), vy("sym"))
	}
	return h.intForm()
}

// genFormKind: macro bodies whose expansion is NOT an ordinary call or special form -- every
// other kind of form Generate dispatches on: an assignment list (target = value, several
// targets, :=), a list whose head is not a symbol, an infix builder block, and the bare unquote
// whose expansion is the argument form itself (a symbol, an atom, an array, a call); plus an
// assignment one level down.  Parameters: p0 target (w0), p1 second target (w1), p2 int
// expression, p3 any expression.
func (h *H) genFormKind(m *macroDef) (*T, string) {
	m.params = []string{"p0", "p1", "p2", "p3"}
	m.kinds = []byte{'v', 'w', 'i', 'a'}
	p := func(i int) *T { return tu(vy(m.params[i])) }
	eq, fa := tl(vy("=")), tl(vy(":="))
	plus := func(a, b *T) *T { return tlist(tl(vy("+")), a, b) }
	switch h.rng.Intn(10) {
	case 0:
		return tlist(p(0), eq, p(2)), "form-assign"
	case 1:
		return tlist(p(0), eq, plus(p(0), p(2))), "form-assign"
	case 2:
		return tlist(p(0), p(1), eq, p(2), plus(p(2), tl(vi(1)))), "form-assign-multi"
	case 3:
		return tlist(tl(vy("fresh9")), fa, p(2)), "form-fresh-assign"
	case 4:
		return tlist(tlist(tl(vy("fn")), tarr(tl(vy("q"))), plus(tl(vy("q")), p(2))), p(2)), "form-head-not-symbol"
	case 5:
		return tlist(tl(vy("infix")), tarr(p(2), tl(vy("+")), tl(vi(1)))), "form-infix"
	case 6:
		return p(3), "form-bare-any"
	case 7:
		return p(0), "form-bare-symbol"
	case 8:
		return tlist(tl(vy("begin")), tlist(p(1), eq, p(2)), plus(p(1), p(0))), "form-assign-nested"
	}
	return tarr(p(0), tlist(p(1), eq, p(2)), p(1)), "form-assign-in-array"
}

type depthRec struct {
	env *zygo.Zlisp
	c   []string
	x   []string
}

func (d *depthRec) install(env *zygo.Zlisp) {
	d.env = env
	snap := func() string {
		a, b, c, e := d.env.VerifDepths()
		return fmt.Sprintf("%d,%d,%d,%d", a, b, c, e)
	}
	env.AddFunction("pc", func(e *zygo.Zlisp, name string, args []zygo.Sexp) (zygo.Sexp, error) {
		d.c = append(d.c, snap())
		return zygo.SexpNull, nil
	})
	env.AddFunction("px", func(e *zygo.Zlisp, name string, args []zygo.Sexp) (zygo.Sexp, error) {
		d.x = append(d.x, snap())
		return zygo.SexpNull, nil
	})
}

// runProg evaluates a program and renders "V=.. C=.. X=.." (or "ERR").
func runProg(env *zygo.Zlisp, d *depthRec, src string) string {
	d.c, d.x = nil, nil
	r := lib.Eval(env, src, budget)
	dd, ds, da, dl := env.VerifDepths()
	post := ""
	if r.Class == lib.OutValue {
		// a later evaluation at top level: globals as the caller left them
		if p := lib.Eval(env, "(list a0 g0 w0 w1)", budget); p.Class == lib.OutValue {
			post = Canon(p.Val).Tok()
		} else {
			post = "ERR"
		}
	}
	if d2, s2, a2, l2 := env.VerifDepths(); d2 != 0 || s2 != 1 || a2 != 0 || l2 != 0 {
		env.Clear()
	}
	switch r.Class {
	case lib.OutError:
		return "ERR"
	case lib.OutValue:
		x := "ok"
		if len(d.x)%2 != 0 {
			x = "odd"
		}
		for i := 0; i+1 < len(d.x); i += 2 {
			if d.x[i] != d.x[i+1] {
				x = "diff:" + d.x[i] + "/" + d.x[i+1]
			}
		}
		return fmt.Sprintf("V=%s +%d R=%d,%d,%d P=%s C=%s X=%s", Canon(r.Val).Tok(), dd, ds, da, dl, post, strings.Join(d.c, ";"), x)
	case lib.OutPanic:
		return fmt.Sprintf("PANIC %v", r.Panic)
	}
	return strings.ToUpper(r.Class)
}

type site struct {
	name string
	prog func(x string) string
}

var sites = []site{
	{"top", func(x string) string { return "(pc) (def res1 " + x + ") (pc) (list res1 w0 w1)" }},
	{"fn", func(x string) string {
		return "(defn f2 [a0 b0] (pc) (def res " + x + ") (pc) (list res w0 w1)) (f2 3 (list 4 5))"
	}},
	{"loop", func(x string) string {
		return "(def out3 []) (for [(def a0 0) (< a0 3) (set a0 (+ a0 1))] (pc) (set out3 (append out3 " + x + ")) (pc)) (list out3 w0 w1)"
	}},
	{"arg", func(x string) string { return "(pc) (def res4 (list 1 " + x + " 2)) (pc) (list res4 w0 w1)" }},
	{"let", func(x string) string { return "(defn g5 [a0] (let [q 10] (pc) (list q " + x + " w0 w1))) (g5 6)" }},
	{"closure", func(x string) string { return "(def k6 (fn [a0] (pc) (def r6 " + x + ") (list r6 w0 w1))) (k6 7)" }},
	// the form as a statement, its effect on the variables read back afterwards
	{"stmt-top", func(x string) string { return "(pc) " + x + " (pc) (list w0 w1)" }},
	{"stmt-fn", func(x string) string {
		return "(defn f9 [a0] (def w1 1) (pc) " + x + " (pc) (list w0 w1 a0)) (list (f9 2) w0 w1)"
	}},
	{"stmt-loop", func(x string) string {
		return "(for [(def a0 0) (< a0 3) (set a0 (+ a0 1))] " + x + ") (list w0 w1)"
	}},
	{"outer-macro", func(x string) string {
		return "(defmac outer7 [z] ^(list ~z ~z)) (pc) (def res7 (outer7 " + x + ")) (pc) (list res7 w0 w1)"
	}},
}

func (h *H) macros(n int) {
	for i := 0; i < n; i++ {
		h.oneMacro(i)
		if i%2 == 0 {
			h.oneControl(i)
		}
		if i%3 == 0 {
			h.oneNested(i)
		}
	}
}

// oneControl: expansions that contain control flow which depends on the CALLER's generator
// context -- (break) / (continue) of a loop outside the expansion with 0..3 scopes (let,
// newScope) between the loop body and the call, and self tail calls from inside nested lets --
// inside a function called as a top-level form and directly at top level.  Compared with the
// hand-written form on value, the residue of all four stacks, and a later top-level lookup of
// globals that share their names with the function's parameters.
func (h *H) oneControl(idx int) {
	r := h.rng
	wrap := func(body string, k int) string {
		for j := 0; j < k; j++ {
			switch r.Intn(3) {
			case 0:
				body = fmt.Sprintf("(let [q%d (+ i %d)] %s)", j, j, body)
			case 1:
				body = fmt.Sprintf("(newScope (def q%d %d) %s)", j, j, body)
			default:
				body = fmt.Sprintf("(letseq [q%d i r%d q%d] %s)", j, j, j, body)
			}
		}
		return body
	}
	k := r.Intn(4)
	lim := r.Intn(5)
	type ctl struct{ def, mac, hand, name string }
	var c ctl
	kind := r.Intn(5)
	switch kind {
	case 0:
		c = ctl{"(defmac brk [c] ^(cond ~c (break) 0))", fmt.Sprintf("(brk (> i %d))", lim), fmt.Sprintf("(cond (> i %d) (break) 0)", lim), "break-cond"}
	case 1:
		c = ctl{"(defmac cnt [c] ^(cond ~c (continue) 0))", fmt.Sprintf("(cnt (== i %d))", lim), fmt.Sprintf("(cond (== i %d) (continue) 0)", lim), "continue-cond"}
	case 2:
		c = ctl{"(defmac brk0 [] ^(break))", fmt.Sprintf("(cond (> i %d) (brk0) 0)", lim), fmt.Sprintf("(cond (> i %d) (break) 0)", lim), "break-bare"}
	case 3:
		c = ctl{"(defmac cnt1 [v] ^(begin (set ~v (+ ~v 100)) (continue)))", fmt.Sprintf("(cond (== i %d) (cnt1 acc) 0)", lim), fmt.Sprintf("(cond (== i %d) (begin (set acc (+ acc 100)) (continue)) 0)", lim), "continue-begin"}
	default:
		c = ctl{"(defmac again [f n acc] ^(~f (- ~n 1) (+ ~acc ~n)))", "", "", "self-tail"}
	}
	var progM, progH string
	inFn := r.Intn(3) != 0
	mk := func(x string) string {
		if kind == 4 {
			body := "(cond (== a0 0) acc " + x + ")"
			for j := 0; j < k; j++ {
				body = fmt.Sprintf("(let [q%d %d] %s)", j, j, body)
			}
			return "(defn ts9 [a0 acc] " + body + ") (ts9 4 0)"
		}
		loop := "(for [(def i 0) (< i 6) (set i (+ i 1))] " + wrap("(begin "+x+" (set acc (+ acc i)))", k) + ")"
		if inFn {
			return "(defn cf9 [a0 w0] (def acc 0) " + loop + " (list acc a0 w0)) (cf9 77 88)"
		}
		return "(def acc 0) " + loop + " (list acc a0 w0)"
	}
	if kind == 4 {
		progM, progH = mk("(again ts9 a0 acc)"), mk("(ts9 (- a0 1) (+ acc a0))")
	} else {
		progM, progH = mk(c.mac), mk(c.hand)
	}
	setup := func(withMacro bool) (*zygo.Zlisp, *depthRec) {
		env := newEnv()
		h.envN++
		d := &depthRec{}
		d.install(env)
		defs := []string{"(def g0 11)", "(def gl (list 1 2 3))", "(def a0 3)", "(def w0 40)", "(def w1 50)"}
		if withMacro {
			defs = append(defs, c.def)
		}
		for _, s := range defs {
			if r := lib.Eval(env, s, budget); r.Class != lib.OutValue {
				panic("harness: control setup failed: " + s + " => " + r.Show())
			}
		}
		return env, d
	}
	envM, dM := setup(true)
	envH, dH := setup(false)
	actual := runProg(envM, dM, progM)
	expected := runProg(envH, dH, progH)
	// a second, later call in the same interpreter
	actual += " ;2; " + runProg(envM, dM, progM)
	expected += " ;2; " + runProg(envH, dH, progH)
	h.out.Case("call|"+expected+"|ctl-"+c.name+"|"+c.def+"|"+progM+"|"+progH, actual, true,
		"control-"+c.name, fmt.Sprintf("control-scopes-between-%d", k))
}

func (h *H) oneMacro(idx int) {
	r := h.rng
	m := &macroDef{name: "m", probed: r.Intn(2) == 0}
	np := 1 + r.Intn(3)
	for j := 0; j < np; j++ {
		m.params = append(m.params, fmt.Sprintf("p%d", j))
		m.kinds = append(m.kinds, "iila"[r.Intn(4)])
	}
	if r.Intn(4) == 0 {
		m.variadic = true
		m.kinds[np-1] = 'l'
	}
	m.body = h.genCode(m, 1+r.Intn(3))
	formKind := ""
	if r.Intn(3) == 0 {
		// the expansion is one of the OTHER kinds of form the generator distinguishes
		m.variadic = false
		m.body, formKind = h.genFormKind(m)
		np = len(m.params)
	}
	if r.Intn(3) == 0 {
		// comments inside the macro body and its template (multi-line macro bodies)
		commentFn = h.someComment
		m.src = strings.Replace(m.defSrc1(), "] ", "]\n  // what it expands to\n  ", 1)
		commentFn = nil
	}
	// argument forms
	var args []*V
	nfixed := np
	if m.variadic {
		nfixed = np - 1
	}
	for j := 0; j < nfixed; j++ {
		args = append(args, h.argForm(m.kinds[j]))
	}
	var rest *V
	if m.variadic {
		rest = h.argForm('l')
		args = append(args, rest.L...)
	}
	wrongCount := false
	if !m.variadic && r.Intn(25) == 0 {
		wrongCount = true
		if r.Intn(2) == 0 {
			args = args[:len(args)-1]
		} else {
			args = append(args, vi(1))
		}
	}
	if r.Intn(25) == 0 && len(args) > 0 && !m.variadic {
		// an argument of the wrong shape: an int where a list is spliced, or the reverse
		j := r.Intn(len(args))
		if j < len(m.kinds) && m.kinds[j] == 'l' {
			args[j] = vi(5)
		}
	}
	argSrc := make([]string, len(args))
	argTok := make([]string, len(args))
	for j, a := range args {
		argSrc[j] = a.Src()
		argTok[j] = a.Tok()
	}
	callSrc := "(" + m.name
	argSep := " "
	if r.Intn(5) == 0 {
		argSep = " /* arg */ "
	}
	if len(args) > 0 {
		callSrc += argSep + strings.Join(argSrc, argSep)
	}
	callSrc += ")"

	setup := func() (*zygo.Zlisp, *depthRec) {
		env := newEnv()
		h.envN++
		d := &depthRec{}
		d.install(env)
		for _, s := range []string{"(def g0 11)", "(def gl (list 1 2 3))", "(def a0 3)", "(def w0 40)", "(def w1 50)", m.defSrc()} {
			if r := lib.Eval(env, s, budget); r.Class != lib.OutValue {
				if s == m.defSrc() {
					// a definition the reader or generator rejects: the cases below then fail
					// against the specification with this definition in their replay
					continue
				}
				panic("harness: macro setup failed: " + s + " => " + r.Show())
			}
		}
		return env, d
	}
	envM, dM := setup()
	h.env, h.rho = envM, map[string]string{}

	// the model's parameter binding: the rest parameter holds the list of remaining forms
	modelArgs := append([]string{}, argTok...)
	if m.variadic {
		modelArgs = append(append([]string{}, argTok[:nfixed]...), rest.Tok())
	}
	// hand substitution
	bind := func(e *V) *V {
		if e.K != 'y' {
			return nil
		}
		for j, p := range m.params {
			if p == e.S {
				if m.variadic && j == len(m.params)-1 {
					return rest
				}
				if j < len(args) {
					return args[j]
				}
				return nil
			}
		}
		switch e.S {
		case "g0":
			return vi(11)
		case "gl":
			return vl(vi(1), vi(2), vi(3))
		}
		return nil
	}
	var hand *V
	func() {
		defer func() {
			if x := recover(); x != nil {
				if _, ok := x.(errSubst); !ok {
					panic(x)
				}
				hand = nil
			}
		}()
		if wrongCount {
			return
		}
		hand = m.body.HandSubst(bind)
	}()
	handTok := "ERR"
	if hand != nil {
		handTok = hand.Tok()
	}

	// ---- mac case: macexpand
	vtok := "yPARSE-ERROR"
	// the template as it stands in the macro's definition text (comments and all)
	bodySrc := "^" + m.body.Src(true)
	if i := strings.LastIndex(m.defSrc(), " ^"); i >= 0 && !m.probed {
		bodySrc = strings.TrimSuffix(m.defSrc()[i+1:], ")")
	}
	if x, ok := h.parseRaw(bodySrc); ok {
		if arg, ok := sqArg(x); ok {
			vtok = Canon(arg).Tok()
		}
	}
	rx := lib.Eval(envM, "(macexpand "+callSrc+")", budget)
	etok := "ERR"
	if rx.Class == lib.OutValue {
		etok = "NOT-QUOTED " + Canon(rx.Val).Tok()
		if p, ok := rx.Val.(*zygo.SexpPair); ok {
			if s, ok := p.Head.(*zygo.SexpSymbol); ok && s.Name() == "quote" {
				etok = Canon(p.Tail).Tok()
			}
		}
	} else if rx.Class == lib.OutPanic {
		etok = fmt.Sprintf("PANIC %v", rx.Panic)
	}
	if d, _, _, _ := envM.VerifDepths(); d != 0 {
		etok += fmt.Sprintf(" LEFT-%d", d)
		envM.Clear()
	}
	binds := "|yg0 => " + h.rhoOf(vy("g0")) + "|ygl => " + h.rhoOf(vy("gl"))
	tags := []string{"macro", fmt.Sprintf("macro-params-%d", len(m.params))}
	if m.variadic {
		tags = append(tags, "macro-variadic")
	}
	if m.probed {
		tags = append(tags, "macro-probed")
	}
	if handTok == "ERR" {
		tags = append(tags, "macro-expansion-fails")
	}
	if m.body.Count('S') > 0 {
		tags = append(tags, "macro-splice")
	}
	if formKind != "" {
		tags = append(tags, formKind)
	}
	nontrivial := m.body.Count('U')+m.body.Count('S') > 0
	h.out.Case("mac|"+esc(m.defSrc())+" ;; (macexpand "+callSrc+")|"+strings.Join(m.params, " ")+"|"+m.body.Tok()+"|"+vtok+"|"+strings.Join(modelArgs, " , ")+binds,
		"E="+etok+" H="+handTok, nontrivial, tags...)

	// ---- call cases: every site, macro call against the hand-written expansion
	envH, dH := setup()
	handSrc := ""
	if hand != nil {
		handSrc = hand.Src()
	}
	for _, s := range sites {
		actual := runProg(envM, dM, s.prog(callSrc))
		expected := "ERR"
		if hand != nil {
			expected = runProg(envH, dH, s.prog(handSrc))
		}
		desc := s.name + "|" + esc(m.defSrc()) + "|" + s.prog(callSrc) + "|" + s.prog(handSrc)
		h.out.Case("call|"+expected+"|"+desc, actual, nontrivial, "site-"+s.name)
	}
	// a macro whose expansion is the macro call: (via args) -> (m args)
	if !wrongCount {
		pm := "(defmac via8 [& z] ^(" + m.name + " ~@z)) (pc) (def res8 (via8 " + strings.Join(argSrc, " ") + ")) (pc) (list res8 w0 w1)"
		ph := "(pc) (def res8 " + handSrc + ") (pc) (list res8 w0 w1)"
		actual := runProg(envM, dM, pm)
		expected := "ERR"
		if hand != nil {
			expected = runProg(envH, dH, ph)
		}
		h.out.Case("call|"+expected+"|via-macro|"+esc(m.defSrc())+"|"+pm+"|"+ph, actual, nontrivial, "site-via-macro")
	}
}

// oneNested: what the macro body's interpreter (the duplicate) shares with the caller.  The
// body of `outer` uses, while it RUNS, other macros in argument position of an unquoted
// compound expression (call arguments are compiled at run time, inside the duplicate), nested
// twice, under cond, spliced; another macro at statement level of the body; a user function; a
// macro defined LATER than outer; and a macro that the body itself defines and the expansion
// then calls in the caller.  rho of the unquoted expression is known by construction
// (arithmetic on the literal argument); the expansion is compared with model, specification and
// hand substitution (mac) and the call with the hand-written form at every site (call).
func (h *H) oneNested(idx int) {
	r := h.rng
	k1, k2, k3, a := int64(1+r.Intn(9)), int64(2+r.Intn(5)), int64(r.Intn(20)), int64(r.Intn(10))
	inner := fmt.Sprintf("(defmac inner [x] ^(+ ~x %d))", k1)
	helper := fmt.Sprintf("(defn helper [x] (* x %d))", k2)
	y := vy("y")
	in := func(x *V) *V { return vl(vy("inner"), x) }
	var defs []string
	var body *T
	var outer, name string
	var e *V     // the unquoted expression
	var ev *V    // its value in the macro's scope
	handSrc := "" // the fully written-out form when the expansion itself is a macro call
	switch fam := r.Intn(7); fam {
	case 0, 5:
		e, ev = vl(vy("+"), vi(k3), in(y)), vi(k3+a+k1)
		body = tlist(tl(vy("list")), tu(e))
		name = "arg-position"
		if fam == 5 {
			name = "defined-later"
		}
	case 1:
		e, ev = vl(vy("list"), in(y), in(in(y))), vl(vi(a+k1), vi(a+2*k1))
		body = tlist(tl(vy("list")), tl(vi(0)), tsp(e))
		name = "nested-spliced"
	case 2:
		v := int64(0)
		if a+k1 > k3 {
			v = 100 + k1
		}
		e, ev = vl(vy("cond"), vl(vy(">"), in(y), vi(k3)), in(vi(100)), vi(0)), vi(v)
		body = tarr(tu(e), tu(y))
		name = "under-cond"
	case 3:
		e, ev = vy("t"), vi(a+k1)
		body = tlist(tl(vy("list")), tu(e), tl(vi(k3)))
		outer = "(defmac outer [y] (def t (inner y)) ^" + body.Src(true) + ")"
		name = "statement-level"
	case 4:
		e, ev = vl(vy("+"), vi(1), vl(vy("helper"), y)), vi(1+a*k2)
		body = tlist(tl(vy("list")), tu(e))
		name = "user-function"
	default:
		e, ev = y, vi(a)
		body = tlist(tl(vy("helper9")), tu(y))
		outer = fmt.Sprintf("(defmac outer [y] (defmac helper9 [x] ^(* ~x %d)) ^%s)", k2, body.Src(true))
		handSrc = fmt.Sprintf("(* %d %d)", a, k2)
		name = "macro-defined-by-body"
	}
	if outer == "" {
		outer = "(defmac outer [y] ^" + body.Src(true) + ")"
	}
	if name == "defined-later" {
		defs = []string{helper, outer, inner}
	} else {
		defs = []string{inner, helper, outer}
	}
	callSrc := fmt.Sprintf("(outer %d)", a)
	hand := body.HandSubst(func(x *V) *V {
		if x.Tok() == e.Tok() {
			return ev
		}
		if x.Tok() == y.Tok() {
			return vi(a)
		}
		return nil
	})
	if handSrc == "" {
		handSrc = hand.Src()
	}
	setup := func(withMacros bool) (*zygo.Zlisp, *depthRec) {
		env := newEnv()
		h.envN++
		d := &depthRec{}
		d.install(env)
		all := []string{"(def g0 11)", "(def gl (list 1 2 3))", "(def a0 3)", "(def w0 40)", "(def w1 50)"}
		if withMacros {
			all = append(all, defs...)
		}
		for _, s := range all {
			lib.Eval(env, s, budget)
		}
		return env, d
	}
	envM, dM := setup(true)
	h.env, h.rho = envM, map[string]string{}
	vtok := "yPARSE-ERROR"
	if x, ok := h.parseRaw("^" + body.Src(true)); ok {
		if arg, ok := sqArg(x); ok {
			vtok = Canon(arg).Tok()
		}
	}
	rx := lib.Eval(envM, "(macexpand "+callSrc+")", budget)
	etok := "ERR"
	if rx.Class == lib.OutValue {
		etok = "NOT-QUOTED " + Canon(rx.Val).Tok()
		if p, ok := rx.Val.(*zygo.SexpPair); ok {
			if s, ok := p.Head.(*zygo.SexpSymbol); ok && s.Name() == "quote" {
				etok = Canon(p.Tail).Tok()
			}
		}
	} else if rx.Class == lib.OutPanic {
		etok = fmt.Sprintf("PANIC %v", rx.Panic)
	}
	if d, _, _, _ := envM.VerifDepths(); d != 0 {
		etok += fmt.Sprintf(" LEFT-%d", d)
		envM.Clear()
	}
	binds := "|" + e.Tok() + " => " + ev.Tok()
	src := strings.Join(defs, " ;; ")
	h.out.Case("mac|"+src+" ;; (macexpand "+callSrc+")|y|"+body.Tok()+"|"+vtok+"|"+vi(a).Tok()+binds,
		"E="+etok+" H="+hand.Tok(), true, "macro", "nested-"+name)
	envH, dH := setup(false)
	for _, s := range sites {
		actual := runProg(envM, dM, s.prog(callSrc))
		expected := runProg(envH, dH, s.prog(handSrc))
		h.out.Case("call|"+expected+"|"+s.name+"|"+src+"|"+s.prog(callSrc)+"|"+s.prog(handSrc), actual, true, "site-"+s.name, "nested-"+name)
	}
}
