// c15: macro templates expand by exact substitution.
//
// Stream "sq": random and exhaustively enumerated templates (unquote / splice at any position
// of nested lists, arrays and hashes) x bindings, evaluated by the real interpreter through
// three routes (reader sugar at top level, long form inside a call, Go constructors); the
// observable is the canonical value plus the number of operands left on the data stack.
// Stream "mac": (macexpand (m args)) for macros whose bodies are templates.
// Stream "call": the value and the caller's four stack depths of a program containing (m args)
// at various call sites against the same program with the expansion written by hand.
package main

import (
	"encoding/json"
	"fmt"
	"os"
	"strings"

	"github.com/glycerine/zygomys/v9/zygo"
	"verif/harness/lib"
)

const budget = 200000

type H struct {
	env   *zygo.Zlisp
	rng   *lib.Rng
	out   *lib.Out
	rho   map[string]string // form tokens -> value tokens or "!"
	pool  []poolVar
	envN  int
	stats map[string]int
	epoch string
	pools map[string][]string
	recs     []evalRec
	poolPtrs map[interface{}]bool
	fnN      int
}

type poolVar struct {
	name string
	src  string
	kind byte // 'i' int, 'l' list, 'o' other
	n    int  // list length
}

func newEnv() *zygo.Zlisp {
	env := zygo.NewZlisp()
	env.StandardSetup()
	return env
}

func (h *H) mustEval(src string) {
	r := lib.Eval(h.env, src, budget)
	if r.Class != lib.OutValue {
		fmt.Fprintf(os.Stderr, "harness setup failed: %s => %s\n", src, r.Show())
		os.Exit(3)
	}
}

// freshPool makes a new interpreter with a pool of global bindings.
func (h *H) freshPool() {
	h.env = newEnv()
	h.rho = map[string]string{}
	r := h.rng
	atom := func() string {
		switch r.Intn(4) {
		case 0:
			return fmt.Sprintf("%d", r.Intn(40)-5)
		case 1:
			return fmt.Sprintf(`"s%d"`, r.Intn(5))
		case 2:
			return fmt.Sprintf("(quote q%d)", r.Intn(5))
		}
		return fmt.Sprintf("(list %d %d)", r.Intn(9), r.Intn(9))
	}
	lst := func(n int) string {
		s := "(list"
		for i := 0; i < n; i++ {
			s += " " + atom()
		}
		return s + ")"
	}
	h.pool = []poolVar{
		{"x0", fmt.Sprintf("%d", r.Intn(100)-20), 'i', 0},
		{"x1", fmt.Sprintf(`"w%d"`, r.Intn(9)), 'o', 0},
		{"x2", fmt.Sprintf("(quote k%d)", r.Intn(9)), 'o', 0},
		{"e0", "(list)", 'l', 0},
		{"l1", lst(1), 'l', 1},
		{"l2", lst(2), 'l', 2},
		{"l3", lst(3), 'l', 3},
		{"l4", lst(3 + r.Intn(3)), 'l', 4},
		{"a1", "[1 2]", 'o', 0},
		{"a0", "[]", 'o', 0},
		{"f1", "2.5", 'o', 0},
		{"h1", fmt.Sprintf("(hash k: %d)", r.Intn(9)), 'o', 0},
	}
	h.mustEval("(defmap ranch)")
	defs := []string{"(defmap ranch)"}
	for _, p := range h.pool {
		h.mustEval("(def " + p.name + " " + p.src + ")")
		defs = append(defs, "(def "+p.name+" "+p.src+")")
	}
	h.installRec()
	h.collectPoolPtrs()
	h.envN++
	h.epoch = fmt.Sprintf("E%d", h.envN)
	h.pools[h.epoch] = defs
}

// rhoOf evaluates an unquoted expression on its own: the value its code pushes, or "!".
func (h *H) rhoOf(e *V) string {
	k := e.Tok()
	if v, ok := h.rho[k]; ok {
		return v
	}
	r := lib.Eval(h.env, e.Src(), budget)
	v := "!"
	if r.Class == lib.OutValue {
		c := Canon(r.Val)
		v = c.Tok()
	}
	if d, _, _, _ := h.env.VerifDepths(); d != 0 {
		h.env.Clear()
	}
	h.rho[k] = v
	return v
}

// ---------------------------------------------------------------- expression forms
func (h *H) genExpr(wantList int) *V {
	r := h.rng
	// wantList: 0 any, 1 prefer a list value (for splices), 2 atoms for hash slots
	if wantList == 1 && r.Intn(10) < 8 {
		switch r.Intn(9) {
		case 0:
			return vy("e0")
		case 1:
			return vy("l1")
		case 2:
			return vy("l2")
		case 3:
			return vy("l3")
		case 4:
			return vy("l4")
		case 5:
			n := r.Intn(4)
			f := vl(vy("list"))
			for i := 0; i < n; i++ {
				f.L = append(f.L, vi(int64(r.Intn(20))))
			}
			return f
		case 6:
			return vl(vy("rest"), vy([]string{"l1", "l2", "l3", "l4"}[r.Intn(4)]))
		case 7:
			return vl(vy("cons"), vy("x0"), vy([]string{"e0", "l2"}[r.Intn(2)]))
		default:
			return vl(vy("quote"), vl(vy("p"), vi(int64(r.Intn(5))), vl(vy("q"))))
		}
	}
	switch r.Intn(16) {
	case 0, 1, 2:
		return vy("x0")
	case 3:
		return vy("x1")
	case 4:
		return vy("x2")
	case 5:
		return vy([]string{"e0", "l1", "l2", "l3", "l4"}[r.Intn(5)])
	case 6:
		return vy([]string{"a1", "a0", "f1", "h1"}[r.Intn(4)])
	case 7:
		return vl(vy("+"), vy("x0"), vi(int64(r.Intn(5))))
	case 8:
		return vl(vy("first"), vy("l3"))
	case 9:
		return vl(vy("list"), vy("x0"), vy("x1"))
	case 10:
		return vi(int64(r.Intn(50)))
	case 11:
		return vs(fmt.Sprintf("t%d", r.Intn(5)))
	case 12:
		return va(vi(1), vy("x0")) // an array expression: evaluates its elements
	case 13:
		return vl(vy("quote"), vy(fmt.Sprintf("z%d", r.Intn(4))))
	case 14:
		// failing expressions: unbound symbol, compile error, runtime error
		return []*V{vy("nosuchvar"), vl(vy("fn")), vl(vy("first"), vi(5))}[r.Intn(3)]
	}
	return vl(vy("len"), vy("l3"))
}

// ---------------------------------------------------------------- templates
var symNames = []string{"a", "b", "foo", "list", "quote", "unquote", "syntaxQuote", "x0", "l2"}

func (h *H) genAtom() *T {
	r := h.rng
	switch r.Intn(10) {
	case 0, 1, 2:
		return tl(vi(int64(r.Intn(30) - 3)))
	case 3, 4, 5:
		return tl(vy(symNames[r.Intn(len(symNames))]))
	case 6:
		return tl(vs(fmt.Sprintf("u%d", r.Intn(6))))
	case 7:
		return tl(vl()) // nil
	case 8:
		return tl(vo(opaqueSrcs[r.Intn(len(opaqueSrcs))]))
	}
	return tl(vy(fmt.Sprintf("s%d", r.Intn(6))))
}

// isUnqForm: a two-element list headed by the symbol unquote / unquote-splicing would not be a
// list template but an unquote (the generator then emits the T it really is).
func fixForm(t *T) *T {
	if t.K == '(' && len(t.L) == 2 && t.L[0].K == 'L' && t.L[0].V.K == 'y' {
		if (t.L[1].HasHash() || t.L[1].Count('S') > 0) && (t.L[0].V.S == "unquote" || t.L[0].V.S == "unquote-splicing") {
			t.L[0] = tl(vy("foo"))
			return t
		}
		switch t.L[0].V.S {
		case "unquote":
			return tu(t.L[1].Reified())
		case "unquote-splicing":
			return tsp(t.L[1].Reified())
		}
	}
	return t
}

func (h *H) genT(depth int, allowHash bool, inHash bool) *T {
	r := h.rng
	c := r.Intn(20)
	if depth >= 2 && r.Intn(2) == 0 {
		c = 12 + r.Intn(8) // keep going down: deeper templates
	}
	if depth <= 0 && c >= 12 {
		c = r.Intn(12)
	}
	switch {
	case c < 4:
		return h.genAtom()
	case c < 8:
		return tu(h.genExpr(0))
	case c < 12:
		if inHash && r.Intn(3) > 0 {
			// a splice in a hash slot: mostly one element (an even operand count)
			return tsp([]*V{vy("l1"), vy("l1"), vy("e0"), vy("l3"), vl(vy("list"), vy("x0"))}[r.Intn(5)])
		}
		return tsp(h.genExpr(1))
	case c < 16 || (c < 20 && !allowHash && c >= 18):
		n := r.Intn(5)
		t := tlist()
		for i := 0; i < n; i++ {
			t.L = append(t.L, h.genT(depth-1, allowHash, false))
		}
		return fixForm(t)
	case c < 18:
		n := r.Intn(4)
		t := tarr()
		for i := 0; i < n; i++ {
			t.L = append(t.L, h.genT(depth-1, allowHash, false))
		}
		return t
	}
	// hash: distinct atom keys, template values
	n := r.Intn(4)
	t := &T{K: '{', TN: []string{"hash", "hash", "ranch"}[r.Intn(3)]}
	used := map[string]bool{}
	for i := 0; i < n; i++ {
		var k *V
		switch r.Intn(3) {
		case 0:
			k = vi(int64(r.Intn(8)))
		case 1:
			k = vy(fmt.Sprintf("f%d", r.Intn(8)))
		default:
			k = vs(fmt.Sprintf("k%d", r.Intn(8)))
		}
		if used[k.Tok()] {
			continue
		}
		used[k.Tok()] = true
		t.L = append(t.L, tl(k), h.genT(depth-1, allowHash, true))
	}
	return t
}

// someComment: "" (mostly), a block comment or a line comment
func (h *H) someComment() string {
	switch h.rng.Intn(6) {
	case 0:
		return fmt.Sprintf(" /* c%d */ ", h.rng.Intn(9))
	case 1:
		return fmt.Sprintf(" // d%d\n ", h.rng.Intn(9))
	}
	return ""
}

// esc keeps a source text on one line of the cases file
func esc(s string) string { return strings.ReplaceAll(s, "\n", "\\n") }

// ---------------------------------------------------------------- guarded evaluation
func evalSexp(env *zygo.Zlisp, x zygo.Sexp) (res lib.Result) {
	zygo.VerifSetBudget(budget)
	defer zygo.VerifSetBudget(-1)
	defer func() {
		if r := recover(); r != nil {
			res = lib.Result{Class: lib.OutPanic, Panic: r}
		}
	}()
	v, err := env.EvalExpressions([]zygo.Sexp{x})
	if err != nil {
		env.Clear()
		return lib.Result{Class: lib.OutError, Err: err}
	}
	return lib.Result{Class: lib.OutValue, Val: v}
}

// parseRaw: the reader's output with the comments written INSIDE the form still in it (the
// model applies its own mirror of the loader's comment filter, Templ.strip).
func (h *H) parseRaw(src string) (x zygo.Sexp, ok bool) {
	defer func() {
		if r := recover(); r != nil {
			ok = false
		}
	}()
	p := h.env.VerifParser()
	p.ResetAddNewInput(zygo.WholeText(strings.NewReader(src)))
	xs, err := p.ParseTokens()
	if err != nil {
		return nil, false
	}
	xs = h.env.FilterArray(xs, zygo.RemoveEndsFilter)
	var top []zygo.Sexp
	for _, e := range xs {
		if _, isC := e.(*zygo.SexpComment); !isC {
			top = append(top, e)
		}
	}
	if len(top) != 1 {
		return nil, false
	}
	return top[0], true
}

func (h *H) parseOne(src string) (x zygo.Sexp, ok bool) {
	defer func() {
		if r := recover(); r != nil {
			ok = false
		}
	}()
	p := h.env.VerifParser()
	p.ResetAddNewInput(zygo.WholeText(strings.NewReader(src)))
	xs, err := p.ParseTokens()
	if err != nil {
		return nil, false
	}
	// what LoadExpressions hands to the generator: comments and end marks filtered out
	xs = h.env.FilterArray(xs, zygo.RemoveCommentsFilter)
	xs = h.env.FilterArray(xs, zygo.RemoveEndsFilter)
	if len(xs) != 1 {
		return nil, false
	}
	return xs[0], true
}

func (h *H) observe(r lib.Result, pick func(zygo.Sexp) (zygo.Sexp, bool)) string {
	d, _, _, _ := h.env.VerifDepths()
	if d != 0 || r.Class != lib.OutValue {
		h.env.Clear()
	}
	switch r.Class {
	case lib.OutValue:
		v := r.Val
		if pick != nil {
			var ok bool
			v, ok = pick(v)
			if !ok {
				return "BADCTX " + Canon(r.Val).Tok()
			}
		}
		c := Canon(v)
		return fmt.Sprintf("%s +%d", c.Tok(), d)
	case lib.OutError:
		return "ERR"
	case lib.OutPanic:
		return fmt.Sprintf("PANIC %v", r.Panic)
	}
	return strings.ToUpper(r.Class)
}

// sqArg extracts X from a parsed (syntaxQuote X).
func sqArg(x zygo.Sexp) (zygo.Sexp, bool) {
	p, ok := x.(*zygo.SexpPair)
	if !ok || !zygo.IsList(p) {
		return nil, false
	}
	arr, _ := zygo.ListToArray(p)
	if len(arr) != 2 {
		return nil, false
	}
	s, ok := arr[0].(*zygo.SexpSymbol)
	if !ok || s.Name() != "syntaxQuote" {
		return nil, false
	}
	return arr[1], true
}

func (h *H) bindings(t *T) (string, []string) {
	var es []*V
	t.Exprs(&es)
	seen := map[string]bool{}
	s := ""
	var tags []string
	for _, e := range es {
		k := e.Tok()
		if seen[k] {
			continue
		}
		seen[k] = true
		v := h.rhoOf(e)
		s += "|" + k + " => " + v
		if v == "!" {
			tags = append(tags, "expr-fails")
		}
	}
	return s, tags
}

func (h *H) tagsOf(t *T) []string {
	tags := []string{fmt.Sprintf("depth-%d", t.Depth())}
	if t.Count('S') > 0 {
		tags = append(tags, "has-splice")
	}
	if t.Count('U') > 0 {
		tags = append(tags, "has-unquote")
	}
	if t.Count('[') > 0 {
		tags = append(tags, "has-array")
	}
	if t.Count('{') > 0 {
		tags = append(tags, "has-hash")
	}
	if t.K == 'S' {
		tags = append(tags, "bare-splice")
	}
	var walk func(x *T)
	walk = func(x *T) {
		if x.K == '(' || x.K == '[' {
			n := len(x.L)
			for i, c := range x.L {
				if c.K == 'S' {
					if i == 0 {
						tags = append(tags, "splice-first")
					}
					if i == n-1 {
						tags = append(tags, "splice-last")
					}
					if i+1 < n && x.L[i+1].K == 'S' {
						tags = append(tags, "splice-adjacent")
					}
					if h.rhoOf(c.V) == "( )" {
						tags = append(tags, "splice-empty")
					}
				}
				if c.K == 'U' && c.V.K == '(' {
					tags = append(tags, "unquote-compound")
				}
			}
		}
		if x.K == '{' {
			for i, c := range x.L {
				if c.K == 'S' && i%2 == 1 {
					tags = append(tags, "splice-in-hash-slot")
				}
			}
		}
		for _, c := range x.L {
			walk(c)
		}
	}
	walk(t)
	// deduplicate
	seen := map[string]bool{}
	out := tags[:0]
	for _, x := range tags {
		if !seen[x] {
			seen[x] = true
			out = append(out, x)
		}
	}
	return out
}

// sqCase evaluates one template through the applicable routes.
func (h *H) sqCase(t *T, extra ...string) {
	binds, btags := h.bindings(t)
	tags := append(h.tagsOf(t), btags...)
	tags = append(tags, extra...)
	a := t.Tok()
	nontrivial := t.Count('U')+t.Count('S') > 0
	hasHash := t.HasHash()
	if !hasHash {
		// route 1: reader sugar, top level
		sugar := h.rng.Intn(4) != 0
		if h.rng.Intn(3) == 0 {
			commentFn = h.someComment
			tags = append(tags, "comments-in-template")
		}
		src := "^" + afterPrefix() + t.Src(sugar)
		if !sugar {
			src = "(syntaxQuote " + t.Src(false) + ")"
		}
		commentFn = nil
		vtok := "yPARSE-ERROR"
		if x, ok := h.parseRaw(src); ok {
			if arg, ok := sqArg(x); ok {
				vtok = Canon(arg).Tok()
			}
		}
		r := lib.Eval(h.env, src, budget)
		impl := h.observe(r, nil)
		h.out.Case("sq:text|"+h.epoch+" "+esc(src)+"|"+a+"|"+vtok+binds, impl, nontrivial, append(tags, "route-text")...)
		// route 2: long form as an argument of a call, operands below and above
		if t.K != 'S' {
			if h.rng.Intn(3) == 0 {
				commentFn = h.someComment
			}
			src2 := "(list 7 (syntaxQuote " + t.Src(h.rng.Intn(2) == 0) + ") 8)"
			commentFn = nil
			vtok2 := "yPARSE-ERROR"
			if x, ok := h.parseRaw(src2); ok {
				if arr, err := zygo.ListToArray(x); err == nil && len(arr) == 4 {
					if arg, ok := sqArg(arr[2]); ok {
						vtok2 = Canon(arg).Tok()
					}
				}
			}
			r2 := lib.Eval(h.env, src2, budget)
			impl2 := h.observe(r2, func(v zygo.Sexp) (zygo.Sexp, bool) {
				arr, err := zygo.ListToArray(v)
				if err != nil || len(arr) != 3 {
					return nil, false
				}
				a0, ok0 := arr[0].(*zygo.SexpInt)
				a2, ok2 := arr[2].(*zygo.SexpInt)
				if !ok0 || !ok2 || a0.Val != 7 || a2.Val != 8 {
					return nil, false
				}
				return arr[1], true
			})
			h.out.Case("sq:ctx|"+h.epoch+" "+esc(src2)+"|"+a+"|"+vtok2+binds, impl2, nontrivial, append(tags, "route-ctx")...)
		}
	}
	// route 4: evaluated twice with in-place updates of the first result in between
	h.twiceCase(t, a, binds, nontrivial, tags)
	// route 3: the form built with the Go constructors (the only route for hash templates)
	if hasHash || h.rng.Intn(3) == 0 {
		form := t.Reified().Sexp(h.env)
		vtok := Canon(form).Tok()
		sq := zygo.MakeList([]zygo.Sexp{h.env.MakeSymbol("syntaxQuote"), form})
		r := evalSexp(h.env, sq)
		impl := h.observe(r, nil)
		h.out.Case("sq:api|"+h.epoch+" <go-constructors>|"+a+"|"+vtok+binds, impl, nontrivial, append(tags, "route-api")...)
	}
}

// exhaustive: every list/array of up to maxLen elements over a small element alphabet, bare and
// nested one level down in a list, an array and a hash value.
func (h *H) exhaustive(maxLen int) {
	alpha := func() []*T {
		return []*T{
			tl(vy("a")),
			tu(vy("x0")),
			tsp(vy("e0")),
			tsp(vy("l1")),
			tsp(vy("l3")),
			tu(vl(vy("list"), vy("x0"), vi(1))),
			tsp(vy("a1")), // not a list
		}
	}
	var rec func(prefix []*T, n int)
	emit := func(elems []*T) {
		for _, k := range []byte{'(', '['} {
			t := fixForm(&T{K: k, L: elems})
			h.sqCase(t, "exhaustive")
			h.sqCase(tlist(tl(vy("a")), t, tl(vy("b"))), "exhaustive")
			h.sqCase(tarr(t), "exhaustive")
			h.sqCase(&T{K: '{', TN: "hash", L: []*T{tl(vy("k")), t, tl(vi(2)), tl(vi(3))}}, "exhaustive")
		}
	}
	rec = func(prefix []*T, n int) {
		emit(prefix)
		if n == 0 {
			return
		}
		for i := range alpha() {
			rec(append(append([]*T{}, prefix...), alpha()[i]), n-1)
		}
	}
	rec(nil, maxLen)
	// the hash slot itself
	for _, v := range alpha() {
		h.sqCase(&T{K: '{', TN: "hash", L: []*T{tl(vy("k")), v}}, "exhaustive")
		h.sqCase(&T{K: '{', TN: "ranch", L: []*T{tl(vy("k")), v, tl(vs("j")), v}}, "exhaustive")
	}
	// near misses of the unquote form, nested syntax quotes, bare unquote/splice
	for _, src := range [][]*T{
		{tl(vy("unquote"))},
		{tl(vy("unquote")), tl(vy("x0")), tl(vy("x0"))},
		{tl(vy("unquote-splicing"))},
		{tl(vy("unquote-splicing")), tl(vy("l2")), tl(vy("l2"))},
		{tl(vy("foo")), tl(vy("unquote")), tl(vy("x0"))},
		{tl(vy("syntaxQuote")), tlist(tl(vy("b")), tu(vy("x0")))},
		{tl(vy("quote")), tu(vy("x0"))},
		{tl(vs("unquote")), tl(vy("x0"))},
		{tlist(tl(vy("unquote"))), tl(vy("x0"))},
	} {
		h.sqCase(tlist(src...), "near-miss")
		h.sqCase(tlist(tl(vy("a")), tlist(src...)), "near-miss")
	}
	for _, t := range []*T{tu(vy("x0")), tu(vy("l3")), tsp(vy("l1")), tsp(vy("e0")), tsp(vy("l3")), tsp(vy("x0")),
		tu(vl(vy("+"), vy("x0"), vi(1))), tl(vi(3)), tl(vl()), tl(vy("x0")), tl(vo("(1 \\ 2)")), tl(vi(-2)), tlist(tl(vy("a")), tu(vi(-2))), tlist(tl(vy("a")), tsp(vl(vy("list"), vi(-1)))), tlist(tl(vi(-4)), tl(vi(-5)))} {
		h.sqCase(t, "bare")
	}
}

func main() {
	args := lib.ParseArgs()
	out := lib.NewOut(args.Out)
	h := &H{rng: lib.NewRng(args.Seed), out: out, stats: map[string]int{}, pools: map[string][]string{}}
	if args.Replay != "" {
		h.replay(args.Replay)
		out.Close(args.Stats)
		return
	}
	out.Rule = "sq: exhaustive lists/arrays up to length L over {lit, ~x, ~@empty, ~@1, ~@3, ~(compound), ~@non-list} bare and nested in list/array/hash + random templates (depth<=4, hashes, near-miss unquote forms, failing expressions) x 3 routes; mac/call: random template-bodied macros x argument forms x 18 call sites (10 statement/argument sites + 8 value-consuming sites); value macros: 19 expansions that are (), atoms, symbols, empty array/begin/newScope x all sites; soak: histories of 1..300 failed expansions (expander error, compile error, run-time error) followed by correct macro calls, with the scalar state of the interpreter before/after; gen: random function bodies over begin/let/letseq/newScope/for/cond/def/set/break/continue/calls/self calls with 12 macros at any depth, compiled only, projected bytecode against MacroGen.gen_fn and complete bytecode against the hand-expanded function"
	nRandom, nMacros, exLen, nRec, nHist := 2500, 250, 3, 300, 150
	if args.Tier == "thorough" {
		nRandom, nMacros, exLen, nRec, nHist = 40000, 3000, 4, 5000, 2500
	}
	h.freshPool()
	h.exhaustive(exLen)
	for i := 0; i < nRandom; i++ {
		if i%200 == 0 {
			h.freshPool()
		}
		d := 1 + h.rng.Intn(5)
		var t *T
		for {
			t = h.genT(d, h.rng.Intn(3) == 0, false)
			if t.K != 'L' && t.K != 'S' {
				break
			}
			if h.rng.Intn(8) == 0 {
				break
			}
		}
		h.sqCase(t, "random")
	}
	h.recStream(nRec)
	h.macros(nMacros)
	h.valueMacros()
	soaks := []int{1, 3, 17, 70, 300}
	nGen := 1500
	if args.Tier == "thorough" {
		soaks = append(soaks, 1100, 5000)
		nGen = 30000
	}
	for i, n := range soaks {
		h.soak(n, i)
	}
	h.genStream(nGen)
	h.histories(nHist)
	out.Extra["interpreters"] = h.envN
	pb, _ := json.MarshalIndent(h.pools, "", " ")
	os.WriteFile(args.Out+".pools", pb, 0644)
	out.Close(args.Stats)
}

// replay: {"input": "<case input>", "replay_program": ["line", ...], "api_template": bool}
// evaluates the lines in a fresh interpreter; the observable of the last line is the case.
func (h *H) replay(path string) {
	b, err := os.ReadFile(path)
	if err != nil {
		panic(err)
	}
	var rp struct {
		Input   string   `json:"input"`
		Program []string `json:"replay_program"`
	}
	if err := json.Unmarshal(b, &rp); err != nil {
		panic(err)
	}
	for i := range rp.Program {
		rp.Program[i] = strings.ReplaceAll(rp.Program[i], "\\n", "\n")
	}
	h.env = newEnv()
	d := &depthRec{}
	d.install(h.env)
	impl := "NO-PROGRAM"
	if strings.HasPrefix(rp.Input, "gen|") {
		h.out.Case(rp.Input, replayGen(rp.Program), true, "replay")
		return
	}
	if strings.HasPrefix(rp.Input, "hist|") {
		h.out.Case(rp.Input, replayHist(rp.Program), true, "replay")
		return
	}
	if strings.HasPrefix(rp.Input, "sq:rec|") && len(rp.Program) >= 2 {
		n := len(rp.Program)
		h.out.Case(rp.Input, h.replayRec(rp.Input, rp.Program[:n-2], rp.Program[n-2], rp.Program[n-1]), true, "replay")
		return
	}
	if strings.HasPrefix(rp.Input, "sq:twice|") && len(rp.Program) > 0 {
		n := len(rp.Program)
		impl = h.replayTwice(rp.Input, rp.Program[:n-1], rp.Program[n-1])
		h.out.Case(rp.Input, impl, true, "replay")
		return
	}
	for i, line := range rp.Program {
		if strings.HasPrefix(line, "; template built with Go constructors") {
			f := strings.Split(rp.Input, "|")
			form := ParseTok(f[3]).Sexp(h.env)
			sq := zygo.MakeList([]zygo.Sexp{h.env.MakeSymbol("syntaxQuote"), form})
			impl = h.observe(evalSexp(h.env, sq), nil)
			continue
		}
		if i == len(rp.Program)-1 && strings.HasPrefix(rp.Input, "call|") {
			impl = runProg(h.env, d, line)
			if strings.Contains(rp.Input, "|ctl-") {
				impl += " ;2; " + runProg(h.env, d, line)
			}
			break
		}
		r := lib.Eval(h.env, line, budget)
		impl = h.observe(r, nil)
	}
	if strings.HasPrefix(rp.Input, "sq:ctx|") && strings.HasPrefix(impl, "( i7 ") && strings.HasSuffix(impl, " i8 ) +0") {
		impl = impl[len("( i7 "):len(impl)-len(" i8 ) +0")] + " +0"
	}
	h.out.Case(rp.Input, impl, true, "replay")
}
