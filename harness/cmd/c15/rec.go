package main

import (
	"fmt"
	"strings"

	"github.com/glycerine/zygomys/v9/zygo"
	"verif/harness/lib"
)

// Stream "sq:rec": a template in TAIL position of a self-recursive named function, with the
// self call unquoted (~(f (- n 1))) or spliced (~@(f 0)) inside it, for every template kind
// (list, array, hash, nested, bare unquote).  An unquoted expression is never a tail call: the
// template's markers are on the data stack while it runs.  rho(n) = the argument, rho(self
// call) = the measured value of that call evaluated on its own; the value of (f k), k = 1..3,
// is compared with model and subst like any other template.

// substSym rebuilds x with every symbol named name replaced by repl.
func substSym(env *zygo.Zlisp, x zygo.Sexp, name string, repl zygo.Sexp) zygo.Sexp {
	switch e := x.(type) {
	case *zygo.SexpSymbol:
		if e.Name() == name {
			return repl
		}
	case *zygo.SexpPair:
		return zygo.Cons(substSym(env, e.Head, name, repl), substSym(env, e.Tail, name, repl))
	case *zygo.SexpArray:
		out := make([]zygo.Sexp, len(e.Val))
		for i, a := range e.Val {
			out[i] = substSym(env, a, name, repl)
		}
		return &zygo.SexpArray{Val: out, Env: env}
	}
	return x
}

type recShape struct {
	fname   string
	base    string // source of the base-case expression
	t       *T
	style   int // 0: (cond (== n 0) BASE ^T)   1: ^T with the recursion guarded inside the unquote
	selfDec *V  // (f (- n 1))
	self0   *V  // (f 0)
}

func (h *H) recElems(s *recShape, depth int, allowHash bool, splice bool, n int) []*T {
	r := h.rng
	var out []*T
	for i := 0; i < n; i++ {
		switch r.Intn(8) {
		case 0, 1:
			out = append(out, tu(vy("n")))
		case 2, 3:
			out = append(out, tu(s.selfDec))
		case 4:
			if splice {
				out = append(out, tsp(s.self0))
			} else {
				out = append(out, tu(s.selfDec))
			}
		case 5:
			if depth > 0 {
				out = append(out, h.recT(s, depth-1, allowHash, splice))
				continue
			}
			fallthrough
		default:
			at := h.genAtom()
			for at.V.K == 'y' && at.V.S == "unquote" {
				at = h.genAtom()
			}
			out = append(out, at)
		}
	}
	return out
}

func (h *H) recT(s *recShape, depth int, allowHash bool, splice bool) *T {
	r := h.rng
	k := r.Intn(3)
	if k == 2 && !allowHash {
		k = r.Intn(2)
	}
	switch k {
	case 0:
		return fixForm(tlist(h.recElems(s, depth, allowHash, splice, 1+r.Intn(4))...))
	case 1:
		return tarr(h.recElems(s, depth, allowHash, splice, 1+r.Intn(4))...)
	}
	t := &T{K: '{', TN: "hash"}
	for i, v := range h.recElems(s, depth, allowHash, false, 1+r.Intn(3)) {
		t.L = append(t.L, tl(vy(fmt.Sprintf("f%d", i))), v)
	}
	return t
}

func hasSelf(t *T, s *recShape) bool {
	if (t.K == 'U' || t.K == 'S') && (t.V == s.selfDec || t.V == s.self0) {
		return true
	}
	for _, x := range t.L {
		if hasSelf(x, s) {
			return true
		}
	}
	return false
}

// fixed shapes: the self call directly in each kind of template
func (h *H) recFixed(s *recShape, i int) (*T, bool) {
	n, d, z := tu(vy("n")), tu(s.selfDec), tsp(s.self0)
	hk := func(v ...*T) *T {
		t := &T{K: '{', TN: "hash"}
		for j, x := range v {
			t.L = append(t.L, tl(vy(fmt.Sprintf("f%d", j))), x)
		}
		return t
	}
	shapes := []*T{
		tlist(tl(vy("x")), n, d),       // list
		tarr(n, d),                     // array, outermost
		hk(n, d),                       // hash, outermost
		d,                              // bare unquote
		tarr(d),                        // array with the call only
		tarr(tarr(n, d)),               // array in array
		tlist(tl(vy("x")), tarr(n, d)), // array in list
		tarr(tlist(tl(vy("x")), d), n), // list in array
		hk(tarr(d)),                    // array in hash
		tarr(hk(d)),                    // hash in array
		tlist(z, n),                    // splice in list
		tarr(n, z),                     // splice in array
		tarr(z, z, d),                  // adjacent splices and a call
		hk(n, tarr(z)),                 // splice in array in hash
	}
	if i >= len(shapes) {
		return nil, false
	}
	return shapes[i], true
}

func (h *H) recCase(t *T, s *recShape, extra string) {
	env := h.env
	usesSplice := t.Count('S') > 0
	s.base = []string{"[]", "(list)", "0", "(hash)", "(quote z)"}[h.rng.Intn(5)]
	if usesSplice {
		s.base = []string{"(list)", "(list 9 8)", "(list 7)"}[h.rng.Intn(3)]
	}
	tsrc := "<go-constructors>"
	if !t.HasHash() {
		tsrc = "^" + t.Src(true)
	}
	var text, defSrc string
	if s.style == 0 {
		text = fmt.Sprintf("(defn %s [n] (cond (== n 0) %s PLACEHOLDER__))", s.fname, s.base)
	} else {
		text = fmt.Sprintf("(defn %s [n] (def unused__ n) PLACEHOLDER__)", s.fname)
	}
	defSrc = strings.Replace(text, "PLACEHOLDER__", tsrc, 1)
	var constant zygo.Sexp
	if !t.HasHash() {
		if x, ok := h.parseOne("^" + t.Src(true)); ok {
			if arg, ok := sqArg(x); ok {
				constant = arg
			}
		}
	} else {
		constant = t.Reified().Sexp(env)
	}
	vtok := "yPARSE-ERROR"
	defined := false
	if constant != nil {
		vtok = Canon(constant).Tok()
		if x, ok := h.parseOne(text); ok {
			sq := zygo.MakeList([]zygo.Sexp{env.MakeSymbol("syntaxQuote"), constant})
			r := evalSexp(env, substSym(env, x, "PLACEHOLDER__", sq))
			defined = h.observe(r, nil) != "ERR"
		}
	}
	a := t.Tok()
	tags := append(h.tagsOf(t), "route-rec", "rec-"+extra, fmt.Sprintf("rec-style-%d", s.style))
	switch t.K {
	case '(':
		tags = append(tags, "rec-outer-list")
	case '[':
		tags = append(tags, "rec-outer-array")
	case '{':
		tags = append(tags, "rec-outer-hash")
	default:
		tags = append(tags, "rec-outer-bare")
	}
	measure := func(src string) string {
		r := lib.Eval(env, src, budget)
		v := "!"
		if r.Class == lib.OutValue {
			v = Canon(r.Val).Tok()
		}
		if d, _, _, _ := env.VerifDepths(); d != 0 {
			env.Clear()
		}
		return v
	}
	for k := 1; k <= 3; k++ {
		binds := fmt.Sprintf("|yn => i%d", k)
		binds += "|" + s.selfDec.Tok() + " => " + measure(fmt.Sprintf("(%s %d)", s.fname, k-1))
		if usesSplice {
			binds += "|" + s.self0.Tok() + " => " + measure(fmt.Sprintf("(%s 0)", s.fname))
		}
		call := fmt.Sprintf("(%s %d)", s.fname, k)
		impl := "ERR"
		if defined {
			impl = h.observe(lib.Eval(env, call, budget), nil)
		}
		h.out.Case("sq:rec|"+h.epoch+" "+defSrc+" ;; "+call+"|"+a+"|"+vtok+binds, impl, true, tags...)
	}
}

func (h *H) recStream(nRandom int) {
	mk := func(style int) *recShape {
		h.fnN++
		s := &recShape{fname: fmt.Sprintf("rf%d", h.fnN), style: style}
		s.self0 = vl(vy(s.fname), vi(0))
		if style == 0 {
			s.selfDec = vl(vy(s.fname), vl(vy("-"), vy("n"), vi(1)))
		} else {
			// the recursion is guarded inside the unquoted expression; the template is the last form
			s.selfDec = vl(vy("cond"), vl(vy("=="), vy("n"), vi(0)), vl(vy("quote"), vy("z")), vl(vy(s.fname), vl(vy("-"), vy("n"), vi(1))))
			s.self0 = vl(vy("cond"), vl(vy("=="), vy("n"), vi(0)), vl(vy("list"), vi(9)), vl(vy(s.fname), vi(0)))
		}
		return s
	}
	for style := 0; style < 2; style++ {
		for i := 0; ; i++ {
			s := mk(style)
			t, ok := h.recFixed(s, i)
			if !ok {
				break
			}
			h.recCase(t, s, "fixed")
		}
	}
	for i := 0; i < nRandom; i++ {
		if i%100 == 99 {
			h.freshPool()
		}
		s := mk(h.rng.Intn(4) / 3)
		var t *T
		for tries := 0; ; tries++ {
			t = h.recT(s, 1+h.rng.Intn(2), h.rng.Intn(3) == 0, h.rng.Intn(3) == 0)
			if hasSelf(t, s) || tries > 20 {
				break
			}
		}
		h.recCase(t, s, "random")
	}
}

// replayRec: pool lines, then the recorded definition (with <go-constructors> standing for a
// hash template rebuilt from the V tokens of the input) and the call.
func (h *H) replayRec(input string, defs []string, defSrc, call string) string {
	for _, d := range defs {
		h.observe(lib.Eval(h.env, d, budget), nil)
	}
	if strings.Contains(defSrc, "<go-constructors>") {
		f := strings.Split(input, "|")
		constant := ParseTok(f[3]).Sexp(h.env)
		sq := zygo.MakeList([]zygo.Sexp{h.env.MakeSymbol("syntaxQuote"), constant})
		x, ok := h.parseOne(strings.Replace(defSrc, "<go-constructors>", "PLACEHOLDER__", 1))
		if !ok {
			return "ERR"
		}
		h.observe(evalSexp(h.env, substSym(h.env, x, "PLACEHOLDER__", sq)), nil)
	} else {
		h.observe(lib.Eval(h.env, defSrc, budget), nil)
	}
	return h.observe(lib.Eval(h.env, call, budget), nil)
}
