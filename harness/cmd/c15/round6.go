package main

import (
	"fmt"
	"reflect"
	"sort"
	"strings"

	"github.com/glycerine/zygomys/v9/zygo"
	"verif/harness/lib"
)

// ---------------------------------------------------------------- value-consuming call sites
// Sites where the VALUE of the macro call is consumed by compiled code of the same function
// (def/set value, let initialiser, cond predicate, last form of a function / let / begin whose
// result the caller uses, array literal element, and/or operand).  Every macro of the call
// stream goes through them (appended to `sites` by init).
func init() {
	sites = append(sites,
		site{"cond-pred", func(x string) string { return "(pc) (def r11 (cond " + x + " 1 2)) (pc) (list r11 w0 w1)" }},
		site{"let-init", func(x string) string {
			return "(defn g12 [a0] (let [q " + x + "] (pc) (list q w0 w1))) (g12 6)"
		}},
		site{"fn-last", func(x string) string { return "(defn f13 [a0] (pc) " + x + ") (list 5 (f13 1) w0 w1)" }},
		site{"set-value", func(x string) string { return "(def z14 0) (pc) (set z14 " + x + ") (pc) (list z14 w0 w1)" }},
		site{"array-elem", func(x string) string { return "(pc) (def r15 [1 " + x + " 2]) (pc) (list r15 w0 w1)" }},
		site{"let-last", func(x string) string {
			return "(defn g16 [a0] (let [q 1] (pc) " + x + ")) (list 5 (g16 1) w0 w1)"
		}},
		site{"begin-last", func(x string) string { return "(pc) (def r17 (begin 1 " + x + ")) (pc) (list r17 w0 w1)" }},
		site{"and-or", func(x string) string { return "(pc) (def r18 (list (and 1 " + x + ") (or " + x + " 3))) (pc) (list r18 w0 w1)" }},
	)
}

// valueMacros: macros whose EXPANSION is not a call or special form but a value-like form --
// the empty list (written ^(), produced by an empty splice, chosen by a cond in the body,
// returned by a body that is not a template), an atom, a symbol, an empty array / begin -- at
// every call site (in particular the value-consuming ones), against the form written by hand.
func (h *H) valueMacros() {
	type vm struct{ def, call, hand, tag string }
	list := []vm{
		{"(defmac e0 [] ^())", "(e0)", "()", "empty-list-literal"},
		{"(defmac e1 [& b] ^(~@b))", "(e1)", "()", "empty-list-by-splice"},
		{"(defmac e1 [& b] ^(~@b))", "(e1 + 1 2)", "(+ 1 2)", "call-by-splice"},
		{"(defmac e2 [lvl & b] (cond (> lvl 1) ^(begin ~@b) ^(~@b)))", "(e2 0)", "()", "empty-list-by-cond"},
		{"(defmac e2 [lvl & b] (cond (> lvl 1) ^(begin ~@b) ^(~@b)))", "(e2 2)", "(begin)", "empty-begin"},
		{"(defmac e2 [lvl & b] (cond (> lvl 1) ^(begin ~@b) ^(~@b)))", "(e2 2 7 (+ g0 1))", "(begin 7 (+ g0 1))", "begin-by-cond"},
		{"(defmac e3 [x] ^~x)", "(e3 ())", "()", "empty-list-argument"},
		{"(defmac e3 [x] ^~x)", "(e3 7)", "7", "atom-int"},
		{"(defmac e3 [x] ^~x)", "(e3 \"s\")", "\"s\"", "atom-string"},
		{"(defmac e3 [x] ^~x)", "(e3 g0)", "g0", "symbol"},
		{"(defmac e3 [x] ^~x)", "(e3 [])", "[]", "empty-array"},
		{"(defmac e3 [x] ^~x)", "(e3 nil)", "nil", "nil-symbol"},
		{"(defmac e4 [] 5)", "(e4)", "5", "body-atom"},
		{"(defmac e5 [] (quote ()))", "(e5)", "()", "body-quoted-empty"},
		{"(defmac e6 [] nil)", "(e6)", "()", "body-nil"},
		{"(defmac e7 [] (list))", "(e7)", "()", "body-empty-list-call"},
		{"(defmac e8 [] ^[])", "(e8)", "[]", "empty-array-literal"},
		{"(defmac e9 [x] ^(~@x))", "(e9 ())", "()", "empty-list-by-splice-of-argument"},
		{"(defmac e10 [] ^(newScope))", "(e10)", "(newScope)", "empty-newscope"},
	}
	setup := func(def string) (*zygo.Zlisp, *depthRec) {
		env := newEnv()
		h.envN++
		d := &depthRec{}
		d.install(env)
		for _, s := range []string{"(def g0 11)", "(def gl (list 1 2 3))", "(def a0 3)", "(def w0 40)", "(def w1 50)", def} {
			if s == "" {
				continue
			}
			if r := lib.Eval(env, s, budget); r.Class != lib.OutValue {
				panic("harness: value macro setup failed: " + s + " => " + r.Show())
			}
		}
		return env, d
	}
	for _, m := range list {
		envM, dM := setup(m.def)
		envH, dH := setup("")
		for _, s := range sites {
			actual := runProg(envM, dM, s.prog(m.call))
			expected := runProg(envH, dH, s.prog(m.hand))
			h.out.Case("call|"+expected+"|"+s.name+"|"+m.def+"|"+s.prog(m.call)+"|"+s.prog(m.hand), actual, true,
				"site-"+s.name, "expansion-"+m.tag)
		}
	}
}

// ---------------------------------------------------------------- long runs of failed expansions
// scalarState: every scalar field of the interpreter object (ints, bools, strings), the sizes of
// its maps and slices and the scalar fields of its four stacks -- read generically by reflection,
// so a counter or flag added to the interpreter later is covered too.
func scalarState(env *zygo.Zlisp) map[string]string {
	out := map[string]string{}
	var walk func(prefix string, v reflect.Value, depth int)
	walk = func(prefix string, v reflect.Value, depth int) {
		t := v.Type()
		for i := 0; i < v.NumField(); i++ {
			f := v.Field(i)
			name := prefix + t.Field(i).Name
			switch f.Kind() {
			case reflect.Int, reflect.Int8, reflect.Int16, reflect.Int32, reflect.Int64:
				out[name] = fmt.Sprint(f.Int())
			case reflect.Uint, reflect.Uint8, reflect.Uint16, reflect.Uint32, reflect.Uint64:
				out[name] = fmt.Sprint(f.Uint())
			case reflect.Bool:
				out[name] = fmt.Sprint(f.Bool())
			case reflect.String:
				out[name] = f.String()
			case reflect.Map, reflect.Slice:
				out[name] = fmt.Sprintf("len%d", f.Len())
			case reflect.Ptr:
				if depth == 0 && !f.IsNil() && f.Elem().Kind() == reflect.Struct && f.Elem().Type().Name() == "Stack" {
					walk(name+".", f.Elem(), 1)
				}
			}
		}
	}
	walk("", reflect.ValueOf(env).Elem(), 0)
	return out
}

// runSteps: every line its own evaluation (Clear after an error, as the REPL does).
//   "!src"    a step that is expected to fail (nothing recorded but "VALUE" if it does not)
//   "?src"    an observation: the canonical value or ERR
//   "#base"   remember the scalar state of the interpreter
//   "?#state" observation: the names of the scalar fields that differ from the remembered state
func runSteps(lines []string) string {
	env := newEnv()
	var out []string
	var base map[string]string
	for _, s := range lines {
		if s == "#base" {
			base = scalarState(env)
			continue
		}
		if s == "?#state" {
			now := scalarState(env)
			var ch []string
			for k, v := range now {
				if base[k] != v {
					ch = append(ch, k)
				}
			}
			sort.Strings(ch)
			out = append(out, "changed-fields["+strings.Join(ch, ",")+"]")
			continue
		}
		observe := strings.HasPrefix(s, "?")
		mustFail := strings.HasPrefix(s, "!")
		s = strings.TrimLeft(s, "?!")
		res := lib.Eval(env, s, budget)
		if d, sc, a, l := env.VerifDepths(); d != 0 || sc != 1 || a != 0 || l != 0 || res.Class != lib.OutValue {
			env.Clear()
		}
		switch res.Class {
		case lib.OutValue:
			if observe {
				out = append(out, Canon(res.Val).Tok())
			} else if mustFail {
				out = append(out, "VALUE")
			}
		case lib.OutPanic:
			out = append(out, fmt.Sprintf("PANIC %v", res.Panic))
		default:
			if observe {
				out = append(out, "ERR")
			} else if !mustFail {
				out = append(out, "ERR-IN-SETUP")
			}
		}
	}
	return strings.Join(out, " / ")
}

// soak: one interpreter, a run of n macro calls whose expansion FAILS -- in the expander (wrong
// number of arguments, an error raised by the body, a splice of a non-list), when the expansion
// is compiled (break outside a loop) or when it runs -- each an ordinary error followed by
// Clear(), then correct macro calls (user macros, nested, and the standard ++ macro).  Against
// the same history with the expansions written by hand (failing calls replaced by a plain
// failing evaluation).  Observables: the values of the correct calls and the scalar state of
// the interpreter before / after the run.
func (h *H) soak(n int, idx int) {
	r := h.rng
	defs := []string{
		"(defmac tw [x] ^(begin ~x ~x))",
		"(defmac inc2 [v] ^(tw (set ~v (+ ~v 1))))",
		"(defmac bad [x] (car 5))",
		"(defmac spl [x] ^(list ~@x))",
		"(defmac cmp [] ^(break))",
		"(defmac rt [] ^(car 5))",
		"(def cnt 0)",
	}
	fails := []string{"(tw)", "(tw 1 2)", "(bad 1)", "(spl 5)", "(cmp)", "(rt)", "(inc2)"}
	good := [][2]string{
		{"(begin (inc2 cnt) cnt)", "(begin (begin (set cnt (+ cnt 1)) (set cnt (+ cnt 1))) cnt)"},
		{"(begin (tw (tw (set cnt (+ cnt 3)))) cnt)", "(begin (begin (begin (set cnt (+ cnt 3)) (set cnt (+ cnt 3))) (begin (set cnt (+ cnt 3)) (set cnt (+ cnt 3)))) cnt)"},
		{"(begin (++ cnt) cnt)", "(begin (set cnt (+ cnt 1)) cnt)"},
		{"(defn sk [a] (inc2 a) a) (sk 5)", "(defn sk [a] (begin (set a (+ a 1)) (set a (+ a 1))) a) (sk 5)"},
	}
	var mac, hand []string
	both := func(m, hd string) { mac = append(mac, m); hand = append(hand, hd) }
	for _, d := range defs {
		if strings.HasPrefix(d, "(defmac") {
			mac = append(mac, d)
		} else {
			both(d, d)
		}
	}
	// warm up: every text once, so that all symbols are interned before the state is remembered
	for _, g := range good {
		both("?"+g[0], "?"+g[1])
	}
	both("#base", "#base")
	kinds := 1 + r.Intn(len(fails))
	for i := 0; i < n; i++ {
		f := fails[(idx+i*kinds)%len(fails)]
		both("!"+f, "!(car 5)")
		if i == 0 || (i&(i+1)) == 0 { // after 1, 2, 4, 8, .. failures
			g := good[r.Intn(len(good))]
			both("?"+g[0], "?"+g[1])
		}
	}
	both("?#state", "?#state")
	for _, g := range good {
		both("?"+g[0], "?"+g[1])
	}
	actual := runSteps(mac)
	expected := runSteps(hand)
	h.envN += 2
	h.out.Case("hist|"+expected+"|"+strings.Join(mac, " ;; "), actual, true, "soak", fmt.Sprintf("soak-failed-expansions-%d", n))
}

// ---------------------------------------------------------------- stream "gen": the bytecode
// Random function bodies over begin / let / letseq / newScope / for / cond / def / set / break /
// continue / calls / self calls with macro calls at any depth (macros that expand to break,
// continue, to a let / newScope / loop AROUND their argument form, to other macro calls, to a
// self call, to nothing).  The function is only COMPILED.  Observable: the projection of the
// real bytecode of f onto the scope and control instructions, compared with the Coq model
// MacroGen.gen_fn; plus whether the complete bytecode equals that of the same function with
// every expansion written by hand.
type gmac struct {
	name   string
	params []string
	body   *T
	hand   func(args []*V) *V
}

func sym(s string) *T { return tl(vy(s)) }
func num(n int64) *T  { return tl(vi(n)) }

var gmacs = []gmac{
	{"brk", []string{"c"}, tlist(sym("cond"), tu(vy("c")), tlist(sym("break")), num(0)),
		func(a []*V) *V { return vl(vy("cond"), a[0], vl(vy("break")), vi(0)) }},
	{"cnt", []string{"c"}, tlist(sym("cond"), tu(vy("c")), tlist(sym("continue")), num(0)),
		func(a []*V) *V { return vl(vy("cond"), a[0], vl(vy("continue")), vi(0)) }},
	{"brk0", nil, tlist(sym("break")), func(a []*V) *V { return vl(vy("break")) }},
	{"cnt0", nil, tlist(sym("continue")), func(a []*V) *V { return vl(vy("continue")) }},
	{"wrap1", []string{"x"}, tlist(sym("let"), tarr(sym("t1"), num(1)), tu(vy("x"))),
		func(a []*V) *V { return vl(vy("let"), va(vy("t1"), vi(1)), a[0]) }},
	{"wrapn", []string{"x"}, tlist(sym("newScope"), tlist(sym("def"), sym("t2"), num(2)), tu(vy("x"))),
		func(a []*V) *V { return vl(vy("newScope"), vl(vy("def"), vy("t2"), vi(2)), a[0]) }},
	{"loop1", []string{"x"}, tlist(sym("for"), tarr(tlist(sym("def"), sym("j"), num(0)), tlist(sym("<"), sym("j"), num(2)), tlist(sym("set"), sym("j"), tlist(sym("+"), sym("j"), num(1)))), tu(vy("x"))),
		func(a []*V) *V {
			return vl(vy("for"), va(vl(vy("def"), vy("j"), vi(0)), vl(vy("<"), vy("j"), vi(2)), vl(vy("set"), vy("j"), vl(vy("+"), vy("j"), vi(1)))), a[0])
		}},
	{"twice", []string{"x"}, tlist(sym("begin"), tu(vy("x")), tu(vy("x"))),
		func(a []*V) *V { return vl(vy("begin"), a[0], a[0]) }},
	{"nest", []string{"x"}, tlist(sym("wrap1"), tlist(sym("wrapn"), tu(vy("x")))),
		func(a []*V) *V {
			return vl(vy("let"), va(vy("t1"), vi(1)), vl(vy("newScope"), vl(vy("def"), vy("t2"), vi(2)), a[0]))
		}},
	{"again", []string{"n"}, tlist(sym("f"), tlist(sym("-"), tu(vy("n")), num(1)), sym("b")),
		func(a []*V) *V { return vl(vy("f"), vl(vy("-"), a[0], vi(1)), vy("b")) }},
	{"emp", nil, tl(vl()), func(a []*V) *V { return vl() }},
	{"idm", []string{"x"}, tu(vy("x")), func(a []*V) *V { return a[0] }},
}

func gmacByName(n string) *gmac {
	for i := range gmacs {
		if gmacs[i].name == n {
			return &gmacs[i]
		}
	}
	panic("no macro " + n)
}

func (g *gmac) def() string {
	return "(defmac " + g.name + " [" + strings.Join(g.params, " ") + "] ^" + g.body.Src(false) + ")"
}

// genForm returns the form with macro calls and the same form with the expansions by hand.
func (h *H) genForm(depth int, inLoop bool) (*V, *V) {
	r := h.rng
	call := func(name string, args ...[2]*V) (*V, *V) {
		m := []*V{vy(name)}
		var hs []*V
		for _, a := range args {
			m = append(m, a[0])
			hs = append(hs, a[1])
		}
		return vl(m...), gmacByName(name).hand(hs)
	}
	sub := func(loop bool) [2]*V {
		a, b := h.genForm(depth-1, loop)
		return [2]*V{a, b}
	}
	same := func(v *V) (*V, *V) { return v, v }
	pred := func() [2]*V { v := vl(vy(">"), vy("a"), vi(int64(r.Intn(4)))); return [2]*V{v, v} }
	if depth <= 0 || r.Intn(6) == 0 {
		k := r.Intn(12)
		if !inLoop && k >= 8 && r.Intn(12) != 0 {
			k = r.Intn(8) // break / continue outside a loop: a compile error (kept rare)
		}
		switch k {
		case 0:
			return same(vi(int64(r.Intn(9))))
		case 1:
			return same(vy("a"))
		case 2:
			return same(vl(vy("+"), vy("a"), vi(1)))
		case 3:
			return same(vl(vy("f"), vl(vy("-"), vy("a"), vi(1)), vy("b")))
		case 4:
			return call("again", [2]*V{vy("a"), vy("a")})
		case 5:
			return call("emp")
		case 6:
			return same(vl(vy("f"), vy("a"))) // wrong arity: an ordinary call
		case 7:
			return same(vl(vy("set"), vy("b"), vl(vy("+"), vy("b"), vi(1))))
		case 8:
			return same(vl(vy("break")))
		case 9:
			return same(vl(vy("continue")))
		case 10:
			return call("brk0")
		default:
			return call("cnt0")
		}
	}
	seq := func(head ...*V) (*V, *V) {
		m := append([]*V{}, head...)
		hd := append([]*V{}, head...)
		n := 1 + r.Intn(3)
		for i := 0; i < n; i++ {
			s := sub(inLoop)
			m = append(m, s[0])
			hd = append(hd, s[1])
		}
		return vl(m...), vl(hd...)
	}
	switch r.Intn(15) {
	case 0:
		return seq(vy("begin"))
	case 1:
		i := sub(inLoop)
		m, hd := seq(vy("let"), va(vy("q"), i[0]))
		hd.L[1] = va(vy("q"), i[1])
		return m, hd
	case 2:
		i := sub(inLoop)
		m, hd := seq(vy("letseq"), va(vy("q"), vi(1), vy("r"), i[0]))
		hd.L[1] = va(vy("q"), vi(1), vy("r"), i[1])
		return m, hd
	case 3:
		return seq(vy("newScope"))
	case 4:
		ctl := va(vl(vy("def"), vy("i"), vi(0)), vl(vy("<"), vy("i"), vi(3)), vl(vy("set"), vy("i"), vl(vy("+"), vy("i"), vi(1))))
		m := []*V{vy("for"), ctl}
		hd := []*V{vy("for"), ctl}
		n := 1 + r.Intn(3)
		for i := 0; i < n; i++ {
			s := sub(true)
			m = append(m, s[0])
			hd = append(hd, s[1])
		}
		return vl(m...), vl(hd...)
	case 5:
		p, a, b := pred(), sub(inLoop), sub(inLoop)
		return vl(vy("cond"), p[0], a[0], b[0]), vl(vy("cond"), p[1], a[1], b[1])
	case 6:
		p, a, p2, b, c := pred(), sub(inLoop), sub(inLoop), sub(inLoop), sub(inLoop)
		return vl(vy("cond"), p[0], a[0], p2[0], b[0], c[0]), vl(vy("cond"), p[1], a[1], p2[1], b[1], c[1])
	case 7:
		return call("wrap1", sub(inLoop))
	case 8:
		return call("wrapn", sub(inLoop))
	case 9:
		return call("loop1", sub(true))
	case 10:
		return call("twice", sub(inLoop))
	case 11:
		return call("nest", sub(inLoop))
	case 12:
		return call("idm", sub(inLoop))
	case 13:
		if inLoop {
			if r.Intn(2) == 0 {
				return call("brk", pred())
			}
			return call("cnt", pred())
		}
		return call("twice", sub(inLoop))
	default:
		s := sub(inLoop)
		return vl(vy("def"), vy("z"), s[0]), vl(vy("def"), vy("z"), s[1])
	}
}

func compiledCode(env *zygo.Zlisp, name string) (*zygo.VerifFunc, bool) {
	for _, f := range env.VerifCompiledFunctions() {
		if f.VerifName() == name {
			d := zygo.NewVerifDumper()
			idx := d.Add(f, 0)
			if idx < 0 {
				return nil, false
			}
			return &d.Funcs[idx], true
		}
	}
	return nil, false
}

// project: the scope and control instructions of the code.  The run of RemoveScope directly
// before a PrepareCall belongs to the self tail call.
func project(f *zygo.VerifFunc) string {
	var out []string
	pend := 0
	flush := func() {
		for ; pend > 0; pend-- {
			out = append(out, "R")
		}
	}
	for _, in := range f.Code {
		if in.Op == "RemoveScope" {
			pend++
			continue
		}
		if in.Op == "PrepareCall" {
			out = append(out, fmt.Sprintf("T%d,%d", pend, in.A))
			pend = 0
			continue
		}
		flush()
		switch in.Op {
		case "AddScope":
			out = append(out, "A")
		case "LoopStart":
			out = append(out, "L")
		case "ClearStackmark":
			out = append(out, "E")
		case "Break":
			out = append(out, fmt.Sprintf("B%d", in.B))
		case "Continue":
			out = append(out, fmt.Sprintf("C%d", in.B))
		case "CallExpr":
			out = append(out, fmt.Sprintf("K%s,%d", in.Sym, in.A))
		case "Unknown":
			out = append(out, "?"+in.Go)
		}
	}
	flush()
	return strings.Join(out, " ")
}

// fullCode: the complete bytecode without the names and numbers of generated symbols
func fullCode(f *zygo.VerifFunc) string {
	var b strings.Builder
	for pc, in := range f.Code {
		a, s := in.A, in.Sym
		if strings.Contains(in.Op, "Stackmark") {
			a, s = 0, ""
		}
		fmt.Fprintf(&b, "%s %d %d %d %s %d;", in.Op, a, in.B, in.C, s, in.Fn)
		for _, e := range f.Exprs[pc] {
			b.WriteString(Canon(e).Tok() + ",")
		}
	}
	return b.String()
}

func (h *H) genStream(n int) {
	var defs, mtok []string
	for i := range gmacs {
		g := &gmacs[i]
		defs = append(defs, g.def())
		mtok = append(mtok, g.name+" "+strings.Join(g.params, " ")+" := "+g.body.Tok())
	}
	envM, envH := newEnv(), newEnv()
	h.envN += 2
	for _, d := range defs {
		if r := lib.Eval(envM, d, budget); r.Class != lib.OutValue {
			panic("harness: gen setup failed: " + d + " => " + r.Show())
		}
	}
	for i := 0; i < n; i++ {
		nb := 1 + h.rng.Intn(3)
		var mb, hb []*V
		for j := 0; j < nb; j++ {
			m, hd := h.genForm(1+h.rng.Intn(4), false)
			mb, hb = append(mb, m), append(hb, hd)
		}
		src := func(body []*V) string {
			var s []string
			for _, b := range body {
				s = append(s, b.Src())
			}
			return "(defn f [a b] " + strings.Join(s, " ") + ")"
		}
		var btok []string
		for _, b := range mb {
			btok = append(btok, b.Tok())
		}
		impl := genObserve(envM, envH, src(mb), src(hb))
		tags := []string{"gen"}
		s := src(mb)
		for _, g := range gmacs {
			if strings.Contains(s, "("+g.name+" ") || strings.Contains(s, "("+g.name+")") {
				tags = append(tags, "gen-macro-"+g.name)
			}
		}
		if impl == "ERR" {
			tags = append(tags, "gen-compile-error")
		}
		h.out.Case("gen|"+strings.Join(defs, " ;; ")+" ;; "+s+" ;; "+src(hb)+"|f|2|"+strings.Join(mtok, " ;; ")+"|"+strings.Join(btok, " ;; "),
			impl, len(tags) > 1, tags...)
	}
}

// genObserve compiles the function with macro calls in envM and the hand-expanded one in envH.
func genObserve(envM, envH *zygo.Zlisp, srcM, srcH string) string {
	impl := "ERR"
	rm := lib.Eval(envM, srcM, budget)
	rh := lib.Eval(envH, srcH, budget)
	if rm.Class == lib.OutPanic {
		impl = fmt.Sprintf("PANIC %v", rm.Panic)
	}
	if rm.Class == lib.OutValue {
		if fm, ok := compiledCode(envM, "f"); ok {
			impl = project(fm) + " H="
			fh, okh := compiledCode(envH, "f")
			switch {
			case rh.Class != lib.OutValue || !okh:
				impl += "hand-fails"
			case fullCode(fm) == fullCode(fh):
				impl += "same"
			default:
				impl += "differs"
			}
		}
	} else if rh.Class == lib.OutValue {
		impl += " H=hand-compiles"
	}
	for _, e := range []*zygo.Zlisp{envM, envH} {
		if d, s, a, l := e.VerifDepths(); d != 0 || s != 1 || a != 0 || l != 0 || rm.Class != lib.OutValue || rh.Class != lib.OutValue {
			e.Clear()
		}
	}
	return impl
}

// replayGen: lines = macro definitions.., the function with macro calls, the function by hand
func replayGen(lines []string) string {
	if len(lines) < 2 {
		return "NO-PROGRAM"
	}
	envM, envH := newEnv(), newEnv()
	n := len(lines)
	for _, d := range lines[:n-2] {
		lib.Eval(envM, d, budget)
	}
	return genObserve(envM, envH, lines[n-2], lines[n-1])
}
