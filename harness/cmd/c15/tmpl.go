package main

import (
	"fmt"
	"hash/fnv"
	"strings"

	"github.com/glycerine/zygomys/v9/zygo"
)

// V is a value or a form (an unevaluated expression), in the vocabulary of the Coq model:
// 'i' int, 'y' symbol, 's' string, 'o' opaque (float, bool, dotted pair), '(' proper list,
// '[' array, '{' hash (L = k v k v ..).
type V struct {
	K   byte
	I   int64
	S   string // symbol name / string text / source text of an opaque
	L   []*V
	TN  string
	Bad bool // not expressible in the model's vocabulary (never compared equal)
}

func vi(n int64) *V        { return &V{K: 'i', I: n} }
func vy(s string) *V       { return &V{K: 'y', S: s} }
func vs(s string) *V       { return &V{K: 's', S: s} }
func vo(src string) *V     { return &V{K: 'o', S: src} }
func vl(xs ...*V) *V       { return &V{K: '(', L: xs} }
func va(xs ...*V) *V       { return &V{K: '[', L: xs} }
func vh(tn string, kv ...*V) *V { return &V{K: '{', TN: tn, L: kv} }

func opqCode(printed string) uint32 {
	h := fnv.New32a()
	h.Write([]byte(printed))
	return h.Sum32()
}

// Tok renders the model's token syntax.
func (v *V) Tok() string {
	var b strings.Builder
	v.tok(&b)
	return b.String()
}

func (v *V) tok(b *strings.Builder) {
	switch v.K {
	case 'i':
		fmt.Fprintf(b, "i%d", v.I)
	case 'y':
		b.WriteString("y" + v.S)
	case 's':
		b.WriteString("s" + v.S)
	case 'o':
		if v.S == "#comment" {
			b.WriteString("o-1") // Templ.comment_code
		} else {
			fmt.Fprintf(b, "o%d", opqCode(v.S))
		}
	case '(', '[':
		cl := ")"
		if v.K == '[' {
			cl = "]"
		}
		b.WriteByte(v.K)
		for _, x := range v.L {
			b.WriteByte(' ')
			x.tok(b)
		}
		b.WriteString(" " + cl)
	case '{':
		b.WriteString("{ " + v.TN)
		for _, x := range v.L {
			b.WriteByte(' ')
			x.tok(b)
		}
		b.WriteString(" }")
	}
}

// Src renders zygo source text that READS as this form (hashes have no literal syntax).
func (v *V) Src() string {
	switch v.K {
	case 'i':
		return fmt.Sprintf("%d", v.I)
	case 'y':
		return v.S
	case 's':
		return `"` + v.S + `"`
	case 'o':
		return v.S
	case '(', '[':
		if commentFn != nil && v.K == '(' && len(v.L) == 2 && v.L[0].K == 'y' && v.L[0].S == "quote" {
			// the quote sugar reads as the same form (quote X)
			return "%" + commentFn() + v.L[1].Src()
		}
		op, cl := "(", ")"
		if v.K == '[' {
			op, cl = "[", "]"
		}
		parts := make([]string, len(v.L))
		for i, x := range v.L {
			parts[i] = x.Src()
		}
		return op + strings.Join(parts, " ") + cl
	}
	return "<hash>"
}

func (v *V) HasHash() bool {
	if v.K == '{' || (v.K == 'y' && v.S == "unquote-splicing") || (v.K == 'o' && v.S == "(1 \\ 2)") {
		return true // no source text reads as this form
	}
	for _, x := range v.L {
		if x.HasHash() {
			return true
		}
	}
	return false
}

// Sexp builds the interpreter value through the Go constructors.
func (v *V) Sexp(env *zygo.Zlisp) zygo.Sexp {
	switch v.K {
	case 'i':
		return &zygo.SexpInt{Val: v.I}
	case 'y':
		return env.MakeSymbol(v.S)
	case 's':
		return &zygo.SexpStr{S: v.S}
	case 'o':
		switch v.S {
		case "true":
			return &zygo.SexpBool{Val: true}
		case "2.5":
			return &zygo.SexpFloat{Val: 2.5}
		case "(1 \\ 2)":
			return zygo.Cons(&zygo.SexpInt{Val: 1}, &zygo.SexpInt{Val: 2})
		}
		panic("unknown opaque " + v.S)
	case '(':
		xs := make([]zygo.Sexp, len(v.L))
		for i, x := range v.L {
			xs[i] = x.Sexp(env)
		}
		return zygo.MakeList(xs)
	case '[':
		xs := make([]zygo.Sexp, len(v.L))
		for i, x := range v.L {
			xs[i] = x.Sexp(env)
		}
		return &zygo.SexpArray{Val: xs, Env: env}
	case '{':
		xs := make([]zygo.Sexp, len(v.L))
		for i, x := range v.L {
			xs[i] = x.Sexp(env)
		}
		h, err := zygo.MakeHash(xs, v.TN, env)
		if err != nil {
			panic("harness: cannot build hash template: " + err.Error())
		}
		return h
	}
	panic("bad V")
}

// the dotted pair prints as (1 \\ 2) and has no source text that reads as it (API route only)
var opaqueSrcs = []string{"true", "2.5", "(1 \\ 2)"}

// Canon projects an interpreter value onto the model's vocabulary.
func Canon(x zygo.Sexp) *V {
	switch e := x.(type) {
	case *zygo.SexpInt:
		return vi(e.Val)
	case *zygo.SexpSymbol:
		return vy(e.Name())
	case *zygo.SexpStr:
		return vs(e.S)
	case *zygo.SexpSentinel:
		if e == zygo.SexpNull {
			return vl()
		}
		return &V{K: 'o', S: "sentinel:" + e.SexpString(nil), Bad: e == zygo.SexpMarker}
	case *zygo.SexpPair:
		if zygo.IsList(e) {
			arr, _ := zygo.ListToArray(e)
			out := vl()
			for _, a := range arr {
				out.L = append(out.L, Canon(a))
			}
			return out
		}
		return vo(e.SexpString(nil))
	case *zygo.SexpArray:
		out := va()
		for _, a := range e.Val {
			out.L = append(out.L, Canon(a))
		}
		return out
	case *zygo.SexpHash:
		out := vh(e.TypeName)
		for _, k := range e.KeyOrder {
			val, err := e.HashGet(nil, k)
			if err != nil {
				return &V{K: 'o', S: "brokenhash", Bad: true}
			}
			out.L = append(out.L, Canon(k), Canon(val))
		}
		return out
	case *zygo.SexpBool, *zygo.SexpFloat:
		return vo(x.SexpString(nil))
	case *zygo.SexpComment:
		return &V{K: 'o', S: "#comment"}
	}
	if x == nil {
		return &V{K: 'o', S: "go-nil", Bad: true}
	}
	return vo(fmt.Sprintf("%T", x))
}

// T is a template in abstract syntax: 'L' literal leaf, 'U' unquote, 'S' splice,
// '(' list, '[' array, '{' hash (L = k v k v ..).
type T struct {
	K  byte
	V  *V // literal value, or the unquoted expression form
	L  []*T
	TN string
}

func tl(v *V) *T          { return &T{K: 'L', V: v} }
func tu(e *V) *T          { return &T{K: 'U', V: e} }
func tsp(e *V) *T         { return &T{K: 'S', V: e} }
func tlist(xs ...*T) *T   { return &T{K: '(', L: xs} }
func tarr(xs ...*T) *T    { return &T{K: '[', L: xs} }

// Tok renders the abstract template syntax of the runner.
func (t *T) Tok() string {
	switch t.K {
	case 'L':
		return t.V.Tok()
	case 'U':
		return "~ " + t.V.Tok()
	case 'S':
		return "~@ " + t.V.Tok()
	case '(', '[':
		cl := ")"
		if t.K == '[' {
			cl = "]"
		}
		s := string(t.K)
		for _, x := range t.L {
			s += " " + x.Tok()
		}
		return s + " " + cl
	case '{':
		s := "{ " + t.TN
		for _, x := range t.L {
			s += " " + x.Tok()
		}
		return s + " }"
	}
	panic("bad T")
}

// Reified is the form the reader is expected to produce (used for the API route and for
// source printing).
func (t *T) Reified() *V {
	switch t.K {
	case 'L':
		return t.V
	case 'U':
		return vl(vy("unquote"), t.V)
	case 'S':
		return vl(vy("unquote-splicing"), t.V)
	}
	out := &V{K: t.K, TN: t.TN}
	for _, x := range t.L {
		out.L = append(out.L, x.Reified())
	}
	return out
}

// Src prints the template as source; sugar selects ~e / ~@e over (unquote e).
// commentFn, when set, supplies a comment (or "") to write before each element and before the
// closing bracket of a list or array of a template printed by Src, and directly after a reader
// prefix (^ ~ ~@ and the quote sugar %).
var commentFn func() string

// afterPrefix: a comment between a reader prefix and its form
func afterPrefix() string {
	if commentFn == nil {
		return ""
	}
	return commentFn()
}

func (t *T) Src(sugar bool) string {
	switch t.K {
	case 'L':
		return t.V.Src()
	case 'U':
		if sugar {
			return "~" + afterPrefix() + t.V.Src()
		}
		return "(unquote " + t.V.Src() + ")"
	case 'S':
		// the long form cannot be typed: "unquote-splicing" lexes as unquote - splicing
		return "~@" + afterPrefix() + t.V.Src()
	case '(', '[':
		op, cl := "(", ")"
		if t.K == '[' {
			op, cl = "[", "]"
		}
		parts := make([]string, len(t.L))
		for i, x := range t.L {
			parts[i] = x.Src(sugar)
			if commentFn != nil {
				parts[i] = commentFn() + parts[i]
			}
		}
		tail := ""
		if commentFn != nil {
			tail = commentFn()
		}
		return op + strings.Join(parts, " ") + tail + cl
	}
	return "<hash>"
}

func (t *T) HasHash() bool {
	if t.K == '{' || (t.V != nil && t.V.HasHash()) {
		return true
	}
	for _, x := range t.L {
		if x.HasHash() {
			return true
		}
	}
	return false
}

// Exprs collects the unquoted expression forms.
func (t *T) Exprs(acc *[]*V) {
	if t.K == 'U' || t.K == 'S' {
		*acc = append(*acc, t.V)
	}
	for _, x := range t.L {
		x.Exprs(acc)
	}
}

func (t *T) Count(k byte) int {
	n := 0
	if t.K == k {
		n++
	}
	for _, x := range t.L {
		n += x.Count(k)
	}
	return n
}

func (t *T) Depth() int {
	d := 0
	for _, x := range t.L {
		if y := x.Depth(); y > d {
			d = y
		}
	}
	if t.K == '(' || t.K == '[' || t.K == '{' {
		return d + 1
	}
	return d
}

// errSubst marks a failed hand substitution.
type errSubst struct{}

// HandSubst is the harness's own substitution (used to WRITE the expansion by hand): every ~e
// becomes bind(e), every ~@e the elements of the list bind(e).  Panics with errSubst on an
// unbound expression or a splice of a non-list.
func (t *T) HandSubst(bind func(*V) *V) *V {
	xs := t.handElems(bind)
	if len(xs) != 1 {
		panic(errSubst{})
	}
	return xs[0]
}

func (t *T) handElems(bind func(*V) *V) []*V {
	switch t.K {
	case 'L':
		return []*V{t.V}
	case 'U':
		v := bind(t.V)
		if v == nil {
			panic(errSubst{})
		}
		return []*V{v}
	case 'S':
		v := bind(t.V)
		if v == nil || v.K != '(' {
			panic(errSubst{})
		}
		return v.L
	case '(', '[':
		out := &V{K: t.K}
		for _, x := range t.L {
			out.L = append(out.L, x.handElems(bind)...)
		}
		return []*V{out}
	}
	panic(errSubst{})
}

// ParseTok reads the model's token syntax of a value (used by --replay for templates that
// only the Go constructors can build).
func ParseTok(s string) *V {
	toks := strings.Fields(s)
	pos := 0
	var rec func() *V
	rec = func() *V {
		if pos >= len(toks) {
			panic("ParseTok: end of input")
		}
		t := toks[pos]
		pos++
		switch t {
		case "(", "[":
			cl := ")"
			if t == "[" {
				cl = "]"
			}
			out := &V{K: t[0]}
			for toks[pos] != cl {
				out.L = append(out.L, rec())
			}
			pos++
			return out
		case "{":
			out := &V{K: '{', TN: toks[pos]}
			pos++
			for toks[pos] != "}" {
				out.L = append(out.L, rec())
			}
			pos++
			return out
		}
		switch t[0] {
		case 'i':
			var n int64
			fmt.Sscanf(t[1:], "%d", &n)
			return vi(n)
		case 'y':
			return vy(t[1:])
		case 's':
			return vs(t[1:])
		case 'o':
			for _, src := range opaqueSrcs {
				if fmt.Sprintf("o%d", opqCode(src)) == t {
					return vo(src)
				}
			}
		}
		panic("ParseTok: bad token " + t)
	}
	return rec()
}
