package main

import (
	"fmt"
	"strings"

	"github.com/glycerine/zygomys/v9/zygo"
	"verif/harness/lib"
)

// Stream "sq:twice": every evaluation of a template must give the template as written.  The
// template is evaluated twice (in a function called from a loop, or directly in a loop body);
// the host function c15rec records the canonical value and the identities of the arrays and
// hashes in it and then updates every such array (as aset does) and hash (as hset does) in
// place.  The second result must again be the exact substitution, and the two results must
// share no array or hash with each other or with the template constant in the code (the
// unchanged generator rebuilds every list, array and hash of a template on every evaluation).
// Objects reachable from the pool's global bindings are legitimately shared through unquotes
// and are left alone.

type evalRec struct {
	tok  string
	ptrs map[interface{}]bool
}

// mutables collects the arrays and hashes in x (by identity).
func mutables(x zygo.Sexp, acc map[interface{}]bool) {
	switch e := x.(type) {
	case *zygo.SexpPair:
		for {
			mutables(e.Head, acc)
			next, ok := e.Tail.(*zygo.SexpPair)
			if !ok {
				mutables(e.Tail, acc)
				return
			}
			e = next
		}
	case *zygo.SexpArray:
		if acc[e] {
			return
		}
		acc[e] = true
		for _, a := range e.Val {
			mutables(a, acc)
		}
	case *zygo.SexpHash:
		if acc[e] {
			return
		}
		acc[e] = true
		for _, k := range e.KeyOrder {
			if v, err := e.HashGet(nil, k); err == nil {
				mutables(v, acc)
			}
		}
	}
}

var poison = int64(-777)

// mutate updates in place every array and hash of x that is not in skip.
func mutate(x zygo.Sexp, skip map[interface{}]bool, done map[interface{}]bool) {
	switch e := x.(type) {
	case *zygo.SexpPair:
		for {
			mutate(e.Head, skip, done)
			next, ok := e.Tail.(*zygo.SexpPair)
			if !ok {
				mutate(e.Tail, skip, done)
				return
			}
			e = next
		}
	case *zygo.SexpArray:
		if skip[e] || done[e] {
			return
		}
		done[e] = true
		for i, a := range e.Val {
			mutate(a, skip, done)
			e.Val[i] = &zygo.SexpInt{Val: poison} // what (aset arr i -777) does
		}
	case *zygo.SexpHash:
		if skip[e] || done[e] {
			return
		}
		done[e] = true
		for _, k := range append([]zygo.Sexp{}, e.KeyOrder...) {
			if v, err := e.HashGet(nil, k); err == nil {
				mutate(v, skip, done)
			}
			_ = e.HashSet(k, &zygo.SexpInt{Val: poison}) // what (hset h k -777) does
		}
	}
}

func (h *H) installRec() {
	h.env.AddFunction("c15rec", func(e *zygo.Zlisp, name string, args []zygo.Sexp) (zygo.Sexp, error) {
		if len(args) != 1 {
			return zygo.SexpNull, fmt.Errorf("c15rec: one argument")
		}
		r := evalRec{tok: Canon(args[0]).Tok(), ptrs: map[interface{}]bool{}}
		mutables(args[0], r.ptrs)
		for p := range h.poolPtrs {
			delete(r.ptrs, p)
		}
		h.recs = append(h.recs, r)
		mutate(args[0], h.poolPtrs, map[interface{}]bool{})
		return zygo.SexpNull, nil
	})
}

// collectPoolPtrs: the arrays and hashes reachable from the global bindings of the pool.
func (h *H) collectPoolPtrs() {
	h.poolPtrs = map[interface{}]bool{}
	for _, p := range h.pool {
		if v, ok := h.env.FindObject(p.name); ok {
			mutables(v, h.poolPtrs)
		}
	}
}

const twiceLoop = "(for [(def i__ 0) (< i__ 2) (set i__ (+ i__ 1))] (c15rec %s))"

func (h *H) twiceCase(t *T, a, binds string, nontrivial bool, tags []string) {
	if t.K == 'S' {
		return
	}
	env := h.env
	h.recs = nil
	var constant zygo.Sexp // the template constant as it sits in the code
	var prog zygo.Sexp
	desc := ""
	direct := !t.HasHash() && h.rng.Intn(2) == 0
	ok := false
	if direct {
		// the template directly in a loop body, read by the real reader
		src := fmt.Sprintf(twiceLoop, "^"+t.Src(true))
		desc = src
		if x, pok := h.parseOne(src); pok {
			if arr, err := zygo.ListToArray(x); err == nil && len(arr) == 3 {
				if call, err := zygo.ListToArray(arr[2]); err == nil && len(call) == 2 {
					if arg, aok := sqArg(call[1]); aok {
						constant, prog, ok = arg, x, true
					}
				}
			}
		}
	} else {
		// a function whose body is the template, called from a loop
		h.fnN++
		fname := fmt.Sprintf("tf%d", h.fnN)
		var sq zygo.Sexp
		if !t.HasHash() {
			if x, pok := h.parseOne("^" + t.Src(true)); pok {
				if arg, aok := sqArg(x); aok {
					constant, sq = arg, x
				}
			}
			desc = "(defn " + fname + " [] ^" + t.Src(true) + ") "
		} else {
			constant = t.Reified().Sexp(env)
			sq = zygo.MakeList([]zygo.Sexp{env.MakeSymbol("syntaxQuote"), constant})
			desc = "(defn " + fname + " [] <go-constructors>) "
		}
		if sq != nil {
			defn := zygo.MakeList([]zygo.Sexp{env.MakeSymbol("defn"), env.MakeSymbol(fname), &zygo.SexpArray{Val: []zygo.Sexp{}, Env: env}, sq})
			r := evalSexp(env, defn)
			h.observe(r, nil)
			src := fmt.Sprintf(twiceLoop, "("+fname+")")
			desc += src
			if x, pok := h.parseOne(src); pok {
				prog, ok = x, true
			}
		}
	}
	vtok := "yPARSE-ERROR"
	impl := "ERR"
	if ok {
		vtok = Canon(constant).Tok()
		r := evalSexp(env, prog)
		impl = h.observe(r, nil)
		if impl != "ERR" && !strings.HasPrefix(impl, "PANIC") {
			impl = h.twiceVerdict(constant)
		}
	}
	route := "route-twice-fn"
	if direct {
		route = "route-twice-loop"
	}
	h.out.Case("sq:twice|"+h.epoch+" "+desc+"|"+a+"|"+vtok+binds, impl, nontrivial, append(append([]string{}, tags...), route)...)
}

// twiceVerdict renders the observable of a twice-evaluated template from the two records.
func (h *H) twiceVerdict(constant zygo.Sexp) string {
	cptrs := map[interface{}]bool{}
	if constant != nil {
		mutables(constant, cptrs)
	}
	if len(h.recs) != 2 {
		return fmt.Sprintf("EVALUATIONS-RECORDED %d", len(h.recs))
	}
	if h.recs[0].tok != h.recs[1].tok {
		return "SECOND-EVALUATION-DIFFERS first= " + h.recs[0].tok + " second= " + h.recs[1].tok
	}
	impl := h.recs[0].tok + " +0"
	for p := range h.recs[1].ptrs {
		if h.recs[0].ptrs[p] {
			impl = "SHARED-MUTABLE-BETWEEN-EVALUATIONS " + h.recs[0].tok
		}
	}
	for i := range h.recs {
		for p := range h.recs[i].ptrs {
			if cptrs[p] {
				impl = "SHARED-MUTABLE-WITH-TEMPLATE-CONSTANT " + h.recs[0].tok
			}
		}
	}
	return impl
}

// replayTwice re-runs a sq:twice case: defs are the pool lines, last the recorded program text.
func (h *H) replayTwice(input string, defs []string, last string) string {
	for _, d := range defs {
		h.observe(lib.Eval(h.env, d, budget), nil)
	}
	for _, n := range []string{"x0", "x1", "x2", "e0", "l1", "l2", "l3", "l4", "a1", "a0", "f1", "h1"} {
		h.pool = append(h.pool, poolVar{name: n})
	}
	h.installRec()
	h.collectPoolPtrs()
	h.recs = nil
	var constant zygo.Sexp
	if i := strings.Index(last, " [] <go-constructors>) "); i >= 0 {
		f := strings.Split(input, "|")
		fname := strings.TrimPrefix(last[:i], "(defn ")
		constant = ParseTok(f[3]).Sexp(h.env)
		sq := zygo.MakeList([]zygo.Sexp{h.env.MakeSymbol("syntaxQuote"), constant})
		defn := zygo.MakeList([]zygo.Sexp{h.env.MakeSymbol("defn"), h.env.MakeSymbol(fname), &zygo.SexpArray{Val: []zygo.Sexp{}, Env: h.env}, sq})
		h.observe(evalSexp(h.env, defn), nil)
		last = last[i+len(" [] <go-constructors>) "):]
	}
	impl := h.observe(lib.Eval(h.env, last, budget), nil)
	if impl != "ERR" && !strings.HasPrefix(impl, "PANIC") {
		impl = h.twiceVerdict(constant)
	}
	return impl
}
