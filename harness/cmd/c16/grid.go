package main

// The structured grid of C16: functions with every mix of lazy / strict / variadic formals
// x call routes x argument kinds x force patterns, together with the spec-level oracle
// (what the property text demands of the trace of argument effects, written down from the
// construction of the program, independently of the Coq model).

import (
	"fmt"
	"strings"

	. "verif/harness/refgen"
)

type Route int

const (
	RDirect Route = iota
	RAlias
	RParam
	RComputed
	RApply
	RMap
	RTyped
	RRec
	RTail
	RRedef     // self tail call of a function that REPLACES, in a later evaluation, a function of the same name and arity whose formals have the opposite laziness
	RTypedTail // self tail call of a typed func declaration (known to the generator while its body is compiled)
	nRoutes
)

var routeName = []string{"direct", "alias", "param", "computed", "apply", "map", "typed", "recursion", "selftail", "redef-selftail", "typed-selftail"}

type Pattern int

const (
	PNever Pattern = iota
	POnce
	PTwice
	PLoop
	PSubst
	PSubstForce
	PForceSubst // force, THEN substitute, then force again: the source survives a successful force
	PEscClos
	PEscArr
	nPatterns
)

var patName = []string{"never", "once", "twice", "loop", "subst", "substforce", "forcesubst", "esc-closure", "esc-array"}

func (p Pattern) forces() bool { return p != PNever && p != PSubst }

type ArgKind int

const (
	KT       ArgKind = iota // (begin (set cnt (+ cnt 1)) (trace (+ a M)))
	KFail                   // (failk (+ a M)) with failat=1
	KUnbound                // ub
	KTypeErr                // (first (+ a M))
	nKinds
)

var kindName = []string{"trace", "failk", "unbound", "typeerr"}

type Shape struct {
	Lazy     []bool // fixed formals
	Variadic bool   // & r
}

func (s Shape) String() string {
	var sb strings.Builder
	for _, l := range s.Lazy {
		if l {
			sb.WriteString("L")
		} else {
			sb.WriteString("S")
		}
	}
	if s.Variadic {
		sb.WriteString("V")
	}
	return sb.String()
}

func allShapes() []Shape {
	var out []Shape
	for k := 1; k <= 3; k++ {
		for m := 0; m < 1<<k; m++ {
			lz := make([]bool, k)
			for i := range lz {
				lz[i] = m&(1<<i) != 0
			}
			out = append(out, Shape{lz, false}, Shape{lz, true})
		}
	}
	return out
}

// caller kinds: the function that contains the call is a plain defn, or a closure made one /
// two function levels below the variables k (k2) that the argument expressions mention
const nCallerKinds = 3

var callerKindName = []string{"defn", "closure1", "closure2"}

// value variants: what the argument standing in a LAZY formal's position evaluates to (after its
// traced effect).  Memoisation, wrapping and forcing must not depend on the value: nil, false, 0,
// the empty string, a symbol and a list are values like any other.
type valVariant struct {
	name   string
	expr   func() *Node // nil = the traced number itself
	render string
}

var valVariants = []valVariant{
	{"int", nil, ""},
	{"nil", func() *Node { return Nil() }, "N"},
	{"int", nil, ""},
	{"false", func() *Node { return Bool(false) }, "Bf"},
	{"int", nil, ""},
	{"emptystr", func() *Node { return Str("") }, "S"},
	{"nil", func() *Node { return Nil() }, "N"},
	{"symbol", func() *Node { return QuoteSym("sa") }, "Ysa"},
	{"int", nil, ""},
	{"list", func() *Node { return CallN("list", Int(1)) }, "(P I1 N)"},
	{"zero", func() *Node { return Int(0) }, "I0"},
}

// Bare-variable arguments: the argument at one position is a plain symbol whose LEXICAL binding
// (seen from the caller) differs from the binding a dynamic look-up along the call stack would
// find: "w" is global (7) while the function that called the caller has a formal w (8); "k" is
// captured by the closure that makes the call (0) while a global k (50) and a formal k of the
// caller's caller (9) exist.  Every program runs the caller from (outer 8 9 10).
type GridCase struct {
	Bare    int    // position of the bare-variable argument, -1 = none
	BareSym string // "w", "k", "k2" "a" (the caller's let-bound local, 100; the callee binds its own a = 5 around the forces) or "cnt" (the global counter the traced arguments increment: its value tells WHEN the variable was read)
	// PassOn: the formals are handed on, as they are, to a further call before the body sees them
	// (lazy ones as #p: the call mechanism wraps the SYMBOL #p again, it does not pass the thunk
	// through).  Recursion routes: the inner call (f (- n 1) #p0 p1 ..), i.e. two further
	// activations; the other routes: f relays to f2, which has the body.  The body forces three deep.
	PassOn  bool
	Val     int // index into valVariants
	Caller  int // caller kind
	Split   int // > 0: the first Split forms are a separate, earlier evaluation
	Shape   Shape
	Route   Route
	Pat     Pattern
	Kinds   []ArgKind // one per actual argument (fixed formals + 2 extra when variadic)
	P       *Program
	Typed   []string // names of defns to render as typed func declarations
	Oracle  string
	Tags    []string
	Nontriv bool
}

func pname(i int, lazy bool) string {
	if lazy {
		return fmt.Sprintf("#p%d", i)
	}
	return fmt.Sprintf("p%d", i)
}

func plus(a, b *Node) *Node { return CallN("+", a, b) }

// argument expression of kind k with marker m, reading the variable base
func argExpr(k ArgKind, base func() *Node, m int64) *Node {
	switch k {
	case KFail:
		return CallN("failk", plus(base(), Int(m)))
	case KUnbound:
		return Var("ub")
	case KTypeErr:
		return CallN("first", plus(base(), Int(m)))
	}
	return Begin(Set("cnt", plus(Var("cnt"), Int(1))), CallN("trace", plus(base(), Int(m))))
}

// canonical rendering (format of refgen.RenderValue) of the source form of an expression, as
// (substitute #x) must return it
func srcDatum(n *Node) string {
	lst := func(items ...string) string {
		s := "N"
		for i := len(items) - 1; i >= 0; i-- {
			s = "(P " + items[i] + " " + s + ")"
		}
		return s
	}
	switch n.K {
	case KInt:
		return fmt.Sprintf("I%d", n.I)
	case KVar:
		return "Y" + n.Name
	case KCall:
		items := []string{}
		for _, k := range n.Kids {
			items = append(items, srcDatum(k))
		}
		return lst(items...)
	case KBegin:
		items := []string{"Ybegin"}
		for _, k := range n.Kids {
			items = append(items, srcDatum(k))
		}
		return lst(items...)
	case KSet:
		return lst("Yset", "Y"+n.Name, srcDatum(n.Kids[0]))
	case KNil:
		return "N"
	case KBool:
		if n.B {
			return "Bt"
		}
		return "Bf"
	case KStr:
		return fmt.Sprintf("S%x", []byte(n.S))
	case KQuote:
		if n.D != nil && !n.D.IsLst && !n.D.IsInt {
			return lst("Yquote", "Y"+n.D.Sym)
		}
	}
	return "?"
}

func listVal(items ...string) string {
	s := "N"
	for i := len(items) - 1; i >= 0; i-- {
		s = "(P " + items[i] + " " + s + ")"
	}
	return s
}

// what the body does with formal i under pattern pat
func action(pat Pattern, name string, lazy bool, frc func(*Node) *Node) *Node {
	v := Var(name)
	f := func() *Node { return frc(Var(name)) }
	if !lazy {
		switch pat {
		case POnce, PTwice:
			return f() // force of a strict (already evaluated) argument returns it
		}
		return v
	}
	switch pat {
	case PNever:
		return CallN("force", Int(0)) // force of a non-thunk
	case POnce:
		return f()
	case PTwice:
		return CallN("list", f(), f())
	case PLoop:
		return For("", Def("i", Int(0)), CallN("<", Var("i"), Int(3)), Set("i", plus(Var("i"), Int(1))), f())
	case PSubst:
		return CallN("substitute", v)
	case PSubstForce:
		return CallN("list", CallN("substitute", v), f())
	case PForceSubst:
		return CallN("list", f(), CallN("substitute", v), f())
	}
	return v
}

// the value (rendered) of action for a formal whose argument value is val / source datum is src;
// valueThunk: the thunk was made by apply/map from an already evaluated value
func actionVal(pat Pattern, lazy bool, val, src string, valueThunk bool) string {
	if !lazy {
		return val
	}
	if valueThunk {
		src = val
	}
	switch pat {
	case PNever:
		return "I0"
	case POnce:
		return val
	case PTwice:
		return listVal(val, val)
	case PLoop:
		return "N"
	case PSubst:
		return src
	case PSubstForce:
		return listVal(src, val)
	case PForceSubst:
		return listVal(val, src, val)
	}
	return "?"
}

func hasErrKind(ks []ArgKind) (int, bool) {
	for i, k := range ks {
		if k != KT {
			return i, true
		}
	}
	return -1, false
}

// Build constructs the program of one grid point and its oracle.
func (gc *GridCase) Build() {
	sh, route, pat := gc.Shape, gc.Route, gc.Pat
	k := len(sh.Lazy)
	nargs := len(gc.Kinds)
	rec := route == RRec || route == RTail || route == RRedef || route == RTypedTail
	failAt := 0
	for _, kd := range gc.Kinds {
		if kd == KFail {
			failAt = 1
		}
	}

	// ---- formals
	var params []string
	if rec {
		params = append(params, "n")
	}
	for i, l := range sh.Lazy {
		params = append(params, pname(i, l))
	}
	rest := ""
	if sh.Variadic {
		rest = "r"
	}

	// ---- body
	frc := func(x *Node) *Node {
		if gc.PassOn {
			return CallN("force", CallN("force", CallN("force", x)))
		}
		return CallN("force", x)
	}
	var acts []*Node
	for i, l := range sh.Lazy {
		acts = append(acts, action(pat, pname(i, l), l, frc))
	}
	if sh.Variadic {
		acts = append(acts, Var("r"))
	}
	var core *Node
	switch pat {
	case PEscClos:
		var fs []*Node
		for i, l := range sh.Lazy {
			if l {
				fs = append(fs, frc(Var(pname(i, l))))
			} else {
				fs = append(fs, Var(pname(i, l)))
			}
		}
		core = Fn(nil, "", CallN("list", fs...))
	case PEscArr:
		var es []*Node
		for i, l := range sh.Lazy {
			es = append(es, Var(pname(i, l)))
		}
		core = Arr(es...)
	default:
		core = Let(false, []string{"a"}, []*Node{Int(5)}, CallN("list", acts...))
	}
	var body []*Node
	body = append(body, CallN("trace", Int(99)))
	if rec {
		// inner call: new argument expressions in the callee's own environment
		inner := []*Node{CallN("-", Var("n"), Int(1))}
		for i := 0; i < nargs; i++ {
			if gc.PassOn && i < k {
				inner = append(inner, Var(pname(i, sh.Lazy[i])))
				continue
			}
			inner = append(inner, CallN("trace", plus(CallN("*", Var("n"), Int(10)), Int(int64(20+i)))))
		}
		call := CallN("f", inner...)
		if route == RRec {
			call = CallN("first", CallN("list", call))
		}
		body = append(body, Cond(CallN(">", Var("n"), Int(0)), call, core))
	} else if gc.PassOn {
		var relay []*Node
		ncall := k // what f2 is called with: its fixed formals (+ two extras when variadic); the map route has nargs = number of ELEMENTS
		if sh.Variadic {
			ncall = k + 2
		}
		for i := 0; i < ncall; i++ {
			if i < k {
				relay = append(relay, Var(pname(i, sh.Lazy[i])))
			} else {
				relay = append(relay, CallN("trace", Int(int64(60+i))))
			}
		}
		body = append(body, CallN("f2", relay...))
	} else {
		body = append(body, core)
	}
	fdef := Defn("f", params, rest, body...)

	// ---- the call
	var args []*Node
	// the base of every argument expression: the caller's local a (100), plus, when the caller is
	// a closure, the variables it captured from the enclosing function(s) (all 0)
	base := func() *Node {
		switch gc.Caller {
		case 1:
			return plus(Var("a"), Var("k"))
		case 2:
			return plus(Var("a"), plus(Var("k"), Var("k2")))
		}
		return Var("a")
	}
	vv := valVariants[gc.Val%len(valVariants)]
	variantAt := func(i int) bool { return vv.expr != nil && i < k && sh.Lazy[i] && gc.Kinds[i] == KT }
	_, anyErr := hasErrKind(gc.Kinds)
	bareAt := func(i int) bool { return !anyErr && gc.BareSym != "" && i == gc.Bare && i < nargs }
	bareVal := "I7"
	if gc.BareSym == "k" || gc.BareSym == "k2" {
		bareVal = "I0"
	}
	if gc.BareSym == "a" {
		bareVal = "I100"
	}
	for i, kd := range gc.Kinds {
		if bareAt(i) {
			args = append(args, Var(gc.BareSym))
			continue
		}
		e := argExpr(kd, base, int64(10+i))
		if variantAt(i) {
			e.Kids = append(e.Kids, vv.expr()) // (begin (set cnt ..) (trace ..) VALUE)
		}
		args = append(args, e)
	}
	var callee *Node
	var pre []*Node
	callerParams := []string{}
	callerArgs := []*Node{}
	switch route {
	case RAlias:
		pre = append(pre, Def("g", Var("f")))
		callee = Var("g")
	case RParam:
		callerParams = []string{"h"}
		callerArgs = []*Node{Var("f")}
		callee = Var("h")
	case RComputed:
		pre = append(pre, Defn("g0", nil, "r", Int(0)))
		callee = Cond(CallN("<", Var("cnt"), Int(50)), Var("f"), Var("g0"))
	default:
		callee = Var("f")
	}
	var call *Node
	switch route {
	case RApply, RMap:
		// the values are handed over in an array the caller keeps: it is returned next to the
		// result so that what the route did to the caller's collection is observed
		op := "apply"
		if route == RMap {
			op = "map"
		}
		call = Begin(Def("coll", Arr(args...)), CallN("list", CallN(op, Var("f"), Var("coll")), Var("coll")))
	case RRec, RTail, RRedef, RTypedTail:
		call = Call(callee, append([]*Node{Int(2)}, args...)...)
	default:
		call = Call(callee, args...)
	}
	callerBody := Let(false, []string{"a"}, []*Node{Int(100)}, call)
	var callerForms []*Node
	switch gc.Caller {
	case 1:
		callerForms = []*Node{Defn("mk", []string{"k"}, "", Fn(callerParams, "", callerBody)), Def("caller", CallN("mk", Int(0)))}
	case 2:
		callerForms = []*Node{Defn("mk2", []string{"k2"}, "", Fn([]string{"k"}, "", Fn(callerParams, "", callerBody))),
			Def("caller", Call(CallN("mk2", Int(0)), Int(0)))}
	default:
		callerForms = []*Node{Defn("caller", callerParams, "", callerBody)}
	}

	forms := []*Node{Def("cnt", Int(0)), Def("w", Int(7)), Def("k", Int(50)), Def("k2", Int(60))}
	if route == RRedef {
		// an earlier evaluation defines f with the same arity and the opposite laziness
		old := []string{"n"}
		for i, l := range sh.Lazy {
			old = append(old, pname(i, !l))
		}
		forms = append(forms, Defn("f", old, rest, Int(0)))
		gc.Split = len(forms)
	}
	if gc.PassOn && !rec {
		forms = append(forms, Defn("f2", params, rest, core))
	}
	forms = append(forms, fdef)
	forms = append(forms, pre...)
	forms = append(forms, callerForms...)
	// the caller is run by a function whose formals are named like the variables the arguments mention
	outerDef := Defn("outer", []string{"w", "k", "k2"}, "", CallN("caller", callerArgs...))
	outerCall := CallN("outer", Int(8), Int(9), Int(10))
	viaColl := route == RApply || route == RMap
	var tailItems []*Node // observed after everything else: the caller's collection
	if viaColl {
		forms = append(forms, outerDef, Def("both", outerCall), Def("res", CallN("first", Var("both"))))
		tailItems = []*Node{CallN("first", CallN("rest", Var("both")))}
	} else {
		forms = append(forms, outerDef, Def("res", outerCall))
	}
	switch {
	case pat == PEscClos && route != RMap:
		forms = append(forms, CallN("trace", Int(98)), CallN("list", append([]*Node{CallN("res"), CallN("res"), Var("cnt")}, tailItems...)...))
	case pat == PEscArr && route != RMap:
		var fs []*Node
		for i := range sh.Lazy {
			fs = append(fs, frc(CallN("aget", Var("res"), Int(int64(i)))))
			fs = append(fs, frc(CallN("aget", Var("res"), Int(int64(i)))))
		}
		fs = append(fs, Var("cnt"))
		fs = append(fs, tailItems...)
		forms = append(forms, CallN("trace", Int(98)), CallN("list", fs...))
	default:
		forms = append(forms, CallN("list", append([]*Node{Var("res"), Var("cnt")}, tailItems...)...))
	}
	gc.P = &Program{Forms: forms, FailAt: failAt}
	if route == RTyped || route == RTypedTail {
		gc.Typed = []string{"f"}
	}
	if gc.PassOn {
		gc.Tags = append(gc.Tags, "formals-passed-on")
	}
	gc.Tags = append(gc.Tags, "stream:grid", "route:"+routeName[route], "pattern:"+patName[pat], "shape:"+sh.String(), "caller:"+callerKindName[gc.Caller], "argvalue:"+vv.name)
	if gc.BareSym != "" && gc.Bare >= 0 && gc.Bare < nargs && !anyErr {
		gc.Tags = append(gc.Tags, "barevar:"+gc.BareSym)
	}
	for _, kd := range gc.Kinds {
		if kd != KT {
			gc.Tags = append(gc.Tags, "argkind:"+kindName[kd])
		}
	}
	gc.Nontriv = true

	// ---- oracle
	mk := func(i int) string { return fmt.Sprintf("I%d", 110+i) } // marker (traced effect) of outer argument i
	var cntAt func(i int) int
	val := func(i int) string { // value of outer argument i
		if bareAt(i) && gc.BareSym == "cnt" {
			return fmt.Sprintf("I%d", cntAt(i))
		}
		if bareAt(i) {
			return bareVal
		}
		if variantAt(i) {
			return vv.render
		}
		return mk(i)
	}
	collVal := func() string {
		var vs []string
		for i := 0; i < nargs; i++ {
			vs = append(vs, val(i))
		}
		return "[" + strings.Join(vs, " ") + "]"
	}
	withColl := func(items ...string) []string {
		if viaColl {
			return append(items, collVal())
		}
		return items
	}
	recFresh := rec && !gc.PassOn // the inner calls get fresh argument expressions: the outer lazy ones are dropped unforced
	isLazyPos := func(i int) bool { return i < k && sh.Lazy[i] && route != RApply && route != RMap }
	// the bare variable cnt (the global every traced argument increments): its value is the number
	// of argument evaluations that happened BEFORE it is read -- for a strict position the traced
	// arguments to its left, for a lazy position (read when forced, in the store at force time) all
	// strict ones plus the lazy ones forced before it
	cntAt = func(i int) int {
		c := 0
		for j := 0; j < nargs; j++ {
			if j == i {
				continue
			}
			switch {
			case !isLazyPos(j):
				if isLazyPos(i) || j < i {
					c++
				}
			case isLazyPos(i) && j < i && pat.forces():
				c++
			}
		}
		return c
	}
	var cons []string
	errPos, hasErr := hasErrKind(gc.Kinds)
	escape := pat == PEscClos || pat == PEscArr
	// an argument evaluated in the callee's environment (a = 5) would trace 15+i
	var wrongEnv []string
	for i := 0; i < nargs; i++ {
		wrongEnv = append(wrongEnv, fmt.Sprintf("I%d", 15+i))
	}
	cons = append(cons, "zero:"+strings.Join(wrongEnv, ","))
	if route == RMap {
		// one call per element; every element expression is evaluated once, in order, by the array literal
		if !hasErr {
			var ms []string
			for i := 0; i < nargs; i++ {
				if !bareAt(i) {
					ms = append(ms, mk(i))
				}
			}
			cons = append(cons, "once:"+strings.Join(ms, ","), "order:"+strings.Join(append(ms, "I99"), "<"), "noerr")
		} else {
			cons = append(cons, "err")
		}
		gc.Oracle = strings.Join(cons, ";")
		return
	}
	if hasErr {
		strictErr := !isLazyPos(errPos)
		var once, zero, max1 []string
		for i := 0; i < nargs; i++ {
			if i == errPos {
				continue
			}
			switch {
			case isLazyPos(i) && !pat.forces():
				zero = append(zero, mk(i))
			case isLazyPos(i):
				max1 = append(max1, mk(i))
			case strictErr && i > errPos:
				zero = append(zero, mk(i))
			default:
				once = append(once, mk(i))
			}
		}
		if strictErr {
			cons = append(cons, "err", "zero:I99")
		} else if !pat.forces() || recFresh {
			// a lazy argument that would fail is never forced (in the recursion routes the outer
			// lazy arguments are never forced at all)
			cons = append(cons, "noerr")
		} else {
			cons = append(cons, "err")
		}
		if recFresh {
			// outer lazy arguments are never forced
			zero = append(zero, max1...)
			max1 = nil
		}
		if len(once) > 0 {
			cons = append(cons, "once:"+strings.Join(once, ","))
		}
		if len(zero) > 0 {
			cons = append(cons, "zero:"+strings.Join(zero, ","))
		}
		if len(max1) > 0 {
			cons = append(cons, "max1:"+strings.Join(max1, ","))
		}
		gc.Oracle = strings.Join(cons, ";")
		return
	}
	// no failing argument: the whole trace is determined
	var tr []string
	cnt := 0
	for i := 0; i < nargs; i++ {
		if !isLazyPos(i) && !bareAt(i) {
			tr = append(tr, mk(i))
			cnt++
		}
	}
	if recFresh {
		// activations n=2 (outer arguments), n=1 (arguments 40+i), n=0 (arguments 30+i; the body runs)
		for _, lvl := range []int{40, 30} {
			tr = append(tr, "I99")
			for i := 0; i < nargs; i++ {
				if !isLazyPos(i) {
					tr = append(tr, fmt.Sprintf("I%d", lvl+i))
				}
			}
		}
		tr = append(tr, "I99")
		if escape {
			tr = append(tr, "I98")
		}
		if pat.forces() {
			for i := 0; i < k; i++ {
				if isLazyPos(i) {
					tr = append(tr, fmt.Sprintf("I%d", 30+i))
				}
			}
		}
		var zero []string
		for i := 0; i < k; i++ {
			if isLazyPos(i) {
				zero = append(zero, mk(i), fmt.Sprintf("I%d", 40+i))
			}
		}
		if len(zero) > 0 {
			cons = append(cons, "zero:"+strings.Join(zero, ","))
		}
		cons = append(cons, "noerr", "trace:"+strings.Join(tr, ","))
		gc.Oracle = strings.Join(cons, ";")
		return
	}
	extraVal := val // value of the variadic extras as the body sees them
	switch {
	case rec: // formals passed on through two further activations; the extras are fresh at each
		for _, lvl := range []int{40, 30} {
			tr = append(tr, "I99")
			for i := k; i < nargs; i++ {
				tr = append(tr, fmt.Sprintf("I%d", lvl+i))
			}
		}
		tr = append(tr, "I99")
		extraVal = func(i int) string { return fmt.Sprintf("I%d", 30+i) }
	case gc.PassOn: // f relays to f2
		tr = append(tr, "I99")
		for i := k; i < nargs; i++ {
			tr = append(tr, fmt.Sprintf("I%d", 60+i))
		}
		extraVal = func(i int) string { return fmt.Sprintf("I%d", 60+i) }
	default:
		tr = append(tr, "I99")
	}
	if escape {
		tr = append(tr, "I98")
	}
	if pat.forces() {
		for i := 0; i < k; i++ {
			if isLazyPos(i) && !bareAt(i) {
				tr = append(tr, mk(i))
				cnt++
			}
		}
	}
	cons = append(cons, "noerr", "trace:"+strings.Join(tr, ","))
	// the value
	valueThunk := route == RApply && !gc.PassOn
	var vals []string
	for i := 0; i < k; i++ {
		src := srcDatum(args[i])
		if gc.PassOn && sh.Lazy[i] {
			src = "Y" + pname(i, true) // the source of a formal passed on is the formal's symbol
		}
		vals = append(vals, actionVal(pat, sh.Lazy[i], val(i), src, valueThunk))
	}
	switch pat {
	case PEscClos:
		var vs []string
		for i := 0; i < k; i++ {
			vs = append(vs, val(i))
		}
		l := listVal(vs...)
		cons = append(cons, "val:"+strings.ReplaceAll(listVal(withColl(l, l, fmt.Sprintf("I%d", cnt))...), " ", "_"))
	case PEscArr:
		var vs []string
		for i := 0; i < k; i++ {
			vs = append(vs, val(i), val(i))
		}
		vs = append(vs, fmt.Sprintf("I%d", cnt))
		cons = append(cons, "val:"+strings.ReplaceAll(listVal(withColl(vs...)...), " ", "_"))
	default:
		if sh.Variadic {
			var ex []string
			for i := k; i < nargs; i++ {
				ex = append(ex, extraVal(i))
			}
			vals = append(vals, listVal(ex...))
		}
		cons = append(cons, "val:"+strings.ReplaceAll(listVal(withColl(listVal(vals...), fmt.Sprintf("I%d", cnt))...), " ", "_"))
	}
	gc.Oracle = strings.Join(cons, ";")
}

// EachGrid enumerates the grid. full = every argument-kind vector; otherwise all-trace plus a
// rotating selection of failing kinds.
func EachGrid(full bool, emit func(*GridCase)) {
	shapes := allShapes()
	rot := 0
	crot := 0
	vrot := 0
	brot := 0
	prot := 0
	for _, sh := range shapes {
		k := len(sh.Lazy)
		nargs := k
		if sh.Variadic {
			nargs = k + 2
		}
		for route := Route(0); route < nRoutes; route++ {
			if route == RMap && k != 1 {
				continue
			}
			if (route == RTyped || route == RTypedTail) && sh.Variadic {
				continue
			}
			for pat := Pattern(0); pat < nPatterns; pat++ {
				if (pat == PEscClos || pat == PEscArr) && (route == RMap) {
					continue
				}
				var kindVecs [][]ArgKind
				base := make([]ArgKind, nargs)
				kindVecs = append(kindVecs, base)
				var errVecs [][]ArgKind
				for j := 0; j < nargs; j++ {
					for kd := KFail; kd < nKinds; kd++ {
						v := make([]ArgKind, nargs)
						v[j] = kd
						errVecs = append(errVecs, v)
					}
				}
				if full {
					kindVecs = append(kindVecs, errVecs...)
				} else {
					for c := 0; c < 2; c++ {
						kindVecs = append(kindVecs, errVecs[rot%len(errVecs)])
						rot += 7
					}
				}
				for vi, kv := range kindVecs {
					nargsHere := kv
					if route == RMap {
						// two elements, each a call with one argument
						nargsHere = append([]ArgKind{}, kv[0], KT)
						if sh.Variadic {
							nargsHere = nargsHere[:2]
						}
					}
					kinds := []int{(crot + crot/3) % nCallerKinds} // (the plain rotation gave the all-trace vector of every point the same kind)
					crot++
					if full && vi == 0 {
						kinds = []int{0, 1, 2}
					}
					for _, ck := range kinds {
						for po := 0; po < 2; po++ {
							if po == 1 && vi != 0 && !full {
								continue
							}
							if vi != 0 && !full {
								prot++
							}
							gc := &GridCase{Shape: sh, Route: route, Pat: pat, Kinds: nargsHere, Caller: ck, Val: vrot, Bare: -1, PassOn: po == 1 || (vi != 0 && !full && prot%2 == 0)}
							vrot++
							// a bare-variable argument at a rotating position in two grid points of three
							if b := brot % (len(nargsHere) + 1); vi == 0 && brot%3 != 0 && b < len(nargsHere) {
								gc.Bare = b
								gc.BareSym = "w"
								if brot%7 == 0 {
									gc.BareSym = "cnt"
								} else if brot%5 == 0 {
									gc.BareSym = "a"
								} else if ck != 0 && brot%2 == 0 {
									gc.BareSym = "k"
									if ck == 2 && brot%4 == 0 {
										gc.BareSym = "k2"
									}
								}
							}
							if vi == 0 {
								brot++
							}
							gc.Build()
							emit(gc)
						}
					}
				}
			}
		}
	}
}
