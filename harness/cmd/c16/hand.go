package main

import (
	. "verif/harness/refgen"
)

type Hand struct {
	P      *Program
	Oracle string
	Tags   []string
	Typed  []string
}

func (h Hand) src() string {
	s := h.P.Source(Style{})
	if len(h.Typed) > 0 {
		s = typedSource(s, h.Typed)
	}
	return s
}

func prog(forms ...*Node) *Program { return &Program{Forms: forms} }

func handCases() []Hand {
	tr := func(i int64) *Node { return CallN("trace", Int(i)) }
	force := func(n string) *Node { return CallN("force", Var(n)) }
	return []Hand{
		// lazy_test.go
		{P: prog(Defn("keep", []string{"#x"}, "", Int(7)), CallN("keep", tr(1))), Oracle: "zero:I1;val:I7"},
		{P: prog(Defn("recv", []string{"#x"}, "", Let(false, []string{"a"}, []*Node{Int(100)}, force("#x"))),
			Defn("caller", nil, "", Let(false, []string{"a"}, []*Node{Int(7)}, CallN("recv", plus(Var("a"), Int(1))))),
			CallN("caller")), Oracle: "val:I8"},
		{P: prog(Def("n", Int(0)), Defn("bump", nil, "", Set("n", plus(Var("n"), Int(1))), Var("n")),
			Defn("twice", []string{"#x"}, "", plus(force("#x"), force("#x"))), CallN("list", CallN("twice", CallN("bump")), Var("n"))),
			Oracle: "val:<P_I2_<P_I1_N>>"},
		{P: prog(Defn("mixed", []string{"a", "#b", "c"}, "", plus(Var("a"), Var("c"))), CallN("mixed", tr(1), tr(2), tr(3))),
			Oracle: "trace:I1,I3;val:I4"},
		{P: prog(Call(Fn([]string{"#x"}, "", force("#x")), plus(Int(10), Int(5)))), Oracle: "val:I15"},
		{P: prog(Defn("ft", []string{"#x"}, "", force("#x")), CallN("ft", plus(Int(20), Int(22)))), Typed: []string{"ft"}, Oracle: "val:I42"},
		{P: prog(Defn("insp", []string{"#x"}, "", CallN("list", CallN("substitute", Var("#x")), force("#x"))), CallN("apply", Var("insp"), Arr(tr(42)))),
			Oracle: "trace:I42;val:<P_I42_<P_I42_N>>"},
		{P: prog(Defn("insp", []string{"#x"}, "", CallN("substitute", Var("#x"))), CallN("map", Var("insp"), Arr(Int(4), Int(5)))), Oracle: "val:[I4_I5]"},
		// apply / map wrap VALUES: a list or symbol value must not be evaluated as code by force
		{P: prog(Defn("insp", []string{"#x"}, "", CallN("list", force("#x"), CallN("substitute", Var("#x")))),
			CallN("apply", Var("insp"), Arr(Quote(&Datum{IsLst: true, List: []*Datum{{Sym: "trace"}, {IsInt: true, I: 5}}})))),
			Oracle: "zero:I5;noerr;val:<P_<P_Ytrace_<P_I5_N>>_<P_<P_Ytrace_<P_I5_N>>_N>>"},
		{P: prog(Defn("insp", []string{"#x"}, "", force("#x")), CallN("map", Var("insp"), Arr(QuoteSym("sa"), QuoteSym("sb")))),
			Oracle: "noerr;val:[Ysa_Ysb]"},
		{P: prog(Defn("insp", []string{"p", "#x"}, "", CallN("list", Var("p"), force("#x"))), CallN("map", Fn([]string{"#e"}, "", CallN("insp", Int(1), force("#e"))), CallN("list", QuoteSym("sa")))),
			Oracle: "noerr"},
		// the memo does not depend on the value: an argument evaluating to nil / false is evaluated once
		{P: prog(Defn("f", []string{"#x"}, "", CallN("list", force("#x"), force("#x"), force("#x"))), CallN("f", Begin(tr(1), Nil()))),
			Oracle: "trace:I1;val:<P_N_<P_N_<P_N_N>>>"},
		{P: prog(Defn("k", []string{"#z"}, "", Var("#z")), Def("t", CallN("k", Begin(tr(1), Bool(false)))), CallN("list", force("t"), force("t"))),
			Oracle: "trace:I1;val:<P_Bf_<P_Bf_N>>"},
		// apply / map must leave the caller's array alone
		{P: prog(Defn("lz", []string{"#x"}, "", plus(force("#x"), Int(1))), Defn("st", []string{"y"}, "", Var("y")), Def("v", Arr(Int(1), Int(2))),
			CallN("list", CallN("map", Var("lz"), Var("v")), Var("v"), CallN("map", Var("st"), Var("v")), CallN("map", Var("lz"), Var("v")))),
			Oracle: "noerr;val:<P_[I2_I3]_<P_[I1_I2]_<P_[I1_I2]_<P_[I2_I3]_N>>>>"},
		{P: prog(Defn("lz2", []string{"#x", "y"}, "", plus(force("#x"), Var("y"))), Def("v", Arr(Int(1), Int(2))),
			CallN("list", CallN("apply", Var("lz2"), Var("v")), Var("v"), CallN("apply", Var("lz2"), Var("v")), CallN("apply", Var("+"), Var("v")))),
			Oracle: "noerr;val:<P_I3_<P_[I1_I2]_<P_I3_<P_I3_N>>>>"},
		// a lazy argument that is a bare variable is looked up LEXICALLY from the caller
		{P: prog(Def("a", Int(1)), Defn("recv", []string{"#x"}, "", force("#x")), Defn("caller", nil, "", CallN("recv", Var("a"))),
			Defn("callerx", nil, "", CallN("recv", plus(Var("a"), Int(0)))), Defn("outer", []string{"a"}, "", CallN("list", CallN("caller"), CallN("callerx"))),
			CallN("outer", Int(2))), Oracle: "val:<P_I1_<P_I1_N>>"},
		{P: prog(Def("k", Int(100)), Defn("recv", []string{"#x"}, "", force("#x")), Defn("mk", []string{"k"}, "", Fn(nil, "", CallN("recv", Var("k")))),
			Def("th", CallN("mk", Int(5))), Defn("run", []string{"f"}, "", CallN("f")), CallN("run", Var("th"))), Oracle: "val:I5"},
		{P: prog(Def("a", Int(1)), Defn("keep", []string{"#x"}, "", Var("#x")), Defn("caller", nil, "", CallN("keep", Var("a"))),
			Defn("outer", []string{"a"}, "", CallN("caller")), Def("t", CallN("outer", Int(2))), Defn("later", []string{"a"}, "", force("t")),
			CallN("list", CallN("later", Int(3)), force("t"))), Oracle: "val:<P_I1_<P_I1_N>>"},
		// a thunk is a first-class value: passing #x on hands the thunk to a strict formal
		{P: prog(Defn("h", []string{"y"}, "", Var("y")), Defn("g", []string{"#x"}, "", CallN("h", Var("#x"))), CallN("g", tr(1))),
			Oracle: "zero:I1;val:LZ", Tags: []string{"thunk-passed-on"}},
		{P: prog(Defn("h", []string{"y"}, "", force("y")), Defn("g", []string{"#x"}, "", CallN("list", CallN("h", Var("#x")), force("#x"))), CallN("g", tr(1))),
			Oracle: "trace:I1;val:<P_I1_<P_I1_N>>", Tags: []string{"thunk-passed-on"}},
		// thunk of a thunk: (g2 #x) makes a new thunk whose value is the first thunk
		{P: prog(Defn("g2", []string{"#y"}, "", force(("#y"))), Defn("g1", []string{"#x"}, "", CallN("list", CallN("g2", Var("#x")), CallN("force", CallN("g2", Var("#x"))))), CallN("g1", tr(1))),
			Oracle: "trace:I1;val:<P_LZ_<P_I1_N>>"},
		// the store at force time, the environment of the call
		{P: prog(Defn("k", []string{"#z"}, "", Var("#z")),
			Defn("mk", nil, "", Let(false, []string{"a"}, []*Node{Int(1)}, CallN("list", CallN("k", CallN("trace", plus(Var("a"), Int(10)))), Fn([]string{"v"}, "", Set("a", Var("v")))))),
			Def("pr", CallN("mk")), Call(CallN("first", CallN("rest", Var("pr"))), Int(100)),
			CallN("list", CallN("force", CallN("first", Var("pr"))), CallN("force", CallN("first", Var("pr"))))),
			Oracle: "trace:I110;val:<P_I110_<P_I110_N>>"},
		// self tail call: only the thunk of the last iteration is forced
		{P: prog(Def("n0", Int(0)),
			Defn("lp", []string{"#x", "n"}, "", Cond(CallN("==", Var("n"), Int(0)), force("#x"), CallN("lp", Begin(Set("n0", plus(Var("n0"), Int(1))), CallN("trace", Var("n"))), CallN("-", Var("n"), Int(1))))),
			CallN("list", CallN("lp", tr(99), Int(3)), Var("n0"))), Oracle: "trace:I1;val:<P_I1_<P_I1_N>>"},
		// self tail call handing its lazy formal on: the SYMBOL #x is wrapped again at every jump (not the
		// thunk passed through); the argument is evaluated once, in the first caller's environment
		{P: prog(Defn("lp", []string{"#x", "n"}, "", Cond(CallN("==", Var("n"), Int(0)),
			CallN("list", CallN("substitute", Var("#x")), CallN("force", CallN("force", force("#x"))), CallN("force", CallN("force", force("#x")))),
			CallN("lp", Var("#x"), CallN("-", Var("n"), Int(1))))),
			Defn("caller", nil, "", Let(false, []string{"a"}, []*Node{Int(5)}, CallN("lp", CallN("trace", plus(Var("a"), Int(1))), Int(2)))),
			Def("a", Int(50)), CallN("caller")), Oracle: "trace:I6;val:<P_Y#x_<P_I6_<P_I6_N>>>", Tags: []string{"selftail-passes-formal-on"}},
		{P: prog(Defn("lp", []string{"#x", "n"}, "", Cond(CallN("==", Var("n"), Int(0)), force("#x"), CallN("lp", Var("#x"), CallN("-", Var("n"), Int(1))))),
			CallN("lp", tr(1), Int(1))), Oracle: "zero:I1;val:LZ", Tags: []string{"selftail-passes-formal-on"}},
		// self tail call crossing the formals: the strict formal is handed to the lazy position (wrapped),
		// the lazy formal to the strict position (the thunk, as a value)
		{P: prog(Defn("sw", []string{"#x", "y", "n"}, "", Cond(CallN("==", Var("n"), Int(0)), CallN("list", force("#x"), force("y")),
			CallN("sw", Var("y"), Var("#x"), CallN("-", Var("n"), Int(1))))), CallN("sw", tr(1), tr(2), Int(1))),
			Oracle: "trace:I2,I1;val:<P_I2_<P_I1_N>>", Tags: []string{"selftail-passes-formal-on"}},
		// the source survives a successful force
		{P: prog(Defn("f", []string{"#x"}, "", CallN("list", force("#x"), CallN("substitute", Var("#x")), force("#x"), CallN("substitute", Var("#x")))), CallN("f", tr(3))),
			Oracle: "trace:I3;val:<P_I3_<P_<P_Ytrace_<P_I3_N>>_<P_I3_<P_<P_Ytrace_<P_I3_N>>_N>>>>"},
		// KNOWN FINDING tail-known-fn: the self tail call decides laziness from the function most
		// recently DEFINED under that name in the compile unit, and jumps into the enclosing one
		{P: prog(Defn("f", []string{"x", "n"}, "", Cond(CallN("==", Var("n"), Int(0)), Var("x"),
			Begin(Defn("f", []string{"#a", "b"}, "", Int(0)), CallN("f", tr(1), CallN("-", Var("n"), Int(1)))))), CallN("f", Int(5), Int(1))),
			Oracle: "zero:I1;val:I0", Tags: []string{"kf:tail-known-fn"}},
		// KNOWN FINDING reentrant-force: the argument reaches its own thunk through box and forces it
		// while it is being forced: the argument is evaluated twice
		{P: prog(Def("box", Arr(Int(0))), Def("k", Int(0)),
			Defn("f", []string{"#x"}, "", CallN("aset", Var("box"), Int(0), Var("#x")), force("#x")),
			CallN("f", Begin(Set("k", plus(Var("k"), Int(1))), tr(77),
				Cond(CallN("==", Var("k"), Int(1)), plus(Int(100), CallN("force", CallN("aget", Var("box"), Int(0)))), Int(7))))),
			Oracle: "max1:I77", Tags: []string{"kf:reentrant-force"}},
	}
}
