package main

import (
	"verif/harness/lib"
	. "verif/harness/refgen"
)

// Lazify turns formals of the functions of p into lazy ones (#name) and rewrites the uses of
// such a formal in the body into (force #name), #name, (substitute #name) or a double force;
// arguments of calls of non-builtin callees are wrapped in (trace ..) now and then so that
// their evaluation is visible.  Returns the number of lazy formals made.
func Lazify(p *Program, rng *lib.Rng) int {
	n := 0
	var walk func(nd *Node)
	walk = func(nd *Node) {
		if nd.K == KCall && len(nd.Kids) > 1 {
			f := nd.Kids[0]
			if !(f.K == KVar && PrimNames[f.Name]) {
				for i := 1; i < len(nd.Kids); i++ {
					if rng.Intn(3) == 0 {
						nd.Kids[i] = CallN("trace", nd.Kids[i])
					}
				}
			}
		}
		if (nd.K == KFn || nd.K == KDefn) && len(nd.Params) > 0 && rng.Intn(3) != 0 {
			for i, pn := range nd.Params {
				if len(pn) > 0 && pn[0] != '#' && rng.Intn(2) == 0 {
					nd.Params[i] = "#" + pn
					n++
					for j := range nd.Kids {
						nd.Kids[j] = rewriteUses(nd.Kids[j], pn, rng)
					}
				}
			}
		}
		for _, k := range nd.Kids {
			walk(k)
		}
	}
	for _, f := range p.Forms {
		walk(f)
	}
	return n
}

func rebinds(nd *Node, name string) bool {
	switch nd.K {
	case KFn, KDefn:
		for _, p := range nd.Params {
			if p == name || p == "#"+name {
				return true
			}
		}
		return nd.Rest == name
	case KLet, KLetSeq:
		for _, b := range nd.Binds {
			if b == name {
				return true
			}
		}
	}
	return false
}

func rewriteUses(nd *Node, name string, rng *lib.Rng) *Node {
	if nd.K == KVar && nd.Name == name {
		lz := Var("#" + name)
		switch rng.Intn(20) {
		case 0, 1, 2:
			return lz
		case 3, 4:
			return CallN("substitute", lz)
		case 5, 6, 7:
			return Begin(CallN("force", lz), CallN("force", Var("#"+name)))
		}
		return CallN("force", lz)
	}
	if rebinds(nd, name) {
		return nd
	}
	for i := range nd.Kids {
		nd.Kids[i] = rewriteUses(nd.Kids[i], name, rng)
	}
	return nd
}
