// c16: lazy (#-prefixed) parameters delay, memoise and stay lexical; strict ones do not.
//
// Streams (all derived from --seed):
//
//	grid    every mix of lazy/strict/variadic formals (1-3) x call route x force pattern x
//	        argument kinds, each with a spec-level oracle (see grid.go)
//	random  random programs of refgen.Gen whose functions get lazy formals (lazify.go)
//	hand    hand-written programs, among them the witnesses of the known findings
//
// Output: ID <TAB> [failat=K] oracle=<enc> FORMS <TAB> IMPL <TAB> SOURCE(escaped)
package main

import (
	"encoding/json"
	"fmt"
	"os"
	"strings"

	"github.com/glycerine/zygomys/v9/zygo"
	"verif/harness/lib"
	. "verif/harness/refgen"
)

// Sep separates the texts of a history: each is a separate EvalString on one interpreter.
// (It is a comment, so the joined text is still legal source.)
const Sep = "\n//--next-evaluation--\n"

// runSteps evaluates the texts one after the other in ONE fresh interpreter and renders the
// observable of the whole history: the value / error of the last evaluation reached and the
// trace of all of them (format of refgen.Runner.RunSource).
func runSteps(texts []string, failAt int) string {
	env := zygo.NewZlisp()
	env.StandardSetup()
	defer env.Close()
	var trace []string
	failCtr := 0
	env.AddFunction("trace", func(env *zygo.Zlisp, name string, args []zygo.Sexp) (zygo.Sexp, error) {
		parts := make([]string, len(args))
		for i, a := range args {
			parts[i] = RenderValue(a, SnapDepth)
		}
		trace = append(trace, strings.Join(parts, ","))
		if len(args) == 0 {
			return zygo.SexpNull, nil
		}
		return args[0], nil
	})
	env.AddFunction("failk", func(env *zygo.Zlisp, name string, args []zygo.Sexp) (zygo.Sexp, error) {
		failCtr++
		if failCtr == failAt {
			return zygo.SexpNull, fmt.Errorf("failk: injected failure")
		}
		if len(args) == 0 {
			return zygo.SexpNull, nil
		}
		return args[0], nil
	})
	lib.Eval(env, "(quote ("+strings.Join(QuotedSyms, " ")+"))", 10000)
	var res lib.Result
	for _, t := range texts {
		res = lib.Eval(env, t, budget)
		if res.Class != lib.OutValue {
			break
		}
	}
	tr := strings.Join(trace, ";")
	switch res.Class {
	case lib.OutValue:
		return "V:" + RenderValue(res.Val, SnapDepth) + "|T:" + tr
	case lib.OutError:
		return "E:" + ErrClass(res.Err) + "|T:" + tr
	case lib.OutBudget:
		return "BUDGET"
	}
	return fmt.Sprintf("PANIC:%v", res.Panic)
}

// evalSource: a history (texts joined by Sep) or a single text in a fresh interpreter
func evalSource(r *Runner, src string, failAt int) string {
	if strings.Contains(src, Sep) {
		return canon(runSteps(strings.Split(src, Sep), failAt))
	}
	return canon(r.RunSource(src, failAt))
}

const budget = 20000

func esc(s string) string {
	s = strings.ReplaceAll(s, "\\", "\\\\")
	s = strings.ReplaceAll(s, "\n", "\\n")
	s = strings.ReplaceAll(s, "\t", "\\t")
	return s
}

func encOracle(s string) string {
	if s == "" {
		return "-"
	}
	r := strings.NewReplacer("(", "<", ")", ">", " ", "_")
	return r.Replace(s)
}

// typedSource renders (defn NAME [ps] ..) as (func NAME [p:int64 ..] [ret:int64] ..) for the
// given names in a plainly rendered source text.
func typedSource(src string, names []string) string {
	for _, nm := range names {
		pre := "( defn " + nm + " [ "
		i := strings.Index(src, pre)
		if i < 0 {
			continue
		}
		j := strings.Index(src[i+len(pre):], "]")
		if j < 0 {
			continue
		}
		ps := strings.Fields(src[i+len(pre) : i+len(pre)+j])
		for k := range ps {
			ps[k] += ":int64"
		}
		src = src[:i] + "( func " + nm + " [ " + strings.Join(ps, " ") + " ] [ ret:int64 ] " + src[i+len(pre)+j+1:]
	}
	return src
}

// thunks print as OTHER:*zygo.SexpLazyArg in refgen.RenderValue; the model prints LZ
func canon(obs string) string {
	obs = strings.ReplaceAll(obs, "OTHER:*zygo.SexpLazyArg", "LZ")
	obs = strings.ReplaceAll(obs, "OTHERFN:force", "PRIM:force")
	return strings.ReplaceAll(obs, "OTHERFN:substitute", "PRIM:substitute")
}

type runner struct {
	r    *Runner
	out  *lib.Out
	want map[int]bool // shrink mode: the case ids to keep
	kept map[int]keptCase
	n    int
}

type keptCase struct {
	P      *Program
	Src    string
	Oracle string
	Typed  bool
}

func (x *runner) run(p *Program, src string, oracle string, nontriv bool, tags ...string) {
	x.n++
	if x.want != nil {
		if x.want[x.n] {
			x.kept[x.n] = keptCase{P: p, Src: src, Oracle: oracle, Typed: strings.Contains(src, "( func ") || strings.Contains(src, Sep)}
		}
		return
	}
	obs := evalSource(x.r, src, p.FailAt)
	input := "oracle=" + encOracle(oracle) + " " + p.Prefix()
	tags = append(tags, "outcome:"+strings.SplitN(obs, ":", 2)[0])
	if oracle != "" {
		tags = append(tags, "oracle:yes")
	}
	x.out.Case(input, obs+"\t"+esc(src), nontriv, tags...)
}

func main() {
	a := lib.ParseArgs()
	if a.Replay != "" {
		replay(a)
		return
	}
	for i := 0; i+1 < len(a.Rest); i++ {
		if a.Rest[i] == "--shrink" {
			modelExe := ""
			for j := 0; j+1 < len(a.Rest); j++ {
				if a.Rest[j] == "--model" {
					modelExe = a.Rest[j+1]
				}
			}
			shrinkMode(a, a.Rest[i+1], modelExe)
			return
		}
	}
	out := lib.NewOut(a.Out)
	out.Rule = "grid: functions with every mix of lazy(#)/strict/variadic formals (1-3 fixed formals) x 11 call routes (direct, alias, parameter, computed callee, apply, map, typed func, recursion, self tail call, self tail call after a re-definition in a later evaluation, self tail call of a typed func) x formals used directly / handed on as they are to a further call (self tail call, recursion, relay function) and forced three deep x 9 force patterns (never, once, twice, loop, substitute, substitute+force, force+substitute+force, thunk escaping in a closure / in an array and forced after the caller returned) x argument kinds (traced effect, failk, unbound symbol, type error); random: refgen programs with lazified formals; hand: written cases; non-trivial = has a function with at least one formal and a call; distinct = distinct prefix forms"
	x := &runner{r: NewRunner(budget), out: out}
	stream(a, x)
	out.Extra["interpreters_created"] = x.r.Recycled
	out.Close(a.Stats)
}

// stream generates every case of the tier/seed, in a fixed order (ids 1,2,3,..)
func stream(a lib.Args, x *runner) {
	thorough := a.Tier == "thorough"
	rng := lib.NewRng(a.Seed)
	out := x.out

	// 1. hand-written cases
	for _, h := range handCases() {
		x.run(h.P, h.src(), h.Oracle, true, append([]string{"stream:hand"}, h.Tags...)...)
	}

	// 2. the grid
	ngrid := 0
	EachGrid(thorough, func(gc *GridCase) {
		ngrid++
		var st Style
		if gc.Route != RTyped && gc.Route != RTypedTail && rng.Intn(3) == 0 {
			st = Style{Rng: rng.Fork()}
		}
		src := gc.P.Source(st)
		if gc.Route == RTyped || gc.Route == RTypedTail {
			src = typedSource(src, gc.Typed)
		}
		if gc.Split > 0 {
			first := &Program{Forms: gc.P.Forms[:gc.Split]}
			second := &Program{Forms: gc.P.Forms[gc.Split:]}
			src = first.Source(st) + Sep + second.Source(st)
		}
		x.run(gc.P, src, gc.Oracle, gc.Nontriv, gc.Tags...)
	})
	if out != nil {
		out.Extra["grid_points"] = ngrid
	}

	// 3. random programs with lazy formals
	nrand := 8000
	if thorough {
		nrand = 150000
	}
	g := &Gen{R: rng, MaxNodes: 40, MaxDepth: 8, Vocab: GenVocab{SelfTail: true, NoAppend: true}}
	lazified := 0
	for i := 0; i < nrand; i++ {
		var p *Program
		if i%4 == 0 {
			p = g.Idiom()
		} else {
			p = g.Program()
		}
		if p.ShadowsSelfName() || p.UsesAppend() || usesName(p, "concat") || rebindsDefnName(p) {
			continue // the tail call by name (known finding of C02/C03) is nor append / concat sharing a backing array (C02 findings append-aliasing, concat-aliasing), is this property's subject
		}
		nl := Lazify(p, rng)
		if nl > 0 {
			lazified++
		}
		var st Style
		if rng.Intn(2) == 0 {
			st = Style{Rng: rng.Fork()}
		}
		tags := []string{"stream:random"}
		if nl > 0 {
			tags = append(tags, "lazified")
		}
		x.run(p, p.Source(st), "", p.Size() >= 3 && nl > 0, tags...)
	}
	if out != nil {
		out.Extra["random_with_lazy_formals"] = lazified
	}
}

// shrinkMode: regenerate the stream, keep the named cases, confirm each in a fresh interpreter
// and minimise it (predicate: the fresh interpreter and the model still disagree); one JSON
// object per line.
func shrinkMode(a lib.Args, ids string, modelExe string) {
	x := &runner{want: map[int]bool{}, kept: map[int]keptCase{}}
	for _, t := range strings.Split(ids, ",") {
		var id int
		fmt.Sscanf(t, "%d", &id)
		x.want[id] = true
	}
	stream(a, x)
	m, err := StartModel(modelExe)
	if err != nil {
		fmt.Fprintln(os.Stderr, err)
		os.Exit(2)
	}
	defer m.Close()
	r := NewRunner(budget)
	r.Fresh = true
	f, _ := os.Create(a.Out)
	defer f.Close()
	for _, t := range strings.Split(ids, ",") {
		var id int
		fmt.Sscanf(t, "%d", &id)
		kc, ok := x.kept[id]
		if !ok {
			continue
		}
		impl := evalSource(r, kc.Src, kc.P.FailAt)
		model, _ := m.Eval(kc.P)
		rec := map[string]interface{}{"id": id, "source": kc.Src, "failat": kc.P.FailAt,
			"input": "oracle=" + encOracle(kc.Oracle) + " " + kc.P.Prefix(),
			"implementation": impl, "model": model, "minimised": false}
		differ := func(i, mo string) bool { return Conclusive(i) && Conclusive(mo) && !SameObs(i, mo) }
		if differ(impl, model) && !kc.Typed {
			fails := func(q *Program) bool {
				mo, err := m.Eval(q)
				if err != nil {
					return false
				}
				return differ(canon(r.RunSource(q.Source(Style{}), q.FailAt)), mo)
			}
			q, evals := Shrink(kc.P, fails, 400)
			src := q.Source(Style{})
			impl2 := canon(r.RunSource(src, q.FailAt))
			model2, _ := m.Eval(q)
			if differ(impl2, model2) {
				rec["source"], rec["implementation"], rec["model"] = src, impl2, model2
				rec["input"] = "oracle=- " + q.Prefix()
				rec["failat"] = q.FailAt
				rec["minimised"] = true
				rec["shrink_evaluations"] = evals
				rec["original_source"] = kc.Src
			}
		}
		b, _ := json.Marshal(rec)
		f.Write(append(b, '\n'))
	}
}

// replay: evaluate "source" of the replay file in a fresh interpreter, print what happens, and
// write the case so that the check compares it again with the model and the oracle.
func replay(a lib.Args) {
	b, err := os.ReadFile(a.Replay)
	if err != nil {
		fmt.Fprintln(os.Stderr, err)
		os.Exit(2)
	}
	var rec struct {
		Source string `json:"source"`
		Input  string `json:"input"`
		FailAt int    `json:"failat"`
	}
	if err := json.Unmarshal(b, &rec); err != nil {
		fmt.Fprintln(os.Stderr, err)
		os.Exit(2)
	}
	r := NewRunner(budget)
	r.Fresh = true
	obs, detail := "", "(history of several evaluations)"
	if strings.Contains(rec.Source, Sep) {
		obs = evalSource(r, rec.Source, rec.FailAt)
	} else {
		obs, detail = r.RunSourceVerbose(rec.Source, rec.FailAt)
		obs = canon(obs)
	}
	fmt.Printf("source: %s\nfailat: %d\nimplementation: %s\ndetail: %s\n", rec.Source, rec.FailAt, obs, detail)
	out := lib.NewOut(a.Out)
	out.Case(rec.Input, obs+"\t"+esc(rec.Source), true, "replay")
	out.Close(a.Stats)
}

// rebindsDefnName: a name defined by defn is also assigned, re-defined or bound elsewhere. The
// self tail call is resolved by name at compile time (known finding tco-by-name of C02/C03);
// such programs are left to those properties.
func rebindsDefnName(p *Program) bool {
	defs := map[string]int{}
	p.Walk(func(n *Node) {
		if n.K == KDefn {
			defs[n.Name]++
		}
	})
	bad := false
	p.Walk(func(n *Node) {
		switch n.K {
		case KSet, KDef:
			if defs[n.Name] > 0 {
				bad = true
			}
		case KLet, KLetSeq:
			for _, b := range n.Binds {
				if defs[b] > 0 {
					bad = true
				}
			}
		case KFn, KDefn:
			for _, q := range n.Params {
				if defs[strings.TrimPrefix(q, "#")] > 0 {
					bad = true
				}
			}
			if n.Rest != "" && defs[n.Rest] > 0 {
				bad = true
			}
			if n.K == KDefn && defs[n.Name] > 1 {
				bad = true
			}
		}
	})
	return bad
}

func usesName(p *Program, name string) bool {
	return p.Has(func(n *Node) bool { return n.K == KVar && n.Name == name })
}
