package main

import (
	"fmt"
	"strings"

	"github.com/glycerine/zygomys/v9/zygo"
	"verif/harness/lib"
)

// canonical values of the symbol-keyed fields of instance id
func (e *exec) symFields(id int) map[int]string {
	out := map[int]string{}
	h := e.insts[id]
	if h == nil {
		return out
	}
	for _, b := range h.Map {
		for _, p := range b {
			if k, ok := p.Head.(*zygo.SexpSymbol); ok {
				out[fidx(k.Name())] = e.sValue(p.Tail)
			}
		}
	}
	return out
}

// Adaptive generator: the next step is chosen knowing which instances exist in the REAL interpreter
// (the recorded history is what gets replayed / given to the model; nothing else is fed back).
//
//	clean: only symbol keys, every struct declared before it is decoded, no write to an instance after it took part in a derefSet copy
//	dirty: everything (non-symbol keys, decode before declaration)
//	alias: writes after a derefSet copy (CloneFrom shares the bucket arrays)
type gen struct {
	r       *lib.Rng
	mode    string
	e       *exec
	h       []*op
	nextID  int
	nextPid int
	ns      int
	nf      int
	tg      map[string]bool
	okC     bool
	okW     bool
}

func newGen(r *lib.Rng, mode string) *gen {
	ns := 1 + r.Intn(3)
	return &gen{r: r, mode: mode, ns: ns, nf: 2 + r.Intn(3), e: newExec(ns), tg: map[string]bool{}}
}

func (g *gen) tags() []string {
	out := []string{}
	for t := range g.tg {
		out = append(out, t)
	}
	return out
}

func (g *gen) texpr(depth int) *texpr {
	c := g.r.Intn(10)
	switch {
	case c < 5 || depth >= 2:
		if g.r.Intn(4) == 0 {
			return &texpr{kind: 's', n: g.r.Intn(g.ns)}
		}
		return &texpr{kind: 'b', n: []int{0, 0, 1, 2, 2, 3, 4, 5}[g.r.Intn(8)]}
	case c < 8:
		return &texpr{kind: 'L', sub: g.texpr(depth + 1)}
	default:
		return &texpr{kind: 'P', sub: g.texpr(depth + 1)}
	}
}

func (g *gen) instOf(s int) (int, bool) {
	c := []int{}
	for id, t := range g.e.instT {
		if t == s {
			c = append(c, id)
		}
	}
	if len(c) == 0 {
		return 0, false
	}
	// map order must not leak into the choice
	min := c[0]
	for _, x := range c {
		if x < min {
			min = x
		}
	}
	sortInts(c)
	return c[g.r.Intn(len(c))], true
}

func sortInts(a []int) {
	for i := 1; i < len(a); i++ {
		for j := i; j > 0 && a[j] < a[j-1]; j-- {
			a[j], a[j-1] = a[j-1], a[j]
		}
	}
}

func (g *gen) anyInst() (int, bool) {
	c := []int{}
	for id := range g.e.insts {
		c = append(c, id)
	}
	if len(c) == 0 {
		return 0, false
	}
	sortInts(c)
	return c[g.r.Intn(len(c))], true
}

// a value of the declared type
func (g *gen) typed(t *texpr, depth int) *value {
	switch t.kind {
	case 'b':
		switch t.n {
		case 0, 5:
			return &value{kind: 'I', n: g.r.Intn(9)}
		case 1:
			return &value{kind: 'F', n: g.r.Intn(9)}
		case 2:
			return &value{kind: 'S', n: g.r.Intn(9)}
		case 3:
			return &value{kind: 'B', n: g.r.Intn(2)}
		case 4:
			return &value{kind: 'Y'}
		}
		return &value{kind: 'H'}
	case 's':
		if id, ok := g.instOf(t.n); ok {
			return &value{kind: '@', n: id}
		}
		return &value{kind: 'N'}
	case 'L':
		n := g.r.Intn(3)
		v := &value{kind: 'A'}
		for i := 0; i < n; i++ {
			v.arr = append(v.arr, g.typed(t.sub, depth+1))
		}
		if n > 0 && g.r.Intn(4) == 0 { // a later element of another type: the array still has the type of its first
			v.arr = append(v.arr, g.random(depth+1))
		}
		return v
	case 'P':
		if t.sub.kind == 's' {
			if id, ok := g.instOf(t.sub.n); ok {
				return &value{kind: '&', n: id}
			}
		}
		if t.sub.kind == 'b' && t.sub.n == 0 {
			return &value{kind: '^', n: g.r.Intn(9)}
		}
		return &value{kind: 'N'}
	}
	return &value{kind: 'N'}
}

func (g *gen) untypedOK() bool { return g.mode == "dirty" }

func (g *gen) random(depth int) *value {
	for {
		switch g.r.Intn(14) {
		case 0:
			return &value{kind: 'N'}
		case 1:
			return &value{kind: 'I', n: g.r.Intn(9)}
		case 2:
			return &value{kind: 'F', n: g.r.Intn(9)}
		case 3:
			return &value{kind: 'S', n: g.r.Intn(9)}
		case 4:
			return &value{kind: 'B', n: g.r.Intn(2)}
		case 5:
			return &value{kind: 'Y'}
		case 6:
			return &value{kind: 'Q'}
		case 7:
			if depth == 0 || g.mode == "dirty" {
				return &value{kind: 'H'}
			}
		case 8, 9:
			if depth < 2 {
				n := g.r.Intn(3)
				v := &value{kind: 'A'}
				for i := 0; i < n; i++ {
					v.arr = append(v.arr, g.random(depth+1))
				}
				return v
			}
		case 10, 11:
			if id, ok := g.anyInst(); ok {
				return &value{kind: '@', n: id}
			}
		case 12:
			if id, ok := g.anyInst(); ok {
				return &value{kind: '&', n: id}
			}
		case 13:
			return &value{kind: '^', n: g.r.Intn(9)}
		}
	}
}

// a non-empty array whose first element has no type of its own (tag only)
func crashy(v *value) bool {
	if v.kind != 'A' || len(v.arr) == 0 {
		return false
	}
	f := v.arr[0]
	switch f.kind {
	case 'N', 'Q', 'H':
		return true
	case 'A':
		return crashy(f)
	}
	return false
}

// instances only refer to instances made before them (a cyclic record sends the interpreter's printer,
// used in every error message, into unbounded recursion)
func refsBelow(v *value, limit int) bool {
	if v.kind == '@' {
		return v.n < limit
	}
	for _, x := range v.arr {
		if !refsBelow(x, limit) {
			return false
		}
	}
	return true
}

func (g *gen) valueFor(decl []fdecl, f int, recovered bool, limit int) *value {
	for tries := 0; ; tries++ {
		var v *value
		var ft *texpr
		for _, d := range decl {
			if d.f == f {
				ft = d.t
			}
		}
		if ft != nil && g.r.Intn(100) < 55 {
			v = g.typed(ft, 0)
		} else {
			v = g.random(0)
		}
		if !refsBelow(v, limit) {
			if tries < 50 {
				continue
			}
			v = &value{kind: 'N'}
		}
		if crashy(v) {
			g.tg["value:untyped-array"] = true
		}
		if v.kind == 'A' && g.r.Intn(3) == 0 {
			// the same array, built by concat onto the empty prefix of an array stored in some field
			if j, f, ok := g.storedArray(); ok {
				v = &value{kind: 'K', n: j, f: f, arr: v.arr}
				g.tg["value:concat-derived"] = true
			}
		}
		return v
	}
}

// no field of the instance refers to another instance (copying it anywhere cannot close a cycle)
func (g *gen) noRefs(id int) bool {
	for _, v := range g.e.symFields(id) {
		if strings.Contains(v, "@") {
			return false
		}
	}
	return true
}

// some field of some instance that holds an array (preferably a non-empty one: its type was cached by the check)
func (g *gen) storedArray() (int, int, bool) {
	ids := []int{}
	for id := range g.e.insts {
		ids = append(ids, id)
	}
	sortInts(ids)
	type jf struct{ j, f int }
	c := []jf{}
	for _, id := range ids {
		fv := g.e.symFields(id)
		for f := 0; f < 7; f++ {
			if strings.HasPrefix(fv[f], "A(") && (fv[f] != "A()" || g.r.Intn(4) == 0) {
				c = append(c, jf{id, f})
			}
		}
	}
	if len(c) == 0 {
		return 0, 0, false
	}
	x := c[g.r.Intn(len(c))]
	return x.j, x.f, true
}

func (g *gen) fieldIdx() int {
	if g.r.Intn(8) == 0 {
		return g.nf + g.r.Intn(2) // never declared
	}
	return g.r.Intn(g.nf)
}

func (g *gen) keyAny() key {
	if g.mode == "dirty" && g.r.Intn(4) == 0 {
		if g.r.Bool() {
			return key{'i', g.r.Intn(4)}
		}
		return key{'s', g.r.Intn(4)}
	}
	return key{'f', g.fieldIdx()}
}

func (g *gen) declare(s int) *op {
	o := &op{kind: 'D', s: s}
	// every spelling StructBuilder accepts or rejects: list (also empty), bare (struct S), quoted name, malformed
	switch c := g.r.Intn(20); {
	case c < 3:
		o.shape = 'b'
		g.tg["decl:bare"] = true
		return o
	case c < 5:
		o.shape = 'q'
		g.tg["decl:quoted"] = true
	case c < 6:
		o.shape = "xne"[g.r.Intn(3)]
		g.tg["decl:malformed"] = true
		return o
	}
	n := g.r.Intn(g.nf + 1)
	used := map[int]bool{}
	for i := 0; i < n; i++ {
		f := g.r.Intn(g.nf)
		if used[f] {
			continue
		}
		used[f] = true
		o.fields = append(o.fields, fdecl{f, g.texpr(0)})
	}
	return o
}

func (g *gen) writable() (int, bool) {
	c := []int{}
	for id := range g.e.insts {
		if g.mode != "alias" && g.e.aliased[id] {
			continue
		}
		c = append(c, id)
	}
	if len(c) == 0 {
		return 0, false
	}
	sortInts(c)
	if g.mode == "alias" {
		al := []int{}
		for _, id := range c {
			if g.e.aliased[id] {
				al = append(al, id)
			}
		}
		if len(al) > 0 && g.r.Intn(3) > 0 {
			return al[g.r.Intn(len(al))], true
		}
	}
	return c[g.r.Intn(len(c))], true
}

func (g *gen) pick() *op {
	declared := []int{}
	for s := 0; s < g.ns; s++ {
		if _, ok := g.e.decl[s]; ok {
			declared = append(declared, s)
		}
	}
	if len(declared) == 0 && !(g.mode == "dirty" && g.r.Intn(6) == 0) {
		return g.declare(g.r.Intn(g.ns))
	}
	for {
		c := g.r.Intn(100)
		switch {
		case c < 12:
			s := g.r.Intn(g.ns)
			if _, again := g.e.decl[s]; again {
				g.tg["op:redeclare"] = true
			}
			return g.declare(s)
		case c < 30:
			var s int
			if len(declared) > 0 && !(g.mode == "dirty" && g.r.Intn(10) == 0) {
				s = declared[g.r.Intn(len(declared))]
			} else {
				s = g.r.Intn(g.ns)
			}
			o := &op{kind: 'C', s: s, id: g.nextID}
			g.nextID++
			switch g.r.Intn(7) {
			case 0:
				o.shape = 'a'
				g.tg["ctor:alias"] = true
			case 1:
				o.shape = 'f'
				g.tg["ctor:param"] = true
			}
			n := g.r.Intn(g.nf + 1)
			for i := 0; i < n; i++ {
				k := g.keyAny()
				o.args = append(o.args, kv{k, g.valueFor(g.e.decl[s], k.n, true, o.id)})
			}
			return o
		case c < 70:
			id, ok := g.writable()
			if !ok {
				continue
			}
			o := &op{kind: 'W', id: id}
			o.route = "hhdxljkq"[g.r.Intn(8)]
			if o.route == 'j' || o.route == 'k' || o.route == 'q' {
				if g.mode != "dirty" || g.r.Intn(2) == 0 {
					// index-style write with a symbol key: the key arrives wrapped in a one-element array
					o.k = key{'f', g.fieldIdx()}
					o.v = g.valueFor(g.e.instDecl[id], o.k.n, true, id)
					g.tg["route:"+string(o.route)+"-sym"] = true
					return o
				} else {
					o.k = key{"is"[g.r.Intn(2)], g.r.Intn(4)}
					o.v = g.valueFor(nil, 0, false, id)
					g.tg["route:"+string(o.route)] = true
					return o
				}
			}
			if o.route == 'h' {
				o.k = g.keyAny()
			} else {
				o.k = key{'f', g.fieldIdx()}
			}
			o.v = g.valueFor(g.e.instDecl[id], o.k.n, o.route == 'h', id)
			g.tg["route:"+string(o.route)] = true
			return o
		case c < 76:
			id, ok := g.anyInst()
			if !ok {
				continue
			}
			// a field that holds an instance, if any
			o := &op{kind: 'N', id: id, f: g.r.Intn(g.nf), g: g.fieldIdx()}
			fv := g.e.symFields(id)
			for f := 0; f < g.nf; f++ {
				if strings.HasPrefix(fv[f], "@") && g.r.Intn(4) > 0 {
					o.f = f
				}
			}
			tgt := -1
			if strings.HasPrefix(fv[o.f], "@") {
				fmt.Sscanf(fv[o.f], "@%d", &tgt)
			}
			if tgt >= 0 && g.e.aliased[tgt] && g.mode != "alias" {
				continue
			}
			var d []fdecl
			if tgt >= 0 {
				d = g.e.instDecl[tgt]
			}
			o.v = g.valueFor(d, o.g, false, tgt)
			g.tg["route:nested"] = true
			return o
		case c < 81:
			id, ok := g.writable()
			if !ok {
				continue
			}
			g.tg["op:hdel"] = true
			return &op{kind: 'X', id: id, k: g.keyAny()}
		case c < 84:
			id, ok := g.anyInst()
			if !ok {
				continue
			}
			g.tg["op:takeptr"] = true
			o := &op{kind: 'P', pid: g.nextPid, id: id}
			g.nextPid++
			return o
		case c < 87:
			// derefSet through a pointer made earlier (possibly before a redeclaration)
			if len(g.e.ptrTarget) == 0 {
				continue
			}
			pids := []int{}
			for p := range g.e.ptrTarget {
				pids = append(pids, p)
			}
			sortInts(pids)
			pid := pids[g.r.Intn(len(pids))]
			tgt := g.e.ptrTarget[pid]
			if g.mode != "alias" && g.e.aliased[tgt] {
				continue
			}
			o := &op{kind: 'S', pid: pid}
			if j, ok := g.instOf(g.e.instT[tgt]); ok && g.r.Intn(5) > 0 && (j <= tgt || g.noRefs(j)) && (g.mode == "alias" || !g.e.aliased[j]) {
				o.v = &value{kind: '@', n: j}
			} else {
				o.v = g.valueFor(nil, 0, true, tgt+1)
				if o.v.kind == '@' && g.mode != "alias" && g.e.aliased[o.v.n] {
					continue
				}
			}
			g.tg["route:derefSet-ptr"] = true
			return o
		case c < 90:
			id, ok := g.writable()
			if !ok {
				continue
			}
			o := &op{kind: 'R', id: id}
			if j, ok := g.instOf(g.e.instT[id]); ok && g.r.Intn(4) > 0 {
				if g.mode != "alias" && g.e.aliased[j] {
					continue
				}
				if j > id {
					id, j = j, id
					o.id = id
				}
				o.v = &value{kind: '@', n: j}
			} else {
				o.v = g.valueFor(nil, 0, true, id+1)
				if o.v.kind == '@' && g.mode != "alias" && g.e.aliased[o.v.n] {
					continue
				}
			}
			g.tg["route:derefSet"] = true
			return o
		default:
			var s int
			if len(declared) > 0 && !(g.mode == "dirty" && g.r.Intn(5) == 0) {
				s = declared[g.r.Intn(len(declared))]
			} else if g.mode == "dirty" {
				s = g.r.Intn(g.ns)
				g.tg["op:decode-undeclared"] = true
			} else {
				continue
			}
			o := &op{kind: "JM"[g.r.Intn(2)], s: s, id: g.nextID, ko: g.r.Bool()}
			g.nextID++
			used := map[int]bool{}
			n := g.r.Intn(g.nf + 1)
			for i := 0; i < n; i++ {
				f := g.fieldIdx()
				if used[f] {
					continue
				}
				used[f] = true
				var v *value
				for {
					v = g.valueFor(g.e.decl[s], f, true, 0)
					if jsonable(v) {
						break
					}
				}
				o.args = append(o.args, kv{key{'f', f}, v})
			}
			g.tg["route:decode"] = true
			return o
		}
	}
}

func jsonable(v *value) bool {
	switch v.kind {
	case 'N', 'I', 'F', 'S', 'B':
		return true
	case 'A':
		for _, x := range v.arr {
			if !jsonable(x) {
				return false
			}
		}
		return true
	}
	return false
}

func (g *gen) run() ([]*op, string, bool) {
	if sch := g.r.Intn(3); sch > 0 {
		z := &op{kind: 'Z', s: sch}
		g.e.step(z)
		g.h = append(g.h, z)
		g.tg[fmt.Sprintf("names:%d", sch)] = true
	}
	n := 4 + g.r.Intn(17)
	for i := 0; i < n; i++ {
		o := g.pick()
		oc := g.e.step(o)
		g.h = append(g.h, o)
		if oc == "K" && o.kind == 'C' {
			g.okC = true
		}
		if oc == "K" && (o.kind == 'W' || o.kind == 'N' || o.kind == 'R') {
			g.okW = true
		}
	}
	return g.h, strings.Join(g.e.obs, " | "), g.okC && g.okW
}

// hand-written scenarios: each route with right / wrong / nil / empty / array values, redeclaration patterns
func fixedScenarios() []string {
	base := "D 0 4 f0 b0 f1 b2 f2 L b0 f3 P s0 ; C 0 0 2 f0 I4 f1 S1"
	vals := []string{"I5", "S2", "N", "A0", "A2 I1 I2", "A2 I1 S2", "A1 S1", "F3", "B1", "Y", "Q", "H", "@0", "&0", "^3", "A1 @0", "A1 &0", "A1 A1 I1", "A1 A0", "A1 N", "A2 Q I1", "A1 A1 N", "A1 H"}
	out := []string{}
	for _, r := range []string{"h", "d", "x", "l"} {
		for f := 0; f < 5; f++ {
			for _, v := range vals {
				out = append(out, fmt.Sprintf("%s ; W %s 0 f%d %s", base, r, f, v))
			}
		}
	}
	for _, v := range vals {
		out = append(out, fmt.Sprintf("%s ; C 1 0 1 f2 %s", base, v))
		out = append(out, fmt.Sprintf("%s ; R 0 %s", base, v))
	}
	hand := []string{
		// instances keep their definition across a redeclaration
		"D 0 1 f0 b0 ; C 0 0 1 f0 I1 ; D 0 1 f0 b2 ; W h 0 f0 I2 ; W h 0 f0 S2 ; C 1 0 1 f0 S1 ; W d 1 f0 I3 ; W x 1 f0 S3",
		// nested instance, dot path through it
		"D 0 1 f0 b0 ; D 1 2 f0 s0 f1 P s0 ; C 0 0 1 f0 I1 ; C 1 1 2 f0 @0 f1 &0 ; N 1 f0 f0 I7 ; N 1 f0 f0 S7 ; N 1 f0 f3 I1 ; N 1 f1 f0 I1",
		// deletion, then the field can be set again (typed)
		"D 0 2 f0 b0 f1 b2 ; C 0 0 2 f0 I1 f1 S1 ; X 0 f0 ; W h 0 f0 S1 ; W h 0 f0 I2 ; X 0 f4",
		// decodes
		"D 0 2 f0 b0 f1 L b2 ; J 1 0 0 2 f0 I3 f1 A1 S1 ; J 0 1 0 1 f0 S3 ; M 1 2 0 2 f0 I1 f1 A0 ; M 1 3 0 1 f1 A1 I1 ; J 1 4 0 1 f4 I1 ; M 0 5 0 1 f0 N",
		// derefSet between two instances of one definition
		"D 0 1 f0 b0 ; C 0 0 1 f0 I1 ; C 1 0 1 f0 I2 ; R 0 @1 ; R 0 I3 ; D 1 1 f0 b0 ; C 2 1 1 f0 I1 ; R 0 @2",
		// self reference: the direct struct-typed field is the place-holder type, the pointer works by name
		"D 0 2 f0 s0 f1 P s0 ; C 0 0 0 ; W h 0 f0 @0 ; W h 0 f1 &0 ; W h 0 f0 N",
		// constructor through a variable / a function parameter holding the type: checked like the plain call
		"D 0 2 f0 b0 f1 b2 ; Ca 0 0 1 f0 I1 ; Ca 1 0 1 f0 S1 ; Ca 2 0 1 f3 I1 ; Cf 3 0 1 f1 S1 ; Cf 4 0 1 f1 I1 ; Cf 5 0 1 f4 I1 ; W h 0 f0 S1 ; W h 3 f1 I1",
		"D 0 1 f0 b0 ; D 1 1 f0 b2 ; Ca 0 1 1 f0 I1 ; Cf 1 0 1 f0 S1 ; Ca 2 1 1 f0 S1 ; Cf 3 0 1 f0 I1 ; Ca 4 2 0",
		// concat onto the empty prefix of a stored (type-cached) array gives a plain array of the new elements
		"D 0 2 f0 L b2 f1 L b0 ; C 0 0 2 f0 A1 S1 f1 A1 I1 ; W h 0 f0 K0.0 A2 I1 I2 ; W h 0 f1 K0.0 A2 I1 I2 ; W d 0 f0 K0.1 A1 S2 ; W x 0 f1 K0.1 A1 S2 ; W h 0 f0 K0.0 A0 ; C 1 0 1 f0 K0.1 A1 I5 ; W h 0 f0 K0.5 A1 S1 ; W h 0 f0 K7.0 A1 S1",
		// redeclaration through every spelling, then instances made afterwards must follow the NEW definition
		"D 0 1 f0 b0 ; C 0 0 1 f0 I1 ; Db 0 ; C 1 0 1 f0 I1 ; C 2 0 0 ; W h 2 f0 I1 ; J 0 3 0 1 f0 I1 ; M 1 4 0 1 f0 I1 ; W h 0 f0 I2",
		"D 0 1 f0 b0 ; C 0 0 1 f0 I1 ; D 0 0 ; C 1 0 1 f0 I1 ; C 2 0 0 ; W d 2 f0 I1 ; J 1 3 0 1 f0 I1 ; W h 0 f0 I2",
		"D 0 1 f0 b0 ; C 0 0 1 f0 I1 ; Dq 0 1 f1 b2 ; C 1 0 1 f0 I1 ; C 2 0 1 f1 S1 ; W x 2 f0 I1 ; J 0 3 0 1 f0 I1 ; W h 0 f0 I2",
		"D 0 1 f0 b0 ; C 0 0 1 f0 I1 ; Dx 0 ; C 1 0 1 f0 I1 ; C 2 0 0 ; W h 2 f0 I1 ; W h 0 f0 I2",
		"D 0 1 f0 b0 ; Dn 0 ; C 1 0 1 f0 I1 ; J 0 3 0 1 f0 I1 ; D 0 1 f0 b0 ; De 0 ; C 2 0 1 f0 I1",
		"Db 0 ; C 0 0 0 ; C 1 0 1 f0 I1 ; D 0 1 f0 b0 ; C 2 0 1 f0 I1 ; Db 0 ; M 0 3 0 1 f0 I1",
		// index-style writes (the key arrives as a one-element array): right, wrong type, undeclared, through every spelling
		"D 0 2 f0 b0 f1 L b2 ; C 0 0 1 f0 I1 ; W j 0 f0 I2 ; W j 0 f0 S1 ; W j 0 f3 I1 ; W j 0 f1 A1 I1 ; W j 0 f1 A1 S1",
		"D 0 2 f0 b0 f1 L b2 ; C 0 0 1 f0 I1 ; W k 0 f0 I2 ; W k 0 f0 S1 ; W k 0 f3 I1 ; W k 0 f1 A1 I1 ; W k 0 f1 A0",
		"D 0 2 f0 b0 f1 L b2 ; C 0 0 1 f0 I1 ; W q 0 f0 I2 ; W q 0 f0 S1 ; W q 0 f3 I1 ; W q 0 f1 A1 I1 ; W q 0 f0 N",
		"D 0 1 f0 b0 ; C 0 0 0 ; W q 0 f0 S1 ; W k 0 f2 I1 ; W j 0 f0 F1",
		// derefSet through a pointer taken BEFORE a redeclaration: the pointed-to type is the old object -> error;
		// through a pointer taken after it the by-name type lookup accepts (listed finding)
		"D 0 1 f0 b0 ; C 0 0 1 f0 I1 ; P 0 0 ; D 0 1 f1 b2 ; C 1 0 1 f1 S1 ; S 0 @1 ; S 0 @0 ; P 1 0 ; S 1 @1",
		"D 0 1 f0 b0 ; C 0 0 1 f0 I1 ; C 1 0 1 f0 I2 ; P 0 1 ; S 0 @0 ; S 0 I3 ; D 1 1 f0 b0 ; C 2 1 1 f0 I1 ; S 0 @2",
		// the listed findings, one scenario each
		"D 0 1 f0 b0 ; C 0 0 1 f0 I1 ; W h 0 i5 I6 ; W h 0 s0 S1 ; W j 0 s1 I1 ; W j 0 i5 S2 ; C 1 0 1 i5 I6",
		"D 0 1 f0 b0 ; C 0 0 1 f0 I1 ; D 0 1 f0 b2 ; D 1 1 f0 s0 ; C 1 1 1 f0 @0 ; C 2 0 1 f0 S1 ; R 2 @0 ; W h 1 f0 @0",
		"J 0 0 0 1 f0 S1 ; D 0 2 f0 b0 f1 b2 ; W h 0 f1 I5 ; W h 0 f1 S1",
		"D 0 1 f0 b0 ; C 0 0 1 f0 I1 ; C 1 0 1 f0 I2 ; R 1 @0 ; W h 1 f0 I3 ; W h 0 f0 I4",
		"D 0 1 f0 L b0 ; C 0 0 0 ; W h 0 f0 A1 H ; W d 0 f0 A2 H I1 ; C 1 0 1 f0 A1 A1 H",
		// failed declaration leaves the place-holder
		"D 0 1 f0 s1 ; C 0 0 0 ; C 1 0 1 f0 I1 ; W h 0 f0 I1",
	}
	for _, h := range hand {
		out = append(out, h, "Z 1 ; "+h, "Z 2 ; "+h)
	}
	return out
}
