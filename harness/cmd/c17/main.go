// c17: declared struct types are enforced on every write.
// Generates histories (declarations, constructions, writes through every route, deletions, derefSet,
// JSON/msgpack decodes, redeclarations in between), runs each step through the REAL interpreter in a
// fresh environment, and after EVERY step dumps the registry entries and every instance
// (type name, identity of the definition it holds, every key with its canonical value).
// Case line: ID <TAB> history <TAB> "K|E|P:<dump> | ..." ; the OCaml runner prints the same for the
// Coq model and the specification's verdict per step.
package main

import (
	"bufio"
	"encoding/json"
	"fmt"
	"os"
	"sort"
	"strings"

	"github.com/glycerine/zygomys/v9/zygo"
	"verif/harness/lib"
)

var uniq int // process-wide: struct names are never reused (the type registry is process-global)

// Field NAMES are a rendering choice of the harness (the model only knows the index f<k>): one naming scheme
// per history, set by a "Z k" step.  In every scheme the names sort (byte-wise) like their indices; schemes 1
// and 2 put names before "Atype", between "Atype" and "zKeyOrder", and after "zKeyOrder" - the two keys the
// decoders treat specially among the SORTED keys of a JSON/msgpack map - and mix upper/lower case, digits, '_'.
var nameSchemes = [][]string{
	nil,
	{"A1", "Age", "Id", "name", "zKey", "zz"},
	{"ABC", "Atyp", "Atypes", "b_c", "zKeyOrdeR", "zKeyOrders"},
}
var curNames []string

func fn(k int) string {
	if k >= 0 && k < len(curNames) {
		return curNames[k]
	}
	return fmt.Sprintf("f%d", k)
}
func fidx(name string) int {
	for i, n := range curNames {
		if n == name {
			return i
		}
	}
	n := -1
	fmt.Sscanf(name, "f%d", &n)
	return n
}

var baseNames = []string{"int64", "float64", "string", "bool", "symbol", "int", "hash"}

type exec struct {
	env     *zygo.Zlisp
	u       int
	nstruct int
	insts   map[int]*zygo.SexpHash
	hashID  map[*zygo.SexpHash]int
	rtLabel map[*zygo.RegisteredType]string
	stepNo  int
	obs     []string
	// bookkeeping for the generator only
	decl      map[int][]fdecl // last declaration attempt of struct s
	instDecl  map[int][]fdecl // declaration in force when the instance was made
	instT     map[int]int
	aliased   map[int]bool
	ptrTarget map[int]int
	lastOut   string
}

// The type registry is process-global and ImportBaseTypes binds every user-registered name as a global
// of each NEW interpreter: once any interpreter has evaluated a (field ..) form, the leaked type "field"
// shadows the builtin `field` in later interpreters and no struct with fields can be declared there.
// Every history must see what a fresh process sees, so the user part of the registry is reset here
// (exported maps only; entries present at process start are kept).
var baseline map[string]bool

func resetRegistry() {
	g := &zygo.GoStructRegistry
	if baseline == nil {
		baseline = map[string]bool{}
		for k := range g.Registry {
			baseline[k] = true
		}
		return
	}
	for k := range g.Userdef {
		if !baseline[k] {
			delete(g.Userdef, k)
		}
	}
	for k := range g.Registry {
		if !baseline[k] {
			delete(g.Registry, k)
		}
	}
}

func newExec(nstruct int) *exec {
	uniq++
	curNames = nil
	resetRegistry()
	env := zygo.NewZlisp()
	env.StandardSetup()
	return &exec{env: env, u: uniq, nstruct: nstruct, insts: map[int]*zygo.SexpHash{}, hashID: map[*zygo.SexpHash]int{},
		rtLabel: map[*zygo.RegisteredType]string{}, decl: map[int][]fdecl{}, instDecl: map[int][]fdecl{}, instT: map[int]int{}, aliased: map[int]bool{}, ptrTarget: map[int]int{}}
}

func (e *exec) sname(s int) string { return fmt.Sprintf("T%d_%d", s, e.u) }

func (e *exec) rTexpr(t *texpr) string {
	switch t.kind {
	case 'b':
		return baseNames[t.n%len(baseNames)]
	case 's':
		return e.sname(t.n)
	case 'L':
		return "([] " + e.rTexpr(t.sub) + ")"
	}
	return "(* " + e.rTexpr(t.sub) + ")"
}

func (e *exec) rValue(v *value) string {
	switch v.kind {
	case 'N':
		return "nil"
	case 'I':
		return fmt.Sprintf("%d", v.n)
	case 'F':
		return fmt.Sprintf("%d.5", v.n)
	case 'S':
		return fmt.Sprintf("\"s%d\"", v.n)
	case 'B':
		if v.n == 1 {
			return "true"
		}
		return "false"
	case 'Y':
		return "(quote sy)"
	case 'Q':
		return "(quote (1 2))"
	case 'H':
		return "(hash x:1)"
	case 'A':
		parts := []string{}
		for _, x := range v.arr {
			parts = append(parts, e.rValue(x))
		}
		return "[" + strings.Join(parts, " ") + "]"
	case 'K':
		parts := []string{}
		for _, x := range v.arr {
			parts = append(parts, e.rValue(x))
		}
		return fmt.Sprintf("(concat (slice (hget v%d (quote %s)) 0 0) [%s])", v.n, fn(v.f), strings.Join(parts, " "))
	case '@':
		return fmt.Sprintf("v%d", v.n)
	case '&':
		return fmt.Sprintf("(& v%d)", v.n)
	case '^':
		return fmt.Sprintf("(& %d)", v.n)
	}
	panic("rValue")
}

func rKeyCtor(k key) string {
	switch k.kind {
	case 'f':
		return fn(k.n) + ":"
	case 'i':
		return fmt.Sprintf("%d:", k.n)
	}
	return fmt.Sprintf("\"k%d\":", k.n)
}
func rKeyArg(k key) string {
	switch k.kind {
	case 'f':
		return "(quote " + fn(k.n) + ")"
	case 'i':
		return fmt.Sprintf("%d", k.n)
	}
	return fmt.Sprintf("\"k%d\"", k.n)
}

// the key as it is written inside a quoted form
func rKeyRaw(k key) string {
	switch k.kind {
	case 'f':
		return fn(k.n)
	case 'i':
		return fmt.Sprintf("%d", k.n)
	}
	return fmt.Sprintf("\"k%d\"", k.n)
}

func jsonValue(v *value) string {
	switch v.kind {
	case 'N':
		return "null"
	case 'I':
		return fmt.Sprintf("%d", v.n)
	case 'F':
		return fmt.Sprintf("%d.5", v.n)
	case 'S':
		return fmt.Sprintf("\"s%d\"", v.n)
	case 'B':
		if v.n == 1 {
			return "true"
		}
		return "false"
	case 'A':
		parts := []string{}
		for _, x := range v.arr {
			parts = append(parts, jsonValue(x))
		}
		return "[" + strings.Join(parts, ", ") + "]"
	}
	return "null"
}
func goValue(v *value) interface{} {
	switch v.kind {
	case 'I':
		return int64(v.n)
	case 'F':
		return float64(v.n) + 0.5
	case 'S':
		return fmt.Sprintf("s%d", v.n)
	case 'B':
		return v.n == 1
	case 'A':
		out := []interface{}{}
		for _, x := range v.arr {
			out = append(out, goValue(x))
		}
		return out
	}
	return nil
}

// source text of one step (for 'M' the msgpack bytes are bound to m<id> first)
func (e *exec) render(o *op) string {
	switch o.kind {
	case 'D':
		parts := []string{}
		for _, f := range o.fields {
			parts = append(parts, fmt.Sprintf("(field %s: %s)", fn(f.f), e.rTexpr(f.t)))
		}
		switch o.shape {
		case 'b':
			return fmt.Sprintf("(struct %s)", e.sname(o.s))
		case 'q':
			return fmt.Sprintf("(struct (quote %s) [%s])", e.sname(o.s), strings.Join(parts, " "))
		case 'x':
			return fmt.Sprintf("(struct %s [(field f0: int64)] 5)", e.sname(o.s))
		case 'n':
			return fmt.Sprintf("(struct %s 5)", e.sname(o.s))
		case 'e':
			return fmt.Sprintf("(struct %s [(field f0: int64) 5])", e.sname(o.s))
		}
		return fmt.Sprintf("(struct %s [%s])", e.sname(o.s), strings.Join(parts, " "))
	case 'C':
		parts := []string{}
		for _, a := range o.args {
			parts = append(parts, rKeyCtor(a.k)+e.rValue(a.v))
		}
		switch o.shape {
		case 'a': // through a variable holding the type
			return fmt.Sprintf("(def al%d %s) (def v%d (al%d %s))", e.stepNo, e.sname(o.s), o.id, e.stepNo, strings.Join(parts, " "))
		case 'f': // through a function parameter holding the type
			return fmt.Sprintf("(def v%d ((fn [ty] (ty %s)) %s))", o.id, strings.Join(parts, " "), e.sname(o.s))
		}
		return fmt.Sprintf("(def v%d (%s %s))", o.id, e.sname(o.s), strings.Join(parts, " "))
	case 'W':
		val := e.rValue(o.v)
		switch o.route {
		case 'h':
			return fmt.Sprintf("(hset v%d %s %s)", o.id, rKeyArg(o.k), val)
		case 'd':
			return fmt.Sprintf("(set v%d.%s %s)", o.id, fn(o.k.n), val)
		case 'x':
			return fmt.Sprintf("{v%d.%s = %s}", o.id, fn(o.k.n), val)
		case 'l':
			return fmt.Sprintf("(set (hashidx v%d .%s) %s)", o.id, fn(o.k.n), val)
		case 'j': // index assignment; a symbol key arrives as the one-element array [sym]
			return fmt.Sprintf("{v%d[%s] = %s}", o.id, rKeyArg(o.k), val)
		case 'k': // the index is a variable bound to the key
			return fmt.Sprintf("(def kk%d %s) {v%d[kk%d] = %s}", e.stepNo, rKeyArg(o.k), o.id, e.stepNo, val)
		case 'q': // hset with the key wrapped in a quoted one-element array
			return fmt.Sprintf("(hset v%d (quote [%s]) %s)", o.id, rKeyRaw(o.k), val)
		}
	case 'N':
		return fmt.Sprintf("{v%d.%s.%s = %s}", o.id, fn(o.f), fn(o.g), e.rValue(o.v))
	case 'X':
		return fmt.Sprintf("(hdel v%d %s)", o.id, rKeyArg(o.k))
	case 'R':
		return fmt.Sprintf("(derefSet (& v%d) %s)", o.id, e.rValue(o.v))
	case 'P':
		return fmt.Sprintf("(def p%d (& v%d))", o.pid, o.id)
	case 'S':
		return fmt.Sprintf("(derefSet p%d %s)", o.pid, e.rValue(o.v))
	case 'J':
		parts := []string{fmt.Sprintf("\"Atype\":\"%s\"", e.sname(o.s))}
		ko := []string{}
		for _, a := range o.args {
			parts = append(parts, fmt.Sprintf("\"%s\":%s", fn(a.k.n), jsonValue(a.v)))
			ko = append(ko, "\""+fn(a.k.n)+"\"")
		}
		if o.ko {
			parts = append(parts, "\"zKeyOrder\":["+strings.Join(ko, ", ")+"]")
		}
		return fmt.Sprintf("(def v%d (unjson (raw `{%s}`)))", o.id, strings.Join(parts, ", "))
	case 'M':
		return fmt.Sprintf("(def v%d (unmsgpack m%d))", o.id, o.id)
	}
	panic("render")
}

func (e *exec) sValue(x zygo.Sexp) string {
	switch v := x.(type) {
	case *zygo.SexpSentinel:
		if v == zygo.SexpNull {
			return "N"
		}
		return "?sentinel"
	case *zygo.SexpInt:
		return fmt.Sprintf("I%d", v.Val)
	case *zygo.SexpFloat:
		return fmt.Sprintf("F%d", int64(v.Val))
	case *zygo.SexpStr:
		return "S" + strings.TrimPrefix(v.S, "s")
	case *zygo.SexpBool:
		if v.Val {
			return "B1"
		}
		return "B0"
	case *zygo.SexpSymbol:
		return "Y"
	case *zygo.SexpPair:
		return "Q"
	case *zygo.SexpArray:
		parts := []string{}
		for _, y := range v.Val {
			parts = append(parts, e.sValue(y))
		}
		return "A(" + strings.Join(parts, " ") + ")"
	case *zygo.SexpHash:
		if id, ok := e.hashID[v]; ok {
			return fmt.Sprintf("@%d", id)
		}
		if v.TypeName == "hash" {
			return "H"
		}
		return "@?" + v.TypeName
	case *zygo.SexpPointer:
		switch t := v.Target.(type) {
		case *zygo.SexpHash:
			if id, ok := e.hashID[t]; ok {
				return fmt.Sprintf("&%d", id)
			}
			return "&?"
		case *zygo.SexpInt:
			return fmt.Sprintf("^%d", t.Val)
		}
		return "&?"
	}
	return fmt.Sprintf("?%T", x)
}

type keyed struct {
	rank, n int
	s       string
}

func (e *exec) dump() string {
	var sb strings.Builder
	sb.WriteString("R[")
	first := true
	for s := 0; s < e.nstruct; s++ {
		rt := zygo.GoStructRegistry.Registry[e.sname(s)]
		if rt == nil {
			continue
		}
		if !first {
			sb.WriteString(",")
		}
		first = false
		fmt.Fprintf(&sb, "%d=%s", s, e.label(rt))
	}
	sb.WriteString("]")
	ids := []int{}
	for id := range e.insts {
		ids = append(ids, id)
	}
	sort.Ints(ids)
	for _, id := range ids {
		h := e.insts[id]
		tn := -1
		for s := 0; s < e.nstruct; s++ {
			if h.TypeName == e.sname(s) {
				tn = s
			}
		}
		ks := []keyed{}
		for _, bucket := range h.Map {
			for _, p := range bucket {
				var kd keyed
				switch k := p.Head.(type) {
				case *zygo.SexpSymbol:
					n := fidx(k.Name())
					kd = keyed{0, n, fmt.Sprintf("f%d", n)}
				case *zygo.SexpInt:
					kd = keyed{1, int(k.Val), fmt.Sprintf("i%d", k.Val)}
				case *zygo.SexpStr:
					n := -1
					fmt.Sscanf(k.S, "k%d", &n)
					kd = keyed{2, n, fmt.Sprintf("s%d", n)}
				default:
					kd = keyed{3, 0, fmt.Sprintf("?%T", p.Head)}
				}
				kd.s += ":" + e.sValue(p.Tail)
				ks = append(ks, kd)
			}
		}
		sort.Slice(ks, func(i, j int) bool {
			if ks[i].rank != ks[j].rank {
				return ks[i].rank < ks[j].rank
			}
			return ks[i].n < ks[j].n
		})
		parts := make([]string, len(ks))
		for i := range ks {
			parts[i] = ks[i].s
		}
		fmt.Fprintf(&sb, " v%d=%d/%s{%s}", id, tn, e.label(h.GoStructFactory), strings.Join(parts, ","))
	}
	return sb.String()
}

func (e *exec) label(rt *zygo.RegisteredType) string {
	if rt == nil {
		return "nil"
	}
	if l, ok := e.rtLabel[rt]; ok {
		return l
	}
	return "?"
}

func (e *exec) step(o *op) string {
	if o.kind == 'Z' { // naming scheme of the history: no evaluation, no observation
		curNames = nameSchemes[o.s%len(nameSchemes)]
		return "Z"
	}
	if o.kind == 'M' {
		m := map[string]interface{}{"Atype": e.sname(o.s)}
		ko := []interface{}{}
		for _, a := range o.args {
			m[fn(a.k.n)] = goValue(a.v)
			ko = append(ko, fn(a.k.n))
		}
		if o.ko {
			m["zKeyOrder"] = ko
		}
		by, err := zygo.GoToMsgpack(m)
		if err != nil {
			panic(err)
		}
		e.env.AddGlobal(fmt.Sprintf("m%d", o.id), &zygo.SexpRaw{Val: by})
	}
	src := e.render(o)
	res := lib.Eval(e.env, src, 300000)
	if os.Getenv("C17_DEBUG") != "" {
		fmt.Fprintf(os.Stderr, "step %d: %s\n   => %s\n", e.stepNo, src, res.Show())
	}
	oc := "?"
	switch res.Class {
	case lib.OutValue:
		oc = "K"
	case lib.OutError:
		oc = "E"
	case lib.OutPanic:
		oc = "P"
		func() {
			defer func() { recover() }()
			e.env.Clear()
		}()
	default:
		oc = "T"
	}
	if oc == "K" && (o.kind == 'C' || o.kind == 'J' || o.kind == 'M') {
		if h, ok := res.Val.(*zygo.SexpHash); ok {
			e.insts[o.id] = h
			e.hashID[h] = o.id
			e.instT[o.id] = o.s
			e.instDecl[o.id] = e.decl[o.s]
		}
	}
	// label registry entries that appeared in this step
	for s := 0; s < e.nstruct; s++ {
		rt := zygo.GoStructRegistry.Registry[e.sname(s)]
		if rt == nil {
			continue
		}
		if _, seen := e.rtLabel[rt]; seen {
			continue
		}
		l := fmt.Sprintf("?%d", e.stepNo)
		switch {
		case o.kind == 'D' && o.s == s && oc == "K":
			l = fmt.Sprintf("d%d", e.stepNo)
		case o.kind == 'D' && o.s == s:
			l = fmt.Sprintf("p%d", e.stepNo)
		case (o.kind == 'J' || o.kind == 'M' || o.kind == 'C') && o.s == s:
			l = fmt.Sprintf("b%d", e.stepNo)
		}
		e.rtLabel[rt] = l
	}
	if o.kind == 'D' {
		if oc == "K" {
			e.decl[o.s] = o.fields
		} else {
			e.decl[o.s] = nil
		}
	}
	if o.kind == 'R' && oc == "K" && o.v.kind == '@' {
		e.aliased[o.id] = true
		e.aliased[o.v.n] = true
	}
	if o.kind == 'P' && oc == "K" {
		e.ptrTarget[o.pid] = o.id
	}
	if o.kind == 'S' && oc == "K" && o.v.kind == '@' {
		if t, ok := e.ptrTarget[o.pid]; ok {
			e.aliased[t] = true
		}
		e.aliased[o.v.n] = true
	}
	e.stepNo++
	e.lastOut = oc
	ob := oc + ":" + e.dump()
	e.obs = append(e.obs, ob)
	return oc
}

func runHist(h []*op) string {
	ns := 1
	for _, o := range h {
		if o.kind != 'Z' && o.s+1 > ns {
			ns = o.s + 1
		}
		for _, f := range o.fields {
			for t := f.t; t != nil; t = t.sub {
				if t.kind == 's' && t.n+1 > ns {
					ns = t.n + 1
				}
			}
		}
	}
	e := newExec(ns)
	for _, o := range h {
		e.step(o)
	}
	return strings.Join(e.obs, " | ")
}

func main() {
	a := lib.ParseArgs()
	out := lib.NewOut(a.Out)
	out.Rule = "distinct histories (token text) containing at least one accepted construction and one write"
	if a.Replay != "" {
		// replay file: one history per line (optionally "ID<TAB>history")
		f, err := os.Open(a.Replay)
		if err != nil {
			panic(err)
		}
		var lines []string
		if by, err := os.ReadFile(a.Replay); err == nil && len(by) > 0 && strings.TrimSpace(string(by))[0] == '{' {
			// a replay file written by the check: JSON with a "history" member
			var obj map[string]interface{}
			if err := json.Unmarshal(by, &obj); err != nil {
				panic(err)
			}
			h, _ := obj["history"].(string)
			lines = []string{h}
		} else {
			sc := bufio.NewScanner(f)
			sc.Buffer(make([]byte, 1<<20), 1<<20)
			for sc.Scan() {
				lines = append(lines, sc.Text())
			}
		}
		for _, line := range lines {
			line = strings.TrimSpace(line)
			if line == "" {
				continue
			}
			if i := strings.Index(line, "\t"); i >= 0 {
				line = line[i+1:]
			}
			h := parseHist(line)
			out.Case(histToks(h), runHist(h), true, "replay")
		}
		out.Close(a.Stats)
		return
	}
	nh := 1600
	if a.Tier == "thorough" {
		nh = 30000
	}
	rng := lib.NewRng(a.Seed)
	// fixed scenarios first (every route x value kind on one declaration; redeclaration patterns)
	for _, s := range fixedScenarios() {
		h := parseHist(s)
		out.Case(histToks(h), runHist(h), true, "fixed")
	}
	for i := 0; i < nh; i++ {
		mode := "clean"
		switch {
		case i%10 == 7 || i%10 == 8:
			mode = "dirty"
		case i%10 == 9:
			mode = "alias"
		}
		g := newGen(rng.Fork(), mode)
		h, impl, nontrivial := g.run()
		tags := append([]string{"mode:" + mode}, g.tags()...)
		out.Case(histToks(h), impl, nontrivial, tags...)
	}
	out.Close(a.Stats)
}
