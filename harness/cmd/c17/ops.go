package main

import (
	"fmt"
	"strconv"
	"strings"
)

// ---- syntax shared with the OCaml runner (ocaml/c17/run.ml) ----

type texpr struct {
	kind byte // 'b' base, 's' struct, 'L' slice, 'P' pointer
	n    int
	sub  *texpr
}

func (t *texpr) toks() string {
	switch t.kind {
	case 'b', 's':
		return fmt.Sprintf("%c%d", t.kind, t.n)
	}
	return string(t.kind) + " " + t.sub.toks()
}

type value struct {
	kind byte // N I F S B Y Q H A @ & ^ K   (K: concat onto the empty prefix of field f of v<n>; arr = new elements)
	f    int
	n    int
	arr  []*value
}

func (v *value) toks() string {
	switch v.kind {
	case 'N', 'Y', 'Q', 'H':
		return string(v.kind)
	case 'K':
		s := fmt.Sprintf("K%d.%d A%d", v.n, v.f, len(v.arr))
		for _, e := range v.arr {
			s += " " + e.toks()
		}
		return s
	case 'A':
		s := fmt.Sprintf("A%d", len(v.arr))
		for _, e := range v.arr {
			s += " " + e.toks()
		}
		return s
	}
	return fmt.Sprintf("%c%d", v.kind, v.n)
}

type key struct {
	kind byte // f i s
	n    int
}

func (k key) toks() string { return fmt.Sprintf("%c%d", k.kind, k.n) }

type kv struct {
	k key
	v *value
}
type fdecl struct {
	f int
	t *texpr
}

type op struct {
	kind   byte // D C W N X R J M P S
	pid    int
	shape  byte // declaration spelling: 0 list, b bare, q quoted name, x extra argument, n no array, e element that is no field
	s      int  // struct index
	id     int  // instance variable
	route  byte // h d x l j
	k      key
	f, g   int
	v      *value
	args   []kv
	fields []fdecl
	ko     bool
}

func (o *op) toks() string {
	switch o.kind {
	case 'Z':
		return fmt.Sprintf("Z %d", o.s)
	case 'D':
		switch o.shape {
		case 'b', 'x', 'n', 'e':
			return fmt.Sprintf("D%c %d", o.shape, o.s)
		}
		s := fmt.Sprintf("D %d %d", o.s, len(o.fields))
		if o.shape == 'q' {
			s = fmt.Sprintf("Dq %d %d", o.s, len(o.fields))
		}
		for _, f := range o.fields {
			s += fmt.Sprintf(" f%d %s", f.f, f.t.toks())
		}
		return s
	case 'C':
		s := fmt.Sprintf("C %d %d %d", o.id, o.s, len(o.args))
		if o.shape == 'a' || o.shape == 'f' {
			s = fmt.Sprintf("C%c %d %d %d", o.shape, o.id, o.s, len(o.args))
		}
		for _, a := range o.args {
			s += " " + a.k.toks() + " " + a.v.toks()
		}
		return s
	case 'W':
		return fmt.Sprintf("W %c %d %s %s", o.route, o.id, o.k.toks(), o.v.toks())
	case 'N':
		return fmt.Sprintf("N %d f%d f%d %s", o.id, o.f, o.g, o.v.toks())
	case 'X':
		return fmt.Sprintf("X %d %s", o.id, o.k.toks())
	case 'R':
		return fmt.Sprintf("R %d %s", o.id, o.v.toks())
	case 'P':
		return fmt.Sprintf("P %d %d", o.pid, o.id)
	case 'S':
		return fmt.Sprintf("S %d %s", o.pid, o.v.toks())
	case 'J', 'M':
		ko := 0
		if o.ko {
			ko = 1
		}
		s := fmt.Sprintf("%c %d %d %d %d", o.kind, ko, o.id, o.s, len(o.args))
		for _, a := range o.args {
			s += " " + a.k.toks() + " " + a.v.toks()
		}
		return s
	}
	panic("bad op")
}

func histToks(h []*op) string {
	parts := make([]string, len(h))
	for i, o := range h {
		parts[i] = o.toks()
	}
	return strings.Join(parts, " ; ")
}

// ---- parser (replay) ----
type tokens struct {
	t []string
	p int
}

func (ts *tokens) next() string {
	if ts.p >= len(ts.t) {
		panic("unexpected end of step")
	}
	s := ts.t[ts.p]
	ts.p++
	return s
}
func num(s string) int {
	n, err := strconv.Atoi(s[1:])
	if err != nil {
		panic("bad number in token " + s)
	}
	return n
}
func (ts *tokens) int() int {
	n, err := strconv.Atoi(ts.next())
	if err != nil {
		panic("bad integer")
	}
	return n
}
func (ts *tokens) texpr() *texpr {
	t := ts.next()
	switch t[0] {
	case 'b', 's':
		return &texpr{kind: t[0], n: num(t)}
	case 'L', 'P':
		return &texpr{kind: t[0], sub: ts.texpr()}
	}
	panic("bad type token " + t)
}
func (ts *tokens) value() *value {
	t := ts.next()
	switch t[0] {
	case 'N', 'Y', 'Q', 'H':
		return &value{kind: t[0]}
	case 'K':
		var j, f int
		if _, err := fmt.Sscanf(t, "K%d.%d", &j, &f); err != nil {
			panic("bad K token " + t)
		}
		a := ts.value()
		if a.kind != 'A' {
			panic("K needs an array")
		}
		return &value{kind: 'K', n: j, f: f, arr: a.arr}
	case 'A':
		n := num(t)
		v := &value{kind: 'A'}
		for i := 0; i < n; i++ {
			v.arr = append(v.arr, ts.value())
		}
		return v
	case 'I', 'F', 'S', 'B', '@', '&', '^':
		return &value{kind: t[0], n: num(t)}
	}
	panic("bad value token " + t)
}
func (ts *tokens) key() key {
	t := ts.next()
	switch t[0] {
	case 'f', 'i', 's':
		return key{kind: t[0], n: num(t)}
	}
	panic("bad key token " + t)
}

func parseStep(s string) *op {
	ts := &tokens{t: strings.Fields(s)}
	o := &op{}
	k := ts.next()
	o.kind = k[0]
	switch k {
	case "Z":
		o.s = ts.int()
	case "Db", "Dx", "Dn", "De":
		o.shape = k[1]
		o.s = ts.int()
	case "D", "Dq":
		if k == "Dq" {
			o.shape = 'q'
		}
		o.s = ts.int()
		n := ts.int()
		for i := 0; i < n; i++ {
			f := num(ts.next())
			o.fields = append(o.fields, fdecl{f, ts.texpr()})
		}
	case "C", "Ca", "Cf":
		if len(k) == 2 {
			o.shape = k[1]
		}
		o.id = ts.int()
		o.s = ts.int()
		n := ts.int()
		for i := 0; i < n; i++ {
			kk := ts.key()
			o.args = append(o.args, kv{kk, ts.value()})
		}
	case "W":
		o.route = ts.next()[0]
		o.id = ts.int()
		o.k = ts.key()
		o.v = ts.value()
	case "N":
		o.id = ts.int()
		o.f = num(ts.next())
		o.g = num(ts.next())
		o.v = ts.value()
	case "X":
		o.id = ts.int()
		o.k = ts.key()
	case "R":
		o.id = ts.int()
		o.v = ts.value()
	case "P":
		o.pid = ts.int()
		o.id = ts.int()
	case "S":
		o.pid = ts.int()
		o.v = ts.value()
	case "J", "M":
		o.ko = ts.int() == 1
		o.id = ts.int()
		o.s = ts.int()
		n := ts.int()
		for i := 0; i < n; i++ {
			kk := ts.key()
			o.args = append(o.args, kv{kk, ts.value()})
		}
	default:
		panic("bad step " + s)
	}
	return o
}

func parseHist(s string) []*op {
	var h []*op
	for _, p := range strings.Split(s, ";") {
		if strings.TrimSpace(p) == "" {
			continue
		}
		h = append(h, parseStep(p))
	}
	return h
}
