// c18: package members are private unless capitalised.
// Generates worlds (package nestings with members of every kind and first-rune class, aliases,
// hashes holding packages), evaluates dot-path reads / assignments / calls through every route
// on the REAL interpreter and prints canonical observables; the same encoded case is run by the
// extracted Coq model and specification (ocaml/c18/run.ml).
package main

import (
	"encoding/json"
	"fmt"
	"os"
	"regexp"
	"runtime/pprof"
	"sort"
	"strings"
	"time"
	"unicode"

	"github.com/glycerine/zygomys/v9/zygo"
	"verif/harness/lib"
)

// ---------- declarations ----------
type body struct {
	kind  byte // G get plain symbol, S set plain symbol, D dot path read, W dot path write, C call through a dot path
	name  string
	path  []string
	cargs []int64
}
type decl struct {
	kind   byte // I int, F function, H hash, P package, R reference to an existing value
	z      int64
	params []string
	body   body
	kvs    []member
	pname  string
	path   []string
}
type member struct {
	name string
	d    *decl
}
type op struct {
	kind   byte   // g get, s set, c call
	route  string // concrete syntax route
	path   []string
	z      int64
	args   []int64
	tmp    string   // fresh variable of the rhs routes / name of the wrapper function (not part of the model input)
	param  string   // 'v': the calling function's parameter ...
	argsym string   // ... bound to the value of this global
	wname  string   // 'v': name of the calling function ("" = fresh name); may equal the callee's own name
	src2   []string // 'f': source path of {path = src2}
}

func (o op) wrapper() string {
	if o.wname != "" {
		return o.wname
	}
	return "wr" + o.tmp
}

func dZ() *decl { return &decl{kind: 'Z'} }

var tmpCounter int

func dI(z int64) *decl { return &decl{kind: 'I', z: z} }
func dF(params []string, b body) *decl {
	return &decl{kind: 'F', params: params, body: b}
}
func dH(kvs ...member) *decl           { return &decl{kind: 'H', kvs: kvs} }
func dP(pn string, ms ...member) *decl { return &decl{kind: 'P', pname: pn, kvs: ms} }
func dR(path ...string) *decl          { return &decl{kind: 'R', path: path} }
func m(name string, d *decl) member    { return member{name, d} }
func names(b *strings.Builder, p []string) {
	fmt.Fprintf(b, " %d", len(p))
	for _, s := range p {
		b.WriteString(" " + s)
	}
}

func (bd body) enc(b *strings.Builder) {
	switch bd.kind {
	case 'G', 'S', 'K':
		fmt.Fprintf(b, " %c %s", bd.kind, bd.name)
	case 'D', 'W':
		fmt.Fprintf(b, " %c", bd.kind)
		names(b, bd.path)
	case 'C':
		b.WriteString(" C")
		names(b, bd.path)
		fmt.Fprintf(b, " %d", len(bd.cargs))
		for _, a := range bd.cargs {
			fmt.Fprintf(b, " %d", a)
		}
	}
}
func (bd body) src(params []string) string {
	switch bd.kind {
	case 'G':
		return bd.name
	case 'S':
		return "(set " + bd.name + " " + params[0] + ")"
	case 'K':
		return "(set " + bd.name + " nil)"
	case 'W':
		return "(set " + strings.Join(bd.path, ".") + " " + params[0] + ")"
	case 'C':
		s := "(" + strings.Join(bd.path, ".")
		for _, a := range bd.cargs {
			s += fmt.Sprintf(" %d", a)
		}
		return s + ")"
	}
	return "(let [tq " + strings.Join(bd.path, ".") + "] tq)"
}

func (d *decl) enc(b *strings.Builder) {
	switch d.kind {
	case 'I':
		fmt.Fprintf(b, " I %d", d.z)
	case 'F':
		b.WriteString(" F")
		names(b, d.params)
		d.body.enc(b)
	case 'H':
		fmt.Fprintf(b, " H %d", len(d.kvs))
		for _, kv := range d.kvs {
			b.WriteString(" " + kv.name)
			kv.d.enc(b)
		}
	case 'P':
		fmt.Fprintf(b, " P %s %d", d.pname, len(d.kvs))
		for _, kv := range d.kvs {
			b.WriteString(" " + kv.name)
			kv.d.enc(b)
		}
	case 'R':
		b.WriteString(" R")
		names(b, d.path)
	case 'Z':
		b.WriteString(" Z")
	}
}

func (d *decl) expr() string {
	switch d.kind {
	case 'I':
		return fmt.Sprintf("%d", d.z)
	case 'H':
		var parts []string
		for _, kv := range d.kvs {
			parts = append(parts, kv.name+":"+kv.d.expr())
		}
		return "(hash " + strings.Join(parts, " ") + ")"
	case 'P':
		var parts []string
		for _, kv := range d.kvs {
			parts = append(parts, stmt(kv.name, kv.d))
		}
		return "(package \"" + d.pname + "\" { " + strings.Join(parts, "; ") + " })"
	case 'R':
		return strings.Join(d.path, ".")
	case 'Z':
		return "nil"
	}
	panic("expr of function")
}
func stmt(name string, d *decl) string {
	if d.kind == 'F' {
		return "(defn " + name + " [" + strings.Join(d.params, " ") + "] " + d.body.src(d.params) + ")"
	}
	return "(def " + name + " " + d.expr() + ")"
}

// route -> projection tag understood by the model runner
func proj(route string) string {
	switch route {
	case "plus":
		return "plus"
	case "type":
		return "type"
	}
	return "full"
}

func (o op) enc(b *strings.Builder) {
	switch o.kind {
	case 'g':
		b.WriteString(" g " + proj(o.route))
		names(b, o.path)
	case 's':
		b.WriteString(" s full")
		names(b, o.path)
		fmt.Fprintf(b, " %d", o.z)
	case 'c', 'v':
		if o.kind == 'v' {
			b.WriteString(" v " + o.wrapper() + " " + o.param + " " + o.argsym)
		} else {
			b.WriteString(" c")
		}
		names(b, o.path)
		fmt.Fprintf(b, " %d", len(o.args))
		for _, a := range o.args {
			fmt.Fprintf(b, " %d", a)
		}
	case 'f':
		b.WriteString(" f")
		names(b, o.path)
		names(b, o.src2)
	case 'r':
		// routes of Model/PkgRoutes.v: the syntax variant (cmp-infix-plus ..) is not part of the model input
		rt := o.route
		if strings.HasPrefix(rt, "cmp") {
			rt = "cmp"
		}
		b.WriteString(" r " + rt)
		names(b, o.path)
		switch rt {
		case "callx", "ind":
			fmt.Fprintf(b, " %d", len(o.args))
			for _, a := range o.args {
				fmt.Fprintf(b, " %d", a)
			}
		case "hget":
			names(b, o.src2)
		case "defdot":
			fmt.Fprintf(b, " %d", o.z)
		}
	}
}

// texts to evaluate for one op; the observable is the value of the last one (or the first error)
func (o op) src() []string {
	p := strings.Join(o.path, ".")
	switch o.kind {
	case 'g':
		switch o.route {
		case "rhsdef":
			return []string{"(def " + o.tmp + " " + p + ")", o.tmp}
		case "rhsinfix":
			return []string{"{" + o.tmp + " = " + p + "}", o.tmp}
		case "let":
			return []string{"(let [tq " + p + "] tq)"}
		case "plus":
			return []string{"(+ 0 " + p + ")"}
		case "type":
			return []string{"(type? " + p + ")"}
		}
	case 's':
		switch o.route {
		case "infix":
			return []string{fmt.Sprintf("{%s = %d}", p, o.z)}
		case "prefix":
			return []string{fmt.Sprintf("(= %s %d)", p, o.z)}
		case "set":
			return []string{fmt.Sprintf("(set %s %d)", p, o.z)}
		case "infixdef":
			return []string{fmt.Sprintf("{%s := %d}", p, o.z)}
		case "prefixdef":
			return []string{fmt.Sprintf("(:= %s %d)", p, o.z)}
		}
	case 'c':
		s := "(" + p
		for _, a := range o.args {
			s += fmt.Sprintf(" %d", a)
		}
		return []string{s + ")"}
	case 'v':
		// the call is made by a function whose parameter carries the outsider's value
		s := "(" + p
		for _, a := range o.args {
			s += fmt.Sprintf(" %d", a)
		}
		return []string{"(defn " + o.wrapper() + " [" + o.param + "] " + s + "))", "(" + o.wrapper() + " " + o.argsym + ")"}
	case 'f':
		q := strings.Join(o.src2, ".")
		switch o.route {
		case "from-infix":
			return []string{"{" + p + " = " + q + "}"}
		case "from-infixdef":
			return []string{"{" + p + " := " + q + "}"}
		case "from-set":
			return []string{"(set " + p + " " + q + ")"}
		case "from-prefix":
			return []string{"(= " + p + " " + q + ")"}
		}
	}
	if o.kind == 'r' {
		as := ""
		for _, a := range o.args {
			as += fmt.Sprintf(" %d", a)
		}
		switch o.route {
		case "deref":
			return []string{"(* " + p + ")"}
		case "arg":
			return []string{"((fn [xq] xq) " + p + ")"}
		case "callx":
			return []string{"(((fn [] " + p + "))" + as + ")"}
		case "ind":
			// the host binds hostg9 to the dot symbol (evalOp); the script calls it
			return []string{"(hostg9" + as + ")"}
		case "hget":
			return []string{"(hget " + p + " (quote ." + strings.Join(o.src2, ".") + "))"}
		case "cmp-infix-plus":
			return []string{"{" + p + " += 1}"}
		case "cmp-infix-minus":
			return []string{"{" + p + " -= 1}"}
		case "cmp-infix-inc":
			return []string{"{" + p + "++}"}
		case "cmp-infix-dec":
			return []string{"{" + p + " --}"}
		case "cmp-prefix-plus":
			return []string{"(+= " + p + " 1)"}
		case "cmp-prefix-inc":
			return []string{"(++ " + p + ")"}
		case "defdot":
			return []string{fmt.Sprintf("(def %s %d)", p, o.z)}
		}
	}
	panic("bad op route " + o.route)
}

var cmpRoutes = []string{"cmp-infix-plus", "cmp-infix-minus", "cmp-infix-inc", "cmp-infix-dec", "cmp-prefix-plus", "cmp-prefix-inc"}

// ---------- observables ----------
var privRe = regexp.MustCompile(`Cannot access private member '([^']*)' of package '([^']*)'`)

func classify(err error) string {
	s := err.Error()
	if mm := privRe.FindStringSubmatch(s); mm != nil {
		return "PRIV:" + mm[1] + ":" + mm[2]
	}
	switch {
	case strings.Contains(s, "could not find symbol"):
		return "NFPKG"
	case strings.Contains(s, "hash has no field"):
		return "NFHASH"
	case strings.Contains(s, "symbol `") && strings.Contains(s, "not found"):
		return "NFSYM"
	case strings.Contains(s, "not a record"):
		return "NOTREC"
	case strings.Contains(s, "is not a package"):
		return "NOTPKG"
	}
	return "OTHER"
}

func render(env *zygo.Zlisp, v zygo.Sexp, depth int) string {
	switch x := v.(type) {
	case *zygo.SexpInt:
		return fmt.Sprintf("I%d", x.Val)
	case *zygo.SexpSentinel:
		if v == zygo.SexpNull {
			return "N"
		}
	case *zygo.SexpFunction:
		return "F:" + x.VerifC18FuncName()
	case *zygo.Stack:
		return "P:" + x.PackageName
	case *zygo.SexpStr:
		return "T:" + x.S
	case *zygo.SexpHash:
		if depth > 6 {
			return "H{..}"
		}
		var parts []string
		for _, k := range x.KeyOrder {
			val, err := x.HashGet(env, k)
			if err != nil {
				parts = append(parts, k.SexpString(nil)+"=?")
				continue
			}
			parts = append(parts, k.SexpString(nil)+"="+render(env, val, depth+1))
		}
		return "H{" + strings.Join(parts, ",") + "}"
	}
	return fmt.Sprintf("OTHERVAL:%T", v)
}

func evalOp(env *zygo.Zlisp, o op) string {
	var last lib.Result
	if o.kind == 'r' && o.route == "ind" {
		// embedding route: the host binds a global to the dot SYMBOL (not to its value)
		env.AddGlobal("hostg9", env.MakeDotSymbol(strings.Join(o.path, ".")))
	}
	for _, s := range o.src() {
		last = lib.Eval(env, s, 200000)
		switch last.Class {
		case lib.OutError:
			c := classify(last.Err)
			if c == "OTHER" && o.route == "plus" {
				return "OTHER"
			}
			return c
		case lib.OutPanic:
			return "PANIC"
		case lib.OutBudget:
			return "BUDGET"
		}
	}
	if o.kind == 'f' {
		return "SET" // the expression's own value is the unresolved symbol; the follow-up reads observe the effect
	}
	return render(env, last.Val, 0)
}

// ---------- a case ----------
type world struct {
	defs     []member
	key      string
	srcCache []string
	declared bool
}

var worldCounter int

func (w *world) src() []string {
	if w.srcCache == nil {
		for _, d := range w.defs {
			w.srcCache = append(w.srcCache, stmt(d.name, d.d))
		}
	}
	return w.srcCache
}

// the world line precedes the first case that uses the world
func (w *world) declare(out *lib.Out) {
	if w.declared {
		return
	}
	worldCounter++
	w.key = fmt.Sprintf("w%d", worldCounter)
	w.declared = true
	out.Case(encodeWorld(w), "WORLD", false, "world")
}

func (w *world) build() (*zygo.Zlisp, string) {
	env := zygo.NewZlisp()
	env.StandardSetup()
	for _, s := range w.src() {
		r := lib.Eval(env, s, 2000000)
		if r.Class != lib.OutValue {
			return env, "BUILD-" + r.Show()
		}
	}
	return env, ""
}

var upperSet map[rune]bool

func firstRunes(w *world, ops []op, set map[rune]bool) {
	var walk func(d *decl)
	add := func(s string) {
		for _, r := range s {
			set[r] = true
			break
		}
	}
	walk = func(d *decl) {
		for _, p := range d.path {
			add(p)
		}
		for _, p := range d.body.path {
			add(p)
		}
		for _, kv := range d.kvs {
			add(kv.name)
			walk(kv.d)
		}
	}
	for _, d := range w.defs {
		add(d.name)
		walk(d.d)
	}
	for _, o := range ops {
		for _, p := range o.path {
			add(p)
		}
		if o.kind == 'v' {
			add(o.param)
			add(o.argsym)
			add(o.wrapper())
		}
		for _, p := range o.src2 {
			add(p)
		}
	}
}

func upperTokens(set map[rune]bool) string {
	var ups []int
	for r := range set {
		if unicode.IsUpper(r) {
			ups = append(ups, int(r))
		}
	}
	sort.Ints(ups) // map order must not leak
	var b strings.Builder
	fmt.Fprintf(&b, "U %d", len(ups))
	for _, u := range ups {
		fmt.Fprintf(&b, " %d", u)
	}
	return b.String()
}

// world line:  "D key U.. W.. ## source"; op line: "X key U.. O.. ## source" (key names a world line)
func encodeWorld(w *world) string {
	var b strings.Builder
	set := map[rune]bool{}
	firstRunes(w, nil, set)
	b.WriteString("D " + w.key + " " + upperTokens(set))
	fmt.Fprintf(&b, " W %d", len(w.defs))
	for _, d := range w.defs {
		b.WriteString(" " + d.name)
		d.d.enc(&b)
	}
	b.WriteString(" ## " + strings.Join(w.src(), " ;; "))
	return b.String()
}

func encode(w *world, ops []op) string {
	var b strings.Builder
	set := map[rune]bool{}
	firstRunes(&world{}, ops, set)
	b.WriteString("X " + w.key + " " + upperTokens(set))
	fmt.Fprintf(&b, " O %d", len(ops))
	for _, o := range ops {
		o.enc(&b)
	}
	b.WriteString(" ##")
	for i, o := range ops {
		if i > 0 {
			b.WriteString(" ;;")
		}
		b.WriteString(" " + strings.Join(o.src(), " ;; "))
	}
	return b.String()
}

func classOf(name string) string {
	for _, r := range name {
		switch {
		case unicode.IsUpper(r):
			return "upper"
		case unicode.IsLower(r):
			return "lower"
		case unicode.IsLetter(r):
			return "othercase"
		}
		return "nonletter"
	}
	return "empty"
}

func tagsFor(ops []op) []string {
	var t []string
	for _, o := range ops {
		t = append(t, "route:"+o.route, fmt.Sprintf("pathlen:%d", len(o.path)), "final:"+classOf(o.path[len(o.path)-1]))
	}
	return t
}

// run ops on an existing env (shared world, read-only ops) or on a fresh one
func runCase(out *lib.Out, w *world, env *zygo.Zlisp, ops []op, extra ...string) {
	w.declare(out)
	if env == nil {
		var berr string
		env, berr = w.build()
		if berr != "" {
			out.Case(encode(w, ops), berr, false, "build-error")
			return
		}
	}
	var obs []string
	for i := range ops {
		tmpCounter++
		ops[i].tmp = fmt.Sprintf("zq%d", tmpCounter)
	}
	for _, o := range ops {
		obs = append(obs, evalOp(env, o))
	}
	out.Case(encode(w, ops), strings.Join(obs, "|"), true, append(tagsFor(ops), extra...)...)
}

// ---------- systematic world ----------
var clsName = []string{"U", "l", "_"}
var intN = []string{"Vi", "vi", "_vi"}
var hashN = []string{"Hh", "hh", "_hh"}
var pkgN = []string{"Pp", "pp", "_pp"}
var nilN = []string{"Nn", "nn", "_nn"}

func sysHash() *decl {
	return dH(m("A", dI(1)), m("b", dI(2)), m("_c", dI(3)),
		m("N", dH(m("D", dI(4)), m("e", dI(5)))), m("n", dH(m("D", dI(6)))))
}

func sysPkg(level, depth int, pname string, lean bool) *decl {
	var ms []member
	for c := 0; c < 3; c++ {
		ms = append(ms, m(intN[c], dI(int64(level*100+c+10))))
	}
	ms = append(ms, m(fmt.Sprintf("X%d", level), dI(int64(level*100+50))), m(fmt.Sprintf("x%d", level), dI(int64(level*100+51))))
	// members whose current value is nil, their inside readers, functions that set members back to nil
	for c := 0; c < 3; c++ {
		ms = append(ms, m(nilN[c], dZ()))
	}
	ms = append(ms,
		m("GetNilLo", dF(nil, body{kind: 'G', name: "nn"})),
		m("ClearLo", dF(nil, body{kind: 'K', name: "vi"})))
	if !lean { // (every closure creation costs the interpreter time proportional to the world's size)
		ms = append(ms,
			m("GetNilUp", dF(nil, body{kind: 'G', name: "Nn"})),
			m("GetNilNl", dF(nil, body{kind: 'G', name: "_nn"})),
			m("ClearUp", dF(nil, body{kind: 'K', name: "Vi"})))
	}
	if level < depth-1 {
		// facades that carry the name of the member they call (tail position, arity fits)
		ms = append(ms,
			m("SetLo2", dF([]string{"v"}, body{kind: 'C', path: []string{"Pp", "SetLo2"}, cargs: []int64{66}})),
			m("GetLo2", dF(nil, body{kind: 'C', path: []string{"pp", "GetLo2"}})))
	} else {
		ms = append(ms,
			m("SetLo2", dF([]string{"v"}, body{kind: 'S', name: "vi"})),
			m("GetLo2", dF(nil, body{kind: 'G', name: "vi"})))
	}
	for c := 0; c < 3; c++ {
		if lean {
			ms = append(ms, m(hashN[c], dH(m("A", dI(1)), m("b", dI(2)), m("N", dH(m("D", dI(4)), m("e", dI(5)))))))
		} else {
			ms = append(ms, m(hashN[c], sysHash()))
		}
	}
	if lean {
		ms = append(ms,
			m("GetLo", dF(nil, body{kind: 'G', name: "vi"})),
			m("getUp", dF(nil, body{kind: 'G', name: "Vi"})),
			m("GetNl", dF(nil, body{kind: 'G', name: "_vi"})),
			m("SetLo", dF([]string{"v"}, body{kind: 'S', name: "vi"})),
			m("setUp", dF([]string{"v"}, body{kind: 'S', name: "Vi"})))
		if level > 0 {
			ms = append(ms, m("GetOut", dF(nil, body{kind: 'G', name: fmt.Sprintf("x%d", level-1)})),
				m("SetOut", dF([]string{"v"}, body{kind: 'S', name: fmt.Sprintf("x%d", level-1)})))
		}
		if level < depth-1 {
			for c := 0; c < 3; c++ {
				ms = append(ms, m(pkgN[c], sysPkg(level+1, depth, fmt.Sprintf("%s%s", pname, clsName[c]), lean)))
			}
		}
		return dP(pname, ms...)
	}
	ms = append(ms,
		m("GetLo", dF(nil, body{kind: 'G', name: "vi"})),
		m("getUp", dF(nil, body{kind: 'G', name: "Vi"})),
		m("_getNl", dF(nil, body{kind: 'G', name: "_vi"})),
		m("GetNl", dF(nil, body{kind: 'G', name: "_vi"})),
		m("GetHh", dF(nil, body{kind: 'G', name: "hh"})),
		m("SetLo", dF([]string{"v"}, body{kind: 'S', name: "vi"})),
		m("setUp", dF([]string{"v"}, body{kind: 'S', name: "Vi"})),
		m("SetNl", dF([]string{"v"}, body{kind: 'S', name: "_vi"})),
		m("Shadow", dF([]string{"vi"}, body{kind: 'G', name: "vi"})),
		m("GetMissing", dF(nil, body{kind: 'G', name: "nosuch"})),
	)
	if level > 0 {
		ms = append(ms, m("GetOut", dF(nil, body{kind: 'G', name: fmt.Sprintf("x%d", level-1)})),
			m("SetOut", dF([]string{"v"}, body{kind: 'S', name: fmt.Sprintf("x%d", level-1)})))
	}
	if level < depth-1 {
		for c := 0; c < 3; c++ {
			ms = append(ms, m(pkgN[c], sysPkg(level+1, depth, fmt.Sprintf("%s%s", pname, clsName[c]), lean)))
		}
		ms = append(ms,
			m("DotLo", dF(nil, body{kind: 'D', path: []string{"pp", "vi"}})),
			m("DotUp", dF(nil, body{kind: 'D', path: []string{"pp", "Vi"}})),
			m("DotHk", dF(nil, body{kind: 'D', path: []string{"Pp", "Hh", "b"}})),
			m("DotHp", dF(nil, body{kind: 'D', path: []string{"Pp", "hh", "A"}})))
	}
	return dP(pname, ms...)
}

func sysWorld(depth int, lean bool) *world {
	return &world{defs: []member{
		m("G9", dI(900)), m("g9", dI(901)),
		m("root", sysPkg(0, depth, "k", lean)),
		m("al", dR("root")),
		m("al2", dR("root", "pp")),
		m("hq", dH(m("P", dR("root")), m("p", dR("al2")), m("N", dH(m("P", dR("root")), m("q", dR("al2")), m("M", dH(m("P", dR("root")))))))),
	}}
}

var getRoutes = []string{"rhsdef", "rhsinfix", "let", "plus", "type"}
var setRoutes = []string{"infix", "prefix", "set", "infixdef", "prefixdef"}
var fromRoutes = []string{"from-infix", "from-set", "from-prefix", "from-infixdef"}

type target struct {
	path  []string
	kind  byte // I F H P ? (missing / fall-through)
	fn    *decl
	level int
}

// all member paths below a package (relative), following nested packages under every name class
func sysTargets(level, depth int, prefix []string, lean bool) []target {
	var ts []target
	add := func(k byte, fn *decl, names ...string) {
		p := append(append([]string{}, prefix...), names...)
		ts = append(ts, target{path: p, kind: k, fn: fn, level: level})
	}
	pk := sysPkg(level, depth, "k", lean)
	for _, mem := range pk.kvs {
		switch mem.d.kind {
		case 'I', 'Z':
			add('I', nil, mem.name)
		case 'F':
			add('F', mem.d, mem.name)
		case 'H':
			add('H', nil, mem.name)
			for _, sub := range [][]string{{"A"}, {"b"}, {"_c"}, {"N"}, {"N", "D"}, {"N", "e"}, {"n", "D"}, {"zz"}, {"N", "zz"}, {"A", "x"}, {"N", "D", "x"}} {
				add('h', nil, append([]string{mem.name}, sub...)...)
			}
		case 'P':
			add('P', nil, mem.name)
		}
	}
	add('?', nil, "Zz")
	add('?', nil, "zz")
	add('?', nil, "G9")
	add('?', nil, "g9")
	add('?', nil, "root")
	add('?', nil, "Vi", "x")
	for l := 0; l < level; l++ {
		add('?', nil, fmt.Sprintf("X%d", l))
		add('?', nil, fmt.Sprintf("x%d", l))
	}
	if level < depth-1 {
		for c := 0; c < 3; c++ {
			ts = append(ts, sysTargets(level+1, depth, append(append([]string{}, prefix...), pkgN[c]), lean)...)
		}
	}
	return ts
}

func withRoot(root []string, p []string) []string {
	return append(append([]string{}, root...), p...)
}

func systematic(out *lib.Out, depth int, rng *lib.Rng, setFraction int, reads bool, lean bool) {
	w := sysWorld(depth, lean)
	env, berr := w.build()
	if berr != "" {
		w.declare(out)
		out.Case(encode(w, nil), berr, false, "build-error")
		return
	}
	ts := sysTargets(0, depth, nil, lean)
	roots := [][]string{{"root"}, {"al"}, {"hq", "P"}, {"hq", "N", "P"}, {"hq", "N", "M", "P"}}
	// reads and getter calls share one interpreter (they do not change the world)
	for ri, root := range roots {
		if !reads {
			break
		}
		for _, t := range ts {
			if ri >= 2 && t.level > 0 && rng.Intn(4) != 0 {
				continue
			}
			p := withRoot(root, t.path)
			for _, r := range getRoutes {
				runCase(out, w, env, []op{{kind: 'g', route: r, path: p}}, "sys:get", "kind:"+string(t.kind), "root:"+strings.Join(root, "."))
			}
			if t.kind == 'F' && (t.fn.body.kind == 'G' || t.fn.body.kind == 'D') {
				var args []int64
				for range t.fn.params {
					args = append(args, 7)
				}
				runCase(out, w, env, []op{{kind: 'c', route: "call", path: p, args: args}}, "sys:call", "body:"+string(t.fn.body.kind), "root:"+strings.Join(root, "."))
			} else if t.kind != 'F' && ri == 0 {
				runCase(out, w, env, []op{{kind: 'c', route: "call", path: p}}, "sys:call-nonfn")
			}
		}
	}
	// al2 (alias of a nested package reached through a dot path) and packages held by hashes
	for _, t := range sysTargets(1, depth, nil, lean) {
		for _, root := range [][]string{{"al2"}, {"hq", "p"}, {"hq", "N", "q"}} {
			if !reads || (t.level > 1 && rng.Intn(3) != 0) {
				continue
			}
			p := withRoot(root, t.path)
			r := getRoutes[rng.Intn(len(getRoutes))]
			runCase(out, w, env, []op{{kind: 'g', route: r, path: p}}, "sys:get", "root:"+strings.Join(root, "."))
		}
	}
	// assignments and setter calls: fresh interpreter each, followed by reads from inside and outside
	k := 0
	for ri, root := range roots[:4] {
		if setFraction <= 0 {
			break
		}
		for _, t := range ts {
			k++
			if setFraction > 1 && (k+ri)%setFraction != 0 {
				continue
			}
			p := withRoot(root, t.path)
			pkgPath := p[:len(p)-1]
			follow := []op{{kind: 'g', route: "let", path: p}}
			if getter := map[string]string{"vi": "GetLo", "Vi": "getUp", "_vi": "GetNl", "Nn": "GetNilLo", "nn": "GetNilLo", "_nn": "GetNilLo"}[t.path[len(t.path)-1]]; t.kind == 'I' && getter != "" {
				follow = append(follow, op{kind: 'c', route: "call", path: append(append([]string{}, pkgPath...), getter)})
				follow = append(follow, op{kind: 'c', route: "call", path: withRoot([]string{"root"}, append(append([]string{}, t.path[:len(t.path)-1]...), getter))})
			}
			if t.kind == 'F' && (t.fn.body.kind == 'S' || t.fn.body.kind == 'K' || t.fn.body.kind == 'C') {
				var args []int64
				for range t.fn.params {
					args = append(args, 77)
				}
				first := op{kind: 'c', route: "call", path: p, args: args}
				if len(args) == 1 && (k+ri)%2 == 0 {
					// the call is made, in tail position, by a global function of the SAME name as the member
					first = op{kind: 'v', route: "call-via-samename", path: p, args: args, param: "zz9p", argsym: "G9", wname: p[len(p)-1]}
				}
				ops := []op{first}
				for _, g := range []string{"GetLo", "getUp", "GetNl", "GetOut"} {
					ops = append(ops, op{kind: 'c', route: "call", path: append(append([]string{}, pkgPath...), g)})
				}
				// after a member was set back to nil it is still private from outside
				ops = append(ops, op{kind: 'g', route: "let", path: append(append([]string{}, pkgPath...), "vi")},
					op{kind: 'g', route: "type", path: append(append([]string{}, pkgPath...), "Vi")})
				if level := len(t.path); level >= 1 && t.fn.body.kind == 'C' {
					ops = append(ops, op{kind: 'c', route: "call", path: append(append([]string{}, pkgPath...), t.fn.body.path[0], "GetLo")})
				}
				runCase(out, w, nil, ops, "sys:setter-call", "root:"+strings.Join(root, "."))
				continue
			}
			r := setRoutes[(k+ri)%len(setRoutes)]
			ops := append([]op{{kind: 's', route: r, path: p, z: 4242}}, follow...)
			runCase(out, w, nil, ops, "sys:set", "kind:"+string(t.kind), "root:"+strings.Join(root, "."))
		}
	}
}

// ---------- every route into the dot-path code (Model/PkgRoutes.v) ----------
// For every member path of a systematic world below several roots (the package, an alias, packages held by
// hashes): dereference, argument of a function, call expression, host-bound dot symbol, compound assignment
// in six spellings, def of the dotted name, and (hget root (quote .rest)) for EVERY split of the path.
// None of these changes the world (compound assignment of a public member does not compile), so one
// interpreter serves all; reads from inside follow to see that nothing was stored.
func routes(out *lib.Out, rng *lib.Rng, depth int, all bool) {
	w := sysWorld(depth, true)
	env, berr := w.build()
	if berr != "" {
		w.declare(out)
		out.Case(encode(w, nil), berr, false, "build-error")
		return
	}
	ts := sysTargets(0, depth, nil, true)
	roots := [][]string{{"root"}, {"al"}, {"hq", "P"}, {"hq", "N", "P"}}
	k := 0
	for ri, root := range roots {
		for _, t := range ts {
			if !all && ri >= 1 && t.level > 0 && rng.Intn(3) != 0 {
				continue
			}
			k++
			p := withRoot(root, t.path)
			tag := []string{"routes", "kind:" + string(t.kind), "root:" + strings.Join(root, ".")}
			var args []int64
			mutates := false
			if t.kind == 'F' {
				for range t.fn.params {
					args = append(args, 7)
				}
				mutates = t.fn.body.kind != 'G' && t.fn.body.kind != 'D'
			} else if k%3 == 0 {
				args = []int64{5}
			}
			if mutates {
				// setters / clearers / facades: the call goes through the route on a fresh interpreter and the
				// effect is read back from inside and outside
				if ri == 0 || all {
					pkgPath := p[:len(p)-1]
					for _, r := range []string{"callx", "ind"} {
						ops := []op{{kind: 'r', route: r, path: p, args: args},
							{kind: 'c', route: "call", path: append(append([]string{}, pkgPath...), "GetLo")},
							{kind: 'c', route: "call", path: append(append([]string{}, pkgPath...), "getUp")},
							{kind: 'g', route: "let", path: append(append([]string{}, pkgPath...), "Vi")}}
						runCase(out, w, nil, ops, append(tag, "route:"+r+"-setter")...)
					}
				}
				args = nil // on the shared interpreter: arity error on both sides, or skipped when there is no parameter
			}
			ops := []op{
				{kind: 'r', route: "deref", path: p},
				{kind: 'r', route: "arg", path: p},
				{kind: 'r', route: "callx", path: p, args: args},
				{kind: 'r', route: "ind", path: p, args: args},
				{kind: 'r', route: cmpRoutes[k%len(cmpRoutes)], path: p},
				{kind: 'r', route: cmpRoutes[(k+3)%len(cmpRoutes)], path: p},
				{kind: 'r', route: "defdot", path: p, z: 3100 + int64(k%7)},
				{kind: 'g', route: "let", path: p},
			}
			for cut := 1; cut < len(p); cut++ {
				ops = append(ops, op{kind: 'r', route: "hget", path: p[:cut], src2: p[cut:]})
			}
			for _, o := range ops {
				if mutates && len(t.fn.params) == 0 && (o.route == "callx" || o.route == "ind") {
					continue
				}
				runCase(out, w, env, []op{o}, tag...)
			}
		}
	}
}

// ---------- assignments whose right-hand side is itself a dot path ----------
// {T = S}, {T := S}, (set T S), (= T S) with T and S dot paths: S must be readable (a private S is
// refused and T keeps its value); then the VALUE of S is stored (never the symbol).
func assignFrom(out *lib.Out, rng *lib.Rng, all bool) {
	w := sysWorld(2, true)
	targets := [][]string{{"root", "Vi"}, {"root", "vi"}, {"root", "Hh", "A"}, {"root", "hh", "A"}, {"root", "pp", "Vi"},
		{"root", "Nn"}, {"root", "nn"}, {"root", "Pp", "Hh", "N", "D"}, {"al", "X0"}, {"hq", "P", "Vi"}}
	sources := [][]string{{"root", "vi"}, {"root", "Vi"}, {"root", "X0"}, {"root", "pp", "vi"}, {"root", "Pp", "_vi"}, {"root", "Hh", "b"},
		{"root", "hh", "A"}, {"root", "Nn"}, {"root", "nn"}, {"root", "pp"}, {"root", "Hh"}, {"root", "_hh"}, {"root", "GetLo"}, {"root", "getUp"},
		{"G9"}, {"root", "zz"}, {"al2", "vi"}, {"al2", "Vi"}, {"hq", "N", "P", "pp", "x1"}, {"hq", "N", "P", "pp", "X1"}}
	routes := []string{"from-infix", "from-set", "from-prefix", "from-infixdef"}
	k := 0
	for ti, t := range targets {
		for si, sp := range sources {
			k++
			if !all && (ti+si+int(rng.Intn(2)))%3 != 0 {
				continue
			}
			r := routes[k%len(routes)]
			ops := []op{{kind: 'f', route: r, path: t, src2: sp},
				{kind: 'g', route: "let", path: t},
				{kind: 'g', route: "rhsdef", path: sp}}
			if getter := map[string]string{"vi": "GetLo", "Vi": "getUp", "nn": "GetNilLo"}[t[len(t)-1]]; getter != "" {
				ops = append(ops, op{kind: 'c', route: "call", path: append(append([]string{}, t[:len(t)-1]...), getter)})
			}
			runCase(out, w, nil, ops, "assign-from", "route:"+r)
		}
	}
}

// ---------- name collisions between the caller's side and members reached from inside ----------
// A package whose functions reach its own (private or public) hash / nested package through a dot
// path -- read, write, call -- while the caller's side binds the SAME head name: a global defined
// before or after the package, and/or a parameter of the function that makes the call.
func collisions(out *lib.Out, rng *lib.Rng, all bool) {
	heads := []string{"cfg", "Cfg", "_cfg", "éa"}
	inners := []string{"inner", "Inner", "_in", "ωm"}
	k := 0
	for hi, hd := range heads {
		for _, glob := range []string{"none", "before", "after"} {
			for _, via := range []bool{false, true} {
				k++
				if !all && (k+int(rng.Intn(3)))%2 == 0 && !(glob == "after" && hi == 0) {
					continue
				}
				in := inners[(hi+k)%len(inners)]
				pk := dP("pk",
					m(hd, dH(m("a", dI(11)), m("B", dI(12)), m("n", dH(m("D", dI(13)))))),
					m(in, dP("pin", m("Level", dI(21)), m("low", dI(22)),
						m("Bump", dF([]string{"v"}, body{kind: 'S', name: "Level"})),
						m("GetLow", dF(nil, body{kind: 'G', name: "low"})))),
					m("GetA", dF(nil, body{kind: 'D', path: []string{hd, "a"}})),
					m("GetD", dF(nil, body{kind: 'D', path: []string{hd, "n", "D"}})),
					m("SetB", dF([]string{"v"}, body{kind: 'W', path: []string{hd, "B"}})),
					m("GetB", dF(nil, body{kind: 'D', path: []string{hd, "B"}})),
					m("GetLevel", dF(nil, body{kind: 'D', path: []string{in, "Level"}})),
					m("ReadLow", dF(nil, body{kind: 'D', path: []string{in, "low"}})),
					m("SetLevel", dF([]string{"v"}, body{kind: 'W', path: []string{in, "Level"}})),
					m("SetLow", dF([]string{"v"}, body{kind: 'W', path: []string{in, "low"}})),
					m("DoBump", dF(nil, body{kind: 'C', path: []string{in, "Bump"}, cargs: []int64{31}})),
					m("GetLow", dF(nil, body{kind: 'C', path: []string{in, "GetLow"}})),
					m("Bump", dF([]string{"v"}, body{kind: 'C', path: []string{in, "Bump"}, cargs: []int64{32}})),
				)
				// the outsider's look-alikes
				oh := dH(m("a", dI(91)), m("B", dI(92)), m("n", dH(m("D", dI(93)))))
				op2 := dP("pout", m("Level", dI(81)), m("low", dI(82)),
					m("Bump", dF([]string{"v"}, body{kind: 'S', name: "Level"})),
					m("GetLow", dF(nil, body{kind: 'G', name: "low"})))
				w := &world{}
				w.defs = append(w.defs, m("oh", oh), m("opk", op2))
				if glob == "before" {
					w.defs = append(w.defs, m(hd, dR("oh")), m(in, dR("opk")))
				}
				w.defs = append(w.defs, m("pk", pk))
				if glob == "after" {
					w.defs = append(w.defs, m(hd, dR("oh")), m(in, dR("opk")))
				}
				call := func(fn string, param, argsym string, args ...int64) op {
					if via {
						o := op{kind: 'v', route: "call-via", path: []string{"pk", fn}, args: args, param: param, argsym: argsym}
						if len(args) == 1 {
							o.wname, o.route = fn, "call-via-samename" // the caller carries the member's own name
						}
						return o
					}
					return op{kind: 'c', route: "call", path: []string{"pk", fn}, args: args}
				}
				seqs := [][]op{
					{call("GetA", hd, "oh"), call("GetD", hd, "oh"), call("SetB", hd, "oh", 41), call("GetB", hd, "oh"),
						{kind: 'g', route: "let", path: []string{"oh", "B"}}, {kind: 'g', route: "rhsdef", path: []string{"oh"}}},
					{call("GetLevel", in, "opk"), call("ReadLow", in, "opk"), call("SetLevel", in, "opk", 42), call("GetLevel", in, "opk"),
						call("SetLow", in, "opk", 43), {kind: 'g', route: "let", path: []string{"opk", "Level"}},
						{kind: 'c', route: "call", path: []string{"opk", "GetLow"}}},
					{call("DoBump", in, "opk"), call("GetLevel", in, "opk"), call("GetLow", in, "opk"), call("Bump", in, "opk", 5), call("GetLevel", in, "opk"),
						{kind: 'g', route: "let", path: []string{"opk", "Level"}}, {kind: 'g', route: "let", path: []string{"pk", in, "Level"}}},
				}
				for _, ops := range seqs {
					runCase(out, w, nil, ops, "collision", "glob:"+glob, fmt.Sprintf("via:%v", via), "head:"+classOf(hd))
				}
			}
		}
	}
}

// ---------- random worlds ----------
var poolU = []string{"Pub", "A", "B", "Q", "Éa", "Ωm", "Vi", "Z9"}
var poolL = []string{"priv", "a", "b", "q", "éa", "ωm", "vi", "z9"}
var poolN = []string{"_u", "_U", "中x", "ǅz", "_A", "__"}

func pick(rng *lib.Rng) string {
	switch rng.Intn(5) {
	case 0, 1:
		return poolU[rng.Intn(len(poolU))]
	case 2, 3:
		return poolL[rng.Intn(len(poolL))]
	}
	return poolN[rng.Intn(len(poolN))]
}

type scopeInfo struct {
	names []string // names visible (own and enclosing), for bodies and fall-through
}

func randHash(rng *lib.Rng, depth int, pkgs []string) *decl {
	n := 1 + rng.Intn(3)
	var kvs []member
	seen := map[string]bool{}
	for i := 0; i < n; i++ {
		k := pick(rng)
		if seen[k] {
			continue
		}
		seen[k] = true
		switch {
		case depth < 2 && rng.Intn(3) == 0:
			kvs = append(kvs, m(k, randHash(rng, depth+1, pkgs)))
		case len(pkgs) > 0 && rng.Intn(4) == 0:
			kvs = append(kvs, m(k, dR(pkgs[rng.Intn(len(pkgs))])))
		default:
			kvs = append(kvs, m(k, dI(int64(rng.Intn(90)+1))))
		}
	}
	return dH(kvs...)
}

var pkgCounter int

func randPkg(rng *lib.Rng, level, maxDepth int, visible []string, globals []string) *decl {
	pkgCounter++
	pname := fmt.Sprintf("p%d", pkgCounter)
	if rng.Intn(4) == 0 {
		pname = pick(rng)
	}
	n := 2 + rng.Intn(5)
	var ms []member
	seen := map[string]bool{}
	own := []string{}
	for i := 0; i < n; i++ {
		k := pick(rng)
		if seen[k] {
			continue
		}
		seen[k] = true
		vis := append(append([]string{}, visible...), own...)
		switch x := rng.Intn(10); {
		case x < 3:
			if rng.Intn(4) == 0 {
				ms = append(ms, m(k, dZ()))
			} else {
				ms = append(ms, m(k, dI(int64(rng.Intn(900)+100))))
			}
		case x < 5:
			ms = append(ms, m(k, randHash(rng, 0, globals)))
		case x < 8:
			// a function over a visible name (or a missing one)
			tgt := pick(rng)
			if len(vis) > 0 && rng.Intn(5) != 0 {
				tgt = vis[rng.Intn(len(vis))]
			}
			switch rng.Intn(6) {
			case 3:
				ms = append(ms, m(k, dF(nil, body{kind: 'K', name: tgt})))
			case 0:
				ms = append(ms, m(k, dF([]string{"v"}, body{kind: 'S', name: tgt})))
			case 1:
				ms = append(ms, m(k, dF(nil, body{kind: 'D', path: []string{tgt, pick(rng)}})))
			case 4:
				ms = append(ms, m(k, dF([]string{"v"}, body{kind: 'W', path: []string{tgt, pick(rng)}})))
			case 5:
				last := pick(rng)
				var ps []string
				var cargs []int64
				if rng.Intn(2) == 0 {
					ps, cargs = []string{"v"}, []int64{int64(rng.Intn(50) + 600)}
				}
				if rng.Intn(2) == 0 && !seen[last] {
					// the facade carries the name of the member it calls
					delete(seen, k)
					k = last
					seen[k] = true
				}
				ms = append(ms, m(k, dF(ps, body{kind: 'C', path: []string{tgt, last}, cargs: cargs})))
			default:
				ms = append(ms, m(k, dF(nil, body{kind: 'G', name: tgt})))
			}
		default:
			if level < maxDepth-1 {
				ms = append(ms, m(k, randPkg(rng, level+1, maxDepth, vis, globals)))
			} else {
				ms = append(ms, m(k, dI(int64(rng.Intn(900)+100))))
			}
		}
		own = append(own, k)
	}
	if len(ms) == 0 {
		ms = append(ms, m("A", dI(1)))
	}
	return dP(pname, ms...)
}

// a random path through the world: follows the declarations most of the time, sometimes strays
func randPath(rng *lib.Rng, w *world) []string {
	root := w.defs[rng.Intn(len(w.defs))]
	p := []string{root.name}
	d := root.d
	for hop := 0; hop < 6; hop++ {
		if d.kind == 'R' {
			// follow the reference by name when it is a single global
			var nd *decl
			for _, g := range w.defs {
				if len(d.path) == 1 && g.name == d.path[0] {
					nd = g.d
				}
			}
			if nd == nil {
				break
			}
			d = nd
			continue
		}
		if d.kind != 'P' && d.kind != 'H' {
			if rng.Intn(8) == 0 {
				p = append(p, pick(rng))
			}
			break
		}
		if len(d.kvs) == 0 || rng.Intn(7) == 0 {
			p = append(p, pick(rng))
			if rng.Intn(2) == 0 {
				break
			}
			continue
		}
		kv := d.kvs[rng.Intn(len(d.kvs))]
		p = append(p, kv.name)
		d = kv.d
		if (d.kind == 'P' || d.kind == 'H') && rng.Intn(4) == 0 {
			break
		}
	}
	if len(p) < 2 {
		p = append(p, pick(rng))
	}
	return p
}

func lookupDecl(w *world, p []string) *decl {
	var d *decl
	for _, g := range w.defs {
		if g.name == p[0] {
			d = g.d
		}
	}
	for _, part := range p[1:] {
		if d == nil {
			return nil
		}
		for d.kind == 'R' && len(d.path) == 1 {
			var nd *decl
			for _, g := range w.defs {
				if g.name == d.path[0] {
					nd = g.d
				}
			}
			if nd == nil {
				return nil
			}
			d = nd
		}
		var nd *decl
		for _, kv := range d.kvs {
			if kv.name == part {
				nd = kv.d
			}
		}
		d = nd
	}
	return d
}

func randomWorlds(out *lib.Out, rng *lib.Rng, n, maxDepth int) {
	for i := 0; i < n; i++ {
		w := &world{}
		nroots := 1 + rng.Intn(2)
		var globals []string
		if rng.Intn(2) == 0 {
			g := pick(rng)
			w.defs = append(w.defs, m(g, dI(int64(rng.Intn(50)+900))))
		}
		for r := 0; r < nroots; r++ {
			name := fmt.Sprintf("r%d", r)
			w.defs = append(w.defs, m(name, randPkg(rng, 0, maxDepth, nil, globals)))
			globals = append(globals, name)
		}
		if rng.Intn(2) == 0 {
			w.defs = append(w.defs, m("al", dR(globals[rng.Intn(len(globals))])))
			globals = append(globals, "al")
		}
		if rng.Intn(2) == 0 {
			w.defs = append(w.defs, m("hx", randHash(rng, 0, globals)))
		}
		// a global defined AFTER the packages under the name of one of their members (the member must
		// keep shadowing it for code inside the package)
		var memberNames []string
		for _, d := range w.defs {
			if d.d.kind == 'P' {
				for _, kv := range d.d.kvs {
					memberNames = append(memberNames, kv.name)
				}
			}
		}
		if len(memberNames) > 0 && rng.Intn(3) == 0 {
			nm := memberNames[rng.Intn(len(memberNames))]
			taken := false
			for _, d := range w.defs {
				if d.name == nm {
					taken = true
				}
			}
			if !taken {
				if rng.Intn(2) == 0 {
					w.defs = append(w.defs, m(nm, randHash(rng, 0, nil)))
				} else {
					w.defs = append(w.defs, m(nm, dR(globals[rng.Intn(len(globals))])))
				}
			}
		}
		nops := 2 + rng.Intn(5)
		var ops []op
		usedWrapper := map[string]bool{}
		for k := 0; k < nops; k++ {
			p := randPath(rng, w)
			d := lookupDecl(w, p)
			switch x := rng.Intn(10); {
			case d != nil && d.kind == 'F' && x < 7:
				var args []int64
				for range d.params {
					args = append(args, int64(rng.Intn(50)+5000))
				}
				if len(memberNames) > 0 && rng.Intn(3) == 0 {
					o := op{kind: 'v', route: "call-via", path: p, args: args,
						param: memberNames[rng.Intn(len(memberNames))], argsym: w.defs[rng.Intn(len(w.defs))].name}
					last := p[len(p)-1]
					free := !usedWrapper[last]
					for _, g := range w.defs {
						if g.name == last {
							free = false
						}
					}
					if len(args) == 1 && free && rng.Intn(3) != 0 {
						// the calling function carries the member's own name (tail call, arity fits)
						o.wname, o.route = last, "call-via-samename"
						usedWrapper[last] = true
					}
					ops = append(ops, o)
				} else {
					ops = append(ops, op{kind: 'c', route: "call", path: p, args: args})
				}
			case x < 3:
				ops = append(ops, op{kind: 's', route: setRoutes[rng.Intn(len(setRoutes))], path: p, z: int64(rng.Intn(50) + 7000)})
				ops = append(ops, op{kind: 'g', route: "let", path: p})
			case x == 3 || x == 4:
				// the right-hand side is a dot path as well
				q := randPath(rng, w)
				ops = append(ops, op{kind: 'f', route: fromRoutes[rng.Intn(len(fromRoutes))], path: p, src2: q})
				ops = append(ops, op{kind: 'g', route: "let", path: p})
			case x == 5 || x == 6:
				switch y := rng.Intn(7); y {
				case 0:
					ops = append(ops, op{kind: 'r', route: "deref", path: p})
				case 1:
					ops = append(ops, op{kind: 'r', route: "arg", path: p})
				case 2, 3:
					var args []int64
					if d != nil && d.kind == 'F' {
						for range d.params {
							args = append(args, int64(rng.Intn(50)+5100))
						}
					} else if rng.Intn(3) == 0 {
						args = []int64{6}
					}
					ops = append(ops, op{kind: 'r', route: []string{"callx", "ind"}[y-2], path: p, args: args})
				case 4:
					ops = append(ops, op{kind: 'r', route: cmpRoutes[rng.Intn(len(cmpRoutes))], path: p})
				case 5:
					ops = append(ops, op{kind: 'r', route: "defdot", path: p, z: int64(rng.Intn(50) + 3200)})
				default:
					if len(p) >= 2 {
						cut := 1 + rng.Intn(len(p)-1)
						ops = append(ops, op{kind: 'r', route: "hget", path: p[:cut], src2: p[cut:]})
					}
				}
				if len(p) < 2 {
					ops = ops[:len(ops)-1] // the routes are about dot paths
					ops = append(ops, op{kind: 'g', route: "let", path: p})
				}
			default:
				ops = append(ops, op{kind: 'g', route: getRoutes[rng.Intn(len(getRoutes))], path: p})
			}
		}
		runCase(out, w, nil, ops, "random")
	}
}

func main() {
	a := lib.ParseArgs()
	if pf := os.Getenv("C18_PROF"); pf != "" {
		f, _ := os.Create(pf)
		pprof.StartCPUProfile(f)
		defer pprof.StopCPUProfile()
	}
	out := lib.NewOut(a.Out)
	out.Rule = "systematic world: full tree of packages nested to the depth bound under upper/lower/non-letter names, each with int, hash (nested hashes), function (getter/setter/dot-path bodies) and package members of every first-rune class, aliases (plain, through a dot path, held by hashes at depth 1..3); every member path x every read route, every function called, assignments (infix, prefix =, set) on a fresh interpreter followed by reads from inside and outside; then random worlds (names incl. non-ASCII upper/lower/title-case/non-letter) with random op sequences; a case is one op sequence on one world, distinct = distinct encoded (world, ops)"
	rng := lib.NewRng(a.Seed)
	if a.Replay != "" {
		replay(out, a.Replay)
		out.Close(a.Stats)
		return
	}
	depth, nrand, frac, frac2 := 3, 800, 30, 4
	if a.Tier == "thorough" {
		depth, nrand, frac, frac2 = 4, 20000, 16, 1
	}
	t0 := time.Now()
	// every member path x every read route, every call: one interpreter, full world
	systematic(out, depth, rng, 0, true, false)
	fmt.Fprintln(os.Stderr, "systematic reads", depth, time.Since(t0))
	// assignments need a fresh interpreter per case: lean worlds (building a world costs the
	// interpreter time quadratic in its size: every closure creation renders the scope stack)
	systematic(out, depth-1, rng, frac2, false, true)
	systematic(out, depth, rng, frac, false, true)
	fmt.Fprintln(os.Stderr, "systematic sets", time.Since(t0))
	assignFrom(out, rng, a.Tier == "thorough")
	fmt.Fprintln(os.Stderr, "assign-from", time.Since(t0))
	collisions(out, rng, a.Tier == "thorough")
	fmt.Fprintln(os.Stderr, "collisions", time.Since(t0))
	routes(out, rng, depth-1, a.Tier == "thorough")
	fmt.Fprintln(os.Stderr, "routes", time.Since(t0))
	randomWorlds(out, rng, nrand, depth)
	fmt.Fprintln(os.Stderr, "random", time.Since(t0))
	out.Extra["nesting_depth"] = depth
	out.Extra["random_worlds"] = nrand
	out.Close(a.Stats)
}

// replay: the file holds {"source": [texts...]} or plain lines of zygo source; evaluate and print observables
func replay(out *lib.Out, path string) {
	data, err := os.ReadFile(path)
	if err != nil {
		fmt.Fprintln(os.Stderr, err)
		os.Exit(2)
	}
	txt := string(data)
	// the replay json written by checks/c18.py carries the texts in its "source" field
	var obj map[string]interface{}
	if json.Unmarshal(data, &obj) == nil {
		if src, ok := obj["source"].(string); ok {
			txt = src
		}
	}
	env := zygo.NewZlisp()
	env.StandardSetup()
	for _, s := range strings.Split(txt, " ;; ") {
		s = strings.TrimSpace(s)
		if s == "" {
			continue
		}
		r := lib.Eval(env, s, 2000000)
		obs := ""
		switch r.Class {
		case lib.OutValue:
			obs = render(env, r.Val, 0)
		case lib.OutError:
			obs = classify(r.Err) + "  (" + r.Show() + ")"
		default:
			obs = r.Show()
		}
		fmt.Printf("%s\n    => %s\n", s, obs)
	}
}
