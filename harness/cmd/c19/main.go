// c19: symbols are interned consistently across interpreters sharing a table.
// Runs histories of MakeSymbol / GenSymbol / Duplicate / Clone over a family of REAL
// interpreters (Go API route) and of (str2sym ..) / (quote ..) read / (gensym) / (gensym p) /
// macro-expansion gensym (script route), and prints per history the symbols returned
// (name/number), the members' counters, the growth of the table, whether the real tables
// are inverse of each other, and the equality / hash-lookup matrix of the returned symbols.
//
// case INPUT:  route=R;c=C0,C1,..;pre=NAME:NUM,..;ops=<model ops>;act=<actions>
//
//	c    counters of the members at the start of the history
//	pre  the part of the real table the history can read: entries whose number is >= the
//	     smallest counter, whose name is a name used by the history or starts with one of its prefixes
//	ops  M<i>:<name> G<i>:<prefix> D<i> C<i>   (what the Coq model runs)
//	act  what was really done (replayable): M/G/D/C as above for the API route; script route:
//	     S<i>:<name> (str2sym) R<i>:<name> (quote name, read by the shared parser) g<i> (gensym)
//	     G<i>:<p> (gensym "p") m<i> (macro expanding to a fresh gensym) D<i> C<i>
package main

import (
	"encoding/json"
	"fmt"
	"os"
	"runtime"
	"sort"
	"strconv"
	"strings"
	"sync"
	"unicode"
	"unicode/utf8"

	"github.com/glycerine/zygomys/v9/zygo"
	"verif/harness/lib"
)

func encName(s string) string {
	var b strings.Builder
	for i := 0; i < len(s); i++ {
		c := s[i]
		if (c >= '0' && c <= '9') || (c >= 'A' && c <= 'Z') || (c >= 'a' && c <= 'z') || c == '_' {
			b.WriteByte(c)
		} else {
			fmt.Fprintf(&b, "~%02x", c)
		}
	}
	return b.String()
}

func decName(s string) string {
	var b strings.Builder
	for i := 0; i < len(s); i++ {
		if s[i] == '~' && i+2 < len(s) {
			v, _ := strconv.ParseUint(s[i+1:i+3], 16, 8)
			b.WriteByte(byte(v))
			i += 2
		} else {
			b.WriteByte(s[i])
		}
	}
	return b.String()
}

// one action of a history
type action struct {
	kind byte // API: M G D C ; script: S R g G m D C
	i    int  // real member index
	arg  string
}

func (a action) String() string {
	switch a.kind {
	case 'D', 'C', 'g', 'm':
		return fmt.Sprintf("%c%d", a.kind, a.i)
	}
	return fmt.Sprintf("%c%d:%s", a.kind, a.i, encName(a.arg))
}

func parseActions(s string) []action {
	var as []action
	if s == "" {
		return as
	}
	for _, f := range strings.Split(s, ",") {
		a := action{kind: f[0]}
		rest := f[1:]
		if k := strings.IndexByte(rest, ':'); k >= 0 {
			a.arg = decName(rest[k+1:])
			rest = rest[:k]
		}
		a.i, _ = strconv.Atoi(rest)
		as = append(as, a)
	}
	return as
}

var emptyFuncs = map[string]zygo.ZlispUserFunction{}

const macroSetup = `(defmac mgs [] ^(quote ~(gensym)))`

// family of real interpreters; model index of each real member (macro expansion creates
// an internal duplicate that takes a slot in the model's family)
type family struct {
	envs   []*zygo.Zlisp
	midx   []int
	nmodel int
	script bool
}

func newFamily(script bool) *family {
	var root *zygo.Zlisp
	if script {
		root = zygo.NewZlisp()
		root.StandardSetup()
		if r := lib.Eval(root, macroSetup, 100000); r.Class != lib.OutValue {
			panic("macro setup failed: " + r.Show())
		}
	} else {
		root = zygo.NewZlispWithFuncs(emptyFuncs)
	}
	return &family{envs: []*zygo.Zlisp{root}, midx: []int{0}, nmodel: 1, script: script}
}

func (f *family) add(e *zygo.Zlisp) {
	f.envs = append(f.envs, e)
	f.midx = append(f.midx, f.nmodel)
	f.nmodel++
}

type symres struct {
	ok   bool
	name string
	num  int
	sx   zygo.Sexp
	text string // when not a symbol
}

func symOf(v zygo.Sexp) symres {
	if s, ok := v.(*zygo.SexpSymbol); ok && s != nil {
		return symres{ok: true, name: s.Name(), num: s.Number(), sx: s}
	}
	return symres{text: "NOTSYM"}
}

func evalSym(env *zygo.Zlisp, src string) symres {
	r := lib.Eval(env, src, 200000)
	switch r.Class {
	case lib.OutValue:
		return symOf(r.Val)
	case lib.OutError:
		return symres{text: "ERR"}
	case lib.OutPanic:
		return symres{text: "PANIC"}
	}
	return symres{text: strings.ToUpper(r.Class)}
}

func safe(f func() symres) (res symres) {
	defer func() {
		if r := recover(); r != nil {
			res = symres{text: "PANIC"}
		}
	}()
	return f()
}

// runHistory executes the actions on a fresh family and returns INPUT, IMPL, number of symbols.
func runHistory(route string, prologue []action, acts []action) (string, string, bool) {
	script := route == "script" // route "apix" = API route with the extended equality observables
	fam := newFamily(script)
	// prologue: family members that exist before the history starts
	for _, a := range prologue {
		switch a.kind {
		case 'D':
			fam.add(fam.envs[a.i].Duplicate())
		case 'C':
			fam.add(fam.envs[a.i].Clone())
		case 'M':
			fam.envs[a.i].MakeSymbol(a.arg)
		}
	}
	root := fam.envs[0]
	// initial state as the model needs it
	var counters []string
	minc := int(^uint(0) >> 1)
	for _, e := range fam.envs {
		c := e.VerifNextSymbol()
		counters = append(counters, strconv.Itoa(c))
		if c < minc {
			minc = c
		}
	}
	names := map[string]bool{}
	var prefixes []string
	for _, a := range acts {
		switch a.kind {
		case 'M', 'S', 'R':
			names[a.arg] = true
		case 'G':
			prefixes = append(prefixes, a.arg)
		case 'g', 'm':
			prefixes = append(prefixes, "__gensym")
		}
	}
	size0 := root.VerifSymtableSize()
	var pre []string
	root.VerifSymtableEach(func(nm string, num int) {
		keep := num >= minc || names[nm]
		if !keep {
			for _, p := range prefixes {
				if strings.HasPrefix(nm, p) {
					keep = true
					break
				}
			}
		}
		if keep {
			pre = append(pre, encName(nm)+":"+strconv.Itoa(num))
		}
	})
	sort.Strings(pre)

	var mops, astr, outs []string
	var syms []symres
	for _, a := range acts {
		astr = append(astr, a.String())
		if a.i < 0 || a.i >= len(fam.envs) {
			// never generated; keeps replay of a hand-edited file from crashing
			mops = append(mops, fmt.Sprintf("D%d", 9999))
			outs = append(outs, "BADMEMBER")
			continue
		}
		env := fam.envs[a.i]
		mi := fam.midx[a.i]
		var r symres
		isSym := true
		switch a.kind {
		case 'M':
			mops = append(mops, fmt.Sprintf("M%d:%s", mi, encName(a.arg)))
			r = safe(func() symres { return symOf(env.MakeSymbol(a.arg)) })
		case 'G':
			mops = append(mops, fmt.Sprintf("G%d:%s", mi, encName(a.arg)))
			if script {
				r = evalSym(env, `(gensym "`+a.arg+`")`)
			} else {
				r = safe(func() symres { return symOf(env.GenSymbol(a.arg)) })
			}
		case 'S':
			mops = append(mops, fmt.Sprintf("M%d:%s", mi, encName(a.arg)))
			r = evalSym(env, `(str2sym "`+a.arg+`")`)
		case 'R':
			// the parser is shared by the whole family and interns through the root
			mops = append(mops, fmt.Sprintf("M%d:%s", 0, encName(a.arg)))
			r = evalSym(env, `(quote `+a.arg+`)`)
		case 'g':
			mops = append(mops, fmt.Sprintf("G%d:__gensym", mi))
			r = evalSym(env, `(gensym)`)
		case 'm':
			// macro expansion runs in an internal Duplicate() of the member (generator.go)
			mops = append(mops, fmt.Sprintf("D%d", mi), fmt.Sprintf("G%d:__gensym", fam.nmodel))
			fam.nmodel++
			r = evalSym(env, `(mgs)`)
			outs = append(outs, "-")
		case 'D':
			mops = append(mops, fmt.Sprintf("D%d", mi))
			fam.add(env.Duplicate())
			isSym = false
		case 'C':
			mops = append(mops, fmt.Sprintf("C%d", mi))
			fam.add(env.Clone())
			isSym = false
		}
		if !isSym {
			outs = append(outs, "-")
			continue
		}
		if r.ok {
			outs = append(outs, encName(r.name)+"/"+strconv.Itoa(r.num))
			syms = append(syms, r)
		} else {
			outs = append(outs, r.text)
		}
	}
	// final observations (before anything else is interned)
	var nexts []string
	next := make([]int, fam.nmodel)
	have := make([]bool, fam.nmodel)
	for k, e := range fam.envs {
		next[fam.midx[k]] = e.VerifNextSymbol()
		have[fam.midx[k]] = true
	}
	for k := 0; k < fam.nmodel; k++ {
		if have[k] {
			nexts = append(nexts, strconv.Itoa(next[k]))
		} else {
			nexts = append(nexts, "?") // internal duplicate of a macro expansion: not observable
		}
	}
	inv := "ok"
	if d := root.VerifTablesInverse(); d != "" {
		inv = "BROKEN"
	}
	for _, e := range fam.envs {
		if !e.VerifSharesTables(root) {
			inv = "NOTSHARED"
		}
	}
	size1 := root.VerifSymtableSize()
	nsyms := len(syms)
	syms = selectSyms(syms)
	eq, hash := equalities(fam, syms, script)
	impl := strings.Join(outs, ",") + "|next=" + strings.Join(nexts, ",") + "|size=+" + strconv.Itoa(size1-size0) +
		"|inv=" + inv + "|eq=" + eq + "|hash=" + hash
	if route != "api" {
		impl += extended(fam, syms, script)
	}
	var pro []string
	for _, a := range prologue {
		pro = append(pro, a.String())
	}
	input := "route=" + route + ";c=" + strings.Join(counters, ",") + ";pre=" + strings.Join(pre, ",") +
		";ops=" + strings.Join(mops, ",") + ";act=" + strings.Join(astr, ",") + ";pro=" + strings.Join(pro, ",")
	return input, impl, nsyms >= 2
}

// selectSyms: the equality observables of a long history are taken over its first 8 and last 32
// returned symbols (the model runner applies the same rule); every answer is still judged by the
// specification, whatever the length
func selectSyms(syms []symres) []symres {
	if len(syms) <= 40 {
		return syms
	}
	sel := append([]symres{}, syms[:8]...)
	return append(sel, syms[len(syms)-32:]...)
}

// extended equality observables (routes apix and script): for the pairs i<j of returned symbols,
// (!= a b), equality of the one-element lists and of the one-element arrays holding them, all
// decided by the interpreter's own comparison
func extended(fam *family, syms []symres, script bool) string {
	n := len(syms)
	if n < 2 {
		return "|ne=|leq=|aeq="
	}
	env := fam.envs[len(fam.envs)-1]
	var ne, leq, aeq strings.Builder
	bit := func(b *strings.Builder, c int, err error, wantZero bool) {
		switch {
		case err != nil:
			b.WriteByte('E')
		case (c == 0) == wantZero:
			b.WriteByte('1')
		default:
			b.WriteByte('0')
		}
	}
	if !script {
		for i := 0; i < n; i++ {
			for j := i + 1; j < n; j++ {
				c, err := env.Compare(syms[j].sx, syms[i].sx) // the other operand order
				bit(&ne, c, err, false)
				c, err = env.Compare(zygo.MakeList([]zygo.Sexp{syms[i].sx}), zygo.MakeList([]zygo.Sexp{syms[j].sx}))
				bit(&leq, c, err, true)
				c, err = env.Compare(&zygo.SexpArray{Val: []zygo.Sexp{syms[i].sx}, Env: env}, &zygo.SexpArray{Val: []zygo.Sexp{syms[j].sx}, Env: env})
				bit(&aeq, c, err, true)
			}
		}
		return "|ne=" + ne.String() + "|leq=" + leq.String() + "|aeq=" + aeq.String()
	}
	// script route: the globals zs<i> were bound by equalities()
	run := func(form string, b *strings.Builder) {
		var src strings.Builder
		src.WriteString("[")
		for i := 0; i < n; i++ {
			for j := i + 1; j < n; j++ {
				fmt.Fprintf(&src, form+" ", i, j)
			}
		}
		src.WriteString("]")
		r := lib.Eval(env, src.String(), 4000000)
		arr, ok := r.Val.(*zygo.SexpArray)
		if r.Class != lib.OutValue || !ok {
			b.WriteString("ERR")
			return
		}
		for _, v := range arr.Val {
			if bv, ok := v.(*zygo.SexpBool); ok {
				if bv.Val {
					b.WriteByte('1')
				} else {
					b.WriteByte('0')
				}
			} else {
				b.WriteByte('E')
			}
		}
	}
	run("(!= zs%d zs%d)", &ne)
	run("(== (list zs%d) (list zs%d))", &leq)
	run("(== [zs%d] [zs%d])", &aeq)
	return "|ne=" + ne.String() + "|leq=" + leq.String() + "|aeq=" + aeq.String()
}

// equalities of the returned symbols: pairs i<j equal?; hash keyed by the symbols in order, then looked up
func equalities(fam *family, syms []symres, script bool) (string, string) {
	n := len(syms)
	if n == 0 {
		return "", ""
	}
	var eq strings.Builder
	var hs []string
	if !script {
		env := fam.envs[len(fam.envs)-1]
		for i := 0; i < n; i++ {
			for j := i + 1; j < n; j++ {
				c, err := env.Compare(syms[i].sx, syms[j].sx)
				switch {
				case err != nil:
					eq.WriteByte('E')
				case c == 0:
					eq.WriteByte('1')
				default:
					eq.WriteByte('0')
				}
			}
		}
		h, err := zygo.MakeHash([]zygo.Sexp{}, "hash", env)
		if err != nil {
			return eq.String(), "ERR"
		}
		for i := 0; i < n; i++ {
			if err := h.HashSet(syms[i].sx, &zygo.SexpInt{Val: int64(i)}); err != nil {
				return eq.String(), "ERR"
			}
		}
		for j := 0; j < n; j++ {
			v, err := h.HashGet(env, syms[j].sx)
			if iv, ok := v.(*zygo.SexpInt); ok && err == nil {
				hs = append(hs, strconv.FormatInt(iv.Val, 10))
			} else {
				hs = append(hs, "-1")
			}
		}
		return eq.String(), strings.Join(hs, ",")
	}
	// script level, evaluated in the last member of the family
	env := fam.envs[len(fam.envs)-1]
	for i := 0; i < n; i++ {
		env.AddGlobal(fmt.Sprintf("zs%d", i), syms[i].sx)
	}
	var src strings.Builder
	src.WriteString("[")
	for i := 0; i < n; i++ {
		for j := i + 1; j < n; j++ {
			fmt.Fprintf(&src, "(== zs%d zs%d) ", i, j)
		}
	}
	src.WriteString("]")
	if n == 1 {
		// no pairs
	} else {
		r := lib.Eval(env, src.String(), 1000000)
		arr, ok := r.Val.(*zygo.SexpArray)
		if r.Class != lib.OutValue || !ok {
			eq.WriteString("ERR")
		} else {
			for _, v := range arr.Val {
				if b, ok := v.(*zygo.SexpBool); ok {
					if b.Val {
						eq.WriteByte('1')
					} else {
						eq.WriteByte('0')
					}
				} else {
					eq.WriteByte('E')
				}
			}
		}
	}
	src.Reset()
	src.WriteString("(begin (def zhh (hash)) ")
	for i := 0; i < n; i++ {
		fmt.Fprintf(&src, "(hset zhh zs%d %d) ", i, i)
	}
	src.WriteString("[")
	for j := 0; j < n; j++ {
		fmt.Fprintf(&src, "(hget zhh zs%d -1) ", j)
	}
	src.WriteString("])")
	r := lib.Eval(env, src.String(), 1000000)
	arr, ok := r.Val.(*zygo.SexpArray)
	if r.Class != lib.OutValue || !ok {
		return eq.String(), "ERR"
	}
	for _, v := range arr.Val {
		if iv, ok := v.(*zygo.SexpInt); ok {
			hs = append(hs, strconv.FormatInt(iv.Val, 10))
		} else {
			hs = append(hs, "E")
		}
	}
	return eq.String(), strings.Join(hs, ",")
}

// ---------- generation ----------

// exhaustive: every sequence of exactly `depth` structurally valid actions
func enumerate(depth, members, maxMembers int, pool, prefixes []string, cur []action, emit func([]action)) {
	if depth == 0 {
		emit(cur)
		return
	}
	for i := 0; i < members; i++ {
		for _, nm := range pool {
			enumerate(depth-1, members, maxMembers, pool, prefixes, append(cur, action{'M', i, nm}), emit)
		}
		for _, p := range prefixes {
			enumerate(depth-1, members, maxMembers, pool, prefixes, append(cur, action{'G', i, p}), emit)
		}
		if members < maxMembers {
			enumerate(depth-1, members+1, maxMembers, pool, prefixes, append(cur, action{'D', i, ""}), emit)
			enumerate(depth-1, members+1, maxMembers, pool, prefixes, append(cur, action{'C', i, ""}), emit)
		}
	}
}

// ---------- near-equal names ----------
// groups of DIFFERENT names that a coarser relation than string identity would merge: letter case
// (ASCII, Unicode simple folding incl. the Kelvin sign and the long s), leading/trailing characters,
// prefixes, Unicode normalisation forms, numeric spellings, sigils and dots.
var nearGroups = [][]string{
	{"abc", "Abc", "ABC", "aBc"},
	{"__gensym7", "__GENSYM7", "__Gensym7", "__gensym07"},
	{"\u00e9", "\u00c9", "e\u0301", "E\u0301", "e"}, // é É e+combining acute
	{"k", "K", "\u212a"},                            // Kelvin sign folds to k
	{"s", "S", "\u017f"},                            // long s folds to s
	{"\u00df", "\u1e9e", "ss", "SS"},                // sharp s
	{"\u03c3", "\u03c2", "\u03a3"},                  // sigma, final sigma, capital sigma
	{"\u0131", "i", "I", "\u0130"},                  // dotless / dotted i
	{"straße", "STRASSE", "strasse"},
	{"abc", "abc ", " abc", "abc\x00", "abc\t", "abc\n"},
	{"abc", "ab", "abcd", "abd", "bbc"},
	{"a", "a.", ".a", "a:", "#a", "?a", "a#"},
	{"7", "07", "7.0", "+7", "7 "},
	{"x-y", "x_y", "xy", "x--y"},
	{"\uff41", "a", "\uff21", "A"}, // full-width a / A
	{"\u2126", "\u03a9", "\u03c9"}, // Ohm sign, Omega, omega
	{"", " ", "\x00"},
	{"nan", "NaN", "NAN", "Nan"},
	{"car", "Car", "CAR", "car "},
}

func swapCase(s string) string {
	rs := []rune(s)
	for i, r := range rs {
		if unicode.IsUpper(r) {
			rs[i] = unicode.ToLower(r)
		} else if unicode.IsLower(r) {
			rs[i] = unicode.ToUpper(r)
		}
	}
	return string(rs)
}

// mutate returns a name that is close to, but (almost always) different from, nm
func mutate(nm string, r *lib.Rng, scriptSafe bool) string {
	k := r.Intn(10)
	if scriptSafe && k >= 4 {
		k = r.Intn(4)
	}
	switch k {
	case 0:
		return strings.ToUpper(nm)
	case 1:
		return swapCase(nm)
	case 2:
		rs := []rune(nm)
		if len(rs) > 0 {
			i := r.Intn(len(rs))
			rs[i] = []rune(swapCase(string(rs[i])))[0]
		}
		return string(rs)
	case 3:
		return strings.ToLower(nm)
	case 4:
		return nm + " "
	case 5:
		return " " + nm
	case 6:
		return nm + "\x00"
	case 7:
		if len(nm) > 1 {
			return nm[:len(nm)-1]
		}
		return nm + nm
	case 8:
		return strings.Replace(nm, "e", "e\u0301", 1)
	}
	return strings.NewReplacer("k", "\u212a", "s", "\u017f", "K", "\u212a", "S", "\u017f").Replace(nm)
}

func lexableSymbol(nm string) bool {
	switch nm {
	case "", "nan", "NaN", "inf", "Inf", "true", "false", "nil", "null":
		return false // the reader turns these atoms into numbers / booleans / the null value, not symbols
	}
	for i := 0; i < len(nm); i++ {
		c := nm[i]
		if !((c >= '0' && c <= '9' && i > 0) || (c >= 'A' && c <= 'Z') || (c >= 'a' && c <= 'z') || c == '_') {
			return false
		}
	}
	return true
}

func strLiteralSafe(nm string) bool {
	return !strings.ContainsAny(nm, "\"\\\n\r\x00\t") && utf8.ValidString(nm)
}

func main() {
	a := lib.ParseArgs()
	out := lib.NewOut(a.Out)
	out.Rule = "API route: every history of exactly D actions (MakeSymbol over a name pool with names shaped like generated symbols, GenSymbol, Duplicate, Clone) over a family growing from 1 to 3 members, and every history of D-1 actions over a ready 3-member family (root, Duplicate, Clone), each on a fresh family of real interpreters; then random long histories (up to 6 members, counters-relative shaped names); script route: random histories of str2sym / quoted read / gensym / gensym with prefix / macro-expanded gensym / Duplicate / Clone on fully set-up interpreters with (== a b) and hash lookups evaluated by the interpreter. A history is non-trivial when it returns at least two symbols; distinct = distinct histories"

	// histories are independent (each runs on its own fresh family): the API route is run by a
	// pool of workers, the script route sequentially (the step budget of lib.Eval is global);
	// the cases are written in generation order.
	type task struct {
		route     string
		pro, acts []action
		tags      []string
		input     string
		impl      string
		nontriv   bool
	}
	var pending []*task
	flush := func() {
		var wg sync.WaitGroup
		ch := make(chan *task, 256)
		for w := 0; w < runtime.NumCPU(); w++ {
			wg.Add(1)
			go func() {
				defer wg.Done()
				for t := range ch {
					t.input, t.impl, t.nontriv = runHistory(t.route, t.pro, t.acts)
				}
			}()
		}
		for _, t := range pending {
			if t.route != "script" {
				ch <- t
			}
		}
		close(ch)
		wg.Wait()
		for _, t := range pending {
			if t.route == "script" {
				t.input, t.impl, t.nontriv = runHistory(t.route, t.pro, t.acts)
			}
			out.Case(t.input, t.impl, t.nontriv, t.tags...)
		}
		pending = pending[:0]
	}
	emitCase := func(route string, pro, acts []action, tags ...string) {
		cp := make([]action, len(acts))
		copy(cp, acts)
		pending = append(pending, &task{route: route, pro: pro, acts: cp, tags: tags})
		if len(pending) >= 200000 {
			flush()
		}
	}

	if a.Replay != "" {
		// replay file: JSON with an "input" field (a case INPUT)
		b, err := os.ReadFile(a.Replay)
		if err != nil {
			fmt.Fprintln(os.Stderr, err)
			os.Exit(2)
		}
		var obj map[string]interface{}
		inputs := []string{}
		if json.Unmarshal(b, &obj) == nil {
			if s, ok := obj["input"].(string); ok {
				inputs = append(inputs, s)
			}
		} else {
			for _, l := range strings.Split(string(b), "\n") {
				if strings.TrimSpace(l) != "" {
					inputs = append(inputs, strings.TrimSpace(l))
				}
			}
		}
		for _, in := range inputs {
			kv := map[string]string{}
			for _, f := range strings.Split(in, ";") {
				if k := strings.IndexByte(f, '='); k >= 0 {
					kv[f[:k]] = f[k+1:]
				}
			}
			emitCase(kv["route"], parseActions(kv["pro"]), parseActions(kv["act"]), "replay")
		}
		flush()
		out.Close(a.Stats)
		return
	}

	// the counter of a fresh small root, to shape names like generated symbols
	n0 := zygo.NewZlispWithFuncs(emptyFuncs).VerifNextSymbol()
	shaped := func(p string, d int) string { return p + strconv.Itoa(n0+d) }

	depth := 5
	if a.Tier == "thorough" {
		depth = 6
	}
	// A: family grows from the root
	poolA := []string{"a", shaped("g", 0), shaped("g", 1), shaped("g", 2)}
	cnt := 0
	enumerate(depth, 1, 3, poolA, []string{"g"}, nil, func(acts []action) {
		cnt++
		emitCase("api", nil, acts, "exhaustive:grow")
	})
	out.Extra["exhaustive_grow_depth"] = depth
	out.Extra["exhaustive_grow_histories"] = cnt
	// B: ready 3-member family, one more name
	proB := []action{{'D', 0, ""}, {'C', 0, ""}}
	poolB := []string{"a", "b", shaped("g", 0), shaped("g", 1)}
	if a.Tier == "thorough" {
		poolB = append(poolB, shaped("g", 2))
	}
	cnt = 0
	enumerate(depth-1, 3, 3, poolB, []string{"g"}, nil, func(acts []action) {
		cnt++
		emitCase("api", proB, acts, "exhaustive:three")
	})
	out.Extra["exhaustive_three_depth"] = depth - 1
	out.Extra["exhaustive_three_histories"] = cnt
	// B2: a member whose counter lags (the root interned two names after the duplicates were made)
	proC := []action{{'D', 0, ""}, {'M', 0, "x"}, {'M', 0, "y"}, {'C', 0, ""}}
	poolC := []string{"a", shaped("g", 2), shaped("g", 3)}
	if a.Tier == "thorough" {
		poolC = append(poolC, shaped("g", 0))
	}
	cnt = 0
	enumerate(depth-1, 3, 3, poolC, []string{"g"}, nil, func(acts []action) {
		cnt++
		emitCase("api", proC, acts, "exhaustive:lagging")
	})
	out.Extra["exhaustive_lagging_depth"] = depth - 1
	out.Extra["exhaustive_lagging_histories"] = cnt

	// near-equal names (case variants, leading/trailing characters, case variants of generated names):
	// every history of a few actions over a ready 3-member family, extended equality observables
	proN := []action{{'D', 0, ""}, {'C', 0, ""}}
	poolN := []string{"abc", "Abc", "abc ", shaped("g", 0), shaped("G", 0)}
	dn := 3
	if a.Tier == "thorough" {
		dn = 4
	}
	cnt = 0
	enumerate(dn, 3, 3, poolN, []string{"g", "G"}, nil, func(acts []action) {
		cnt++
		emitCase("apix", proN, acts, "exhaustive:near")
	})
	out.Extra["exhaustive_near_depth"] = dn
	out.Extra["exhaustive_near_histories"] = cnt
	// battery: every group of near-equal names interned across the three members, twice, by the
	// Go API and at script level (str2sym / quoted read where the name allows it)
	for gi, g := range nearGroups {
		var api, scr []action
		for rep := 0; rep < 2; rep++ {
			for j, nm := range g {
				m := (j + rep + gi) % 3
				api = append(api, action{'M', m, nm})
				kind := byte('M')
				switch {
				case lexableSymbol(nm) && (j+rep)%2 == 0:
					kind = 'R'
				case strLiteralSafe(nm):
					kind = 'S'
				}
				scr = append(scr, action{kind, m, nm})
			}
		}
		emitCase("apix", proN, api, "near-battery:api")
		emitCase("script", nil, append([]action{{'D', 0, ""}, {'C', 0, ""}}, scr...), "near-battery:script")
	}
	// generated names against pre-interned case variants, at script level
	for _, p := range []string{"g", "G", "__gensym", "__GENSYM"} {
		q := swapCase(p)
		acts := []action{{'D', 0, ""}, {'S', 1, q + strconv.Itoa(scriptN0)}, {'S', 0, p + strconv.Itoa(scriptN0+2)},
			{'G', 0, p}, {'G', 1, q}, {'G', 1, p}, {'m', 0, ""}, {'G', 0, q}}
		emitCase("script", nil, acts, "near-battery:gensym")
	}

	// crowded tables: long runs of taken candidate names (GenSymbol's search) and of taken numbers
	// (MakeSymbol's search), longer than any plausible bound on the number of probes
	rep := func(n int, f func(j int) action) []action {
		var as []action
		for j := 0; j < n; j++ {
			as = append(as, f(j))
		}
		return as
	}
	runs := []int{70, 300, 1100}
	if a.Tier == "thorough" {
		runs = append(runs, 2100, 4200)
	}
	for _, n := range runs {
		n := n
		// a Duplicate made before the original generated n symbols, then it generates itself
		acts := append([]action{{'D', 0, ""}}, rep(n, func(int) action { return action{'G', 0, "g"} })...)
		acts = append(acts, action{'G', 1, "g"}, action{'G', 1, "g"}, action{'M', 1, "fresh"}, action{'G', 0, "g"}, action{'C', 1, ""}, action{'G', 2, "g"})
		emitCase("api", nil, acts, "crowded:stale-duplicate")
		// n names shaped like the next generated symbols were interned by scripts
		acts = rep(n, func(j int) action { return action{'M', 0, shaped("g", n+j)} })
		acts = append(acts, action{'G', 0, "g"}, action{'G', 0, "g"}, action{'D', 0, ""}, action{'G', 1, "g"})
		emitCase("api", nil, acts, "crowded:preinterned-names")
		// n numbers taken by the original after the Duplicate was made: MakeSymbol in the duplicate skips them all
		acts = append([]action{{'D', 0, ""}, {'C', 0, ""}}, rep(n, func(j int) action { return action{'M', 0, "x" + strconv.Itoa(j)} })...)
		acts = append(acts, action{'M', 1, "y"}, action{'M', 1, "z"}, action{'G', 2, "g"}, action{'M', 2, "x0"}, action{'M', 0, "w"})
		emitCase("api", nil, acts, "crowded:taken-numbers")
		// every member of a growing family generates from the same stale counter (what macro expansion does)
		if n <= 1100 {
			acts = nil
			for j := 0; j < n && j < 400; j++ {
				acts = append(acts, action{'D', 0, ""}, action{'G', j + 1, "g"})
			}
			acts = append(acts, action{'G', 0, "g"})
			emitCase("api", nil, acts, "crowded:fresh-duplicates")
		}
	}
	// script level: a macro that calls (gensym) expanded many times in one interpreter (each expansion
	// runs in a fresh Duplicate with the same stale counter), and (gensym) after a Duplicate was made
	nmac := []int{270}
	if a.Tier == "thorough" {
		nmac = []int{270, 600, 1100}
	}
	for _, n := range nmac {
		acts := rep(n, func(int) action { return action{'m', 0, ""} })
		acts = append(acts, action{'g', 0, ""}, action{'m', 0, ""}, action{'R', 0, "after"}, action{'m', 0, ""})
		emitCase("script", nil, acts, "crowded:macro-expansions")
		acts = append([]action{{'D', 0, ""}}, rep(n, func(int) action { return action{'g', 0, ""} })...)
		acts = append(acts, action{'g', 1, ""}, action{'G', 1, "__gensym"}, action{'S', 1, "after"}, action{'g', 0, ""})
		emitCase("script", nil, acts, "crowded:script-stale-duplicate")
	}

	// random long histories, API route
	rng := lib.NewRng(a.Seed)
	nrand, nscript := 6000, 500
	if a.Tier == "thorough" {
		nrand, nscript = 200000, 8000
	}
	plain := []string{"a", "b", "c", "x1", "g", "__gensym", "#sig", "?q", "a.b", "12", "g-1", "", "g007"}
	prefs := []string{"g", "__gensym", "a", "", "g0", "x", "G", "__GENSYM", "A"}
	randHistory := func(r *lib.Rng, script bool) []action {
		n := 4 + r.Intn(28)
		if script {
			n = 3 + r.Intn(8)
		}
		members, modelMembers := 1, 1
		cur := n0
		if script {
			cur = scriptN0
		}
		var acts []action
		var used []string
		for k := 0; k < n; k++ {
			i := r.Intn(members)
			shapedName := func() string {
				p := prefs[r.Intn(3)]
				if script && p == "a" {
					p = "g"
				}
				if r.Intn(3) == 0 {
					p = strings.ToUpper(p) // a case variant of a generated-looking name
				}
				return p + strconv.Itoa(cur+r.Intn(8)-2)
			}
			// how a name can be interned at script level: quoted read needs a lexable symbol,
			// str2sym a string literal; anything else goes through the Go API of that member
			scriptKind := func(nm string) byte {
				switch {
				case lexableSymbol(nm) && r.Intn(2) == 0:
					return 'R'
				case strLiteralSafe(nm):
					return 'S'
				}
				return 'M'
			}
			switch c := r.Intn(20); {
			case c < 2 && members < 6:
				acts = append(acts, action{"DC"[r.Intn(2)], i, ""})
				members++
				modelMembers++
			case c < 8:
				kind := byte('M')
				var nm string
				if c := r.Intn(10); c < 3 {
					// a near-equal but different name: a variant of a name of this history, or a member of a group
					if len(used) > 0 && r.Intn(2) == 0 {
						nm = mutate(used[r.Intn(len(used))], r, false)
					} else {
						g := nearGroups[r.Intn(len(nearGroups))]
						nm = g[r.Intn(len(g))]
					}
				} else if len(used) > 0 && c < 5 {
					nm = used[r.Intn(len(used))]
				} else if r.Intn(2) == 0 {
					nm = shapedName()
				} else if script {
					nm = []string{"a", "b", "c", "x1", "g", "__gensym", "g007", "car", "gensym"}[r.Intn(9)]
				} else {
					nm = plain[r.Intn(len(plain))]
				}
				if script {
					kind = scriptKind(nm)
				}
				acts = append(acts, action{kind, i, nm})
				used = append(used, nm)
				cur++
			case c < 10 && script:
				acts = append(acts, action{'m', i, ""})
				modelMembers++
				cur++
			case c < 13 && script:
				acts = append(acts, action{'g', i, ""})
				cur++
			default:
				p := prefs[r.Intn(len(prefs))]
				if script {
					p = []string{"g", "__gensym", "a", "g0", "G", "__GENSYM"}[r.Intn(6)]
				}
				acts = append(acts, action{'G', i, p})
				cur++
			}
		}
		return acts
	}
	for k := 0; k < nrand; k++ {
		emitCase("apix", nil, randHistory(rng.Fork(), false), "random:api")
	}
	for k := 0; k < nscript; k++ {
		emitCase("script", nil, randHistory(rng.Fork(), true), "random:script")
	}
	// symbols that exist already (builtins, reserved words, operators; numbers from 1 up to the
	// counter): re-interned from several members, compared pairwise by the interpreter
	{
		e := zygo.NewZlisp()
		e.StandardSetup()
		lib.Eval(e, macroSetup, 100000)
		var all []string
		e.VerifSymtableEach(func(nm string, num int) {
			if len(nm) > 0 && len(nm) < 40 {
				all = append(all, nm)
			}
		})
		sort.Strings(all)
		nsample := 12
		if a.Tier == "thorough" {
			nsample = 200
		}
		for k := 0; k < nsample; k++ {
			r := rng.Fork()
			acts := []action{{'D', 0, ""}, {'C', 0, ""}}
			for j := 0; j < 36; j++ {
				nm := all[r.Intn(len(all))]
				acts = append(acts, action{'M', r.Intn(3), nm})
				if r.Intn(3) == 0 {
					// a near-equal variant of an existing symbol (may or may not exist itself: NaN / nan)
					acts = append(acts, action{'M', r.Intn(3), mutate(nm, r, false)})
					j++
				}
			}
			emitCase("script", nil, acts, "table-sample")
		}
	}
	flush()
	out.Close(a.Stats)
}

var scriptN0 = func() int {
	e := zygo.NewZlisp()
	e.StandardSetup()
	lib.Eval(e, macroSetup, 100000)
	return e.VerifNextSymbol()
}()
