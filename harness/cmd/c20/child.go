package main

import (
	"bytes"
	"encoding/json"
	"fmt"
	"io"
	"os"
	"regexp"
	"strings"

	"github.com/glycerine/zygomys/v9/zygo"
	"verif/harness/lib"
)

const stepBudget = 3000000

var ptrRe = regexp.MustCompile(`0x[0-9a-fA-F]+`)
var gorRe = regexp.MustCompile(`goroutine \d+`)

func norm(s string) string {
	s = ptrRe.ReplaceAllString(s, "0xPTR")
	s = gorRe.ReplaceAllString(s, "goroutine N")
	if len(s) > 6000 {
		s = s[:6000] + "...[cut]"
	}
	return s
}

func newEnv() *zygo.Zlisp {
	env := zygo.NewZlisp()
	env.StandardSetup()
	env.ImportDemoData()
	return env
}

// evalCaptured runs src in a fresh interpreter with os.Stdout redirected through a pipe.
func evalCaptured(src string) Obs {
	realOut := os.Stdout
	r, w, err := os.Pipe()
	if err != nil {
		panic(err)
	}
	var buf bytes.Buffer
	done := make(chan bool)
	go func() { io.Copy(&buf, r); done <- true }()
	os.Stdout = w
	var res lib.Result
	func() {
		defer func() {
			if p := recover(); p != nil {
				res = lib.Result{Class: lib.OutPanic, Panic: p}
			}
		}()
		env := newEnv()
		res = lib.Eval(env, src, stepBudget)
	}()
	os.Stdout = realOut
	w.Close()
	<-done
	r.Close()
	o := Obs{O: norm(buf.String())}
	switch res.Class {
	case lib.OutValue:
		if res.Val == nil {
			o.V = "<go-nil>"
		} else {
			func() {
				defer func() {
					if p := recover(); p != nil {
						o.V = norm(fmt.Sprintf("<panic while printing: %v>", p))
					}
				}()
				o.V = norm(res.Val.SexpString(nil))
			}()
		}
	case lib.OutError:
		o.E = norm(res.Err.Error())
	case lib.OutPanic:
		o.E = norm(fmt.Sprintf("PANIC: %v", res.Panic))
	case lib.OutBudget:
		o.E = "BUDGET"
	}
	return o
}

// disturb creates k other interpreters and uses them: struct declarations, record types,
// globals, gensyms, hashes, a package — everything that could leave process-global traces.
func disturb(k int, rng *lib.Rng) {
	for i := 0; i < k; i++ {
		env := newEnv()
		n := rng.Intn(1000)
		src := fmt.Sprintf(`(struct Dist%d [(field A%d: int64 e:0) (field B: string e:1)])
(def d (Dist%d A%d:%d B:"x"))
(defmap distmap%d) (def m (distmap%d q:1 r:2 s:3))
(def zz%d (gensym)) (def hh (hash a:1 b:2 c:3 d:4 e:5 f:6 g:7)) (str hh) (json hh)
(def sn (snoopy cry:"d")) (togo sn)
(defn f%d [x] (+ x %d)) (f%d 1)`, n, n, n, n, n, n, n, n, n, n, n)
		func() {
			defer func() { recover() }()
			lib.Eval(env, src, stepBudget)
		}()
	}
}

func runChild(mode, progsPath, resPath string, sel, nreps int, order uint64, procIdx int) {
	b, err := os.ReadFile(progsPath)
	if err != nil {
		fmt.Fprintln(os.Stderr, err)
		os.Exit(2)
	}
	var progs []Prog
	if err := json.Unmarshal(b, &progs); err != nil {
		fmt.Fprintln(os.Stderr, err)
		os.Exit(2)
	}
	f, err := os.Create(resPath)
	if err != nil {
		fmt.Fprintln(os.Stderr, err)
		os.Exit(2)
	}
	defer f.Close()
	emit := func(r Rec) {
		jb, _ := json.Marshal(r)
		f.Write(append(jb, '\n'))
	}
	zygo.RegisterDemoStructs()
	switch mode {
	case "solo":
		p := progs[sel]
		for rep := 0; rep < nreps; rep++ {
			emit(Rec{ID: p.ID, Mode: mode, Proc: procIdx, Rep: rep, Obs: evalCaptured(p.Src)})
		}
	case "after":
		p := progs[sel]
		rng := lib.NewRng(order)
		disturb(2+rng.Intn(3), rng)
		emit(Rec{ID: p.ID, Mode: mode, Proc: procIdx, Rep: 0, Obs: evalCaptured(p.Src)})
	case "batch":
		rng := lib.NewRng(order)
		idx := make([]int, len(progs))
		for i := range idx {
			idx[i] = i
		}
		for i := len(idx) - 1; i > 0; i-- {
			j := rng.Intn(i + 1)
			idx[i], idx[j] = idx[j], idx[i]
		}
		for _, i := range idx {
			if strings.Contains(progs[i].ID, "nobatch") {
				continue
			}
			emit(Rec{ID: progs[i].ID, Mode: mode, Proc: procIdx, Rep: 0, Obs: evalCaptured(progs[i].Src)})
		}
	}
}
