package main

import (
	"bytes"
	"encoding/json"
	"fmt"
	"hash/fnv"
	"io"
	"os"
	"regexp"
	"sort"
	"strings"
	"syscall"

	"github.com/glycerine/zygomys/v9/zygo"
	"verif/harness/lib"
)

const stepBudget = 3000000

var ptrRe = regexp.MustCompile(`0x[0-9a-fA-F]{7,}`)
var ptrWhole = regexp.MustCompile(`^0x[0-9a-fA-F]{7,}$`)
var gorRe = regexp.MustCompile(`goroutine \d+`)

var traceRe = regexp.MustCompile(`(?s) stack trace:\n.*?\n\n\n?`)

// Heap addresses are stripped ONLY in the contexts where the code as it is prints them on
// purpose (explicit pointer printing).  An address anywhere else -- e.g. a new error message
// that dumps a value with %v -- stays in the observable and makes two runs differ.
//
//	value / stdout:
//	  (*pkg.Type)(0x..)            Go-syntax dump of a struct (togo returns fmt %#v of the shadow struct)
//	  global (0x..) | scope Name: 'x' (0x..) | <label>  <name> (0x..)   Scope.Show prints %p of every scope
//	  already-saw Stack 0x.. in Show | already-saw Scope 0x..            Stack.Show / Scope.Show cycle marker
//	  top of NewClosing at 0x..
//	error text: none
var ptrContextsVO = []*regexp.Regexp{
	regexp.MustCompile(`(\(\*[A-Za-z0-9_.]+\)\()0x[0-9a-fA-F]{7,}(\))`),
	regexp.MustCompile(`((?:global|scope Name: '[^'\n]*'|elem \d+ of [^\n]*?) \()0x[0-9a-fA-F]{7,}(\))`),
	regexp.MustCompile(`(already-saw (?:Stack|Scope) )0x[0-9a-fA-F]{7,}()`),
	regexp.MustCompile(`(top of NewClosing at )0x[0-9a-fA-F]{7,}()`),
}

// error text: NO address is stripped.  (The messages that used to dump the offending value with
// %v / %#v were repaired in /repo, commit 00a51a3; a heap address in an error text makes two runs differ.)
var ptrContextsE = []*regexp.Regexp{}

// norm strips goroutine ids and the allow-listed heap addresses.  The library appends the Go
// stack trace of a recovered panic to the error text: that block (frames of the host program,
// raw argument words) is removed as a whole.  field: 'v' value, 'o' stdout, 'e' error text.
func norm(s string, field byte) string {
	s = traceRe.ReplaceAllString(s, " [go stack trace]\n")
	if i := strings.Index(s, "stack trace:"); i >= 0 {
		s = s[:i] + "[go stack trace]"
	}
	ctx := ptrContextsVO
	if field == 'e' {
		ctx = ptrContextsE
	}
	if os.Getenv("C20_STRIP_ALL_POINTERS") != "" {
		s = ptrRe.ReplaceAllString(s, "0xPTR")
	}
	for _, re := range ctx {
		s = re.ReplaceAllString(s, "${1}0xPTR${2}")
	}
	if field == 'e' {
		// nothing: see ptrContextsE
	} else if ptrWhole.MatchString(s) {
		s = "0xPTR" // a pointer value printed by itself: (& x) prints its address
	}
	s = gorRe.ReplaceAllString(s, "goroutine N")
	if len(s) > 60000 {
		s = s[:60000] + "...[cut]"
	}
	return s
}

func newEnv() *zygo.Zlisp {
	env := zygo.NewZlisp()
	env.StandardSetup()
	env.ImportDemoData()
	return env
}

// evalCaptured runs src in a fresh interpreter with os.Stdout redirected through a pipe.
func evalCaptured(src string) Obs {
	o, _, _, _ := evalCaptured2(src)
	return o
}

// fingerprints of the process-global registry and of the symbol numbers the set-up gave to
// the registered type names, taken before the program runs (used only to attribute a
// difference to a listed finding, never to excuse it without one)
func fingerprints(env *zygo.Zlisp) (reg, sym string, order []string) {
	// second component of sym: the numbers of the builtin function names (interned by
	// NewZlispWithFuncs, in sorted order)
	bn := []string{}
	for k := range zygo.AllBuiltinFunctions() {
		bn = append(bn, k)
	}
	sort.Strings(bn)
	h3 := fnv.New64a()
	for _, n := range bn {
		fmt.Fprintf(h3, "%s=%d;", n, env.MakeSymbol(n).Number())
	}
	defer func() { sym = sym + "/" + fmt.Sprintf("%x", h3.Sum64()) }()
	names := []string{}
	for k := range zygo.GoStructRegistry.Builtin {
		names = append(names, k)
	}
	for k := range zygo.GoStructRegistry.Userdef {
		names = append(names, k)
	}
	sort.Strings(names)
	h1, h2 := fnv.New64a(), fnv.New64a()
	nums := map[string]int{}
	for _, n := range names {
		h1.Write([]byte(n + "\x00"))
		nums[n] = env.MakeSymbol(n).Number()
		fmt.Fprintf(h2, "%s=%d;", n, nums[n])
	}
	order = append([]string{}, names...)
	sort.SliceStable(order, func(i, j int) bool { return nums[order[i]] < nums[order[j]] })
	for _, n := range zygo.ListRegisteredTypes {
		h1.Write([]byte(n + "\x01"))
	}
	return fmt.Sprintf("%d:%x", len(zygo.ListRegisteredTypes), h1.Sum64()), fmt.Sprintf("%x", h2.Sum64()), order
}

func evalCaptured2(src string) (Obs, string, string, []string) {
	var reg, sym string
	var order []string
	realOut := os.Stdout
	r, w, err := os.Pipe()
	if err != nil {
		panic(err)
	}
	var buf bytes.Buffer
	done := make(chan bool)
	go func() { io.Copy(&buf, r); done <- true }()
	os.Stdout = w
	// also at the file-descriptor level: the library keeps its own copy of the original
	// os.Stdout (zygo.OurStdout, used by its time-stamped trace printers), and anything else that
	// writes to fd 1 must be part of the captured output too
	savedFd, dupErr := syscall.Dup(1)
	if dupErr == nil {
		syscall.Dup2(int(w.Fd()), 1)
	}
	var res lib.Result
	func() {
		defer func() {
			if p := recover(); p != nil {
				res = lib.Result{Class: lib.OutPanic, Panic: p}
			}
		}()
		env := newEnv()
		reg, sym, order = fingerprints(env)
		if strings.HasPrefix(src, cliPrefix) {
			// the command-line driver: zygo -countcalls <script> (prints the call counters)
			runCli(strings.TrimPrefix(src, cliPrefix))
			res = lib.Result{Class: lib.OutValue, Val: zygo.SexpNull}
			return
		}
		if strings.HasPrefix(src, syntaxPrefix) {
			// every line is a (mostly malformed) source text, read through each whole-text entry point
			var sb strings.Builder
			show := func(i int, via string, v zygo.Sexp, err error) {
				if err != nil {
					e := strings.ReplaceAll(norm(err.Error(), 'e'), "0x", "0X")
					if len(e) > 400 {
						e = e[:400] + "..."
					}
					fmt.Fprintf(&sb, "%d %s: ERROR %s\n", i, via, e)
					return
				}
				t := "<go-nil>"
				if v != nil {
					t = v.SexpString(nil)
				}
				if len(t) > 200 {
					t = t[:200] + "..."
				}
				fmt.Fprintf(&sb, "%d %s: %s\n", i, via, t)
			}
			dir, derr := os.MkdirTemp("", "c20-syn-")
			if derr == nil {
				defer os.RemoveAll(dir)
			}
			for i, line := range strings.Split(strings.TrimPrefix(src, syntaxPrefix), "\n") {
				if line == "" {
					continue
				}
				text := strings.ReplaceAll(line, "\\n", "\n") // the two characters \n in a line stand for a newline
				func() {
					defer func() {
						if p := recover(); p != nil {
							fmt.Fprintf(&sb, "%d: PANIC %v\n", i, p)
							env = newEnv()
						}
					}()
					r := lib.Eval(env, text, stepBudget)
					show(i, "EvalString", r.Val, r.Err)
					err := env.LoadStream(strings.NewReader(text))
					show(i, "LoadStream", zygo.SexpNull, err)
					env.Clear()
					err = env.LoadString(text)
					show(i, "LoadString", zygo.SexpNull, err)
					env.Clear()
					if derr == nil {
						fn := dir + "/t.zy"
						os.WriteFile(fn, []byte(text), 0600)
						xs, err := env.ParseFile(fn)
						show(i, "ParseFile", &zygo.SexpInt{Val: int64(len(xs))}, err)
						env.Clear()
					}
					if !strings.Contains(text, "`") {
						r = lib.Eval(env, "(read `"+text+"`)", stepBudget)
						show(i, "read", r.Val, r.Err)
					}
				}()
			}
			res = lib.Result{Class: lib.OutValue, Val: &zygo.SexpStr{S: sb.String()}}
			return
		}
		if strings.HasPrefix(src, eachLinePrefix) {
			// one evaluation per line in the same interpreter; value or error text of every line
			var sb strings.Builder
			for i, line := range strings.Split(strings.TrimPrefix(src, eachLinePrefix), "\n") {
				if strings.TrimSpace(line) == "" {
					continue
				}
				r := lib.Eval(env, line, stepBudget)
				switch r.Class {
				case lib.OutValue:
					v := "<go-nil>"
					if r.Val != nil {
						v = r.Val.SexpString(nil)
					}
					if len(v) > 300 {
						v = v[:300] + "..."
					}
					fmt.Fprintf(&sb, "%d: %s => %s\n", i, line, v)
				case lib.OutError:
					// addresses left in an error text are written 0X.. so that the value-context
					// rules applied to the whole sweep afterwards cannot strip them
					e := strings.ReplaceAll(norm(r.Err.Error(), 'e'), "0x", "0X")
					if len(e) > 400 {
						e = e[:400] + "..."
					}
					fmt.Fprintf(&sb, "%d: %s => ERROR %s\n", i, line, e)
				case lib.OutPanic:
					fmt.Fprintf(&sb, "%d: %s => PANIC %v\n", i, line, r.Panic)
					env = newEnv()
				default:
					fmt.Fprintf(&sb, "%d: %s => %s\n", i, line, r.Class)
				}
			}
			res = lib.Result{Class: lib.OutValue, Val: &zygo.SexpStr{S: sb.String()}}
			return
		}
		res = lib.Eval(env, src, stepBudget)
	}()
	os.Stdout = realOut
	if dupErr == nil {
		syscall.Dup2(savedFd, 1)
		syscall.Close(savedFd)
	}
	w.Close()
	<-done
	r.Close()
	o := Obs{O: norm(buf.String(), 'o')}
	switch res.Class {
	case lib.OutValue:
		if res.Val == nil {
			o.V = "<go-nil>"
		} else {
			func() {
				defer func() {
					if p := recover(); p != nil {
						o.V = norm(fmt.Sprintf("<panic while printing: %v>", p), 'v')
					}
				}()
				o.V = norm(res.Val.SexpString(nil), 'v')
			}()
		}
	case lib.OutError:
		o.E = norm(res.Err.Error(), 'e')
	case lib.OutPanic:
		o.E = norm(fmt.Sprintf("PANIC: %v", res.Panic), 'e')
	case lib.OutBudget:
		o.E = "BUDGET"
	}
	return o, reg, sym, order
}

// disturb creates k other interpreters and uses them: struct declarations, record types,
// globals, gensyms, hashes, a package — everything that could leave process-global traces.
func disturb(k int, rng *lib.Rng, clean bool) {
	for i := 0; i < k; i++ {
		env := newEnv()
		n := rng.Intn(1000)
		src := fmt.Sprintf(`(struct Dist%d [(field A%d: int64 e:0) (field B: string e:1)])
(def d (Dist%d A%d:%d B:"x"))
(defmap distmap%d) (def m (distmap%d q:1 r:2 s:3))
(def zz%d (gensym)) (def hh (hash a:1 b:2 c:3 d:4 e:5 f:6 g:7)) (str hh) (json hh)
(def sn (snoopy cry:"d")) (togo sn)
(defn f%d [x] (+ x %d)) (f%d 1)`, n, n, n, n, n, n, n, n, n, n, n)
		if clean {
			// no declaration of types: the registry stays as the process set-up left it
			src = fmt.Sprintf(`(def zz%d (gensym)) (def hh (hash a:1 b:2 c:3 d:4 e:5 f:6 g:7)) (str hh) (json hh) (hdel hh (quote c))
(def sn (snoopy cry:"d")) (togo sn) (def pk (package "pk%d" { A := 1; B := 2 })) (str pk)
(defn f%d [x] (+ x %d)) (f%d 1) (defmac m%d [a] ^(+ ~a 1)) (m%d 2) (undefined_sym_%d)`, n, n, n, n, n, n, n, n)
		}
		// legal but unusual things an earlier interpreter may have done, none of which touches the
		// type registry: generated names colliding with interned ones, infix index/field/assignment
		// forms, macros, errors of several kinds.  One evaluation per line (errors do not stop the rest).
		extra := []string{
			// a generated name that is already interned: after (gensym) gave number m, interning the
			// five names P(m+2)..P(m+6) moves the counter to m+6, so the next generated name P(m+6) is taken
			`(begin (def m (symnum (gensym))) (for [(def i 2) (< i 7) (set i (+ i 1))] (str2sym (concat "tmp" (str (+ m i))))) (gensym "tmp"))`,
			`(begin (def m (symnum (gensym))) (for [(def i 2) (< i 7) (set i (+ i 1))] (str2sym (concat "__gensym" (str (+ m i))))) (gensym))`,
			`(begin (def m (symnum (gensym))) (for [(def i 2) (< i 7) (set i (+ i 1))] (str2sym (concat "__anon" (str (+ m i))))) (fn [q] q))`,
			`(gensym "tmp")`, `(gensym)`, `(gensym)`, `((fn [x] x) 1)`, `(def g2 (fn [a b] a))`, `(g2 1)`,
			`(def a [10 20 30])`, `{a[1] + a[2]}`, `{a[0] = 5}`, `{b := a[2] * 2}`, `(def h (hash x:1))`, `{h.x + 1}`, `{h.x = 3}`,
			`(for [(def i 0) (< i 3) (set i (+ i 1))] (cond (== i 1) (continue) i))`,
			// in-place edits of every container a builtin handed out (a later interpreter must not see them)
			`(def ml (methodls (snoopy)))`, `(aset ml 0 "edited-by-an-earlier-interpreter")`, `(def fl (fieldls (snoopy)))`, `(aset fl 0 "edited-field")`,
			`(def ml2 (methodls (weather)))`, `(aset ml2 0 "edited")`, `(def fl2 (fieldls (hornet)))`, `(aset fl2 1 "edited")`,
			`(def tl (typelist))`, `(aset tl 0 "edited-type")`, `(def ks (keys (snoopy cry:"a" pack:[1])))`, `(aset ks 0 (quote edited))`,
			`(def rec (snoopy pack:[1 2 3]))`, `(aset (hget rec (quote pack)) 0 99)`, `(hset (hornet) (quote speed) 77)`,
			// decoders fed with edge and broken texts (process-wide codec handles must come back unchanged)
			"(unjson (raw `[18446744073709551615, 5, -3 `))", "(unjson (raw `[18446744073709551615]`))", "(unjson (raw `[9223372036854775808, 1`))", "(unjson (raw `{\"a\":18446744073709551615,`))",
			"(unjson (raw `[1e400, 5`))", "(unjson (raw `{\"a\":`))", "(unjson (raw `[-9223372036854775809, `))", "(unmsgpack (raw `[1, 2`))", "(unmsgpack (raw \"\"))", "(unjson (raw `[18446744073709551615, {\"a\":`))",
			"(msgpack (hash a:18446744073709551615ULL))", "(json (hash a:18446744073709551615ULL b:(fn [x] x)))",
			// calendar and time-of-day functions
			`(astm "2016-02-26T12:00:00Z")`, `(astm 1456488000)`, `(str (nextBusinessDay (date "2016/02/26")))`, `(dur "1h")`, `(str (astm (date "2016/02/26")))`,
			// keys sharing a bucket
			`(def hc (hash))`, `(hset hc (quote speed) 1)`, `(hset hc (symnum (quote speed)) 2)`, `(str hc)`,
			`(defmac mm [a] ^(let [t 1] (+ ~a t)))`, `(mm 2)`, `(hset h (hash q:1) 2)`, `(aget a 9)`, `(+ 1 "s")`,
		}
		runNormal := func() {
			defer func() { recover() }()
			lib.Eval(env, src, stepBudget)
			for _, line := range extra {
				lib.Eval(env, line, stepBudget)
			}
		}
		// an interpreter of the OTHER kind (sandboxed: a different builtin set, hence different
		// symbol numbers) parses and runs the same forms -- before or after the normal one
		runSandbox := func() {
			defer func() { recover() }()
			sb := zygo.NewZlispSandbox()
			sb.StandardSetup()
			for _, line := range extra {
				lib.Eval(sb, line, stepBudget)
			}
		}
		if i%2 == 0 {
			runSandbox()
			runNormal()
		} else {
			runNormal()
			runSandbox()
		}
	}
}

// otherKindFirst constructs and uses interpreters whose builtin set differs from NewZlisp's.
func otherKindFirst() {
	lines := []string{`(def a [10 20 30])`, `{a[1] + a[2]}`, `{a[0] = 5}`, `{b := a[2] * 2}`, `(def h (hash x:1))`, `{h.x + 1}`,
		`(gensym)`, `(defn f [x] (+ x 1))`, `(f 2)`, `(str (quote car))`, `(for [(def i 0) (< i 2) (set i (+ i 1))] i)`, `(undefined_sym)`}
	use := func(mk func() *zygo.Zlisp) {
		defer func() { recover() }()
		env := mk()
		env.StandardSetup()
		for _, line := range lines {
			lib.Eval(env, line, stepBudget)
		}
	}
	use(func() *zygo.Zlisp { return zygo.NewZlispSandbox() })
	use(func() *zygo.Zlisp {
		// every third builtin (in name order) left out
		all := zygo.AllBuiltinFunctions()
		names := make([]string, 0, len(all))
		for k := range all {
			names = append(names, k)
		}
		sort.Strings(names)
		fm := map[string]zygo.ZlispUserFunction{}
		for i, k := range names {
			if i%3 != 1 {
				fm[k] = all[k]
			}
		}
		return zygo.NewZlispWithFuncs(fm)
	})
}

func runChild(mode, progsPath, resPath string, sel, nreps int, order uint64, procIdx int) {
	b, err := os.ReadFile(progsPath)
	if err != nil {
		fmt.Fprintln(os.Stderr, err)
		os.Exit(2)
	}
	var progs []Prog
	if err := json.Unmarshal(b, &progs); err != nil {
		fmt.Fprintln(os.Stderr, err)
		os.Exit(2)
	}
	f, err := os.Create(resPath)
	if err != nil {
		fmt.Fprintln(os.Stderr, err)
		os.Exit(2)
	}
	defer f.Close()
	emit := func(id string, rep int, src string) {
		o, reg, sym, order := evalCaptured2(src)
		jb, _ := json.Marshal(Rec{ID: id, Mode: mode, Proc: procIdx, Rep: rep, Obs: o, Reg: reg, Sym: sym, TypeOrder: order})
		f.Write(append(jb, '\n'))
	}
	zygo.RegisterDemoStructs()
	registerTypes()
	// the FIRST interpreter a process constructs may leave something behind that every later one
	// picks up (a lazily filled package-level singleton: Properties/C20.v store_if_unset_history --
	// the first construction decides).  In the after-modes half of the processes therefore start with
	// interpreters of ANOTHER configuration (sandboxed; a reduced builtin set: other symbol numbers),
	// created and used before the first ordinary interpreter exists.
	if (mode == "after" || mode == "afterclean") && order&1 == 1 {
		otherKindFirst()
	}
	// warm-up: ImportDemoData registers nestouter/nestinner on its first call; one discarded
	// interpreter makes that part of the process set-up (as RegisterDemoStructs is), so that
	// every measured interpreter starts from the same registry unless a PROGRAM changes it.
	lib.Eval(newEnv(), `(def h (hash a:1)) (str h)`, stepBudget) // the first hash of a process registers the type "hash"
	switch mode {
	case "solo":
		p := progs[sel]
		for rep := 0; rep < nreps; rep++ {
			emit(p.ID, rep, p.Src)
		}
	case "after", "afterclean":
		p := progs[sel]
		rng := lib.NewRng(order)
		disturb(2+rng.Intn(3), rng, mode == "afterclean")
		emit(p.ID, 0, p.Src)
	case "batch", "fixed":
		rng := lib.NewRng(order)
		idx := make([]int, len(progs))
		for i := range idx {
			idx[i] = i
		}
		for i := len(idx) - 1; i > 0 && order != 0; i-- {
			j := rng.Intn(i + 1)
			idx[i], idx[j] = idx[j], idx[i]
		}
		for _, i := range idx {
			if strings.Contains(progs[i].ID, "nobatch") {
				continue
			}
			emit(progs[i].ID, 0, progs[i].Src)
		}
	}
}

// Go types of the harness, registered like an embedding application would: a record with a
// pointer to another registered record (the Go -> Lisp direction scans the registry for the
// field's type), and one type registered under two names.
type C20Inner struct {
	Hello string `json:"hello" msg:"hello"`
	N     int64  `json:"n" msg:"n"`
}
type C20Outer struct {
	Inner *C20Inner          `json:"inner" msg:"inner"`
	Tag   string             `json:"tag" msg:"tag"`
	M     map[string]float64 `json:"m" msg:"m"`
	S     map[string]string  `json:"s" msg:"s"`
}
type C20Two struct {
	A int64 `json:"a" msg:"a"`
}

func (o *C20Outer) Echo(x *C20Outer) *C20Outer { return x }
func (o *C20Two) Echo(x *C20Two) *C20Two       { return x }

func registerTypes() {
	g := &zygo.GoStructRegistry
	g.RegisterUserdef(&zygo.RegisteredType{GenDefMap: true, Factory: func(env *zygo.Zlisp, h *zygo.SexpHash) (interface{}, error) { return &C20Inner{}, nil }}, true, "c20inner")
	g.RegisterUserdef(&zygo.RegisteredType{GenDefMap: true, Factory: func(env *zygo.Zlisp, h *zygo.SexpHash) (interface{}, error) { return &C20Outer{}, nil }}, true, "c20outer")
	g.RegisterUserdef(&zygo.RegisteredType{GenDefMap: true, Factory: func(env *zygo.Zlisp, h *zygo.SexpHash) (interface{}, error) { return &C20Two{}, nil }}, true, "c20two", "C20Two")
}

// aliasGroups lists, for every registered user type, the names the registry holds it under
// (registered names first, the reflect name last).
var registryNames []string

func aliasGroups() [][]string {
	zygo.RegisterDemoStructs()
	registerTypes()
	lib.Eval(newEnv(), `(def h (hash a:1)) (str h)`, stepBudget)
	by := map[string][]string{}
	for k, rt := range zygo.GoStructRegistry.Registry {
		if rt.IsUser && rt.ReflectName != "" {
			by[rt.ReflectName] = append(by[rt.ReflectName], k)
		}
	}
	registryNames = registryNames[:0]
	for k := range zygo.GoStructRegistry.Builtin {
		registryNames = append(registryNames, k)
	}
	for k := range zygo.GoStructRegistry.Userdef {
		registryNames = append(registryNames, k)
	}
	sort.Strings(registryNames)
	keys := []string{}
	for k := range by {
		keys = append(keys, k)
	}
	sort.Strings(keys)
	var out [][]string
	for _, k := range keys {
		g := by[k]
		sort.Slice(g, func(i, j int) bool {
			di, dj := strings.Contains(g[i], "."), strings.Contains(g[j], ".")
			if di != dj {
				return !di
			}
			return strings.ToLower(g[i])+g[i] > strings.ToLower(g[j])+g[j]
		})
		if len(g) > 1 {
			out = append(out, g)
		}
	}
	return out
}

const cliPrefix = "#cli-countcalls\n"
const eachLinePrefix = "#each-line\n"
const syntaxPrefix = "#syntax-sweep\n"

func runCli(script string) {
	f, err := os.CreateTemp("", "c20-*.zy")
	if err != nil {
		panic(err)
	}
	defer os.Remove(f.Name())
	f.WriteString(script)
	f.Close()
	cfg := zygo.NewZlispConfig("zygo")
	cfg.DefineFlags()
	cfg.Flags.Parse([]string{"-countcalls", "-quiet", f.Name()})
	cfg.ValidateConfig()
	zygo.ReplMain(cfg)
}
