// Correspondence streams for the extracted model coq/Model/MapWalkKeys.v (ocaml/c20/run.ml).
//
//	ksort   a map[string]interface{} with generated keys goes through the REAL zygo.GoToSexp
//	        (jsonmsgp.go:decodeGoToSexpHelper -> makeSortedSlicesFromMap, KiSlice.Less); observable:
//	        the key order of the resulting hash with the value stored under each key;
//	symtab  the REAL zygo.NewZlispWithFuncs on a generated set of builtin names; observable: the
//	        symbol numbers of the builtins, of null/nil and of reserved words;
//	Every case is evaluated several times (ksort 5, symtab 3, named 4): the repeats must agree.
//	named   the REAL by-name call of a declared function with typed parameters (check.go:
//	        FunctionCallNameTypeCheck; submittedByName is only indexed), 0..n arguments ill-typed;
//	        observable: OK + the arguments in declared order, or MISMATCH + the parameter the error names.
//
// Cases file C20.corr.cases: ID<TAB>INPUT<TAB>IMPL.  Keys are hex-encoded byte strings.
package main

import (
	"encoding/hex"
	"fmt"
	"os"
	"path/filepath"
	"regexp"
	"sort"
	"strings"

	zygo "github.com/glycerine/zygomys/v9/zygo"
	"verif/harness/lib"
)

func hx(s string) string {
	if s == "" {
		return "-"
	}
	return hex.EncodeToString([]byte(s))
}

func unhx(s string) string {
	if s == "-" {
		return ""
	}
	b, _ := hex.DecodeString(s)
	return string(b)
}

// key material: classes that a wrong comparator confuses
var keyStems = []string{"id", "name", "a", "ab", "abc", "b", "key", "x", "user", "z", "car", "cdr", "len", "str",
	"é", "É", "straße", "σ", "ς", "Σ", "ı", "i", "İ", "ǆ", "ǅ", "日本", "日", "k1", "k10", "k2", "01", "1", "10", "9",
	"_a", "A_", "a-b", "a.b", "a b", " a", "a ", "\x00", "a\x00", "\xff", "\xc3", "\xc3\xa9x", "~", "[", "{"}

func variant(rng *lib.Rng, s string) string {
	switch rng.Intn(10) {
	case 0:
		return strings.ToUpper(s)
	case 1:
		return strings.ToLower(s)
	case 2:
		return strings.Title(s)
	case 3: // flip the case of one ASCII letter
		b := []byte(s)
		if len(b) > 0 {
			i := rng.Intn(len(b))
			if b[i] >= 'a' && b[i] <= 'z' {
				b[i] -= 32
			} else if b[i] >= 'A' && b[i] <= 'Z' {
				b[i] += 32
			}
		}
		return string(b)
	case 4: // proper prefix
		if len(s) > 1 {
			return s[:rng.Intn(len(s)-1)+1]
		}
		return s
	case 5: // extension
		return s + string(rune('0'+rng.Intn(10)))
	case 6:
		return s + keyStems[rng.Intn(len(keyStems))]
	case 7: // random bytes
		n := 1 + rng.Intn(4)
		b := make([]byte, n)
		for i := range b {
			b[i] = byte(rng.Intn(256))
		}
		return string(b)
	}
	return s
}

func genKeys(rng *lib.Rng, n int, ok func(string) bool) []string {
	seen := map[string]bool{}
	var ks []string
	for tries := 0; len(ks) < n && tries < 20*n+20; tries++ {
		k := variant(rng, keyStems[rng.Intn(len(keyStems))])
		if rng.Intn(3) == 0 && len(ks) > 0 { // a sibling of a key already chosen (case / prefix / extension)
			k = variant(rng, ks[rng.Intn(len(ks))])
		}
		if seen[k] || !ok(k) {
			continue
		}
		seen[k] = true
		ks = append(ks, k)
	}
	return ks
}

func keyClasses(ks []string) []string {
	tags := []string{}
	fold := map[string]int{}
	nonascii, prefix := false, false
	for _, k := range ks {
		fold[strings.ToLower(k)]++
		for i := 0; i < len(k); i++ {
			if k[i] >= 0x80 {
				nonascii = true
			}
		}
		for _, o := range ks {
			if o != k && strings.HasPrefix(o, k) {
				prefix = true
			}
		}
	}
	for _, c := range fold {
		if c > 1 {
			tags = append(tags, "keys-differ-only-in-case")
			break
		}
	}
	if nonascii {
		tags = append(tags, "keys-non-ascii")
	}
	if prefix {
		tags = append(tags, "keys-prefix-of-each-other")
	}
	switch {
	case len(ks) <= 1:
		tags = append(tags, "nkeys:0-1")
	case len(ks) <= 4:
		tags = append(tags, "nkeys:2-4")
	default:
		tags = append(tags, "nkeys:5+")
	}
	return tags
}

// ---- ksort: zygo.GoToSexp(map[string]interface{})

func implKsort(env *zygo.Zlisp, keys []string) (obs string) {
	defer func() {
		if r := recover(); r != nil {
			obs = "PANIC"
		}
	}()
	m := map[string]interface{}{}
	for i, k := range keys {
		m[k] = i
	}
	sx, err := zygo.GoToSexp(m, env)
	if err != nil {
		return "ERR"
	}
	h, ok := sx.(*zygo.SexpHash)
	if !ok {
		return "NOTHASH"
	}
	parts := []string{}
	for _, k := range h.KeyOrder {
		name := ""
		switch x := k.(type) {
		case *zygo.SexpSymbol:
			name = x.Name()
		case *zygo.SexpStr:
			name = x.S
		default:
			return "BADKEY"
		}
		v, err := h.HashGet(env, k)
		val := "?"
		if err == nil {
			if iv, ok := v.(*zygo.SexpInt); ok {
				val = fmt.Sprint(iv.Val)
			}
		}
		parts = append(parts, hx(name)+"="+val)
	}
	return strings.Join(parts, " ")
}

// ---- symtab: zygo.NewZlispWithFuncs

func dummyFn(env *zygo.Zlisp, name string, args []zygo.Sexp) (zygo.Sexp, error) {
	return zygo.SexpNull, nil
}

func implSymtab(funcs, queries []string) (obs string) {
	defer func() {
		if r := recover(); r != nil {
			obs = "PANIC"
		}
	}()
	fm := map[string]zygo.ZlispUserFunction{}
	for _, f := range funcs {
		fm[f] = dummyFn
	}
	env := zygo.NewZlispWithFuncs(fm)
	defer env.Close()
	parts := []string{}
	for _, q := range queries {
		parts = append(parts, fmt.Sprint(env.MakeSymbol(q).Number()))
	}
	return strings.Join(parts, " ")
}

// ---- named: by-name call

// declared[i] = name, dtypes[i] = "i" (int64) or "s" (string); vals[i] = "i<digit>" or "s<letter>"
func implNamed(env *zygo.Zlisp, idx int, declared, dtypes, submitted, vals []string) string {
	fname := fmt.Sprintf("c20named%d", idx)
	var sb strings.Builder
	fmt.Fprintf(&sb, "(func %s [", fname)
	for i, d := range declared {
		t := "int64"
		if dtypes[i] == "s" {
			t = "string"
		}
		fmt.Fprintf(&sb, "%s:%s ", d, t)
	}
	sb.WriteString("] [r:string] (concat \"\"")
	for _, d := range declared {
		fmt.Fprintf(&sb, " (str %s) \",\"", d)
	}
	sb.WriteString("))")
	r := lib.Eval(env, sb.String(), 200000)
	if r.Class != lib.OutValue {
		return "DECLERR"
	}
	call := "(" + fname
	for i, s := range submitted {
		if vals[i][0] == 's' {
			call += fmt.Sprintf(" %s:%q", s, vals[i][1:])
		} else {
			call += fmt.Sprintf(" %s:%s", s, vals[i][1:])
		}
	}
	call += ")"
	r = lib.Eval(env, call, 200000)
	if r.Class == lib.OutError {
		if m := mismatchRe.FindStringSubmatch(r.Err.Error()); m != nil {
			return "MISMATCH " + hx(m[1])
		}
		return "ERR"
	}
	if r.Class != lib.OutValue || r.Val == nil {
		return "ERR"
	}
	return "OK " + strings.NewReplacer("\"", "", "\\", "").Replace(r.Val.SexpString(nil))
}

var mismatchRe = regexp.MustCompile(`type mismatch for parameter '([^']*)'`)

type corrCase struct {
	input string
	impl  string
	tags  []string
}

func corrOne(env *zygo.Zlisp, idx int, input string) string {
	f := strings.Fields(input)
	if len(f) == 0 {
		return "BADCASE"
	}
	switch f[0] {
	case "ksort":
		keys := []string{}
		for _, k := range f[1:] {
			keys = append(keys, unhx(k))
		}
		return implKsort(env, keys)
	case "symtab":
		var funcs, queries []string
		mode := ""
		for _, t := range f[1:] {
			if t == "R" || t == "F" || t == "Q" {
				mode = t
				continue
			}
			switch mode {
			case "F":
				funcs = append(funcs, unhx(t))
			case "Q":
				queries = append(queries, unhx(t))
			}
		}
		return implSymtab(funcs, queries)
	case "named":
		var declared, dtypes, submitted, vals []string
		mode := ""
		for _, t := range f[1:] {
			if t == "D" || t == "S" {
				mode = t
				continue
			}
			if mode == "D" {
				nt := strings.SplitN(t, ":", 2)
				declared = append(declared, unhx(nt[0]))
				if len(nt) == 2 {
					dtypes = append(dtypes, nt[1])
				} else {
					dtypes = append(dtypes, "i")
				}
			} else {
				kv := strings.SplitN(t, "=", 2)
				submitted = append(submitted, unhx(kv[0]))
				vals = append(vals, kv[1])
			}
		}
		return implNamed(env, idx, declared, dtypes, submitted, vals)
	}
	return "BADCASE"
}

// corrRepeat evaluates the case several times (every Go map walk starts at a new random position):
// the property itself is that all repeats agree.  "NONDET a | b" = two repeats differed.
func corrRepeat(env *zygo.Zlisp, idx int, input string) string {
	n := 4
	switch {
	case strings.HasPrefix(input, "ksort"):
		n = 5
	case strings.HasPrefix(input, "symtab"):
		n = 3
	}
	first := corrOne(env, idx*8, input)
	for i := 1; i < n; i++ {
		if o := corrOne(env, idx*8+i, input); o != first {
			return "NONDET " + first + " | " + o
		}
	}
	return first
}

func notSpecialKey(k string) bool { return k != "zKeyOrder" && k != "Atype" }

// writeCorr generates the streams, runs the real code, writes <dir>/C20.corr.cases and returns
// the distribution.  replayInput != "" : only that case.
func writeCorr(dir string, seed uint64, tier string, replayInput string) map[string]interface{} {
	rng := lib.NewRng(seed ^ 0xC20C0FF).Fork() // Fork: consecutive seeds give SHIFTED splitmix streams, the fork decorrelates them
	env := newEnv()
	var cases []corrCase
	add := func(input string, tags ...string) {
		cases = append(cases, corrCase{input: input, impl: corrRepeat(env, len(cases), input), tags: tags})
	}
	if replayInput != "" {
		add(replayInput, "replay")
	} else {
		nk, ns, nn := 400, 120, 200
		if tier == "thorough" {
			nk, ns, nn = 4000, 600, 2000
		}
		// ksort: exhaustive small sets over a tie-prone alphabet, then random sets
		small := []string{"id", "ID", "Id", "i", "idx", "é", "É", "a"}
		for i := 0; i < len(small); i++ {
			for j := 0; j < len(small); j++ {
				if i != j {
					add("ksort "+hx(small[i])+" "+hx(small[j]), "stream:ksort", "exhaustive-pairs")
				}
			}
		}
		for c := 0; c < nk; c++ {
			n := rng.Intn(9)
			if rng.Intn(10) == 0 {
				n = 10 + rng.Intn(30)
			}
			ks := genKeys(rng, n, notSpecialKey)
			parts := []string{"ksort"}
			for _, k := range ks {
				parts = append(parts, hx(k))
			}
			add(strings.Join(parts, " "), append(keyClasses(ks), "stream:ksort")...)
		}
		// symtab
		var builtinPool []string
		for k := range zygo.AllBuiltinFunctions() {
			builtinPool = append(builtinPool, k)
		}
		sort.Strings(builtinPool)
		reserved := zygo.ReservedWords
		rparts := []string{}
		for _, w := range reserved {
			rparts = append(rparts, hx(w))
		}
		for c := 0; c < ns; c++ {
			n := 1 + rng.Intn(12)
			if rng.Intn(6) == 0 {
				n = 30 + rng.Intn(60)
			}
			seen := map[string]bool{}
			var fs []string
			tags := []string{"stream:symtab"}
			for tries := 0; len(fs) < n && tries < 20*n; tries++ {
				var k string
				switch rng.Intn(8) {
				case 0, 1, 2:
					k = builtinPool[rng.Intn(len(builtinPool))]
				case 3:
					k = variant(rng, builtinPool[rng.Intn(len(builtinPool))])
				case 4:
					k = reserved[rng.Intn(len(reserved))]
				case 5:
					k = []string{"null", "nil", "Null", "NIL", "nil0", "nul"}[rng.Intn(6)]
				default:
					k = variant(rng, keyStems[rng.Intn(len(keyStems))])
				}
				if k == "" || seen[k] {
					continue
				}
				seen[k] = true
				fs = append(fs, k)
			}
			if seen["null"] || seen["nil"] {
				tags = append(tags, "builtin-named-null-or-nil")
			}
			for _, w := range reserved {
				if seen[w] {
					tags = append(tags, "builtin-is-reserved-word")
					break
				}
			}
			tags = append(tags, keyClasses(fs)...)
			qs := append([]string{}, fs...)
			sort.Strings(qs)
			qs = append(qs, "null", "nil")
			for i := 0; i < 4; i++ {
				qs = append(qs, reserved[rng.Intn(len(reserved))])
			}
			parts := []string{"symtab", "R"}
			parts = append(parts, rparts...)
			parts = append(parts, "F")
			for _, k := range fs {
				parts = append(parts, hx(k))
			}
			parts = append(parts, "Q")
			for _, k := range qs {
				parts = append(parts, hx(k))
			}
			add(strings.Join(parts, " "), tags...)
		}
		// the full builtin set of the repository, as NewZlisp uses it
		{
			parts := []string{"symtab", "R"}
			parts = append(parts, rparts...)
			parts = append(parts, "F")
			for _, k := range builtinPool {
				parts = append(parts, hx(k))
			}
			parts = append(parts, "Q")
			for _, k := range builtinPool {
				parts = append(parts, hx(k))
			}
			parts = append(parts, hx("null"), hx("nil"))
			add(strings.Join(parts, " "), "stream:symtab", "all-builtins-of-the-repository")
		}
		// named
		pnames := []string{"a", "b", "c", "A", "B", "ab", "aB", "Ab", "x1", "x10", "x2", "id", "ID", "zz", "k"}
		for c := 0; c < nn; c++ {
			n := 1 + rng.Intn(5)
			perm := make([]int, len(pnames))
			for i := range perm {
				perm[i] = i
			}
			for i := len(perm) - 1; i > 0; i-- {
				j := rng.Intn(i + 1)
				perm[i], perm[j] = perm[j], perm[i]
			}
			decl := []string{}
			for _, i := range perm[:n] {
				decl = append(decl, pnames[i])
			}
			sub := append([]string{}, decl...)
			for i := len(sub) - 1; i > 0; i-- {
				j := rng.Intn(i + 1)
				sub[i], sub[j] = sub[j], sub[i]
			}
			// declared types; the submitted values: 0, 1, 2 or more of them of the other type
			dt := make(map[string]string)
			parts := []string{"named", "D"}
			for _, d := range decl {
				dt[d] = []string{"i", "s"}[rng.Intn(2)]
				parts = append(parts, hx(d)+":"+dt[d])
			}
			parts = append(parts, "S")
			wrong := 0
			pWrong := []int{0, 0, 3, 6, 9}[rng.Intn(5)] // chance (in tenths) that an argument has the other type
			for _, s := range sub {
				t := dt[s]
				if rng.Intn(10) < pWrong {
					t = map[string]string{"i": "s", "s": "i"}[t]
					wrong++
				}
				if t == "i" {
					parts = append(parts, fmt.Sprintf("%s=i%d", hx(s), 1+rng.Intn(9)))
				} else {
					parts = append(parts, fmt.Sprintf("%s=s%c", hx(s), 'A'+rune(rng.Intn(26))))
				}
			}
			wtag := "illtyped-args:2+"
			if wrong < 2 {
				wtag = fmt.Sprintf("illtyped-args:%d", wrong)
			}
			add(strings.Join(parts, " "), append(keyClasses(decl), "stream:named", fmt.Sprintf("nparams:%d", n), wtag)...)
		}
	}
	f, err := os.Create(filepath.Join(dir, "C20.corr.cases"))
	if err != nil {
		panic(err)
	}
	dist := map[string]int{}
	distinct := map[string]bool{}
	for i, c := range cases {
		fmt.Fprintf(f, "%d\t%s\t%s\n", i+1, c.input, c.impl)
		for _, t := range c.tags {
			dist[t]++
		}
		if c.impl != "PANIC" && c.impl != "ERR" && c.impl != "DECLERR" && c.impl != "BADCASE" {
			distinct[c.input] = true
		}
	}
	f.Close()
	return map[string]interface{}{"cases": len(cases), "distinct_nontrivial": len(distinct), "distribution": dist,
		"rule": "a correspondence case counts as non-trivial when the real code returned an observable (no panic / error); distinct = distinct inputs"}
}
