// c20: evaluation is deterministic.  Repeated-run search (S): every program of the corpus
// (/repo/tests/*.zy without the explicitly nondeterministic builtins) and of the generated
// trigger list (progs.go: one script-level trigger per map-walk site of the census) is run
//   - R times in fresh interpreters of one process            ("repeat")
//   - in P fresh PROCESSES (this binary re-executes itself; every process has new map seeds) ("process")
//   - after k other interpreters were created and used first  ("after")
//   - inside a batch process that runs all programs in a shuffled order ("batch")
//
// Observables: printed value, captured stdout, error text (pointer values and goroutine ids
// stripped).  A difference is a failure of the property; it is written with the program and
// the two observations to the diffs file, and summarised in the cases file.
package main

import (
	"encoding/json"
	"fmt"
	"os"
	"os/exec"
	"path/filepath"
	"regexp"
	"runtime"
	"sort"
	"strings"
	"sync"
	"time"

	"verif/harness/lib"
)

type Prog struct {
	ID   string   `json:"id"`
	Src  string   `json:"src"`
	File string   `json:"file,omitempty"` // corpus file (relative to the repository root)
	Tags []string `json:"tags,omitempty"`
}

// Obs is what one evaluation shows to its caller.
type Obs struct {
	V string `json:"v"` // printed value
	O string `json:"o"` // captured stdout
	E string `json:"e"` // error text
}

func (o Obs) key() string { return o.V + "\x00" + o.O + "\x00" + o.E }

type Rec struct {
	ID   string `json:"id"`
	Mode string `json:"mode"`
	Proc int    `json:"proc"`
	Rep  int    `json:"rep"`
	Obs  Obs    `json:"obs"`
	Reg  string `json:"reg"` // fingerprint of the process-global type registry before the run
	Sym  string `json:"sym"` // fingerprint of the symbol numbers of the registered type names
	// the registered type names ordered by the symbol number the set-up gave them
	TypeOrder []string `json:"type_order,omitempty"`
}

type Diff struct {
	ID       string   `json:"id"`
	Tags     []string `json:"tags"`
	File     string   `json:"file,omitempty"`
	Program  string   `json:"program"`
	Kind     string   `json:"kind"` // repeat | process | after | batch
	WhereA   string   `json:"where_a"`
	WhereB   string   `json:"where_b"`
	A        Obs      `json:"a"`
	B        Obs      `json:"b"`
	Field    string   `json:"field"` // value | stdout | error (first differing)
	NDist    int      `json:"distinct_observations"`
	RegDiff  bool     `json:"registry_differs_before_run"`
	SymDiff  bool     `json:"type_symbol_numbers_differ_before_run"`
	BSymDiff bool     `json:"builtin_symbol_numbers_differ_before_run"`
	// registered type names present before only one of the two runs, and whether the names
	// present before both were interned in the same relative order
	OnlyA       []string `json:"type_names_only_before_a"`
	OnlyB       []string `json:"type_names_only_before_b"`
	CommonOrder bool     `json:"common_type_names_interned_in_same_order"`
}

func repoDir() string {
	if r := os.Getenv("VERIF_REPO"); r != "" {
		return r
	}
	return "/repo"
}

var skipRe = regexp.MustCompile(`\(\s*(sys|system|random|now|timeit|sleep|owritef|writef|save|bsave|bload|go|makeChan|<!|>!|readline|exit|rmsym|setenv|getenv|slurpf|_closdump|dump|registerDemoFunctions)[\s\)]|%p|GOOS|StartCPUProfile`)

func corpus(repo string) (progs []Prog, skipped []string) {
	files, _ := filepath.Glob(filepath.Join(repo, "tests", "*.zy"))
	sort.Strings(files)
	for _, f := range files {
		b, err := os.ReadFile(f)
		if err != nil {
			continue
		}
		base := filepath.Base(f)
		if skipRe.Match(b) {
			skipped = append(skipped, base)
			continue
		}
		progs = append(progs, Prog{ID: "corpus/" + base, Src: string(b), File: "tests/" + base, Tags: []string{"corpus"}})
	}
	return
}

func main() {
	args := lib.ParseArgs()
	child := ""
	var progsPath, resPath string
	sel, nreps, order, procIdx := -1, 1, uint64(0), 0
	focus := ""
	for i := 0; i < len(args.Rest); i++ {
		nx := func() string { i++; return args.Rest[i] }
		switch args.Rest[i] {
		case "--child":
			child = nx()
		case "--progs":
			progsPath = nx()
		case "--res":
			resPath = nx()
		case "--sel":
			fmt.Sscan(nx(), &sel)
		case "--reps":
			fmt.Sscan(nx(), &nreps)
		case "--order":
			fmt.Sscan(nx(), &order)
		case "--proc":
			fmt.Sscan(nx(), &procIdx)
		case "--focus":
			focus = nx()
		case "--corr-only":
			st := writeCorr(filepath.Dir(args.Out), args.Seed, args.Tier, "")
			b, _ := json.Marshal(st)
			fmt.Println(string(b))
			return
		}
	}
	if child != "" {
		runChild(child, progsPath, resPath, sel, nreps, order, procIdx)
		return
	}
	driver(args, focus)
}

// ---------------------------------------------------------------- driver

type job struct {
	mode  string
	sel   int
	proc  int
	reps  int
	order uint64
}

// focusMatch: tag "site:<file>:<func>" against a census site "<file>:<Receiver.Func>"
func focusMatch(p Prog, focus string) bool {
	i := strings.Index(focus, ":")
	if i < 0 {
		return strings.Contains(p.ID, focus)
	}
	file, fn := focus[:i], focus[i+1:]
	if j := strings.LastIndex(fn, "."); j >= 0 {
		fn = fn[j+1:]
	}
	for _, t := range p.Tags {
		if t == "site:"+file+":"+fn {
			return true
		}
	}
	return false
}

func driver(args lib.Args, focus string) {
	repo := repoDir()
	rng := lib.NewRng(args.Seed)
	cps, skipped := corpus(repo)
	gen := generated(rng.Fork())
	var progs []Prog
	nproc, nrep, nafter, nbatch, nfixed := 2, 3, 1, 2, 4
	if args.Replay != "" {
		b, err := os.ReadFile(args.Replay)
		if err != nil {
			fmt.Println("cannot read replay file:", err)
			os.Exit(2)
		}
		var d Diff
		json.Unmarshal(b, &d)
		var cr struct {
			CorrInput string `json:"corr_input"`
		}
		json.Unmarshal(b, &cr)
		if cr.CorrInput != "" {
			// replay of a correspondence case: only that case, no repeated-run search
			st := writeCorr(filepath.Dir(args.Out), args.Seed, args.Tier, cr.CorrInput)
			out := lib.NewOut(args.Out)
			out.Extra["corr"] = st
			os.WriteFile(filepath.Join(filepath.Dir(args.Out), "C20.diffs.json"), []byte("[]"), 0644)
			out.Close(args.Stats)
			return
		}
		if d.Program == "" {
			fmt.Println("replay file has no program")
			os.Exit(2)
		}
		progs = []Prog{{ID: "replay/" + d.ID, Src: d.Program, File: d.File, Tags: d.Tags}}
		nproc, nrep, nafter, nbatch, nfixed = 24, 3, 4, 0, 0
	} else if focus != "" {
		// a walk of this function is not covered by a theorem: search its triggers harder
		for _, p := range gen {
			if focusMatch(p, focus) {
				progs = append(progs, p)
			}
		}
		if len(progs) == 0 {
			for _, p := range append(gen, cps...) {
				if strings.Contains(focus, "hashutils") && !strings.Contains(p.Src, "hash") {
					continue
				}
				progs = append(progs, p)
			}
		}
		nproc, nrep, nafter, nbatch, nfixed = 12, 3, 1, 0, 0
		if len(progs) > 30 {
			nproc = 4
		}
	} else if args.Tier == "thorough" {
		progs = append(gen, cps...)
		nproc, nrep, nafter, nbatch, nfixed = 20, 3, 4, 8, 12
	} else {
		// quick: every generated trigger + a seed-dependent slice of the corpus
		progs = append(progs, gen...)
		idx := make([]int, len(cps))
		for i := range idx {
			idx[i] = i
		}
		for i := len(idx) - 1; i > 0; i-- {
			j := rng.Intn(i + 1)
			idx[i], idx[j] = idx[j], idx[i]
		}
		n := 10
		if n > len(idx) {
			n = len(idx)
		}
		pick := idx[:n]
		sort.Ints(pick)
		for _, i := range pick {
			progs = append(progs, cps[i])
		}
	}
	dir := filepath.Dir(args.Out)
	var corrStats map[string]interface{}
	if focus == "" && args.Replay == "" {
		corrStats = writeCorr(dir, args.Seed, args.Tier, "")
	}
	progsPath := filepath.Join(dir, "C20.progs.json")
	pb, _ := json.Marshal(progs)
	os.WriteFile(progsPath, pb, 0644)

	var jobs []job
	for s := range progs {
		for p := 0; p < nproc; p++ {
			jobs = append(jobs, job{"solo", s, p, nrep, 0})
		}
		for p := 0; p < nafter; p++ {
			// quick tier: half of the programs run after interpreters that declared types, the
			// other half after interpreters that did not (alternating with the seed); thorough: both
			both := args.Tier == "thorough" || args.Replay != "" || focus != "" || hasTag(progs[s], "generated-names") || hasTag(progs[s], "infix") || hasTag(progs[s], "both-after")
			// low bit of the order word: the process starts with interpreters of another configuration
			// (child.go otherKindFirst); a program that gets both after-modes gets it exactly once
			first := uint64((s + p + int(args.Seed)) % 2)
			if both || (s+int(args.Seed))%2 == 0 {
				jobs = append(jobs, job{"after", s, p, 1, rng.U64()&^1 | first})
			}
			if both || (s+int(args.Seed))%2 == 1 {
				jobs = append(jobs, job{"afterclean", s, p, 1, rng.U64()&^1 | (first ^ 1)})
			}
		}
	}
	for p := 0; p < nbatch; p++ {
		jobs = append(jobs, job{"batch", -1, p, 1, rng.U64() | 1})
	}
	for p := 0; p < nfixed; p++ {
		jobs = append(jobs, job{"fixed", -1, p, 1, 0})
	}
	self, _ := os.Executable()
	recs := make([][]Rec, len(jobs))
	fails := make([]string, len(jobs))
	var wg sync.WaitGroup
	sem := make(chan bool, runtime.NumCPU())
	tmp, _ := os.MkdirTemp("", "c20-")
	defer os.RemoveAll(tmp)
	for ji := range jobs {
		wg.Add(1)
		sem <- true
		go func(ji int) {
			defer wg.Done()
			defer func() { <-sem }()
			j := jobs[ji]
			res := filepath.Join(tmp, fmt.Sprintf("r%d.json", ji))
			cmd := exec.Command(self, "--child", j.mode, "--progs", progsPath, "--res", res,
				"--sel", fmt.Sprint(j.sel), "--reps", fmt.Sprint(j.reps), "--order", fmt.Sprint(j.order), "--proc", fmt.Sprint(j.proc))
			cmd.Dir = repo
			cmd.Env = append(os.Environ(), "GOMAXPROCS=2")
			done := make(chan error, 1)
			if err := cmd.Start(); err != nil {
				fails[ji] = "start: " + err.Error()
				return
			}
			go func() { done <- cmd.Wait() }()
			lim := 60 * time.Second
			if j.mode == "batch" || j.mode == "fixed" {
				lim = 600 * time.Second
			}
			select {
			case err := <-done:
				if err != nil {
					fails[ji] = "exit: " + err.Error()
				}
			case <-time.After(lim):
				cmd.Process.Kill()
				fails[ji] = "timeout"
			}
			b, err := os.ReadFile(res)
			if err == nil {
				for _, line := range strings.Split(string(b), "\n") {
					if line == "" {
						continue
					}
					var r Rec
					if json.Unmarshal([]byte(line), &r) == nil {
						recs[ji] = append(recs[ji], r)
					}
				}
			}
			os.Remove(res)
		}(ji)
	}
	wg.Wait()

	// group the observations per program
	byProg := map[string][]Rec{}
	total := 0
	for _, rs := range recs {
		for _, r := range rs {
			byProg[r.ID] = append(byProg[r.ID], r)
			total++
		}
	}
	out := lib.NewOut(args.Out)
	out.Rule = "a program counts as non-trivial when it evaluated to a value or an error in every run (no budget/timeout); distinct = distinct program texts"
	diffs := []Diff{}
	hangs := []string{}
	for _, p := range progs {
		rs := byProg[p.ID]
		if len(rs) == 0 {
			out.Case(p.ID, "norun", false, "norun")
			hangs = append(hangs, p.ID)
			continue
		}
		sort.SliceStable(rs, func(a, b int) bool {
			ra, rb := rs[a], rs[b]
			if ra.Mode != rb.Mode {
				return modeRank(ra.Mode) < modeRank(rb.Mode)
			}
			if ra.Proc != rb.Proc {
				return ra.Proc < rb.Proc
			}
			return ra.Rep < rb.Rep
		})
		base := rs[0]
		distinct := map[string]bool{}
		for _, r := range rs {
			distinct[r.Obs.key()] = true
		}
		budget := false
		for _, r := range rs {
			if strings.HasPrefix(r.Obs.E, "BUDGET") {
				budget = true
			}
		}
		kinds := map[string]bool{}
		if len(distinct) > 1 && !budget {
			soloFirst := map[int]Rec{}
			var fixedFirst *Rec
			for i, r := range rs {
				if r.Mode == "solo" && r.Rep == 0 {
					soloFirst[r.Proc] = r
				}
				if r.Mode == "fixed" && fixedFirst == nil {
					fixedFirst = &rs[i]
				}
			}
			for _, r := range rs[1:] {
				ref, kind := base, "process"
				switch {
				case r.Mode == "solo" && r.Rep > 0:
					ref, kind = soloFirst[r.Proc], "repeat"
				case r.Mode == "solo":
					kind = "process"
				case r.Mode == "after":
					kind = "after"
				case r.Mode == "afterclean":
					kind = "afterclean"
				case r.Mode == "fixed":
					// fixed-order batches are compared with each other (same history, new map
					// seeds) and the first of them with the solo run (history of other programs)
					if r.Proc != fixedFirst.Proc {
						ref, kind = *fixedFirst, "process"
					} else {
						kind = "batch"
					}
				case r.Mode == "batch":
					kind = "batch"
				}
				if r.Obs.key() == ref.Obs.key() || kinds[kind] {
					continue
				}
				kinds[kind] = true
				field := "value"
				if r.Obs.V == ref.Obs.V {
					field = "stdout"
					if r.Obs.O == ref.Obs.O {
						field = "error"
					}
				}
				diffs = append(diffs, Diff{ID: p.ID, Tags: p.Tags, File: p.File, Program: p.Src, Kind: kind,
					WhereA: where(ref), WhereB: where(r), A: ref.Obs, B: r.Obs, Field: field, NDist: len(distinct),
					RegDiff: ref.Reg != r.Reg, SymDiff: half(ref.Sym, 0) != half(r.Sym, 0), BSymDiff: half(ref.Sym, 1) != half(r.Sym, 1)})
				dd := &diffs[len(diffs)-1]
				dd.OnlyA, dd.OnlyB, dd.CommonOrder = compareOrders(ref.TypeOrder, r.TypeOrder)
			}
		}
		if os.Getenv("C20_SHOW") != "" {
			fmt.Printf("%-32s V=%.150q O=%.100q E=%.200q\n", p.ID, base.Obs.V, base.Obs.O, base.Obs.E)
		}
		impl := "det"
		if len(kinds) > 0 {
			ks := []string{}
			for k := range kinds {
				ks = append(ks, k)
			}
			sort.Strings(ks)
			impl = "nondet:" + strings.Join(ks, ",")
		}
		if budget {
			impl = "budget"
		}
		tags := append([]string{}, p.Tags...)
		cls := "value"
		if base.Obs.E != "" {
			cls = "error"
		}
		tags = append(tags, "outcome:"+cls, "verdict:"+strings.SplitN(impl, ":", 2)[0])
		out.Case(p.ID, impl, !budget, tags...)
	}
	db, _ := json.MarshalIndent(diffs, "", " ")
	os.WriteFile(filepath.Join(dir, "C20.diffs.json"), db, 0644)
	nf := 0
	failList := []string{}
	for ji, f := range fails {
		if f != "" {
			nf++
			if len(failList) < 10 {
				failList = append(failList, fmt.Sprintf("%s sel=%d proc=%d: %s", jobs[ji].mode, jobs[ji].sel, jobs[ji].proc, f))
			}
		}
	}
	if corrStats != nil {
		out.Extra["corr"] = corrStats
	}
	out.Extra["alias_groups"] = aliasGroups()
	out.Extra["registry_names"] = registryNames
	out.Extra["programs"] = len(progs)
	out.Extra["corpus_programs_available"] = len(cps)
	out.Extra["corpus_skipped_nondeterministic_builtins"] = skipped
	out.Extra["generated_programs"] = len(gen)
	out.Extra["processes_spawned"] = len(jobs)
	out.Extra["observations_compared"] = total
	out.Extra["child_failures"] = nf
	out.Extra["child_failure_examples"] = failList
	out.Extra["programs_with_differences"] = countIDs(diffs)
	out.Extra["runs_per_program"] = fmt.Sprintf("%d fresh processes x %d in-process repeats + %d after-other-interpreters + %d shuffled batches + %d fixed-order batches", nproc, nrep, nafter, nbatch, nfixed)
	out.Close(args.Stats)
	fmt.Printf("c20: %d programs, %d processes, %d observations, %d differences, %d child failures\n", len(progs), len(jobs), total, len(diffs), nf)
}

func countIDs(ds []Diff) int {
	m := map[string]bool{}
	for _, d := range ds {
		m[d.ID] = true
	}
	return len(m)
}

func modeRank(m string) int {
	switch m {
	case "solo":
		return 0
	case "after", "afterclean":
		return 1
	case "fixed":
		return 2
	}
	return 3
}

func where(r Rec) string { return fmt.Sprintf("%s process %d, run %d", r.Mode, r.Proc, r.Rep) }

func half(s string, i int) string {
	p := strings.SplitN(s, "/", 2)
	if i < len(p) {
		return p[i]
	}
	return ""
}

func compareOrders(a, b []string) (onlyA, onlyB []string, same bool) {
	inA, inB := map[string]bool{}, map[string]bool{}
	for _, n := range a {
		inA[n] = true
	}
	for _, n := range b {
		inB[n] = true
	}
	var ca, cb []string
	for _, n := range a {
		if inB[n] {
			ca = append(ca, n)
		} else {
			onlyA = append(onlyA, n)
		}
	}
	for _, n := range b {
		if inA[n] {
			cb = append(cb, n)
		} else {
			onlyB = append(onlyB, n)
		}
	}
	return onlyA, onlyB, strings.Join(ca, "\x00") == strings.Join(cb, "\x00")
}

func hasTag(p Prog, t string) bool {
	for _, x := range p.Tags {
		if x == t {
			return true
		}
	}
	return false
}
