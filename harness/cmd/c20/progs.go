package main

import (
	"fmt"
	"hash/fnv"
	"regexp"
	"sort"
	"strings"

	"github.com/glycerine/zygomys/v9/zygo"

	"verif/harness/lib"
)

// generated returns the script-level triggers of the map-walk sites of the census
// (coq/Generated/Census.v).  The tag "site:<file:func>" names the walk a program drives.
func generated(rng *lib.Rng) []Prog {
	var ps []Prog
	add := func(id, src string, tags ...string) {
		ps = append(ps, Prog{ID: "gen/" + id, Src: src, Tags: append([]string{"generated"}, tags...)})
	}
	// a hash with a seed-dependent set of keys (symbol, string and integer keys mixed)
	nk := 6 + rng.Intn(6)
	var kv []string
	for i := 0; i < nk; i++ {
		switch rng.Intn(4) {
		case 0:
			kv = append(kv, fmt.Sprintf(`"s%d" %d`, i, rng.Intn(100)))
		default:
			kv = append(kv, fmt.Sprintf(`k%d:%d`, i, rng.Intn(100)))
		}
	}
	H := "(def h (hash " + strings.Join(kv, " ") + ")) "
	add("hash-str", H+`(str h)`, "site:hashutils.go:SexpString")
	add("hash-keys", H+`(keys h)`)
	add("hash-json", H+`(raw2str (json h))`, "site:jsonmsgp.go:SexpToGo")
	add("hash-json-back", H+`(str (unjson (json h)))`, "site:jsonmsgp.go:GoToSexp", "site:jsonmsgp.go:makeSortedSlicesFromMap")
	add("hash-msgpack", H+`(msgpack h)`, "site:jsonmsgp.go:SexpToGo")
	add("hash-msgpack-back", H+`(str (unmsgpack (msgpack h)))`, "site:jsonmsgp.go:makeSortedSlicesFromMap")
	add("hash-del-set", H+`(hdel h (quote k1)) (hset h (quote zz) 26) (hset h "s0" 3) (str h)`)
	add("hash-json2", H+`(json2 h)`)
	add("hash-print", H+`(println h) (print (keys h)) (printf "%v %v\n" (str h) (len h))`, "stdout")
	add("hash-nested", `(def g (hash a:(hash x:1 y:(hash p:[1 2 {q:1 r:2}] o:2) z:3) b:[(hash m:1 n:2)] c:"s")) (str (unmsgpack (msgpack g)))`, "site:jsonmsgp.go:makeSortedSlicesFromMap")
	add("hash-clone", H+`(def h2 (hash)) (for [(def i 0) (< i (len h)) (set i (+ i 1))] (hset h2 (first (hpair h i)) (second (hpair h i)))) (str h2)`, "site:hashutils.go:CloneFrom")
	add("hash-range", H+`(def acc []) (range k v h (set acc (append acc k))) acc`)
	add("hash-empty", `(def e (hash)) [(empty? e) (len e) (str e) (raw2str (json e))]`, "site:hashutils.go:HashIsEmpty")
	add("json-text-in", "(str (unjson (raw `{\"z\":1, \"y\":2, \"x\":{\"q\":[1,2,{\"w\":3,\"v\":4}]}, \"a\":5, \"m\":null, \"k\":true}`)))", "site:jsonmsgp.go:makeSortedSlicesFromMap")
	add("json-text-in-keys", "(keys (unjson (raw `{\"z\":1, \"y\":2, \"x\":3, \"w\":4, \"v\":5, \"u\":6, \"t\":7, \"s\":8, \"r\":9}`)))", "site:jsonmsgp.go:makeSortedSlicesFromMap")
	// comparator-tie candidates for the sorted walks reachable from a script: keys that collide
	// under case folding (ASCII and Unicode pairs), under numeric reading, under trimming
	jfold := func(id, obj string) {
		add("json-keys-"+id, "(def d (unjson (raw `"+obj+"`))) [(str d) (keys d)]", "site:jsonmsgp.go:makeSortedSlicesFromMap", "comparator-ties")
		add("json-keys-"+id+"-msgpack", "(def d (unjson (raw `"+obj+"`))) (msgpack d)", "site:jsonmsgp.go:makeSortedSlicesFromMap", "comparator-ties")
	}
	jfold("case", `{"id":1,"ID":2,"Id":3,"iD":4,"name":5,"NAME":6,"Name":7}`)
	jfold("unicode-case", `{"é":1,"É":2,"straße":3,"STRASSE":4,"strasse":5,"ǆ":6,"ǅ":7,"Ǆ":8,"σ":9,"ς":10,"Σ":11,"ı":12,"I":13,"i":14,"İ":15}`)
	jfold("numeric", `{"1":1,"01":2,"1.0":3,"+1":4,"1e0":5,"001":6,"10":7,"9":8,"1 ":9}`)
	jfold("space-prefix", `{"a":1,"a ":2," a":3,"a\\u0000":4,"ab":5,"A":6,"_a":7,"-a":8}`)
	jfold("nested-case", `{"x":{"k":1,"K":2,"kk":3,"kK":4,"Kk":5,"KK":6},"X":{"q":[{"w":3,"W":4}]}}`)
	add("package-case-names", `(def p (package "p" { Ab := 1; AB := 2; Abc := 3; ABc := 4; ABC := 5; A := 6 })) (str p)`, "site:scopes.go:Show", "comparator-ties")
	add("symnum-case-types", `[(symnum (quote c20two)) (symnum (quote C20Two)) (symnum (quote nestouter)) (symnum (quote NestOuter)) (symnum (quote nestinner)) (symnum (quote NestInner))]`, "site:gotypereg.go:ImportBaseTypes", "comparator-ties")
	add("cli-countcalls-case", cliPrefix+`(defn ab [] 1) (defn AB [] 2) (defn Ab [] 3) (defn aB [] 4) (ab) (AB) (Ab) (aB) (ab) (+ 1 2)`, "site:repl.go:sortedCountNames", "stdout", "cli", "comparator-ties")
	// raw encoder output of multi-key hashes and records (the bytes themselves, not the round trip)
	add("msgpack-raw-nested", `(msgpack (hash zeta:1 alpha:(hash m:1 c:2 x:3 a:4 q:5) mid:[1 2 (hash y:1 b:2 k:3)] beta:"s" gamma:2.5 delta:nil))`, "site:jsonmsgp.go:SexpToGo", "raw-bytes")
	add("msgpack-raw-record", `(def ev1 (eventdemo id:456 user: (persondemo first:"jay" last:"son") flight:"A" pilot:["u" "2"])) (msgpack ev1)`, "raw-bytes")
	add("msgpack-raw-defmap", `(defmap ranch) (msgpack (ranch cowboy:"Jim" cowgirl:"Jane" cows:["Zelda" "Montgommery"] acres:12 brand:"lazy8"))`, "raw-bytes")
	add("json-raw-nested", `(raw2str (json (hash zeta:1 alpha:(hash m:1 c:2 x:3 a:4 q:5) mid:[1 2 (hash y:1 b:2 k:3)] beta:"s" gamma:2.5)))`, "raw-bytes")
	add("msgpack-nonstring-keys", `(msgpack (hash 1 2 3 4 5 6 7 8))`, "site:jsonmsgp.go:SexpToGo")
	add("msgpack-mixed-keys", `(msgpack (hash 1 2 3.5 4 (quote a) 6 [1] 8))`, "site:jsonmsgp.go:SexpToGo", "error-candidates")
	add("msgpack-colliding-keys", `(def c (hash a:1 "a":2 b:3 "b":4 c:5 "c":6)) (str (unmsgpack (msgpack c)))`, "site:jsonmsgp.go:SexpToGo", "colliding-keys")
	add("json-colliding-keys", `(def c (hash a:1 "a":2 b:3 "b":4)) (raw2str (json c))`, "colliding-keys")
	// records of Go-registered types
	add("record-str", `(def s (snoopy cry:"yeah" pack:[1 2 3])) (str s)`)
	add("record-togo", `(def s (snoopy cry:"yeah" pack:[1 2 3] speed:7 id:3)) (togo s)`, "site:jsonmsgp.go:SexpToGoStructs")
	add("record-togo-nested", `(def ev1 (eventdemo id:456 user: (persondemo first:"jay" last:"son") flight:"A" pilot:["u" "2"])) [(togo ev1) (str ev1)]`, "site:jsonmsgp.go:SexpToGoStructs")
	add("record-json", `(def ev1 (eventdemo id:456 user: (persondemo first:"jay" last:"son") flight:"A" pilot:["u" "2"])) (raw2str (json ev1))`)
	add("record-json-back", `(def ev1 (eventdemo id:456 user: (persondemo first:"jay" last:"son") flight:"A" pilot:["u" "2"])) (str (unjson (json ev1)))`)
	add("record-msgpack-back", `(def ev1 (eventdemo id:456 user: (persondemo first:"jay" last:"son") flight:"A" pilot:["u" "2"])) (str (unmsgpack (msgpack ev1)))`)
	add("record-fromgo-method", `(def w (weather type:"delightful" size:888)) (def c2 (_method (snoopy cry:"yeah!") EchoWeather: w)) (str c2)`, "site:callgo.go:CallGoMethodFunction", "site:hashutils.go:fillHashHelper")
	add("record-fromgo-type", `(def w (weather type:"delightful" size:888)) (def c2 (_method (snoopy cry:"yeah!") EchoWeather: w)) (type? (aget c2 0))`, "site:callgo.go:CallGoMethodFunction")
	add("record-method-call", `(_method (snoopy cry:"yeah!") Fly: (weather type:"awesomesauce"))`, "site:callgo.go:CallGoMethodFunction")
	add("record-methodls", `(def s (snoopy)) [(methodls s) (fieldls s) (methodls (weather)) (fieldls (hornet))]`, "both-after")
	add("record-nested-two-names", `(def no (nestouter inner:(nestinner hello:"hi"))) [(str no) (togo no)]`, "site:hashutils.go:fillHashHelper", "two-names")
	add("record-nested-field-type", `(def no (nestouter inner:(nestinner hello:"hi"))) (togo no) (def i no.inner) [(type? i) (str i)]`, "site:hashutils.go:fillHashHelper", "two-names")
	add("record-nested-fromshadow", `(def no (nestouter inner:(nestinner hello:"hi"))) (togo no) (str (fromgo no))`, "site:hashutils.go:fillHashHelper", "two-names")
	add("gotype-fromgo-nested", `(def r (_method (c20outer tag:"t") Echo: (c20outer inner:(c20inner hello:"hi" n:3) tag:"x"))) (str r)`, "site:hashutils.go:fillHashHelper", "site:callgo.go:CallGoMethodFunction", "two-names")
	add("gotype-fromgo-nested-type", `(def r (_method (c20outer tag:"t") Echo: (c20outer inner:(c20inner hello:"hi" n:3) tag:"x"))) (type? (hget (aget r 0) (quote inner)))`, "site:hashutils.go:fillHashHelper", "two-names")
	add("gotype-fromgo-twonames", `(def r (_method (c20two a:1) Echo: (c20two a:5))) (str r)`, "site:callgo.go:CallGoMethodFunction", "two-names")
	add("gotype-togo", `(def o (c20outer inner:(c20inner hello:"hi" n:3) tag:"x")) (togo o)`, "site:jsonmsgp.go:SexpToGoStructs")
	add("gotype-togo-map", `(def o (c20outer tag:"x" m:(hash a:1.5 b:2 c:3.5 d:4 e:5) s:(hash k1:"v1" k2:"v2" k3:"v3"))) (togo o)`, "site:jsonmsgp.go:SexpToGoStructs")
	add("gotype-togo-map-colliding", `(def o (c20outer tag:"x" m:(hash a:1.5 "a":2.5 b:3.5 "b":4.5 c:5.5 "c":6.5))) (togo o)`, "site:jsonmsgp.go:SexpToGoStructs", "colliding-keys")
	add("gotype-togo-map-badkeys", `(def o (c20outer tag:"x" m:(hash 1 1.5 2 2.5 3 3.5 4 4.5))) (togo o)`, "site:jsonmsgp.go:SexpToGoStructs", "error-candidates")
	add("gotype-togo-map-badvals", `(def o (c20outer tag:"x" s:(hash a:1 b:2 c:3 d:4))) (togo o)`, "site:jsonmsgp.go:SexpToGoStructs", "error-candidates")
	// every script-level route that COPIES a hash/record: derefSet of a whole record through a pointer
	// (functions.go:DerefFunction -> SexpHash.CloneFrom -> CopyMap), then everything that walks the copy
	walkIt := `[(str w) (keys w) (raw2str (json w)) (str (hpair w 0)) (str (hpair w 1)) (len w) (msgpack w)]`
	add("derefset-demo-record", `(def w (hornet speed:1 nickname:"x" mass:0.5 SpanCm:1)) (def pw (& w)) (derefSet pw (hornet speed:567 nickname:"Bob" mass:4.2 SpanCm:8877)) `+walkIt, "site:hashutils.go:CloneFrom", "site:hashutils.go:CopyMap", "hash-copy")
	add("derefset-demo-record-fresh", `(def w (hornet)) (def pw (& w)) (derefSet pw (hornet speed:567 nickname:"Bob" mass:4.2 SpanCm:8877)) `+walkIt, "site:hashutils.go:CloneFrom", "site:hashutils.go:CopyMap", "hash-copy")
	add("derefset-demo-record-range", `(def w (snoopy cry:"a")) (def pw (& w)) (derefSet pw (snoopy cry:"yeah" pack:[1 2 3] speed:7 id:3 SpanCm:9)) (def acc []) (range k v w (set acc (append acc k))) [acc (str (deref pw)) (togo w)]`, "site:hashutils.go:CloneFrom", "hash-copy")
	add("derefset-demo-record-source-intact", `(def src (weather type:"fine" size:3 time:nil)) (def w (weather type:"x")) (def pw (& w)) (derefSet pw src) (hset src (quote size) 4) [(str w) (str src) (keys w) (keys src)]`, "site:hashutils.go:CloneFrom", "hash-copy")
	add("derefset-user-struct", `(struct Bike [(field Make: string e:0) (field Year: int64 e:1) (field Miles: float64 e:2) (field Owner: string e:3)]) (def b (Bike Make:"a")) (def pb (& b)) (derefSet pb (Bike Make:"vw" Year:1970 Miles:1.5 Owner:"me")) [(str b) (keys b) (raw2str (json b))]`, "site:hashutils.go:CloneFrom", "hash-copy", "registry")
	add("derefset-twice", `(def w (hornet speed:1)) (def pw (& w)) (derefSet pw (hornet speed:2 nickname:"a" mass:1.5)) (derefSet pw (hornet mass:2.5 SpanCm:3 nickname:"b" speed:9)) [(str w) (keys w)]`, "site:hashutils.go:CloneFrom", "hash-copy")
	// errors with SEVERAL offenders: whichever is reported must be the same in every run
	tf := "(func trundle [a:int64 b:string c:float64] [n:int64 err:error] { (return 1 nil) }) "
	add("error-named-args-unknown", tf+`(trundle speed:1 b:"hi" weight:3 colour:"red" zeta:5 a:2)`, "error-candidates", "multi-offender")
	add("error-named-args-missing", tf+`(trundle b:"hi")`, "error-candidates", "multi-offender")
	add("error-named-args-illtyped", tf+`(trundle a:"x" b:3 c:"y")`, "error-candidates", "multi-offender")
	add("error-struct-illtyped-fields", `(struct Boat [(field Make: string e:0) (field Year: int64 e:1) (field Miles: float64 e:2)]) (Boat Year:"x" Make:12 Miles:"y")`, "error-candidates", "multi-offender", "registry")
	add("error-struct-unknown-fields", `(struct Boat2 [(field Make: string e:0)]) (Boat2 Zz:1 Yy:2 Xx:3 Ww:4)`, "error-candidates", "multi-offender", "registry")
	add("error-record-illtyped-togo", `(togo (snoopy cry:12 pack:"no" speed:"fast" id:"seven"))`, "error-candidates", "multi-offender", "site:jsonmsgp.go:SexpToGoStructs")
	add("error-undefined-several", `(defn f [] (list undefined_a undefined_b undefined_c)) (f)`, "error-candidates", "multi-offender")
	// decoded objects whose field names the interpreter has never seen (they occur only inside raw text):
	// the symbol numbers the decoder gives them, with and without a zKeyOrder member
	dec := func(id, obj string) {
		add("decode-new-names-"+id, "(def d (unjson (raw `"+obj+"`))) (def ks (keys d)) [(str d) (symnum (aget ks 0)) (symnum (aget ks 1)) (symnum (aget ks 2)) (symnum (aget ks 3)) (< (aget ks 0) (aget ks 1)) (< (aget ks 2) (aget ks 3)) (symnum (quote afterwards))]", "site:jsonmsgp.go:decodeGoToSexpHelper", "site:jsonmsgp.go:makeSortedSlicesFromMap", "decode-intern-order")
	}
	dec("plain", `{"qqd":4,"qqa":1,"qqc":3,"qqb":2}`)
	dec("zkeyorder", `{"Atype":"hash","qqd":4,"qqa":1,"qqc":3,"qqb":2,"zKeyOrder":["qqd","qqa","qqc","qqb"]}`)
	dec("zkeyorder-nested", `{"Atype":"hash","rrd":{"Atype":"hash","ssb":1,"ssa":2,"zKeyOrder":["ssb","ssa"]},"rra":1,"rrc":3,"rrb":2,"zKeyOrder":["rrd","rra","rrc","rrb"]}`)
	add("decode-new-names-msgpack", "(def d (unmsgpack (msgpack (unjson (raw `{\"Atype\":\"hash\",\"ttd\":4,\"tta\":1,\"ttc\":3,\"ttb\":2,\"zKeyOrder\":[\"ttd\",\"tta\",\"ttc\",\"ttb\"]}`))))) (def ks (keys d)) [(str d) (symnum (aget ks 0)) (symnum (aget ks 1)) (symnum (aget ks 2)) (symnum (quote afterwards))]", "site:jsonmsgp.go:decodeGoToSexpHelper", "decode-intern-order")
	// a program that edits in place what builtins returned, then asks again (a second fresh
	// interpreter of the same process must start from the same lists: compare run 0 with run 1)
	add("edit-returned-lists", `(def s (snoopy)) (def ml (methodls s)) (aset ml 0 "edited") (def fl (fieldls s)) (aset fl 0 "edited") (def tl (typelist)) (aset tl 0 "edited") (def ks (keys (hornet speed:1 mass:2.5))) (aset ks 0 (quote edited)) [(methodls (snoopy)) (fieldls (snoopy)) (aget (typelist) 0) (keys (hornet speed:1 mass:2.5))]`, "hash-copy", "both-after")
	add("edit-returned-lists-error", `(def s (snoopy)) (aset (methodls s) 1 "edited") (aset (fieldls s) 1 "edited") (_method (snoopy) NoSuchMethod:)`, "error-candidates", "both-after")
	// ordering and equality of hashes/records of one type that differ in several members
	cmpLines := []string{
		`(def h1 (hash a:1 b:9 c:5 d:"x" e:2.5))`, `(def h2 (hash a:9 b:1 c:5 d:"x" e:2.5))`, `(def h3 (hash a:1 b:9 c:5 d:7 e:0.5))`, `(def h4 (hash a:1 b:9 c:5 d:"x" e:2.5))`,
		`(def r1 (hornet speed:1 mass:9.5 nickname:"a" SpanCm:3))`, `(def r2 (hornet speed:9 mass:1.5 nickname:"b" SpanCm:3))`, `(def r3 (hornet speed:"fast" mass:1.5 nickname:7 SpanCm:4))`,
	}
	for _, op := range []string{"<", ">", "<=", ">=", "==", "!="} {
		for _, pr := range [][2]string{{"h1", "h2"}, {"h2", "h1"}, {"h1", "h3"}, {"h3", "h1"}, {"h1", "h4"}, {"h2", "h3"}, {"r1", "r2"}, {"r2", "r1"}, {"r1", "r3"}, {"r3", "r2"}, {"h1", "r1"}} {
			cmpLines = append(cmpLines, fmt.Sprintf("(%s %s %s)", op, pr[0], pr[1]))
			cmpLines = append(cmpLines, fmt.Sprintf("[(%s %s %s) (%s %s %s) (%s %s %s)]", op, pr[0], pr[1], op, pr[0], pr[1], op, pr[0], pr[1]))
		}
		cmpLines = append(cmpLines, fmt.Sprintf("(%s [h1 h2] [h2 h1])", op), fmt.Sprintf("(%s [1 h1 r1] [1 h3 r3])", op), fmt.Sprintf("(%s (list h1 h2) (list h2 h3))", op),
			fmt.Sprintf("(%s (hash k:h1 m:h2) (hash k:h2 m:h1))", op))
	}
	add("cmpsweep-hashes", eachLinePrefix+strings.Join(cmpLines, "\n"), "compare", "error-candidates")
	add("hash-compare-opposite", `(def h1 (hash a:1 b:9 c:3 d:8 e:5 f:6)) (def h2 (hash a:9 b:1 c:8 d:3 e:6 f:5)) [(< h1 h2) (> h1 h2) (<= h1 h2) (>= h1 h2) (== h1 h2) (!= h1 h2) (< h2 h1) (== [h1] [h2])]`, "compare")
	add("hash-compare-incomparable", `(def h1 (hash a:1 b:"s" c:3 d:[1] e:5)) (def h2 (hash a:2 b:7 c:4 d:"t" e:6)) (== h1 h2)`, "compare", "error-candidates")
	add("field-uncomparable-keys", `(def f (field [car 1] 2)) (def g (field [car 1] 2 [cdr 2] 3 [(quote q) 7] 4 a:5)) [(str f) (str g)]`, "site:builders.go:valueStoredUnder")
	// distinct keys with the SAME hash code (they share a bucket): a symbol and the integer equal
	// to its symbol number, a string and the integer equal to its FNV-32 code
	fnv32 := func(t string) uint32 { h := fnv.New32(); h.Write([]byte(t)); return h.Sum32() }
	add("hash-same-bucket-symbol-int", `(def h (hash)) (hset h (quote speed) 1) (hset h (symnum (quote speed)) 2) (hset h (quote mass) 3) (hset h (symnum (quote mass)) 4) (hset h (symnum (quote speed)) 5) [(str h) (keys h) (hget h (quote speed)) (hget h (symnum (quote speed))) (len h) (raw2str (json h))] `, "hash-collision", "stdout")
	add("hash-same-bucket-string-int", fmt.Sprintf("(def h (hash)) (hset h \"abc\" 1) (hset h %d 2) (hset h \"zygo\" 3) (hset h %d 4) (hdel h \"abc\") (hset h \"abc\" 6) [(str h) (keys h) (hget h \"zygo\") (hget h %d) (len h)]", fnv32("abc"), fnv32("zygo"), fnv32("zygo")), "hash-collision", "stdout")
	add("hash-same-bucket-literal", fmt.Sprintf("(def n (symnum (quote qcol))) (def h (hash qcol:1 \"abc\" 2)) (hset h n 3) (hset h %d 4) (println (str h)) (println (keys h)) (hdel h n) (str h)", fnv32("abc")), "hash-collision", "stdout")
	{
		lines := []string{"(def h (hash))"}
		for _, nm := range []string{"car", "cdr", "append", "speed", "zz9", "a", "hash", "error", "snoopy"} {
			lines = append(lines, fmt.Sprintf("(hset h (quote %s) 1)", nm), fmt.Sprintf("(hset h (symnum (quote %s)) 2)", nm), fmt.Sprintf("(hset h \"%s\" 3)", nm), fmt.Sprintf("(hset h %d 4)", fnv32(nm)),
				fmt.Sprintf("[(hget h (quote %s)) (hget h (symnum (quote %s))) (hget h \"%s\") (hget h %d)]", nm, nm, nm, fnv32(nm)))
		}
		lines = append(lines, "(str h)", "(keys h)", "(len h)", "(hdel h (symnum (quote car)))", "(hdel h (quote cdr))", "(str h)", "(raw2str (json h))", "(str (unmsgpack (msgpack (hash a:1 b:2))))")
		add("bucketsweep", eachLinePrefix+strings.Join(lines, "\n"), "hash-collision", "stdout")
	}
	// calendar functions (deterministic: no clock involved)
	add("time-calendar", `[(str (nextBusinessDay (date "2016/02/26"))) (str (nextBusinessDay (date "2016/12/30"))) (str (date "2016/02/26"))]`, "time", "both-after")
	add("time-astm-of-date", `[(str (astm (date "2016/02/26"))) (str (astm (date "2020/07/04")))]`, "time", "both-after")
	add("time-printf", `(printf "%v|%v\n" (astm (date "2016/02/26")) (date "2016/03/01")) (println (astm (date "2019/11/11")))`, "time", "stdout", "both-after")
	add("time-astm-string", `[(str (astm "2016-02-26T12:00:00Z")) (str (astm 1456488000)) (str (dur "1h30m")) (< (astm "2016-02-26T12:00:00Z") (astm "2017-02-26T12:00:00Z"))]`, "time", "both-after")
	// JSON/msgpack decoding of edge and broken texts, with ordinary decodes before and after (a
	// second interpreter of the process must decode the ordinary texts the same way)
	{
		ord := []string{"(str (unjson (raw `[5, 0, -3, 7.5, 123456789012]`)))", "(str (unjson (raw `{\"a\":5,\"b\":[1,2],\"c\":9007199254740993}`)))", "(str (unmsgpack (msgpack (hash a:5 b:[1 2 3] c:-7))))", "(type? (aget (unjson (raw `[5]`)) 0))"}
		edge := []string{"[18446744073709551615, 5, -3 ", "[18446744073709551615]", "[18446744073709551616]", "[9223372036854775807, 9223372036854775808]", "[9223372036854775808, 1", "{\"a\":18446744073709551615,", "[-9223372036854775809]", "[1e400]", "[1e400, 5", "[1E-400]", "[0.1e", "[01]", "[+1]", "[1.]", "[.5]", "[NaN]", "[Infinity, 1", "{\"a\":", "{\"a\"}", "{a:1}", "[1,]", "[,1]", "[1 2]", "\"abc", "\"\\u12\"", "\"\\ud800\"", "tru", "nul", "[true, fals", "", " ", "[[[[[[[[[[1]]]]]]]]]", "[[[[[[[[[[1]]]]]]]]]]", "{\"zKeyOrder\":[\"a\"],\"a\":1,\"Atype\":\"hash\"}", "{\"zKeyOrder\":5,\"a\":1}", "{\"Atype\":5,\"a\":1}", "{\"Atype\":\"nosuchtype\",\"a\":1}", "{\"a\":1,\"a\":2}", "[18446744073709551615, {\"a\":"}
		lines := append([]string{}, ord...)
		for _, e := range edge {
			lines = append(lines, "(str (unjson (raw `"+e+"`)))", "(str (unmsgpack (raw `"+e+"`)))")
		}
		lines = append(lines, ord...)
		add("decodesweep", eachLinePrefix+strings.Join(lines, "\n"), "decode-sweep", "error-candidates", "both-after")
	}
	add("record-unknown-field", `(snoopy nosuchfield:1 alsonot:2 third:3)`, "error-candidates")
	add("record-unknown-fields-togo", `(def s (snoopy cry:"a")) (hset s (quote zzz) 1) (hset s (quote yyy) 2) (hset s (quote xxx) 3) (togo s)`, "site:jsonmsgp.go:SexpToGoStructs", "error-candidates")
	add("record-no-method", `(_method (snoopy) NoSuchMethod:)`, "error-candidates", "both-after")
	add("record-setofplanes", `(def sp (setOfPlanes flyers:[(snoopy cry:"a") (hornet mass:1.5) (hellcat id:7)])) [(togo sp) (str sp)]`, "site:jsonmsgp.go:SexpToGoStructs")
	// declared structs (process-global registry)
	car := `(struct Car [(field Make: string e:0) (field Year: int64 e:1) (field Miles: float64 e:2)]) `
	add("struct-decl", car+`(def c (Car Make:"vw" Year:1970 Miles:1.5)) [(str c) (str Car) (raw2str (json c))]`, "site:builders.go:StructBuilder", "registry")
	add("struct-decl-twice", car+`(struct Car [(field Make: string e:0)]) (str (Car Make:"x"))`, "registry")
	add("struct-bad-field", car+`(Car Nope:1 AlsoNope:2)`, "error-candidates", "registry")
	add("struct-type-err", car+`(Car Make:12)`, "registry")
	add("struct-typelist", car+`(typelist)`, "registry", "site:gotypereg.go:register")
	add("typelist", `(typelist)`, "registry", "site:gotypereg.go:register")
	add("struct-msgpack-back", car+`(def c (Car Make:"vw" Year:1970 Miles:1.5)) (str (unmsgpack (msgpack c)))`, "registry")
	add("struct-var", car+`(var cc Car) (str cc)`, "registry")
	add("defmap", `(defmap ranch) (def lazy8 (ranch cowboy:"Jim" cowgirl:"Jane" cows:["Zelda" "Montgommery"])) [(str lazy8) (str (unjson (json lazy8))) (str (unmsgpack (msgpack lazy8)))]`)
	add("defined-types", `[(defined? (quote Car)) (defined? (quote Dist1)) (defined? (quote ranch)) (defined? (quote int64))]`, "registry")
	// symbols
	add("symnum-builtin", `[(symnum (quote car)) (symnum (quote cdr)) (symnum (quote append)) (symnum (quote zero?))]`, "site:environment.go:NewZlispWithFuncs")
	add("symnum-basetypes", `[(symnum (quote int64)) (symnum (quote string)) (symnum (quote error)) (symnum (quote packageScope)) (symnum (quote hash)) (symnum (quote time.Time))]`, "site:gotypereg.go:ImportBaseTypes")
	add("symnum-demo", `[(symnum (quote snoopy)) (symnum (quote weather)) (symnum (quote hornet)) (symnum (quote eventdemo)) (symnum (quote nestouter))]`, "site:gotypereg.go:ImportBaseTypes")
	add("symnum-fresh", `[(symnum (quote brandnew1)) (symnum (quote brandnew2))]`)
	add("symbol-order-types", `[(< (quote error) (quote packageScope)) (< (quote snoopy) (quote weather)) (< (quote hornet) (quote hellcat))]`, "site:gotypereg.go:ImportBaseTypes")
	add("symbol-order-builtins", `[(< (quote car) (quote cdr)) (< (quote append) (quote aget)) (< (quote aaa) (quote bbb)) (< (quote str) (quote len))]`, "site:environment.go:NewZlispWithFuncs")
	add("gensym", `[(gensym) (gensym) (str (gensym))]`, "generated-names")
	// scopes, packages, closures
	add("package-str", `(def foo (package "foo" { A := 1; B := "two"; Cc := 3.5; D := [1 2]; e := (hash a:1) })) (str foo)`, "site:scopes.go:Show")
	add("package-shared-value", `(def foo (package "foo" { A := (hash a:1 b:2); B := A; C := A; D := [A A] })) (str foo)`, "site:scopes.go:Show", "shared")
	add("package-nested", `(def outer (package "outer" { X := 1; Inner := (package "inner" { Y := 2; Z := 3 }); W := Inner; V := Inner })) (str outer)`, "site:scopes.go:Show", "shared")
	add("closure-str", `(defn mk [a b c] (fn [x] (+ a b c x))) (str (mk 1 2 3))`, "site:scopes.go:Show")
	add("fn-str", `(defn f [a b] (let [q 1 r 2 s 3] (+ a b q r s))) (str f)`)
	add("stack-error", `(defn f [a] (let [q 1 r 2 s 3 t 4] (undefined_zzz a))) (f 1)`, "error-candidates", "site:scopes.go:Show")
	add("error-unbound", `(undefined_function_xyz 1 2)`, "error-candidates")
	add("error-hget", `(hget (hash a:1 b:2 c:3 d:4) (quote z))`, "error-candidates")
	add("error-assert", `(assert (== 1 2))`, "error-candidates")
	add("error-arity", `(defn f [a b] a) (f 1 2 3)`, "error-candidates")
	add("error-type", `(+ 1 "a")`, "error-candidates")
	add("error-dot", `(def h (hash a:1 b:2)) h.zz`, "error-candidates")
	add("infix", `{a := 3; b := a * 2 + 1} [a b {a < b}]`, "infix")
	add("infix-index", `(def a [10 20 30]) (def h (hash x:1 y:2)) [{a[1] + a[2]} {a[0] * 2} {h.x + h.y}]`, "infix")
	add("infix-index-assign", `(def a [10 20 30]) {a[0] = 5} {b := a[2] * 2 + a[0]} (def h (hash x:1)) {h.x = 7} [a b h]`, "infix")
	add("anon-arity-error", `((fn [x] x) 1 2)`, "error-candidates", "generated-names")
	add("generated-names", `(def f (fn [x] x)) (defn g [] (for [(def i 0) (< i 2) (set i (+ i 1))] i)) [(str f) (gensym) (gensym "tmp") (str (fn [y] y)) (g)]`, "generated-names")
	add("macro", `(defmac when2 [c & body] ^(cond ~c (begin ~@body) nil)) (when2 true 1 2 3)`)
	add("sort-arith", `(def a [3 1 2]) (def s 0) (for [(def i 0) (< i 3) (set i (+ i 1))] (set s (+ s (aget a i)))) s`)
	add("println-many", `(println "a") (printf "%v %v\n" (str [1 2 (hash x:1 y:2)]) "s") (print 1 2 3)`, "stdout")
	add("sprintf-hash", `(sprintf "%v|%v" (str (hash b:1 a:2)) (str (quote sym)))`)
	add("env-globals-hash-of-fns", `(def h (hash f:car g:cdr h:(fn [x] x))) (str h)`)
	add("chars-raw", `[(str (raw "abc")) (str 'c') (str 1.5) (str (quote (a b c)))]`)
	add("cli-countcalls", cliPrefix+`(def a (+ 1 2)) (def b (* a 3)) (def c (- b 1)) (def l (list a b c)) (def s (str l)) (len s) (car l) (cdr l) (append [1] 2) (concat "a" "b")`, "site:repl.go:sortedCountNames", "stdout", "cli")
	// syntax sweeps: malformed (and a few well-formed) source texts through every whole-text entry
	// point (EvalString, LoadStream, LoadString, ParseFile, the read builtin): the error text of the
	// lexer/parser must be the same in every run
	for _, sw := range syntaxSweeps() {
		add(sw[0], syntaxPrefix+sw[1], "syntax-sweep", "error-candidates")
	}
	// error sweep: every builtin called with arguments whose Go representation holds pointers
	// (hash, record, function, closure, array, package, pointer) in 1-3 positions; mostly errors.
	// The text of every error (and every value) must be the same in every run.
	for _, sw := range errorSweeps() {
		add(sw[0], eachLinePrefix+sw[1], "error-sweep", "error-candidates")
	}
	return ps
}

var sweepSkip = regexp.MustCompile(`^(sys|system|random|now|timeit|sleep|owritef|writef|save|bsave|bload|go|makeChan|<!|>!|readline|exit|stop|rmsym|setenv|getenv|slurpf|readf|_closdump|dump|registerDemoFunctions|source|req|input|gob|greenpack|print|println|printf|sprintf|import|togo|fromgo|struct|defmap|msgmap|msgpack-map|declare-msgpack-map|&|var|func|interface|method|field|arrayOf|sliceOf|pointerTo|array|slice|makeArray|raw64|unbase64)$`)

func errorSweeps() [][2]string {
	names := []string{}
	for n := range zygo.AllBuiltinFunctions() {
		if !sweepSkip.MatchString(n) {
			names = append(names, n)
		}
	}
	sort.Strings(names)
	kinds := [][2]string{
		{"hash", `(def X (hash b:2 c:[1 2] d:(hash e:1)))`},
		{"record", `(def X (snoopy cry:"a" pack:[1 2]))`},
		{"fn", `(def X (fn [x] x))`},
		{"closure", `(def X ((fn [a] (fn [b] (+ a b))) 1))`},
		{"array", `(def X [1 (hash a:1) (fn [y] y)])`},
	}
	var out [][2]string
	for _, k := range kinds {
		var sb strings.Builder
		sb.WriteString(k[1] + "\n(def H (hash a:1))\n")
		for _, n := range names {
			fmt.Fprintf(&sb, "(%s X)\n(%s X X)\n(%s H X)\n(%s H X 3)\n(%s 1 X)\n", n, n, n, n, n)
		}
		// the keyed operations with an unhashable key
		sb.WriteString("(hset H X 3)\n(hget H X)\n(hdel H X)\n(hash X 1)\n(hget H X 0)\n(aget [1 2] X)\n(aset [1 2] X 1)\n{X + 1}\n(X 1 2 3)\n(X)\n")
		out = append(out, [2]string{"errsweep-" + k[0], sb.String()})
	}
	return out
}

func syntaxSweeps() [][2]string {
	var chars, strs, structure []string
	esc := "abcdefghijklmnopqrstuvwxyzABCXYZ0123456789 !#$%&()*+,-./:;<=>?@[]^_{|}~'\"\\"
	for _, c := range esc {
		chars = append(chars, "'\\"+string(c)+"'")
		strs = append(strs, "\"a\\"+string(c)+"b\"")
	}
	chars = append(chars, "''", "'ab'", "'a", "'", "'\\", "'\\u12'", "'\\u00e9'", "'\\x4'", "'\\x41'", "'\\123'", "'\\U0001F600'", "'é'", "'\\n' '\\q'", "(list 'a' '\\q' 'b')", "[1 '\\z']", "{a:'\\k'}")
	strs = append(strs, "\"abc", "\"", "\"\\u12\"", "\"\\x4\"", "\"\\U0001\"", "`abc", "(str \"a\\qb\")", "\"a\\\nb\"")
	structure = []string{"(", ")", "(()", "())", "[1 2", "1 2]", "{a:1", "a:1}", "(1 . )", "( . 1)", "(1 . 2 3)", "#", "#!", "1.2.3", "0x", "0xZZ", "1e", "1e+", "0b102", "0o9", "12abc", "1ULL2", "-", "--", "~", "~@", "^", "^(", "(quote", "%", "%(", "$", "@", "&", "a:b:c", ":", "::", "a.", ".a", "a..b", "a.b.", "/* abc", "*/", "// only a comment", "(+ 1 /* x", "(def)", "(fn)", "(let)", "(let [a] a)", "(cond)", "(for)", "(for [1 2] 3)", "(defn)", "(defn f)", "(defmac)", "(begin", "(return)", "(break)", "(continue)", "(set 1 2)", "(def 1 2)", "(1 2 3)", "(\"s\" 1)", "{", "}", "{1 +}", "{+ 1}", "{1 + + 2}", "{a := }", "{a[}", "{a[1}", "{(}", "{a.}", "{1 2}", "(package)", "(package 1)", "(struct)", "(struct Zq9)", "(struct Zq9 [1])", "(func)", "(var)", "(var x)", "(interface)", "(method)", "(import)", "(include)", "(include 1)", "(source)", "(source 1)", "(macexpand)", "(eval)", "(eval (", "(read)", "(read 1)", "(hash a:)", "(hash a)", "{a:1 b}", "[1 2 . 3]", "\\", "\\a", "a\\b", "(a 'b)", "x'", "1'", "\\n\\n(\\n", "(def a 1)\\n(def b '\\q')\\n(def c 3)", "(+ 1 2) (", "(+ 1 2) ) (+ 3 4)", "\u0000", "\u00a0(+ 1 2)", "\ufeff(+ 1 2)", "(+ 1 2)\u2028", "ünï", "(def ü 1)", "\"\xff\"", "'\xff'"}
	join := func(l []string) string { return strings.Join(l, "\n") }
	return [][2]string{{"synsweep-chars", join(chars)}, {"synsweep-strings", join(strs)}, {"synsweep-structure", join(structure)}}
}
