module verif/harness

go 1.24.2

require github.com/glycerine/zygomys/v9 v9.0.0

require (
	4d63.com/tz v1.2.0 // indirect
	github.com/glycerine/blake2b v0.0.0-20151022103502-3c8c640cd7be // indirect
	github.com/glycerine/fwd v1.1.4-beta.jea // indirect
	github.com/glycerine/greenpack v0.541.0 // indirect
	github.com/glycerine/liner v0.0.0-20160121172638-72909af234e0 // indirect
	github.com/philhofer/fwd v1.0.0 // indirect
	github.com/shurcooL/go v0.0.0-20200502201357-93f07166e636 // indirect
	github.com/shurcooL/go-goon v1.0.0 // indirect
	github.com/tinylib/msgp v1.1.2 // indirect
	github.com/ugorji/go/codec v1.2.12 // indirect
)

replace github.com/glycerine/zygomys/v9 => /repo
