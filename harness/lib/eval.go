package lib

import (
	"fmt"
	"strings"

	"github.com/glycerine/zygomys/v9/zygo"
)

// Outcome classes of one evaluation, as compared between implementation and model.
const (
	OutValue  = "value"
	OutError  = "error"
	OutPanic  = "panic"
	OutBudget = "budget"
)

// Result of a guarded evaluation.
type Result struct {
	Class string
	Val   zygo.Sexp
	Err   error
	Panic interface{}
}

// Eval evaluates src in env with a step budget, recovering any panic that
// escapes the library (which is itself a C01 violation, reported by the caller).
func Eval(env *zygo.Zlisp, src string, budget int64) (res Result) {
	zygo.VerifSetBudget(budget)
	defer zygo.VerifSetBudget(-1)
	defer func() {
		if r := recover(); r != nil {
			res = Result{Class: OutPanic, Panic: r}
		}
	}()
	v, err := env.EvalString(src)
	if err != nil {
		if strings.Contains(err.Error(), zygo.VerifBudgetExhausted) {
			env.Clear()
			return Result{Class: OutBudget, Err: err}
		}
		env.Clear()
		return Result{Class: OutError, Err: err}
	}
	return Result{Class: OutValue, Val: v}
}

// Show renders a result compactly for logs.
func (r Result) Show() string {
	switch r.Class {
	case OutValue:
		if r.Val == nil {
			return "value:<go-nil>"
		}
		return "value:" + r.Val.SexpString(nil)
	case OutError:
		s := r.Err.Error()
		if len(s) > 200 {
			s = s[:200]
		}
		return "error:" + strings.ReplaceAll(s, "\n", " ")
	case OutPanic:
		return fmt.Sprintf("panic:%v", r.Panic)
	}
	return r.Class
}
