package lib

import (
	"bufio"
	"encoding/json"
	"fmt"
	"os"
	"sort"
	"strconv"
)

// Out collects the case lines and statistics a harness command produces.
//   cases file:  ID<TAB>INPUT<TAB>IMPL_OBSERVABLE      (INPUT is what the model runner reads)
//   stats file:  JSON {evaluations, distinct_nontrivial, rule, distribution, samples}
type Out struct {
	w        *bufio.Writer
	f        *os.File
	n        int
	distinct map[string]bool
	Dist     map[string]int
	Samples  []string
	Rule     string
	Extra    map[string]interface{}
}

func NewOut(path string) *Out {
	f, err := os.Create(path)
	if err != nil {
		panic(err)
	}
	return &Out{w: bufio.NewWriterSize(f, 1<<20), f: f, distinct: map[string]bool{}, Dist: map[string]int{}, Extra: map[string]interface{}{}}
}

// Case records one case. nontrivial says whether it counts for distinct_nontrivial.
func (o *Out) Case(input, impl string, nontrivial bool, tags ...string) int {
	o.n++
	fmt.Fprintf(o.w, "%d\t%s\t%s\n", o.n, input, impl)
	if nontrivial {
		o.distinct[input] = true
	}
	for _, t := range tags {
		o.Dist[t]++
	}
	if len(o.Samples) < 5 || (o.n%9973 == 0 && len(o.Samples) < 12) {
		o.Samples = append(o.Samples, input+" => "+impl)
	}
	return o.n
}

func (o *Out) N() int { return o.n }

func (o *Out) Close(statsPath string) {
	o.w.Flush()
	o.f.Close()
	keys := make([]string, 0, len(o.Dist))
	for k := range o.Dist {
		keys = append(keys, k)
	}
	sort.Strings(keys)
	dist := map[string]int{}
	for _, k := range keys {
		dist[k] = o.Dist[k]
	}
	st := map[string]interface{}{
		"evaluations":         o.n,
		"distinct_nontrivial": len(o.distinct),
		"rule":                o.Rule,
		"distribution":        dist,
		"samples":             o.Samples,
	}
	for k, v := range o.Extra {
		st[k] = v
	}
	b, _ := json.MarshalIndent(st, "", " ")
	os.WriteFile(statsPath, b, 0644)
}

// Args: common flags --seed N --tier quick|thorough --out FILE --stats FILE [--replay FILE]
type Args struct {
	Seed   uint64
	Tier   string
	Out    string
	Stats  string
	Replay string
	Rest   []string
}

func ParseArgs() Args {
	a := Args{Seed: 1, Tier: "quick", Out: "cases.txt", Stats: "stats.json"}
	av := os.Args[1:]
	for i := 0; i < len(av); i++ {
		next := func() string {
			i++
			if i < len(av) {
				return av[i]
			}
			return ""
		}
		switch av[i] {
		case "--seed":
			v, _ := strconv.ParseUint(next(), 10, 64)
			a.Seed = v
		case "--tier":
			a.Tier = next()
		case "--out":
			a.Out = next()
		case "--stats":
			a.Stats = next()
		case "--replay":
			a.Replay = next()
		default:
			a.Rest = append(a.Rest, av[i])
		}
	}
	return a
}
