// Package lib holds what the per-property harness commands share:
// a seeded PRNG, canonical rendering of interpreter values, guarded evaluation.
package lib

// Rng is splitmix64; every random choice of a run derives from one seed.
type Rng struct{ s uint64 }

func NewRng(seed uint64) *Rng { return &Rng{s: seed*0x9E3779B97F4A7C15 + 0x1234567} }

func (r *Rng) U64() uint64 {
	r.s += 0x9E3779B97F4A7C15
	z := r.s
	z = (z ^ (z >> 30)) * 0xBF58476D1CE4E5B9
	z = (z ^ (z >> 27)) * 0x94D049BB133111EB
	return z ^ (z >> 31)
}

// Intn returns a value in [0,n).
func (r *Rng) Intn(n int) int {
	if n <= 0 {
		return 0
	}
	return int(r.U64() % uint64(n))
}

func (r *Rng) Bool() bool { return r.U64()&1 == 1 }

// Fork derives an independent generator (for per-case sub-seeds).
func (r *Rng) Fork() *Rng { return NewRng(r.U64()) }
