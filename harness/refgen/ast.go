// Package refgen holds what the checks built on the reference evaluator (coq/Model/RefSem.v)
// share on the Go side: the AST of the core language, its renderings (real surface syntax with
// random legal layout, infix for the expression subset, and the prefix form the OCaml model
// runner parses), program generators, canonical rendering of interpreter values and errors,
// the host functions trace/failk, and a shrinker.  See docs/RefSem.md.
package refgen

import (
	"fmt"
	"strconv"
	"strings"

	"verif/harness/lib"
)

type Kind int

const (
	KInt Kind = iota
	KBool
	KNil
	KStr
	KQuote // Datum
	KVar   // Name
	KArr   // Kids = elements
	KCall  // Kids[0] = callee, Kids[1:] = arguments
	KBegin
	KCond // Kids = c1 b1 c2 b2 .. default (odd length)
	KAnd
	KOr
	KDef // Name, Kids[0]
	KSet
	KLet    // Binds names, Kids[:len(Binds)] initialisers, Kids[len(Binds):] body
	KLetSeq //   "
	KScope  // newScope
	KFor    // Name = label or "", Kids[0..2] = init test step, Kids[3:] body
	KBreak  // Name = label or ""
	KCont
	KFn   // Params, Rest ("" = none), Kids = body
	KDefn // Name, Params, Rest, Kids = body
	// A record with the fields k0 k1 ..; Kids = field values.  Real source (hash k0: e0 k1: e1 ..).  The
	// reference evaluator has no hashes: it reads (call (var array) e0 e1 ..) and field i is index i.  Records
	// are only READ through KDotCall (never aget/aset/append/==/map on them), and a record that ends up in
	// a result is rendered like the array of its values (run.go:RenderValue), so the two readings agree.
	KRec
	// A call through a dotted path: Name = head variable, I = field index, Kids = arguments.  Real source
	// (NAME.k<I> args ..): the head is looked up by functions.go:dotGetSetHelper -> LexicalLookupSymbol, the
	// field is fetched, a function is called, anything else is returned when there are no arguments.  The
	// model reads (call (call (var aget) (var NAME) (int I)) args ..) (same order: callee, then arguments).
	KDotCall
)

// Datum is quoted data: an int, a symbol or a list.
type Datum struct {
	IsInt bool
	I     int64
	Sym   string
	List  []*Datum
	IsLst bool
	IsFlt bool // the float I/2 (0.0, 0.5, -1.5 ..)
	IsChr bool // the character with code point I
}

type Node struct {
	K      Kind
	I      int64
	B      bool
	S      string
	Name   string
	Kids   []*Node
	Binds  []string
	Params []string
	Rest   string
	D      *Datum
	NoTCO  bool // KCall: render the callee as (begin f) so that the call is never a self tail call
}

// ---- constructors ----

func Int(i int64) *Node           { return &Node{K: KInt, I: i} }
func Bool(b bool) *Node           { return &Node{K: KBool, B: b} }
func Nil() *Node                  { return &Node{K: KNil} }
func Str(s string) *Node          { return &Node{K: KStr, S: s} }
func Var(n string) *Node          { return &Node{K: KVar, Name: n} }
func Arr(es ...*Node) *Node       { return &Node{K: KArr, Kids: es} }
func Begin(es ...*Node) *Node     { return &Node{K: KBegin, Kids: es} }
func And(es ...*Node) *Node       { return &Node{K: KAnd, Kids: es} }
func Or(es ...*Node) *Node        { return &Node{K: KOr, Kids: es} }
func Scope(es ...*Node) *Node     { return &Node{K: KScope, Kids: es} }
func Def(n string, e *Node) *Node { return &Node{K: KDef, Name: n, Kids: []*Node{e}} }
func Set(n string, e *Node) *Node { return &Node{K: KSet, Name: n, Kids: []*Node{e}} }
func Break(label string) *Node    { return &Node{K: KBreak, Name: label} }
func Cont(label string) *Node     { return &Node{K: KCont, Name: label} }
func QuoteSym(s string) *Node     { return &Node{K: KQuote, D: &Datum{Sym: s}} }
func Quote(d *Datum) *Node        { return &Node{K: KQuote, D: d} }

// Flt is the float literal h/2, written bare in the source (0.0, 1.5, -2.5); the model reads it as the
// quoted datum %f<h>.
func Flt(h int64) *Node { return &Node{K: KQuote, D: &Datum{IsFlt: true, I: h}} }

// Chr is the character literal with code point c, written 'c' in the source; the model reads the quoted datum %c<c>.
func Chr(c rune) *Node { return &Node{K: KQuote, D: &Datum{IsChr: true, I: int64(c)}} }

func fltText(h int64) string { return strconv.FormatFloat(float64(h)/2, 'f', 1, 64) }
func Call(f *Node, args ...*Node) *Node {
	return &Node{K: KCall, Kids: append([]*Node{f}, args...)}
}
func CallN(name string, args ...*Node) *Node { return Call(Var(name), args...) }

// Rec is the record (hash k0: fields[0] k1: fields[1] ..), see KRec.
func Rec(fields ...*Node) *Node { return &Node{K: KRec, Kids: fields} }

// DotCall is (head.k<field> args ..), see KDotCall.
func DotCall(head string, field int, args ...*Node) *Node {
	return &Node{K: KDotCall, Name: head, I: int64(field), Kids: args}
}

// HasRecords: the program uses the record encoding (KRec / KDotCall).
func (p *Program) HasRecords() bool {
	return p.Has(func(n *Node) bool { return n.K == KRec || n.K == KDotCall })
}

// Cond takes c1 b1 c2 b2 .. default.
func Cond(kids ...*Node) *Node { return &Node{K: KCond, Kids: kids} }
func Let(seq bool, names []string, inits []*Node, body ...*Node) *Node {
	k := KLet
	if seq {
		k = KLetSeq
	}
	return &Node{K: k, Binds: names, Kids: append(append([]*Node{}, inits...), body...)}
}
func For(label string, init, test, step *Node, body ...*Node) *Node {
	return &Node{K: KFor, Name: label, Kids: append([]*Node{init, test, step}, body...)}
}
func Fn(params []string, rest string, body ...*Node) *Node {
	return &Node{K: KFn, Params: params, Rest: rest, Kids: body}
}
func Defn(name string, params []string, rest string, body ...*Node) *Node {
	return &Node{K: KDefn, Name: name, Params: params, Rest: rest, Kids: body}
}

// Program is the sequence of top-level forms of one text (one EvalString call).
type Program struct {
	Forms  []*Node
	FailAt int // failk raises on its FailAt-th call (0 = never)
}

func (n *Node) Clone() *Node {
	if n == nil {
		return nil
	}
	c := *n
	c.Kids = make([]*Node, len(n.Kids))
	for i, k := range n.Kids {
		c.Kids[i] = k.Clone()
	}
	c.Binds = append([]string(nil), n.Binds...)
	c.Params = append([]string(nil), n.Params...)
	return &c
}

func (p *Program) Clone() *Program {
	q := &Program{FailAt: p.FailAt}
	for _, f := range p.Forms {
		q.Forms = append(q.Forms, f.Clone())
	}
	return q
}

func (n *Node) Size() int {
	s := 1
	for _, k := range n.Kids {
		s += k.Size()
	}
	return s
}

func (n *Node) Depth() int {
	d := 0
	for _, k := range n.Kids {
		if x := k.Depth(); x > d {
			d = x
		}
	}
	return d + 1
}

func (p *Program) Size() int {
	s := 0
	for _, f := range p.Forms {
		s += f.Size()
	}
	return s
}

// Walk visits every node (pre-order).
func (n *Node) Walk(f func(*Node)) {
	f(n)
	for _, k := range n.Kids {
		k.Walk(f)
	}
}

func (p *Program) Walk(f func(*Node)) {
	for _, x := range p.Forms {
		x.Walk(f)
	}
}

// Has reports whether some node satisfies pred.
func (p *Program) Has(pred func(*Node) bool) bool {
	found := false
	p.Walk(func(n *Node) {
		if pred(n) {
			found = true
		}
	})
	return found
}

// ---- prefix form for the model runner (ocaml/refsem/run.ml) ----

func (d *Datum) prefix(sb *strings.Builder) {
	switch {
	case d.IsLst:
		sb.WriteString("(")
		for i, x := range d.List {
			if i > 0 {
				sb.WriteString(" ")
			}
			x.prefix(sb)
		}
		sb.WriteString(")")
	case d.IsFlt:
		fmt.Fprintf(sb, "%%f%d", d.I)
	case d.IsChr:
		fmt.Fprintf(sb, "%%c%d", d.I)
	case d.IsInt:
		sb.WriteString(strconv.FormatInt(d.I, 10))
	default:
		sb.WriteString(d.Sym)
	}
}

func lbl(s string) string {
	if s == "" {
		return "-"
	}
	return s
}

func (n *Node) prefix(sb *strings.Builder) {
	kids := func(from int) {
		for _, k := range n.Kids[from:] {
			sb.WriteString(" ")
			k.prefix(sb)
		}
	}
	switch n.K {
	case KInt:
		fmt.Fprintf(sb, "(int %d)", n.I)
	case KBool:
		if n.B {
			sb.WriteString("(bool t)")
		} else {
			sb.WriteString("(bool f)")
		}
	case KNil:
		sb.WriteString("nil")
	case KStr:
		sb.WriteString("(str")
		for _, b := range []byte(n.S) {
			fmt.Fprintf(sb, " %d", b)
		}
		sb.WriteString(")")
	case KQuote:
		sb.WriteString("(q ")
		n.D.prefix(sb)
		sb.WriteString(")")
	case KVar:
		sb.WriteString("(var " + n.Name + ")")
	case KArr:
		sb.WriteString("(arr")
		kids(0)
		sb.WriteString(")")
	case KCall:
		sb.WriteString("(call")
		kids(0)
		sb.WriteString(")")
	case KRec:
		// a CALL, as in the real source: the field values are arguments (separate compile units, in order)
		sb.WriteString("(call (var array)")
		kids(0)
		sb.WriteString(")")
	case KDotCall:
		fmt.Fprintf(sb, "(call (call (var aget) (var %s) (int %d))", n.Name, n.I)
		kids(0)
		sb.WriteString(")")
	case KBegin, KAnd, KOr, KScope:
		sb.WriteString("(" + map[Kind]string{KBegin: "begin", KAnd: "and", KOr: "or", KScope: "scope"}[n.K])
		kids(0)
		sb.WriteString(")")
	case KCond:
		sb.WriteString("(cond")
		for i := 0; i+1 < len(n.Kids); i += 2 {
			sb.WriteString(" (")
			n.Kids[i].prefix(sb)
			sb.WriteString(" ")
			n.Kids[i+1].prefix(sb)
			sb.WriteString(")")
		}
		sb.WriteString(" ")
		n.Kids[len(n.Kids)-1].prefix(sb)
		sb.WriteString(")")
	case KDef, KSet:
		if n.K == KDef {
			sb.WriteString("(def " + n.Name + " ")
		} else {
			sb.WriteString("(set " + n.Name + " ")
		}
		n.Kids[0].prefix(sb)
		sb.WriteString(")")
	case KLet, KLetSeq:
		if n.K == KLet {
			sb.WriteString("(let (")
		} else {
			sb.WriteString("(letseq (")
		}
		for i, b := range n.Binds {
			if i > 0 {
				sb.WriteString(" ")
			}
			sb.WriteString("(" + b + " ")
			n.Kids[i].prefix(sb)
			sb.WriteString(")")
		}
		sb.WriteString(")")
		kids(len(n.Binds))
		sb.WriteString(")")
	case KFor:
		sb.WriteString("(for " + lbl(n.Name))
		kids(0)
		sb.WriteString(")")
	case KBreak:
		sb.WriteString("(break " + lbl(n.Name) + ")")
	case KCont:
		sb.WriteString("(continue " + lbl(n.Name) + ")")
	case KFn, KDefn:
		if n.K == KFn {
			sb.WriteString("(fn (")
		} else {
			sb.WriteString("(defn " + n.Name + " (")
		}
		sb.WriteString(strings.Join(n.Params, " "))
		sb.WriteString(") " + lbl(n.Rest))
		kids(0)
		sb.WriteString(")")
	}
}

// Prefix renders the program for the model runner: "[failat=K ]FORM FORM ...".
func (p *Program) Prefix() string {
	var sb strings.Builder
	if p.FailAt > 0 {
		fmt.Fprintf(&sb, "failat=%d ", p.FailAt)
	}
	for i, f := range p.Forms {
		if i > 0 {
			sb.WriteString(" ")
		}
		f.prefix(&sb)
	}
	return sb.String()
}

// ---- real surface syntax ----

// Style controls the rendering of the real source text.
type Style struct {
	Rng           *lib.Rng // nil = plain single spaces
	Infix         bool     // render binary arithmetic/comparison calls on atoms as { a op b }
	NoTCO         bool     // render every call whose callee is a plain symbol f as ((begin f) ..): never a self tail call
	NoAppendAlias bool     // render (append a v) as (appendslice (appendslice [] a) [v]): no shared backing array
	NoConcatAlias bool     // kept for importers (C05/C09/C16); no twin uses it since concat-aliasing was fixed in /repo. Renders (concat a ..) as (concat (appendslice [] a) ..)
}

type renderer struct {
	st   Style
	toks []string
}

func (r *renderer) t(s string) { r.toks = append(r.toks, s) }

var infixOps = map[string]bool{"+": true, "-": true, "*": true, "<": true, ">": true, "<=": true, ">=": true, "==": true, "!=": true}

func infixAtom(n *Node) bool {
	switch n.K {
	case KInt:
		return n.I >= 0
	case KVar:
		// a variable, not the name of a builtin (not, and, or .. are operator words inside { })
		return !PrimNames[n.Name]
	}
	return false
}

func (d *Datum) render(r *renderer) {
	switch {
	case d.IsLst:
		r.t("(")
		for _, x := range d.List {
			x.render(r)
		}
		r.t(")")
	case d.IsFlt:
		r.t(fltText(d.I))
	case d.IsChr:
		r.t("'" + string(rune(d.I)) + "'")
	case d.IsInt:
		r.t(strconv.FormatInt(d.I, 10))
	default:
		r.t(d.Sym)
	}
}

func quoteStr(s string) string {
	var sb strings.Builder
	sb.WriteByte('"')
	for _, c := range []byte(s) {
		switch c {
		case '"':
			sb.WriteString(`\"`)
		case '\\':
			sb.WriteString(`\\`)
		case '\n':
			sb.WriteString(`\n`)
		default:
			sb.WriteByte(c)
		}
	}
	sb.WriteByte('"')
	return sb.String()
}

func (n *Node) render(r *renderer) {
	all := func(ks []*Node) {
		for _, k := range ks {
			k.render(r)
		}
	}
	switch n.K {
	case KInt:
		r.t(strconv.FormatInt(n.I, 10))
	case KBool:
		if n.B {
			r.t("true")
		} else {
			r.t("false")
		}
	case KNil:
		r.t("nil")
	case KStr:
		r.t(quoteStr(n.S))
	case KQuote:
		if n.D.IsFlt {
			r.t(fltText(n.D.I)) // a float literal evaluates to itself
			return
		}
		if n.D.IsChr {
			r.t("'" + string(rune(n.D.I)) + "'") // so does a character literal
			return
		}
		r.t("(")
		r.t("quote")
		n.D.render(r)
		r.t(")")
	case KVar:
		r.t(n.Name)
	case KArr:
		r.t("[")
		all(n.Kids)
		r.t("]")
	case KCall:
		f := n.Kids[0]
		if r.st.Infix && f.K == KVar && infixOps[f.Name] && len(n.Kids) == 3 &&
			(infixAtom(n.Kids[1]) || n.Kids[1].K == KCall) && (infixAtom(n.Kids[2]) || n.Kids[2].K == KCall) {
			r.t("{")
			n.Kids[1].render(r)
			r.t(f.Name)
			n.Kids[2].render(r)
			r.t("}")
			return
		}
		if r.st.NoConcatAlias && f.K == KVar && f.Name == "concat" && len(n.Kids) >= 2 {
			r.t("(")
			r.t("concat")
			r.t("(")
			r.t("appendslice")
			r.t("[")
			r.t("]")
			n.Kids[1].render(r)
			r.t(")")
			all(n.Kids[2:])
			r.t(")")
			return
		}
		if r.st.NoAppendAlias && f.K == KVar && f.Name == "append" && len(n.Kids) == 3 {
			r.t("(")
			r.t("appendslice")
			r.t("(")
			r.t("appendslice")
			r.t("[")
			r.t("]")
			n.Kids[1].render(r)
			r.t(")")
			r.t("[")
			n.Kids[2].render(r)
			r.t("]")
			r.t(")")
			return
		}
		r.t("(")
		if (r.st.NoTCO || n.NoTCO) && f.K == KVar {
			r.t("(")
			r.t("begin")
			f.render(r)
			r.t(")")
		} else {
			f.render(r)
		}
		all(n.Kids[1:])
		r.t(")")
	case KRec:
		r.t("(")
		r.t("hash")
		for i, k := range n.Kids {
			r.t(fmt.Sprintf("k%d:", i))
			k.render(r)
		}
		r.t(")")
	case KDotCall:
		r.t("(")
		r.t(fmt.Sprintf("%s.k%d", n.Name, n.I))
		all(n.Kids)
		r.t(")")
	case KBegin, KAnd, KOr, KScope:
		r.t("(")
		r.t(map[Kind]string{KBegin: "begin", KAnd: "and", KOr: "or", KScope: "newScope"}[n.K])
		all(n.Kids)
		r.t(")")
	case KCond:
		r.t("(")
		r.t("cond")
		all(n.Kids)
		r.t(")")
	case KDef, KSet:
		r.t("(")
		if n.K == KDef {
			r.t("def")
		} else {
			r.t("set")
		}
		r.t(n.Name)
		n.Kids[0].render(r)
		r.t(")")
	case KLet, KLetSeq:
		r.t("(")
		if n.K == KLet {
			r.t("let")
		} else {
			r.t("letseq")
		}
		r.t("[")
		for i, b := range n.Binds {
			r.t(b)
			n.Kids[i].render(r)
		}
		r.t("]")
		all(n.Kids[len(n.Binds):])
		r.t(")")
	case KFor:
		r.t("(")
		r.t("for")
		if n.Name != "" {
			r.t(n.Name + ":")
		}
		r.t("[")
		all(n.Kids[:3])
		r.t("]")
		all(n.Kids[3:])
		r.t(")")
	case KBreak, KCont:
		r.t("(")
		if n.K == KBreak {
			r.t("break")
		} else {
			r.t("continue")
		}
		if n.Name != "" {
			r.t(n.Name + ":")
		}
		r.t(")")
	case KFn, KDefn:
		r.t("(")
		if n.K == KFn {
			r.t("fn")
		} else {
			r.t("defn")
			r.t(n.Name)
		}
		r.t("[")
		for _, p := range n.Params {
			r.t(p)
		}
		if n.Rest != "" {
			r.t("&")
			r.t(n.Rest)
		}
		r.t("]")
		all(n.Kids)
		r.t(")")
	}
}

var seps = []string{" ", " ", " ", "  ", "\n", "\t", " \n ", " /* c */ ", " // c\n", "\n\n"}

func join(toks []string, rng *lib.Rng) string {
	var sb strings.Builder
	for i, t := range toks {
		if i > 0 {
			if rng == nil {
				sb.WriteString(" ")
			} else if rng.Intn(4) == 0 {
				sb.WriteString(seps[rng.Intn(len(seps))])
			} else {
				sb.WriteString(" ")
			}
		}
		sb.WriteString(t)
	}
	return sb.String()
}

// Source renders the program as real zygomys source text.
func (p *Program) Source(st Style) string {
	r := &renderer{st: st}
	for i, f := range p.Forms {
		// a text must not end in the bare symbol + or - (the reader then asks for more input:
		// KNOWN_FINDINGS C13 sign-symbol-at-end); (begin +) has the same value
		if i == len(p.Forms)-1 && f.K == KVar && (f.Name == "+" || f.Name == "-") {
			Begin(f).render(r)
			continue
		}
		f.render(r)
	}
	return join(r.toks, st.Rng)
}

// SourceOf renders a single node plainly (for messages).
func SourceOf(n *Node) string {
	r := &renderer{}
	n.render(r)
	return join(r.toks, nil)
}
