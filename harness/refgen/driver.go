package refgen

import (
	"encoding/json"
	"fmt"
	"os"
	"runtime/pprof"
	"strconv"
	"strings"

	"verif/harness/lib"
)

// Case is one generated program with the way it is rendered.
type Case struct {
	P      *Program
	Src    string
	Tags   []string
	Twin   string // "" or "notco" / "noalias": same program rendered so that the named effect cannot occur
	TwinOf int    // id of the original case
}

func esc(s string) string {
	s = strings.ReplaceAll(s, "\\", "\\\\")
	s = strings.ReplaceAll(s, "\n", "\\n")
	s = strings.ReplaceAll(s, "\t", "\\t")
	return s
}

// Stream produces the deterministic case stream of one property/tier/seed.
type Stream struct {
	Prop string // "C02" or "C03"
	Tier string
	Seed uint64
}

func (s Stream) style(rng *lib.Rng, p *Program) (Style, string) {
	switch rng.Intn(4) {
	case 0:
		return Style{}, "layout:plain"
	case 1:
		return Style{Rng: rng.Fork(), Infix: true}, "layout:infix"
	}
	return Style{Rng: rng.Fork()}, "layout:random"
}

// Each calls emit for every case, in order. The ids are 1,2,3,.. in call order.
func (s Stream) Each(emit func(c Case)) {
	rng := lib.NewRng(s.Seed)
	id := 0
	out := func(p *Program, st Style, tags ...string) {
		id++
		orig := id
		emit(Case{P: p, Src: p.Source(st), Tags: tags})
		if p.HasSelfCallByName() {
			id++
			st2 := st
			st2.Rng = nil
			st2.NoTCO = true
			emit(Case{P: p, Src: p.Source(st2), Tags: []string{"twin:notco"}, Twin: "notco", TwinOf: orig})
		}
	}
	thorough := s.Tier == "thorough"
	g := &Gen{R: rng, MaxNodes: 40, MaxDepth: 8, Scopey: s.Prop == "C03", Vocab: GenVocab{Ext: true}}

	// 1. idioms and their mutations
	nid := 400
	if thorough {
		nid = 20000
	}
	for i := 0; i < nid; i++ {
		p := g.Idiom()
		if i%3 != 0 {
			p = g.Mutate(p)
			if i%3 == 2 {
				p = g.Mutate(p)
			}
		}
		st, tag := s.style(rng, p)
		out(p, st, "stream:idiom", tag)
	}

	// 2. exhaustive enumeration over a reduced vocabulary
	maxSize := 4
	if thorough {
		maxSize = 5
	}
	scopeSize := maxSize
	if thorough {
		scopeSize = 6
	}
	if s.Prop == "C02" {
		for n := 1; n <= maxSize; n++ {
			FlowVocab.Enumerate(n, func(e *Node) {
				hasExit := (&Program{Forms: []*Node{e}}).Has(func(n *Node) bool { return n.K == KBreak || n.K == KCont })
				out(&Program{Forms: []*Node{Def("x", Int(2)), Arr(e, Var("x"))}}, Style{}, "stream:exhaustive", fmt.Sprintf("size:%d", n))
				if hasExit {
					out(&Program{Forms: []*Node{Def("x", Int(2)),
						For("", Def("j", Int(0)), CallN("<", Var("j"), Int(2)), Set("j", CallN("+", Var("j"), Int(1))),
							Def("y", e), CallN("trace", Var("y"))), Var("x")}}, Style{}, "stream:exhaustive-inloop", fmt.Sprintf("size:%d", n))
				}
			})
		}
	} else {
		for n := 1; n <= scopeSize; n++ {
			ScopeVocab.Enumerate(n, func(e *Node) {
				out(&Program{Forms: []*Node{Def("x", Int(5)), Defn("f", nil, "r", Var("x")),
					Arr(e, Var("x"), CallN("f"))}}, Style{}, "stream:exhaustive", fmt.Sprintf("size:%d", n))
			})
		}
	}

	// 3. random programs
	nrand := 7000
	if thorough {
		nrand = 300000
	}
	for i := 0; i < nrand; i++ {
		p := g.Program()
		st, tag := s.style(rng, p)
		sz := p.Size()
		bucket := "size:1-5"
		switch {
		case sz > 40:
			bucket = "size:41+"
		case sz > 20:
			bucket = "size:21-40"
		case sz > 10:
			bucket = "size:11-20"
		case sz > 5:
			bucket = "size:6-10"
		}
		out(p, st, "stream:random", tag, bucket)
	}
}

func features(p *Program) []string {
	seen := map[string]bool{}
	p.Walk(func(n *Node) {
		switch n.K {
		case KFn, KDefn:
			seen["has:closure"] = true
			if n.Rest != "" {
				seen["has:variadic"] = true
			}
		case KFor:
			seen["has:for"] = true
			if n.Name != "" {
				seen["has:label"] = true
			}
		case KBreak, KCont:
			seen["has:break/continue"] = true
		case KLet, KLetSeq, KScope:
			seen["has:let/scope"] = true
		case KCond, KAnd, KOr:
			seen["has:cond/and/or"] = true
		case KSet:
			seen["has:set"] = true
		case KRec, KDotCall:
			seen["has:record/dotted-call"] = true
		case KVar:
			if n.Name == "map" || n.Name == "apply" {
				seen["has:map/apply"] = true
			}
		}
	})
	var out []string
	for k := range seen {
		out = append(out, k)
	}
	return out
}

// Main is the harness command shared by cmd/c02 and cmd/c03.
//
//	default:            generate the stream, run every case on the real interpreter, write cases + stats
//	--shrink id,id ..   regenerate the cases with these ids, minimise each (needs --model exe), write JSON lines
//	--replay file.json  evaluate the "source" of a replay file in a fresh interpreter
func Main(prop string) {
	a := lib.ParseArgs()
	var modelExe, shrinkIds string
	for i := 0; i < len(a.Rest); i++ {
		switch a.Rest[i] {
		case "--model":
			i++
			modelExe = a.Rest[i]
		case "--shrink":
			i++
			shrinkIds = a.Rest[i]
		}
	}
	const budget = 4000
	if pf := os.Getenv("REFGEN_CPUPROFILE"); pf != "" {
		f, _ := os.Create(pf)
		pprof.StartCPUProfile(f)
		defer pprof.StopCPUProfile()
	}
	if a.Replay != "" {
		replay(a, budget)
		return
	}
	st := Stream{Prop: prop, Tier: a.Tier, Seed: a.Seed}
	if shrinkIds != "" {
		shrinkMode(st, a, shrinkIds, modelExe, budget)
		return
	}
	out := lib.NewOut(a.Out)
	out.Rule = "programs of the core language: hand-shaped families (idioms) and their random mutations, every expression up to a small size over a reduced vocabulary (exhaustive), and random typed programs (1-40 nodes, depth <= 8, names x y f, operands from a boundary grid), each rendered as real source (plain, random whitespace/comments, or infix for binary operators); a case counts as non-trivial when the program has at least 3 nodes; distinct = distinct programs (prefix form)"
	r := NewRunner(budget)
	r.OnHang = func() { out.Close(a.Stats) }
	st.Each(func(c Case) {
		if os.Getenv("REFGEN_DEBUG") != "" {
			fmt.Fprintf(os.Stderr, "RUN %s\n", esc(c.Src))
		}
		obs := r.RunSource(c.Src, c.P.FailAt)
		input := c.P.Prefix()
		if c.Twin != "" {
			shadow := 0
			if (c.Twin == "notco" && c.P.ShadowsSelfName()) || (c.Twin == "noconcat" && c.P.ConcatOfConcatShape()) {
				shadow = 1
			}
			input = fmt.Sprintf("twin=%s:%d:%d %s", c.Twin, c.TwinOf, shadow, input)
		}
		tags := append(append([]string{}, c.Tags...), "outcome:"+strings.SplitN(obs, ":", 2)[0])
		if c.Twin == "" {
			tags = append(tags, features(c.P)...)
		}
		out.Case(input, obs+"\t"+esc(c.Src), c.Twin == "" && c.P.Size() >= 3, tags...)
	})
	// the tie of the Gallina generator model (coq/Model/GenF0.v) to the real generator: same
	// instruction listing for F0 programs (exhaustive small shapes come from the random stream's size)
	if prop == "C02" {
		rng := lib.NewRng(a.Seed ^ 0xF0F0)
		nbc := 1500
		if a.Tier == "thorough" {
			nbc = 40000
		}
		lr := NewRunner(budget)
		for i := 0; i < nbc; i++ {
			p := &Program{Forms: []*Node{GenF0(rng, 1+rng.Intn(5))}}
			if i%3 == 0 {
				p.Forms = append(p.Forms, GenF0(rng, 1+rng.Intn(3)))
			}
			src := p.Source(Style{})
			out.Case("bytecode=1 "+p.Prefix(), lr.Listing(src)+"\t"+esc(src), p.Size() >= 3, "stream:bytecode-listing")
		}
		for i := 0; i < nbc; i++ {
			p := &Program{Forms: []*Node{GenF1(rng, 2+rng.Intn(5), nil)}}
			if i%3 == 0 {
				p.Forms = append(p.Forms, GenF1(rng, 1+rng.Intn(3), nil))
			}
			src := p.Source(Style{})
			out.Case("bytecode=2 "+p.Prefix(), lr.ListingF1(src)+"\t"+esc(src), p.Size() >= 3, "stream:bytecode-listing-f1")
		}
		// function bodies (buildSexpFun): (defn g [params] F1-forms..) without any reference to g
		for i := 0; i < nbc/5; i++ {
			var ps []string
			for k := rng.Intn(4); k > 0; k-- {
				ps = append(ps, []string{"x", "y", "f", "a"}[rng.Intn(4)])
			}
			var body []*Node
			for k := 1 + rng.Intn(3); k > 0; k-- {
				body = append(body, GenF1(rng, 1+rng.Intn(4), nil))
			}
			p := &Program{Forms: []*Node{Defn("g", ps, "", body...)}}
			src := p.Source(Style{})
			out.Case("bytecode=3 "+p.Prefix(), lr.ListingFn(src, "g")+"\t"+esc(src), true, "stream:bytecode-listing-fn")
		}
	}
	out.Extra["interpreters_created"] = r.Recycled
	out.Close(a.Stats)
}

type shrunk struct {
	ID           int    `json:"id"`
	Source       string `json:"source"`
	Prefix       string `json:"prefix"`
	FailAt       int    `json:"failat"`
	Impl         string `json:"implementation"`
	Model        string `json:"model"`
	Size         int    `json:"size"`
	OrigSize     int    `json:"original_size"`
	Evals        int    `json:"shrink_evaluations"`
	Fresh        bool   `json:"reproduced_in_fresh_interpreter"`
	Detail       string `json:"implementation_detail"`
	NoTCOSame    bool   `json:"disagrees_also_without_self_tail_call"`
	NoAliasSame  bool   `json:"disagrees_also_without_append_aliasing"`
	ShadowsSelf  bool   `json:"defn_rebinds_and_calls_its_own_name"`
	Appends      int    `json:"append_uses"`
}

func shrinkMode(st Stream, a lib.Args, ids string, modelExe string, budget int64) {
	want := map[int]bool{}
	for _, s := range strings.Split(ids, ",") {
		if n, err := strconv.Atoi(strings.TrimSpace(s)); err == nil {
			want[n] = true
		}
	}
	m, err := StartModel(modelExe)
	if err != nil {
		fmt.Fprintln(os.Stderr, "cannot start model:", err)
		os.Exit(3)
	}
	defer m.Close()
	r := NewRunner(3 * budget)
	r.Fresh = true
	f, _ := os.Create(a.Out)
	defer f.Close()
	id := 0
	st.Each(func(c Case) {
		id++
		if !want[id] {
			return
		}
		style := Style{}
		if c.Twin == "notco" {
			style.NoTCO = true
		}
		if c.Twin == "noconcat" {
			style.NoConcatAlias = true
		}
		disagree := func(p *Program, stl Style) (bool, string, string) {
			impl := r.RunSource(p.Source(stl), p.FailAt)
			mo, err := m.Eval(p)
			if err != nil {
				return false, impl, "MODEL-ERROR"
			}
			if impl == "BUDGET" && Conclusive(mo) {
				return true, impl, mo // the model finishes, the implementation does not (3x step budget)
			}
			return Conclusive(impl) && Conclusive(mo) && !SameObs(impl, mo), impl, mo
		}
		res := shrunk{ID: id, OrigSize: c.P.Size()}
		// first with the exact original text
		impl0 := r.RunSource(c.Src, c.P.FailAt)
		mo0, _ := m.Eval(c.P)
		res.Fresh = Conclusive(mo0) && (impl0 == "BUDGET" || (Conclusive(impl0) && !SameObs(impl0, mo0)))
		best := c.P
		if ok, _, _ := disagree(c.P, style); ok {
			best, res.Evals = Shrink(c.P, func(p *Program) bool { ok, _, _ := disagree(p, style); return ok }, 300)
		} else if res.Fresh {
			// only the original layout shows it: keep the original text
			res.Source, res.Prefix, res.Impl, res.Model, res.Size = c.Src, c.P.Prefix(), impl0, mo0, c.P.Size()
			res.FailAt = c.P.FailAt
			_, res.Detail = r.RunSourceVerbose(c.Src, c.P.FailAt)
			b, _ := json.Marshal(res)
			f.Write(append(b, '\n'))
			return
		}
		_, res.Impl, res.Model = disagree(best, style)
		res.Source, res.Prefix, res.Size, res.FailAt = best.Source(style), best.Prefix(), best.Size(), best.FailAt
		_, res.Detail = r.RunSourceVerbose(res.Source, best.FailAt)
		s2 := style
		s2.NoTCO = true
		res.NoTCOSame, _, _ = disagree(best, s2)
		res.ShadowsSelf = best.ShadowsSelfName()
		res.Appends = best.AppendCount()
		b, _ := json.Marshal(res)
		f.Write(append(b, '\n'))
	})
}

func replay(a lib.Args, budget int64) {
	raw, err := os.ReadFile(a.Replay)
	if err != nil {
		fmt.Fprintln(os.Stderr, err)
		os.Exit(3)
	}
	var obj struct {
		Source string `json:"source"`
		Prefix string `json:"prefix"`
		FailAt int    `json:"failat"`
	}
	if err := json.Unmarshal(raw, &obj); err != nil || obj.Source == "" {
		fmt.Fprintln(os.Stderr, "replay file has no \"source\"")
		os.Exit(3)
	}
	out := lib.NewOut(a.Out)
	out.Rule = "replay of one program"
	r := NewRunner(budget)
	obs, detail := r.RunSourceVerbose(obj.Source, obj.FailAt)
	fmt.Println("source:", obj.Source)
	fmt.Println("implementation:", obs, " ", detail)
	out.Case(obj.Prefix, obs+"\t"+esc(obj.Source), true, "replay")
	out.Close(a.Stats)
}
