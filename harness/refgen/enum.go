package refgen

// Exhaustive enumeration of all expressions with exactly n constructor applications over a
// reduced vocabulary.  Two vocabularies: "flow" (C02: control flow, effect order) and
// "scope" (C03: binding forms over one variable name x and one function name f).

type Vocab struct {
	Leaves  func() []*Node
	Unary   []func(a *Node) *Node
	Binary  []func(a, b *Node) *Node
	Ternary []func(a, b, c *Node) *Node
}

func one() *Node { return Int(1) }

var FlowVocab = Vocab{
	Leaves: func() []*Node { return []*Node{Int(0), Int(1), Var("x"), Nil()} },
	Unary: []func(a *Node) *Node{
		func(a *Node) *Node { return CallN("trace", a) },
		func(a *Node) *Node { return Def("x", a) },
		func(a *Node) *Node { return Set("x", a) },
		func(a *Node) *Node { return CallN("not", a) },
		func(a *Node) *Node { return Call(Fn(nil, "", a)) },
		func(a *Node) *Node {
			return For("", Def("i", Int(0)), CallN("<", Var("i"), Int(2)), Set("i", CallN("+", Var("i"), Int(1))), a)
		},
		func(a *Node) *Node { return Cond(a, Break(""), Int(1)) },
	},
	Binary: []func(a, b *Node) *Node{
		func(a, b *Node) *Node { return Begin(a, b) },
		func(a, b *Node) *Node { return And(a, b) },
		func(a, b *Node) *Node { return Or(a, b) },
		func(a, b *Node) *Node { return CallN("+", a, b) },
		func(a, b *Node) *Node { return Let(false, []string{"x"}, []*Node{a}, b) },
		func(a, b *Node) *Node { return Arr(a, b) },
		func(a, b *Node) *Node { return Cond(a, b, Cont("")) },
	},
	Ternary: []func(a, b, c *Node) *Node{
		func(a, b, c *Node) *Node { return Cond(a, b, c) },
	},
}

var ScopeVocab = Vocab{
	Leaves: func() []*Node { return []*Node{Int(1), Var("x"), CallN("f")} },
	Unary: []func(a *Node) *Node{
		func(a *Node) *Node { return Def("x", a) },
		func(a *Node) *Node { return Set("x", a) },
		func(a *Node) *Node { return Def("f", Fn(nil, "", a)) },
		func(a *Node) *Node { return Call(Fn(nil, "", a)) },
		func(a *Node) *Node { return Scope(a) },
		func(a *Node) *Node { return CallN("+", a, Int(1)) },
		func(a *Node) *Node {
			return For("", Def("x", Int(0)), CallN("<", Var("x"), Int(1)), Set("x", CallN("+", Var("x"), Int(1))), a)
		},
	},
	Binary: []func(a, b *Node) *Node{
		func(a, b *Node) *Node { return Begin(a, b) },
		func(a, b *Node) *Node { return Let(false, []string{"x"}, []*Node{a}, b) },
		func(a, b *Node) *Node { return Let(true, []string{"f"}, []*Node{Fn(nil, "", a)}, b) },
		func(a, b *Node) *Node { return Call(Fn([]string{"x"}, "", b), a) },
		func(a, b *Node) *Node { return Defn("f", []string{"x"}, "", a, b) },
		func(a, b *Node) *Node { return CallN("f", a, b) },
	},
}

// Enumerate calls emit for every expression built with exactly n constructor applications.
func (v Vocab) Enumerate(n int, emit func(*Node)) {
	memo := map[int][]*Node{}
	var build func(n int) []*Node
	build = func(n int) []*Node {
		if r, ok := memo[n]; ok {
			return r
		}
		var out []*Node
		if n == 1 {
			out = v.Leaves()
		} else {
			for _, u := range v.Unary {
				for _, a := range build(n - 1) {
					out = append(out, u(a))
				}
			}
			for i := 1; i <= n-2; i++ {
				for _, b := range v.Binary {
					for _, x := range build(i) {
						for _, y := range build(n - 1 - i) {
							out = append(out, b(x, y))
						}
					}
				}
			}
			for i := 1; i <= n-3; i++ {
				for j := 1; i+j <= n-2; j++ {
					for _, t := range v.Ternary {
						for _, x := range build(i) {
							for _, y := range build(j) {
								for _, z := range build(n - 1 - i - j) {
									out = append(out, t(x, y, z))
								}
							}
						}
					}
				}
			}
		}
		memo[n] = out
		return out
	}
	for _, e := range build(n) {
		emit(e)
	}
}
