package refgen

import (
	"fmt"
	"reflect"
	"regexp"
	"strings"

	"github.com/glycerine/zygomys/v9/zygo"
	"verif/harness/lib"
)

// F0 programs: the statically compiled fragment modelled by coq/Model/GenF0.v (literals, variables,
// begin, cond, and/or, def/set, let/letseq, newScope, calls as one instruction).

// GenF0 generates a random F0 expression.
func GenF0(r *lib.Rng, d int) *Node {
	if d <= 1 || r.Intn(5) == 0 {
		switch r.Intn(6) {
		case 0:
			return Var([]string{"x", "y", "f"}[r.Intn(3)])
		case 1:
			return Bool(r.Bool())
		case 2:
			return Nil()
		case 3:
			return Str([]string{"", "a", "ab"}[r.Intn(3)])
		}
		return Int(int64(r.Intn(7)) - 2)
	}
	list := func(min int) []*Node {
		n := min + r.Intn(3)
		var out []*Node
		for i := 0; i < n; i++ {
			out = append(out, GenF0(r, d-1))
		}
		return out
	}
	name := []string{"x", "y", "f"}[r.Intn(3)]
	switch r.Intn(11) {
	case 0:
		return Begin(list(1)...)
	case 1:
		arms := r.Intn(3)
		var kids []*Node
		for i := 0; i < arms; i++ {
			kids = append(kids, GenF0(r, d-1), GenF0(r, d-1))
		}
		return Cond(append(kids, GenF0(r, d-1))...)
	case 2:
		return And(list(1)...)
	case 3:
		return Or(list(1)...)
	case 4:
		return Def(name, GenF0(r, d-1))
	case 5:
		return Set(name, GenF0(r, d-1))
	case 6, 7:
		nb := r.Intn(3)
		var names []string
		var inits []*Node
		for i := 0; i < nb; i++ {
			names = append(names, []string{"x", "y", "f"}[r.Intn(3)])
			inits = append(inits, GenF0(r, d-1))
		}
		return Let(r.Bool(), names, inits, list(1)...)
	case 8:
		return Scope(list(1)...)
	}
	return CallN([]string{"+", "-", "trace", "list"}[r.Intn(4)], list(0)...)
}

// Listing compiles src with the real generator (without running it) and returns the
// InstrString() of every instruction of the main function, normalised (callExpr shows only
// the argument count), joined by ";".
func (r *Runner) Listing(src string) string {
	env := r.Env
	env.Clear()
	if err := env.LoadString(src); err != nil {
		env.Clear()
		return "COMPILE-ERROR"
	}
	var parts []string
	for _, in := range env.VerifMainFunc().VerifCode() {
		s := strings.TrimRight(in.InstrString(), " ")
		if strings.HasPrefix(s, "callExpr ") {
			f := strings.Fields(s)
			s = "callExpr " + f[len(f)-1]
		}
		parts = append(parts, s)
	}
	env.Clear()
	return strings.Join(parts, ";")
}

var reLoopName = regexp.MustCompile(`__loop[A-Za-z0-9_]*`)

// loopFields reads the unexported bookkeeping of a loop instruction by reflection (read only):
// BreakInstr/ContinueInstr.scopesToPop and Loop.breakOffset/continueOffset.
func loopFields(in interface{}) (scopesToPop, brk, cont int64, isExit, isStart bool) {
	v := reflect.ValueOf(in)
	if v.Kind() == reflect.Ptr {
		v = v.Elem()
	}
	if v.Kind() != reflect.Struct {
		return
	}
	lp := v.FieldByName("loop")
	if !lp.IsValid() || lp.Kind() != reflect.Ptr || lp.IsNil() {
		return
	}
	l := lp.Elem()
	if f := l.FieldByName("breakOffset"); f.IsValid() {
		brk = f.Int()
	}
	if f := l.FieldByName("continueOffset"); f.IsValid() {
		cont = f.Int()
	}
	if f := v.FieldByName("scopesToPop"); f.IsValid() {
		return f.Int(), brk, cont, true, false
	}
	return 0, brk, cont, false, true
}

// ListingF1 is Listing for the fragment with for/break/continue: loop names are renumbered L1, L2, ..
// in order of appearance, loopstart shows the loop record's offsets, break/continue show scopesToPop.
func (r *Runner) ListingF1(src string) string {
	env := r.Env
	env.Clear()
	if err := env.LoadString(src); err != nil {
		env.Clear()
		return "COMPILE-ERROR"
	}
	out := normListing(env.VerifMainFunc().VerifCode())
	env.Clear()
	return out
}

// ListingFn evaluates src (a single defn of the function name) and returns the normalised listing
// of the function's own code (generator.go:buildSexpFun).
func (r *Runner) ListingFn(src, name string) string {
	r.reset()
	env := r.Env
	if res := lib.Eval(env, src, 10000); res.Class != lib.OutValue {
		return "COMPILE-ERROR"
	}
	obj, ok := env.FindObject(name)
	if !ok {
		return "NO-FUNCTION"
	}
	fn, isFn := obj.(*zygo.SexpFunction)
	if !isFn {
		return "NO-FUNCTION"
	}
	return normListing(fn.VerifCode())
}

func normListing(code []zygo.Instruction) string {
	names := map[string]string{}
	norm := func(s string) string {
		return reLoopName.ReplaceAllStringFunc(s, func(n string) string {
			if _, ok := names[n]; !ok {
				names[n] = fmt.Sprintf("L%d", len(names)+1)
			}
			return names[n]
		})
	}
	var parts []string
	for _, in := range code {
		s := strings.TrimRight(in.InstrString(), " ")
		f := strings.Fields(s)
		switch {
		case strings.HasPrefix(s, "callExpr "):
			s = "callExpr " + f[len(f)-1]
		case strings.HasPrefix(s, "label "):
			s = "label"
		case strings.HasPrefix(s, "jump "):
			s = "jump " + f[1]
		case strings.HasPrefix(s, "loopstart "):
			_, b, c, _, _ := loopFields(in)
			s = fmt.Sprintf("%s brk=%d cont=%d", norm(s), b, c)
		case strings.HasPrefix(s, "break "), strings.HasPrefix(s, "continue "):
			k, _, _, _, _ := loopFields(in)
			s = fmt.Sprintf("%s %s pop=%d", f[0], norm(f[1]), k)
		default:
			s = norm(s)
		}
		parts = append(parts, s)
	}
	return strings.Join(parts, ";")
}

// GenF1 generates a random F1 expression: F0 plus for loops with plain/labelled break/continue.
// loops is the list of labels of the enclosing loops ("" = unlabelled) in the current compile unit.
func GenF1(r *lib.Rng, d int, loops []string) *Node {
	if d > 1 && r.Intn(5) == 0 {
		label := ""
		if r.Intn(3) == 0 {
			label = []string{"la", "lb"}[r.Intn(2)]
		}
		v := []string{"i", "j", "x"}[r.Intn(3)]
		inner := append(append([]string{}, loops...), label)
		nb := r.Intn(3)
		var body []*Node
		for i := 0; i < nb; i++ {
			body = append(body, GenF1(r, d-1, inner))
		}
		init := Def(v, Int(0))
		if r.Intn(6) == 0 {
			init = GenF1(r, d-1, nil)
		}
		return For(label, init, CallN("<", Var(v), Int(int64(r.Intn(3)))), Set(v, CallN("+", Var(v), Int(1))), body...)
	}
	if len(loops) > 0 && r.Intn(6) == 0 {
		target := ""
		if l := loops[r.Intn(len(loops))]; l != "" && r.Intn(2) == 0 {
			target = l
		}
		if r.Bool() {
			return Break(target)
		}
		return Cont(target)
	}
	if d <= 1 || r.Intn(5) == 0 {
		return GenF0(r, 1)
	}
	list := func(min int) []*Node {
		n := min + r.Intn(3)
		var out []*Node
		for i := 0; i < n; i++ {
			out = append(out, GenF1(r, d-1, loops))
		}
		return out
	}
	name := []string{"x", "y", "f"}[r.Intn(3)]
	switch r.Intn(10) {
	case 0:
		return Begin(list(1)...)
	case 1:
		arms := r.Intn(3)
		var kids []*Node
		for i := 0; i < arms; i++ {
			kids = append(kids, GenF1(r, d-1, loops), GenF1(r, d-1, loops))
		}
		return Cond(append(kids, GenF1(r, d-1, loops))...)
	case 2:
		return And(list(1)...)
	case 3:
		return Or(list(1)...)
	case 4:
		return Def(name, GenF1(r, d-1, loops))
	case 5:
		return Set(name, GenF1(r, d-1, loops))
	case 6, 7:
		nb := r.Intn(3)
		var names []string
		var inits []*Node
		for i := 0; i < nb; i++ {
			names = append(names, []string{"x", "y", "f"}[r.Intn(3)])
			inits = append(inits, GenF1(r, d-1, loops))
		}
		return Let(r.Bool(), names, inits, list(1)...)
	case 8:
		return Scope(list(1)...)
	}
	return CallN([]string{"+", "-", "trace", "list"}[r.Intn(4)], GenF0(r, 2))
}
