package refgen

import (
	"strings"

	"verif/harness/lib"
)

// F0 programs: the statically compiled fragment modelled by coq/Model/GenF0.v (literals, variables,
// begin, cond, and/or, def/set, let/letseq, newScope, calls as one instruction).

// GenF0 generates a random F0 expression.
func GenF0(r *lib.Rng, d int) *Node {
	if d <= 1 || r.Intn(5) == 0 {
		switch r.Intn(6) {
		case 0:
			return Var([]string{"x", "y", "f"}[r.Intn(3)])
		case 1:
			return Bool(r.Bool())
		case 2:
			return Nil()
		case 3:
			return Str([]string{"", "a", "ab"}[r.Intn(3)])
		}
		return Int(int64(r.Intn(7)) - 2)
	}
	list := func(min int) []*Node {
		n := min + r.Intn(3)
		var out []*Node
		for i := 0; i < n; i++ {
			out = append(out, GenF0(r, d-1))
		}
		return out
	}
	name := []string{"x", "y", "f"}[r.Intn(3)]
	switch r.Intn(11) {
	case 0:
		return Begin(list(1)...)
	case 1:
		arms := r.Intn(3)
		var kids []*Node
		for i := 0; i < arms; i++ {
			kids = append(kids, GenF0(r, d-1), GenF0(r, d-1))
		}
		return Cond(append(kids, GenF0(r, d-1))...)
	case 2:
		return And(list(1)...)
	case 3:
		return Or(list(1)...)
	case 4:
		return Def(name, GenF0(r, d-1))
	case 5:
		return Set(name, GenF0(r, d-1))
	case 6, 7:
		nb := r.Intn(3)
		var names []string
		var inits []*Node
		for i := 0; i < nb; i++ {
			names = append(names, []string{"x", "y", "f"}[r.Intn(3)])
			inits = append(inits, GenF0(r, d-1))
		}
		return Let(r.Bool(), names, inits, list(1)...)
	case 8:
		return Scope(list(1)...)
	}
	return CallN([]string{"+", "-", "trace", "list"}[r.Intn(4)], list(0)...)
}

// Listing compiles src with the real generator (without running it) and returns the
// InstrString() of every instruction of the main function, normalised (callExpr shows only
// the argument count), joined by ";".
func (r *Runner) Listing(src string) string {
	env := r.Env
	env.Clear()
	if err := env.LoadString(src); err != nil {
		env.Clear()
		return "COMPILE-ERROR"
	}
	var parts []string
	for _, in := range env.VerifMainFunc().VerifCode() {
		s := strings.TrimRight(in.InstrString(), " ")
		if strings.HasPrefix(s, "callExpr ") {
			f := strings.Fields(s)
			s = "callExpr " + f[len(f)-1]
		}
		parts = append(parts, s)
	}
	env.Clear()
	return strings.Join(parts, ";")
}
