package refgen

import (
	"math"

	"verif/harness/lib"
)

// Ty is the generator's guess of the kind of value an expression yields.
type Ty int

const (
	TInt Ty = iota
	TBool
	TFn
	TArr
	TList
	TAny
)

type binding struct {
	ty    Ty
	arity int // for TFn; -1 unknown
}

// Gen generates programs of the core language.  Every random choice comes from R.
type Gen struct {
	R        *lib.Rng
	MaxNodes int
	MaxDepth int
	Scopey   bool // weight the scope-building forms (C03)
	Vocab    GenVocab

	left   int
	scopes []map[string]binding
	loops  []string // loops of the current compile unit and function; "" = unlabelled
	inFn   string   // name of the innermost defn being generated ("" = none)
	nlabel int
}

// GenVocab switches optional parts of the vocabulary.
type GenVocab struct {
	NoAppend bool // do not use append
	NoFailK  bool // do not call failk
	SelfTail bool // allow self calls in tail position (C09's subject; off by default)
	Ext      bool // extended vocabulary of the C02/C03 streams: float and char literals, division, concat, builtin-named locals (other importers' models do not have them: leave off)
}

var IntGrid = []int64{0, 1, 2, 3, -1, -2, 5, 10, math.MaxInt64, -math.MaxInt64, math.MaxInt64 - 1, 1 << 62, 1 << 32, -(1 << 62)}
var VarPool = []string{"x", "y", "f"}
var StrPool = []string{"", "a", "b", "ab"}

func (g *Gen) push()                       { g.scopes = append(g.scopes, map[string]binding{}) }
func (g *Gen) pop()                        { g.scopes = g.scopes[:len(g.scopes)-1] }
func (g *Gen) declare(n string, b binding) { g.scopes[len(g.scopes)-1][n] = b }
func (g *Gen) lookup(n string) (binding, bool) {
	for i := len(g.scopes) - 1; i >= 0; i-- {
		if b, ok := g.scopes[i][n]; ok {
			return b, true
		}
	}
	return binding{}, false
}

// namesOf returns the visible names guessed to hold a value of kind t.
func (g *Gen) namesOf(t Ty) []string {
	var out []string
	for _, n := range VarPool {
		if b, ok := g.lookup(n); ok && (t == TAny || b.ty == t || b.ty == TAny) {
			out = append(out, n)
		}
	}
	return out
}

func (g *Gen) pick(xs []string) string { return xs[g.R.Intn(len(xs))] }
func (g *Gen) chance(pct int) bool     { return g.R.Intn(100) < pct }
func (g *Gen) use(n *Node) *Node       { g.left -= 1; return n }

func (g *Gen) intLit() *Node {
	if g.chance(70) {
		return g.use(Int(int64(g.R.Intn(4))))
	}
	return g.use(Int(IntGrid[g.R.Intn(len(IntGrid))]))
}

func (g *Gen) leaf(t Ty) *Node {
	if names := g.namesOf(t); len(names) > 0 && g.chance(55) {
		return g.use(Var(g.pick(names)))
	}
	if g.chance(4) {
		return g.use(Var(g.pick(VarPool))) // possibly unbound or of another kind
	}
	switch t {
	case TInt:
		return g.intLit()
	case TBool:
		return g.use(Bool(g.R.Bool()))
	case TFn:
		if g.chance(50) {
			return g.use(Var(g.pick([]string{"+", "-", "+", "list", "cons", "not", "trace", "array", "len", "first"})))
		}
		g.left -= 2
		return Fn(nil, "", g.intLit())
	case TArr:
		g.left -= 1
		if g.chance(30) {
			return Arr()
		}
		return Arr(g.intLit())
	case TList:
		g.left -= 1
		switch g.R.Intn(3) {
		case 0:
			return CallN("list")
		case 1:
			return Quote(&Datum{IsLst: true, List: []*Datum{{IsInt: true, I: 1}, {IsInt: true, I: 2}}})
		}
		return CallN("list", g.intLit())
	}
	switch g.R.Intn(8) {
	case 0:
		return g.use(Nil())
	case 1:
		return g.use(Str(g.pick(StrPool)))
	case 2:
		return g.use(QuoteSym(g.pick(QuotedSyms[:3])))
	case 3:
		return g.use(Bool(g.R.Bool()))
	case 4:
		if !g.Scopey && g.Vocab.Ext {
			// a float literal (a value like any other: true in tests, element of lists and arrays)
			return g.use(Flt([]int64{0, 0, 0, 1, 3, -3, 2, 4}[g.R.Intn(8)]))
		}
	}
	return g.intLit()
}

// body generates n forms; the last one has kind t.
func (g *Gen) body(t Ty, d int, n int) []*Node {
	var out []*Node
	for i := 0; i < n-1; i++ {
		out = append(out, g.stmt(d))
	}
	return append(out, g.expr(t, d))
}

func (g *Gen) nbody() int {
	if g.left < 6 {
		return 1
	}
	return 1 + g.R.Intn(3)
}

// stmt generates a form used for its effect.
func (g *Gen) stmt(d int) *Node {
	switch g.R.Intn(10) {
	case 0, 1, 2:
		return g.defForm(d)
	case 3, 4:
		return g.setForm(d)
	case 5:
		g.left--
		return CallN("trace", g.expr(TAny, d-1))
	case 6:
		return g.forLoop(d)
	case 7:
		if len(g.loops) > 0 {
			return g.loopExit(d)
		}
		return g.defForm(d)
	case 8:
		if g.chance(50) {
			return g.defnForm(d)
		}
	}
	return g.expr(TAny, d)
}

func (g *Gen) valueTy() Ty {
	if g.Scopey {
		return []Ty{TInt, TInt, TInt, TFn, TFn, TArr}[g.R.Intn(6)]
	}
	return []Ty{TInt, TInt, TInt, TFn, TArr, TList, TBool, TAny}[g.R.Intn(8)]
}

func (g *Gen) nameFor(t Ty) string {
	switch t {
	case TFn:
		if g.chance(70) {
			return "f"
		}
	case TInt, TBool:
		if g.chance(80) {
			return g.pick([]string{"x", "y"})
		}
	}
	return g.pick(VarPool)
}

func (g *Gen) defForm(d int) *Node {
	t := g.valueTy()
	n := g.nameFor(t)
	g.left--
	e := g.exprAr(t, d-1)
	g.declare(n, binding{t, e.ar})
	return Def(n, e.n)
}

func (g *Gen) setForm(d int) *Node {
	g.left--
	names := g.namesOf(TAny)
	n := g.pick(VarPool)
	if len(names) > 0 && g.chance(90) {
		n = g.pick(names)
	}
	t := TInt
	if b, ok := g.lookup(n); ok {
		t = b.ty
	}
	if g.chance(10) {
		t = g.valueTy()
	}
	e := g.exprAr(t, d-1)
	if b, ok := g.lookup(n); ok && (b.ty != t || b.arity != e.ar) {
		// the guess is updated in the scope that has it
		for i := len(g.scopes) - 1; i >= 0; i-- {
			if _, ok := g.scopes[i][n]; ok {
				g.scopes[i][n] = binding{t, e.ar}
				break
			}
		}
	}
	return Set(n, e.n)
}

func (g *Gen) params() ([]string, string) {
	np := g.R.Intn(3)
	var ps []string
	for i := 0; i < np; i++ {
		ps = append(ps, g.pick(VarPool))
	}
	rest := ""
	if g.chance(12) {
		rest = g.pick([]string{"y", "r"})
	}
	return ps, rest
}

// fnBody generates the body of a function with the given parameters in a fresh compile context.
func (g *Gen) fnBody(ps []string, rest string, name string, d int) []*Node {
	saveLoops, saveFn := g.loops, g.inFn
	// a function body compiled inside a loop still sees the generator's loop stack, but a
	// break there fails at run time; keep that rare
	if !g.chance(3) {
		g.loops = nil
	}
	g.inFn = name
	g.push()
	for _, p := range ps {
		t := TInt
		if p == "f" && g.chance(70) {
			t = TFn
		}
		g.declare(p, binding{t, 1})
	}
	if rest != "" {
		g.declare(rest, binding{TList, -1})
	}
	b := g.body(g.valueTy(), d-1, g.nbody())
	g.pop()
	g.loops, g.inFn = saveLoops, saveFn
	return b
}

func (g *Gen) fnLit(d int) (*Node, int) {
	ps, rest := g.params()
	g.left--
	ar := len(ps)
	if rest != "" {
		ar = -1 - len(ps)
	}
	return Fn(ps, rest, g.fnBody(ps, rest, "", d)...), ar
}

func (g *Gen) defnForm(d int) *Node {
	ps, rest := g.params()
	name := "f"
	if g.chance(15) {
		name = g.pick(VarPool)
	}
	g.left--
	ar := len(ps)
	if rest != "" {
		ar = -1 - len(ps)
	}
	g.declare(name, binding{TFn, ar})
	if len(ps) > 0 && g.chance(35) {
		return g.recursive(name, ps, d)
	}
	return Defn(name, ps, rest, g.fnBody(ps, rest, name, d)...)
}

// recursive builds a self-recursive function on its first parameter, counting down.
func (g *Gen) recursive(name string, ps []string, d int) *Node {
	p := ps[0]
	args := func() []*Node {
		a := []*Node{CallN("-", Var(p), Int(1))}
		for range ps[1:] {
			a = append(a, g.intLit())
		}
		return a
	}
	g.push()
	for _, q := range ps {
		g.declare(q, binding{TInt, -1})
	}
	self := Call(Var(name), args()...)
	if !g.Vocab.SelfTail {
		self.NoTCO = false
	}
	var rec *Node
	nested := false
	switch g.R.Intn(7) {
	case 0:
		rec = CallN("+", g.expr(TInt, d-2), self) // non-tail
	case 1:
		rec = Begin(CallN("trace", Var(p)), self)
	case 2:
		rec = Let(false, []string{"y"}, []*Node{g.expr(TInt, d-2)}, CallN("+", Var("y"), self))
	case 3:
		rec = CallN("cons", Var(p), self)
	case 4:
		rec = Call(Var(name), args()...)
		rec = CallN("*", Int(2), rec)
	case 5:
		// a self call whose argument is again a self call (McCarthy/Ackermann shape); base must be <= 0
		inner := Call(Var(name), args()...)
		switch g.R.Intn(4) {
		case 0:
			inner = Begin(CallN("trace", Var(p)), inner)
		case 1:
			inner = Cond(CallN(">", Var(p), Int(1)), inner, Int(0))
		case 2:
			inner = And(Bool(true), inner)
		}
		a := []*Node{inner}
		for range ps[1:] {
			a = append(a, g.intLit())
		}
		rec = Call(Var(name), a...)
		nested = true
	default:
		rec = self // tail position
	}
	g.left -= 8
	base := g.expr(TAny, d-2)
	if nested {
		base = Int(-int64(g.R.Intn(2)))
	}
	g.pop()
	return Defn(name, ps, "", Cond(CallN("<=", Var(p), Int(0)), base, rec))
}

func (g *Gen) newLabel() string {
	g.nlabel++
	return []string{"la", "lb", "lc"}[g.nlabel%3]
}

func (g *Gen) forLoop(d int) *Node {
	v := g.pick([]string{"i", "j", "i", "x", "y"})
	label := ""
	if g.chance(30) {
		label = g.newLabel()
	}
	n := int64(g.R.Intn(4))
	g.left -= 8
	// while-style: nil init clause, the counter lives in the enclosing scope (a def before the loop)
	while := g.chance(15)
	if while {
		g.declare(v, binding{TInt, -1})
	}
	g.push()
	if !while {
		g.declare(v, binding{TInt, -1})
	}
	g.loops = append(g.loops, label)
	var body []*Node
	k := g.nbody()
	for i := 0; i < k; i++ {
		body = append(body, g.stmt(d-1))
	}
	g.loops = g.loops[:len(g.loops)-1]
	g.pop()
	step := Set(v, CallN("+", Var(v), Int(1)))
	if g.chance(10) {
		step = Def(v, CallN("+", Var(v), Int(1)))
	}
	if while {
		return Begin(Def(v, Int(0)), For(label, Nil(), CallN("<", Var(v), Int(n)), Set(v, CallN("+", Var(v), Int(1))), body...))
	}
	return For(label, Def(v, Int(0)), CallN("<", Var(v), Int(n)), step, body...)
}

// loopExit generates a guarded break/continue for one of the enclosing loops.
func (g *Gen) loopExit(d int) *Node {
	target := ""
	if l := g.loops[g.R.Intn(len(g.loops))]; l != "" && g.chance(60) {
		target = l
	}
	var x *Node
	if g.chance(50) {
		x = Break(target)
	} else {
		x = Cont(target)
	}
	g.left -= 3
	switch g.R.Intn(4) {
	case 0:
		return x
	case 1:
		return Cond(g.expr(TBool, d-1), x, Nil())
	case 2:
		return Let(false, []string{"y"}, []*Node{g.intLit()}, Cond(g.expr(TBool, d-1), x, Var("y")))
	}
	return And(g.expr(TBool, d-1), x)
}

type exprAr struct {
	n  *Node
	ar int
}

// exprAr generates an expression and, for functions, the arity guess.
func (g *Gen) exprAr(t Ty, d int) exprAr {
	if t == TFn && d > 1 && g.left > 3 && g.chance(60) {
		n, ar := g.fnLit(d)
		return exprAr{n, ar}
	}
	n := g.expr(t, d)
	ar := -1
	if n.K == KVar {
		if b, ok := g.lookup(n.Name); ok {
			ar = b.arity
		}
		switch n.Name {
		case "+", "-", "*", "cons":
			ar = 2
		case "not", "len", "first", "trace":
			ar = 1
		case "list", "array":
			ar = -1
		}
	}
	if n.K == KFn {
		ar = len(n.Params)
		if n.Rest != "" {
			ar = -1 - ar
		}
	}
	return exprAr{n, ar}
}

// callOf generates a call of the function expression f with a plausible argument list.
func (g *Gen) callOf(f *Node, ar int, d int) *Node {
	n := 1
	switch {
	case ar >= 0:
		n = ar
	case ar < -1:
		n = -1 - ar + g.R.Intn(3)
	default:
		n = g.R.Intn(4)
	}
	if g.chance(5) {
		n = g.R.Intn(3)
	}
	args := make([]*Node, n)
	for i := range args {
		t := TInt
		if g.chance(25) {
			t = g.valueTy()
		}
		args[i] = g.expr(t, d-1)
	}
	// the same bare variable on both sides of an argument that assigns to it
	if n >= 3 && g.chance(20) {
		v := g.pick([]string{"x", "y"})
		args[0], args[n-1] = Var(v), Var(v)
		if g.chance(50) {
			args[1] = Set(v, g.expr(TInt, d-1))
		} else {
			args[1] = Def(v, g.expr(TInt, d-1))
		}
	}
	// a constant array literal directly as an argument (a call site that may run several times)
	if n >= 1 && g.chance(6) {
		args[g.R.Intn(n)] = Arr(g.intLit(), g.intLit())
	}
	g.left--
	return Call(f, args...)
}

func (g *Gen) fnCall(d int) *Node {
	// callee: a name, a literal, or a computed callee
	names := g.namesOf(TFn)
	switch {
	case len(names) > 0 && g.chance(60):
		n := g.pick(names)
		b, _ := g.lookup(n)
		return g.callOf(g.use(Var(n)), b.arity, d)
	case g.chance(50) && d > 2:
		f, ar := g.fnLit(d - 1)
		return g.callOf(f, ar, d)
	case g.chance(40) && d > 2:
		e := g.exprAr(TFn, d-1)
		g.left -= 2
		return g.callOf(Cond(g.expr(TBool, d-2), e.n, g.expr(TFn, d-2)), e.ar, d)
	case g.chance(50) && d > 2:
		e := g.exprAr(TFn, d-1)
		g.left -= 3
		return g.callOf(CallN("aget", Arr(e.n), Int(0)), e.ar, d)
	}
	e := g.exprAr(TFn, d-1)
	return g.callOf(e.n, e.ar, d)
}

var cmpOps = []string{"<", ">", "<=", ">=", "==", "!="}
var arOps = []string{"+", "-", "*", "+", "-"}

// expr generates an expression guessed to be of kind t, at most d deep.
func (g *Gen) expr(t Ty, d int) *Node {
	if d <= 1 || g.left <= 1 {
		return g.leaf(t)
	}
	// forms that can yield any kind
	r := g.R.Intn(100)
	scopeW := 18
	if g.Scopey {
		scopeW = 45
	}
	switch {
	case r < 12:
		return g.leaf(t)
	case r < 12+scopeW:
		switch g.R.Intn(9) {
		case 0, 1:
			// let / letseq
			seq := g.chance(35)
			nb := g.R.Intn(3)
			g.left -= 1 + nb
			g.push()
			var names []string
			var inits []*Node
			var decl []binding
			for i := 0; i < nb; i++ {
				vt := g.valueTy()
				nm := g.nameFor(vt)
				e := g.exprAr(vt, d-1)
				names, inits = append(names, nm), append(inits, e.n)
				if seq {
					g.declare(nm, binding{vt, e.ar})
				} else {
					decl = append(decl, binding{vt, e.ar})
				}
			}
			for i, b := range decl {
				g.declare(names[i], b)
			}
			body := g.body(t, d-1, g.nbody())
			g.pop()
			return Let(seq, names, inits, body...)
		case 2:
			g.left--
			g.push()
			body := g.body(t, d-1, g.nbody())
			g.pop()
			return Scope(body...)
		case 3:
			g.left--
			return Begin(g.body(t, d-1, 1+g.R.Intn(3))...)
		case 4, 5:
			return g.fnCall(d)
		case 6:
			// immediately applied literal with a body of kind t
			ps, rest := g.params()
			g.left -= 2
			saveLoops := g.loops
			g.loops = nil
			g.push()
			for _, p := range ps {
				g.declare(p, binding{TInt, -1})
			}
			if rest != "" {
				g.declare(rest, binding{TList, -1})
			}
			body := g.body(t, d-1, g.nbody())
			g.pop()
			g.loops = saveLoops
			ar := len(ps)
			if rest != "" {
				ar = -1 - ar
			}
			return g.callOf(Fn(ps, rest, body...), ar, d)
		case 7:
			g.left--
			return Begin(g.forLoop(d-1), g.expr(t, d-1))
		default:
			g.left--
			return Begin(g.stmt(d-1), g.expr(t, d-1))
		}
	case r < 12+scopeW+10:
		// cond
		arms := 1 + g.R.Intn(2)
		g.left -= 1
		var kids []*Node
		for i := 0; i < arms; i++ {
			kids = append(kids, g.condTest(d-1), g.expr(t, d-1))
		}
		kids = append(kids, g.expr(t, d-1))
		return Cond(kids...)
	case r < 12+scopeW+16:
		n := 2 + g.R.Intn(2)
		g.left--
		var kids []*Node
		for i := 0; i < n-1; i++ {
			kids = append(kids, g.condTest(d-1))
		}
		kids = append(kids, g.expr(t, d-1))
		if g.R.Bool() {
			return And(kids...)
		}
		return Or(kids...)
	case r < 12+scopeW+20:
		g.left--
		return CallN("trace", g.expr(t, d-1))
	case r < 12+scopeW+21 && !g.Vocab.NoFailK:
		g.left--
		return CallN("failk", g.expr(t, d-1))
	case r < 12+scopeW+24:
		nm := g.nameFor(t)
		g.left--
		e := g.exprAr(t, d-1)
		g.declare(nm, binding{t, e.ar})
		return Def(nm, e.n)
	}
	// kind specific
	switch t {
	case TInt:
		switch g.R.Intn(8) {
		case 0, 1, 2, 3:
			g.left--
			op := g.pick(arOps)
			if g.chance(15) {
				return CallN(op, g.expr(TInt, d-1), g.expr(TInt, d-1), g.expr(TInt, d-1))
			}
			return CallN(op, g.expr(TInt, d-1), g.expr(TInt, d-1))
		case 4:
			g.left--
			return CallN("len", g.expr([]Ty{TArr, TList, TArr, TAny}[g.R.Intn(4)], d-1))
		case 5:
			g.left -= 2
			if g.chance(30) {
				return CallN("aget", g.expr(TArr, d-1), g.intLit(), g.intLit())
			}
			return CallN("aget", g.expr(TArr, d-1), g.intLit())
		case 6:
			g.left--
			return CallN("first", g.expr(TList, d-1))
		}
		return g.fnCall(d)
	case TBool:
		g.left--
		switch g.R.Intn(6) {
		case 0:
			return CallN("not", g.expr(TAny, d-1))
		case 1:
			return CallN(g.pick([]string{"==", "!="}), g.expr(TAny, d-1), g.expr(TAny, d-1))
		}
		return CallN(g.pick(cmpOps), g.expr(TInt, d-1), g.expr(TInt, d-1))
	case TFn:
		n, _ := g.fnLit(d)
		return n
	case TArr:
		g.left--
		switch g.R.Intn(8) {
		case 0, 1:
			n := g.R.Intn(4)
			var es []*Node
			for i := 0; i < n; i++ {
				et := TInt
				if g.chance(35) {
					et = g.valueTy()
				}
				es = append(es, g.expr(et, d-1))
			}
			return Arr(es...)
		case 2:
			if !g.Vocab.NoAppend {
				return CallN("append", g.expr(TArr, d-1), g.expr(g.elemTy(), d-1))
			}
			return Arr(g.expr(TInt, d-1))
		case 3:
			e := g.exprAr(TFn, d-1)
			return CallN("map", e.n, g.expr(TArr, d-1))
		case 4:
			// an array of closures
			n := 1 + g.R.Intn(3)
			var es []*Node
			for i := 0; i < n; i++ {
				f, _ := g.fnLit(d - 1)
				es = append(es, f)
			}
			return Arr(es...)
		case 5:
			return Begin(CallN("aset", g.expr(TArr, d-1), g.intLit(), g.expr(g.scalarTy(), d-1)), g.expr(TArr, d-1))
		case 6:
			if !g.Scopey {
				return CallN("concat", g.expr(TArr, d-1), g.expr(TArr, d-1))
			}
		}
		return CallN("array", g.expr(TInt, d-1), g.expr(TInt, d-1))
	case TList:
		g.left--
		switch g.R.Intn(6) {
		case 0:
			return CallN("cons", g.expr(TAny, d-1), g.expr(TList, d-1))
		case 1:
			return CallN("rest", g.expr(TList, d-1))
		case 2:
			e := g.exprAr(TFn, d-1)
			return CallN("map", e.n, g.expr(TList, d-1))
		case 3:
			return CallN("cons", g.expr(TInt, d-1), g.expr(TInt, d-1))
		}
		n := g.R.Intn(4)
		var es []*Node
		for i := 0; i < n; i++ {
			es = append(es, g.expr(TInt, d-1))
		}
		return CallN("list", es...)
	}
	// TAny
	switch g.R.Intn(8) {
	case 0:
		e := g.exprAr(TFn, d-1)
		g.left--
		return CallN("apply", e.n, g.expr([]Ty{TArr, TList}[g.R.Intn(2)], d-1))
	case 1:
		return g.fnCall(d)
	case 2:
		return g.leaf(TAny)
	}
	return g.expr(g.valueTy(), d)
}

func (g *Gen) elemTy() Ty {
	if g.chance(70) {
		return TInt
	}
	return g.valueTy()
}

// scalarTy: what aset stores (never an array: a cyclic array makes Type() recurse for ever)
func (g *Gen) scalarTy() Ty { return []Ty{TInt, TInt, TFn, TBool}[g.R.Intn(4)] }

func (g *Gen) condTest(d int) *Node {
	if g.chance(70) {
		return g.expr(TBool, d)
	}
	return g.expr(TAny, d) // truthiness of any value
}

// Program generates one program.
func (g *Gen) Program() *Program {
	maxn := g.MaxNodes
	if maxn <= 0 {
		maxn = 40
	}
	g.left = 1 + g.R.Intn(maxn)
	if g.MaxDepth <= 0 {
		g.MaxDepth = 8
	}
	g.scopes = nil
	g.loops = nil
	g.inFn = ""
	g.push()
	p := &Program{}
	nforms := 1 + g.R.Intn(5)
	for i := 0; i < nforms && (g.left > 0 || i == 0); i++ {
		d := 2 + g.R.Intn(g.MaxDepth-1)
		if i < nforms-1 {
			p.Forms = append(p.Forms, g.stmt(d))
		} else {
			p.Forms = append(p.Forms, g.expr(g.valueTy(), d))
		}
	}
	// a text must not end in the bare symbol + or - (the lexer then waits for more input: C13)
	if l := p.Forms[len(p.Forms)-1]; l.K == KVar && PrimNames[l.Name] {
		p.Forms[len(p.Forms)-1] = Begin(l)
	}
	if !g.Vocab.NoFailK && p.Has(func(n *Node) bool { return n.K == KVar && n.Name == "failk" }) {
		p.FailAt = g.R.Intn(3)
	}
	return p
}

// HasSelfCallByName reports whether some defn calls its own name anywhere in its body
// (the shape on which the compile-time tail-call choice of the real generator can matter).
func (p *Program) HasSelfCallByName() bool {
	found := false
	var walk func(n *Node, fn string)
	walk = func(n *Node, fn string) {
		if n.K == KDefn {
			fn = n.Name
		} else if n.K == KFn {
			fn = ""
		}
		if n.K == KCall && n.Kids[0].K == KVar && fn != "" && n.Kids[0].Name == fn {
			found = true
		}
		for _, k := range n.Kids {
			walk(k, fn)
		}
	}
	for _, f := range p.Forms {
		walk(f, "")
	}
	return found
}

func (p *Program) UsesAppend() bool {
	return p.Has(func(n *Node) bool { return n.K == KVar && n.Name == "append" })
}

// ShadowsSelfName reports whether some defn named n calls n in its body while n is bound a second
// time where that can change what n means inside the body: inside the defn (parameter, let/letseq
// binding, def, set, nested defn, fn parameter) or by a def/set/defn of n anywhere outside it.
// This is the shape on which "self tail call chosen by name at compile time" (KNOWN_FINDINGS
// tco-by-name) can differ from lexical scoping.  let bindings and fn parameters outside the defn
// cannot, and do not count.
func (p *Program) ShadowsSelfName() bool {
	found := false
	p.Walk(func(d *Node) {
		if d.K != KDefn {
			return
		}
		name := d.Name
		inside := map[*Node]bool{}
		d.Walk(func(n *Node) { inside[n] = true })
		rebinds, calls := false, false
		for _, q := range d.Params {
			if q == name {
				rebinds = true
			}
		}
		if d.Rest == name {
			rebinds = true
		}
		p.Walk(func(n *Node) {
			if n == d {
				return
			}
			switch n.K {
			case KDef, KSet, KDefn:
				if n.Name == name {
					rebinds = true
				}
			}
			if !inside[n] {
				return
			}
			switch n.K {
			case KLet, KLetSeq:
				for _, x := range n.Binds {
					if x == name {
						rebinds = true
					}
				}
			case KFn, KDefn:
				for _, x := range n.Params {
					if x == name {
						rebinds = true
					}
				}
				if n.Rest == name {
					rebinds = true
				}
			case KFor:
				if len(n.Kids) > 0 && n.Kids[0].K == KDef && n.Kids[0].Name == name {
					rebinds = true
				}
			case KCall:
				if n.Kids[0].K == KVar && n.Kids[0].Name == name {
					calls = true
				}
			}
		})
		if rebinds && calls {
			found = true
		}
	})
	return found
}

// ConcatCount returns the number of syntactic uses of concat; OneArgConcat reports a (concat a) call.
func (p *Program) ConcatCount() int {
	c := 0
	p.Walk(func(n *Node) {
		if n.K == KVar && n.Name == "concat" {
			c++
		}
	})
	return c
}

func (p *Program) OneArgConcat() bool {
	return p.Has(func(n *Node) bool {
		return n.K == KCall && n.Kids[0].K == KVar && n.Kids[0].Name == "concat" && len(n.Kids) == 2
	})
}

// ConcatOfConcatShape is the narrow shape of KNOWN_FINDINGS concat-aliasing: the array that is
// concatenated onto can only have got its spare capacity from concat itself (no append in the program,
// at least three uses of concat), or a one-argument concat (which shares its argument's storage).
func (p *Program) ConcatOfConcatShape() bool {
	return (p.AppendCount() == 0 && p.ConcatCount() >= 3) || p.OneArgConcat()
}

// AppendCount returns the number of syntactic uses of append.
func (p *Program) AppendCount() int {
	c := 0
	p.Walk(func(n *Node) {
		if n.K == KVar && n.Name == "append" {
			c++
		}
	})
	return c
}
