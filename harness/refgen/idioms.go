package refgen

import "math"

// Hand-shaped program families for the scoping property (C03) and the effect-order part of C02.
// Each takes random parameters from the generator so that names collide (pool x y f).

func (g *Gen) v() string { return g.pick([]string{"x", "y"}) }

// Idiom returns one instance of a randomly chosen family.
func (g *Gen) Idiom() *Program {
	x, y := "x", "y"
	if g.R.Bool() {
		x, y = "y", "x"
	}
	k := int64(1 + g.R.Intn(3))
	pick := g.R.Intn(70)
	if g.Scopey && ((pick >= 46 && pick < 52) || (pick >= 58 && pick < 62) || pick >= 66) {
		// the array-concatenation, list-concatenation, float, division and string families belong to the C02 stream
		// 70 = records read through dotted paths (round 5, C03-r5s2)
		pick = []int{24, 25, 26, 27, 52, 53, 54, 55, 62, 63, 64, 65, 70, 70, 70}[g.R.Intn(15)]
	}
	if !g.Vocab.Ext && ((pick >= 46 && pick < 52) || (pick >= 58 && pick < 70)) {
		// importers whose models lack the extended vocabulary (C05, C09, C16) get the families of the core language
		pick = g.R.Intn(46)
	}
	if pick >= 31 && pick < 45 {
		pick = 24 + (pick-31)%4 // the families added for independent seeds (rounds 2 and 3) get the unused slots
	}
	if g.Vocab.Ext && !g.Scopey && g.R.Intn(9) == 0 {
		pick = 71 // C02 stream only (round 6): self call in a non-tail hole of a form in tail position
	}
	switch pick {
	case 71:
		return g.nonTailHole(x, y, k)
	case 0:
		// the caller has a local of the same name as the callee's free variable
		return &Program{Forms: []*Node{
			Def(x, Int(10)),
			Defn("f", nil, "", Var(x)),
			Defn("g", []string{x}, "", CallN("+", CallN("f"), Var(x))),
			CallN("trace", CallN("g", Int(k))),
			Let(false, []string{x}, []*Node{Int(7)}, CallN("f")),
		}}
	case 1:
		// counter: two closures of one activation share the variable, two activations do not
		mk := Defn("mk", nil, "", Def(x, Int(0)),
			Arr(Fn(nil, "", Set(x, CallN("+", Var(x), Int(1)))), Fn(nil, "", Var(x))))
		return &Program{Forms: []*Node{mk, Def("a", CallN("mk")), Def("b", CallN("mk")),
			Call(CallN("aget", Var("a"), Int(0))), Call(CallN("aget", Var("a"), Int(0))), Call(CallN("aget", Var("b"), Int(0))),
			CallN("list", Call(CallN("aget", Var("a"), Int(1))), Call(CallN("aget", Var("b"), Int(1))))}}
	case 2:
		// closures made in a loop share the loop's single scope
		return &Program{Forms: []*Node{Def("a", Arr()),
			For("", Def("i", Int(0)), CallN("<", Var("i"), Int(k)), Set("i", CallN("+", Var("i"), Int(1))),
				Set("a", CallN("append", Var("a"), Fn(nil, "", Var("i"))))),
			CallN("map", Fn([]string{"f"}, "", CallN("f")), Var("a"))}}
	case 3:
		// a closure made in a let outlives it; later set through another closure
		return &Program{Forms: []*Node{
			Def("f", Let(false, []string{x}, []*Node{Int(k)}, Fn([]string{y}, "", Set(x, CallN("+", Var(x), Var(y)))))),
			CallN("f", Int(1)), Let(false, []string{x}, []*Node{Int(100)}, CallN("f", Int(2)))}}
	case 4:
		// function passed as argument and called where same-named locals exist
		return &Program{Forms: []*Node{
			Defn("twice", []string{"f", x}, "", CallN("f", CallN("f", Var(x)))),
			Def(y, Int(k)),
			CallN("twice", Fn([]string{x}, "", CallN("+", Var(x), Var(y))), Int(5))}}
	case 5:
		// returned closure chain: three levels of parameters with the same name
		return &Program{Forms: []*Node{
			Defn("f", []string{x}, "", Fn([]string{y}, "", Fn([]string{x}, "", CallN("list", Var(x), Var(y))))),
			Call(Call(CallN("f", Int(1)), Int(2)), Int(3))}}
	case 6:
		// def inside a function body after a closure was made: the closure sees it (same frame)
		return &Program{Forms: []*Node{
			Defn("f", nil, "", Def("g", Fn(nil, "", Var(x))), Def(x, Int(k)), CallN("g")),
			CallN("f")}}
	case 7:
		// set of a name that is nowhere bound, inside a function: stays local to the activation
		return &Program{Forms: []*Node{
			Defn("f", nil, "", Set(x, Int(k)), Var(x)), CallN("trace", CallN("f")), Var(x)}}
	case 8:
		// labelled break out of two loops inside let inside cond
		return &Program{Forms: []*Node{Def("n", Int(0)),
			For("la", Def("i", Int(0)), CallN("<", Var("i"), Int(3)), Set("i", CallN("+", Var("i"), Int(1))),
				For("", Def("j", Int(0)), CallN("<", Var("j"), Int(3)), Set("j", CallN("+", Var("j"), Int(1))),
					Set("n", CallN("+", Var("n"), Int(1))),
					Cond(CallN("==", Var("j"), Int(k)), Let(false, []string{x}, []*Node{Int(1)}, Break("la")), Nil())),
				CallN("trace", Var("i"))),
			Var("n")}}
	case 9:
		// argument order and single evaluation
		return &Program{Forms: []*Node{
			Defn("f", []string{x, y}, "", CallN("list", Var(x), Var(y))),
			Call(Begin(CallN("trace", Int(0)), Var("f")), CallN("trace", Int(1)), CallN("trace", Int(2)))}}
	case 10:
		// variadic tail + apply
		return &Program{Forms: []*Node{
			Defn("f", []string{x}, "r", CallN("cons", Var(x), Var("r"))),
			CallN("list", CallN("f", Int(1)), CallN("f", Int(1), Int(2), Int(3)), CallN("apply", Var("f"), Arr(Int(4), Int(5))))}}
	case 11:
		// shadowing at depth: let in let in fn in let
		return &Program{Forms: []*Node{
			Let(false, []string{x}, []*Node{Int(1)},
				Let(true, []string{x, y}, []*Node{CallN("+", Var(x), Int(1)), CallN("+", Var(x), Int(1))},
					Call(Fn([]string{x}, "", Let(false, []string{y}, []*Node{Var(x)}, CallN("list", Var(x), Var(y)))), CallN("+", Var(x), Var(y)))))}}
	case 12:
		// newScope: def is local to the block; set reaches out
		return &Program{Forms: []*Node{Def(x, Int(1)), Scope(Def(x, Int(2)), Set(x, Int(3)), CallN("trace", Var(x))),
			Scope(Set(x, Int(k))), Var(x)}}
	case 13:
		// map with a closure that mutates a captured variable: order of application
		return &Program{Forms: []*Node{Def(x, Int(0)),
			CallN("map", Fn([]string{y}, "", Set(x, CallN("+", CallN("*", Var(x), Int(10)), Var(y)))), Arr(Int(1), Int(2), Int(3))), Var(x)}}
	case 14:
		// recursion with closures captured per activation
		return &Program{Forms: []*Node{
			Defn("f", []string{x, "a"}, "", Cond(CallN("<=", Var(x), Int(0)), Var("a"),
				CallN("f", CallN("-", Var(x), Int(1)), CallN("append", Var("a"), Fn(nil, "", Var(x)))))),
			CallN("map", Fn([]string{"f"}, "", CallN("f")), CallN("f", Int(k), Arr()))}}
	case 15:
		// KNOWN_FINDINGS tco-by-name: the body rebinds its own name, then calls it in tail position
		switch g.R.Intn(4) {
		case 3:
			return &Program{Forms: []*Node{
				Defn("f", []string{x}, "", Cond(CallN(">", Var(x), Int(0)), CallN("f", CallN("-", Var(x), Int(1))), Int(0))),
				Def("g", Var("f")), Defn("f", []string{x}, "", Int(99)), CallN("g", Int(k))}}
		case 0:
			return &Program{Forms: []*Node{
				Defn("f", []string{x}, "", Let(false, []string{"f"}, []*Node{Fn([]string{y}, "", Int(42))},
					Cond(CallN(">", Var(x), Int(0)), CallN("f", Int(0)), Int(5)))), CallN("f", Int(k))}}
		case 1:
			return &Program{Forms: []*Node{
				Defn("f", []string{x}, "", Def("f", Fn([]string{x}, "", Int(7))),
					Cond(CallN(">", Var(x), Int(0)), CallN("f", Int(0)), Int(100))), CallN("f", Int(k))}}
		}
		return &Program{Forms: []*Node{
			Defn("g", []string{"g", x}, "", Cond(CallN(">", Var(x), Int(0)), CallN("g", Var("g"), Int(0)), Int(9))),
			CallN("g", Fn([]string{"a", "b"}, "", Int(33)), Int(k))}}
	case 16:
		// KNOWN_FINDINGS append-aliasing: two appends to the same array with spare capacity
		return &Program{Forms: []*Node{
			Def("a", CallN("append", Arr(Int(1), Int(2), Int(3)), Int(4))),
			Def("b", CallN("append", Var("a"), Int(5))),
			Def("c", CallN("append", Var("a"), Int(6))),
			CallN("list", Var("b"), Var("c"))}}
	case 17:
		// McCarthy 91: the argument of the tail self call is a self call
		return &Program{Forms: []*Node{
			Defn("f", []string{x}, "", CallN("trace", Var(x)),
				Cond(CallN(">", Var(x), Int(100)), CallN("-", Var(x), Int(10)), CallN("f", CallN("f", CallN("+", Var(x), Int(11)))))),
			CallN("f", Int(97+k))}}
	case 18:
		// Ackermann
		return &Program{Forms: []*Node{
			Defn("f", []string{x, y}, "", Cond(CallN("==", Var(x), Int(0)), CallN("+", Var(y), Int(1)),
				CallN("==", Var(y), Int(0)), CallN("f", CallN("-", Var(x), Int(1)), Int(1)),
				CallN("f", CallN("-", Var(x), Int(1)), CallN("f", Var(x), CallN("trace", CallN("-", Var(y), Int(1))))))),
			CallN("f", Int(k%3), Int(1))}}
	case 19:
		// an activation that binds a name locally only on some paths; the next activation must see the outer one
		return &Program{Forms: []*Node{Def(x, Int(10)),
			Defn("f", []string{y}, "", Cond(Var(y), Def(x, Int(k)), Int(0)), CallN("list", CallN("+", Var(x), Int(0)))),
			CallN("list", CallN("f", Bool(true)), CallN("f", Bool(false)), CallN("f", Bool(true)))}}
	case 20:
		// the local definition comes after the read inside a compound argument
		return &Program{Forms: []*Node{Def(x, Int(10)),
			Defn("f", []string{y}, "", Def("r", CallN("list", CallN("+", Var(x), Var(y)))), Def(x, CallN("*", Var(y), Int(100))), Var("r")),
			CallN("list", CallN("f", Int(1)), CallN("f", Int(2)), Var(x))}}
	case 21:
		// same through a closure called twice, the name bound by set on one path only
		return &Program{Forms: []*Node{Def(x, Int(7)),
			Def("f", Fn([]string{y}, "", Cond(CallN(">", Var(y), Int(0)), Let(false, nil, nil, Def(x, Var(y))), Nil()),
				CallN("trace", CallN("+", Var(x), Int(0))))),
			CallN("f", Int(k)), CallN("f", Int(0)), CallN("f", Int(k+1))}}
	case 23:
		// an fn literal in argument position (compiled when the call runs) reading / setting a name that is
		// bound nowhere lexically, while a caller further down the stack has a local of that name
		body := Var(x)
		if g.R.Bool() {
			body = Begin(Set(x, Int(k)), Var(x))
		}
		return &Program{Forms: []*Node{
			Defn("c", nil, "", Call(Fn([]string{"h"}, "", CallN("h")), Fn(nil, "", body))),
			Defn("f", []string{x}, "", Def("r", CallN("c")), CallN("list", Var("r"), Var(x))),
			CallN("f", Int(5))}}
	case 24:
		// the same variable as a bare argument on both sides of an argument that changes it
		switch g.R.Intn(4) {
		case 0:
			return &Program{Forms: []*Node{Def(x, Int(1)), CallN("list", Var(x), Set(x, Int(k+1)), Var(x))}}
		case 1:
			return &Program{Forms: []*Node{Def(x, Int(1)),
				Defn("bump", nil, "", Set(x, CallN("+", Var(x), Int(k)))),
				CallN("+", Var(x), CallN("bump"), Var(x))}}
		case 2:
			return &Program{Forms: []*Node{Def(x, Int(1)),
				Defn("f", []string{"a", "b", "c"}, "", CallN("list", Var("a"), Var("b"), Var("c"))),
				CallN("f", Var(x), Def(x, Int(k+4)), Var(x))}}
		}
		return &Program{Forms: []*Node{Def(x, Int(1)), Def(y, Int(2)),
			Defn("f", []string{"a"}, "r", CallN("cons", Var("a"), Var("r"))),
			CallN("f", Var(x), Var(y), CallN("trace", Set(y, Var(x))), Set(x, Int(k+7)), Var(y), Var(x))}}
	case 25:
		// a constant array literal written as a call argument, at a call site executed several times, mutated
		switch g.R.Intn(3) {
		case 0:
			return &Program{Forms: []*Node{
				Defn("fill", []string{"a", "v"}, "", CallN("aset", Var("a"), Int(0), Var("v")), Var("a")),
				Defn("mk", []string{"v"}, "", CallN("fill", Arr(Int(0), Int(0)), Var("v"))),
				CallN("list", CallN("mk", Int(1)), CallN("mk", Int(k+1)))}}
		case 1:
			return &Program{Forms: []*Node{
				Defn("inc", []string{"a"}, "", CallN("aset", Var("a"), Int(0), CallN("+", CallN("aget", Var("a"), Int(0)), Int(1))), CallN("aget", Var("a"), Int(0))),
				Defn("g", nil, "", CallN("inc", Arr(Int(k), Int(2)))),
				CallN("list", CallN("g"), CallN("g"), CallN("g"))}}
		}
		return &Program{Forms: []*Node{Def("r", Arr()),
			Defn("fill", []string{"a", "v"}, "", CallN("aset", Var("a"), Int(1), Var("v")), Var("a")),
			For("", Def("i", Int(0)), CallN("<", Var("i"), Int(k+1)), Set("i", CallN("+", Var("i"), Int(1))),
				Set("r", CallN("append", Var("r"), CallN("fill", Arr(Str("a"), Int(0)), Var("i"))))),
			Var("r")}}
	case 26:
		// the same fn form evaluated several times in ONE activation (or at top level), each time under a
		// fresh let / newScope block: every closure must keep the block variables of its own iteration
		mk := func(body ...*Node) *Node {
			return For("", Def("i", Int(0)), CallN("<", Var("i"), Int(k+1)), Set("i", CallN("+", Var("i"), Int(1))), body...)
		}
		var loop *Node
		switch g.R.Intn(3) {
		case 0:
			loop = mk(Let(false, []string{x}, []*Node{Var("i")}, Def("g", Fn(nil, "", Var(x))), Set("a", CallN("append", Var("a"), Var("g")))))
		case 1:
			loop = mk(Scope(Def(x, CallN("*", Var("i"), Int(10))), Set("a", CallN("append", Var("a"), Fn(nil, "", Set(x, CallN("+", Var(x), Int(1))))))))
		default:
			loop = mk(Let(true, []string{x, y}, []*Node{Var("i"), CallN("+", Var(x), Int(1))},
				Defn("g", nil, "", CallN("list", Var(x), Var(y))), Set("a", CallN("append", Var("a"), Var("g")))))
		}
		call := CallN("map", Fn([]string{"h"}, "", CallN("h")), Var("a"))
		if g.R.Bool() {
			return &Program{Forms: []*Node{Def("a", Arr()), loop, call, call}}
		}
		return &Program{Forms: []*Node{Defn("f", nil, "", Def("a", Arr()), loop, call), CallN("f"), CallN("f")}}
	case 27:
		// inside a function: a closure created while its enclosing block has no binding yet, the block then
		// binds the name the closure uses (newScope first statement / parallel let initialiser / let-bound
		// self-recursive helper); an outer variable of the same name must not be seen instead
		switch g.R.Intn(4) {
		case 0:
			return &Program{Forms: []*Node{Def(x, Int(100)),
				Defn("f", nil, "", Scope(Def("g", Fn(nil, "", Var(x))), Def(x, Int(k)), CallN("g"))), CallN("f")}}
		case 1:
			return &Program{Forms: []*Node{Def(x, Int(100)),
				Defn("f", []string{y}, "", Let(false, []string{"h", x}, []*Node{Fn(nil, "", CallN("+", Var(x), Var(y))), Int(k)}, CallN("h"))),
				CallN("f", Int(1))}}
		case 2:
			return &Program{Forms: []*Node{
				Defn("f", []string{"n"}, "", Let(false, []string{"h"}, []*Node{
					Fn([]string{"k"}, "", Cond(CallN("<=", Var("k"), Int(0)), Int(0), CallN("+", Int(1), CallN("h", CallN("-", Var("k"), Int(1))))))},
					CallN("h", Var("n")))),
				CallN("f", Int(k))}}
		}
		return &Program{Forms: []*Node{Def(y, Int(100)),
			Defn("f", nil, "", For("", Fn(nil, "", Var(y)), CallN("<", Int(1), Int(0)), Int(0)),
				Let(false, nil, nil, Def("g", Fn(nil, "", Set(y, Int(k)))), CallN("g"), Def(y, Int(7)), CallN("list", CallN("g"), Var(y)))),
			CallN("f"), Var(y)}}
	case 28, 29, 30:
		// effect order inside map: the function is applied to the elements first to last (list and array),
		// observed through trace, through a variable the function assigns, and through the result itself
		var coll *Node
		switch g.R.Intn(4) {
		case 0:
			coll = Quote(&Datum{IsLst: true, List: []*Datum{{IsInt: true, I: 1}, {IsInt: true, I: 2}, {IsInt: true, I: k + 2}}})
		case 1:
			coll = CallN("list", Int(1), Int(2), Int(k+2))
		case 2:
			coll = CallN("cons", Int(1), CallN("cons", Int(k+1), Quote(&Datum{IsLst: true})))
		default:
			coll = Arr(Int(1), Int(2), Int(k+2))
		}
		switch g.R.Intn(4) {
		case 0:
			return &Program{Forms: []*Node{CallN("map", Var("trace"), coll)}}
		case 1:
			return &Program{Forms: []*Node{CallN("map", Fn([]string{x}, "", CallN("trace", Var(x)), CallN("+", Var(x), Int(1))), coll)}}
		case 2:
			return &Program{Forms: []*Node{Def("a", Arr()),
				Def("r", CallN("map", Fn([]string{x}, "", Set("a", CallN("append", Var("a"), Var(x))), CallN("len", Var("a"))), coll)),
				CallN("list", Var("a"), Var("r"))}}
		default:
			return &Program{Forms: []*Node{Def(y, Int(0)),
				Defn("f", []string{x}, "", Set(y, CallN("+", CallN("*", Var(y), Int(10)), Var(x)))),
				CallN("list", CallN("map", Var("f"), coll), Var(y))}}
		}
	case 52, 53:
		// a free variable many hops up the closure parent chain (n textually nested fn levels, or callbacks
		// created in argument positions); a same-named global must never be what the deep closure sees
		n := 5 + g.R.Intn(9)
		wrapCalls := func(e *Node, n int) *Node {
			for i := 0; i < n; i++ {
				e = Call(e)
			}
			return e
		}
		switch g.R.Intn(5) {
		case 0: // curried: n closures returned one by one
			body := Var(x)
			for i := 0; i < n; i++ {
				body = Fn(nil, "", body)
			}
			return &Program{Forms: []*Node{Def(x, Int(100)), Defn("f", []string{x}, "", body), wrapCalls(CallN("f", Int(k)), n)}}
		case 1: // the deep closure assigns the captured parameter
			body := Set(x, CallN("+", Var(x), Int(1)))
			for i := 0; i < n; i++ {
				body = Fn(nil, "", body)
			}
			return &Program{Forms: []*Node{Def(x, Int(100)),
				Defn("f", []string{x}, "", wrapCalls(body, n), Var(x)), CallN("list", CallN("f", Int(k)), Var(x))}}
		case 2: // immediately invoked at every level
			body := CallN("+", Var(x), Var(y))
			for i := 0; i < n; i++ {
				body = Call(Fn(nil, "", body))
			}
			return &Program{Forms: []*Node{Def(x, Int(100)), Def(y, Int(1000)),
				Defn("f", []string{x}, "", Let(false, []string{y}, []*Node{Int(k)}, body)), CallN("f", Int(7))}}
		case 3: // callbacks created in argument positions
			m := 3 + g.R.Intn(6)
			body := Var(x)
			for i := 0; i < m; i++ {
				body = CallN("h", Fn(nil, "", body))
			}
			return &Program{Forms: []*Node{Def(x, Int(100)), Defn("h", []string{"g"}, "", CallN("g")),
				Defn("f", []string{x}, "", body), CallN("f", Int(k))}}
		default: // each level has its own parameter; the innermost lists the outermost and the nearest
			body := CallN("list", Var(x), Var("p"))
			for i := 0; i < n; i++ {
				body = Fn([]string{"p"}, "", body)
			}
			call := CallN("f", Int(k))
			for i := 0; i < n; i++ {
				call = Call(call, Int(int64(i)))
			}
			return &Program{Forms: []*Node{Def(x, Int(100)), Def("p", Int(200)), Defn("f", []string{x}, "", body), call}}
		}
	case 54, 55:
		// while-style loops (nil init clause): the loop still has a scope of its own, so a def in the body
		// neither overwrites nor shadows an enclosing binding, and closures made in the body capture the loop's
		test := CallN("<", Var("i"), Int(k))
		step := Set("i", CallN("+", Var("i"), Int(1)))
		switch g.R.Intn(5) {
		case 0:
			return &Program{Forms: []*Node{Def(x, Int(1)), Def("i", Int(0)),
				For("", Nil(), test, step, Def(x, CallN("+", Var("i"), Int(10)))), Var(x)}}
		case 1:
			return &Program{Forms: []*Node{Defn("f", []string{x}, "", Def("i", Int(0)),
				For("", Nil(), test, step, Def(x, Int(5)), Def(y, Int(6))), CallN("list", Var(x), Var("i"))),
				Def(y, Int(50)), CallN("list", CallN("f", Int(1)), Var(y))}}
		case 2:
			return &Program{Forms: []*Node{Def("a", Arr()), Def("i", Int(0)),
				For("", Nil(), test, step, Def(y, Var("i")), Set("a", CallN("append", Var("a"), Fn(nil, "", Var(y))))),
				Def(y, Int(50)), CallN("map", Fn([]string{"g"}, "", CallN("g")), Var("a"))}}
		case 3:
			return &Program{Forms: []*Node{Def(x, Int(1)),
				For("", Nil(), Bool(true), Nil(), Def(x, Int(k+4)), Break("")), Var(x)}}
		default:
			return &Program{Forms: []*Node{Def(x, Int(1)), Defn("f", nil, "", Var(x)),
				Let(false, []string{"i"}, []*Node{Int(0)},
					For("la", Nil(), test, step, Def(x, Int(9)), Def("f", Fn(nil, "", Int(77)))),
					CallN("list", Var(x), CallN("f")))}}
		}
	case 56, 57:
		// apply passes the VALUES of the argument array / list on: they are not evaluated again, and arrays
		// among them keep their identity
		switch g.R.Intn(7) {
		case 0:
			return &Program{Forms: []*Node{Def("a", Arr(Int(1), Int(2), Int(3))), CallN("apply", Var("aset"), Arr(Var("a"), Int(0), Int(k+8))), Var("a")}}
		case 1:
			args := Arr(Var("a"))
			if g.R.Bool() {
				args = CallN("list", Var("a"))
			}
			return &Program{Forms: []*Node{Def("a", Arr(Int(1), Int(2))), Defn("g", []string{"v"}, "", CallN("aset", Var("v"), Int(0), Int(k+8)), Var("v")),
				Def("r", CallN("apply", Var("g"), args)), CallN("aset", Var("r"), Int(1), Int(7)), CallN("list", Var("a"), Var("r"))}}
		case 2:
			return &Program{Forms: []*Node{Def(x, Int(5)), CallN("apply", Var("list"), Arr(QuoteSym(x), QuoteSym("q")))}}
		case 3:
			return &Program{Forms: []*Node{CallN("apply", Var("first"),
				Arr(Quote(&Datum{IsLst: true, List: []*Datum{{IsInt: true, I: 1}, {IsInt: true, I: 2}, {IsInt: true, I: k}}})))}}
		case 4:
			return &Program{Forms: []*Node{CallN("apply", Fn([]string{"p", "q"}, "", Var("q")),
				CallN("list", Int(1), Quote(&Datum{IsLst: true, List: []*Datum{{Sym: "+"}, {IsInt: true, I: 1}, {IsInt: true, I: k}}})))}}
		case 5:
			return &Program{Forms: []*Node{Def(x, Int(5)), CallN("apply", Fn([]string{"p"}, "r", CallN("list", Var("p"), Var("r"))),
				CallN("list", QuoteSym(x), Arr(Int(k)), Quote(&Datum{IsLst: true, List: []*Datum{{Sym: "trace"}, {IsInt: true, I: 1}}})))}}
		default:
			return &Program{Forms: []*Node{Def("a", Arr(Arr(Int(1)), Arr(Int(2)))),
				CallN("apply", Fn([]string{"p", "q"}, "", CallN("aset", Var("p"), Int(0), Int(k+8)), CallN("aset", Var("q"), Int(0), Int(9))), Var("a")), Var("a")}}
		}
	case 58, 59:
		// concat of lists: the elements of all lists in order; no argument list is changed (three and more
		// lists, a list given twice, quoted literals in a function body or loop that runs again)
		dl := func(xs ...int64) *Node {
			d := &Datum{IsLst: true}
			for _, v := range xs {
				d.List = append(d.List, &Datum{IsInt: true, I: v})
			}
			return Quote(d)
		}
		switch g.R.Intn(7) {
		case 0:
			return &Program{Forms: []*Node{Def("a", dl(1, 2)), Def("b", dl(3, 4)), Def("c", CallN("list", Int(5), Int(k))),
				Def("r", CallN("concat", Var("a"), Var("b"), Var("c"))), CallN("list", Var("r"), Var("a"), Var("b"), Var("c"))}}
		case 1:
			return &Program{Forms: []*Node{Defn("mk", []string{x}, "", CallN("concat", dl(1), dl(2), CallN("list", Var(x)))),
				CallN("list", CallN("mk", Int(7)), CallN("mk", Int(k+7)), CallN("mk", Int(9)))}}
		case 2:
			return &Program{Forms: []*Node{Def("r", Nil()),
				For("", Def("i", Int(0)), CallN("<", Var("i"), Int(k+1)), Set("i", CallN("+", Var("i"), Int(1))),
					Set("r", CallN("concat", dl(0), dl(1, 2), dl(3), CallN("list", Var("i"))))), Var("r")}}
		case 3:
			return &Program{Forms: []*Node{Def("b", CallN("list", Int(3), Int(k))), Def("r", CallN("concat", CallN("list", Int(1)), Var("b"), Var("b"))),
				CallN("list", CallN("len", Var("r")), Var("b"), CallN("len", Var("b")))}}
		case 4:
			return &Program{Forms: []*Node{Def("a", dl(1)), Def("b", dl(2, 3)), Def("c", dl(4)), Def("d", dl(5, k)),
				Def("r", CallN("concat", Var("a"), Var("b"), Var("c"), Var("d"))), Def("q", CallN("concat", Var("b"), Var("c"))),
				CallN("list", Var("r"), Var("q"), Var("a"), Var("b"), Var("c"), Var("d"))}}
		case 5:
			return &Program{Forms: []*Node{Def("a", dl(1, 2)), CallN("list", CallN("concat", Var("a")), CallN("concat", Var("a"), Nil(), dl(k)),
				CallN("concat", Var("a"), Var("a")), Var("a"))}}
		default:
			return &Program{Forms: []*Node{Def("a", dl(1, 2)), CallN("trace", Var("a")),
				CallN("concat", Var("a"), []*Node{Int(k), Arr(Int(1)), CallN("cons", Int(1), Int(2)), Str("ab")}[g.R.Intn(4)], dl(3))}}
		}
	case 60, 61:
		// every float is true, also 0.0: cond predicate, and/or (which return the deciding value), not,
		// the test of a for loop; through variables, parameters and elements of lists
		f := Flt([]int64{0, 0, 0, 1, -3, 4}[g.R.Intn(6)])
		switch g.R.Intn(7) {
		case 0:
			return &Program{Forms: []*Node{CallN("list", Cond(f, Int(1), Int(2)), And(f, Int(7)), Or(f, Int(7)), CallN("not", f))}}
		case 1:
			return &Program{Forms: []*Node{CallN("list", And(Int(1), f, Int(7)), Or(Bool(false), f, Int(7)), And(f), Or(Nil(), f))}}
		case 2:
			return &Program{Forms: []*Node{Def(x, f), Cond(Var(x), CallN("trace", Int(1)), CallN("trace", Int(2))), Var(x)}}
		case 3:
			return &Program{Forms: []*Node{Def("n", Int(0)),
				For("", Def("i", Int(0)), f, Set("i", CallN("+", Var("i"), Int(1))),
					Set("n", CallN("+", Var("n"), Int(1))), Cond(CallN(">", Var("i"), Int(k)), Break(""), Nil())), Var("n")}}
		case 4:
			return &Program{Forms: []*Node{Defn("t", []string{"v"}, "", Cond(Var("v"), Int(1), Int(0))),
				CallN("map", Var("t"), CallN("list", f, Int(0), Flt(1), Nil(), Bool(false), Str(""), Flt(0)))}}
		case 5:
			return &Program{Forms: []*Node{Def("a", Arr(f, Flt(3))), Cond(CallN("aget", Var("a"), Int(0)), Int(k), Int(k+10)),
				CallN("list", CallN("not", CallN("first", Var("a"))), Var("a"))}}
		default:
			return &Program{Forms: []*Node{Defn("g", []string{"p"}, "r", Or(And(Var("p"), CallN("trace", Int(1))), CallN("trace", Int(2)))),
				CallN("list", CallN("g", f), CallN("g", Int(0)), CallN("apply", Var("g"), Arr(f)))}}
		}
	case 62, 63:
		// a closure made directly inside a block that never binds anything (newScope / let [] / a for without
		// a def) escapes; a block entered later that binds a name free in the closure is not what it sees
		esc := []func(e *Node) *Node{
			func(e *Node) *Node { return Scope(e) },
			func(e *Node) *Node { return Let(false, nil, nil, e) },
			func(e *Node) *Node { return Let(true, nil, nil, e) },
			func(e *Node) *Node {
				return Begin(Def("i", Int(0)), For("", Nil(), CallN("<", Var("i"), Int(1)), Set("i", CallN("+", Var("i"), Int(1))), e))
			},
		}[g.R.Intn(4)]
		later := func(name string, v int64, body *Node) *Node {
			switch g.R.Intn(4) {
			case 0:
				return Let(false, []string{name}, []*Node{Int(v)}, body)
			case 1:
				return Let(true, []string{name}, []*Node{Int(v)}, body)
			case 2:
				return Scope(Def(name, Int(v)), body)
			}
			return For("", Def(name, Int(v)), CallN("<", Var(name), Int(v+1)), Set(name, CallN("+", Var(name), Int(1))), CallN("trace", body))
		}
		switch g.R.Intn(6) {
		case 0:
			return &Program{Forms: []*Node{Def(x, Int(1)), Def("g", Nil()), esc(Set("g", Fn(nil, "", Var(x)))), later(x, k+4, CallN("g")), CallN("g")}}
		case 1:
			return &Program{Forms: []*Node{Def(x, Int(1)), Defn("mk", nil, "", esc(Fn(nil, "", Var(x)))), Def("g", CallN("mk")),
				Defn("h", nil, "", later(x, k+4, CallN("g"))), CallN("list", CallN("h"), later(x, 7, CallN("g")), CallN("g"))}}
		case 2:
			return &Program{Forms: []*Node{Def(x, Int(1)), Def("g", Nil()),
				esc(Set("g", Fn(nil, "", Set(x, CallN("+", Var(x), Int(10))), Var(x)))),
				Def("r", later(x, k+4, CallN("g"))), CallN("list", Var("r"), Var(x), CallN("g"))}}
		case 3:
			return &Program{Forms: []*Node{Def("g", Nil()), esc(Set("g", Fn(nil, "", Var(y)))), later(y, k+4, CallN("g"))}}
		case 4:
			return &Program{Forms: []*Node{Def(x, Int(1)), Def("a", Arr()),
				For("", Def("i", Int(0)), CallN("<", Var("i"), Int(2)), Set("i", CallN("+", Var("i"), Int(1))),
					esc(Set("a", CallN("append", Var("a"), Fn(nil, "", CallN("list", Var(x), Var("i"))))))),
				later(x, k+4, CallN("map", Fn([]string{"h"}, "", CallN("h")), Var("a")))}}
		default:
			return &Program{Forms: []*Node{Def(x, Int(1)), Defn("f", []string{y}, "", Def("g", Nil()), esc(Set("g", Fn(nil, "", CallN("list", Var(x), Var(y))))),
				later(x, k+4, later(y, 8, CallN("g")))), CallN("f", Int(2))}}
		}
	case 64, 65:
		// a local (parameter, let / letseq binding, captured variable, def inside a function) named like a
		// builtin shadows the builtin in callee position as in value position
		bn := []string{"list", "first", "len", "cons", "not", "rest", "array", "append"}[g.R.Intn(8)]
		sub := Fn([]string{"v"}, "r", CallN("+", Int(k+40), Int(0)))
		arg := Arr(Int(1), Int(2))
		switch g.R.Intn(7) {
		case 0:
			return &Program{Forms: []*Node{Defn("mk", []string{bn}, "", Fn([]string{x}, "", CallN(bn, Var(x)))), Call(CallN("mk", sub), arg)}}
		case 1:
			return &Program{Forms: []*Node{Defn("ap", []string{bn}, "", CallN(bn, arg)), CallN("list", CallN("ap", sub), CallN(bn, arg))}}
		case 2:
			return &Program{Forms: []*Node{Let(false, []string{bn}, []*Node{sub}, CallN(bn, arg)), CallN(bn, arg)}}
		case 3:
			return &Program{Forms: []*Node{Let(true, []string{bn, "r"}, []*Node{sub, CallN(bn, arg)}, Var("r"))}}
		case 4:
			return &Program{Forms: []*Node{Defn("f", []string{bn}, "", Let(false, []string{"g"}, []*Node{Fn(nil, "", CallN(bn, arg))}, CallN("g"))), CallN("f", sub)}}
		case 5:
			// value position and callee position together
			return &Program{Forms: []*Node{Defn("f", []string{bn}, "", CallN("list", CallN(bn, arg), CallN("apply", Var(bn), Arr(arg)))), CallN("f", sub)}}
		default:
			return &Program{Forms: []*Node{Defn("f", []string{bn}, "", CallN("map", Fn([]string{"e"}, "", CallN(bn, Var("e"))), Arr(arg, arg))), CallN("f", sub)}}
		}
	case 66, 67:
		// integer division: an exact quotient is an integer, an inexact one the float64 quotient (also for
		// dividends beyond 2^53); folded left to right; division by zero is an error
		bigs := []int64{math.MaxInt64, math.MaxInt64 - 1, 1<<53 + 1, 1<<53 + 3, 1<<62 + 1, -math.MaxInt64, 1<<40 + 1, 7, 9, 10, 6, -7, 1 << 62, 3 << 60}
		a := bigs[g.R.Intn(len(bigs))]
		if g.R.Intn(3) == 0 {
			a = int64(g.R.Intn(1<<30))<<33 | int64(g.R.Intn(1<<30))<<3 | int64(g.R.Intn(8))
			if g.R.Bool() {
				a = -a
			}
		}
		b := []int64{2, 3, 4, 5, 7, 10, -2, -3, 1, -1, 2, 3, 1 << 31, 3 << 20, 6}[g.R.Intn(15)]
		switch g.R.Intn(6) {
		case 0:
			return &Program{Forms: []*Node{CallN("/", Int(a), Int(b))}}
		case 1:
			return &Program{Forms: []*Node{CallN("list", CallN("/", Int(a), Int(b)), CallN("/", Int(a), Int(b), Int(k+1)), CallN("/", Int(a)))}}
		case 2:
			return &Program{Forms: []*Node{Def(x, CallN("/", Int(a), Int(b))), Cond(Var(x), CallN("trace", Var(x)), Int(0)), CallN("list", Var(x), Var(x))}}
		case 3:
			return &Program{Forms: []*Node{Defn("f", []string{"p", "q"}, "", CallN("/", Var("p"), Var("q"))),
				CallN("list", CallN("f", Int(a), Int(b)), CallN("f", Int(a-a%b), Int(b)), CallN("map", Fn([]string{"d"}, "", CallN("f", Int(a), Var("d"))), Arr(Int(2), Int(3), Int(4))))}}
		case 4:
			return &Program{Forms: []*Node{CallN("trace", Int(1)), CallN("/", Int(a), CallN("-", Int(b), Int(b))), CallN("trace", Int(2))}}
		default:
			return &Program{Forms: []*Node{CallN("+", Int(1), CallN("/", Int(a-a%b), Int(b))), CallN("list", CallN("/", Int(b), Int(a)), CallN("/", Int(0), Int(b)))}}
		}
	case 68, 69:
		// strings: concat / append add characters as their UTF-8 encoding (all of it, beyond ASCII too)
		chars := []rune{'a', 'é', 'λ', '世', '😀', 'z', 'ÿ'}
		c1, c2 := Chr(chars[g.R.Intn(len(chars))]), Chr(chars[g.R.Intn(len(chars))])
		switch g.R.Intn(7) {
		case 0:
			return &Program{Forms: []*Node{CallN("concat", Str("ab"), c1)}}
		case 1:
			return &Program{Forms: []*Node{CallN("list", CallN("concat", Str(""), c1, Str("x"), c2), CallN("append", Str("ab"), c1), CallN("concat", Str("q")))}}
		case 2:
			return &Program{Forms: []*Node{Def("s", CallN("concat", Str("a"), c1, c2)), CallN("list", CallN("len", Var("s")), Var("s"), CallN("==", Var("s"), Str("a"+string(rune(c1.D.I))+string(rune(c2.D.I)))))}}
		case 3:
			return &Program{Forms: []*Node{Def("s", Str("")),
				For("", Def("i", Int(0)), CallN("<", Var("i"), Int(k+1)), Set("i", CallN("+", Var("i"), Int(1))), Set("s", CallN("concat", Var("s"), c1, Str("-")))), Var("s")}}
		case 4:
			return &Program{Forms: []*Node{Defn("f", []string{"c"}, "r", CallN("concat", Str("<"), Var("c"), Str(">"))),
				CallN("map", Var("f"), CallN("list", c1, c2, Str("s")))}}
		case 5:
			return &Program{Forms: []*Node{CallN("trace", c1), CallN("concat", Str("a"), []*Node{Int(k), Arr(c1), Nil(), Flt(1)}[g.R.Intn(4)], c2)}}
		default:
			return &Program{Forms: []*Node{Def("s", Str("x")), CallN("list", CallN("concat", Var("s"), c1, Var("s")), Var("s"), Cond(c1, Int(1), Int(2)), CallN("list", c1, c2))}}
		}
	case 46, 47, 48:
		// two concats onto the SAME array, then the first result is inspected; the array comes from append
		// (directly, twice, or grown in a loop), from a literal, or from map
		var mk []*Node
		switch g.R.Intn(4) {
		case 0:
			mk = []*Node{Def("a", CallN("append", Arr(Int(1), Int(2)), Int(3)))}
		case 1:
			mk = []*Node{Def("a", CallN("append", CallN("append", Arr(Int(1)), Int(2)), Int(3)))}
		case 2:
			mk = []*Node{Def("a", Arr()),
				For("", Def("i", Int(0)), CallN("<", Var("i"), Int(k+2)), Set("i", CallN("+", Var("i"), Int(1))), Set("a", CallN("append", Var("a"), Var("i"))))}
		default:
			mk = []*Node{Def("a", CallN("map", Fn([]string{x}, "", CallN("+", Var(x), Int(1))), Arr(Int(1), Int(2), Int(3))))}
		}
		return &Program{Forms: append(mk, Def("b", CallN("concat", Var("a"), Arr(Int(10)))), Def("c", CallN("concat", Var("a"), Arr(Int(20), Int(21)))),
			CallN("list", Var("a"), Var("b"), Var("c")))}
	case 49, 50:
		// concat onto the result of a concat, twice (was the finding concat-aliasing, fixed in /repo 338a778)
		return &Program{Forms: []*Node{Def("c", CallN("concat", Arr(Int(1), Int(2), Int(3)), Arr(Int(4)))),
			Def("d", CallN("concat", Var("c"), Arr(Int(5)))), Def("e", CallN("concat", Var("c"), Arr(Int(k+5)))), CallN("list", Var("d"), Var("e"))}}
	case 51:
		// concat is pure: its arguments are unchanged, the result is a new array (also with one argument)
		if g.R.Intn(3) == 0 {
			return &Program{Forms: []*Node{Def("a", Arr(Int(1), Int(2))), Def("b", CallN("concat", Var("a"))),
				CallN("aset", Var("b"), Int(0), Int(k+9)), CallN("list", Var("a"), Var("b"))}}
		}
		return &Program{Forms: []*Node{Def("a", Arr(Int(1), Int(2))), Def("b", Arr(Int(3))),
			Def("c", CallN("concat", Var("a"), Var("b"), Var("a"))), CallN("aset", Var("c"), Int(0), Int(k+9)),
			CallN("list", Var("a"), Var("b"), Var("c"))}}
	case 70:
		// a closure reads a record it CAPTURED through a dotted path, (r.k0) / (r.k1) / (r.k0 a), and is called
		// where another record of the same name is live: a caller's parameter or let (one or two frames up), a
		// later global.  The head of a dotted path is a variable like any other (functions.go:dotGetSetHelper
		// -> LexicalLookupSymbol).  Records: ast.go:KRec / KDotCall (the model reads arrays).  Names outside
		// VarPool for records and for the functions that receive them, see Mutate.
		rn := []string{"r", "q"}[g.R.Intn(2)]
		v := 10 * (k + 1)
		rec := func(v int64) *Node { return Rec(Fn(nil, "", Int(v)), Int(v+1), Fn([]string{"e"}, "", CallN("+", Var("e"), Int(v)))) }
		use := []*Node{DotCall(rn, 0), DotCall(rn, 1), DotCall(rn, 2, Int(k)),
			CallN("list", DotCall(rn, 0), DotCall(rn, 1), DotCall(rn, 2, Int(1)))}[g.R.Intn(4)]
		// how the closure c gets its record
		var mk []*Node
		switch g.R.Intn(4) {
		case 0:
			mk = []*Node{Defn("mk", []string{rn}, "", Fn(nil, "", use)), Def("c", CallN("mk", rec(v)))}
		case 1:
			mk = []*Node{Def("c", Let(false, []string{rn}, []*Node{rec(v)}, Fn(nil, "", use)))}
		case 2:
			// a record of closures over the captured record
			mk = []*Node{Defn("mk", []string{rn}, "", Rec(Fn(nil, "", use))), Def("o", CallN("mk", rec(v))), Defn("c", nil, "", DotCall("o", 0))}
		default:
			mk = []*Node{Defn("mk", []string{rn}, "", Def("g", Fn(nil, "", use)), Var("g")), Def("c", CallN("mk", rec(v)))}
		}
		// where it is called
		other := rec(v + 500)
		var call []*Node
		switch g.R.Intn(7) {
		case 0:
			call = []*Node{Let(false, []string{rn}, []*Node{other}, CallN("c"))}
		case 1:
			call = []*Node{Defn("caller", []string{rn}, "", CallN("c")), CallN("caller", other)}
		case 2:
			call = []*Node{Defn("inner", nil, "", CallN("trace", CallN("c"))), Defn("outer", []string{rn}, "", CallN("list", CallN("inner"), DotCall(rn, 1))), CallN("outer", other)}
		case 3:
			call = []*Node{Def(rn, other), CallN("list", CallN("c"), DotCall(rn, 0))}
		case 4:
			call = []*Node{CallN("list", CallN("c"), Let(true, []string{rn, x}, []*Node{other, CallN("c")}, CallN("list", Var(x), DotCall(rn, 1))), CallN("c"))}
		case 5:
			// called from a builtin (map), under a let of the same name
			call = []*Node{Let(false, []string{rn}, []*Node{other}, CallN("map", Fn([]string{"e"}, "", CallN("c")), Arr(Int(1), Int(2))))}
		default:
			// closures made in a loop, each over its own record, called after a global of the name exists
			return &Program{Forms: []*Node{Def("a", Arr()),
				For("", Def("i", Int(0)), CallN("<", Var("i"), Int(k+1)), Set("i", CallN("+", Var("i"), Int(1))),
					Let(false, []string{rn}, []*Node{Rec(Int(0), CallN("*", Var("i"), Int(10)))}, Set("a", CallN("append", Var("a"), Fn(nil, "", DotCall(rn, 1)))))),
				Def(rn, Rec(Int(0), Int(v+500))), CallN("map", Fn([]string{"h"}, "", CallN("h")), Var("a"))}}
		}
		return &Program{Forms: append(mk, call...)}
	case 22:
		// tail recursion creating a closure per iteration, used after later iterations
		return &Program{Forms: []*Node{Def("a", Arr()),
			Defn("f", []string{x}, "", Set("a", CallN("append", Var("a"), Fn(nil, "", Var(x)))),
				Cond(CallN("<=", Var(x), Int(0)), Int(0), CallN("f", CallN("-", Var(x), Int(1))))),
			CallN("f", Int(k)), CallN("map", Fn([]string{"g"}, "", CallN("g")), Var("a"))}}
	}
	// let initialisers are evaluated inside the new scope
	return &Program{Forms: []*Node{Def(x, Int(5)),
		Let(false, []string{"f", x}, []*Node{Fn(nil, "", Var(x)), Int(k)}, CallN("f"))}}
}

// Mutate replaces a random sub-term of p by a freshly generated expression.
func (g *Gen) Mutate(p *Program) *Program {
	q := p.Clone()
	count := 0
	// A program with records (ast.go:KRec, KDotCall; arrays to the model) is mutated only where no record can
	// start to flow into an operation that tells a hash from an array: integer literals, variables of VarPool
	// (the record idioms bind records, and the functions that take them, to other names), and sub-terms
	// without a record or dotted call.  Other programs: any node, as before.
	rec := q.HasRecords()
	inPool := func(s string) bool {
		for _, v := range VarPool {
			if v == s {
				return true
			}
		}
		return false
	}
	safe := func(n *Node) bool {
		if !rec {
			return true
		}
		switch n.K {
		case KInt:
			return true
		case KVar:
			return inPool(n.Name)
		case KRec, KDotCall:
			return false
		}
		return !(&Program{Forms: []*Node{n}}).HasRecords()
	}
	q.Walk(func(n *Node) {
		if safe(n) {
			count++
		}
	})
	if count == 0 {
		return q
	}
	idx := g.R.Intn(count)
	i := 0
	var target *Node
	q.Walk(func(n *Node) {
		if !safe(n) {
			return
		}
		if i == idx {
			target = n
		}
		i++
	})
	g.left = 1 + g.R.Intn(10)
	g.scopes = nil
	g.loops = nil
	g.push()
	for _, n := range VarPool {
		g.declare(n, binding{TAny, -1})
	}
	switch target.K {
	case KVar:
		if !PrimNames[target.Name] {
			target.Name = g.pick(VarPool)
		}
	case KInt:
		*target = *g.intLit()
	case KParamsOnly:
	default:
		if target.K != KDefn && target.K != KFor && target.K != KBreak && target.K != KCont {
			*target = *g.expr(g.valueTy(), 3)
		}
	}
	return q
}

// KParamsOnly is a placeholder kind never produced (keeps the switch above explicit).
const KParamsOnly Kind = -1

// nonTailHole (family 71, round 6, C02-r6s3): a recursive defn whose body ends (in tail position, possibly
// under further tail-preserving forms) in a compound form, with the SELF CALL in a hole of that form that is
// NOT in tail position: a non-last operand of and/or, a cond predicate, a let/letseq initialiser, a non-last
// form of begin/newScope/let body, the right-hand side of def/set, a for-loop init/test/step, a call argument.
// What follows the hole traces, so that a call compiled as a jump (which drops the continuation) is visible.
func (g *Gen) nonTailHole(x, y string, k int64) *Program {
	self := func() *Node { return CallN("f", CallN("-", Var(x), Int(1))) }
	after := func() *Node { return CallN("trace", Var(x)) }
	var form *Node
	switch g.R.Intn(14) {
	case 0:
		form = And(self(), after())
	case 1:
		form = Or(self(), after())
	case 2:
		form = And(CallN("trace", Int(7)), self(), after())
	case 3:
		form = Cond(self(), after(), CallN("trace", CallN("-", Int(0), Var(x))))
	case 4:
		form = Let(g.R.Bool(), []string{y}, []*Node{self()}, CallN("trace", CallN("list", Var(y), Var(x))))
	case 5:
		form = Begin(self(), after())
	case 6:
		form = Scope(self(), after())
	case 7:
		form = Let(false, []string{y}, []*Node{Int(k)}, self(), after())
	case 8:
		form = Begin(Def(y, self()), CallN("trace", CallN("list", Var(y), Var(x))))
	case 9:
		form = Begin(Def(y, Int(0)), Set(y, self()), CallN("trace", CallN("list", Var(y), Var(x))))
	case 10:
		form = For("", Def("i", And(self(), Int(0))), CallN("<", Var("i"), Int(1)), Set("i", CallN("+", Var("i"), Int(1))), after())
	case 11:
		form = For("", Def("i", Int(0)), And(Or(self(), Int(1)), CallN("<", Var("i"), Int(1))), Set("i", CallN("+", Var("i"), Int(1))), after())
	case 12:
		form = And(Or(self(), Int(1)), after())
	default:
		form = Or(And(self(), Bool(false)), after())
	}
	// tail-preserving contexts around the form
	for n := g.R.Intn(3); n > 0; n-- {
		switch g.R.Intn(6) {
		case 0:
			form = Begin(CallN("trace", Int(8)), form)
		case 1:
			form = Let(g.R.Bool(), []string{"z"}, []*Node{Int(k)}, form)
		case 2:
			form = And(Int(1), form)
		case 3:
			form = Or(Bool(false), form)
		case 4:
			form = Cond(Bool(false), Int(0), form)
		default:
			form = Cond(CallN(">", Var(x), Int(0)), form, Int(0))
		}
	}
	base := []*Node{Bool(true), Int(1), Int(0), Bool(false), Nil(), Int(k)}[g.R.Intn(6)]
	prog := []*Node{Defn("f", []string{x}, "", Cond(CallN("<=", Var(x), Int(0)), base, form))}
	if g.R.Intn(3) == 0 {
		prog = append(prog, CallN("list", CallN("f", Int(k)), CallN("f", Int(1))))
	} else {
		prog = append(prog, CallN("f", Int(k)))
	}
	return &Program{Forms: prog}
}
