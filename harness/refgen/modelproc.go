package refgen

import (
	"bufio"
	"fmt"
	"io"
	"os/exec"
	"strings"
)

// Model is the extracted reference evaluator (build/ocaml/refsem/run) run as a co-process:
// one request line "ID<TAB>PREFIX" in, one answer line "ID<TAB>OUTCOME<TAB>-" out.
type Model struct {
	cmd *exec.Cmd
	in  io.WriteCloser
	out *bufio.Reader
	n   int
}

func StartModel(exe string) (*Model, error) {
	cmd := exec.Command(exe)
	in, err := cmd.StdinPipe()
	if err != nil {
		return nil, err
	}
	out, err := cmd.StdoutPipe()
	if err != nil {
		return nil, err
	}
	if err := cmd.Start(); err != nil {
		return nil, err
	}
	return &Model{cmd: cmd, in: in, out: bufio.NewReaderSize(out, 1<<20)}, nil
}

// Eval returns the model's outcome for the program.
func (m *Model) Eval(p *Program) (string, error) {
	m.n++
	if _, err := fmt.Fprintf(m.in, "%d\t%s\n", m.n, p.Prefix()); err != nil {
		return "", err
	}
	line, err := m.out.ReadString('\n')
	if err != nil {
		return "", err
	}
	parts := strings.Split(strings.TrimRight(line, "\n"), "\t")
	if len(parts) < 2 {
		return "", fmt.Errorf("bad model answer %q", line)
	}
	return parts[1], nil
}

func (m *Model) Close() {
	m.in.Close()
	m.cmd.Wait()
}
