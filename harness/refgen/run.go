package refgen

import (
	"math"
	"fmt"
	"os"
	"regexp"
	"strings"
	"time"

	"github.com/glycerine/zygomys/v9/zygo"
	"verif/harness/lib"
)

// SnapDepth mirrors RefSem.snap_depth: arrays nested deeper print as "#".
const SnapDepth = 6

// PrimNames are the builtin / host functions the model knows as first-class values.
var PrimNames = map[string]bool{"+": true, "-": true, "*": true, "<": true, ">": true, "<=": true, ">=": true,
	"==": true, "!=": true, "not": true, "cons": true, "first": true, "rest": true, "list": true, "array": true,
	"aget": true, "aset": true, "append": true, "len": true, "concat": true, "/": true, "map": true, "apply": true, "trace": true, "failk": true}

// QuotedSyms is the pool of quoted symbols; the runner numbers them in this order and Runner
// interns them in this order in every fresh interpreter (symbols compare by number).
var QuotedSyms = []string{"sa", "sb", "sc", "sd", "se"}

// RenderValue prints the canonical, type-tagged form of a value (the format of run.ml:show).
func RenderValue(v zygo.Sexp, d int) string {
	if d <= 0 {
		return "#"
	}
	switch x := v.(type) {
	case nil:
		return "GONIL"
	case *zygo.SexpInt:
		return fmt.Sprintf("I%d", x.Val)
	case *zygo.SexpFloat:
		// m * 2^e with m odd, the form of the model (run.ml: SvFlt); infinities, NaN and -0 are outside it
		f := x.Val
		if f == 0 && !math.Signbit(f) {
			return "F0p0"
		}
		if f == 0 || math.IsInf(f, 0) || math.IsNaN(f) {
			return "OTHER:float"
		}
		frac, exp := math.Frexp(f)
		m, e := int64(frac*(1<<53)), exp-53
		for m%2 == 0 {
			m /= 2
			e++
		}
		return fmt.Sprintf("F%dp%d", m, e)
	case *zygo.SexpChar:
		return fmt.Sprintf("C%d", x.Val)
	case *zygo.SexpBool:
		if x.Val {
			return "Bt"
		}
		return "Bf"
	case *zygo.SexpSentinel:
		if x == zygo.SexpNull {
			return "N"
		}
		return "OTHER:sentinel"
	case *zygo.SexpStr:
		return fmt.Sprintf("S%x", []byte(x.S))
	case *zygo.SexpSymbol:
		return "Y" + x.Name()
	case *zygo.SexpPair:
		return "(P " + RenderValue(x.Head, d) + " " + RenderValue(x.Tail, d) + ")"
	case *zygo.SexpArray:
		parts := make([]string, len(x.Val))
		for i, e := range x.Val {
			parts[i] = RenderValue(e, d-1)
		}
		return "[" + strings.Join(parts, " ") + "]"
	case *zygo.SexpHash:
		// a record (ast.go:KRec) is an array of its field values to the model
		parts := make([]string, 0, len(x.KeyOrder))
		for _, k := range x.KeyOrder {
			if e, err := x.HashGet(nil, k); err == nil {
				parts = append(parts, RenderValue(e, d-1))
			}
		}
		return "[" + strings.Join(parts, " ") + "]"
	case *zygo.SexpFunction:
		s := x.SexpString(nil)
		// builtins and host functions print as "fn [name]"; closures print their source
		if strings.HasPrefix(s, "fn [") && strings.HasSuffix(s, "]") {
			name := s[4 : len(s)-1]
			if PrimNames[name] {
				return "PRIM:" + name
			}
			return "OTHERFN:" + name
		}
		return "FN"
	}
	return fmt.Sprintf("OTHER:%T", v)
}

var reUnbound = regexp.MustCompile("symbol `[^`]*` not found")

// ErrClass maps an error of the interpreter to the coarse classes of RefSem.err.
func ErrClass(err error) string {
	s := err.Error()
	switch {
	case strings.Contains(s, "not inside a loop"), strings.Contains(s, "could not find loop target"),
		strings.Contains(s, "could not find matching for-loop"):
		return "loop"
	case strings.Contains(s, "failk: injected failure"):
		return "user"
	case reUnbound.MatchString(s):
		return "unbound"
	}
	return "other"
}

// Runner evaluates programs on the real interpreter and renders the observables.
type Runner struct {
	Env      *zygo.Zlisp
	Budget   int64
	trace    []string
	failCtr  int
	failAt   int
	baseline map[string]bool
	uses     int
	Fresh    bool   // a new interpreter for every program (slow: ~4 ms each)
	OnHang   func() // called by the watchdog before the process exits with code 97 (flush what was written)
	Recycled int
}

func NewRunner(budget int64) *Runner {
	r := &Runner{Budget: budget}
	r.reset()
	return r
}

func (r *Runner) reset() {
	if r.Env != nil {
		r.Env.Close()
	}
	env := zygo.NewZlisp()
	env.StandardSetup()
	r.Env = env
	r.uses = 0
	r.Recycled++
	env.AddFunction("trace", func(env *zygo.Zlisp, name string, args []zygo.Sexp) (zygo.Sexp, error) {
		parts := make([]string, len(args))
		for i, a := range args {
			parts[i] = RenderValue(a, SnapDepth)
		}
		r.trace = append(r.trace, strings.Join(parts, ","))
		if len(args) == 0 {
			return zygo.SexpNull, nil
		}
		return args[0], nil
	})
	env.AddFunction("failk", func(env *zygo.Zlisp, name string, args []zygo.Sexp) (zygo.Sexp, error) {
		r.failCtr++
		if r.failCtr == r.failAt {
			return zygo.SexpNull, fmt.Errorf("failk: injected failure")
		}
		if len(args) == 0 {
			return zygo.SexpNull, nil
		}
		return args[0], nil
	})
	// intern the quoted-symbol pool in a fixed order
	lib.Eval(env, "(quote ("+strings.Join(QuotedSyms, " ")+"))", 10000)
	r.baseline = map[string]bool{}
	for _, n := range env.VerifGlobalNames() {
		r.baseline[n] = true
	}
}

// cleanup removes what the last program bound in the global scope.
func (r *Runner) cleanup() bool {
	for _, n := range r.Env.VerifGlobalNames() {
		if !r.baseline[n] {
			res := lib.Eval(r.Env, "(rmsym (quote "+n+"))", 10000)
			if res.Class != lib.OutValue {
				return false
			}
		}
	}
	d, s, a, l := r.Env.VerifDepths()
	return d == 0 && s == 1 && a == 0 && l == 0
}

// Watchdog: a single evaluation that exceeds this wall-clock time although the VM step budget is
// small means the interpreter is stuck inside one instruction; the harness then reports the
// program and exits with code 97 (the check turns that into a violation with the program in the log).
var WatchdogSeconds = 90

func (r *Runner) guarded(src string, f func()) {
	done := make(chan struct{})
	go func() {
		select {
		case <-done:
		case <-time.After(time.Duration(WatchdogSeconds) * time.Second):
			fmt.Fprintf(os.Stderr, "HANG: the interpreter did not return from EvalString within %d s (step budget %d): %s\n",
				WatchdogSeconds, r.Budget, strings.ReplaceAll(src, "\n", " "))
			if r.OnHang != nil {
				r.OnHang()
			}
			os.Exit(97)
		}
	}()
	f()
	close(done)
}

// RunSource evaluates one text and returns the canonical observable:
//
//	V:<value>|T:<trace>   E:<class>|T:<trace>   BUDGET   PANIC:<msg>
func (r *Runner) RunSource(src string, failAt int) string {
	if r.Fresh || r.uses >= 400 {
		r.reset()
	}
	r.uses++
	r.trace = r.trace[:0]
	r.failCtr = 0
	r.failAt = failAt
	var res lib.Result
	r.guarded(src, func() { res = lib.Eval(r.Env, src, r.Budget) })
	var out string
	tr := strings.Join(r.trace, ";")
	switch res.Class {
	case lib.OutValue:
		out = "V:" + RenderValue(res.Val, SnapDepth) + "|T:" + tr
		// a scope, operand, return address or loop record left behind by a successful evaluation
		// is a scoping/flow error of the program just run (the model has no such outcome)
		if d, s, a, l := r.Env.VerifDepths(); d != 0 || s != 1 || a != 0 || l != 0 {
			out += fmt.Sprintf("|LEFT:data=%d,scopes=%d,addr=%d,loops=%d", d, s-1, a, l)
		}
	case lib.OutError:
		out = "E:" + ErrClass(res.Err) + "|T:" + tr
	case lib.OutBudget:
		out = "BUDGET"
	default:
		out = fmt.Sprintf("PANIC:%v", res.Panic)
		r.reset()
		return out
	}
	if !r.Fresh && !r.cleanup() {
		r.reset()
	}
	return out
}

// LastError returns nothing useful across calls; RunSourceVerbose is for replay output.
func (r *Runner) RunSourceVerbose(src string, failAt int) (obs string, detail string) {
	r.reset()
	r.trace = r.trace[:0]
	r.failCtr = 0
	r.failAt = failAt
	res := lib.Eval(r.Env, src, r.Budget)
	tr := strings.Join(r.trace, ";")
	switch res.Class {
	case lib.OutValue:
		obs = "V:" + RenderValue(res.Val, SnapDepth) + "|T:" + tr
		if d, s, a, l := r.Env.VerifDepths(); d != 0 || s != 1 || a != 0 || l != 0 {
			obs += fmt.Sprintf("|LEFT:data=%d,scopes=%d,addr=%d,loops=%d", d, s-1, a, l)
		}
	case lib.OutError:
		obs = "E:" + ErrClass(res.Err) + "|T:" + tr
	case lib.OutBudget:
		obs = "BUDGET"
	default:
		obs = fmt.Sprintf("PANIC:%v", res.Panic)
	}
	return obs, res.Show()
}

// Comparable says whether two observables are both conclusive (not budget / fuel / unspecified).
func Conclusive(obs string) bool {
	return obs != "BUDGET" && obs != "FUEL" && obs != "UNSPEC" && !strings.HasPrefix(obs, "BADINPUT")
}

// SameObs: equal observables; two errors with the same trace agree even when their coarse class
// differs (the class is read off the error text), except for the injected user error of failk.
func SameObs(impl, model string) bool {
	if impl == model {
		return true
	}
	if strings.HasPrefix(impl, "E:") && strings.HasPrefix(model, "E:") {
		ci, ti, _ := strings.Cut(impl, "|")
		cm, tm, _ := strings.Cut(model, "|")
		return ti == tm && ci != "E:user" && cm != "E:user"
	}
	return false
}
