package refgen

import "sort"

// minKids returns the index from which kids may be deleted and the minimum number that must stay
// in that deletable tail.
func deletable(n *Node) (from int, min int) {
	switch n.K {
	case KArr:
		return 0, 0
	case KCall:
		return 1, 0
	case KDotCall:
		return 0, 0
	case KBegin, KScope, KAnd, KOr:
		return 0, 1
	case KLet, KLetSeq:
		return len(n.Binds), 1
	case KFor:
		return 3, 0
	case KFn, KDefn:
		return 0, 1
	}
	return len(n.Kids), 0
}

// reductions returns every program obtained from p by one size-decreasing step.
func reductions(p *Program) []*Program {
	var out []*Program
	// delete a top-level form
	if len(p.Forms) > 1 {
		for i := range p.Forms {
			q := p.Clone()
			q.Forms = append(q.Forms[:i], q.Forms[i+1:]...)
			out = append(out, q)
		}
	}
	// node-level steps: address nodes by pre-order index
	count := 0
	p.Walk(func(*Node) { count++ })
	for idx := 0; idx < count; idx++ {
		var target *Node
		i := 0
		p.Walk(func(n *Node) {
			if i == idx {
				target = n
			}
			i++
		})
		// each alternative is built on a fresh clone, locating the same node again
		apply := func(f func(n *Node) bool) {
			q := p.Clone()
			j := 0
			var t *Node
			q.Walk(func(n *Node) {
				if j == idx {
					t = n
				}
				j++
			})
			if f(t) {
				out = append(out, q)
			}
		}
		// replace by a child
		for ci := range target.Kids {
			ci := ci
			apply(func(n *Node) bool { *n = *n.Kids[ci]; return true })
		}
		// replace by a leaf
		if len(target.Kids) > 0 || target.K == KQuote || target.K == KStr {
			apply(func(n *Node) bool { *n = *Int(0); return true })
			apply(func(n *Node) bool { *n = *Nil(); return true })
		} else if target.K == KInt && target.I != 0 && target.I != 1 {
			apply(func(n *Node) bool { n.I = 1; return true })
		}
		// delete one kid of a variadic part
		from, min := deletable(target)
		if len(target.Kids)-from > min {
			for ci := from; ci < len(target.Kids); ci++ {
				ci := ci
				apply(func(n *Node) bool {
					n.Kids = append(n.Kids[:ci:ci], n.Kids[ci+1:]...)
					return true
				})
			}
		}
		switch target.K {
		case KCond:
			for a := 0; a+1 < len(target.Kids); a += 2 {
				a := a
				apply(func(n *Node) bool {
					n.Kids = append(n.Kids[:a:a], n.Kids[a+2:]...)
					return true
				})
			}
		case KLet, KLetSeq:
			for b := range target.Binds {
				b := b
				apply(func(n *Node) bool {
					n.Kids = append(n.Kids[:b:b], n.Kids[b+1:]...)
					n.Binds = append(n.Binds[:b:b], n.Binds[b+1:]...)
					return true
				})
			}
		case KFn, KDefn:
			for b := range target.Params {
				b := b
				apply(func(n *Node) bool {
					n.Params = append(n.Params[:b:b], n.Params[b+1:]...)
					return true
				})
			}
			if target.Rest != "" {
				apply(func(n *Node) bool { n.Rest = ""; return true })
			}
		case KFor, KBreak, KCont:
			if target.Name != "" {
				apply(func(n *Node) bool { n.Name = ""; return true })
			}
		}
	}
	sort.SliceStable(out, func(i, j int) bool { return out[i].Size() < out[j].Size() })
	return out
}

// Shrink greedily minimises p while fails(p) stays true; at most maxEvals calls of fails.
func Shrink(p *Program, fails func(*Program) bool, maxEvals int) (*Program, int) {
	evals := 0
	cur := p
	for {
		progressed := false
		for _, q := range reductions(cur) {
			if evals >= maxEvals {
				return cur, evals
			}
			evals++
			if fails(q) {
				cur = q
				progressed = true
				break
			}
		}
		if !progressed {
			return cur, evals
		}
	}
}
