(* C01 model runner: reads "ID<TAB>SHAPECODE" lines, prints "ID<TAB>model<TAB>-".
   SHAPECODE (written by harness/cmd/c01 from the real parse tree, symbols carry the attributes
   read from the interpreter's tables):
     T k e1..ek      top-level expressions
     N | P h t | A k e1..ek | Y:class:flags:number | S | I | H | C | O
   model = ok | ok-latent | err | crash:<site> | defer | fuel *)
open Model
open Zutil

let form_of = function
  | "and" -> FAnd | "or" -> FOr | "cond" -> FCond | "quote" -> FQuote | "def" -> FDef | "mdef" -> FMdef
  | "fn" -> FFn | "defn" -> FDefn | "begin" -> FBegin | "let" -> FLet | "letseq" -> FLetseq
  | "assert" -> FAssert | "defmac" -> FDefmac | "macexpand" -> FMacexpand | "syntaxQuote" -> FSyntaxQuote
  | "include" -> FInclude | "for" -> FFor | "set" -> FSet | "break" -> FBreak | "continue" -> FContinue
  | "newScope" -> FNewScope | "package" -> FPackage | "return" -> FReturn | "_ls" -> FLs
  | s -> failwith ("bad form " ^ s)

let sym_of (tok : string) : sym =
  (* Y:class:flags:number ; class may itself contain ':' only for ":=" which is reported as "assign" *)
  match String.split_on_char ':' tok with
  | ["Y"; cls; flags; num] ->
    let c = (match cls with
        | "-" -> NOther | "unquote" -> NUnquote | "unquote-splicing" -> NUnquoteSplicing
        | "assign" -> NAssign | f -> NForm (form_of f)) in
    let has ch = String.contains flags ch in
    let bind = if has 'B' then BBuilder else if has 'X' then BInfix else if has 'g' then BOther else BNone in
    { s_class = c; s_builtin = has 'b'; s_table = has 'f'; s_macro = has 'm'; s_dot = has 'd'; s_self = has 's';
      s_bind = bind; s_num = nat_of_int (int_of_string num) }
  | _ -> failwith ("bad symbol " ^ tok)

let parse (toks : string array) : shape list =
  let pos = ref 0 in
  let next () = let t = toks.(!pos) in incr pos; t in
  let rec shape () : shape =
    let t = next () in
    match t with
    | "N" -> SNull
    | "P" -> let h = shape () in let tl = shape () in SPair (h, tl)
    | "A" -> let k = int_of_string (next ()) in SArr (many k)
    | "S" -> SStr | "I" -> SInt | "H" -> SHash | "C" -> SComment | "O" -> SOther
    | _ when String.length t > 1 && t.[0] = 'Y' -> SSym (sym_of t)
    | _ -> failwith ("bad token " ^ t)
  and many k = if k = 0 then [] else let x = shape () in x :: many (k - 1) in
  match next () with
  | "T" -> let k = int_of_string (next ()) in many k
  | t -> failwith ("bad start " ^ t)

let site_name = function
  | SiteIncludeTail -> "include-tail" | SiteMdefNilSym -> "mdef-nil-sym" | SiteIndex _ -> "index"
  | _ -> "other"

let show = function
  | ROk (_, false) -> "ok" | ROk (_, true) -> "ok-latent" | RErr -> "err"
  | RCrash s -> "crash:" ^ site_name s | RDefer -> "defer" | RFuel -> "fuel"

(* call-check cases: "F <p1> <p2> .. ; <a1> <a2> .."  with parameters "<id><I|S|F|O>" and actual
   arguments "N<id>" (keyword symbol) or "V<I|S|F|O>" (value) *)
let ty_of = function 'I' -> TInt | 'S' -> TStr | 'F' -> TFloat | _ -> TOther
let call_case (toks : string list) : string =
  let rec split acc = function
    | ";" :: rest -> (List.rev acc, rest)
    | x :: rest -> split (x :: acc) rest
    | [] -> (List.rev acc, []) in
  let (ps, args) = split [] toks in
  let ps = List.map (fun p -> let n = String.length p in
                      (nat_of_int (int_of_string (String.sub p 0 (n - 1))), ty_of p.[n - 1])) ps in
  let args = List.map (fun a -> if a.[0] = 'N' then ANamed (nat_of_int (int_of_string (String.sub a 1 (String.length a - 1))))
                        else AVal (ty_of a.[1])) args in
  match call_check ps args with COkCall -> "ok" | CErrCall -> "err" | CCrashNil -> "crash:callcheck-nil-slot"

(* destructuring cases: "D <A|B> <t1> .. ; <m>"  (A = AssignInstr array/array, B = BindlistInstr);
   targets "S" symbol / "X" anything else; m = number of values *)
let destructure_case (toks : string list) : string =
  match toks with
  | kind :: rest ->
    let rec split acc = function
      | ";" :: r -> (List.rev acc, r) | x :: r -> split (x :: acc) r | [] -> (List.rev acc, []) in
    let (ts, r) = split [] rest in
    let m = (match r with x :: _ -> int_of_string x | [] -> 0) in
    let rec upto i = if i >= m then [] else nat_of_int i :: upto (i + 1) in
    let show = function DOk _ -> "ok" | DErr -> "err" | DCrash -> "crash:destructure-index" in
    if kind = "B" then show (bindlist (List.mapi (fun i _ -> nat_of_int i) ts) (upto 0))
    else show (assign_arrays (List.mapi (fun i t -> if t = "S" then TSym (nat_of_int i) else TNotSym) ts) (upto 0))
  | [] -> failwith "bad D case"

(* Pratt cases: "Q <tokens>" - the elements of the array inside one (infix [...]) block as the real reader
   produced them:  s:NAME symbol, l:NAME symbol with colonTail, d:NAME dot symbol, i f b q (int float bool
   string), c comma, m semicolon, k comment, o any other atom, p pair, B1 / B0 infix block (empty / not),
   H1 / H0 hash (empty / not), a[ ... ] array with nested tokens.  NAME: "\s" space, "\t", "\n", "\\".
   model = ok:<number of statements> | err | crash:<site> | fuel   (Model/PrattShape.v expand_auto: fuel 5 * weight + 1,
   proved sufficient - pratt_returns - so fuel never appears) *)
let ascii_of_char (c : char) : ascii =
  let n = Char.code c in
  let b k = (n lsr k) land 1 = 1 in
  Ascii (b 0, b 1, b 2, b 3, b 4, b 5, b 6, b 7)
let cstr (s : string) : ascii list = List.init (String.length s) (fun i -> ascii_of_char s.[i])
let decode (s : string) : string =
  let b = Buffer.create (String.length s) in
  let n = String.length s in
  let i = ref 0 in
  while !i < n do
    if s.[!i] = '\\' && !i + 1 < n then begin
      (match s.[!i + 1] with
       | 's' -> Buffer.add_char b ' ' | 't' -> Buffer.add_char b '\t'
       | 'n' -> Buffer.add_char b '\n' | c -> Buffer.add_char b c);
      i := !i + 2
    end else begin Buffer.add_char b s.[!i]; incr i end
  done;
  Buffer.contents b

let rec pratt_items (ws : string list) : ptok list * string list =
  match ws with
  | [] -> ([], [])
  | "]" :: rest -> ([], rest)
  | "a[" :: rest ->
    let (inner, rest') = pratt_items rest in
    let (more, rest'') = pratt_items rest' in
    (PArr inner :: more, rest'')
  | w :: rest ->
    let name () = cstr (decode (String.sub w 2 (String.length w - 2))) in
    let k n = mk_tok (nat_of_int n) [] in
    let t = (match w with
      | "i" -> k 3 | "f" -> k 4 | "b" -> k 5 | "q" -> k 6 | "c" -> k 7 | "m" -> k 8 | "k" -> k 9 | "o" -> k 10
      | "p" -> k 11 | "B1" -> k 12 | "B0" -> k 13 | "H1" -> k 14 | "H0" -> k 15
      | _ when String.length w >= 2 && w.[1] = ':' ->
        (match w.[0] with
         | 's' -> mk_tok (nat_of_int 0) (name ()) | 'l' -> mk_tok (nat_of_int 1) (name ())
         | 'd' -> mk_tok (nat_of_int 2) (name ()) | _ -> failwith ("bad pratt token " ^ w))
      | _ -> failwith ("bad pratt token " ^ w)) in
    let (more, rest') = pratt_items rest in
    (t :: more, rest')

let pratt_site = function
  | SLedDispatch -> "led-dispatch" | SStackTop -> "cnodestack-top" | SStackPop -> "cnodestack-pop"
  | SHeaderIndex -> "range-header-index" | SHeaderSlice -> "range-header-slice" | STargets -> "range-targets"
  | SArgsIndex -> "infix-args-index"

let pratt_case (toks : string list) : string =
  let (ts, _) = pratt_items toks in
  match expand_auto ts with
  | POk k -> "ok:" ^ string_of_int (int_of_nat k)
  | PErr -> "err" | PCrash s -> "crash:" ^ pratt_site s | PFuel -> "fuel"

(* infix-form cases: "G <E|I> <arg> ..": the arguments of an (infix ...) / (infixExpand ...) form as
   InfixArgsToArray sees them: AA a[ .. ] array, PS pair with sentinel tail, PA a[ .. ] pair whose tail's head
   is an array, PO pair with another head in the tail, PD dotted pair, H hash, O anything else.
   model = ok:<number of expressions> | err | crash:<site> | fuel   (Model/PrattShape.v infix_form_gen) *)
let rec infix_form_args (ws : string list) : argk list =
  match ws with
  | [] -> []
  | "AA" :: "a[" :: rest -> let (inner, rest') = pratt_items rest in AArray inner :: infix_form_args rest'
  | "PA" :: "a[" :: rest -> let (inner, rest') = pratt_items rest in APairArray inner :: infix_form_args rest'
  | "PS" :: rest -> APairNil :: infix_form_args rest
  | "PO" :: rest -> APairOther :: infix_form_args rest
  | "PD" :: rest -> APairDotted :: infix_form_args rest
  | "H" :: rest -> AHashArg :: infix_form_args rest
  | "O" :: rest -> AOtherArg :: infix_form_args rest
  | w :: _ -> failwith ("bad infix-form argument " ^ w)

let infix_form_case (toks : string list) : string =
  match toks with
  | mode :: rest ->
    let args = infix_form_args rest in
    (match infix_form_auto (mode = "E") args with
     | POk k -> "ok:" ^ string_of_int (int_of_nat k)
     | PErr -> "err" | PCrash s -> "crash:" ^ pratt_site s | PFuel -> "fuel")
  | [] -> failwith "bad G case"

let () =
  iter_lines (fun line ->
    match split_tab line with
    | id :: body :: _ ->
      let toks = Array.of_list (split_sp body) in
      if Array.length toks > 0 && toks.(0) = "F" then
        Printf.printf "%s\t%s\t-\n" id (call_case (List.tl (Array.to_list toks)))
      else if Array.length toks > 0 && toks.(0) = "G" then
        Printf.printf "%s\t%s\t-\n" id (infix_form_case (List.tl (Array.to_list toks)))
      else if Array.length toks > 0 && toks.(0) = "Q" then
        Printf.printf "%s\t%s\t-\n" id (pratt_case (List.tl (Array.to_list toks)))
      else if Array.length toks > 0 && toks.(0) = "D" then
        Printf.printf "%s\t%s\t-\n" id (destructure_case (List.tl (Array.to_list toks)))
      else
      let xs = parse toks in
      let fuel = nat_of_int (Array.length toks + 5) in
      Printf.printf "%s\t%s\t-\n" id (show (load_deferred fuel xs))
    | _ -> failwith ("bad line: " ^ line))
