(* C02 builtin model runner: stdin "ID<TAB>EXPR" -> stdout "ID<TAB>MODEL<TAB>-".
   EXPR  := (L VALUE) | (Q VALUE) (same value; Q = the source may use a quoted literal) | (V n) | (let E E) | (if E E E) | (call NAME E ..)
   VALUE := I<z> | F<bits> | C<z> | S<hex> | Y<hex> | Bt | Bf | N | (P VALUE VALUE) | [ VALUE .. ] | FN:<name>
   MODEL := VALUE (NaN printed Fnan) | ERR | UNSPEC *)
open Model
open Zutil

type tok = LP | RP | LB | RB | A of string

let tokenize (s : string) : tok list =
  let n = String.length s in
  let toks = ref [] in
  let i = ref 0 in
  while !i < n do
    (match s.[!i] with
     | ' ' -> incr i
     | '(' -> toks := LP :: !toks; incr i
     | ')' -> toks := RP :: !toks; incr i
     | '[' -> toks := LB :: !toks; incr i
     | ']' -> toks := RB :: !toks; incr i
     | _ ->
       let j = ref !i in
       while !j < n && (match s.[!j] with ' ' | '(' | ')' | '[' | ']' -> false | _ -> true) do incr j done;
       toks := A (String.sub s !i (!j - !i)) :: !toks;
       i := !j)
  done;
  List.rev !toks

let hex_bytes (h : string) : z list =
  let n = String.length h / 2 in
  List.init n (fun k -> z_of_int (int_of_string ("0x" ^ String.sub h (2 * k) 2)))
let bytes_hex (l : z list) : string =
  String.concat "" (List.map (fun b -> Printf.sprintf "%02x" (int_of_z b)) l)

let preds = [ "list?", PList; "null?", PNull; "array?", PArray; "number?", PNumber; "int?", PInt;
              "float?", PFloat; "char?", PChar; "symbol?", PSymbol; "string?", PString; "zero?", PZero;
              "empty?", PEmpty; "func?", PFunc; "hash?", PHash ]
let funs = [ "first", FFirst; "rest", FRest; "second", FSecond; "cons", FCons; "list", FList; "array", FArray;
             "append", FAppend; "appendslice", FAppendSlice; "concat", FConcat; "flatten", FFlatten; "len", FLen;
             "aget", FAget; "slice", FSlice; "not", FNot; "+", FArith OpAdd; "-", FArith OpSub; "*", FArith OpMul;
             "/", FArith OpDiv; "<", FCmp OpLt; ">", FCmp OpGt; "<=", FCmp OpLe; ">=", FCmp OpGe; "==", FCmp OpEq;
             "!=", FCmp OpNe; "mod", FMod; "sym2str", FSym2Str; "str2sym", FStr2Sym; "str", FStr; "type?", FTypeQ;
             "isnan", FIsNan; "map", FMap; "apply", FApply ] @ List.map (fun (n, p) -> (n, FPred p)) preds
let fun_of (s : string) : bfun = try List.assoc s funs with Not_found -> failwith ("unknown builtin " ^ s)
let name_of (f : bfun) : string = fst (List.find (fun (_, g) -> g = f) funs)

let rec p_val (ts : tok list) : val0 * tok list =
  match ts with
  | A s :: r ->
    let body = String.sub s 1 (String.length s - 1) in
    (match s.[0] with
     | 'I' -> (VInt (z_of_string body), r)
     | 'F' when String.length s > 2 && s.[1] = 'N' && s.[2] = ':' -> (VFun (fun_of (String.sub s 3 (String.length s - 3))), r)
     | 'F' -> (VFlt (b64_of_bits (z_of_string body)), r)
     | 'C' -> (VChar (z_of_string body), r)
     | 'S' -> (VStr (hex_bytes body), r)
     | 'Y' -> (VSym (hex_bytes body), r)
     | 'B' -> (VBool (body = "t"), r)
     | 'N' -> (VNil, r)
     | _ -> failwith ("bad value " ^ s))
  | LP :: A "P" :: r ->
    let (h, r) = p_val r in
    let (t, r) = p_val r in
    (match r with RP :: r -> (VPair (h, t), r) | _ -> failwith "bad pair")
  | LB :: r ->
    let rec go acc r = match r with
      | RB :: r -> (VArr (List.rev acc), r)
      | _ -> let (v, r) = p_val r in go (v :: acc) r in
    go [] r
  | _ -> failwith "bad value"

let rec p_exp (ts : tok list) : bexp * tok list =
  match ts with
  | LP :: A ("L" | "Q") :: r -> let (v, r) = p_val r in (match r with RP :: r -> (BLit v, r) | _ -> failwith "bad L")
  | LP :: A "V" :: A n :: RP :: r -> (BVar (nat_of_int (int_of_string n)), r)
  | LP :: A "let" :: r ->
    let (e, r) = p_exp r in let (b, r) = p_exp r in
    (match r with RP :: r -> (BLet (e, b), r) | _ -> failwith "bad let")
  | LP :: A "if" :: r ->
    let (c, r) = p_exp r in let (a, r) = p_exp r in let (b, r) = p_exp r in
    (match r with RP :: r -> (BIf (c, a, b), r) | _ -> failwith "bad if")
  | LP :: A "call" :: A f :: r ->
    let rec go acc r = match r with
      | RP :: r -> (BCall (fun_of f, List.rev acc), r)
      | _ -> let (e, r) = p_exp r in go (e :: acc) r in
    go [] r
  | _ -> failwith "bad expr"

let rec show (v : val0) : string =
  match v with
  | VInt z -> "I" ^ string_of_z z
  | VFlt f -> if is_nanb f then "Fnan" else "F" ^ string_of_z (bits_of_b64 f)
  | VChar c -> "C" ^ string_of_z c
  | VStr s -> "S" ^ bytes_hex s
  | VSym s -> "Y" ^ bytes_hex s
  | VBool b -> if b then "Bt" else "Bf"
  | VNil -> "N"
  | VPair (h, t) -> "(P " ^ show h ^ " " ^ show t ^ ")"
  | VArr l -> "[" ^ String.concat " " (List.map show l) ^ "]"
  | VFun f -> "FN:" ^ name_of f

let () =
  iter_lines (fun line ->
    match split_tab line with
    | id :: body :: _ ->
      let r = (try
                 let (e, rest) = p_exp (tokenize body) in
                 if rest <> [] then "BADINPUT:trailing" else
                 (match beval [] e with Val v -> show v | Fail -> "ERR" | Unspec -> "UNSPEC")
               with Failure m -> "BADINPUT:" ^ m) in
      Printf.printf "%s\t%s\t-\n" id r
    | _ -> failwith ("bad line: " ^ line))
