(* C04 model runner.
   F <fid> <is_main> <np> <varargs> <nargs> <name> | Op,a,b,c;...      function: infer annotation (untrusted worklist
                                                                 over the extracted asucc), then the extracted check_fn decides
   T|S <fid> | pc;shape;sc;ad;lp | pc;shape;sc;ad;lp             observed step / call summary: extracted effect_ok decides
   R - | before | after                                          observed Return: extracted return_ok
   C <fid> <pc> <np> | before | after                            observed entry into a compiled function: extracted enter_ok
   D/N/O ...                                                     direct observations: prints the specification value
   H <id> | item | item ...                                      history of texts: extracted exec_fate folded from i_new (Model/Resident.v)
   output: ID <TAB> MODEL <TAB> SPEC *)
open Model
open Zutil

let n_of = nat_of_int
let i_of = int_of_nat

let instr_of (s : string) : instr =
  match String.split_on_char ',' s with
  | op :: rest ->
    let g k = (try int_of_string (List.nth rest k) with _ -> 0) in
    let a = g 0 and b = g 1 and c = g 2 in
    (match op with
     | "Jump" -> IJump (z_of_int a) | "Goto" -> IGoto (z_of_int a) | "Branch" -> IBranch (z_of_int a)
     | "Push" -> IPush | "PushMarker" -> IPushMarker | "PushLazyArg" -> IPushLazyArg | "Pop" -> IPop | "Dup" -> IDup
     | "EnvToStack" -> IEnvToStack | "PopStackPutEnv" -> IPopStackPutEnv | "Update" -> IUpdate
     | "Call" -> ICall (n_of a) | "CallExpr" -> ICallExpr (n_of a) | "Dispatch" -> IDispatch (n_of a)
     | "Return" -> IReturn | "ReturnErr" -> IReturnErr
     | "AddScope" -> IAddScope | "AddFuncScope" -> IAddFuncScope | "RemoveScope" -> IRemoveScope
     | "Explode" -> IExplode | "Squash" -> ISquash | "Bindlist" -> IBindlist | "Vectorize" -> IVectorize | "Hashize" -> IHashize
     | "Label" -> ILabel | "Break" -> IBreak (n_of a, z_of_int c, n_of b) | "Continue" -> IContinue (n_of a, z_of_int c, n_of b)
     | "LoopStart" -> ILoopStart (n_of a)
     | "PushStackmark" -> IPushStackmark (n_of a) | "PopUntilStackmark" -> IPopUntilStackmark (n_of a)
     | "ClearStackmark" -> IClearStackmark (n_of a)
     | "Debug" -> IDebug | "CreateClosure" -> ICreateClosure | "Assign" -> IAssign
     | "PopScopeTransferToDataStack" -> IPopScopeTransfer | "PrepareCall" -> IPrepareCall (n_of a)
     | _ -> IUnknown)
  | [] -> IUnknown

let show_aitem = function AVal -> "v" | AMarker -> "m" | AMark k -> "M" ^ string_of_int (i_of k) | AMany -> "*"
let show_astate ((ab, k) : astate) = "[" ^ String.concat "," (List.map show_aitem ab) ^ "]+" ^ string_of_int (i_of k)

let item_of (s : string) : item =
  if s = "v" then Val else if s = "m" then Marker
  else if String.length s > 1 && s.[0] = 'M' then Mark (n_of (int_of_string (String.sub s 1 (String.length s - 1))))
  else failwith ("bad item " ^ s)

let cstate_of (s : string) : cstate =
  match String.split_on_char ';' s with
  | [p; sh; sc; ad; lp] ->
    let items = if sh = "" then [] else List.map item_of (String.split_on_char ',' sh) in
    { pc = n_of (int_of_string p); data = items; sc = n_of (int_of_string sc); ad = n_of (int_of_string ad); lp = n_of (int_of_string lp) }
  | _ -> failwith ("bad state " ^ s)

type fn = { code : instr list; fi : finfo; is_main : bool; np : int; ops : string array }
let fns : (string, fn) Hashtbl.t = Hashtbl.create 1024

let max_states = 48

(* untrusted annotation inference: least fixpoint of asucc by a worklist *)
let infer (f : fn) : (astate list) array * (int * string * string) option =
  let len = List.length f.code in
  let ann = Array.make (max len 1) [] in
  let first_reject = ref None in
  let work = Queue.create () in
  let add p st =
    if p < len then begin
      if not (mem st ann.(p)) then begin
        if List.length ann.(p) >= max_states then begin
          if !first_reject = None then first_reject := Some (p, "too-many-states", show_astate st)
        end else begin
          ann.(p) <- ann.(p) @ [st];
          Queue.add (p, st) work
        end
      end
    end in
  if len > 0 then add 0 (entry_state (n_of f.np));
  while not (Queue.is_empty work) do
    let (p, st) = Queue.pop work in
    (match asucc f.code f.fi f.is_main (n_of p) st with
     | SReject -> if !first_reject = None then
         first_reject := Some (p, (match List.nth_opt f.code p with Some IUnknown -> "unknown-instruction-type" | _ -> "stack-or-scope-underflow-or-bad-target"), show_astate st)
     | SVacuous -> ()
     | SHalt st' -> if not (astate_eqb st' ret_state) && !first_reject = None then first_reject := Some (p, "return-with", show_astate st')
     | SNext (ts, st') ->
       List.iter (fun t ->
         let t = i_of t in
         if t < len then add t st'
         else if not (f.is_main && final_main st') && !first_reject = None then
           first_reject := Some (p, "end-with", show_astate st')) ts)
  done;
  (ann, !first_reject)

(* diagnosis only: would the function verify if every Break/Continue popped exactly the scopes
   opened since its LoopStart?  (names the mechanism of a rejection; never used to accept) *)
let repair_break_scopes (f : fn) (ann : (astate list) array) : fn option =
  let changed = ref false in
  let k_at p = if p < Array.length ann then (match ann.(p) with (_, k) :: _ -> Some (i_of k) | [] -> None) else None in
  let code = List.mapi (fun p i ->
    let fix l sc mk =
      (match find_loop f.code l, k_at p with
       | Some q, Some kh ->
         (match k_at (i_of q) with
          | Some kl -> let want = kh - (kl + 1) in
            if want >= 0 && want <> i_of sc then (changed := true; mk (n_of want)) else i
          | None -> i)
       | _ -> i) in
    match i with
    | IBreak (l, off, sc) -> fix l sc (fun w -> IBreak (l, off, w))
    | IContinue (l, off, sc) -> fix l sc (fun w -> IContinue (l, off, w))
    | _ -> i) f.code in
  if !changed then Some { f with code } else None

(* rendering of real bytecode + inferred annotation as Coq data (for the Examples of Properties/C04.v) *)
let coq_z z = let i = int_of_z z in if i < 0 then Printf.sprintf "(%d)%%Z" i else Printf.sprintf "%d%%Z" i
let coq_instr = function
  | IJump o -> "IJump " ^ coq_z o | IGoto o -> "IGoto " ^ coq_z o | IBranch o -> "IBranch " ^ coq_z o
  | IPush -> "IPush" | IPushMarker -> "IPushMarker" | IPushLazyArg -> "IPushLazyArg" | IPop -> "IPop" | IDup -> "IDup"
  | IEnvToStack -> "IEnvToStack" | IPopStackPutEnv -> "IPopStackPutEnv" | IUpdate -> "IUpdate"
  | ICall n -> Printf.sprintf "ICall %d" (i_of n) | ICallExpr n -> Printf.sprintf "ICallExpr %d" (i_of n)
  | IDispatch n -> Printf.sprintf "IDispatch %d" (i_of n) | IReturn -> "IReturn" | IReturnErr -> "IReturnErr"
  | IAddScope -> "IAddScope" | IAddFuncScope -> "IAddFuncScope" | IRemoveScope -> "IRemoveScope"
  | IExplode -> "IExplode" | ISquash -> "ISquash" | IBindlist -> "IBindlist" | IVectorize -> "IVectorize" | IHashize -> "IHashize"
  | ILabel -> "ILabel" | IBreak (l, o, sc) -> Printf.sprintf "IBreak %d %s %d" (i_of l) (coq_z o) (i_of sc)
  | IContinue (l, o, sc) -> Printf.sprintf "IContinue %d %s %d" (i_of l) (coq_z o) (i_of sc)
  | ILoopStart l -> Printf.sprintf "ILoopStart %d" (i_of l)
  | IPushStackmark m -> Printf.sprintf "IPushStackmark %d" (i_of m)
  | IPopUntilStackmark m -> Printf.sprintf "IPopUntilStackmark %d" (i_of m)
  | IClearStackmark m -> Printf.sprintf "IClearStackmark %d" (i_of m)
  | IDebug -> "IDebug" | ICreateClosure -> "ICreateClosure" | IAssign -> "IAssign" | IPopScopeTransfer -> "IPopScopeTransfer"
  | IPrepareCall n -> Printf.sprintf "IPrepareCall %d" (i_of n) | IUnknown -> "IUnknown"
let coq_aitem = function AVal -> "AVal" | AMarker -> "AMarker" | AMark m -> Printf.sprintf "AMark %d" (i_of m) | AMany -> "AMany"
let coq_astate (ab, k) = Printf.sprintf "([%s], %d)" (String.concat "; " (List.map coq_aitem ab)) (i_of k)
let dump_names = (try String.split_on_char ',' (Sys.getenv "C04_DUMP_NAMES") with Not_found -> [])
let dumped : (string, bool) Hashtbl.t = Hashtbl.create 8
let coq_dump name (f : fn) (a : astate list list) =
  if List.mem name dump_names && not (Hashtbl.mem dumped name) && List.length f.code >= 8 then begin
    Hashtbl.replace dumped name true;
    Printf.eprintf "(* %s: np=%d varargs=%b nargs=%d main=%b *)\nDefinition code_%s : list instr :=\n  [%s].\nDefinition annot_%s : annot :=\n  [%s].\n\n"
      name f.np f.fi.f_varargs (i_of f.fi.f_nargs) f.is_main name
      (String.concat "; " (List.map (fun i -> let s = coq_instr i in if String.contains s ' ' then "(" ^ s ^ ")" else s) f.code)) name
      (String.concat ";\n   " (List.map (fun l -> "[" ^ String.concat "; " (List.map coq_astate l) ^ "]") a))
  end

(* ---- H lines: histories of texts against the resident-state model (Model/Resident.v) ----
   H <id> | P:live,lex,queued,recur,exprs | C:n:tree | E:n:tree | K:n:tree ...
   tree ::= L0 | L1 | N(tree ...) | F<label>(tree ...) | J<label>      (label -1 = none) *)
let parse_tree (s : string) : ctree =
  let n = String.length s in
  let pos = ref 0 in
  let peek () = if !pos < n then s.[!pos] else ')' in
  let skip_sp () = while !pos < n && s.[!pos] = ' ' do incr pos done in
  let read_int () =
    let st = !pos in
    if !pos < n && s.[!pos] = '-' then incr pos;
    while !pos < n && s.[!pos] >= '0' && s.[!pos] <= '9' do incr pos done;
    int_of_string (String.sub s st (!pos - st)) in
  let lbl k = if k < 0 then None else Some (z_of_int k) in
  let rec tree () : ctree =
    skip_sp ();
    let c = peek () in
    incr pos;
    match c with
    | 'L' -> let k = read_int () in TLeaf (k <> 0)
    | 'J' -> let k = read_int () in TJump (lbl k)
    | 'N' -> TNode (subs ())
    | 'F' -> let k = read_int () in TFor (lbl k, subs ())
    | _ -> failwith ("bad tree " ^ s)
  and subs () : ctree list =
    skip_sp ();
    if peek () <> '(' then failwith ("bad tree, ( expected " ^ s);
    incr pos;
    let acc = ref [] in
    skip_sp ();
    while peek () <> ')' do acc := tree () :: !acc; skip_sp () done;
    incr pos;
    List.rev !acc in
  tree ()

let fclass_of (item : string) : fclass =
  match String.split_on_char ':' item with
  | ["P"; res] ->
    (match List.map int_of_string (String.split_on_char ',' res) with
     | [live; lex; q; rc; ex] -> KParse { p_live = (live <> 0); p_lex = n_of lex; p_queued = n_of q; p_recur = n_of rc; p_exprs = n_of ex }
     | _ -> failwith ("bad residue " ^ item))
  | ["C"; k; t] -> KCompile (n_of (int_of_string k), parse_tree t)
  | ["E"; k; t] -> KRunErr (n_of (int_of_string k), parse_tree t, [])
  | ["K"; k; t] -> KOk (n_of (int_of_string k), parse_tree t)
  | _ -> failwith ("bad history item " ^ item)

let show_obs (s : istate) : string =
  let (((((d, sc), ad), lp), pend), ((((live, lex), q), rc), ex)) = obs_of s in
  Printf.sprintf "%d,%d,%d,%d;%d;%d,%d,%d,%d,%d" (i_of d) (i_of sc) (i_of ad) (i_of lp) (i_of pend)
    (if live then 1 else 0) (i_of lex) (i_of q) (i_of rc) (i_of ex)

let run_history (items : string list) : string * string =
  let st = ref (Some i_new) in
  let outs = ref [] and specs = ref [] in
  List.iter (fun item ->
    let k = fclass_of item in
    (match !st with
     | None -> outs := "-" :: !outs
     | Some s ->
       (match exec_fate k s with
        | None -> st := None; outs := "impossible" :: !outs
        | Some s' -> st := Some s'; outs := show_obs s' :: !outs));
    (* the specification: quiet after every evaluation, every resident structure at rest after a value *)
    let (((r_d, r_s), r_a), r_l) = rest_depths in
    let q = Printf.sprintf "%d,%d,%d,%d;0" (i_of r_d) (i_of r_s) (i_of r_a) (i_of r_l) in
    specs := (match k with KOk _ -> q ^ ";idle" | _ -> q) :: !specs) items;
  (String.concat " / " (List.rev !outs), String.concat " / " (List.rev !specs))

let has_goto (f : fn) = List.exists (function IGoto _ -> true | _ -> false) f.code

let () =
  let (((r_d, r_s), r_a), r_l) = rest_depths in
  let rest = Printf.sprintf "%d,%d,%d,%d" (i_of r_d) (i_of r_s) (i_of r_a) (i_of r_l) in
  iter_lines (fun line ->
    match split_tab line with
    | [id; body] ->
      let parts = List.map String.trim (String.split_on_char '|' body) in
      let head = split_sp (List.hd parts) in
      (match head with
       | "F" :: fid :: is_main :: np :: varargs :: nargs :: fname :: _ ->
         let ops = if List.nth parts 1 = "" then [] else String.split_on_char ';' (List.nth parts 1) in
         let code = List.map instr_of ops in
         let f = { code; fi = { f_varargs = (varargs = "1"); f_nargs = n_of (int_of_string nargs) };
                   is_main = (is_main = "1"); np = int_of_string np; ops = Array.of_list ops } in
         Hashtbl.replace fns fid f;
         let (ann, rej) = infer f in
         let a = if code = [] then [] else Array.to_list ann in
         let ok = check_fn f.code f.fi f.is_main (n_of f.np) a in
         let nstates = List.fold_left (fun n l -> n + List.length l) 0 a in
         let tail = if has_goto f then (if tail_entry_unique (n_of f.np) a then " tail=ok" else " tail=bad") else "" in
         if ok then coq_dump fname f a;
         if ok then Printf.printf "%s\tok states=%d%s\t-\n" id nstates tail
         else begin
           match rej with
           | Some (p, why, st) ->
             let rep = (match repair_break_scopes f ann with
                        | Some f2 -> let (ann2, _) = infer f2 in
                          if check_fn f2.code f2.fi f2.is_main (n_of f2.np) (Array.to_list ann2) then " repair=break-scopes:ok" else " repair=break-scopes:fail"
                        | None -> "") in
             Printf.printf "%s\treject fn=%s pc=%d op=%s reason=%s state=%s%s\t-\n" id fname p (if p < Array.length f.ops then f.ops.(p) else "?") why st rep
           | None -> Printf.printf "%s\treject fn=%s pc=? reason=check_fn-false\t-\n" id fname
         end
       | ("T" | "S") :: fid :: _ ->
         (match Hashtbl.find_opt fns fid with
          | None -> Printf.printf "%s\tnofn\t-\n" id
          | Some f ->
            let s = cstate_of (List.nth parts 1) and s' = cstate_of (List.nth parts 2) in
            Printf.printf "%s\t%s\t-\n" id (if effect_ok f.code f.fi s s' then "ok" else "bad"))
       | "R" :: _ ->
         let s = cstate_of (List.nth parts 1) and s' = cstate_of (List.nth parts 2) in
         Printf.printf "%s\t%s\t-\n" id (if return_ok s s' then "ok" else "bad")
       | "C" :: fid :: p :: np :: _ ->
         (match Hashtbl.find_opt fns fid with
          | None -> Printf.printf "%s\tnofn\t-\n" id
          | Some f ->
            let s = cstate_of (List.nth parts 1) and s' = cstate_of (List.nth parts 2) in
            let i = (try List.nth f.code (int_of_string p) with _ -> IUnknown) in
            Printf.printf "%s\t%s\t-\n" id (if enter_ok i (n_of (int_of_string np)) s s' then "ok" else "bad"))
       | "H" :: _ ->
         let (m, sp) = run_history (List.filter (fun x -> x <> "") (List.tl parts)) in
         Printf.printf "%s\t%s\t%s\n" id m sp
       | "D" :: _ -> Printf.printf "%s\t-\t%s\n" id rest
       | "N" :: _ -> Printf.printf "%s\t-\tnil\n" id
       | "O" :: _ -> Printf.printf "%s\t-\tsame\n" id
       | _ -> Printf.printf "%s\t?\t-\n" id)
    | _ -> failwith ("bad line: " ^ line))
