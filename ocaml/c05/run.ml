(* C05 model runner (session version of ocaml/refsem/run.ml; the FORM parser and printer are copied from it).
   stdin lines:  ID <TAB> [fuel=N] failat=K TEXT ;; TEXT ;; ..   TEXT = FORM FORM .. | NOOPERR | RAW
   stdout lines: ID <TAB> OBS ;; OBS ;; ..|T:<trace> <TAB> -     OBS = V:<value> | E:<class> | FUEL | UNSPEC
   (a session containing RAW has no model: the answer is SKIP)
   --- original header of the copied part:
   RefSem model runner.  stdin lines:  ID <TAB> [fuel=N] [failat=K] FORM FORM ...
   stdout lines:  ID <TAB> OUTCOME <TAB> -
   FORM (prefix syntax, one token kind: atoms and parentheses):
     (int Z) (bool t|f) nil (str B1 B2 ..) (q DATUM) (var NAME) (arr E..) (call F A..)
     (begin E..) (cond (C B).. D) (and E..) (or E..) (def NAME E) (set NAME E)
     (let ((NAME E)..) B..) (letseq ((NAME E)..) B..) (scope E..)
     (for LABEL|- INIT TEST STEP B..) (break LABEL|-) (continue LABEL|-)
     (fn (P..) REST|- B..) (defn NAME (P..) REST|- B..)
   DATUM: Z | NAME | (DATUM..)
   NAME: a primitive name (+ - * < > <= >= == != not cons first rest list array aget aset
   append len map apply trace failk) or any other symbol; quoted symbols sa sb sc .. are
   numbered in the order sa < sb < sc (the harness interns them in that order).
   OUTCOME:  V:<value>|T:<trace>   E:<class>|T:<trace>   FUEL   UNSPEC
   <value>: I<z> Bt Bf N S<hex> Y<name> (P <v> <v>) [<v> ..] FN PRIM:<name> #  *)
open Model
open Zutil

type sx = A of string | L of sx list

let tokenize (s : string) : string list =
  let toks = ref [] and buf = Buffer.create 16 in
  let flush () = if Buffer.length buf > 0 then (toks := Buffer.contents buf :: !toks; Buffer.clear buf) in
  String.iter (fun c ->
    match c with
    | '(' | ')' -> flush (); toks := String.make 1 c :: !toks
    | ' ' -> flush ()
    | c -> Buffer.add_char buf c) s;
  flush (); List.rev !toks

let rec parse_sx (toks : string list) : sx * string list =
  match toks with
  | "(" :: r ->
    let rec items acc r =
      (match r with
       | ")" :: r' -> (L (List.rev acc), r')
       | [] -> failwith "unbalanced"
       | _ -> let (x, r') = parse_sx r in items (x :: acc) r') in
    items [] r
  | ")" :: _ -> failwith "unexpected )"
  | t :: r -> (A t, r)
  | [] -> failwith "empty"

let rec parse_all toks = match toks with [] -> [] | _ -> let (x, r) = parse_sx toks in x :: parse_all r

let prim_names = [
  "+", PAdd; "-", PSub; "*", PMul; "<", PLt; ">", PGt; "<=", PLe; ">=", PGe; "==", PEq; "!=", PNe;
  "not", PNot; "cons", PCons; "first", PFirst; "rest", PRest; "list", PList; "array", PArray;
  "aget", PAget; "aset", PAset; "append", PAppend; "len", PLen; "concat", PConcat; "/", PDiv; "map", PMap; "apply", PApply;
  "trace", PTrace; "failk", PFailK ]

let names : (string, int) Hashtbl.t = Hashtbl.create 64
let rev_names : (int, string) Hashtbl.t = Hashtbl.create 64
let next_id = ref 1000
let () = List.iter (fun s -> Hashtbl.replace names s !next_id; Hashtbl.replace rev_names !next_id s; incr next_id)
    ["sa"; "sb"; "sc"; "sd"; "se"]
let ident_of (s : string) : z =
  match List.assoc_opt s prim_names with
  | Some p -> prim_ident p
  | None ->
    (match Hashtbl.find_opt names s with
     | Some n -> z_of_int n
     | None -> let n = !next_id in incr next_id; Hashtbl.replace names s n; Hashtbl.replace rev_names n s; z_of_int n)
let name_of (i : z) : string =
  let n = int_of_z i in
  match Hashtbl.find_opt rev_names n with
  | Some s -> s
  | None ->
    (* a quoted symbol spelled like a builtin *)
    (match List.find_opt (fun (_, p) -> int_of_z (prim_ident p) = n) prim_names with
     | Some (s, _) -> s
     | None -> "?" ^ string_of_int n)

let is_int_tok s = String.length s > 0 && (let c = s.[0] in (c >= '0' && c <= '9') || (c = '-' && String.length s > 1 && s.[1] >= '0' && s.[1] <= '9'))

let rec datum_of (x : sx) : datum =
  match x with
  | A t ->
    if is_int_tok t then DInt (z_of_string t)
    else if String.length t > 2 && t.[0] = '%' && t.[1] = 'f' then DFlt (z_of_string (String.sub t 2 (String.length t - 2)))
    else if String.length t > 2 && t.[0] = '%' && t.[1] = 'c' then DChr (z_of_string (String.sub t 2 (String.length t - 2)))
    else DSym (ident_of t)
  | L xs -> DList (List.map datum_of xs)

let label_of (x : sx) : z option = match x with A "-" -> None | A t -> Some (ident_of t) | _ -> failwith "label"
let name_atom (x : sx) : z = match x with A t -> ident_of t | _ -> failwith "name expected"

let rec expr_of (x : sx) : expr =
  match x with
  | A "nil" -> ENil
  | L [A "int"; A z] -> EInt (z_of_string z)
  | L [A "bool"; A b] -> EBool (b = "t")
  | L (A "str" :: bs) -> EStr (List.map (function A b -> z_of_string b | _ -> failwith "str") bs)
  | L [A "q"; d] -> EQuote (datum_of d)
  | L [A "var"; A n] -> EVar (ident_of n)
  | L (A "arr" :: es) -> EArr (List.map expr_of es)
  | L (A "call" :: f :: args) -> ECall (expr_of f, List.map expr_of args)
  | L (A "begin" :: es) -> EBegin (List.map expr_of es)
  | L (A "cond" :: rest) ->
    let rec split acc r = (match r with
        | [d] -> (List.rev acc, expr_of d)
        | L [c; b] :: r' -> split ((expr_of c, expr_of b) :: acc) r'
        | _ -> failwith "cond") in
    let (arms, d) = split [] rest in ECond (arms, d)
  | L (A "and" :: es) -> EAnd (List.map expr_of es)
  | L (A "or" :: es) -> EOr (List.map expr_of es)
  | L [A "def"; n; e] -> EDef (name_atom n, expr_of e)
  | L [A "set"; n; e] -> ESet (name_atom n, expr_of e)
  | L (A "let" :: L bs :: body) -> ELet (false, binds_of bs, List.map expr_of body)
  | L (A "letseq" :: L bs :: body) -> ELet (true, binds_of bs, List.map expr_of body)
  | L (A "scope" :: es) -> EScope (List.map expr_of es)
  | L (A "for" :: lbl :: i :: t :: s :: body) -> EFor (label_of lbl, expr_of i, expr_of t, expr_of s, List.map expr_of body)
  | L [A "break"; lbl] -> EBreak (label_of lbl)
  | L [A "continue"; lbl] -> ECont (label_of lbl)
  | L (A "fn" :: L ps :: rest :: body) -> EFn (List.map name_atom ps, label_of rest, List.map expr_of body)
  | L (A "defn" :: n :: L ps :: rest :: body) -> EDefn (name_atom n, List.map name_atom ps, label_of rest, List.map expr_of body)
  | _ -> failwith "bad form"
and binds_of bs = List.map (function L [n; e] -> (name_atom n, expr_of e) | _ -> failwith "binding") bs

let prim_name p = let rec f = function [] -> "?" | (n, q) :: r -> if q = p then n else f r in f prim_names

let hex_of (bs : z list) : string =
  String.concat "" (List.map (fun b -> Printf.sprintf "%02x" (int_of_z b)) bs)

let rec show (v : sval) : string =
  match v with
  | SvInt z -> "I" ^ string_of_z z
  | SvBool true -> "Bt" | SvBool false -> "Bf"
  | SvNil -> "N"
  | SvStr s -> "S" ^ hex_of s
  | SvSym s -> "Y" ^ name_of s
  | SvPair (h, t) -> "(P " ^ show h ^ " " ^ show t ^ ")"
  | SvArr l -> "[" ^ String.concat " " (List.map show l) ^ "]"
  | SvFn -> "FN"
  | SvPrim p -> "PRIM:" ^ prim_name p
  | SvCut -> "#"
  | SvFlt (m, e) -> "F" ^ string_of_z m ^ "p" ^ string_of_z e
  | SvChr c -> "C" ^ string_of_z c

let show_trace (t : sval list list) : string =
  String.concat ";" (List.map (fun args -> String.concat "," (List.map show args)) t)

let err_name = function EUnbound -> "unbound" | EUser -> "user" | ELoop -> "loop" | EOther -> "other" | EUnspec -> "unspec"

let show_obs (o : sval res) : string =
  match o with
  | Done v -> "V:" ^ show v
  | Sig (SErr EUnspec) -> "UNSPEC"
  | Sig (SErr e) -> "E:" ^ err_name e
  | Sig _ -> "E:loop"
  | Fuel -> "FUEL"

(* split the token list at ";;" *)
let rec split_texts (toks : string list) (cur : string list) : string list list =
  match toks with
  | [] -> [List.rev cur]
  | ";;" :: r -> List.rev cur :: split_texts r []
  | t :: r -> split_texts r (t :: cur)

(* ---------------------------------------------------------------- the PHASE stream (Model/Phases.v)
   input: "PHASE failat=K SRC1 ;; SRC2 ;; .." where SRCi is real source text of the small language
   of Phases.classify.  The tokenizer below is the only hand-written part: ( ) [ ] and atoms; an atom
   is an int literal 0..99, one of the symbols the generator dispatches on, a name, or - anything
   else, e.g. 12abc - a lexer error (TBad). *)
let ph_names : (string, int) Hashtbl.t = Hashtbl.create 16
let ph_atom (a : string) : tok =
  let n = String.length a in
  let is_digit c = c >= '0' && c <= '9' in
  let is_alpha c = (c >= 'a' && c <= 'z') || (c >= 'A' && c <= 'Z') in
  let all p = let r = ref true in String.iter (fun c -> if not (p c) then r := false) a; !r in
  let z i = z_of_string (string_of_int i) in
  if all is_digit then (if n <= 2 then TAtom (z (int_of_string a)) else TAtom (z 150))
  else if is_alpha a.[0] && all (fun c -> is_digit c || is_alpha c) then
    (match a with
     | "for" -> TAtom (z 100) | "break" -> TAtom (z 101) | "continue" -> TAtom (z 102) | "fn" -> TAtom (z 103)
     | "begin" -> TAtom (z 104) | "def" -> TAtom (z 105) | "failk" -> TAtom (z 106) | "false" -> TAtom (z 107)
     | "let" -> TAtom (z 108)
     | _ ->
       let i = (match Hashtbl.find_opt ph_names a with
                | Some i -> i
                | None -> let i = 200 + Hashtbl.length ph_names in Hashtbl.add ph_names a i; i) in
       TAtom (z i))
  else TBad

let ph_tokenize (s : string) : tok list =
  let out = ref [] and cur = Buffer.create 8 in
  let flush () = if Buffer.length cur > 0 then (out := ph_atom (Buffer.contents cur) :: !out; Buffer.clear cur) in
  String.iter (fun c ->
    match c with
    | '(' -> flush (); out := TOpen :: !out
    | ')' -> flush (); out := TClose :: !out
    | '[' -> flush (); out := TLB :: !out
    | ']' -> flush (); out := TRB :: !out
    | ' ' | '\n' | '\t' -> flush ()
    | c -> Buffer.add_char cur c) s;
  flush (); List.rev !out

let rec split_on_sep (s : string) (sep : string) : string list =
  let n = String.length s and m = String.length sep in
  let rec find i = if i + m > n then -1 else if String.sub s i m = sep then i else find (i + 1) in
  match find 0 with
  | -1 -> [s]
  | i -> String.sub s 0 i :: split_on_sep (String.sub s (i + m) (n - i - m)) sep

let ph_show_val = function
  | PvInt z -> string_of_z z | PvNil -> "nil" | PvFalse -> "false" | PvFn -> "fn"

let ph_show (o, ((rest, loops), data)) : string =
  let oc = (match o with
    | OVal v -> "V:" ^ ph_show_val v
    | OReadErr -> "R" | OCompileErr -> "C"
    | ORunErr XUser -> "X:user" | ORunErr _ -> "X:other"
    | OUnspec -> "UNSPEC" | OFuel -> "FUEL") in
  Printf.sprintf "%s@%d,%d,%d" oc (if rest then 1 else 0) (int_of_nat loops) (int_of_nat data)

let run_phase (id : string) (body : string) : unit =
  Hashtbl.reset ph_names;
  (* body = "PHASE failat=K rest" *)
  let body = String.sub body 6 (String.length body - 6) in
  let sp = String.index body ' ' in
  let k = int_of_string (String.sub body 7 (sp - 7)) in
  let rest = String.sub body (sp + 1) (String.length body - sp - 1) in
  let texts = List.map ph_tokenize (split_on_sep rest " ;; ") in
  let obs = psession_obs (nat_of_int 400) (nat_of_int k) texts i_init in
  Printf.printf "%s\t%s\t-\n%!" id (String.concat " ;; " (List.map ph_show obs))

let () =
  iter_lines (fun line ->
    match split_tab line with
    | id :: body :: _ when String.length body > 6 && String.sub body 0 6 = "PHASE " -> run_phase id body
    | id :: body :: _ ->
      (try
        let fuel = ref 300 and failat = ref 0 in
        let toks = tokenize body in
        let rec opts = function
          | t :: r when String.length t > 5 && String.sub t 0 5 = "fuel=" -> fuel := int_of_string (String.sub t 5 (String.length t - 5)); opts r
          | t :: r when String.length t > 7 && String.sub t 0 7 = "failat=" -> failat := int_of_string (String.sub t 7 (String.length t - 7)); opts r
          | r -> r in
        let toks = opts toks in
        if List.mem "RAW" toks then Printf.printf "%s\tSKIP\t-\n%!" id
        else begin
          let texts = List.map (fun ts ->
              match ts with
              | ["NOOPERR"] -> TReject
              | _ -> TForms (List.map expr_of (parse_all ts))) (split_texts toks []) in
          let (os, tr) = run_session (nat_of_int !fuel) (nat_of_int !failat) texts in
          Printf.printf "%s\t%s|T:%s\t-\n%!" id (String.concat " ;; " (List.map show_obs os)) (show_trace tr)
        end
      with Failure m -> Printf.printf "%s\tBADINPUT:%s\t-\n%!" id m)
    | _ -> failwith ("bad line: " ^ line))
