(* C06 model runner.  stdin: "ID<TAB>TOKENS"  stdout: "ID<TAB>MODEL<TAB>SPEC".
   TOKENS = the elements of the array inside (infix [...]) as the real parser produced them,
   space separated:  s:NAME  l:NAME (symbol with colonTail)  d:NAME (dot symbol)  i:R f:R b:R q:R
   (int float bool string)  p:R (pair)  h:R (hash)  k:R (comment)  o:R (other)  c (comma)
   m (semicolon)  a[ ... ] (array, nested tokens).  R/NAME: "\s" space, "\t", "\n", "\\".
   MODEL = the extracted Pratt model (generated table) on that token list,
   SPEC  = the extracted split-at-weakest oracle over the documented table ("-" = silent).
   Both print the statement list in the canonical form the Go harness uses for the implementation. *)
open Model
open Zutil

(* ---- strings ---- *)
let char_of_ascii (Ascii (b0, b1, b2, b3, b4, b5, b6, b7)) : char =
  let v b k = if b then 1 lsl k else 0 in
  Char.chr (v b0 0 + v b1 1 + v b2 2 + v b3 3 + v b4 4 + v b5 5 + v b6 6 + v b7 7)
let ascii_of_char (c : char) : ascii =
  let n = Char.code c in
  let b k = (n lsr k) land 1 = 1 in
  Ascii (b 0, b 1, b 2, b 3, b 4, b 5, b 6, b 7)
let str (s : ascii list) : string = String.init (List.length s) (fun i -> char_of_ascii (List.nth s i))
let cstr (s : string) : ascii list = List.init (String.length s) (fun i -> ascii_of_char s.[i])

let decode (s : string) : string =
  let b = Buffer.create (String.length s) in
  let n = String.length s in
  let i = ref 0 in
  while !i < n do
    if s.[!i] = '\\' && !i + 1 < n then begin
      (match s.[!i + 1] with
       | 's' -> Buffer.add_char b ' ' | 't' -> Buffer.add_char b '\t'
       | 'n' -> Buffer.add_char b '\n' | c -> Buffer.add_char b c);
      i := !i + 2
    end else begin Buffer.add_char b s.[!i]; incr i end
  done;
  Buffer.contents b

let esc_final (s : string) : string =
  let b = Buffer.create (String.length s) in
  String.iter (fun c -> match c with
    | '\\' -> Buffer.add_string b "\\\\" | '\n' -> Buffer.add_string b "\\n"
    | '\t' -> Buffer.add_string b "\\t" | c -> Buffer.add_char b c) s;
  Buffer.contents b

(* ---- token side table ---- *)
let reprs : (int, string) Hashtbl.t = Hashtbl.create 64
let contents : (int, tok list) Hashtbl.t = Hashtbl.create 16
let counter = ref 0
let fresh () = incr counter; !counter

let rec parse_items (ws : string list) : tok list * string list =
  match ws with
  | [] -> ([], [])
  | "]" :: rest -> ([], rest)
  | "a[" :: rest ->
    let (inner, rest') = parse_items rest in
    let id = fresh () in
    Hashtbl.replace contents id inner;
    let (more, rest'') = parse_items_cont rest' in
    (TArr (z_of_int id) :: more, rest'')
  | w :: rest ->
    let t =
      if w = "c" then TComma else if w = "m" then TSemi
      else begin
        if String.length w < 2 || w.[1] <> ':' then failwith ("bad token " ^ w);
        let body = decode (String.sub w 2 (String.length w - 2)) in
        let withid f = let id = fresh () in Hashtbl.replace reprs id body; f (z_of_int id) in
        match w.[0] with
        | 's' -> TSym (cstr body, false)
        | 'l' -> TSym (cstr body, true)
        | 'd' -> TDotSym (cstr body)
        | 'i' -> withid (fun z -> TInt z) | 'f' -> withid (fun z -> TFloat z)
        | 'b' -> withid (fun z -> TBool z) | 'q' -> withid (fun z -> TStr z)
        | 'p' -> withid (fun z -> TPair z) | 'h' -> withid (fun z -> THash z)
        | 'k' -> withid (fun z -> TComment z) | 'o' -> withid (fun z -> TOther z)
        | _ -> failwith ("bad token " ^ w)
      end in
    let (more, rest') = parse_items rest in
    (t :: more, rest')
and parse_items_cont ws = parse_items ws

let rec print_tok (t : tok) : string =
  match t with
  | TSym (n, c) -> str n ^ (if c then ":" else "")
  | TDotSym n -> str n
  | TInt z | TFloat z | TBool z | TStr z | TPair z | THash z | TComment z | TOther z ->
    Hashtbl.find reprs (int_of_z z)
  | TArr z -> "[" ^ String.concat " " (List.map print_tok (Hashtbl.find contents (int_of_z z))) ^ "]"
  | TComma -> ","
  | TSemi -> ";"

let content_of (t : tok) : tok list =
  match t with TArr z -> Hashtbl.find contents (int_of_z z) | _ -> []

(* ---- model side ---- *)
let cur_ents = ref infix_entries
let cur_kk = ref infix_lbp

exception Outcome of string

let rec led_err (t : tok) : bool =
  match t with
  | TArr _ -> (match norm_selector !cur_ents !cur_kk led_err (content_of t) with RErr -> true | _ -> false)
  | _ -> false

let last_opt (l : tok list) : tok option = match List.rev l with [] -> None | x :: _ -> Some x

let rec pm (eof : tok option) (x : tok tree) : string =
  let eofs () = (match eof with Some t -> print_tok t | None -> "nil") in
  match x with
  | Leaf t -> print_tok t
  | Eof -> eofs ()
  | Bin (o, l, r) -> "(" ^ str (led_head !cur_ents !cur_kk o) ^ " " ^ pm eof l ^ " " ^ pm eof r ^ ")"
  | Pre (o, a) -> "(" ^ str (nud_head !cur_ents o) ^ " " ^ pm eof a ^ ")"
  | Post (o, a) ->
    (match led_of !cur_ents !cur_kk o with
     | Some LIndex -> "(arrayidx " ^ pm eof a ^ " " ^ model_selector o ^ ")"
     | Some LDotIdx -> "(hashidx " ^ pm eof a ^ " " ^ print_tok o ^ ")"
     | Some (LPostfix h) -> "(" ^ str h ^ " " ^ pm eof a ^ ")"
     | _ -> "(?post " ^ pm eof a ^ ")")
  | Drop (o, _) -> print_tok o
  | Cond (_, c, t, None) -> "(cond " ^ pm eof c ^ " " ^ pm eof t ^ " nil)"
  | Cond (_, c, t, Some (_, e)) -> "(cond " ^ pm eof c ^ " " ^ pm eof t ^ " " ^ pm eof e ^ ")"
  | CondStale (_, c, t) -> "(cond " ^ pm eof c ^ " " ^ pm eof t ^ " " ^ eofs () ^ ")"
and model_selector (o : tok) : string =
  let ts = split_colon_tail (content_of o) in
  match norm_selector !cur_ents !cur_kk led_err (content_of o) with
  | ROk (SelRaw l) -> "[" ^ String.concat " " (List.map print_tok l) ^ "]"
  | ROk (SelIdx x) -> "[" ^ pm (last_opt ts) x ^ "]"
  | ROk (SelSlice (a, b)) ->
    let (l, r) = split_at_colon ts in
    let parts = (match a with Some x -> [pm (last_opt l) x] | None -> []) @ [":"]
                @ (match b with Some x -> [pm (last_opt r) x] | None -> []) in
    "[" ^ String.concat " " parts ^ "]"
  | RErr -> raise (Outcome "ERR")
  | RCrash -> raise (Outcome "PANIC")
  | RUnsup -> raise (Outcome "UNSUP")
  | RFuel -> raise (Outcome "FUEL")

(* ---- go-style for (Model/PrattFor.v); printing = the documented lowered forms ---- *)
let repr_of (t : tok) : string = match t with TPair z | THash z -> Hashtbl.find reprs (int_of_z z) | _ -> ""
let starts_with (p : string) (s : string) = String.length s >= String.length p && String.sub s 0 (String.length p) = p
let is_body (t : tok) : bool =
  match t with TPair _ -> starts_with "(infix" (repr_of t) | THash _ -> repr_of t = "{}" | _ -> false
let body_empty (t : tok) : bool =
  match t with TPair _ -> repr_of t = "(infix)" | THash _ -> true | _ -> false

let print_for (eof : tok option) (f : forform) : string =
  (* a clause is parsed by its own Pratt over the clause's tokens: the stale token at EOF is the
     clause's last token = the last token of the yield (the clause is consumed completely) *)
  let pmc x = pm (last_opt (yield x)) x in
  let opt d = function Some x -> pmc x | None -> d in
  let lab = function Some l -> " " ^ print_tok l | None -> "" in
  let bod = function Some b -> [print_tok b] | None -> [] in
  match f with
  | FThree (l, i, t, p, b) ->
    "(for" ^ lab l ^ " [" ^ opt "nil" i ^ " " ^ opt "true" t ^ " " ^ opt "nil" p ^ "]"
    ^ String.concat "" (List.map (fun x -> " " ^ x) (bod b)) ^ ")"
  | FRange (l, targets, define, src, b) ->
    let s = "__range_src" and n = "__range_len" and i = "__range_i" and pr = "__range_pair" in
    let tg = List.map print_tok targets in
    let body = bod b in
    let items =
      (match tg with
       | [t0] -> [Printf.sprintf "(%s %s (__rangeKey %s %s))" (if define then "def" else "set") t0 s i] @ body
       | [t0; t1] ->
         if define then [Printf.sprintf "(mdef %s %s (__rangePair %s %s))" t0 t1 s i] @ body
         else [Printf.sprintf "(let [%s (__rangePair %s %s)] (begin (set %s (first %s)) (set %s (second %s))%s))"
                 pr s i t0 pr t1 pr (String.concat "" (List.map (fun x -> " " ^ x) body))]
       | _ -> ["?"]) in
    Printf.sprintf "(letseq [%s %s %s (__rangeLen %s)] (for%s [(def %s 0) (< %s %s) (set %s (+ %s 1))] %s))"
      s (pmc src) n s (lab l) i i n i i (String.concat " " items)

let for_obs (ts : tok list) : string =
  match parse_block_for !cur_ents !cur_kk for_consts led_err is_body body_empty ts with
  | ROk xs -> String.concat " ;; " (List.map (function SExpr x -> pm (last_opt ts) x | SFor f -> print_for (last_opt ts) f) xs)
  | RErr -> "ERR" | RCrash -> "PANIC" | RUnsup -> "UNSUP" | RFuel -> "FUEL"

let model_obs (ts : tok list) : string =
  try
    match m_parse_block !cur_ents !cur_kk led_err ts with
    | ROk xs -> String.concat " ;; " (List.map (pm (last_opt ts)) xs)
    | RErr -> "ERR" | RCrash -> "PANIC" | RUnsup -> for_obs ts | RFuel -> "FUEL"
  with Outcome s -> s

(* ---- specification side ---- *)
exception Silent

let rec ps (x : tok tree) : string =
  match x with
  | Leaf t -> print_tok t
  | Bin (o, l, r) -> "(" ^ str (Doc.bin_head o) ^ " " ^ ps l ^ " " ^ ps r ^ ")"
  | Pre (o, a) -> "(" ^ print_tok o ^ " " ^ ps a ^ ")"
  | Post (o, a) ->
    (match o with
     | TArr _ -> "(arrayidx " ^ ps a ^ " " ^ spec_selector o ^ ")"
     | TDotSym _ -> "(hashidx " ^ ps a ^ " " ^ print_tok o ^ ")"
     | TSym (_, false) when Doc.is_lowpost o -> "(" ^ print_tok o ^ " " ^ ps a ^ ")"
     | _ -> raise Silent)
  | _ -> raise Silent
and spec_selector (o : tok) : string =
  match Doc.selector (content_of o) with
  | Some (Doc.SSRaw l) -> "[" ^ String.concat " " (List.map print_tok l) ^ "]"
  | Some (Doc.SSIdx x) -> "[" ^ ps x ^ "]"
  | Some (Doc.SSSlice (a, b)) ->
    let parts = (match a with Some x -> [ps x] | None -> []) @ [":"]
                @ (match b with Some x -> [ps x] | None -> []) in
    "[" ^ String.concat " " parts ^ "]"
  | None -> raise Silent

(* go-style for statements: the specification is the lowering of Model/PrattFor.v (guards read
   from the source, proved index-safe) printed with the documented expansion templates
   (print_for: := defines, = assigns); a malformed header must give an error *)
let spec_for (ts : tok list) : string =
  match m_parse_block !cur_ents !cur_kk led_err ts with
  | RUnsup ->
    (match parse_block_for !cur_ents !cur_kk for_consts led_err is_body body_empty ts with
     | ROk _ -> for_obs ts
     | RErr | RCrash -> "ERR"
     | _ -> "-")
  | _ -> "-"

let spec_obs (ts : tok list) : string =
  try
    match Doc.block ts with
    | Some xs -> String.concat " ;; " (List.map ps xs)
    | None -> (try spec_for ts with Outcome _ -> "-")
  with Silent -> "-"

(* "#slice N sel": value of an index / slice of the array [10 20 ... 10*N] *)
let slice_line (id : string) (body : string) : unit =
  let ws = List.filter (fun x -> x <> "") (String.split_on_char ' ' body) in
  match ws with
  | _ :: n :: sel ->
    let n = int_of_string n in
    let l = List.init n (fun i -> z_of_int (10 * (i + 1))) in
    let sel = List.map (fun w -> if w = ":" then SColon else SInt (z_of_string w)) sel in
    let show = function
      | VElem x -> string_of_z x
      | VSlice xs -> "[" ^ String.concat " " (List.map string_of_z xs) ^ "]"
      | VErr -> "ERR" in
    let m = show (select_model l sel) in
    let sp = (match shape_of sel with Some sh -> show (select_spec l sh) | None -> "-") in
    Printf.printf "%s\t%s\t%s\n" id m sp
  | _ -> failwith ("bad slice line: " ^ body)

(* "#lvalue root steps | op [k]": the fixed nested data after an assignment through a path *)
let world () : dv =
  let i n = DInt (z_of_int n) in
  let rc l = DRec (List.map (fun (k, v) -> (cstr k, v)) l) in
  rc [ ("r", DArr [ rc [("b", rc [("c", i 1); ("d", i 2)]); ("e", i 3)];
                    rc [("b", rc [("c", i 4); ("d", i 5)]); ("e", i 6)] ]);
       ("g", rc [("p", rc [("q", rc [("s", i 7); ("t", i 8)]); ("u", i 9)]); ("w", DArr [i 10; i 20])]) ]

let step_of (w : string) : step =
  if w.[0] = 'i' then SIdx (nat_of_int (int_of_string (String.sub w 1 (String.length w - 1))))
  else SFld (cstr (String.sub w 1 (String.length w - 1)))

let leaf_paths = ["fr i0 fb fc"; "fr i0 fb fd"; "fr i0 fe"; "fr i1 fb fc"; "fr i1 fb fd"; "fr i1 fe";
                  "fg fp fq fs"; "fg fp fq ft"; "fg fp fu"; "fg fw i0"; "fg fw i1"]
let cont_paths = ["fr"; "fr i0"; "fr i0 fb"; "fr i1"; "fr i1 fb"; "fg"; "fg fp"; "fg fp fq"; "fg fw"]
let path_of (s : string) : step list = List.map step_of (List.filter (fun x -> x <> "") (String.split_on_char ' ' s))

let lvalue_line (id : string) (body : string) : unit =
  match String.split_on_char '|' body with
  | [lhs; rhs] ->
    let ws = List.filter (fun x -> x <> "") (String.split_on_char ' ' lhs) in
    let p = List.map step_of (List.tl ws) in
    let op = (match List.filter (fun x -> x <> "") (String.split_on_char ' ' rhs) with
      | ["set"; k] -> OpSet (z_of_string k) | ["add"; k] -> OpAdd (z_of_string k)
      | ["sub"; k] -> OpSub (z_of_string k) | ["inc"] -> OpInc | ["dec"] -> OpDec
      | _ -> failwith ("bad lvalue op: " ^ rhs)) in
    let out = (match assign p op (world ()) with
      | None -> "ERR"
      | Some d ->
        let leaf s = (match dget (path_of s) d with Some (DInt z) -> string_of_z z | _ -> "?") in
        let cont s = (match nkeys (path_of s) d with Some n -> string_of_int (int_of_nat n) | None -> "?") in
        String.concat " " (List.map leaf leaf_paths) ^ " | " ^ String.concat " " (List.map cont cont_paths)) in
    (* the assignment code of hashutils.go / arrayutils.go is not mirrored: model column = specification *)
    Printf.printf "%s\t%s\t%s\n" id out out
  | _ -> failwith ("bad lvalue line: " ^ body)

(* "#lex R1 R2 ...": a text as decimal rune codes; MODEL = tokens of Model/Lexer.v (LexNextRune with the
   look-back ring), SPEC = tokens of Model/LexerPrev.v (the ring-free lexer that is handed the true previous
   rune); printed like harness tokObs: Kind:text ... [!E] *)
let kind_names = [| "Empty"; "LParen"; "RParen"; "LSquare"; "RSquare"; "LCurly"; "RCurly"; "Dot"; "Quote"; "Backtick";
  "Tilde"; "TildeAt"; "Symbol"; "Bool"; "Decimal"; "Hex"; "Oct"; "Binary"; "Float"; "Char"; "String"; "Caret";
  "ColonOperator"; "ThreadingOperator"; "Backslash"; "Dollar"; "DotSymbol"; "FreshAssign"; "BeginBacktickString";
  "BacktickString"; "Comment"; "BeginBlockComment"; "EndBlockComment"; "Semicolon"; "SymbolColon"; "Comma"; "Uint64"; "End" |]
let esc_runes (l : z list) : string =
  let b = Buffer.create 32 in
  List.iter (fun c ->
    let c = int_of_z c in
    if c >= 0x21 && c <= 0x7e && c <> 92 && c <> 35 && c <> 124 then Buffer.add_char b (Char.chr c)
    else Buffer.add_string b (Printf.sprintf "\\%d;" c)) l;
  Buffer.contents b
let show_lex (toks, ok) : string =
  let l = List.map (fun (k, s) -> kind_names.(int_of_z k) ^ ":" ^ esc_runes s) toks in
  String.concat " " (if ok then l else l @ ["!E"])
let lex_line (id : string) (body : string) : unit =
  let ws = List.filter (fun x -> x <> "") (String.split_on_char ' ' body) in
  let text = List.map z_of_string (List.tl ws) in
  Printf.printf "%s\t%s\t%s\n" id (esc_final (show_lex (lex_obs text))) (esc_final (show_lex (lexp_obs text)))

let () =
  iter_lines (fun line ->
    match split_tab line with
    | id :: body :: _ when String.length body >= 4 && String.sub body 0 4 = "#lex" -> lex_line id body
    | id :: body :: _ when String.length body > 6 && String.sub body 0 6 = "#slice" -> slice_line id body
    | id :: body :: _ when String.length body > 7 && String.sub body 0 7 = "#lvalue" -> lvalue_line id body
    | id :: body :: _ ->
      Hashtbl.reset reprs; Hashtbl.reset contents; counter := 0;
      let ws = List.filter (fun x -> x <> "") (String.split_on_char ' ' body) in
      let (ts, rest) = parse_items ws in
      if rest <> [] then failwith ("unbalanced tokens: " ^ body);
      let m = model_obs ts and sp = spec_obs ts in
      Printf.printf "%s\t%s\t%s\n" id (esc_final m) (esc_final sp)
    | _ -> failwith ("bad line: " ^ line))
