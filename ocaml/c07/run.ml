(* C07 model runner: reads "ID<TAB>kind op v1 v2" lines, prints "ID<TAB>model<TAB>spec".
   values: I<z> U<z> C<z> F<bits as decimal>;  kind cmp: op in lt gt le ge eq ne;  kind ar: op in add sub mul div *)
open Model
open Zutil

let parse_num (s : string) : num =
  let body = String.sub s 1 (String.length s - 1) in
  match s.[0] with
  | 'I' -> NInt (z_of_string body)
  | 'U' -> NUint (z_of_string body)
  | 'C' -> NChar (z_of_string body)
  | 'F' -> NFloat (b64_of_bits (z_of_string body))
  | _ -> failwith ("bad value " ^ s)

let show_num (n : num) : string =
  match n with
  | NInt z -> "I" ^ string_of_z z
  | NUint z -> "U" ^ string_of_z z
  | NChar z -> "C" ^ string_of_z z
  | NFloat f -> if is_nanb f then "Fnan" else "F" ^ string_of_z (bits_of_b64 f)

let cmpop_of = function
  | "lt" -> OpLt | "gt" -> OpGt | "le" -> OpLe | "ge" -> OpGe | "eq" -> OpEq | "ne" -> OpNe
  | s -> failwith ("bad cmpop " ^ s)
let arop_of = function
  | "add" -> OpAdd | "sub" -> OpSub | "mul" -> OpMul | "div" -> OpDiv
  | s -> failwith ("bad arop " ^ s)

let intop_of = function
  | "sll" -> IShl | "sra" -> ISra | "srl" -> ISrl | "imod" -> IMod
  | "band" -> IAnd | "bor" -> IOr | "bxor" -> IXor
  | s -> failwith ("bad intop " ^ s)

let show_bool_res = function Ok true -> "Btrue" | Ok false -> "Bfalse" | Err -> "ERR"
let show_num_res = function Ok n -> show_num n | Err -> "ERR"

let () =
  iter_lines (fun line ->
    match split_tab line with
    | [id; body] ->
      (match split_sp body with
       | ["cmp"; op; a; b] ->
         let a = parse_num a and b = parse_num b and op = cmpop_of op in
         Printf.printf "%s\t%s\t%s\n" id (show_bool_res (compare_function op a b)) (show_bool_res (spec_cmp op a b))
       | ["ar"; op; a; b] ->
         let a = parse_num a and b = parse_num b and op = arop_of op in
         let r = show_num_res (numeric_do op a b) in
         let sp = (match spec_arith op a b with Some x -> show_num_res x | None -> "-") in
         Printf.printf "%s\t%s\t%s\n" id r sp
       | ["mod"; _; a; b] ->
         let a = parse_num a and b = parse_num b in
         let r = show_num_res (mod_do a b) in
         let sp = (match spec_mod a b with Some x -> show_num_res x | None -> "-") in
         Printf.printf "%s\t%s\t%s\n" id r sp
       | ["int"; op; a; b] ->
         (* integer-only builtins (IntegerDo): model int_function [a; b], spec spec_integer *)
         let a = parse_num a and b = parse_num b and op = intop_of op in
         Printf.printf "%s\t%s\t%s\n" id (show_num_res (int_function op [a; b])) (show_num_res (spec_integer op a b))
       | ["bnot"; _; a] ->
         let a = parse_num a in
         Printf.printf "%s\t%s\t%s\n" id (show_num_res (complement a)) (show_num_res (spec_complement a))
       | "fold" :: op :: vals ->
         (* n-ary fold; observable "result;a;b;c..." : the operands must come back unchanged *)
         let vs = List.map parse_num vals and op = arop_of op in
         let r = show_num_res (numeric_builtin op vs) in
         let obs = String.concat ";" (r :: List.map show_num vs) in
         (* the oracle speaks for + - * on all-int64 / all-uint64 operand lists (exact fold, reduced once) *)
         let sp = (match spec_fold op vs with
                   | Some x -> String.concat ";" (show_num_res x :: List.map show_num vs)
                   | None -> obs) in
         Printf.printf "%s\t%s\t%s\n" id obs sp
       | _ -> failwith ("bad case: " ^ body))
    | _ -> failwith ("bad line: " ^ line))
