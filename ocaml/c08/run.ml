(* C08 model runner.  stdin: "ID<TAB>INPUT" with INPUT = "<cfg> <abstract program> :: <script>";
   stdout: "ID<TAB>MODEL<TAB>SPEC" where MODEL = effect classes the generated tables predict for the
   abstract program (comma separated, "-" when none) and SPEC = "-" (none allowed) for the sandboxed
   configurations, "any" for the unrestricted control configuration.
   With argument "impure": print the impure entries of every configuration instead. *)
(* NOTE: the extracted model defines its own type `string` (Coq strings), so this runner is built
   without ocaml/common/zutil.ml (which opens Model and annotates with OCaml's string); see checks/c08.py. *)
type ostring = string
open Model

let split_tab (s : ostring) : ostring list = Stdlib.String.split_on_char '\t' s
let iter_lines (f : ostring -> unit) : unit =
  (try while true do f (input_line stdin) done with End_of_file -> ())
let find_sub (s : ostring) (sub : ostring) : int =
  let n = Stdlib.String.length s and m = Stdlib.String.length sub in
  let rec go i = if i + m > n then n else if Stdlib.String.sub s i m = sub then i else go (i + 1) in
  go 0

let coq_of_char (c : char) : ascii =
  let n = Char.code c in
  let b i = (n lsr i) land 1 = 1 in
  Ascii (b 0, b 1, b 2, b 3, b 4, b 5, b 6, b 7)

let char_of_coq (a : ascii) : char =
  match a with Ascii (b0, b1, b2, b3, b4, b5, b6, b7) ->
    let v b i = if b then 1 lsl i else 0 in
    Char.chr (v b0 0 + v b1 1 + v b2 2 + v b3 3 + v b4 4 + v b5 5 + v b6 6 + v b7 7)

let coq_of_string (s : ostring) : Model.string =
  let r = ref EmptyString in
  for i = String.length s - 1 downto 0 do r := String (coq_of_char s.[i], !r) done;
  !r

let rec string_of_coq (s : Model.string) : ostring =
  match s with EmptyString -> "" | String (a, r) -> String.make 1 (char_of_coq a) ^ string_of_coq r

(* abstract program text:  k | r:NAME | (c F ARGS..) | (s NAME ARGS..) | (x NAME ARGS..) | (d NAME E) | (q E..) | (e E) *)
let tokenize (s : ostring) : ostring list =
  let toks = ref [] and buf = Buffer.create 16 in
  let flush () = if Buffer.length buf > 0 then (toks := Buffer.contents buf :: !toks; Buffer.clear buf) in
  let n = String.length s in
  let i = ref 0 in
  while !i < n do
    let c = s.[!i] in
    (* a parenthesis is structure only when it starts a token / ends one; names never contain parentheses *)
    if c = '(' || c = ')' then (flush (); toks := String.make 1 c :: !toks)
    else if c = ' ' then flush ()
    else Buffer.add_char buf c;
    incr i
  done;
  flush ();
  List.rev !toks

exception Bad of ostring

let rec parse (toks : ostring list) : prog * ostring list =
  match toks with
  | [] -> raise (Bad "empty")
  | "(" :: hd :: rest ->
    (match hd with
     | "c" -> let f, r1 = parse rest in let args, r2 = parse_list r1 in (PCall (f, args), r2)
     | "s" -> (match rest with n :: r1 -> let args, r2 = parse_list r1 in (PSpecial (coq_of_string n, args), r2) | _ -> raise (Bad "s"))
     | "x" -> (match rest with n :: r1 -> let args, r2 = parse_list r1 in (PMacro (coq_of_string n, args), r2) | _ -> raise (Bad "x"))
     | "d" -> (match rest with n :: r1 -> let e, r2 = parse r1 in
                 (match r2 with ")" :: r3 -> (PDef (coq_of_string n, e), r3) | _ -> raise (Bad "d)"))
               | _ -> raise (Bad "d"))
     | "q" -> let es, r2 = parse_list rest in (PSeq es, r2)
     | "e" -> let e, r1 = parse rest in (match r1 with ")" :: r2 -> (PEval e, r2) | _ -> raise (Bad "e)"))
     | _ -> raise (Bad ("head " ^ hd)))
  | "k" :: rest -> (PConst, rest)
  | t :: rest when String.length t > 2 && String.sub t 0 2 = "r:" -> (PRef (coq_of_string (String.sub t 2 (String.length t - 2))), rest)
  | t :: _ -> raise (Bad ("token " ^ t))
and parse_list (toks : ostring list) : prog list * ostring list =
  match toks with
  | ")" :: rest -> ([], rest)
  | [] -> raise (Bad "unterminated")
  | _ -> let p, r1 = parse toks in let ps, r2 = parse_list r1 in (p :: ps, r2)

(* command-line cases: INPUT = "cmdline <tokens> :: zygo <argv>", tokens: S (-sandbox / --sandbox), S=1, S=0,
   B (another boolean flag), VI (string flag with inline value), V (string flag taking the next argument),
   D (--), P (not a flag), X (undefined flag). MODEL = run_cmdline; SPEC = "sandboxed" when the flag part
   (up to the first P / D / the end) consists of flags only and leaves the sandbox flag on, "-" otherwise. *)
let arg_of = function
  | "S" -> ASandbox None | "S=1" -> ASandbox (Some true) | "S=0" -> ASandbox (Some false)
  | "I" | "I=1" -> AInteractive true | "I=0" -> AInteractive false
  | "E" | "E=1" -> AExitOnFail true | "E=0" -> AExitOnFail false
  | "C" -> ACommand false | "CI" -> ACommand true
  | "B" | "Bd" | "Bd=0" -> ABool | "VI" -> AStr true | "V" -> AStr false | "D" -> ADashDash | "P" -> APlain | "X" -> ABad
  | s -> raise (Bad ("arg " ^ s))
let outcome_name = function ORejected -> "rejected" | OSandboxed -> "sandboxed" | OOpen -> "open"
let cmdline_case (toks : ostring) : ostring * ostring =
  let args = List.map arg_of (List.filter (fun x -> x <> "") (Stdlib.String.split_on_char ' ' toks)) in
  let rec flagpart acc = function
    | a :: r when is_flag a -> flagpart (a :: acc) r
    | r -> (List.rev acc, r) in
  let pre, rest = flagpart [] args in
  let spec = (match rest with
    | [] | APlain :: _ | ADashDash :: _ -> if last_sandbox false pre then "sandboxed" else "-"
    | _ -> "-") in
  (outcome_name (run_cmdline args), spec)

(* session cases: INPUT = "session <tokens> <F|K> :: ..." (F: the script ends in an error, K: it does not).
   MODEL = "phase:kind,phase:kind" of `session`, or "rejected"; SPEC = "sandboxed" when the flag part leaves the
   sandbox flag on (then every phase must be sandboxed), "-" otherwise. *)
let phase_name = function
  | PhCommand -> "command" | PhScript -> "script" | PhReplAfterFailedScript -> "repl-after-failed-script"
  | PhReplAfterScript -> "repl-after-script" | PhRepl -> "repl"
let session_case (toks : ostring) : ostring * ostring =
  let ws = List.filter (fun x -> x <> "") (Stdlib.String.split_on_char ' ' toks) in
  let rec split_last = function [] -> raise (Bad "session") | [x] -> ([], x) | x :: r -> let (a, l) = split_last r in (x :: a, l) in
  let ts, fk = split_last ws in
  let args = List.map arg_of ts in
  let rec flagpart acc = function
    | a :: r when is_flag a -> flagpart (a :: acc) r
    | r -> (List.rev acc, r) in
  let pre, rest = flagpart [] args in
  let spec = (match rest with
    | [] | APlain :: _ | ADashDash :: _ -> if last_sandbox false pre then "sandboxed" else "-"
    | _ -> "-") in
  let m = (match session args (fk = "F") with
    | None -> "rejected"
    | Some phs -> Stdlib.String.concat "," (List.map (fun (ph, k) -> phase_name ph ^ ":" ^ outcome_name k) phs)) in
  (m, spec)

(* family cases: INPUT = "fam <history>@<target> <abstract program | names> :: ..." (harness/cmd/c08/family.go).
   MODEL = names_of (sorted, unique, "names:a,b,c") or family_predicted; SPEC = "-" (no effect allowed) when the
   target descends from NewZlispSandbox (origin_of, the ghost the model's transitions never read), "any" otherwise. *)
let rec nat_of_int (n : int) = if n <= 0 then O else S (nat_of_int (n - 1))
let fop_of (t : ostring) : fop =
  let n = Stdlib.String.length t in
  if n = 0 then raise (Bad "empty op") else
  let rest = Stdlib.String.sub t 1 (n - 1) in
  let idx s = (try nat_of_int (int_of_string s) with _ -> raise (Bad ("op " ^ t))) in
  match t.[0] with
  | 'S' -> FNewSandbox | 'F' -> FNewFull
  | 'U' -> FStdSetup (idx rest) | 'M' -> FDemo (idx rest) | 'D' -> FDup (idx rest) | 'C' -> FClone (idx rest)
  | 'V' -> (match Stdlib.String.split_on_char ':' rest with
            | [i; nm] -> FDefValue (idx i, coq_of_string nm) | _ -> raise (Bad ("op " ^ t)))
  | 'A' -> (match Stdlib.String.split_on_char ':' rest with
            | [i; nm; m] -> FDefAlias (idx i, coq_of_string nm, coq_of_string m) | _ -> raise (Bad ("op " ^ t)))
  | _ -> raise (Bad ("op " ^ t))
let family_case (rest : ostring) : ostring * ostring =
  let sp = (try Stdlib.String.index rest ' ' with Not_found -> raise (Bad "fam")) in
  let hist = Stdlib.String.sub rest 0 sp and abs = Stdlib.String.sub rest (sp + 1) (Stdlib.String.length rest - sp - 1) in
  let at = (try Stdlib.String.rindex hist '@' with Not_found -> raise (Bad "fam@")) in
  let ops = List.map fop_of (List.filter (fun x -> x <> "") (Stdlib.String.split_on_char ',' (Stdlib.String.sub hist 0 at))) in
  let t = nat_of_int (int_of_string (Stdlib.String.sub hist (at + 1) (Stdlib.String.length hist - at - 1))) in
  let st = run_family ops in
  let spec = (match origin_of st t with Some true -> "-" | Some false -> "any" | None -> raise (Bad "no such member")) in
  if abs = "names" then begin
    let ns = List.sort_uniq compare (List.map string_of_coq (names_of st t)) in
    ("names:" ^ Stdlib.String.concat "," ns, spec)
  end else begin
    let p, r = parse (tokenize abs) in
    if r <> [] then raise (Bad "trailing tokens");
    let effs = List.map string_of_coq (family_predicted st t p) in
    ((if effs = [] then "-" else Stdlib.String.concat "," effs), spec)
  end

(* plan cases: INPUT = "plan <tokens> :: zygo <argv>" (tokens as for cmdline, Bd = -demo, Bd=0 = -demo=false).
   MODEL = what ReplMain constructs for the scanned flag part according to the GENERATED replmain_plans:
   "sandboxed" / "open" (constructor) then "+demo" when ImportDemoData is one of the steps; "rejected". *)
let plan_case (toks : ostring) : ostring * ostring =
  let ws = List.filter (fun x -> x <> "") (Stdlib.String.split_on_char ' ' toks) in
  let args = List.map (fun t -> if t = "Bd" || t = "Bd=0" then ABool else arg_of t) ws in
  let rec flagpart acc = function
    | (a, w) :: r when is_flag a -> flagpart ((a, w) :: acc) r
    | r -> (List.rev acc, List.map fst r) in
  let pre, rest = flagpart [] (List.combine args ws) in
  let demo = List.fold_left (fun d (_, w) -> if w = "Bd" then true else if w = "Bd=0" then false else d) false pre in
  let spec = (match rest with
    | [] | APlain :: _ | ADashDash :: _ -> if last_sandbox false (List.map fst pre) then "sandboxed" else "-"
    | _ -> "-") in
  let m = (match scan st0 args with
    | Rejected -> "rejected"
    | Parsed (s, _) ->
      (match construction s demo with
       | None -> "no-plan"
       | Some ops ->
         let ctor = (match ops with FNewSandbox :: _ -> "sandboxed" | FNewFull :: _ -> "open" | _ -> "?") in
         let has_demo = List.exists (function FDemo _ -> true | _ -> false) ops in
         let unknown = List.exists (function FUnknown _ -> true | _ -> false) ops in
         ctor ^ (if has_demo then "+demo" else "") ^ (if unknown then "+unknown" else ""))) in
  (m, spec)

let cfg_of = function "bare" -> Bare | "std" -> Std | "bin" -> Bin | "full" -> Full | s -> raise (Bad ("cfg " ^ s))

let () =
  if Array.length Sys.argv > 1 && Sys.argv.(1) = "impure" then begin
    List.iter (fun c ->
      List.iter (fun ((t, n), f) ->
        Printf.printf "%s\t%s\t%s\t%s\n" (string_of_coq (cfg_name c)) (string_of_coq t) (string_of_coq n) (string_of_coq f))
        (impure_entries (ctx_of c))) [Bare; Std; Bin; Full]
  end else
  iter_lines (fun line ->
    match split_tab line with
    | id :: input :: _ ->
      (try
        let k = find_sub input " :: " in
        let head = String.sub input 0 k in
        if Stdlib.String.length head > 8 && Stdlib.String.sub head 0 8 = "session " then begin
          let m, sp = session_case (Stdlib.String.sub head 8 (Stdlib.String.length head - 8)) in
          Printf.printf "%s\t%s\t%s\n" id m sp
        end else
        if Stdlib.String.length head > 4 && Stdlib.String.sub head 0 4 = "fam " then begin
          let m, sp = family_case (Stdlib.String.sub head 4 (Stdlib.String.length head - 4)) in
          Printf.printf "%s\t%s\t%s\n" id m sp
        end else
        if Stdlib.String.length head > 5 && Stdlib.String.sub head 0 5 = "plan " then begin
          let m, sp = plan_case (Stdlib.String.sub head 5 (Stdlib.String.length head - 5)) in
          Printf.printf "%s\t%s\t%s\n" id m sp
        end else
        if Stdlib.String.length head > 8 && Stdlib.String.sub head 0 8 = "cmdline " then begin
          let m, sp = cmdline_case (Stdlib.String.sub head 8 (Stdlib.String.length head - 8)) in
          Printf.printf "%s\t%s\t%s\n" id m sp
        end else
        let sp = String.index head ' ' in
        let c = cfg_of (String.sub head 0 sp) in
        let abs = String.sub head (sp + 1) (String.length head - sp - 1) in
        let p, rest = parse (tokenize abs) in
        if rest <> [] then raise (Bad "trailing tokens");
        let effs = List.map string_of_coq (predicted_effects (ctx_of c) p) in
        let m = if effs = [] then "-" else String.concat "," effs in
        Printf.printf "%s\t%s\t%s\n" id m (if sandboxed (ctx_of c) then "-" else "any")
      with Bad msg -> Printf.printf "%s\tBAD:%s\t-\n" id msg)
    | _ -> ())
