(* C08 model runner.  stdin: "ID<TAB>INPUT" with INPUT = "<cfg> <abstract program> :: <script>";
   stdout: "ID<TAB>MODEL<TAB>SPEC" where MODEL = effect classes the generated tables predict for the
   abstract program (comma separated, "-" when none) and SPEC = "-" (none allowed) for the sandboxed
   configurations, "any" for the unrestricted control configuration.
   With argument "impure": print the impure entries of every configuration instead. *)
(* NOTE: the extracted model defines its own type `string` (Coq strings), so this runner is built
   without ocaml/common/zutil.ml (which opens Model and annotates with OCaml's string); see checks/c08.py. *)
type ostring = string
open Model

let split_tab (s : ostring) : ostring list = Stdlib.String.split_on_char '\t' s
let iter_lines (f : ostring -> unit) : unit =
  (try while true do f (input_line stdin) done with End_of_file -> ())
let find_sub (s : ostring) (sub : ostring) : int =
  let n = Stdlib.String.length s and m = Stdlib.String.length sub in
  let rec go i = if i + m > n then n else if Stdlib.String.sub s i m = sub then i else go (i + 1) in
  go 0

let coq_of_char (c : char) : ascii =
  let n = Char.code c in
  let b i = (n lsr i) land 1 = 1 in
  Ascii (b 0, b 1, b 2, b 3, b 4, b 5, b 6, b 7)

let char_of_coq (a : ascii) : char =
  match a with Ascii (b0, b1, b2, b3, b4, b5, b6, b7) ->
    let v b i = if b then 1 lsl i else 0 in
    Char.chr (v b0 0 + v b1 1 + v b2 2 + v b3 3 + v b4 4 + v b5 5 + v b6 6 + v b7 7)

let coq_of_string (s : ostring) : Model.string =
  let r = ref EmptyString in
  for i = String.length s - 1 downto 0 do r := String (coq_of_char s.[i], !r) done;
  !r

let rec string_of_coq (s : Model.string) : ostring =
  match s with EmptyString -> "" | String (a, r) -> String.make 1 (char_of_coq a) ^ string_of_coq r

(* abstract program text:  k | r:NAME | (c F ARGS..) | (s NAME ARGS..) | (x NAME ARGS..) | (d NAME E) | (q E..) | (e E) *)
let tokenize (s : ostring) : ostring list =
  let toks = ref [] and buf = Buffer.create 16 in
  let flush () = if Buffer.length buf > 0 then (toks := Buffer.contents buf :: !toks; Buffer.clear buf) in
  let n = String.length s in
  let i = ref 0 in
  while !i < n do
    let c = s.[!i] in
    (* a parenthesis is structure only when it starts a token / ends one; names never contain parentheses *)
    if c = '(' || c = ')' then (flush (); toks := String.make 1 c :: !toks)
    else if c = ' ' then flush ()
    else Buffer.add_char buf c;
    incr i
  done;
  flush ();
  List.rev !toks

exception Bad of ostring

let rec parse (toks : ostring list) : prog * ostring list =
  match toks with
  | [] -> raise (Bad "empty")
  | "(" :: hd :: rest ->
    (match hd with
     | "c" -> let f, r1 = parse rest in let args, r2 = parse_list r1 in (PCall (f, args), r2)
     | "s" -> (match rest with n :: r1 -> let args, r2 = parse_list r1 in (PSpecial (coq_of_string n, args), r2) | _ -> raise (Bad "s"))
     | "x" -> (match rest with n :: r1 -> let args, r2 = parse_list r1 in (PMacro (coq_of_string n, args), r2) | _ -> raise (Bad "x"))
     | "d" -> (match rest with n :: r1 -> let e, r2 = parse r1 in
                 (match r2 with ")" :: r3 -> (PDef (coq_of_string n, e), r3) | _ -> raise (Bad "d)"))
               | _ -> raise (Bad "d"))
     | "q" -> let es, r2 = parse_list rest in (PSeq es, r2)
     | "e" -> let e, r1 = parse rest in (match r1 with ")" :: r2 -> (PEval e, r2) | _ -> raise (Bad "e)"))
     | _ -> raise (Bad ("head " ^ hd)))
  | "k" :: rest -> (PConst, rest)
  | t :: rest when String.length t > 2 && String.sub t 0 2 = "r:" -> (PRef (coq_of_string (String.sub t 2 (String.length t - 2))), rest)
  | t :: _ -> raise (Bad ("token " ^ t))
and parse_list (toks : ostring list) : prog list * ostring list =
  match toks with
  | ")" :: rest -> ([], rest)
  | [] -> raise (Bad "unterminated")
  | _ -> let p, r1 = parse toks in let ps, r2 = parse_list r1 in (p :: ps, r2)

(* command-line cases: INPUT = "cmdline <tokens> :: zygo <argv>", tokens: S (-sandbox / --sandbox), S=1, S=0,
   B (another boolean flag), VI (string flag with inline value), V (string flag taking the next argument),
   D (--), P (not a flag), X (undefined flag). MODEL = run_cmdline; SPEC = "sandboxed" when the flag part
   (up to the first P / D / the end) consists of flags only and leaves the sandbox flag on, "-" otherwise. *)
let arg_of = function
  | "S" -> ASandbox None | "S=1" -> ASandbox (Some true) | "S=0" -> ASandbox (Some false)
  | "I" | "I=1" -> AInteractive true | "I=0" -> AInteractive false
  | "E" | "E=1" -> AExitOnFail true | "E=0" -> AExitOnFail false
  | "C" -> ACommand false | "CI" -> ACommand true
  | "B" -> ABool | "VI" -> AStr true | "V" -> AStr false | "D" -> ADashDash | "P" -> APlain | "X" -> ABad
  | s -> raise (Bad ("arg " ^ s))
let outcome_name = function ORejected -> "rejected" | OSandboxed -> "sandboxed" | OOpen -> "open"
let cmdline_case (toks : ostring) : ostring * ostring =
  let args = List.map arg_of (List.filter (fun x -> x <> "") (Stdlib.String.split_on_char ' ' toks)) in
  let rec flagpart acc = function
    | a :: r when is_flag a -> flagpart (a :: acc) r
    | r -> (List.rev acc, r) in
  let pre, rest = flagpart [] args in
  let spec = (match rest with
    | [] | APlain :: _ | ADashDash :: _ -> if last_sandbox false pre then "sandboxed" else "-"
    | _ -> "-") in
  (outcome_name (run_cmdline args), spec)

(* session cases: INPUT = "session <tokens> <F|K> :: ..." (F: the script ends in an error, K: it does not).
   MODEL = "phase:kind,phase:kind" of `session`, or "rejected"; SPEC = "sandboxed" when the flag part leaves the
   sandbox flag on (then every phase must be sandboxed), "-" otherwise. *)
let phase_name = function
  | PhCommand -> "command" | PhScript -> "script" | PhReplAfterFailedScript -> "repl-after-failed-script"
  | PhReplAfterScript -> "repl-after-script" | PhRepl -> "repl"
let session_case (toks : ostring) : ostring * ostring =
  let ws = List.filter (fun x -> x <> "") (Stdlib.String.split_on_char ' ' toks) in
  let rec split_last = function [] -> raise (Bad "session") | [x] -> ([], x) | x :: r -> let (a, l) = split_last r in (x :: a, l) in
  let ts, fk = split_last ws in
  let args = List.map arg_of ts in
  let rec flagpart acc = function
    | a :: r when is_flag a -> flagpart (a :: acc) r
    | r -> (List.rev acc, r) in
  let pre, rest = flagpart [] args in
  let spec = (match rest with
    | [] | APlain :: _ | ADashDash :: _ -> if last_sandbox false pre then "sandboxed" else "-"
    | _ -> "-") in
  let m = (match session args (fk = "F") with
    | None -> "rejected"
    | Some phs -> Stdlib.String.concat "," (List.map (fun (ph, k) -> phase_name ph ^ ":" ^ outcome_name k) phs)) in
  (m, spec)

let cfg_of = function "bare" -> Bare | "std" -> Std | "bin" -> Bin | "full" -> Full | s -> raise (Bad ("cfg " ^ s))

let () =
  if Array.length Sys.argv > 1 && Sys.argv.(1) = "impure" then begin
    List.iter (fun c ->
      List.iter (fun ((t, n), f) ->
        Printf.printf "%s\t%s\t%s\t%s\n" (string_of_coq (cfg_name c)) (string_of_coq t) (string_of_coq n) (string_of_coq f))
        (impure_entries c)) [Bare; Std; Bin; Full]
  end else
  iter_lines (fun line ->
    match split_tab line with
    | id :: input :: _ ->
      (try
        let k = find_sub input " :: " in
        let head = String.sub input 0 k in
        if Stdlib.String.length head > 8 && Stdlib.String.sub head 0 8 = "session " then begin
          let m, sp = session_case (Stdlib.String.sub head 8 (Stdlib.String.length head - 8)) in
          Printf.printf "%s\t%s\t%s\n" id m sp
        end else
        if Stdlib.String.length head > 8 && Stdlib.String.sub head 0 8 = "cmdline " then begin
          let m, sp = cmdline_case (Stdlib.String.sub head 8 (Stdlib.String.length head - 8)) in
          Printf.printf "%s\t%s\t%s\n" id m sp
        end else
        let sp = String.index head ' ' in
        let c = cfg_of (String.sub head 0 sp) in
        let abs = String.sub head (sp + 1) (String.length head - sp - 1) in
        let p, rest = parse (tokenize abs) in
        if rest <> [] then raise (Bad "trailing tokens");
        let effs = List.map string_of_coq (predicted_effects c p) in
        let m = if effs = [] then "-" else String.concat "," effs in
        Printf.printf "%s\t%s\t%s\n" id m (if sandboxed c then "-" else "any")
      with Bad msg -> Printf.printf "%s\tBAD:%s\t-\n" id msg)
    | _ -> ())
