(* C09 model runner (parser and printer copied from ocaml/refsem/run.ml).
   stdin lines:  ID <TAB> [fuel=N] [rfuel=N] [failat=K] [noref] FORM FORM ...
   stdout lines: ID <TAB> TCO <TAB> REF <TAB> DEV <TAB> HWM
     TCO = outcome of eval_program_tco strict=false count=true (what the real code does)
     REF = outcome of eval_program_cfg (the reference semantics, no optimisation; "-" with noref)
     DEV = none | shadow | strictdiff: the verdict of the strict run (count=false): shadow = a self tail
           call whose name does not resolve to the running function was reached; strictdiff = the
           strict run finished without that verdict but with another outcome than the TCO run
     HWM = high-water mark of nested activations in the TCO run
   The rest of this comment is that of the RefSem runner.  stdin lines:  ID <TAB> [fuel=N] [failat=K] FORM FORM ...
   stdout lines:  ID <TAB> OUTCOME <TAB> -
   FORM (prefix syntax, one token kind: atoms and parentheses):
     (int Z) (bool t|f) nil (str B1 B2 ..) (q DATUM) (var NAME) (arr E..) (call F A..)
     (begin E..) (cond (C B).. D) (and E..) (or E..) (def NAME E) (set NAME E)
     (let ((NAME E)..) B..) (letseq ((NAME E)..) B..) (scope E..)
     (for LABEL|- INIT TEST STEP B..) (break LABEL|-) (continue LABEL|-)
     (fn (P..) REST|- B..) (defn NAME (P..) REST|- B..)
   DATUM: Z | NAME | (DATUM..)
   NAME: a primitive name (+ - * < > <= >= == != not cons first rest list array aget aset
   append len map apply trace failk) or any other symbol; quoted symbols sa sb sc .. are
   numbered in the order sa < sb < sc (the harness interns them in that order).
   OUTCOME:  V:<value>|T:<trace>   E:<class>|T:<trace>   FUEL   UNSPEC
   <value>: I<z> Bt Bf N S<hex> Y<name> (P <v> <v>) [<v> ..] FN PRIM:<name> #  *)
open Model
open Zutil

type sx = A of string | L of sx list

let tokenize (s : string) : string list =
  let toks = ref [] and buf = Buffer.create 16 in
  let flush () = if Buffer.length buf > 0 then (toks := Buffer.contents buf :: !toks; Buffer.clear buf) in
  String.iter (fun c ->
    match c with
    | '(' | ')' -> flush (); toks := String.make 1 c :: !toks
    | ' ' -> flush ()
    | c -> Buffer.add_char buf c) s;
  flush (); List.rev !toks

let rec parse_sx (toks : string list) : sx * string list =
  match toks with
  | "(" :: r ->
    let rec items acc r =
      (match r with
       | ")" :: r' -> (L (List.rev acc), r')
       | [] -> failwith "unbalanced"
       | _ -> let (x, r') = parse_sx r in items (x :: acc) r') in
    items [] r
  | ")" :: _ -> failwith "unexpected )"
  | t :: r -> (A t, r)
  | [] -> failwith "empty"

let rec parse_all toks = match toks with [] -> [] | _ -> let (x, r) = parse_sx toks in x :: parse_all r

let prim_names = [
  "+", PAdd; "-", PSub; "*", PMul; "<", PLt; ">", PGt; "<=", PLe; ">=", PGe; "==", PEq; "!=", PNe;
  "not", PNot; "cons", PCons; "first", PFirst; "rest", PRest; "list", PList; "array", PArray;
  "aget", PAget; "aset", PAset; "append", PAppend; "len", PLen; "map", PMap; "apply", PApply;
  "trace", PTrace; "failk", PFailK ]

let names : (string, int) Hashtbl.t = Hashtbl.create 64
let rev_names : (int, string) Hashtbl.t = Hashtbl.create 64
let next_id = ref 1000
let () = List.iter (fun s -> Hashtbl.replace names s !next_id; Hashtbl.replace rev_names !next_id s; incr next_id)
    ["sa"; "sb"; "sc"; "sd"; "se"]
let ident_of (s : string) : z =
  match List.assoc_opt s prim_names with
  | Some p -> prim_ident p
  | None ->
    (match Hashtbl.find_opt names s with
     | Some n -> z_of_int n
     | None -> let n = !next_id in incr next_id; Hashtbl.replace names s n; Hashtbl.replace rev_names n s; z_of_int n)
let name_of (i : z) : string =
  let n = int_of_z i in
  match Hashtbl.find_opt rev_names n with Some s -> s | None -> "?" ^ string_of_int n

let is_int_tok s = String.length s > 0 && (let c = s.[0] in (c >= '0' && c <= '9') || (c = '-' && String.length s > 1 && s.[1] >= '0' && s.[1] <= '9'))

let rec datum_of (x : sx) : datum =
  match x with
  | A t -> if is_int_tok t then DInt (z_of_string t) else DSym (ident_of t)
  | L xs -> DList (List.map datum_of xs)

let label_of (x : sx) : z option = match x with A "-" -> None | A t -> Some (ident_of t) | _ -> failwith "label"
let name_atom (x : sx) : z = match x with A t -> ident_of t | _ -> failwith "name expected"

let rec expr_of (x : sx) : expr =
  match x with
  | A "nil" -> ENil
  | L [A "int"; A z] -> EInt (z_of_string z)
  | L [A "bool"; A b] -> EBool (b = "t")
  | L (A "str" :: bs) -> EStr (List.map (function A b -> z_of_string b | _ -> failwith "str") bs)
  | L [A "q"; d] -> EQuote (datum_of d)
  | L [A "var"; A n] -> EVar (ident_of n)
  | L (A "arr" :: es) -> EArr (List.map expr_of es)
  | L (A "call" :: f :: args) -> ECall (expr_of f, List.map expr_of args)
  | L (A "begin" :: es) -> EBegin (List.map expr_of es)
  | L (A "cond" :: rest) ->
    let rec split acc r = (match r with
        | [d] -> (List.rev acc, expr_of d)
        | L [c; b] :: r' -> split ((expr_of c, expr_of b) :: acc) r'
        | _ -> failwith "cond") in
    let (arms, d) = split [] rest in ECond (arms, d)
  | L (A "and" :: es) -> EAnd (List.map expr_of es)
  | L (A "or" :: es) -> EOr (List.map expr_of es)
  | L [A "def"; n; e] -> EDef (name_atom n, expr_of e)
  | L [A "set"; n; e] -> ESet (name_atom n, expr_of e)
  | L (A "let" :: L bs :: body) -> ELet (false, binds_of bs, List.map expr_of body)
  | L (A "letseq" :: L bs :: body) -> ELet (true, binds_of bs, List.map expr_of body)
  | L (A "scope" :: es) -> EScope (List.map expr_of es)
  | L (A "for" :: lbl :: i :: t :: s :: body) -> EFor (label_of lbl, expr_of i, expr_of t, expr_of s, List.map expr_of body)
  | L [A "break"; lbl] -> EBreak (label_of lbl)
  | L [A "continue"; lbl] -> ECont (label_of lbl)
  | L (A "fn" :: L ps :: rest :: body) -> EFn (List.map name_atom ps, label_of rest, List.map expr_of body)
  | L (A "defn" :: n :: L ps :: rest :: body) -> EDefn (name_atom n, List.map name_atom ps, label_of rest, List.map expr_of body)
  | _ -> failwith "bad form"
and binds_of bs = List.map (function L [n; e] -> (name_atom n, expr_of e) | _ -> failwith "binding") bs

let prim_name p = let rec f = function [] -> "?" | (n, q) :: r -> if q = p then n else f r in f prim_names

let hex_of (bs : z list) : string =
  String.concat "" (List.map (fun b -> Printf.sprintf "%02x" (int_of_z b)) bs)

let rec show (v : sval) : string =
  match v with
  | SvInt z -> "I" ^ string_of_z z
  | SvBool true -> "Bt" | SvBool false -> "Bf"
  | SvNil -> "N"
  | SvStr s -> "S" ^ hex_of s
  | SvSym s -> "Y" ^ name_of s
  | SvPair (h, t) -> "(P " ^ show h ^ " " ^ show t ^ ")"
  | SvArr l -> "[" ^ String.concat " " (List.map show l) ^ "]"
  | SvFn -> "FN"
  | SvPrim p -> "PRIM:" ^ prim_name p
  | SvCut -> "#"

let show_trace (t : sval list list) : string =
  String.concat ";" (List.map (fun args -> String.concat "," (List.map show args)) t)

let err_name = function EUnbound -> "unbound" | EUser -> "user" | ELoop -> "loop" | EOther -> "other" | EUnspec -> "unspec"

let show_outcome (o : outcome) : string =
  match o.o_res with
  | Done v -> "V:" ^ show v ^ "|T:" ^ show_trace o.o_trace
  | Sig (SErr EUnspec) -> "UNSPEC"
  | Sig (SErr e) -> "E:" ^ err_name e ^ "|T:" ^ show_trace o.o_trace
  | Sig _ -> "E:loop|T:" ^ show_trace o.o_trace
  | Fuel -> "FUEL"

let big_nat (n : int) : nat = let r = ref O in for _ = 1 to n do r := S !r done; !r

(* ---- family `site` (coq/Model/TailSites.v):  ID <TAB> site path=Q1/Q2/..
   MODEL = J<k>: `jumps_run path ST` (= `jumps tail_sites path ST`, Proofs/TailSitesRunProofs.v), the number of goto 0 the generator emits according to the table
           generated from generator.go;  SPEC = J<k>: `spec_jumps path ST`, from the property's list of
           tail positions *)
let pos_names = [
  "PBodyNonLast", PBodyNonLast; "PBodyLast", PBodyLast; "PBeginNonLast", PBeginNonLast; "PBeginLast", PBeginLast;
  "PAndNonLast", PAndNonLast; "PAndLast", PAndLast; "POrNonLast", POrNonLast; "POrLast", POrLast;
  "PCondTest", PCondTest; "PCondArm", PCondArm; "PCondDefault", PCondDefault;
  "PLetInit", PLetInit; "PLetBodyNonLast", PLetBodyNonLast; "PLetBodyLast", PLetBodyLast;
  "PLetseqInit", PLetseqInit; "PLetseqBodyNonLast", PLetseqBodyNonLast; "PLetseqBodyLast", PLetseqBodyLast;
  "PScopeNonLast", PScopeNonLast; "PScopeLast", PScopeLast; "PPkgNonLast", PPkgNonLast; "PPkgLast", PPkgLast;
  "PDefRhs", PDefRhs; "PSetRhs", PSetRhs; "PMdefRhs", PMdefRhs; "PAssignRhs", PAssignRhs;
  "PDefLhs", PDefLhs; "PSetLhs", PSetLhs; "PAssert", PAssert;
  "PForInit", PForInit; "PForTest", PForTest; "PForStep", PForStep; "PForBodyNonLast", PForBodyNonLast; "PForBodyLast", PForBodyLast;
  "PSqUnquote", PSqUnquote; "PSqUnquoteInList", PSqUnquoteInList; "PSqSpliceInList", PSqSpliceInList;
  "PSqUnquoteInArray", PSqUnquoteInArray; "PArrayElem", PArrayElem; "PInfixNonLast", PInfixNonLast; "PInfixLast", PInfixLast;
  "PCallArg", PCallArg; "PSelfArg", PSelfArg; "PFnBody", PFnBody; "PMacroExpansion", PMacroExpansion;
  "PIncludeLastFile", PIncludeLastFile; "PIncludeNonLastFile", PIncludeNonLastFile ]

let site_line (id : string) (body : string) : unit =
  let p = String.sub body 10 (String.length body - 10) in
  let p = (match String.index_opt p ' ' with Some i -> String.sub p 0 i | None -> p) in
  let path = List.map (fun n -> try List.assoc n pos_names with Not_found -> failwith ("unknown position " ^ n))
      (String.split_on_char '/' p) in
  if List.length pos_names <> List.length all_pos then failwith "pos_names out of date";
  let m = match jumps_run path ST with Some k -> Printf.sprintf "J%d" (int_of_nat k) | None -> "NOSITE" in
  Printf.printf "%s\t%s\tJ%d\t-\t0\n%!" id m (int_of_nat (spec_jumps path ST))

let () =
  iter_lines (fun line ->
    match split_tab line with
    | id :: body :: _ when String.length body > 10 && String.sub body 0 10 = "site path=" ->
      (try site_line id body with Failure m -> Printf.printf "%s\tBADINPUT:%s\t-\t-\t0\n%!" id m)
    | id :: body :: _ ->
      (try
        let fuel = ref 300 and rfuel = ref 0 and failat = ref 0 and noref = ref false in
        let toks = tokenize body in
        let pre p t = String.length t > String.length p && String.sub t 0 (String.length p) = p in
        let num p t = int_of_string (String.sub t (String.length p) (String.length t - String.length p)) in
        let rec opts = function
          | t :: r when pre "fuel=" t -> fuel := num "fuel=" t; opts r
          | t :: r when pre "rfuel=" t -> rfuel := num "rfuel=" t; opts r
          | t :: r when pre "failat=" t -> failat := num "failat=" t; opts r
          | "noref" :: r -> noref := true; opts r
          | t :: r when t <> "(" && t <> ")" && String.contains t '=' && t <> "==" && t <> "!=" && t <> "<=" && t <> ">=" -> opts r
          | r -> r in
        let toks = opts toks in
        if !rfuel = 0 then rfuel := !fuel;
        let forms = List.map expr_of (parse_all toks) in
        let fa = big_nat !failat in
        let ((o, _), h) = eval_program_tco false true (big_nat !fuel) fa forms in
        let ((os, sh), _) = eval_program_tco true false (big_nat !fuel) fa forms in
        let tco = show_outcome o in
        let dev = if sh then "shadow" else if show_outcome os = tco then "none" else "strictdiff" in
        let rf = if !noref then "-" else show_outcome (eval_program_cfg (big_nat !rfuel) fa forms) in
        Printf.printf "%s\t%s\t%s\t%s\t%d\n%!" id tco rf dev (int_of_nat h)
      with Failure m -> Printf.printf "%s\tBADINPUT:%s\t-\t-\t0\n%!" id m)
    | _ -> failwith ("bad line: " ^ line))
