(* C10 model runner.
   input lines "ID<TAB>INPUT":
     types N {struct goName reg|- nfields {name tag|- emb ty}} NI {iface name k impl..}    (sets the type table)
     togo <Target> <record>   |  echo <Target> <record>  |  mix <Target> <record>
     paths <Target>           (field table: DetOrder and key map)   |  slot <ty> <value>  (bare value into a bare slot; MODEL carries ' ^verdict')
   record/value grammar (prefix, space separated):
     I<z> F<bits> S<hex> Q<hex> B0|B1 Y<hex> T<z> Z U<z> C<z> | A n v.. | R id typename n {key v} | H id n {key v} | X<id>
   type grammar: i(int64) j(int) f s b y t L<ty> P:<struct> V:<struct> N:<iface> M<ty> ?
   output "ID<TAB>MODEL<TAB>SPEC|tags":  MODEL = what the model of the code computes, SPEC = what the
   specification demands ("-" when silent); tags name the modelled defect(s) that explain MODEL <> SPEC. *)
open Model
open Zutil

let str_of_string (s : string) : str = List.init (String.length s) (fun i -> z_of_int (Char.code s.[i]))
let string_of_str (s : str) : string = String.concat "" (List.map (fun c -> String.make 1 (Char.chr ((int_of_z c) land 255))) s)
let hex_of_str (s : str) : string = String.concat "" (List.map (fun c -> Printf.sprintf "%02x" ((int_of_z c) land 255)) s)
let str_of_hex (h : string) : str =
  List.init (String.length h / 2) (fun i -> z_of_int (int_of_string ("0x" ^ String.sub h (2 * i) 2)))

(* record keys: a plain token is a symbol key; "$name" a string key (resolves like a symbol); "#..." a key that is
   neither (int, char, array ..): encoded with a leading 0 byte (GoConv.nonname_key) *)
let str_of_key (t : string) : str =
  if String.length t > 0 && t.[0] = '#' then Z0 :: str_of_string (String.sub t 1 (String.length t - 1))
  else if String.length t > 0 && t.[0] = '$' then str_of_string (String.sub t 1 (String.length t - 1))
  else str_of_string t

let rec parse_ty (s : string) : gotype =
  let rest () = String.sub s 1 (String.length s - 1) in
  let after () = String.sub s 2 (String.length s - 2) in
  match s.[0] with
  | 'i' -> TInt | 'j' -> TGoInt | 'f' -> TFloat | 's' -> TString | 'b' -> TBool | 'y' -> TBytes | 't' -> TTime
  | 'L' -> TSlice (parse_ty (rest ()))
  | 'M' -> TMap (parse_ty (rest ()))
  | 'P' -> TPtr (str_of_string (after ()))
  | 'V' -> TStruct (str_of_string (after ()))
  | 'N' -> TIface (str_of_string (after ()))
  | _ -> TUnsupported

let cur_te : tenv ref = ref { t_structs = []; t_ifaces = [] }
let fuel = nat_of_int 64

let parse_types (toks : string list) : tenv =
  let toks = ref toks in
  let next () = match !toks with t :: r -> toks := r; t | [] -> failwith "types: short" in
  let n = int_of_string (next ()) in
  let structs = List.init n (fun _ ->
    let kw = next () in if kw <> "struct" then failwith "types: struct expected";
    let gn = next () in let reg = next () in let nf = int_of_string (next ()) in
    let fields = List.init nf (fun _ ->
      let name = next () in let tag = next () in let emb = next () in let ty = next () in
      { f_name = str_of_string name; f_tag = (if tag = "-" then None else Some (str_of_string tag));
        f_emb = (emb = "1"); f_type = parse_ty ty }) in
    { s_name = str_of_string gn; s_reg = (if reg = "-" then None else Some (str_of_string reg)); s_fields = fields }) in
  let ni = int_of_string (next ()) in
  let ifaces = List.init ni (fun _ ->
    let kw = next () in if kw <> "iface" then failwith "types: iface expected";
    let name = next () in let k = int_of_string (next ()) in
    let impls = List.init k (fun _ -> str_of_string (next ())) in
    (str_of_string name, impls)) in
  { t_structs = structs; t_ifaces = ifaces }

(* values; X<id> expands to the first definition of that record *)
let parse_value_with (defs : (string, sx) Hashtbl.t) (toks : string list) : sx * string list =
  let toks = ref toks in
  let next () = match !toks with t :: r -> toks := r; t | [] -> failwith "value: short" in
  let rec value () : sx =
    let t = next () in
    let body () = String.sub t 1 (String.length t - 1) in
    match t with
    | "Z" -> SNil
    | "A" -> let n = int_of_string (next ()) in SArr (List.init n (fun _ -> value ()))
    | "R" ->
      let id = next () in let tn = next () in let n = int_of_string (next ()) in
      let fs = List.init n (fun _ -> let k = next () in let v = value () in (str_of_key k, v)) in
      let r = SRec (z_of_string id, str_of_string tn, fs) in Hashtbl.replace defs id r; r
    | "H" ->
      let id = next () in let n = int_of_string (next ()) in
      let fs = List.init n (fun _ -> let k = next () in let v = value () in (str_of_key k, v)) in
      let r = SHash (z_of_string id, fs) in Hashtbl.replace defs id r; r
    | _ ->
      (match t.[0] with
       | 'I' -> SInt (z_of_string (body ()))
       | 'F' -> SFloat (z_of_string (body ()))
       | 'S' -> SStr (str_of_hex (body ()))
       | 'Q' -> SSym (str_of_hex (body ()))
       | 'B' -> SBool (body () = "1")
       | 'Y' -> SRaw (str_of_hex (body ()))
       | 'T' -> STime (z_of_string (body ()))
       | 'U' -> SUint (z_of_string (body ()))
       | 'C' -> SChar (z_of_string (body ()))
       | 'X' -> (try Hashtbl.find defs (body ()) with Not_found -> failwith "value: dangling X")
       | _ -> failwith ("value: bad token " ^ t)) in
  let v = value () in (v, !toks)

let parse_value (toks : string list) : sx * string list = parse_value_with (Hashtbl.create 16) toks

(* ---- histories: the current record tree, looked up and updated by record identity ---- *)
let rec find_rec (id : z) (v : sx) : sx option =
  let first l = List.fold_left (fun acc x -> match acc with Some _ -> acc | None -> find_rec id x) None l in
  match v with
  | SRec (i, _, fs) -> if i = id then Some v else first (List.map snd fs)
  | SHash (_, fs) -> first (List.map snd fs)
  | SArr l -> first l
  | _ -> None

(* (hset r key v) on the record with identity id: every occurrence of that record in the tree is the same object *)
let rec set_rec (id : z) (k : str) (nv : sx) (v : sx) : sx =
  match v with
  | SRec (i, tn, fs) ->
    let fs = List.map (fun (k0, x) -> (k0, set_rec id k nv x)) fs in
    if i = id then SRec (i, tn, hash_set k nv fs) else SRec (i, tn, fs)
  | SHash (i, fs) -> SHash (i, List.map (fun (k0, x) -> (k0, set_rec id k nv x)) fs)
  | SArr l -> SArr (List.map (set_rec id k nv) l)
  | x -> x

(* ---- rendering ------------------------------------------------------------------ *)

let render_go (heap : goval list) (v : goval) : string =
  let seen : (int, int) Hashtbl.t = Hashtbl.create 16 in
  let harr = Array.of_list heap in
  let rec go v = match v with
    | GInt z -> "I" ^ string_of_z z
    | GFloat b -> "F" ^ string_of_z b
    | GStr s -> "S" ^ hex_of_str s
    | GBool b -> if b then "B1" else "B0"
    | GBytes b -> "Y" ^ hex_of_str b
    | GTime None -> "Tz"
    | GTime (Some n) -> "T" ^ string_of_z n
    | GSlice l -> "L[" ^ String.concat "," (List.map go l) ^ "]"
    | GPtr None -> "Pn"
    | GPtr (Some loc) -> ptr (int_of_nat loc)
    | GStruct (s, fs) -> "{" ^ string_of_str s ^ " " ^ String.concat " " (List.map go fs) ^ "}"
    | GIface None -> "Nn"
    | GIface (Some (_, loc)) -> "N" ^ ptr (int_of_nat loc)
    | GMap l ->
      let l = List.sort (fun (a, _) (b, _) -> compare a b) (List.map (fun (k, v) -> (hex_of_str k, v)) l) in
      "M[" ^ String.concat "," (List.map (fun (k, v) -> k ^ "=" ^ go v) l) ^ "]"
    | GUnsupported -> "?"
  and ptr loc =
    match Hashtbl.find_opt seen loc with
    | Some k -> Printf.sprintf "P#%d" k
    | None ->
      let k = Hashtbl.length seen in
      Hashtbl.replace seen loc k;
      Printf.sprintf "P#%d=%s" k (if loc < Array.length harr then go harr.(loc) else "?dangling") in
  go v

let render_d (v : dval) : string =
  let seen : (string, int) Hashtbl.t = Hashtbl.create 16 in
  let rec go v = match v with
    | DInt z -> "I" ^ string_of_z z
    | DFloat b -> "F" ^ string_of_z b
    | DStr s -> "S" ^ hex_of_str s
    | DBool b -> if b then "B1" else "B0"
    | DBytes b -> "Y" ^ hex_of_str b
    | DTime None -> "Tz"
    | DTime (Some n) -> "T" ^ string_of_z n
    | DSlice l -> "L[" ^ String.concat "," (List.map go l) ^ "]"
    | DNilPtr -> "Pn"
    | DPtr (id, x) ->
      let id = string_of_z id in
      (match Hashtbl.find_opt seen id with
       | Some k -> Printf.sprintf "P#%d" k
       | None -> let k = Hashtbl.length seen in Hashtbl.replace seen id k; Printf.sprintf "P#%d=%s" k (go x))
    | DStruct (s, fs) -> "{" ^ string_of_str s ^ " " ^ String.concat " " (List.map go fs) ^ "}"
    | DNilIface -> "Nn"
    | DIface x -> "N" ^ go x
    | DMap l ->
      let l = List.sort (fun (a, _) (b, _) -> compare a b) (List.map (fun (k, v) -> (hex_of_str k, v)) l) in
      "M[" ^ String.concat "," (List.map (fun (k, v) -> k ^ "=" ^ go v) l) ^ "]"
    | DUnsupported -> "?" in
  go v

let canon_tn (tn : str) : string =
  match find_reg !cur_te tn with Some d -> string_of_str d.s_name | None -> string_of_str tn

let rec render_sx (v : sx) : string =
  match v with
  | SInt z -> "I" ^ string_of_z z
  | SFloat b -> "F" ^ string_of_z b
  | SStr s -> "S" ^ hex_of_str s
  | SSym s -> "Q" ^ hex_of_str s
  | SBool b -> if b then "B1" else "B0"
  | SRaw b -> "Y" ^ hex_of_str b
  | STime n -> if string_of_z n = "-1" then "Tz" else "T" ^ string_of_z n
  | SNil -> "Z"
  | SUint z -> "U" ^ string_of_z z
  | SChar z -> "C" ^ string_of_z z
  | SArr l -> "A[" ^ String.concat "," (List.map render_sx l) ^ "]"
  | SRec (_, tn, fs) -> "R" ^ canon_tn tn ^ "{" ^ String.concat "," (List.map (fun (k, v) -> string_of_str k ^ "=" ^ render_sx v) fs) ^ "}"
  | SHash (_, fs) -> "Rhash{" ^ String.concat "," (List.map (fun (k, v) -> string_of_str k ^ "=" ^ render_sx v) fs) ^ "}"

(* ---- which modelled defect explains a difference between specification and model ---- *)

let add tags t = if not (List.mem t !tags) then tags := t :: !tags

(* keys of the entries that sit below an embedded struct (path longer than 1) *)
let nested_keys (tn : str) : string list =
  match find_reg !cur_te tn with
  | None -> []
  | Some d -> List.filter_map (fun (k, (p, _)) -> if List.length p > 1 then Some (string_of_str k) else None)
                (spec_dets fuel !cur_te d.s_name [])

let rec diff_sx tags (spec : sx) (model : sx) : unit =
  if render_sx spec = render_sx model then ()
  else match spec, model with
    | STime _, SNil -> add tags "echo-time-nil"
    | (SArr _ | SHash _), SNil -> add tags "echo-nokind-nil"
    | SRec (_, tn1, f1), SRec (_, tn2, f2) when canon_tn tn1 = canon_tn tn2 && List.map fst f1 = List.map fst f2 ->
      let nk = nested_keys tn1 in
      List.iter2 (fun (k, a) (_, b) ->
          if List.mem (string_of_str k) nk then (if render_sx a <> render_sx b then add tags "echo-embed-misread")
          else diff_sx tags a b) f1 f2
    | SRec _, SNil -> add tags "echo-nokind-nil"     (* struct-valued field *)
    | _, _ -> add tags "other"

let tag_of_cause c = match string_of_z c with
  | "3" -> "togo-uint-dropped" | "4" -> "togo-float-truncated" | "5" -> "togo-toptype-unchecked" | _ -> "other"

let show_tags tags = if !tags = [] then "" else "|" ^ String.concat "," (List.sort compare !tags)

let reverse_top (r : sx) : sx = match r with SRec (id, tn, fs) -> SRec (id, tn, List.rev fs) | x -> x

let () =
  iter_lines (fun line ->
    match split_tab line with
    | [id; body] ->
      (match split_sp body with
       | "types" :: rest ->
         cur_te := parse_types rest;
         let ok = wf_tenv fuel !cur_te in
         Printf.printf "%s\t%s\t%s\n" id (if ok then "ok" else "not-wf") (if ok then "ok" else "not-wf")
       | "hist" :: _ :: rest ->
         (* hist <RootTarget> <root record> {G id | P id | M id | E id npath p.. newid | S id key value}: (togo r) / pass r to a Go method /
            call a Go method ON r (implicit conversion when nothing is attached) / (hset r key v) *)
         let te = !cur_te in
         let defs = Hashtbl.create 16 in
         let (root, rest) = parse_value_with defs rest in
         let cur = ref (SArr [root]) and heap = ref [] and sh = ref [] in
         let mouts = ref [] and souts = ref [] in
         (* specification side: records that (per the specification) have a Go object attached by an earlier
            successful conversion; a method call on such a receiver does not convert again: silent step "~" *)
         (* attached: identity -> the record tree as it was when a Go object was last attached to it.  A method call on
            a receiver with an attached object converts nothing; the specification speaks there only when the record
            is unchanged since (its Go object must still hold exactly its values), otherwise it is silent "~" *)
         let attached : (z, sx) Hashtbl.t = Hashtbl.create 16 in
         let rec mark top v = match v with
           | SRec (i, _, fs) -> if top then Hashtbl.replace attached i v; List.iter (fun (_, x) -> mark true x) fs
           | SHash (_, fs) -> List.iter (fun (_, x) -> mark true x) fs
           | SArr l -> List.iter (mark true) l
           | _ -> () in
         let rec steps toks = match toks with
           | [] -> ()
           | ("G" | "P" | "M" as o) :: id :: more ->
             let idz = z_of_string id in
             (match find_rec idz !cur with
              | Some (SRec (_, tn, _) as r) ->
                let tname = (match find_reg te tn with Some d -> d.s_name | None -> tn) in
                (match (if o = "M" then hist_receiver fuel te tname idz r !heap !sh
                        else hist_convert fuel te (o = "G") tname idz r !heap !sh) with
                 | Ok (v, (h', sh')) -> heap := h'; sh := sh'; mouts := ("OK " ^ render_go h' v) :: !mouts
                 | Err | Crash _ -> mouts := "ERR" :: !mouts
                 | OutOfFuel -> mouts := "FUEL" :: !mouts
                 | OutOfModel -> mouts := "OOM" :: !mouts);
                souts := (if o = "M" && Hashtbl.mem attached idz && Hashtbl.find attached idz <> r then "~"
                          else match spec_to_go fuel te tname r with
                            | SOk v -> mark (o <> "P") r; "OK " ^ render_d v
                            | SErr _ -> "ERR" | SSilent -> "-" | SFuel -> "FUEL") :: !souts
              | _ -> mouts := "ERR" :: !mouts; souts := "~" :: !souts);
             steps more
           | "E" :: id :: np :: more ->
             (* a method on record id returns the pointer at path (field indices; empty = the receiver): a NEW record *)
             let idz = z_of_string id in
             let np = int_of_string np in
             let path = List.map (fun t -> nat_of_int (int_of_string t)) (List.filteri (fun i _ -> i < np) more) in
             let more = List.filteri (fun i _ -> i >= np) more in
             let (newid, more) = (match more with n :: m -> (int_of_string n, m) | [] -> failwith "hist: E short") in
             (match find_rec idz !cur with
              | Some (SRec (_, tn, _) as r) ->
                let tname = (match find_reg te tn with Some d -> d.s_name | None -> tn) in
                if not (Hashtbl.mem attached idz) then
                  (match spec_to_go fuel te tname r with SOk _ -> mark true r | _ -> ());
                (match hist_return fuel te tname idz r path !heap !sh with
                 | Ok (x, (h', sh')) ->
                   heap := h'; sh := sh';
                   let ctr = ref (newid - 1) in
                   let rec relabel v = match v with
                     | SRec (_, tn0, fs) -> incr ctr; let i = !ctr in SRec (z_of_int i, tn0, List.map (fun (k, y) -> (k, relabel y)) fs)
                     | SHash (_, fs) -> incr ctr; let i = !ctr in SHash (z_of_int i, List.map (fun (k, y) -> (k, relabel y)) fs)
                     | SArr l -> SArr (List.map relabel l)
                     | y -> y in
                   let x = relabel x in
                   (match !cur with SArr l -> cur := SArr (l @ [x]) | _ -> ());
                   mouts := ("OK " ^ render_sx x) :: !mouts
                 | Err | Crash _ -> mouts := "ERR" :: !mouts
                 | OutOfFuel -> mouts := "FUEL" :: !mouts
                 | OutOfModel -> mouts := "OOM" :: !mouts);
                souts := "~" :: !souts
              | _ -> mouts := "ERR" :: !mouts; souts := "~" :: !souts);
             steps more
           | "S" :: id :: key :: more ->
             let (v, more) = parse_value_with defs more in
             cur := set_rec (z_of_string id) (str_of_key key) v !cur;
             steps more
           | t :: _ -> failwith ("hist: bad step " ^ t) in
         steps rest;
         let ms = String.concat ";" (List.rev !mouts) and ss = String.concat ";" (List.rev !souts) in
         let ms = if List.mem "OOM" !mouts || List.mem "FUEL" !mouts then "OOM" else ms in
         let ss = if List.mem "-" !souts then "-" else ss in
         let differs = List.exists2 (fun m s0 -> s0 <> "~" && m <> s0) !mouts !souts in
         Printf.printf "%s\t%s\t%s%s\n" id ms ss (if differs && ms <> "OOM" && ss <> "-" then "|other" else "")
       | ["paths"; target] ->
         (* the field table of a struct type: D = entries in DetOrder (key=path), M = the map key -> path.
            model: GoConv.jsonmap / lookup_last (hashutils.go:fillJsonMap); specification: the independent flattening
            spec_dets and Go's selector rule spec_find *)
         let te = !cur_te in
         let t = str_of_string target in
         let path p = String.concat "." (List.map (fun n -> string_of_int (int_of_nat n)) p) in
         let jm = jsonmap fuel te t [] in
         let keys l = List.sort_uniq compare (List.map string_of_str l) in
         let md = String.concat "," (List.map (fun (k, p) -> string_of_str k ^ "=" ^ path p) jm) in
         let mm = String.concat "," (List.map (fun k -> k ^ "=" ^ (match lookup_last (str_of_string k) jm with Some p -> path p | None -> "?"))
                                       (keys (List.map fst jm))) in
         let sd0 = spec_dets fuel te t [] in
         let sd = String.concat "," (List.map (fun (k, (p, _)) -> string_of_str k ^ "=" ^ path p) sd0) in
         let sm = String.concat "," (List.map (fun k -> k ^ "=" ^ (match spec_find fuel te t (str_of_string k) with Some p -> path p | None -> "?"))
                                       (keys (List.map fst sd0))) in
         Printf.printf "%s\tD:%s;M:%s\tD:%s;M:%s\n" id md mm sd sm
       | "slot" :: ty :: rest ->
         (* a bare value converted into a bare slot of type ty (SexpToGoStructs(v, new(T), env, nil, 1, _)): model conv,
            specification denote, and the verdict of the proved (value kind x slot kind) table *)
         let te = !cur_te in
         let (v, _) = parse_value rest in
         let gty = parse_ty ty in
         let tags = ref [] in
         let m = (match zero_of fuel te gty with
                  | None -> OutOfModel
                  | Some z -> conv fuel te false gty z v empty_state) in
         let ms = (match m with
                   | Ok (x, st) -> "OK " ^ render_go st.heap x
                   | Err | Crash _ -> "ERR" | OutOfFuel -> "FUEL" | OutOfModel -> "OOM") in
         let verdict = (match kind_table (skind_of v) (tkind_of gty) with
                        | VAccept -> "accept" | VReject -> "reject" | VKeeps -> "keeps" | VZero -> "zero"
                        | VDepends -> "depends" | VSilent -> "silent") in
         let s = denote fuel te gty v in
         let ss = (match s with SOk d -> "OK " ^ render_d d | SErr _ -> "ERR" | SSilent -> "-" | SFuel -> "FUEL") in
         (match s, m with
          | SErr c, (Ok _ | OutOfModel) -> add tags (tag_of_cause c)
          | SOk _, (Err | Crash _) -> add tags "other"
          | SOk _, Ok _ -> if ms <> ss then add tags "other"
          | _ -> ());
         Printf.printf "%s\t%s ^%s\t%s%s\n" id ms verdict ss (show_tags tags)
       | op :: target :: rest ->
         let (r, _) = parse_value rest in
         let t = str_of_string target in
         let te = !cur_te in
         let tags = ref [] in
         let show_model_go = function
           | Ok (v, st) -> "OK " ^ render_go st.heap v
           | Err | Crash _ -> "ERR" | OutOfFuel -> "FUEL" | OutOfModel -> "OOM" in
         (match op with
          | "togo" ->
            let m = to_go fuel te t r in
            let s = spec_to_go fuel te t r in
            let ms = show_model_go m in
            let ss = (match s with SOk v -> "OK " ^ render_d v | SErr _ -> "ERR" | SSilent -> "-" | SFuel -> "FUEL") in
            (match s, m with
             | SErr c, (Ok _ | OutOfModel) -> add tags (tag_of_cause c)
             | SOk _, (Err | Crash _) -> add tags "other"
             | SOk _, Ok _ -> if ms <> ss then add tags "other"
             | _ -> ());
            Printf.printf "%s\t%s\t%s%s\n" id ms ss (show_tags tags)
          | "mix" ->
            let o1 = show_model_go (to_go fuel te t r) in
            let o2 = show_model_go (to_go fuel te t (reverse_top r)) in
            let ms =
              if o1 = o2 then "ALL " ^ o1
              else if o1 = "ERR" then "SOME-ERR " ^ o2
              else if o2 = "ERR" then "SOME-ERR " ^ o1
              else "UNSTABLE" in
            let s = spec_to_go fuel te t r in
            let ss = (match s with SOk v -> "ALL OK " ^ render_d v | SErr _ -> "ALL ERR" | SSilent -> "-" | SFuel -> "FUEL") in
            if ms <> ss then add tags (if String.length ms > 8 && String.sub ms 0 8 = "SOME-ERR" then "togo-share-ptr-iface-order" else "other");
            Printf.printf "%s\t%s\t%s%s\n" id ms ss (show_tags tags)
          | "echo" ->
            let m = echo fuel te t r in
            let s = spec_echo fuel te t r in
            let ms = (match m with Ok v -> "OK " ^ render_sx v | Err | Crash _ -> "ERR" | OutOfFuel -> "FUEL" | OutOfModel -> "OOM") in
            let ss = (match s with SOk v -> "OK " ^ render_sx v | SErr _ -> "ERR" | SSilent -> "-" | SFuel -> "FUEL") in
            (match s, m with
             | SErr c, (Ok _ | OutOfModel) -> add tags (tag_of_cause c)
             | SOk _, Crash c ->
               add tags (match string_of_z c with "1" | "2" -> "echo-nil-pointer-crash" | "3" -> "echo-embed-misread" | _ -> "other")
             | SOk _, Err -> add tags "other"
             | SOk sv, Ok mv -> diff_sx tags sv mv
             | _ -> ());
            Printf.printf "%s\t%s\t%s%s\n" id ms ss (show_tags tags)
          | _ -> failwith ("bad op " ^ op))
       | _ -> failwith ("bad case: " ^ body))
    | _ -> failwith ("bad line: " ^ line))
