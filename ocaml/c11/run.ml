(* C11 model runner.  Input lines "ID<TAB>V <value>", "ID<TAB>W <k> <i> <seed> <value>*k" (the i-th value
   of an interleaved history) or "ID<TAB>Q <cps> [<hex>]" (grammar in
   harness/cmd/c11/value.go); output "ID<TAB>MODEL<TAB>SPEC":
     V: MODEL json=<hex of to_json v>;parse=<tree read by json_parse | ERR>;unjson=<of_tree of it>
        SPEC  tree=<tree_of v, numbers by value>;back=<norm v>;flags=<wf,data,reserved,strkeys,dupnames>
        MODEL also mp=<hex of mp_bytes of the Go tree>;unmp=<unmsgpack_bytes of it>;ungo=<unjson_go>, SPEC gtree=<gtree_of v>
     M <hex>: MODEL mptree=<Go tree read from the bytes by mp_decode | ERR>  (second pass, bytes of the real (msgpack v))
     Q: MODEL q=<hex of json_quote s>   SPEC <S cps of fix_str s, checked to be what pstr reads back> *)
open Model
open Zutil

let hex_of_bytes (l : z list) : string =
  let b = Buffer.create 64 in
  List.iter (fun c -> Buffer.add_string b (Printf.sprintf "%02x" (int_of_z c))) l;
  Buffer.contents b

let bytes_of_hex (s : string) : z list =
  let n = String.length s / 2 in
  List.init n (fun i -> z_of_int (int_of_string ("0x" ^ String.sub s (2 * i) 2)))

let cps_of_string (s : string) : z list =
  if s = "" then [] else
  List.map (fun p -> if p = "!" then z_of_int (-1) else z_of_int (int_of_string ("0x" ^ p)))
    (String.split_on_char ',' s)

let string_of_cps (l : z list) : string =
  String.concat "," (List.map (fun c -> let n = int_of_z c in if n < 0 then "!" else Printf.sprintf "%x" n) l)

(* the float oracle of this case: (sci, bits) -> printed token *)
let ftab : ((bool * string) * z list) list ref = ref []
let fmt (sci : bool) (bits : z) : z list =
  try List.assoc (sci, string_of_z bits) !ftab with Not_found -> []
let pf (tok : z list) : z =
  let rec find = function
    | [] -> z_of_int (-1)
    | ((sci, b), _) :: r -> if float_token fmt sci (z_of_string b) = tok then z_of_string b else find r in
  find !ftab

let body t = String.sub t 1 (String.length t - 1)

let rec parse_value (toks : string list) : value * string list =
  match toks with
  | [] -> failwith "truncated"
  | t :: rest ->
    (match t.[0] with
     | 'N' -> (VNil, rest)
     | 'T' -> (VBool true, rest)
     | 'F' -> (VBool false, rest)
     | 'I' -> (VInt (z_of_string (body t)), rest)
     | 'D' ->
       (match String.split_on_char ':' (body t) with
        | [s; bits; tok; toke] ->
          let sci = (s = "1") in
          ftab := ((sci, bits), bytes_of_hex tok) :: ((true, bits), bytes_of_hex toke) :: !ftab;
          (VFloat (sci, z_of_string bits), rest)
        | _ -> failwith "bad float")
     | 'S' -> (VStr (false, cps_of_string (body t)), rest)
     | 'R' -> (VStr (true, cps_of_string (body t)), rest)
     | 'A' ->
       let n = int_of_string (body t) in
       let rec go k toks acc = if k = 0 then (List.rev acc, toks) else
           let (v, r) = parse_value toks in go (k - 1) r (v :: acc) in
       let (l, r) = go n rest [] in (VArr l, r)
     | 'H' ->
       let tn = cps_of_string (body t) in
       (match rest with
        | nt :: rest ->
          let n = int_of_string nt in
          let rec go k toks acc = if k = 0 then (List.rev acc, toks) else
              (match toks with
               | kt :: r ->
                 let key = if kt.[0] = 'q' then KStr (cps_of_string (body kt)) else KSym (cps_of_string (body kt)) in
                 let (v, r2) = parse_value r in go (k - 1) r2 ((key, v) :: acc)
               | [] -> failwith "truncated hash") in
          let (fs, r) = go n rest [] in (VHash (tn, fs), r)
        | [] -> failwith "bad hash")
     | _ -> failwith ("bad token " ^ t))

let rec show_value (b : Buffer.t) (v : value) : unit =
  match v with
  | VNil -> Buffer.add_string b "N"
  | VBool true -> Buffer.add_string b "T"
  | VBool false -> Buffer.add_string b "F"
  | VInt z -> Buffer.add_string b ("I" ^ string_of_z z)
  | VFloat (_, bits) -> Buffer.add_string b ("D" ^ string_of_z bits)
  | VStr (raw, s) -> Buffer.add_string b ((if raw then "R" else "S") ^ string_of_cps s)
  | VArr l -> Buffer.add_string b (Printf.sprintf "A%d" (List.length l));
    List.iter (fun x -> Buffer.add_char b ' '; show_value b x) l
  | VHash (tn, fs) -> Buffer.add_string b (Printf.sprintf "H%s %d" (string_of_cps tn) (List.length fs));
    List.iter (fun (k, x) ->
        (match k with
         | KSym t -> Buffer.add_string b (" k" ^ string_of_cps t ^ " ")
         | KStr t -> Buffer.add_string b (" q" ^ string_of_cps t ^ " "));
        show_value b x) fs

let rec show_tree (b : Buffer.t) (t : jtree) : unit =
  match t with
  | JNull -> Buffer.add_string b "N"
  | JBool true -> Buffer.add_string b "T"
  | JBool false -> Buffer.add_string b "F"
  | JNum tok -> Buffer.add_string b ("#" ^ hex_of_bytes tok)
  | JStr s -> Buffer.add_string b ("S" ^ string_of_cps s)
  | JArr l -> Buffer.add_string b (Printf.sprintf "A%d" (List.length l));
    List.iter (fun x -> Buffer.add_char b ' '; show_tree b x) l
  | JObj ms -> Buffer.add_string b (Printf.sprintf "O%d" (List.length ms));
    List.iter (fun (k, x) -> Buffer.add_string b (" S" ^ string_of_cps k ^ " "); show_tree b x) ms

let show_outcome = function
  | Ok v -> let b = Buffer.create 64 in show_value b v; Buffer.contents b
  | Crash -> "CRASH"
  | Corrupt -> "CORRUPT"

let tree_string t = let b = Buffer.create 64 in show_tree b t; Buffer.contents b

(* the same with numbers by value: I<integer> for a token of digits (int_token, from Coq),
   D<bits> for any other token (the float of this case that prints as that token) *)
let rec show_tree_val (b : Buffer.t) (t : jtree) : unit =
  match t with
  | JNum tok ->
    (match int_token tok with
     | Some z -> Buffer.add_string b ("I" ^ string_of_z z)
     | None -> Buffer.add_string b ("D" ^ string_of_z (pf tok)))
  | JArr l -> Buffer.add_string b (Printf.sprintf "A%d" (List.length l));
    List.iter (fun x -> Buffer.add_char b ' '; show_tree_val b x) l
  | JObj ms -> Buffer.add_string b (Printf.sprintf "O%d" (List.length ms));
    List.iter (fun (k, x) -> Buffer.add_string b (" S" ^ string_of_cps k ^ " "); show_tree_val b x) ms
  | _ -> show_tree b t
let tree_val_string t = let b = Buffer.create 64 in show_tree_val b t; Buffer.contents b

(* some object of the value's JSON has two members of the same name *)
let rec dup_names (v : value) : bool =
  match v with
  | VArr l -> List.exists dup_names l
  | VHash (_, fs) ->
    let names = List.map (fun (k, _) -> fix_str (match k with KSym t -> t | KStr t -> t)) fs in
    let names = if fs = [] then names else s_Atype :: s_zKeyOrder :: names in
    let rec dup = function [] -> false | x :: r -> List.exists (fun y -> str_eqb x y) r || dup r in
    dup names || List.exists (fun (_, x) -> dup_names x) fs
  | _ -> false

(* Go trees (interface{}): N T F I<integer> D<bits> S<cps> A<n> item*n M<n> (S<key> item)*n *)
let rec show_gtree (b : Buffer.t) (g : gtree) : unit =
  match g with
  | GNil -> Buffer.add_string b "N"
  | GBool true -> Buffer.add_string b "T"
  | GBool false -> Buffer.add_string b "F"
  | GInt z -> Buffer.add_string b ("I" ^ string_of_z z)
  | GFloat bits -> Buffer.add_string b ("D" ^ string_of_z bits)
  | GStr s -> Buffer.add_string b ("S" ^ string_of_cps s)
  | GArr l -> Buffer.add_string b (Printf.sprintf "A%d" (List.length l));
    List.iter (fun x -> Buffer.add_char b ' '; show_gtree b x) l
  | GMap ms -> Buffer.add_string b (Printf.sprintf "M%d" (List.length ms));
    List.iter (fun (k, x) -> Buffer.add_string b (" S" ^ string_of_cps k ^ " "); show_gtree b x) ms
let gtree_string = function
  | Some g -> let b = Buffer.create 64 in show_gtree b g; Buffer.contents b
  | None -> "ERR"

let parse_key (t : string) : key =
  if t.[0] = 'q' then KStr (cps_of_string (body t)) else KSym (cps_of_string (body t))

(* op := P<n> step*n ( s key value | d key | a<idx> value );  step := k<cps> | q<cps> | i<idx> *)
let rec parse_ops (toks : string list) : mop list =
  match List.filter (fun s -> s <> "") toks with
  | [] -> []
  | hd :: rest when hd.[0] = 'P' ->
    let n = int_of_string (body hd) in
    let rec steps k toks acc = if k = 0 then (List.rev acc, toks) else
        (match toks with
         | st :: r -> let s = if st.[0] = 'i' then PIdx (nat_of_int (int_of_string (body st))) else PKey (parse_key st) in
           steps (k - 1) r (s :: acc)
         | [] -> failwith "truncated path") in
    let (path, r1) = steps n rest [] in
    (match r1 with
     | "s" :: kt :: r2 -> let (v, r3) = parse_value r2 in MSet (path, parse_key kt, v) :: parse_ops r3
     | "d" :: kt :: r2 -> MDel (path, parse_key kt) :: parse_ops r2
     | a :: r2 when a.[0] = 'a' -> let (v, r3) = parse_value r2 in
       MASet (path, nat_of_int (int_of_string (body a)), v) :: parse_ops r3
     | _ -> failwith "bad op")
  | t :: _ -> failwith ("bad op header " ^ t)

let value_case (id : string) (v : value) : unit =
  let js = to_json fmt v in
  let parsed = json_parse js in
  let pstr_s = (match parsed with Some t -> tree_string t | None -> "ERR") in
  (* unjson pf js = of_tree pf of the parsed tree (Model.Json.unjson), computed from the one parse *)
  let un = show_outcome (match parsed with Some t -> of_tree pf t | None -> Crash) in
  let flags = String.concat "," (List.filter (fun s -> s <> "") [
      (if wf fmt v then "wf" else "");
      (if data fmt v then "data" else "");
      (if no_reserved_keys v then "" else "reserved");
      (if sym_keys v then "" else "strkeys");
      (if dup_names v then "dupnames" else "")]) in
  (* the msgpack route, byte for byte: SexpToMsgpack = to_json, JsonToGo, GoToMsgpack; MsgpackToGo, GoToSexp *)
  (* msgpack_bytes / unjson_go of Model.Msgpack, composed here from the one parse *)
  let gt = (match parsed with Some t -> go_of_tree pf t | None -> None) in
  let mp = (match gt with Some g -> Some (mp_bytes g) | None -> None) in
  let mp_s = (match mp with Some b -> hex_of_bytes b | None -> "ERR") in
  let unmp = (match mp with Some b -> show_outcome (unmsgpack_bytes b) | None -> "CRASH") in
  let ungo = show_outcome (match gt with Some g -> sexp_of_go g | None -> Crash) in
  let gspec = gtree_of fmt pf v in
  let gok = (match gspec with Some g -> gt_ok g | None -> false) in
  let flags = if gok then flags ^ ",gtok" else flags in
  Printf.printf "%s\tjson=%s;parse=%s;unjson=%s;mp=%s;unmp=%s;ungo=%s\ttree=%s;back=%s;flags=%s;gtree=%s\n" id
    (hex_of_bytes js) pstr_s un mp_s unmp ungo (tree_val_string (tree_of fmt v)) (show_outcome (Ok (norm v))) flags
    (gtree_string gspec)

let () =
  iter_lines (fun line ->
    match split_tab line with
    | [id; inp] ->
      let toks = String.split_on_char ' ' inp in
      (match toks with
       | "V" :: rest ->
         ftab := [];
         let (v, _) = parse_value rest in
         value_case id v
       | "T" :: _which :: rest ->
         (* observed in a further interpreter of the same process: the value alone matters *)
         ftab := [];
         let (v, _) = parse_value rest in
         value_case id v
       | "E" :: rest ->
         (* E <initial value> ~ <changes>: the object after in-place changes; its value is computed
            by the model of the changes (run_ops, from Coq), not read off the implementation *)
         ftab := [];
         let (v0, r1) = parse_value rest in
         let ops = (match r1 with "~" :: r2 -> parse_ops r2 | _ -> failwith "bad E line") in
         (match run_ops ops v0 with
          | Some v -> value_case id v
          | None -> Printf.printf "%s\tjson=MODEL-REJECTS-THE-CHANGE;parse=-;unjson=-\ttree=-;back=-;flags=\n" id)
       | "W" :: k :: i :: _seed :: rest ->
         (* an interleaved history of k values; this line observes the i-th (0-based): encodings
            are values, so the model and the specification of the line are those of that value alone *)
         ftab := [];
         let rec go n toks acc = if n = 0 then List.rev acc else
             let (v, r) = parse_value toks in go (n - 1) r (v :: acc) in
         let vs = go (int_of_string k) rest [] in
         value_case id (List.nth vs (int_of_string i))
       | "M" :: rest ->
         (* the bytes the real (msgpack v) produced, read by the independent msgpack reader *)
         let b = bytes_of_hex (match rest with h :: _ -> h | [] -> "") in
         Printf.printf "%s\tmptree=%s\t-\n" id (gtree_string (mp_decode b))
       | "Q" :: rest ->
         let s = cps_of_string (match rest with c :: _ -> c | [] -> "") in
         let q = json_quote s in
         let back = (match q with
             | _ :: body -> (match pstr SN body with Some (t, []) -> "S" ^ string_of_cps t | _ -> "ERR")
             | [] -> "ERR") in
         let want = "S" ^ string_of_cps (fix_str s) in
         Printf.printf "%s\tq=%s;reads=%s\t%s\n" id (hex_of_bytes q) back want
       | _ -> failwith ("bad case: " ^ inp))
    | _ -> failwith ("bad line: " ^ line))
