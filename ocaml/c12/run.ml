(* C12 model runner: reads "ID<TAB>INPUT" lines, prints "ID<TAB>MODEL<TAB>SPEC".
   INPUT kinds (see harness/cmd/c12/main.go): isprint | qr LO HI | qs STR | val J VALUE | pty J VALUE (printed under (pretty true)) | scr / pts EXPR VALUE | hist N OPS | lit STR PF | slit FORM ITEMS | orc STR *)
open Model
open Zutil

(* ---- the IsPrint oracle table (set by the isprint line) ---- *)
let print_ranges : (int * int) array ref = ref [||]
let is_print_int (c : int) : bool =
  let a = !print_ranges in
  let lo = ref 0 and hi = ref (Array.length a - 1) and res = ref false in
  while not !res && !lo <= !hi do
    let mid = (!lo + !hi) / 2 in
    let (x, y) = a.(mid) in
    if c < x then hi := mid - 1 else if c > y then lo := mid + 1 else res := true
  done;
  !res
let is_print (c : z) : bool = is_print_int (int_of_z c)

(* ---- helpers ---- *)
let zl_of_ints l = List.map z_of_int l
let items_str (l : z list) : string =
  match l with [] -> "-" | _ -> String.concat "," (List.map (fun c -> string_of_int (int_of_z c)) l)

let utf8_add (b : Buffer.t) (c : int) : unit =
  if c < 0x80 then Buffer.add_char b (Char.chr c)
  else if c < 0x800 then begin
    Buffer.add_char b (Char.chr (0xC0 lor (c lsr 6))); Buffer.add_char b (Char.chr (0x80 lor (c land 0x3F))) end
  else if c < 0x10000 then begin
    Buffer.add_char b (Char.chr (0xE0 lor (c lsr 12))); Buffer.add_char b (Char.chr (0x80 lor ((c lsr 6) land 0x3F)));
    Buffer.add_char b (Char.chr (0x80 lor (c land 0x3F))) end
  else begin
    Buffer.add_char b (Char.chr (0xF0 lor (c lsr 18))); Buffer.add_char b (Char.chr (0x80 lor ((c lsr 12) land 0x3F)));
    Buffer.add_char b (Char.chr (0x80 lor ((c lsr 6) land 0x3F))); Buffer.add_char b (Char.chr (0x80 lor (c land 0x3F))) end

(* ---- token stream of an encoded value ---- *)
type ts = { t : string array; mutable i : int }
let next s = let x = s.t.(s.i) in s.i <- s.i + 1; x
let num s = int_of_string (next s)
let str_items s : sitem list =
  let n = num s in
  List.init n (fun _ -> let c = num s in if c < 0 then BadByte (z_of_int (-c)) else Rune (z_of_int c))
let str_runes s : z list =
  let n = num s in List.init n (fun _ -> z_of_int (num s))

(* the strconv.FormatFloat token as a structured ftok; None when it has another shape *)
let parse_ftok (tok : int list) : ftok option =
  let is_d c = c >= 48 && c <= 57 in
  let rec span p l = match l with x :: r when p x -> let (a, b) = span p r in (x :: a, b) | _ -> ([], l) in
  let neg, l = (match tok with 45 :: r -> true, r | _ -> false, tok) in
  let ip, l = span is_d l in
  if ip = [] then None else
  let fr, l = (match l with 46 :: r -> let (a, b) = span is_d r in if a = [] then ([-1], b) else (a, b) | _ -> ([], l)) in
  if fr = [-1] then None else
  let ex, l = (match l with
      | 101 :: sg :: r when sg = 45 || sg = 43 -> let (a, b) = span is_d r in if a = [] then (Some (false, [-1]), b) else (Some (sg = 45, a), b)
      | _ -> (None, l)) in
  if l <> [] || ex = Some (false, [-1]) then None else
  Some { f_neg = neg; f_int = zl_of_ints ip; f_frac = zl_of_ints fr;
         f_exp = (match ex with None -> None | Some (sg, d) -> Some (sg, zl_of_ints d)) }

(* float oracle table of a case: model-printed text -> parse oracle *)
let float_tab : (string * string) list ref = ref []
let bad_tok = ref false

let rec value s : value =
  match next s with
  | "I" -> VInt (z_of_string (next s))
  | "U" -> VUint (z_of_string (next s))
  | "F" ->
    let bits = next s in
    let sci = num s = 1 in
    let tok = List.map int_of_z (str_runes s) in
    let pb = next s in
    let tokstr = String.concat "," (List.map string_of_int tok) in
    let cls =
      if tokstr = "78,97,78" then FNaN
      else if tokstr = "43,73,110,102" then FInf false
      else if tokstr = "45,73,110,102" then FInf true
      else (match parse_ftok tok with
          | Some t ->
            if List.map int_of_z (ftok_text t) <> tok then bad_tok := true;
            (* the 'f' token must not carry an exponent, the 'e' token must *)
            if (t.f_exp <> None) <> sci then bad_tok := true;
            FFin t
          | None -> bad_tok := true; FNaN) in
    float_tab := (items_str (float_text cls sci), pb) :: !float_tab;
    VFloat (z_of_string bits, sci, cls)
  | "B" -> VBool (num s = 1)
  | "N" -> VNil
  | "C" -> VChar (z_of_int (num s))
  | "S" -> VStr (str_items s)
  | "T" -> VBStr (str_items s)
  | "Y" -> VSym (str_runes s)
  | "L" ->
    let n = num s in
    let items = List.init n (fun _ -> value s) in
    let tail = value s in
    List.fold_right (fun h t -> VPair (h, t)) items tail
  | "A" | "a" -> let n = num s in VArr (List.init n (fun _ -> value s))
  | "H" -> let n = num s in VHash (List.init n (fun _ -> let k = value s in let v = value s in (k, v)))
  | k -> failwith ("bad value tag " ^ k)

(* the same encoding as a decorated value (Model/PrinterPretty.v): tag A = an array that carries its environment,
   tag a = one that does not *)
let rec pvalue s : pv =
  let tag = s.t.(s.i) in
  match tag with
  | "L" ->
    ignore (next s);
    let n = num s in
    let items = List.init n (fun _ -> pvalue s) in
    let tail = pvalue s in
    List.fold_right (fun h t -> PPair (h, t)) items tail
  | "A" | "a" -> ignore (next s); let n = num s in PArr (tag = "A", List.init n (fun _ -> pvalue s))
  | "H" -> ignore (next s); let n = num s in PHash (List.init n (fun _ -> let k = value s in let v = pvalue s in (k, v)))
  | _ -> PLeaf (value s)

(* ---- canonical forms (the format of harness canonSexp) ---- *)
let enc_runes tag (l : z list) =
  String.concat " " (tag :: string_of_int (List.length l) :: List.map (fun c -> string_of_int (int_of_z c)) l)

let rec canon_sexp (x : sexp) : string =
  match x with
  | SNull -> "N"
  | SEnd -> "X end"
  | SPair (_, _) ->
    let rec go p acc = (match p with SPair (h, t) -> go t (canon_sexp h :: acc) | t -> (List.rev acc, t)) in
    let (items, tail) = go x [] in
    String.concat " " (["L"; string_of_int (List.length items)] @ items @ [canon_sexp tail])
  | SArr (false, l) -> String.concat " " (["A"; string_of_int (List.length l)] @ List.map canon_sexp l)
  | SArr (true, _) -> "X infix"
  | SHashEmpty -> "H 0"
  | SSym (_, _, n) -> enc_runes "Y" n
  | SInt v -> "I " ^ string_of_z v
  | SUint v -> "U " ^ string_of_z v
  | SFloat (sci, text) ->
    if items_str text = "78,97,78" then "F nan 0" else
    (match List.assoc_opt (items_str text) !float_tab with
     | Some "nan" -> "F nan 0"
     | Some "err" -> "F err"
     | Some pb ->
       let inf = (pb = "9218868437227405312" || pb = "18442240474082181120") in
       Printf.sprintf "F %s %d" pb (if sci && not inf then 1 else 0)
     | None -> "F ?" ^ items_str text)
  | SChar c -> "C " ^ string_of_z c
  | SBool b -> if b then "B 1" else "B 0"
  | SStr (_, s) -> enc_runes "S" s
  | SComment (_, _) -> "X comment"
  | SComma -> "X comma"
  | SSemicolon -> "X semicolon"

let is_inf_bits bits = (bits = "9218868437227405312" || bits = "18442240474082181120")

let rec canon_value (v : value) : string =
  match v with
  | VInt z -> "I " ^ string_of_z z
  | VUint z -> "U " ^ string_of_z z
  | VFloat (bits, sci, cls) ->
    (match cls with
     | FNaN -> "F nan 0"
     | FInf _ -> "F " ^ string_of_z bits ^ " 0"
     | FFin _ -> Printf.sprintf "F %s %d" (string_of_z bits) (if sci then 1 else 0))
  | VBool b -> if b then "B 1" else "B 0"
  | VNil -> "N"
  | VChar c -> "C " ^ string_of_z c
  | VStr s ->
    String.concat " " ("S" :: string_of_int (List.length s) ::
                       List.map (fun it -> match it with Rune c -> string_of_z c | BadByte b -> "-" ^ string_of_z b) s)
  | VSym n -> enc_runes "Y" n
  | VBStr s -> canon_value (VStr s)
  | VPair (_, _) ->
    let rec go p acc = (match p with VPair (h, t) -> go t (canon_value h :: acc) | t -> (List.rev acc, t)) in
    let (items, tail) = go v [] in
    String.concat " " (["L"; string_of_int (List.length items)] @ items @ [canon_value tail])
  | VArr l -> String.concat " " (["A"; string_of_int (List.length l)] @ List.map canon_value l)
  | VHash kvs ->
    String.concat " " (["H"; string_of_int (List.length kvs)] @ List.map (fun (k, x) -> canon_value k ^ " " ^ canon_value x) kvs)

let rec has_hash (v : value) : bool =
  match v with
  | VHash _ -> true
  | VPair (h, t) -> has_hash h || has_hash t
  | VArr l -> List.exists has_hash l
  | _ -> false

let rec canon_j (j : jvalue) : string =
  match j with
  | JInt z -> "I " ^ string_of_z z
  | JUint z -> "U " ^ string_of_z z
  | JFloat (sci, b) ->
    let bs = string_of_z b in
    Printf.sprintf "F %s %d" bs (if sci && not (is_inf_bits bs) then 1 else 0)
  | JNaN -> "F nan 0"
  | JBool b -> if b then "B 1" else "B 0"
  | JNil -> "N"
  | JStr s -> enc_runes "S" s
  | JArr l -> String.concat " " (["A"; string_of_int (List.length l)] @ List.map canon_j l)
  | JHash kvs ->
    String.concat " " (["H"; string_of_int (List.length kvs)] @
                       List.map (fun (k, x) -> (match k with JKSym n -> enc_runes "Y" n | JKStr s -> enc_runes "S" s) ^ " " ^ canon_j x) kvs)

(* the ParseFloat oracle of a case: the table of the floats that occur in it *)
let pf_oracle (text : z list) : z option =
  match List.assoc_opt (items_str text) !float_tab with
  | Some "nan" | Some "err" | None -> None
  | Some b -> Some (z_of_string b)

let status_str = function StDone -> "D" | StMore -> "M" | StErr -> "E" | StCrash -> "P" | StFuel -> "FUEL"

(* ---- literals ---- *)
let kind_name = function
  | TSymbol -> "Symbol" | TBool -> "Bool" | TDecimal -> "Decimal" | THex -> "Hex" | TOct -> "Oct" | TBinary -> "Binary"
  | TFloat -> "Float" | TChar -> "Char" | TString -> "String" | TDotSymbol -> "DotSymbol" | TUint64 -> "Uint64"
  | TSymbolColon -> "SymbolColon" | TColonOperator -> "ColonOperator" | TBackslash -> "Backslash"
  | TLParen -> "LParen" | TRParen -> "RParen" | TLSquare -> "LSquare" | TRSquare -> "RSquare" | TLCurly -> "LCurly" | TRCurly -> "RCurly"
  | TQuote -> "Quote" | TCaret -> "Caret" | TTilde -> "Tilde" | TTildeAt -> "TildeAt" | TFreshAssign -> "FreshAssign"
  | TComment -> "Comment" | TBeginBlockComment -> "BeginBlockComment" | TEndBlockComment -> "EndBlockComment"
  | TSemicolon -> "Semicolon" | TComma -> "Comma" | TBeginBacktickString -> "BeginBacktickString" | TBacktickString -> "BacktickString"
  | TDollar -> "Dollar" | TDot -> "Dot" | TEmpty -> "TokenTypeEmpty" | TBacktick -> "Backtick" | TThreadingOperator -> "ThreadingOperator" | TEnd -> "End"

let is_num_kind = function TDecimal | THex | TOct | TBinary | TFloat | TUint64 -> true | _ -> false

let strip_us (l : z list) = List.filter (fun c -> int_of_z c <> 95) l

let two63 = z_of_string "9223372036854775808"
let two64 = z_of_string "18446744073709551616"
let z_lt a b = (Z.compare a b = Lt)

let lit (sp : z list) (pf : string) : string * string =
  let (toks, ok) = lex_text (sp @ [z_of_int 10]) in
  if not ok then ("LEXERR", "-") else
  match toks with
  | [t] when is_num_kind t.t_kind ->
    let oracle text =
      if items_str text = items_str (strip_us sp) then
        (match pf with "err" -> None | "nan" -> None | b -> Some (z_of_string b))
      else None in
    let m = (match atom_value oracle t with
        | Some (RInt z) -> "I " ^ string_of_z z
        | Some (RUint z) -> "U " ^ string_of_z z
        | Some (RFloat (_, Some b, _)) -> "F " ^ string_of_z b
        | Some (RFloat (_, None, _)) -> "F nan"
        | Some _ -> "X"
        | None -> "ERR") in
    (* the exact value of the notation, from the spelling alone *)
    let body pre suf = (* digits between a prefix of pre runes and a suffix of suf runes *)
      let l = List.filteri (fun i _ -> i >= pre) sp in
      List.filteri (fun i _ -> i < List.length l - suf) l in
    let spec =
      (match t.t_kind with
       | TDecimal ->
         let neg = (match sp with c :: _ when int_of_z c = 45 -> true | _ -> false) in
         let v = math_value NDec neg (body (if neg then 1 else 0) 0) in
         if z_lt v two63 && not (z_lt v (Z.opp two63)) then "I " ^ string_of_z v else "ERR"
       | THex -> let v = math_value NHex false (body 2 0) in if z_lt v two63 then "I " ^ string_of_z v else "ERR"
       | TOct -> let v = math_value NOct false (body 2 0) in if z_lt v two63 then "I " ^ string_of_z v else "ERR"
       | TBinary -> let v = math_value NBin false (body 2 0) in if z_lt v two63 then "I " ^ string_of_z v else "ERR"
       | _ -> "-") in
    (m, spec)
  | _ -> ("T " ^ String.concat "," (List.map (fun t -> kind_name t.t_kind) toks), "-")

(* ---- main ---- *)
let () =
  iter_lines (fun line ->
    match split_tab line with
    | id :: input :: _ ->
      let fields = Array.of_list (split_sp input) in
      let s = { t = fields; i = 1 } in
      let (m, spec) =
        (try
          (match fields.(0) with
           | "isprint" ->
             let parts = String.split_on_char ',' fields.(1) in
             print_ranges := Array.of_list (List.map (fun p ->
                 match String.split_on_char '-' p with
                 | [a; b] -> (int_of_string a, int_of_string b)
                 | _ -> failwith "range") parts);
             ("ok", "-")
           | "qr" ->
             let lo = num s in let hi = num s in
             let b = Buffer.create 65536 in
             for c = lo to hi do
               if c < 0xd800 || c > 0xdfff then begin
                 List.iter (fun x -> utf8_add b (int_of_z x)) (quote_str is_print [Rune (z_of_int c)]);
                 Buffer.add_char b '\n';
                 List.iter (fun x -> utf8_add b (int_of_z x)) (quote_rune is_print (z_of_int c));
                 Buffer.add_char b '\n'
               end
             done;
             (Digest.to_hex (Digest.string (Buffer.contents b)), "-")
           | "qs" -> (items_str (quote_str is_print (str_items s)), "-")
           | "orc" -> ("ok", "-")
           | "val" | "scr" | "pty" | "pts" ->
             let j = next s in
             let cuts = (match next s with "-" -> [] | c -> List.map (fun x -> nat_of_int (int_of_string x)) (String.split_on_char ',' c)) in
             if fields.(0) = "scr" || fields.(0) = "pts" then ignore (str_runes s);
             float_tab := []; bad_tok := false;
             let pretty = (fields.(0) = "pty" || fields.(0) = "pts") in
             (* pty / pts: the value printed under env.Pretty = true; the arrays carry their environment flag *)
             let p = if pretty then pvalue s else PLeaf VNil in
             let v = if pretty then erase p else value s in
             let text = if pretty then pprint is_print true p else print is_print v in
             let (st, ex) = read text in
             let r = String.concat " | " (status_str st :: List.map canon_sexp ex) in
             let ev =
               if j <> "1" then "-" else
               (match st, ex with
                | StDone, [e] -> (match eval_json_like pf_oracle e with Some jv -> canon_j jv | None -> "ERROR")
                | _ -> "ERROR") in
             let w = if j <> "1" then "-" else if pretty then items_str (psave_text is_print true p) else items_str (save_text is_print v) in
             let (st2, ex2) = read_repl text in
             let rp = String.concat " | " (status_str st2 :: List.map canon_sexp ex2) in
             let (st3, ex3) = read_pieces cuts text in
             let pc = String.concat " | " (status_str st3 :: List.map canon_sexp ex3) in
             if pretty && not (pwf p) then bad_tok := true;
             let m = "P=" ^ items_str text ^ " ;; R=" ^ r ^ " ;; PC=" ^ pc ^ " ;; RP=" ^ rp ^ " ;; EV=" ^ ev ^ " ;; W=" ^ w ^ (if !bad_tok then " ;; BADTOK" else "") in
             let cv = canon_value v in
             let spec = "R=" ^ (if has_hash v then "-" else "D | " ^ cv) ^ " ;; E=" ^ (if j = "1" then cv else "-") in
             (m, spec)
           | "hist" ->
             let n = num s in
             float_tab := []; bad_tok := false;
             let ops = List.init n (fun _ ->
                 match next s with
                 | "D" -> HDel (value s)
                 | _ -> let k = value s in let v = value s in HSet (k, v)) in
             let h = hist_apply ops in
             let text = print is_print h in
             let content = (match h with
                 | VHash kvs ->
                   let kv = List.sort compare (List.map (fun (k, x) -> canon_value k ^ " = " ^ canon_value x) kvs) in
                   Printf.sprintf "n=%d len=%d {%s}" (List.length kv) (List.length kv) (String.concat " ; " kv)
                 | _ -> "?") in
             ("P=" ^ items_str text, "W=" ^ content)
           | "slit" ->
             (* a string / backtick / character literal: FORM N (r RUNE | e RUNE)... *)
             let form = next s in
             let n = num s in
             let its = List.init n (fun _ -> let k = next s in let c = z_of_int (num s) in if k = "e" then LEsc c else LRaw c) in
             let q = z_of_int (match form with "q" -> 34 | "b" -> 96 | _ -> 39) in
             let raws = List.map (fun it -> match it with LRaw c -> c | LEsc c -> c) its in
             let wf = List.for_all (fun it -> litem_wf q it) its in
             let text = (match form, its with
                 | "q", _ -> str_spelling its
                 | "b", _ -> bt_spelling raws
                 | _, [it] -> chr_spelling it
                 | _, _ -> []) in
             let (st, ex) = read text in
             let r = String.concat " | " (status_str st :: List.map canon_sexp ex) in
             let scalar c = let i = int_of_z c in i >= 0 && i <= 0x10FFFF && not (i >= 0xD800 && i <= 0xDFFF) in
             let spec =
               (match form with
                | "q" -> (match denote its with Some rs when wf && List.for_all scalar rs -> "D | " ^ enc_runes "S" rs | _ -> "-")
                | "b" -> if List.for_all (fun it -> match it with LRaw c -> int_of_z c <> 96 && scalar c | LEsc _ -> false) its
                  then "D | " ^ enc_runes "S" raws else "-"
                | _ -> (match its with
                    | [it] -> (match litem_rune it with Some c when wf && scalar c -> "D | C " ^ string_of_z c | _ -> "-")
                    | _ -> "-")) in
             ("T=" ^ items_str text ^ " ;; R=" ^ r, "R=" ^ spec)
           | "lit" ->
             let sp = str_runes s in
             let pf = next s in
             lit sp pf
           | k -> ("?" ^ k, "-"))
        with e -> ("EXN " ^ Printexc.to_string e, "-")) in
      Printf.printf "%s\t%s\t%s\n" id m spec
    | _ -> ())
