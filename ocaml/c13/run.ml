(* C13 model runner: reads "ID<TAB>INPUT" lines, prints "ID<TAB>MODEL<TAB>SPEC".
   INPUT kinds: tok =TEXT | atom =TEXT | chunk =TEXT CUTS | hist =TEXT N {=H CUTS A}
   TEXT encoding: printable ASCII except backslash, '#', '|' as is; any other rune as \<decimal>; *)
open Model
open Zutil

let decode (s : string) : z list =
  let n = String.length s in
  let rec go i acc =
    if i >= n then List.rev acc
    else if s.[i] = '\\' then begin
      let j = String.index_from s i ';' in
      go (j + 1) (z_of_int (int_of_string (String.sub s (i + 1) (j - i - 1))) :: acc)
    end else go (i + 1) (z_of_int (Char.code s.[i]) :: acc)
  in
  if n > 0 && s.[0] = '=' then go 1 [] else go 0 []

let esc (l : z list) : string =
  let b = Buffer.create 32 in
  List.iter (fun c ->
    let c = int_of_z c in
    if c >= 0x21 && c <= 0x7e && c <> 92 && c <> 35 && c <> 124 then Buffer.add_char b (Char.chr c)
    else Buffer.add_string b (Printf.sprintf "\\%d;" c)) l;
  Buffer.contents b

let kind_name = function
  | TEmpty -> "Empty" | TLParen -> "LParen" | TRParen -> "RParen" | TLSquare -> "LSquare" | TRSquare -> "RSquare"
  | TLCurly -> "LCurly" | TRCurly -> "RCurly" | TDot -> "Dot" | TQuote -> "Quote" | TBacktick -> "Backtick"
  | TTilde -> "Tilde" | TTildeAt -> "TildeAt" | TSymbol -> "Symbol" | TBool -> "Bool" | TDecimal -> "Decimal"
  | THex -> "Hex" | TOct -> "Oct" | TBinary -> "Binary" | TFloat -> "Float" | TChar -> "Char" | TString -> "String"
  | TCaret -> "Caret" | TColonOperator -> "ColonOperator" | TThreadingOperator -> "ThreadingOperator"
  | TBackslash -> "Backslash" | TDollar -> "Dollar" | TDotSymbol -> "DotSymbol" | TFreshAssign -> "FreshAssign"
  | TBeginBacktickString -> "BeginBacktickString" | TBacktickString -> "BacktickString" | TComment -> "Comment"
  | TBeginBlockComment -> "BeginBlockComment" | TEndBlockComment -> "EndBlockComment" | TSemicolon -> "Semicolon"
  | TSymbolColon -> "SymbolColon" | TComma -> "Comma" | TUint64 -> "Uint64" | TEnd -> "End"

let show_tok (t : token) = kind_name t.t_kind ^ ":" ^ esc t.t_str

let show_toks (toks, ok) =
  let l = List.map show_tok toks in
  String.concat " " (if ok then l else l @ ["!E"])


let rec canon (b : Buffer.t) (x : sexp) : unit =
  let add = Buffer.add_string b in
  match x with
  | SNull -> add "nil"
  | SEnd -> add "<end>"
  | SPair (_, _) ->
    add "(";
    let rec go p =
      (match p with
       | SPair (h, (SPair (_, _) as t)) -> canon b h; add " "; go t
       | SPair (h, t) -> canon b h; (match t with SNull -> () | _ -> add " \\ "; canon b t)
       | _ -> ()) in
    go x; add ")"
  | SArr (infix, l) ->
    add (if infix then "{[" else "[");
    List.iteri (fun i e -> if i > 0 then add " "; canon b e) l;
    add (if infix then "]}" else "]")
  | SHashEmpty -> add "<hash:hash:0>"
  | SSym (c, d, name) -> add "y"; if c then add "c"; if d then add "d"; add ":"; add (esc name)
  | SInt v -> add "i:"; add (string_of_z v)
  | SUint v -> add "u:"; add (string_of_z v)
  | SFloat (sci, _) -> add (if sci then "fs#" else "f#")
  | SChar v -> add "c:"; add (string_of_z v)
  | SBool v -> add (if v then "b:true" else "b:false")
  | SStr (bt, s) -> add (if bt then "r:" else "s:"); add (esc s)
  | SComment (bl, s) -> add (if bl then "kb:" else "k:"); add (esc s)
  | SComma -> add ","
  | SSemicolon -> add ";"

let show_obs (o : outcome) : string =
  let (st, acc) = observe o in
  let b = Buffer.create 64 in
  Buffer.add_string b (match st with StDone -> "D" | StMore -> "M" | StErr -> "E" | StCrash -> "P" | StFuel -> "X");
  List.iter (fun e -> Buffer.add_char b ' '; canon b e) acc;
  Buffer.contents b

let fuel = nat_of_int 60000

(* the flag of Model/Reader.v that is parser.go as it is now *)
let code = true
(* cfix: true = parser.go as it is now (the '{' comments '}' case pops the comments and the brace) *)
let cfix = true

let parse_cuts (s : string) : int list =
  if s = "-" || s = "" then [] else List.map int_of_string (String.split_on_char ',' s)

let rec take n l = if n <= 0 then [] else match l with [] -> [] | x :: t -> x :: take (n - 1) t
let rec drop n l = if n <= 0 then l else match l with [] -> [] | _ :: t -> drop (n - 1) t

(* split the runes at the (sorted) offsets *)
let pieces (text : z list) (cuts : int list) : z list list =
  let n = List.length text in
  let rec go prev cuts rest =
    match cuts with
    | [] -> [rest]
    | c :: cs ->
      let c = max prev (min c n) in
      take (c - prev) rest :: go c cs (drop (c - prev) rest)
  in go 0 cuts text

let is_final (o : outcome) = match o with OErr _ | OCrash _ | OFuel -> true | _ -> false

(* deliver the pieces one by one from p (already reset); returns the observables and the last state *)
let deliver_seq (strict : bool) (p : pstate) (ps : z list list) : string list * pstate =
  let rec go p ps acc =
    match ps with
    | [] -> (List.rev acc, p)
    | x :: rest ->
      let p' = p_deliver strict cfix p x in
      let acc = show_obs p'.ps_out :: acc in
      if is_final p'.ps_out then (List.rev acc, p') else go p' rest acc
  in go p ps []

let last l = List.nth l (List.length l - 1)

(* the two independent "unfinished" scanners on a text: rune level (U) and token level (V) *)
let verdicts (text : z list) : string =
  let u = (match unfinished text with Some true -> "unfinished" | Some false -> "finished" | None -> "-") in
  let ((m, d), pend) = scan (text @ [z_of_int 10]) in
  let mname = (match m with MCode -> "Code" | MStr -> "Str" | MStrEsc -> "Str" | MRaw -> "Raw" | MLine -> "Line"
    | MBlock -> "Block" | MBlockStar -> "Block" | MSlash -> "Slash" | MRune -> "Rune" | MRuneEsc -> "Rune" | MTilde -> "Prefix") in
  let mname = if pend && mname = "Code" then "Prefix" else mname in
  let v = (match tok_verdict (text_tokens text) with
           | Some (fin, _) -> if fin then "fin" else "unf"
           | None -> "none") in
  let ok = snd (lex_text (text @ [z_of_int 10])) in
  "U=" ^ u ^ ":" ^ mname ^ ":" ^ string_of_z d ^ " ;; V=" ^ v ^ ":" ^ (if ok then "lexok" else "lexerr")

let do_chunk (text : z list) (cuts : int list) : string * string =
  let ps = mark_last (pieces text cuts) in
  let w = show_obs (parse_whole code cfix fuel text) in
  let (obs, _) = deliver_seq code (p_reset fuel (p_init fuel)) ps in
  let ws = show_obs (parse_whole true cfix fuel text) in
  let (obss, _) = deliver_seq true (p_reset fuel (p_init fuel)) ps in
  let u = (match unfinished text with Some true -> "unfinished" | Some false -> "finished" | None -> "-") in
  let ((m, d), pend) = scan (text @ [z_of_int 10]) in
  let mname = (match m with MCode -> "Code" | MStr -> "Str" | MStrEsc -> "Str" | MRaw -> "Raw" | MLine -> "Line"
    | MBlock -> "Block" | MBlockStar -> "Block" | MSlash -> "Slash" | MRune -> "Rune" | MRuneEsc -> "Rune" | MTilde -> "Prefix") in
  let mname = if pend && mname = "Code" then "Prefix" else mname in
  let u = u ^ ":" ^ mname ^ ":" ^ string_of_z d in
  let v = (match tok_verdict (text_tokens text) with
           | Some (fin, _) -> if fin then "fin" else "unf"
           | None -> "none") in
  let cp = if curly_plain (text_tokens text) then "plain" else "curlycomment" in
  ("W=" ^ w ^ " ;; P=" ^ String.concat " | " obs, "W=" ^ ws ^ " ;; F=" ^ last obss ^ " ;; U=" ^ u ^ " ;; V=" ^ v ^ ":" ^ cp)

let rec triples = function
  | h :: c :: a :: rest -> (h, c, a) :: triples rest
  | _ -> []

let do_hist (text : z list) (items : (string * string * string) list) : string =
  let fresh = show_obs (parse_whole code cfix fuel text) in
  let p = List.fold_left (fun p (h, c, a) ->
      let ps = pieces (decode h) (parse_cuts c) in
      let ps = if a = "a" || a = "A" then ps else mark_last ps in
      snd (deliver_seq code (p_reset fuel p) ps)) (p_init fuel) items in
  let after = show_obs (parse_after code cfix fuel p text) in
  let same = if reset p.ps_lex = init_lstate then "same" else "diff" in
  "F=" ^ fresh ^ " ;; H=" ^ after ^ " ;; S=" ^ same ^ " ;; A=same"

(* the REPL reader: lines (each with its newline) are delivered one by one until the parser no longer asks for more *)
let split_lines (text : z list) : z list list =
  let rec go cur acc = function
    | [] -> List.rev (List.rev cur :: acc)
    | c :: t -> if int_of_z c = 10 then go [] (List.rev cur :: acc) t else go (c :: cur) acc t
  in go [] [] text

(* Model/ReaderSession.v repl_read (extracted): MODEL = what the reader returns and how many lines it consumed;
   SPEC = the whole-text parse of the text it reports (theorem repl_is_whole) *)
let do_repl (entry : z list) : string * string =
  let lines = split_lines entry @ [[]; []; []; []; []] in
  let (used, r) = repl_read code cfix fuel (p_init fuel) lines in
  let n = List.length used in
  match r with
  | None -> ("R=EOF ;; N=0", "-")
  | Some o ->
    (match fst (observe o) with
     | StDone | StMore -> ("R=" ^ show_obs o ^ " ;; N=" ^ string_of_int n,
                           "W=" ^ show_obs (parse_whole true cfix fuel (join_lines used)))
     | StErr -> ("R=E ;; N=0", "-")
     | StCrash -> ("R=P ;; N=0", "-")
     | StFuel -> ("R=X ;; N=0", "-"))

(* the unwinding of a stopped coroutine is left open in the model; replies after a Stop are not compared *)
let unwind (o : outcome) (l : lstate) = (OErr [], l)

(* queue: the pieces through Parser.NewInput, ParseTokens only where the schedule says (Model/ReaderSession.v
   piece_calls / do_call, extracted); the observable after every ParseTokens call *)
let do_queue (strict : bool) (text : z list) (cuts : int list) (sc : string) : string list =
  let ps = mark_last (pieces text cuts) in
  let sched = List.mapi (fun i _ -> i < String.length sc && sc.[i] = '1') cuts in
  let cs = CReset :: piece_calls ps sched in
  let rec go p cs acc =
    match cs with
    | [] -> List.rev acc
    | c :: rest ->
      let p' = do_call strict cfix fuel unwind p c in
      (match c with
       | CParse -> let acc = show_obs p'.par_out :: acc in
         if is_final p'.par_out then List.rev acc else go p' rest acc
       | _ -> go p' rest acc)
  in go (new_parser fuel) cs []

(* calls: an arbitrary sequence of parser calls, then the target text by either route *)
let rec call_list = function
  | "n" :: s :: rest -> CNewInput (decode s) :: call_list rest
  | "r" :: s :: rest -> CResetAdd (decode s) :: call_list rest
  | "R" :: _ :: rest -> CReset :: call_list rest
  | "s" :: _ :: rest -> CStop :: call_list rest
  | "p" :: _ :: rest -> CParse :: call_list rest
  | _ -> []

let do_calls_case (text : z list) (via : bool) (ops : string list) : string =
  let cs = call_list ops in
  let fresh = show_obs (parse_whole code cfix fuel text) in
  let (p, _, replies) = List.fold_left (fun (p, tainted, acc) c ->
      let p' = do_call code cfix fuel unwind p c in
      match c with
      | CParse ->
        if tainted then (p', tainted, "?" :: acc)
        else let o = show_obs p'.par_out in (p', is_final p'.par_out, o :: acc)
      | CStop -> (p', true, acc)
      | CReset | CResetAdd _ -> (p', false, acc)
      | CNewInput _ -> (p', tainted, acc)) (new_parser fuel, false, []) cs in
  ignore p;
  let after = show_obs (read_after code cfix fuel unwind via cs text) in
  let after2 = show_obs (read_pieces_after code cfix fuel unwind cs [text] []) in
  let after = if after = after2 then after else after ^ " <> " ^ after2 in
  "F=" ^ fresh ^ " ;; H=" ^ after ^ " ;; S=same ;; C=" ^ String.concat " | " (List.rev replies)

let () =
  iter_lines (fun line ->
    match split_tab line with
    | id :: body :: _ ->
      (match split_sp body with
       | ["tok"; t] -> Printf.printf "%s\t%s\t%s\n" id (show_toks (lex_text (decode t))) (verdicts (decode t))
       | ["atom"; t] ->
         let r = (match decode_atom (decode t) with Some tok -> show_tok tok | None -> "!E") in
         Printf.printf "%s\t%s\t-\n" id r
       | ["chunk"; t; c] ->
         let (m, sp) = do_chunk (decode t) (parse_cuts c) in
         Printf.printf "%s\t%s\t%s\n" id m sp
       | ["queue"; t; c; sc] ->
         (* pieces that are only queued reach the parser together with the next piece that is parsed *)
         let cuts = parse_cuts c in
         let cuts' = List.filteri (fun i _ -> i < String.length sc && sc.[i] = '1') cuts in
         let (_, sp) = do_chunk (decode t) cuts' in
         let text = decode t in
         let w = show_obs (parse_whole code cfix fuel text) in
         let m = "W=" ^ w ^ " ;; P=" ^ String.concat " | " (do_queue code text cuts sc) in
         Printf.printf "%s\t%s\t%s\n" id m sp
       | ["repl"; t] -> let (m, sp) = do_repl (decode t) in Printf.printf "%s\t%s\t%s\n" id m sp
       | "calls" :: t :: v :: ops ->
         Printf.printf "%s\t%s\t-\n" id (do_calls_case (decode t) (v = "1") ops)
       | "hist" :: t :: _ :: rest ->
         Printf.printf "%s\t%s\t-\n" id (do_hist (decode t) (triples rest))
       | _ -> Printf.printf "%s\t-\t-\n" id)
    | _ -> failwith ("bad line: " ^ line))
