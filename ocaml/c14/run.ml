(* C14 model runner.
   stdin lines  ID<TAB>INPUT ; stdout  ID<TAB>MODEL<TAB>SPEC.
   INPUT is either a universe header
       U <uid> <shape>@<code>@<dstr-hex>@<djson-hex> ...
   (shape: I<z> C<z> Y<symnum> S<hex bytes> A(<shape>,<shape>..); code = the REAL hash code
    of that key; dstr/djson = how the key is spelled inside (str h) / as a quoted object key of (json h)), which selects
   the current universe, or a history
       <mode> <uid> [c<N>] s<i>=<v> d<i> ...  mode A (builtins applied) | S (script); c<N>: the first N are constructor pairs
   over key indices of the current universe.  The observation printed is the one made
   after the whole history (every prefix is a case of its own in the exhaustive part). *)
open Model
open Zutil

let hex_decode (s : string) : string =
  let n = String.length s / 2 in
  String.init n (fun i -> Char.chr (int_of_string ("0x" ^ String.sub s (2 * i) 2)))

let parse_atom (s : string) : atom =
  let body = String.sub s 1 (String.length s - 1) in
  match s.[0] with
  | 'I' -> AInt (z_of_string body)
  | 'C' -> AChar (z_of_string body)
  | 'Y' -> ASym (z_of_string body)
  | 'S' -> AStr (List.init (String.length body / 2) (fun i -> z_of_int (int_of_string ("0x" ^ String.sub body (2 * i) 2))))
  | _ -> failwith ("bad atom " ^ s)

let parse_atoms (inner : string) : atom list =
  if inner = "" then [] else List.map parse_atom (String.split_on_char ',' inner)
let parse_key (s : string) : key =
  let n = String.length s in
  if n >= 4 && String.sub s 0 4 = "A(A(" then KWrap (parse_atoms (String.sub s 4 (n - 6)))
  else if s.[0] = 'A' then KArr (parse_atoms (String.sub s 2 (n - 3)))
  else KAtom (parse_atom s)

let hex2 (z : z) = Printf.sprintf "%02x" (int_of_z z)
let show_atom = function
  | AInt z -> "I" ^ string_of_z z
  | AChar z -> "C" ^ string_of_z z
  | ASym z -> "Y" ^ string_of_z z
  | AStr l -> "S" ^ String.concat "" (List.map hex2 l)
let show_key = function
  | KAtom a -> show_atom a
  | KArr l -> "A(" ^ String.concat "," (List.map show_atom l) ^ ")"
  | KWrap l -> "A(A(" ^ String.concat "," (List.map show_atom l) ^ "))"

(* current universe *)
let ukeys : key array ref = ref [||]
let ucodes : (string, z) Hashtbl.t = Hashtbl.create 16
let udstr : (string, string) Hashtbl.t = Hashtbl.create 16
let udjson : (string, string) Hashtbl.t = Hashtbl.create 16

(* arrays: the real code from the header; an array not in the universe cannot occur *)
let arrhash (k : key) : z =
  match Hashtbl.find_opt ucodes (show_key k) with
  | Some c -> c
  | None -> failwith ("no code for array key " ^ show_key k)
let hcode (k : key) : z = khash arrhash k
(* the key identity of the code: same hash code and Compare = 0 *)
let keq (a : key) (b : key) : bool = kid arrhash a b

let dstr k = match Hashtbl.find_opt udstr (show_key k) with Some s -> s | None -> "?" ^ show_key k
let djson k = match Hashtbl.find_opt udjson (show_key k) with Some s -> s | None -> "?" ^ show_key k

(* values: integers, or the special values N nil, F false, E "", L [], c 'a', f 97.0, h g two hashes,
   a b two arrays [1] (codes below -1000000 in the model, where a value is an opaque Z); their spelling inside str/json comes with the header *)
let vstr : (string, string) Hashtbl.t = Hashtbl.create 8
let vjson : (string, string) Hashtbl.t = Hashtbl.create 8
let specials = ["N"; "F"; "E"; "L"; "c"; "f"; "h"; "g"; "a"; "b"]
let rec index_of x l i = match l with [] -> -1 | y :: r -> if x = y then i else index_of x r (i + 1)
let z_of_value (s : string) : z =
  let i = index_of s specials 0 in
  if i >= 0 then z_of_int (-1000001 - i) else z_of_string s
let show_value (v : z) : string =
  let n = int_of_z v in
  if n <= -1000001 && n > -1000001 - List.length specials then List.nth specials (-1000001 - n) else string_of_z v
let value_in tbl (v : z) : string =
  let s = show_value v in
  if List.mem s specials then (match Hashtbl.find_opt tbl s with Some t -> t | None -> "?" ^ s) else s

let header (toks : string list) : string =
  Hashtbl.reset ucodes; Hashtbl.reset udstr; Hashtbl.reset udjson;
  let vtoks, toks = List.partition (fun t -> t.[0] = '=') toks in
  List.iter (fun t ->
    match String.split_on_char '@' t with
    | [name; _; d1; d2] ->
      let n = String.sub name 1 (String.length name - 1) in
      Hashtbl.replace vstr n (hex_decode d1); Hashtbl.replace vjson n (hex_decode d2)
    | _ -> failwith ("bad value token " ^ t)) vtoks;
  let ks = List.map (fun t ->
    match String.split_on_char '@' t with
    | [shape; code; d1; d2] ->
      let k = parse_key shape in
      Hashtbl.replace ucodes (show_key k) (z_of_string code);
      Hashtbl.replace udstr (show_key k) (hex_decode d1);
      Hashtbl.replace udjson (show_key k) (hex_decode d2);
      k
    | _ -> failwith ("bad universe token " ^ t)) toks in
  ukeys := Array.of_list ks;
  let eqm = String.concat "" (List.map (fun a -> String.concat "" (List.map (fun b -> if ceq a b then "1" else "0") ks)) ks) in
  let ac = String.concat "," (List.map (fun k -> match k with KAtom a -> string_of_z (ahash a) | _ -> "-") ks) in
  "eq=" ^ eqm ^ ";acode=" ^ ac

let show_oz = function Ok z -> string_of_z z | Err -> "!" | Crash -> "#"
let show_optv dflt = function Some v -> show_value v | None -> dflt
let show_kv (k, v) = "(" ^ show_key k ^ ":" ^ show_value v ^ ")"
let show_okv = function Ok kv -> show_kv kv | Err -> "!" | Crash -> "#"
let show_ok = function Ok k -> show_key k | Err -> "!" | Crash -> "#"
let show_olist = function
  | Ok l -> String.concat "|" (List.map (fun (k, v) -> show_key k ^ "=" ^ show_value v) l)
  | Err -> "!" | Crash -> "#"

let render_str (es, cut) =
  let s = "{" ^ String.concat "" (List.map (fun (k, v) -> dstr k ^ ":" ^ value_in vstr v ^ " ") es) in
  let s = if cut then String.sub s 0 (String.length s - 1) else s in
  s ^ "}"

let render_json = function
  | Crash -> "#" | Err -> "!"
  | Ok (es, ko) ->
    if ko = [] then "{\"Atype\":\"hash\"}" else begin
      let s = "{\"Atype\":\"hash\", " ^ String.concat "" (List.map (fun (k, v) -> djson k ^ ":" ^ value_in vjson v ^ ", ") es) in
      let s = s ^ "\"zKeyOrder\":[" ^ String.concat "" (List.map (fun k -> djson k ^ ", ") ko) in
      String.sub s 0 (String.length s - 2) ^ "]}"
    end

let parse_op (s : string) : (key, z) op =
  let idx_of t = int_of_string t in
  match s.[0] with
  | 's' ->
    (match String.split_on_char '=' (String.sub s 1 (String.length s - 1)) with
     | [i; v] -> OSet ((!ukeys).(idx_of i), z_of_value v)
     | _ -> failwith ("bad op " ^ s))
  | 'd' -> ODel ((!ukeys).(idx_of (String.sub s 1 (String.length s - 1))))
  | _ -> failwith ("bad op " ^ s)

let positions nops =
  let n = Array.length !ukeys in
  let top = (if nops < n then nops else n) + 1 in
  List.init (top + 2) (fun i -> z_of_int (i - 1))

let history (mode : string) (ops : string list) : string * string =
  (* an optional first token c<N>: the first N operations (all hset) are the pairs given to the constructor *)
  let ctor, ops = (match ops with
    | c :: r when String.length c > 1 && c.[0] = 'c' -> int_of_string (String.sub c 1 (String.length c - 1)), r
    | _ -> 0, ops) in
  let ops = List.map parse_op ops in
  let rec split n l = if n = 0 then [], l else (match l with [] -> [], [] | x :: r -> let a, b = split (n - 1) r in x :: a, b) in
  let cops, rest = split ctor ops in
  let pairs = List.map (function OSet (k, v) -> (k, v) | ODel _ -> failwith "hdel among the constructor pairs") cops in
  let t = List.fold_left (fun t o -> step ceq keq hcode unwrap t o) (make_hash ceq hcode unwrap pairs) rest in
  let s = List.fold_left (fun s o -> s_step keq unwrap s o) [] ops in
  let ks = Array.to_list !ukeys in
  let pos = positions (List.length ops) in
  let cat = String.concat in
  let loops_m = if mode = "S" then ";lm=" ^ show_olist (loop_macro ceq hcode unwrap t) else "" in
  let loops_s = if mode = "S" then ";lm=" ^ show_olist (s_loop s) else "" in
  let m =
    "len=" ^ show_oz (len t)
    ^ ";keys=" ^ cat "," (List.map show_key (keys t))
    ^ ";get=" ^ cat "," (List.map (fun k -> show_optv "!" (hash_get ceq hcode unwrap t k)) ks)
    ^ ";getd=" ^ cat "," (List.map (fun k -> show_optv "D" (hash_get_default ceq hcode unwrap t k)) ks)
    ^ ";hp=" ^ cat "" (List.map (fun p -> show_okv (hpair ceq hcode unwrap t p)) pos)
    ^ ";rl=" ^ show_oz (len t)
    ^ ";rk=" ^ cat "," (List.map (fun p -> show_ok (range_key ceq hcode unwrap t p)) pos)
    ^ ";rp=" ^ cat "" (List.map (fun p -> show_okv (range_pair ceq hcode unwrap t p)) pos)
    ^ loops_m
    ^ ";str=" ^ render_str (str_obs ceq hcode unwrap t)
    ^ ";json=" ^ render_json (json_obs ceq hcode unwrap t) in
  let sp =
    "len=" ^ show_oz (s_len s)
    ^ ";keys=" ^ cat "," (List.map show_key (s_keys s))
    ^ ";get=" ^ cat "," (List.map (fun k -> show_optv "!" (s_lookup keq unwrap s k)) ks)
    ^ ";getd=" ^ cat "," (List.map (fun k -> show_optv "D" (s_lookup keq unwrap s k)) ks)
    ^ ";hp=" ^ cat "" (List.map (fun p -> show_okv (s_pair s p)) pos)
    ^ ";rl=" ^ show_oz (s_len s)
    ^ ";rk=" ^ cat "," (List.map (fun p -> show_ok (s_range_key s p)) pos)
    ^ ";rp=" ^ cat "" (List.map (fun p -> show_okv (s_pair s p)) pos)
    ^ loops_s
    ^ ";str=" ^ render_str (s_str s)
    ^ ";json=" ^ render_json (s_json s) in
  (m, sp)

(* ---- mode O: key OBJECTS (Model/HashObj.v).  The n-th operation passes the object 100n (inner
   array 100n+1, elements 100n+2+j); suffix w = the key is passed in its one-element array form.
   MODEL = the table over objects (content through erase, plus the identities handed out and the
   bookkeeping itself); SPEC = the ordered map over the bare keys (no identities, no state). *)
let mk_okey (k : key) (base : int) (wrap : bool) : okey =
  let zi = z_of_int in
  let els l = List.mapi (fun j a -> (zi (if base = 0 then 0 else base + 2 + j), a)) l in
  let inner = zi (if base = 0 then 0 else base + 1) in
  match k, wrap with
  | KAtom a, false -> OAtom (zi base, a)
  | KAtom a, true -> OArr (zi base, [(zi (if base = 0 then 0 else base + 2), a)])
  | KArr l, false -> OArr (zi base, els l)
  | KArr l, true -> OWrap (zi base, inner, els l)
  | KWrap l, _ -> OWrap (zi base, inner, els l)
let can_wrap = function KAtom _ -> true | KArr l -> List.length l <> 1 | KWrap _ -> false
let wrapk = function KAtom a -> KArr [a] | KArr l -> KWrap l | k -> k

let parse_oop (n : int) (s : string) : (okey, z) op =
  let body = String.sub s 1 (String.length s - 1) in
  let body, v = (match String.split_on_char '=' body with [b; v] -> b, v | [b] -> b, "0" | _ -> failwith ("bad op " ^ s)) in
  let wrap = String.length body > 0 && body.[String.length body - 1] = 'w' in
  let body = if wrap then String.sub body 0 (String.length body - 1) else body in
  let k = mk_okey (!ukeys).(int_of_string body) (100 * n) wrap in
  match s.[0] with
  | 's' -> OSet (k, z_of_value v)
  | 'd' -> ODel k
  | _ -> failwith ("bad op " ^ s)

let history_o (ops : string list) : string * string =
  let ops = List.mapi (fun i s -> parse_oop (i + 1) s) ops in
  let t = List.fold_left (fun t o -> ostep arrhash t o) (orun arrhash []) ops in
  let s = List.fold_left (fun s o -> s_step keq unwrap s (erase_op o)) [] ops in
  let ks = Array.to_list !ukeys in
  let n = List.length ks and nops = List.length ops in
  let top = (if nops < 2 * n then nops else 2 * n) + 1 in
  let pos = List.init (top + 2) (fun i -> z_of_int (i - 1)) in
  let cat = String.concat in
  let oc = oceq and oh = ohash arrhash and ou = ounwrap in
  let ekv (k, v) = (erase k, v) in
  let omap f = function Ok a -> Ok (f a) | Err -> Err | Crash -> Crash in
  let look wrap dflt f = cat "," (List.map (fun k ->
      if wrap && not (can_wrap k) then "-" else show_optv dflt (f k wrap)) ks) in
  let mget k w = hash_get oc oh ou t (mk_okey k 0 w) and mgetd k w = hash_get_default oc oh ou t (mk_okey k 0 w) in
  let sget k w = s_lookup keq unwrap s (if w then wrapk k else k) in
  let hps = List.map (fun p -> hpair oc oh ou t p) pos in
  let rks = List.map (fun p -> range_key oc oh ou t p) pos in
  let ids_of l = cat "," (List.concat (List.map (function Ok k -> [string_of_z (oid k)] | _ -> []) l)) in
  let (bs, ko), nk = state_obs t in
  let bstr = List.sort compare (List.map (fun (code, prs) ->
      string_of_z code ^ ":" ^ cat "," (List.sort compare (List.map (fun (k, v) ->
        String.map (fun c -> if c = 'C' then 'I' else c) (show_key (erase k)) ^ "=" ^ show_value v) prs))) bs) in
  let st = cat "|" bstr ^ "/ko:" ^ cat "," (List.map (fun k -> string_of_z (oid k)) ko) ^ "/n:" ^ string_of_z nk in
  let m =
    "len=" ^ show_oz (len t)
    ^ ";keys=" ^ cat "," (List.map (fun k -> show_key (erase k)) (keys t))
    ^ ";get=" ^ look false "!" mget ^ ";getd=" ^ look false "D" mgetd
    ^ ";getw=" ^ look true "!" mget ^ ";getdw=" ^ look true "D" mgetd
    ^ ";hp=" ^ cat "" (List.map (fun r -> show_okv (omap ekv r)) hps)
    ^ ";rl=" ^ show_oz (len t)
    ^ ";rk=" ^ cat "," (List.map (fun r -> show_ok (omap erase r)) rks)
    ^ ";rp=" ^ cat "" (List.map (fun p -> show_okv (omap ekv (range_pair oc oh ou t p))) pos)
    ^ ";ko=" ^ cat "," (List.map (fun k -> string_of_z (oid k)) (keys t))
    ^ ";hpo=" ^ ids_of (List.map (omap fst) hps)
    ^ ";rko=" ^ ids_of rks
    ^ ";st=" ^ st
    ^ ";str=" ^ render_str (let (es, cut) = str_obs oc oh ou t in (List.map ekv es, cut))
    ^ ";json=" ^ render_json (omap (fun (es, ko) -> (List.map ekv es, List.map erase ko)) (json_obs oc oh ou t)) in
  let sp =
    "len=" ^ show_oz (s_len s)
    ^ ";keys=" ^ cat "," (List.map show_key (s_keys s))
    ^ ";get=" ^ look false "!" sget ^ ";getd=" ^ look false "D" sget
    ^ ";getw=" ^ look true "!" sget ^ ";getdw=" ^ look true "D" sget
    ^ ";hp=" ^ cat "" (List.map (fun p -> show_okv (s_pair s p)) pos)
    ^ ";rl=" ^ show_oz (s_len s)
    ^ ";rk=" ^ cat "," (List.map (fun p -> show_ok (s_range_key s p)) pos)
    ^ ";rp=" ^ cat "" (List.map (fun p -> show_okv (s_pair s p)) pos)
    ^ ";str=" ^ render_str (s_str s)
    ^ ";json=" ^ render_json (s_json s) in
  (m, sp)

let () =
  iter_lines (fun line ->
    match split_tab line with
    | [id; body] ->
      (match split_sp body with
       | "U" :: _uid :: toks -> Printf.printf "%s\t%s\t-\n" id (header toks)
       | "O" :: _uid :: ops ->
         let (m, s) = history_o ops in
         Printf.printf "%s\t%s\t%s\n" id m s
       | mode :: _uid :: ops ->
         let (m, s) = history mode ops in
         Printf.printf "%s\t%s\t%s\n" id m s
       | _ -> failwith ("bad case: " ^ body))
    | _ -> failwith ("bad line: " ^ line))
