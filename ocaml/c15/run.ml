(* C15 model runner.  Lines "ID<TAB>INPUT" -> "ID<TAB>MODEL<TAB>SPEC<TAB>FLAGS".
   INPUT fields are separated by '|', tokens inside a field by single spaces.
   value tokens:  i<int>  y<symbol>  s<string>  o<n>  ( .. )  [ .. ]  { typename k v k v .. }
   template tokens (abstract syntax): the same, plus  ~ <value>  and  ~@ <value>
   V is the reader's RAW output (comments written inside the form are o-1 elements); the runner
   applies the model of the loader's comment filter (Templ.strip) first.
   kinds:
     sq:route|SRC|A|V|form => value|form => !|...   value of (syntaxQuote V); A = the template as abstract
                                                syntax, V = what the real reader produced from SRC
     mac|SRC|params|A|V|arg , arg , ..|form => value|...   expansion of (m args) for (defmac m [params] ^V)
     call|EXPECTED                              echo (the expectation is computed by the harness from
                                                the hand-substituted program; see docs/C15.md) *)
open Model
open Zutil

let symtab : (string, int) Hashtbl.t = Hashtbl.create 64
let symrev : (int, string) Hashtbl.t = Hashtbl.create 64
let strtab : (string, int) Hashtbl.t = Hashtbl.create 64
let strrev : (int, string) Hashtbl.t = Hashtbl.create 64
let intern tab rev s =
  match Hashtbl.find_opt tab s with
  | Some n -> n
  | None -> let n = Hashtbl.length tab in Hashtbl.add tab s n; Hashtbl.add rev n s; n
let () = ignore (intern symtab symrev "unquote"); ignore (intern symtab symrev "unquote-splicing")
(* the head symbols of MacroGen's fragment, in the order of its sym_* constants (2 ..) *)
let () = List.iter (fun n -> ignore (intern symtab symrev n))
    ["begin"; "let"; "letseq"; "newScope"; "for"; "break"; "continue"; "cond"; "def"; "set"]
let sym s = z_of_int (intern symtab symrev s)
let symname z = try Hashtbl.find symrev (int_of_z z) with Not_found -> "?" ^ string_of_z z
let str s = z_of_int (intern strtab strrev s)
let strname z = try Hashtbl.find strrev (int_of_z z) with Not_found -> "?" ^ string_of_z z

let tail s = String.sub s 1 (String.length s - 1)

(* ---- parsing of values *)
let rec p_value (toks : string list) : value * string list =
  match toks with
  | [] -> failwith "value: end of input"
  | "(" :: r -> let l, r = p_values ")" r in (VList l, r)
  | "[" :: r -> let l, r = p_values "]" r in (VArr l, r)
  | "{" :: tn :: r ->
    let l, r = p_values "}" r in
    let rec pairs = function
      | k :: v :: t -> (k, v) :: pairs t
      | [] -> []
      | _ -> failwith "hash: odd" in
    (VHash (sym tn, pairs l), r)
  | t :: r ->
    (match t.[0] with
     | 'i' -> (VInt (z_of_string (tail t)), r)
     | 'y' -> (VSym (sym (tail t)), r)
     | 's' -> (VStr (str (tail t)), r)
     | 'o' -> (VOpq (z_of_string (tail t)), r)
     | _ -> failwith ("value: bad token " ^ t))
and p_values (close : string) (toks : string list) : value list * string list =
  match toks with
  | [] -> failwith "values: missing close"
  | t :: r when t = close -> ([], r)
  | _ -> let v, r = p_value toks in let l, r = p_values close r in (v :: l, r)

let rec p_tmpl (toks : string list) : tmpl * string list =
  match toks with
  | [] -> failwith "tmpl: end of input"
  | "~" :: r -> let v, r = p_value r in (TUnq v, r)
  | "~@" :: r -> let v, r = p_value r in (TSpl v, r)
  | "(" :: r -> let l, r = p_tmpls ")" r in (TList l, r)
  | "[" :: r -> let l, r = p_tmpls "]" r in (TArr l, r)
  | "{" :: tn :: r ->
    let l, r = p_tmpls "}" r in
    let rec pairs = function
      | k :: v :: t -> (k, v) :: pairs t
      | [] -> []
      | _ -> failwith "hash tmpl: odd" in
    (THash (sym tn, pairs l), r)
  | _ -> let v, r = p_value toks in (TLit v, r)
and p_tmpls close toks =
  match toks with
  | [] -> failwith "tmpls: missing close"
  | t :: r when t = close -> ([], r)
  | _ -> let v, r = p_tmpl toks in let l, r = p_tmpls close r in (v :: l, r)

let value_of_string s = match p_value (split_sp s) with (v, []) -> v | _ -> failwith ("trailing tokens: " ^ s)
let tmpl_of_string s = match p_tmpl (split_sp s) with (v, []) -> v | _ -> failwith ("trailing tokens: " ^ s)

(* ---- printing *)
let rec show (v : value) : string =
  match v with
  | VInt z -> "i" ^ string_of_z z
  | VSym z -> "y" ^ symname z
  | VStr z -> "s" ^ strname z
  | VOpq z -> "o" ^ string_of_z z
  | VList l -> "(" ^ String.concat "" (List.map (fun x -> " " ^ show x) l) ^ " )"
  | VArr l -> "[" ^ String.concat "" (List.map (fun x -> " " ^ show x) l) ^ " ]"
  | VHash (tn, kv) ->
    "{ " ^ symname tn ^ String.concat "" (List.map (fun (k, x) -> " " ^ show k ^ " " ^ show x) kv) ^ " }"

(* ---- bindings "form => value" / "form => !" *)
let split_on (sep : string) (s : string) : string list =
  let n = String.length sep and m = String.length s in
  let rec go start i acc =
    if i + n > m then List.rev (String.sub s start (m - start) :: acc)
    else if String.sub s i n = sep then go (i + n) (i + n) (String.sub s start (i - start) :: acc)
    else go start (i + 1) acc in
  go 0 0 []

let parse_binding (s : string) : value * value option =
  match split_on " => " s with
  | [f; "!"] -> (value_of_string f, None)
  | [f; v] -> (value_of_string f, Some (value_of_string v))
  | _ -> failwith ("bad binding: " ^ s)

let mk_rho (bs : (value * value option) list) : value -> value option =
  fun e ->
    let rec go = function
      | [] -> None
      | (f, v) :: r -> if value_eqb f e then v else go r in
    go bs

(* ---- stream gen: the projected bytecode of a function body (MacroGen.gen_fn) *)
let other_specials = ["fn"; "defn"; "quote"; "and"; "or"; "assert"; "defmac"; "macexpand"; "syntaxQuote";
                      "include"; "package"; "return"; "mdef"; "_ls"; "infix"; "eval"]
let show_pinstr = function
  | PAdd -> "A" | PRemove -> "R" | PLoop -> "L" | PLoopEnd -> "E"
  | PBreak k -> "B" ^ string_of_int (int_of_nat k)
  | PContinue k -> "C" ^ string_of_int (int_of_nat k)
  | PTail (p, n) -> "T" ^ string_of_int (int_of_nat p) ^ "," ^ string_of_int (int_of_nat n)
  | PCall (s, n) -> "K" ^ symname s ^ "," ^ string_of_int (int_of_nat n)
let parse_gmacro (s : string) =
  match split_on " := " s with
  | [hd; body] ->
    (match split_sp hd with
     | name :: params -> (sym name, (List.map sym params, reify (tmpl_of_string body)))
     | [] -> failwith "gen: macro without a name")
  | _ -> failwith ("gen: bad macro " ^ s)

(* flags: a splice of two or more elements standing directly in a hash slot *)
let long_hash_splice rho a = if hshort rho a then "" else "hash-long-splice"

let () =
  iter_lines (fun line ->
    match split_tab line with
    | [id; body] ->
      (match String.split_on_char '|' body with
       | ("sq:text" | "sq:ctx" | "sq:api" | "sq:twice" | "sq:rec") :: _src :: a :: v :: binds ->
         let a = tmpl_of_string a and v = strip (value_of_string v) in
         let rho = mk_rho (List.map parse_binding binds) in
         let model =
           (match sq_model rho v with
            | Some (x, extra) -> show x ^ " +" ^ string_of_int (int_of_nat extra)
            | None -> "ERR") in
         let spec =
           if not (wf a) then "ILL-FORMED-ABSTRACT-TEMPLATE"
           else if not (value_eqb (reify a) v) then "READER-MISMATCH " ^ show (reify a)
           else if is_splice a then "-"
           else (match subst rho a with Ok x -> show x ^ " +0" | Err -> "ERR") in
         Printf.printf "%s\t%s\t%s\t%s\n" id model spec (long_hash_splice rho a)
       | "mac" :: _src :: params :: a :: v :: args :: binds ->
         let params = List.map sym (split_sp params) in
         let a = tmpl_of_string a and v = strip (value_of_string v) in
         let args = List.filter (fun s -> String.trim s <> "") (split_on " , " args) in
         let args = List.map value_of_string args in
         let glob = mk_rho (List.map parse_binding binds) in
         let model =
           if List.length args <> List.length params then "ERR" else
           (match macro_expand glob params args v with Some x -> show x | None -> "ERR") in
         let rec lookup s = function
           | [] -> None
           | (k, x) :: r -> if k = s then Some x else lookup s r in
         let sc = (try List.combine params args with Invalid_argument _ -> []) in
         let rho e = (match e with
             | VSym s -> (match lookup s sc with Some x -> Some x | None -> glob e)
             | _ -> glob e) in
         let spec =
           if not (wf a) then "ILL-FORMED-ABSTRACT-TEMPLATE"
           else if not (value_eqb (reify a) v) then "READER-MISMATCH " ^ show (reify a)
           else if List.length args <> List.length params then "ERR"
           else if is_splice a then "-"
           else (match subst rho a with Ok x -> show x | Err -> "ERR") in
         Printf.printf "%s\tE=%s H=%s\tE=%s H=%s\t%s\n" id model model spec spec (long_hash_splice rho a)
       | "gen" :: _src :: fname :: nargs :: macros :: body :: _ ->
         let ms = List.map parse_gmacro (split_on " ;; " macros) in
         let body = List.map value_of_string (split_on " ;; " body) in
         let specials = List.map sym other_specials in
         let special s = List.mem s specials in
         (match gen_fn (nat_of_int 300) ms special (sym fname) (nat_of_int (int_of_string nargs)) body with
          | Some code ->
            (* the function's own scope (AddFuncScope at entry) is removed after the body *)
            let m = String.concat " " (List.map show_pinstr code @ ["R"]) ^ " H=same" in
            let ok = (match chk (O, []) code with Some (O, []) -> true | _ -> false) in
            Printf.printf "%s\t%s\t%s\t\n" id m (if ok then m else "SCOPES-INEXACT")
          | None -> Printf.printf "%s\tERR\tERR\t\n" id)
       | ("call" | "hist") :: e :: _ ->
         Printf.printf "%s\t%s\t%s\t\n" id e e
       | _ -> failwith ("bad case: " ^ body))
    | _ -> failwith ("bad line: " ^ line))
