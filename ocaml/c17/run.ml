(* C17 model runner: reads "ID<TAB>history", prints "ID<TAB>model obs<TAB>spec obs".
   history = steps separated by " ; " (grammar in docs/C17.md); per step the observation is
   "<K|E|P>:<state dump>"; the spec observation is "K:<dump>" (may accept, then this state) or
   "E<reason>" (must reject: error and nothing changes), computed from the MODEL's pre-state. *)
open Model
open Zutil

let num s = int_of_string (String.sub s 1 (String.length s - 1))
let base_of = function 0 -> BInt64 | 1 -> BFloat64 | 2 -> BString | 3 -> BBool | 4 -> BSymbol | 5 -> BInt | _ -> BHash

(* token stream *)
let toks = ref [||] and pos = ref 0
let next () = let t = !toks.(!pos) in incr pos; t

let rec p_texpr () =
  let t = next () in
  match t.[0] with
  | 'b' -> TEBase (base_of (num t))
  | 's' -> TEStruct (nat_of_int (num t))
  | 'L' -> TESlice (p_texpr ())
  | 'P' -> TEPtr (p_texpr ())
  | _ -> failwith ("texpr " ^ t)

let rec p_value () =
  let t = next () in
  match t.[0] with
  | 'N' -> VNil | 'I' -> VInt (z_of_int (num t)) | 'F' -> VFloat (z_of_int (num t))
  | 'S' -> VStr (z_of_int (num t)) | 'B' -> VBool (num t = 1) | 'Y' -> VSym | 'Q' -> VList | 'H' -> VHash
  | 'A' -> let n = num t in let l = ref [] in
    for _ = 1 to n do l := p_value () :: !l done; VArr (List.rev !l)
  | '@' -> VInst (nat_of_int (num t)) | '&' -> VPtr (nat_of_int (num t)) | '^' -> VPtrInt (z_of_int (num t))
  | _ -> failwith ("value " ^ t)

(* a value position: a literal value or "K<j>.<f> A.." = concat onto the empty prefix of field f of v<j>;
   resolved against the model's current state by the extracted `resolve` *)
let cur_state = ref init_state
let p_vexpr () : value =
  let t = !toks.(!pos) in
  if t.[0] = 'K' then begin
    incr pos;
    let body = String.sub t 1 (String.length t - 1) in
    let (j, f) = (match String.split_on_char '.' body with
      | [a; b] -> (int_of_string a, int_of_string b) | _ -> failwith ("K token " ^ t)) in
    let l = (match p_value () with VArr l -> l | _ -> failwith "K needs an array") in
    resolve !cur_state (EConcatEmpty (nat_of_int j, nat_of_int f, l))
  end else resolve !cur_state (EVal (p_value ()))

let p_key () =
  let t = next () in
  match t.[0] with
  | 'f' -> KSym (nat_of_int (num t)) | 'i' -> KInt (z_of_int (num t)) | 's' -> KStr (z_of_int (num t))
  | _ -> failwith ("key " ^ t)

let p_nat () = nat_of_int (int_of_string (next ()))
let p_int () = int_of_string (next ())
let rec times n f = if n <= 0 then [] else let x = f () in x :: times (n - 1) f

let p_step (s : string) : op =
  toks := Array.of_list (split_sp s); pos := 0;
  match next () with
  | "Db" -> let s = p_nat () in Declare (s, [])                (* bare form (struct S) *)
  | "Dx" | "Dn" | "De" -> let s = p_nat () in DeclareBad s     (* malformed: extra argument / no array / no field *)
  | "D" | "Dq" -> let s = p_nat () in let n = p_int () in
    Declare (s, times n (fun () -> let f = nat_of_int (num (next ())) in let t = p_texpr () in (f, t)))
  | "C" | "Ca" | "Cf" -> let id = p_nat () in let s = p_nat () in let n = p_int () in
    Construct (id, s, times n (fun () -> let k = p_key () in let v = p_vexpr () in (k, v)))
  | "W" -> let r = (match next () with "h" -> RHset | "d" -> RDot | "x" -> RInfix | "l" -> RSel | "j" | "k" | "q" -> RIdx | r -> failwith ("route " ^ r)) in
    let id = p_nat () in let k = p_key () in let v = p_vexpr () in Write (r, id, k, v)
  | "N" -> let id = p_nat () in let f = nat_of_int (num (next ())) in let g = nat_of_int (num (next ())) in
    let v = p_vexpr () in Nested (id, f, g, v)
  | "X" -> let id = p_nat () in let k = p_key () in Delete (id, k)
  | "R" -> let id = p_nat () in let v = p_vexpr () in DerefSet (id, v)
  | "P" -> let pid = p_nat () in let id = p_nat () in TakePtr (pid, id)
  | "S" -> let pid = p_nat () in let v = p_vexpr () in DerefSetP (pid, v)
  | "J" | "M" -> let ko = p_int () = 1 in let id = p_nat () in let s = p_nat () in let n = p_int () in
    Decode (ko, id, s, times n (fun () -> let f = nat_of_int (num (next ())) in let v = p_value () in (f, v)))
  | t -> failwith ("step " ^ t)

(* ---- dump ---- *)
let s_gen = function GReal n -> "d" ^ string_of_int (int_of_nat n) | GPh n -> "p" ^ string_of_int (int_of_nat n)
                   | GBare n -> "b" ^ string_of_int (int_of_nat n)
let rec s_value = function
  | VNil -> "N" | VInt z -> "I" ^ string_of_z z | VFloat z -> "F" ^ string_of_z z | VStr z -> "S" ^ string_of_z z
  | VBool b -> if b then "B1" else "B0" | VSym -> "Y" | VList -> "Q" | VHash -> "H"
  | VArr l -> "A(" ^ String.concat " " (List.map s_value l) ^ ")"
  | VInst id -> "@" ^ string_of_int (int_of_nat id) | VPtr id -> "&" ^ string_of_int (int_of_nat id)
  | VPtrInt z -> "^" ^ string_of_z z
let key_rank = function KSym f -> (0, int_of_nat f) | KInt z -> (1, int_of_z z) | KStr z -> (2, int_of_z z)
let s_key = function KSym f -> "f" ^ string_of_int (int_of_nat f) | KInt z -> "i" ^ string_of_z z | KStr z -> "s" ^ string_of_z z

let dump (st : state) : string =
  let reg = List.sort (fun (a, _) (b, _) -> compare (int_of_nat a) (int_of_nat b)) st.st_reg in
  let r = String.concat "," (List.map (fun (s, e) -> string_of_int (int_of_nat s) ^ "=" ^ s_gen e.re_gen) reg) in
  let store = List.sort (fun (a, _) (b, _) -> compare (int_of_nat a) (int_of_nat b)) st.st_store in
  let s_inst (id, i) =
    let fl = List.sort (fun (a, _) (b, _) -> compare (key_rank a) (key_rank b)) i.i_fields in
    Printf.sprintf "v%d=%d/%s{%s}" (int_of_nat id) (int_of_nat i.i_tname) (s_gen i.i_fac.re_gen)
      (String.concat "," (List.map (fun (k, v) -> s_key k ^ ":" ^ s_value v) fl)) in
  "R[" ^ r ^ "]" ^ String.concat "" (List.map (fun x -> " " ^ s_inst x) store)

let s_out = function OK -> "K" | ERR -> "E"
let s_reason = function
  | RsNoVar -> "novar" | RsNoKey -> "nokey" | RsUndeclared -> "undeclared" | RsType -> "type" | RsStale -> "stale"
  | RsUntyped -> "untyped" | RsNotRecord -> "notrecord" | RsDefn -> "defn"

(* split on " ; " *)
(* "Z k" steps only choose how the harness spells the field names; the model knows indices *)
let split_steps (s : string) : string list =
  List.filter (fun x -> let t = String.trim x in t <> "" && t.[0] <> 'Z') (String.split_on_char ';' s)

let () =
  iter_lines (fun line ->
    match split_tab line with
    | id :: body :: _ ->
      let st = ref init_state in
      let mo = Buffer.create 256 and so = Buffer.create 256 in
      List.iteri (fun k s ->
        cur_state := !st;
        let o = p_step s in
        let (oc, st') = step !st o in
        let (sv, sst) = spec_step !st o in
        if k > 0 then (Buffer.add_string mo " | "; Buffer.add_string so " | ");
        Buffer.add_string mo (s_out oc ^ ":" ^ dump st');
        (match sv with
         | SOk -> Buffer.add_string so ("K:" ^ dump sst)
         | SRej r -> (match o with
             | Declare _ | DeclareBad _ -> Buffer.add_string so ("D:" ^ dump sst)   (* a failed declaration is outside the property *)
             | _ -> Buffer.add_string so ("E" ^ s_reason r)));
        st := st') (split_steps body);
      Printf.printf "%s\t%s\t%s\n" id (Buffer.contents mo) (Buffer.contents so)
    | _ -> failwith ("bad line: " ^ line))
