(* C18 model runner.  Input line: ID<TAB>ENC [## source text (ignored)]
   ENC (space separated tokens, names are UTF-8 words):
     world line := "D" key "U" n rune* "W" n (name decl)*      (defines world <key>)
     case line  := "X" key "U" n rune* "O" n op*                (ops on a fresh copy of world <key>)
     decl := "I" z | "F" n name* body | "H" n (name decl)* | "P" name n (name decl)* | "R" n name*
     decl also "Z" (nil)
     body := "G" name | "S" name | "K" name | "D" n name* | "W" n name* | "C" n name* n z*
     op   := "g" route n name* | "s" route n name* z | "c" n name* n z* | "v" wname param argsym n name* n z*
             | "f" n target* n source*
             | "r" "deref" n name* | "r" "arg" n name* | "r" "callx" n name* n z* | "r" "ind" n name* n z*
             | "r" "hget" n root* n rest* | "r" "cmp" n name* | "r" "defdot" n name* z      (Model/PkgRoutes.v)
   route (projection of a read): full | plus | type
   Output: ID<TAB>model observables joined by "|"<TAB>specification observables joined by "|" *)
open Model
open Zutil

let decode_utf8 (s : string) : int list =
  let n = String.length s in
  let rec go i acc =
    if i >= n then List.rev acc else
    let c = Char.code s.[i] in
    let cont k = Char.code s.[i + k] land 0x3f in
    if c < 0x80 then go (i + 1) (c :: acc)
    else if c < 0xe0 then go (i + 2) ((((c land 0x1f) lsl 6) lor cont 1) :: acc)
    else if c < 0xf0 then go (i + 3) ((((c land 0x0f) lsl 12) lor (cont 1 lsl 6) lor cont 2) :: acc)
    else go (i + 4) ((((c land 0x07) lsl 18) lor (cont 1 lsl 12) lor (cont 2 lsl 6) lor cont 3) :: acc)
  in go 0 []

let name_of_string s : z list = List.map z_of_int (decode_utf8 s)
let string_of_name (n : z list) : string =
  let b = Buffer.create 8 in
  List.iter (fun c -> Buffer.add_utf_8_uchar b (Uchar.of_int (int_of_z c))) n;
  Buffer.contents b

(* token stream *)
let toks = ref [||] and pos = ref 0
let next () = let t = !toks.(!pos) in incr pos; t
let next_int () = int_of_string (next ())
let next_name () = name_of_string (next ())
let rec times n f = if n <= 0 then [] else let x = f () in x :: times (n - 1) f
let names () = let n = next_int () in times n next_name

let parse_body () =
  match next () with
  | "G" -> BGet (next_name ())
  | "S" -> BSet (next_name ())
  | "D" -> BDot (names ())
  | "W" -> BDotSet (names ())
  | "K" -> BClear (next_name ())
  | "C" -> let p = names () in let n = next_int () in
           BDotCall (p, times n (fun () -> z_of_string (next ())))
  | t -> failwith ("bad body " ^ t)

let rec parse_decl () =
  match next () with
  | "I" -> DInt (z_of_string (next ()))
  | "F" -> let ps = names () in let b = parse_body () in DFun (ps, b)
  | "H" -> let n = next_int () in DHash (times n (fun () -> let k = next_name () in let d = parse_decl () in (k, d)))
  | "P" -> let pn = next_name () in let n = next_int () in
           DPkg (pn, times n (fun () -> let k = next_name () in let d = parse_decl () in (k, d)))
  | "R" -> DRef (names ())
  | "Z" -> DNil
  | t -> failwith ("bad decl " ^ t)

type pop = { o : rop; route : string }
let parse_op () =
  match next () with
  | "g" -> let r = next () in let p = names () in { o = RBase (OpGet p); route = r }
  | "s" -> let r = next () in let p = names () in let z = z_of_string (next ()) in { o = RBase (OpSet (p, z)); route = "full" }
  | "c" -> let p = names () in let n = next_int () in
           let args = times n (fun () -> z_of_string (next ())) in { o = RBase (OpCall (p, args)); route = "full" }
  | "v" -> let wname = next_name () in let param = next_name () in let argsym = next_name () in
           let p = names () in let n = next_int () in
           let args = times n (fun () -> z_of_string (next ())) in
           { o = RBase (OpCallVia (wname, param, argsym, p, args)); route = "full" }
  | "f" -> let t = names () in let src = names () in { o = RBase (OpSetFrom (t, src)); route = "setfrom" }
  | "r" ->
    let kind = next () in
    let p = names () in
    let zs () = let n = next_int () in times n (fun () -> z_of_string (next ())) in
    let o = (match kind with
      | "deref" -> RDeref p
      | "arg" -> RArg p
      | "callx" -> RCallExpr (p, zs ())
      | "ind" -> RIndirect (p, zs ())
      | "hget" -> let rest = names () in RHget (p, rest)
      | "cmp" -> RCompound p
      | "defdot" -> RDefDot (p, z_of_string (next ()))
      | k -> failwith ("bad route " ^ k)) in
    { o; route = "full" }
  | t -> failwith ("bad op " ^ t)

(* rendering of values; hashes by content (insertion order), packages by name *)
let rec show_val (h : heap) (depth : int) (v : val0) : string =
  match v with
  | VNull -> "N"
  | VInt z -> "I" ^ string_of_z z
  | VFun (fname, _, _, _) -> "F:" ^ string_of_name fname
  | VStack (_, pn, _) -> "P:" ^ string_of_name pn
  | VHash id ->
    if depth > 6 then "H{..}" else
    (match hash_map h id with
     | Some m -> "H{" ^ String.concat "," (List.map (fun (k, v) -> string_of_name k ^ "=" ^ show_val h (depth + 1) v) m) ^ "}"
     | None -> "H?")

let project route h v =
  match route, v with
  | "setfrom", _ -> "SET"
  | "plus", VInt _ -> show_val h 0 v
  | "plus", _ -> "OTHER"
  | "type", VInt _ -> "T:int64"
  | "type", VFun _ -> "T:func"
  | "type", VHash _ -> "T:hash"
  | "type", VStack _ -> "T:package"
  | "type", VNull -> "T:nil"
  | _, _ -> show_val h 0 v

let show_err = function
  | EPriv (m, p) -> "PRIV:" ^ string_of_name m ^ ":" ^ string_of_name p
  | ENotFoundSym -> "NFSYM"
  | ENotFoundPkg -> "NFPKG"
  | ENotFoundHash -> "NFHASH"
  | ENotRec -> "NOTREC"
  | ENotPkg -> "NOTPKG"
  | ENotFun -> "OTHER"   (* calling a non-function with arguments: not a dot-path outcome *)
  | EInternal -> "INTERNAL"
  | ECrash -> "CRASH"
  | EFuel -> "BUDGET"

let worlds : (string, int list * heap option) Hashtbl.t = Hashtbl.create 16

let () =
  iter_lines (fun line ->
    match split_tab line with
    | id :: body :: _ ->
      let enc =
        (let n = String.length body in
         let rec find i = if i + 4 > n then n else if String.sub body i 4 = " ## " then i else find (i + 1) in
         String.sub body 0 (find 0)) in
      toks := Array.of_list (split_sp enc); pos := 0;
      (try
        let parse_uppers () =
          if next () <> "U" then failwith "expected U";
          let nu = next_int () in times nu next_int in
        let run_ops uppers h0 =
          let is_upper (z : z) = List.mem (int_of_z z) uppers in
          if next () <> "O" then failwith "expected O";
          let no = next_int () in
          let ops = times no parse_op in
          let hm = ref h0 and hs = ref h0 in
          let mo = List.map (fun p ->
            match route_run is_upper !hm p.o with
            | Ok (h', v) -> hm := h'; project p.route h' v
            | Err e -> show_err e) ops in
          let so = List.map (fun p ->
            match route_spec is_upper !hs p.o with
            | Allowed (h', v) -> hs := h'; project p.route h' v
            | Denied (m, pk) -> "PRIV:" ^ string_of_name m ^ ":" ^ string_of_name pk
            | NotFound -> "NF"
            | NotRecord -> "NOTREC"
            | NotCallable -> "OTHER"
            | Unbounded -> "BUDGET"
            | Malformed -> "MALFORMED") ops in
          Printf.printf "%s\t%s\t%s\n" id (String.concat "|" mo) (String.concat "|" so) in
        (match next () with
         | "D" ->
           let key = next () in
           let uppers = parse_uppers () in
           let is_upper (z : z) = List.mem (int_of_z z) uppers in
           if next () <> "W" then failwith "expected W";
           let nd = next_int () in
           let defs = times nd (fun () -> let k = next_name () in let d = parse_decl () in (k, d)) in
           (match build_world is_upper heap0 defs with
            | Err e -> Hashtbl.replace worlds key (uppers, None);
              Printf.printf "%s\tBUILD-%s\tBUILD-%s\n" id (show_err e) (show_err e)
            | Ok h0 -> Hashtbl.replace worlds key (uppers, Some h0);
              Printf.printf "%s\tWORLD\tWORLD\n" id)
         | "X" ->
           let key = next () in
           let u2 = parse_uppers () in
           (match Hashtbl.find_opt worlds key with
            | Some (u1, Some h0) -> run_ops (u1 @ u2) h0
            | Some (_, None) -> Printf.printf "%s\tBUILD-FAILED\tBUILD-FAILED\n" id
            | None -> failwith ("unknown world " ^ key))
         | t -> failwith ("bad case kind " ^ t))
      with Failure m -> Printf.printf "%s\tRUNNER-ERROR %s\t-\n" id m
         | Invalid_argument m -> Printf.printf "%s\tRUNNER-ERROR %s\t-\n" id m)
    | _ -> failwith ("bad line: " ^ line))
