(* C19 model runner.  Input lines:
     ID<TAB>route=R;c=C0,C1,..;pre=NAME:NUM,..;ops=OP,..;impl=IMPLOBS
   ops: M<i>:<name> (MakeSymbol), h<i>:<name> (MakeSymbol done inside the interpreter while reading a text),
        G<i>:<prefix> (GenSymbol), D<i> (Duplicate), C<i> (Clone)
   names: characters outside [A-Za-z0-9_] are written ~XX (hex of the byte)
   observation (IMPLOBS and the MODEL column):
     OUT,OUT,..|next=..|size=+N|inv=ok|eq=BITS|hash=V,V,..[|ne=BITS|leq=BITS|aeq=BITS]
     (the last three when route <> api: (!= a b), (== (list a) (list b)), (== [a] [b]) per pair)
     OUT = name/num  or  -  (Duplicate/Clone)  or  BADMEMBER / FUEL
   SPEC column: "ok", or why the injective-table specification rejects the
   implementation's answers. *)
open Model
open Zutil

let decode_name (s : string) : z list =
  let n = String.length s in
  let rec go i acc =
    if i >= n then List.rev acc
    else if s.[i] = '~' then go (i + 3) (z_of_int (int_of_string ("0x" ^ String.sub s (i + 1) 2)) :: acc)
    else go (i + 1) (z_of_int (Char.code s.[i]) :: acc) in
  go 0 []

let encode_name (l : z list) : string =
  let b = Buffer.create 16 in
  List.iter (fun zc ->
    let c = int_of_z zc in
    if (c >= 48 && c <= 57) || (c >= 65 && c <= 90) || (c >= 97 && c <= 122) || c = 95
    then Buffer.add_char b (Char.chr c)
    else Buffer.add_string b (Printf.sprintf "~%02x" (c land 255))) l;
  Buffer.contents b

let split_on c s = if s = "" then [] else String.split_on_char c s

let parse_op (s : string) : op =
  let idx_and_rest body =
    match String.index_opt body ':' with
    | Some k -> (int_of_string (String.sub body 0 k), String.sub body (k + 1) (String.length body - k - 1))
    | None -> (int_of_string body, "") in
  let body = String.sub s 1 (String.length s - 1) in
  let (i, rest) = idx_and_rest body in
  match s.[0] with
  | 'M' | 'h' -> MkSym (nat_of_int i, decode_name rest)
  | 'G' -> GenSym (nat_of_int i, decode_name rest)
  | 'D' -> Dup (nat_of_int i)
  | 'C' -> Clone (nat_of_int i)
  | _ -> failwith ("bad op " ^ s)

let show_out = function
  | OSym (nm, k) -> encode_name nm ^ "/" ^ string_of_z k
  | ONone -> "-"
  | OBadMember -> "BADMEMBER"
  | OFuel -> "FUEL"

let parse_out (s : string) : out =
  let s = if String.length s > 0 && s.[0] = '^' then String.sub s 1 (String.length s - 1) else s in
  if s = "-" then ONone else
  match String.rindex_opt s '/' with
  | Some k -> OSym (decode_name (String.sub s 0 k), z_of_string (String.sub s (k + 1) (String.length s - k - 1)))
  | None -> OBadMember

(* ks: the script history as constructs of Model/SymtabScript.v
     s<i>:<name>               KStr2sym
     f<i>:<site>:<r1>+<r2>..   KForm reads site     u<i>:<site>:<reads>  KInDup reads site
     d<i>:<name>:<v>  KDef     v<i>:<name>  KGet    D<i> KDup   C<i> KClone
   site: none gensym gp.<prefix> anon loop ll.<label> pk.<name> rdef rset xdef xset *)
let parse_site (s : string) : gsite =
  let after k = decode_name (String.sub s k (String.length s - k)) in
  if s = "none" then GsNone else if s = "gensym" then GsGensym
  else if s = "anon" then GsAnonFn else if s = "loop" then GsLoop
  else if s = "rdef" then GsRangeDef else if s = "rset" then GsRangeSet
  else if s = "xdef" then GsRunRangeDef else if s = "xset" then GsRunRangeSet
  else if String.length s >= 3 && String.sub s 0 3 = "gp." then GsGensymP (after 3)
  else if String.length s >= 3 && String.sub s 0 3 = "ll." then GsLabelLoop (after 3)
  else if String.length s >= 3 && String.sub s 0 3 = "pk." then GsPackage (after 3)
  else failwith ("bad site " ^ s)

let parse_construct (s : string) : nat * construct =
  let body = String.sub s 1 (String.length s - 1) in
  let parts = String.split_on_char ':' body in
  let i = nat_of_int (int_of_string (List.hd parts)) in
  let arg k = try List.nth parts k with _ -> "" in
  let reads r = List.map decode_name (if r = "" then [] else String.split_on_char '+' r) in
  match s.[0] with
  | 's' -> (i, KStr2sym (decode_name (arg 1)))
  | 'f' -> (i, KForm (reads (arg 2), parse_site (arg 1)))
  | 'u' -> (i, KInDup (reads (arg 2), parse_site (arg 1)))
  | 'd' -> (i, KDef (decode_name (arg 1), z_of_string (arg 2)))
  | 'v' -> (i, KGet (decode_name (arg 1)))
  | 'D' -> (i, KDup)
  | 'C' -> (i, KClone)
  | _ -> failwith ("bad construct " ^ s)

let show_gobs (l : gobs list) : string =
  String.concat "," (List.concat (List.map (function
    | GVal (Some v) -> [string_of_z v] | GVal None -> ["none"] | GStuck -> ["STUCK"] | GNone -> []) l))

let field (kvs : (string * string) list) (k : string) : string =
  try List.assoc k kvs with Not_found -> ""

let syms_of (outs : out list) : (z list * z) list =
  List.concat (List.map (function OSym (n, k) -> [(n, k)] | _ -> []) outs)

(* equality observables of a long history: over its first 8 and last 32 returned symbols (same rule as the harness) *)
let select_syms (l : 'a list) : 'a list =
  let n = List.length l in
  if n <= 40 then l
  else List.filteri (fun i _ -> i < 8 || i >= n - 32) l

(* pairs i<j in order *)
let eq_bits (f : 'a -> 'a -> bool) (l : 'a list) : string =
  let a = Array.of_list l in
  let b = Buffer.create 16 in
  for i = 0 to Array.length a - 1 do
    for j = i + 1 to Array.length a - 1 do
      Buffer.add_char b (if f a.(i) a.(j) then '1' else '0')
    done
  done;
  Buffer.contents b

(* hash filled in order with key s_i -> i; then each s_j looked up: last i whose key equals s_j *)
let hash_obs (f : 'a -> 'a -> bool) (l : 'a list) : string =
  let a = Array.of_list l in
  let res = ref [] in
  for j = 0 to Array.length a - 1 do
    let v = ref (-1) in
    for i = 0 to Array.length a - 1 do
      if f a.(i) a.(j) then v := i
    done;
    res := string_of_int !v :: !res
  done;
  String.concat "," (List.rev !res)

let () =
  iter_lines (fun line ->
    match split_tab line with
    | [id; body] ->
      let kvs = List.map (fun f ->
        match String.index_opt f '=' with
        | Some k -> (String.sub f 0 k, String.sub f (k + 1) (String.length f - k - 1))
        | None -> (f, "")) (split_on ';' body) in
      let counters = List.map z_of_string (split_on ',' (field kvs "c")) in
      let pre = List.map (fun e ->
        match String.rindex_opt e ':' with
        | Some k -> (decode_name (String.sub e 0 k), z_of_string (String.sub e (k + 1) (String.length e - k - 1)))
        | None -> failwith ("bad pre " ^ e)) (split_on ',' (field kvs "pre")) in
      let opstrs = split_on ',' (field kvs "ops") in
      let ops = List.map parse_op opstrs in
      (* h<i>:<name> = an interning done inside the interpreter (reading a text): its answer is what the
         table says afterwards, it is printed with a leading ^ and is not part of the equality matrix *)
      let hidden = List.map (fun o -> o.[0] = 'h') opstrs in
      let st0 = { symtable = pre; revsymtable = List.map (fun (n, k) -> (k, n)) pre; nexts = counters } in
      let ext = (field kvs "route" <> "api") in
      (* script level: the constructs compile (Coq: script_ops) to exactly the operations the harness lists *)
      let ksf = field kvs "ks" in
      let ks = List.map parse_construct (split_on ',' ksf) in
      let lay0 = List.map (fun _ -> O) counters in
      let ks_ok = ksf = "" || (List.exists (fun s -> s = "D9999") (split_on ',' ksf))
                  || (script_ops lay0 ks = ops && members_valid lay0 ks && layout_ok lay0) in
      let has_scope = List.exists (fun (_, k) -> match k with KDef _ | KGet _ -> true | _ -> false) ks in
      let (st1, outs) = run st0 ops in
      let visible l = List.concat (List.map2 (fun h o -> if h then [] else [o]) hidden l) in
      let msyms = select_syms (syms_of (visible outs)) in
      let model =
        String.concat "," (List.map2 (fun h o -> (if h then "^" else "") ^ show_out o) hidden outs)
        ^ "|next=" ^ String.concat "," (List.map string_of_z st1.nexts)
        ^ "|size=+" ^ string_of_int (List.length st1.symtable - List.length pre)
        ^ "|inv=" ^ (if inv_check st1 then "ok" else "BROKEN")
        ^ "|eq=" ^ eq_bits (fun (_, a) (_, b) -> compare_symbol a b = Z0) msyms
        ^ "|hash=" ^ hash_obs (fun (_, a) (_, b) -> hash_symbol a = hash_symbol b && compare_symbol a b = Z0) msyms
        ^ (if ext then
             (* (!= a b) with the operands swapped; one-element lists / arrays compare as their elements *)
             "|ne=" ^ eq_bits (fun (_, a) (_, b) -> compare_symbol b a <> Z0) msyms
             ^ "|leq=" ^ eq_bits (fun (_, a) (_, b) -> compare_symbols [a] [b] = Z0) msyms
             ^ "|aeq=" ^ eq_bits (fun (_, a) (_, b) -> compare_symbols [a] [b] = Z0) msyms
           else "")
        ^ (if has_scope then
             (match scope_run st0 lay0 [] ks with (_, obs) -> "|scope=" ^ show_gobs obs)
           else "")
        ^ (if ks_ok then "" else "|KSDIFF: script_ops of the constructs differs from the listed operations") in
      (* the specification judges the implementation's own answers *)
      let impl = field kvs "impl" in
      let spec =
        if impl = "" then "-" else begin
          let parts = String.split_on_char '|' impl in
          let istrs = split_on ',' (List.hd parts) in
          let iouts = List.map parse_out istrs in
          let seg k = (try
              let p = List.find (fun p -> String.length p > String.length k && String.sub p 0 (String.length k + 1) = k ^ "=") parts in
              String.sub p (String.length k + 1) (String.length p - String.length k - 1)
            with Not_found -> "") in
          if List.length iouts <> List.length ops then "bad:answers-missing" else
          (* an internal interning whose name is not in the table afterwards (^GONE) was not observed:
             the specification judges the observed answers only (the model comparison still reports it) *)
          let judged = List.filter (fun (_, s, _) -> s <> "^GONE")
              (List.mapi (fun i (s, p) -> (i, s, p)) (List.combine istrs (List.combine ops iouts))) in
          match spec_check pre (List.map (fun (_, _, p) -> p) judged) O with
          | Some k -> let (i, _, _) = List.nth judged (int_of_nat k) in "bad:answer@" ^ string_of_int i
          | None ->
            let isyms = select_syms (syms_of (visible iouts)) in
            let want_eq = eq_bits (fun (a, _) (b, _) -> name_eqb a b) isyms in
            let want_hash = hash_obs (fun (a, _) (b, _) -> name_eqb a b) isyms in
            let want_ne = eq_bits (fun (a, _) (b, _) -> not (name_eqb a b)) isyms in
            if seg "inv" <> "ok" then "bad:tables-not-inverse"
            else if seg "eq" <> want_eq then "bad:equality want " ^ want_eq
            else if seg "hash" <> want_hash then "bad:hash want " ^ want_hash
            else if ext && seg "ne" <> want_ne then "bad:inequality want " ^ want_ne
            else if ext && seg "leq" <> want_eq then "bad:list-equality want " ^ want_eq
            else if ext && seg "aeq" <> want_eq then "bad:array-equality want " ^ want_eq
            else if has_scope && seg "scope" <> show_gobs (nscope_run [] ks) then "bad:scope want " ^ show_gobs (nscope_run [] ks)
            else "ok"
        end in
      Printf.printf "%s\t%s\t%s\n" id model spec
    | _ -> failwith ("bad line: " ^ line))
