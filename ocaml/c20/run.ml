(* C20 model runner: stdin "ID<TAB>INPUT", stdout "ID<TAB>MODEL<TAB>SPEC".
   INPUT (keys are hex byte strings, "-" = empty):
     ksort k1 k2 ...                       MODEL = sorted_slices of (ki, i) in the given order
                                           SPEC  = the same model on the REVERSED presentation (the property:
                                                   the order of the walk is unobservable), cross-checked against
                                                   OCaml's own byte order on strings
     symtab R r.. F f.. Q q..              MODEL = symnums q (new_zlisp_symtab R F); SPEC = rank specification
                                           (3 + number of smaller builtin names) when F contains no null/nil
     named D d:t .. S s=v ..               MODEL = named_args_check D S (OK args in declared order | MISMATCH param);
                                           SPEC = the same on S reversed *)
open Model
open Zutil

let bytes_of_hex (h : string) : z list =
  if h = "-" then [] else begin
    let n = String.length h / 2 in
    List.init n (fun i -> z_of_int (int_of_string ("0x" ^ String.sub h (2 * i) 2)))
  end
let hex_of_bytes (l : z list) : string =
  if l = [] then "-" else String.concat "" (List.map (fun b -> Printf.sprintf "%02x" (int_of_z b)) l)
let raw_of_hex (h : string) : string =
  if h = "-" then "" else String.init (String.length h / 2) (fun i -> Char.chr (int_of_string ("0x" ^ String.sub h (2 * i) 2)))

let show_pairs l = String.concat " " (List.map (fun (k, i) -> hex_of_bytes k ^ "=" ^ string_of_int i) l)
let show_nums l = String.concat " " (List.map (function Some n -> string_of_int (int_of_nat n) | None -> "none") l)

let sections (toks : string list) (marks : string list) : (string * string list) list =
  let rec go cur acc out = function
    | [] -> List.rev ((cur, List.rev acc) :: out)
    | t :: r when List.mem t marks -> go t [] ((cur, List.rev acc) :: out) r
    | t :: r -> go cur (t :: acc) out r in
  go "" [] [] toks
let sec name secs = try List.assoc name secs with Not_found -> []

let () =
  iter_lines (fun line ->
    match split_tab line with
    | id :: body :: _ ->
      (match split_sp body with
       | "ksort" :: keys ->
         let pairs = List.mapi (fun i k -> (bytes_of_hex k, i)) keys in
         let m = show_pairs (sorted_slices pairs) in
         let s = show_pairs (sorted_slices (List.rev pairs)) in
         (* independent oracle: OCaml's String compare is bytewise *)
         let o = List.sort (fun (a, _) (b, _) -> compare a b) (List.mapi (fun i k -> (raw_of_hex k, i)) keys) in
         let o = String.concat " " (List.map (fun (k, i) ->
           (if k = "" then "-" else String.concat "" (List.map (fun c -> Printf.sprintf "%02x" (Char.code c)) (List.of_seq (String.to_seq k)))) ^ "=" ^ string_of_int i) o) in
         Printf.printf "%s\t%s\t%s\n" id m (if o = s then s else "ORACLE-MISMATCH " ^ o ^ " / " ^ s)
       | "symtab" :: rest ->
         let secs = sections rest ["R"; "F"; "Q"] in
         let r = List.map bytes_of_hex (sec "R" secs) and f = List.map bytes_of_hex (sec "F" secs)
         and q = List.map bytes_of_hex (sec "Q" secs) in
         let order = List.map (fun k -> (k, ())) f in
         let m = show_nums (symnums q (new_zlisp_symtab r order)) in
         let has_nullnil = List.mem s_null f || List.mem s_nil f in
         let s =
           if has_nullnil then "-"
           else String.concat " " (List.map (fun k ->
             if List.mem k f then string_of_int (int_of_nat (spec_builtin_symnum f k))
             else if k = s_null then "1" else if k = s_nil then "2" else "*") q) in
         Printf.printf "%s\t%s\t%s\n" id m s
       | "named" :: rest ->
         let secs = sections rest ["D"; "S"] in
         let tcode c = z_of_int (Char.code c) in
         let d = List.map (fun t -> match String.split_on_char ':' t with
                                    | [k; ty] -> (bytes_of_hex k, tcode ty.[0])
                                    | [k] -> (bytes_of_hex k, tcode 'i') | _ -> failwith "bad declared") (sec "D" secs) in
         let s = List.map (fun t -> match String.split_on_char '=' t with
                                    | [k; v] -> (bytes_of_hex k, v) | _ -> failwith "bad named arg") (sec "S" secs) in
         let tyof (v : string) = tcode v.[0] in
         let show = function
           | Inl p -> "MISMATCH " ^ hex_of_bytes p
           | Inr l -> "OK " ^ String.concat "" (List.map (function Some v -> String.sub v 1 (String.length v - 1) ^ "," | None -> "?,") l) in
         Printf.printf "%s\t%s\t%s\n" id (show (named_args_check tyof d s)) (show (named_args_check tyof d (List.rev s)))
       | _ -> failwith ("bad case: " ^ body))
    | _ -> failwith ("bad line: " ^ line))
