(* Conversions between decimal strings / OCaml ints and the extracted Coq Z.
   Compiled together with each property's extracted model.ml. *)
open Model

let rec pos_of_int (n : int) : positive =
  if n = 1 then XH else if n land 1 = 0 then XO (pos_of_int (n lsr 1)) else XI (pos_of_int (n lsr 1))
let z_of_int (n : int) : z = if n = 0 then Z0 else if n > 0 then Zpos (pos_of_int n) else Zneg (pos_of_int (-n))
let z10 = z_of_int 10

let z_of_string (s : string) : z =
  let neg = String.length s > 0 && s.[0] = '-' in
  let start = if neg || (String.length s > 0 && s.[0] = '+') then 1 else 0 in
  let acc = ref Z0 in
  for i = start to String.length s - 1 do
    let d = Char.code s.[i] - 48 in
    if d < 0 || d > 9 then failwith ("z_of_string: " ^ s);
    acc := Z.add (Z.mul !acc z10) (z_of_int d)
  done;
  if neg then Z.opp !acc else !acc

let rec int_of_pos (p : positive) : int =
  match p with XH -> 1 | XO q -> 2 * int_of_pos q | XI q -> 2 * int_of_pos q + 1
let int_of_z (x : z) : int = match x with Z0 -> 0 | Zpos p -> int_of_pos p | Zneg p -> - (int_of_pos p)

let string_of_z (x : z) : string =
  match x with
  | Z0 -> "0"
  | _ ->
    let neg, a = (match x with Zneg p -> true, Zpos p | _ -> false, x) in
    let buf = Buffer.create 24 in
    let cur = ref a in
    let digits = ref [] in
    while !cur <> Z0 do
      let (q, r) = Z.div_eucl !cur z10 in
      digits := (Char.chr (48 + int_of_z r)) :: !digits;
      cur := q
    done;
    if neg then Buffer.add_char buf '-';
    List.iter (Buffer.add_char buf) !digits;
    Buffer.contents buf

let rec nat_of_int (n : int) : nat = if n <= 0 then O else S (nat_of_int (n - 1))
let rec int_of_nat (n : nat) : int = match n with O -> 0 | S m -> 1 + int_of_nat m

(* split a line on tabs *)
let split_tab (s : string) : string list = String.split_on_char '\t' s
let split_sp (s : string) : string list = List.filter (fun x -> x <> "") (String.split_on_char ' ' s)

let iter_lines (f : string -> unit) : unit =
  (try while true do f (input_line stdin) done with End_of_file -> ())
