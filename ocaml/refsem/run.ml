(* RefSem model runner.  stdin lines:  ID <TAB> [fuel=N] [failat=K] FORM FORM ...
   stdout lines:  ID <TAB> OUTCOME <TAB> -
   FORM (prefix syntax, one token kind: atoms and parentheses):
     (int Z) (bool t|f) nil (str B1 B2 ..) (q DATUM) (var NAME) (arr E..) (call F A..)
     (begin E..) (cond (C B).. D) (and E..) (or E..) (def NAME E) (set NAME E)
     (let ((NAME E)..) B..) (letseq ((NAME E)..) B..) (scope E..)
     (for LABEL|- INIT TEST STEP B..) (break LABEL|-) (continue LABEL|-)
     (fn (P..) REST|- B..) (defn NAME (P..) REST|- B..)
   DATUM: Z | NAME | (DATUM..)
   NAME: a primitive name (+ - * < > <= >= == != not cons first rest list array aget aset
   append len map apply trace failk) or any other symbol; quoted symbols sa sb sc .. are
   numbered in the order sa < sb < sc (the harness interns them in that order).
   OUTCOME:  V:<value>|T:<trace>   E:<class>|T:<trace>   FUEL   UNSPEC
   <value>: I<z> Bt Bf N S<hex> Y<name> (P <v> <v>) [<v> ..] FN PRIM:<name> #  *)
open Model
open Zutil

type sx = A of string | L of sx list

let tokenize (s : string) : string list =
  let toks = ref [] and buf = Buffer.create 16 in
  let flush () = if Buffer.length buf > 0 then (toks := Buffer.contents buf :: !toks; Buffer.clear buf) in
  String.iter (fun c ->
    match c with
    | '(' | ')' -> flush (); toks := String.make 1 c :: !toks
    | ' ' -> flush ()
    | c -> Buffer.add_char buf c) s;
  flush (); List.rev !toks

let rec parse_sx (toks : string list) : sx * string list =
  match toks with
  | "(" :: r ->
    let rec items acc r =
      (match r with
       | ")" :: r' -> (L (List.rev acc), r')
       | [] -> failwith "unbalanced"
       | _ -> let (x, r') = parse_sx r in items (x :: acc) r') in
    items [] r
  | ")" :: _ -> failwith "unexpected )"
  | t :: r -> (A t, r)
  | [] -> failwith "empty"

let rec parse_all toks = match toks with [] -> [] | _ -> let (x, r) = parse_sx toks in x :: parse_all r

let prim_names = [
  "+", PAdd; "-", PSub; "*", PMul; "<", PLt; ">", PGt; "<=", PLe; ">=", PGe; "==", PEq; "!=", PNe;
  "not", PNot; "cons", PCons; "first", PFirst; "rest", PRest; "list", PList; "array", PArray;
  "aget", PAget; "aset", PAset; "append", PAppend; "len", PLen; "concat", PConcat; "/", PDiv; "map", PMap; "apply", PApply;
  "trace", PTrace; "failk", PFailK ]

let names : (string, int) Hashtbl.t = Hashtbl.create 64
let rev_names : (int, string) Hashtbl.t = Hashtbl.create 64
let next_id = ref 1000
let () = List.iter (fun s -> Hashtbl.replace names s !next_id; Hashtbl.replace rev_names !next_id s; incr next_id)
    ["sa"; "sb"; "sc"; "sd"; "se"]
let ident_of (s : string) : z =
  match List.assoc_opt s prim_names with
  | Some p -> prim_ident p
  | None ->
    (match Hashtbl.find_opt names s with
     | Some n -> z_of_int n
     | None -> let n = !next_id in incr next_id; Hashtbl.replace names s n; Hashtbl.replace rev_names n s; z_of_int n)
let name_of (i : z) : string =
  let n = int_of_z i in
  match Hashtbl.find_opt rev_names n with
  | Some s -> s
  | None ->
    (* a quoted symbol spelled like a builtin *)
    (match List.find_opt (fun (_, p) -> int_of_z (prim_ident p) = n) prim_names with
     | Some (s, _) -> s
     | None -> "?" ^ string_of_int n)

let is_int_tok s = String.length s > 0 && (let c = s.[0] in (c >= '0' && c <= '9') || (c = '-' && String.length s > 1 && s.[1] >= '0' && s.[1] <= '9'))

let rec datum_of (x : sx) : datum =
  match x with
  | A t ->
    if is_int_tok t then DInt (z_of_string t)
    else if String.length t > 2 && t.[0] = '%' && t.[1] = 'f' then DFlt (z_of_string (String.sub t 2 (String.length t - 2)))
    else if String.length t > 2 && t.[0] = '%' && t.[1] = 'c' then DChr (z_of_string (String.sub t 2 (String.length t - 2)))
    else DSym (ident_of t)
  | L xs -> DList (List.map datum_of xs)

let label_of (x : sx) : z option = match x with A "-" -> None | A t -> Some (ident_of t) | _ -> failwith "label"
let name_atom (x : sx) : z = match x with A t -> ident_of t | _ -> failwith "name expected"

let rec expr_of (x : sx) : expr =
  match x with
  | A "nil" -> ENil
  | L [A "int"; A z] -> EInt (z_of_string z)
  | L [A "bool"; A b] -> EBool (b = "t")
  | L (A "str" :: bs) -> EStr (List.map (function A b -> z_of_string b | _ -> failwith "str") bs)
  | L [A "q"; d] -> EQuote (datum_of d)
  | L [A "var"; A n] -> EVar (ident_of n)
  | L (A "arr" :: es) -> EArr (List.map expr_of es)
  | L (A "call" :: f :: args) -> ECall (expr_of f, List.map expr_of args)
  | L (A "begin" :: es) -> EBegin (List.map expr_of es)
  | L (A "cond" :: rest) ->
    let rec split acc r = (match r with
        | [d] -> (List.rev acc, expr_of d)
        | L [c; b] :: r' -> split ((expr_of c, expr_of b) :: acc) r'
        | _ -> failwith "cond") in
    let (arms, d) = split [] rest in ECond (arms, d)
  | L (A "and" :: es) -> EAnd (List.map expr_of es)
  | L (A "or" :: es) -> EOr (List.map expr_of es)
  | L [A "def"; n; e] -> EDef (name_atom n, expr_of e)
  | L [A "set"; n; e] -> ESet (name_atom n, expr_of e)
  | L (A "let" :: L bs :: body) -> ELet (false, binds_of bs, List.map expr_of body)
  | L (A "letseq" :: L bs :: body) -> ELet (true, binds_of bs, List.map expr_of body)
  | L (A "scope" :: es) -> EScope (List.map expr_of es)
  | L (A "for" :: lbl :: i :: t :: s :: body) -> EFor (label_of lbl, expr_of i, expr_of t, expr_of s, List.map expr_of body)
  | L [A "break"; lbl] -> EBreak (label_of lbl)
  | L [A "continue"; lbl] -> ECont (label_of lbl)
  | L (A "fn" :: L ps :: rest :: body) -> EFn (List.map name_atom ps, label_of rest, List.map expr_of body)
  | L (A "defn" :: n :: L ps :: rest :: body) -> EDefn (name_atom n, List.map name_atom ps, label_of rest, List.map expr_of body)
  | _ -> failwith "bad form"
and binds_of bs = List.map (function L [n; e] -> (name_atom n, expr_of e) | _ -> failwith "binding") bs

let prim_name p = let rec f = function [] -> "?" | (n, q) :: r -> if q = p then n else f r in f prim_names

let hex_of (bs : z list) : string =
  String.concat "" (List.map (fun b -> Printf.sprintf "%02x" (int_of_z b)) bs)

let rec show (v : sval) : string =
  match v with
  | SvInt z -> "I" ^ string_of_z z
  | SvBool true -> "Bt" | SvBool false -> "Bf"
  | SvNil -> "N"
  | SvStr s -> "S" ^ hex_of s
  | SvSym s -> "Y" ^ name_of s
  | SvPair (h, t) -> "(P " ^ show h ^ " " ^ show t ^ ")"
  | SvArr l -> "[" ^ String.concat " " (List.map show l) ^ "]"
  | SvFn -> "FN"
  | SvPrim p -> "PRIM:" ^ prim_name p
  | SvCut -> "#"
  | SvFlt (m, e) -> "F" ^ string_of_z m ^ "p" ^ string_of_z e
  | SvChr c -> "C" ^ string_of_z c

let show_trace (t : sval list list) : string =
  String.concat ";" (List.map (fun args -> String.concat "," (List.map show args)) t)

let err_name = function EUnbound -> "unbound" | EUser -> "user" | ELoop -> "loop" | EOther -> "other" | EUnspec -> "unspec"

let show_outcome (o : outcome) : string =
  match o.o_res with
  | Done v -> "V:" ^ show v ^ "|T:" ^ show_trace o.o_trace
  | Sig (SErr EUnspec) -> "UNSPEC"
  | Sig (SErr e) -> "E:" ^ err_name e ^ "|T:" ^ show_trace o.o_trace
  | Sig _ -> "E:loop|T:" ^ show_trace o.o_trace
  | Fuel -> "FUEL"

(* listing of the Gallina generator model (coq/Model/GenF0.v) in the format of the real InstrString() *)
let quote_str (bs : z list) : string =
  "\"" ^ String.concat "" (List.map (fun b -> String.make 1 (Char.chr (int_of_z b))) bs) ^ "\""
let show_lit (e : expr) : string =
  match e with
  | EInt z -> string_of_z z
  | EBool true -> "true" | EBool false -> "false"
  | ENil -> "nil"
  | EStr s -> quote_str s
  | _ -> "?"
let show_instr (scope_names : string list ref) (i : instr) : string =
  match i with
  | IPush e -> "push " ^ show_lit e
  | IEnvToStack x -> "envToStack " ^ name_of x
  | IPop -> "pop"
  | IDup -> "dup"
  | IBranch (true, off) -> "br " ^ string_of_int (int_of_nat off)
  | IBranch (false, off) -> "brn " ^ string_of_int (int_of_nat off)
  | IJump off -> "jump " ^ string_of_int (int_of_nat off)
  | IPutEnv x -> "popStackPutEnv " ^ name_of x
  | IUpdate x -> "putup " ^ name_of x
  | IAddScope -> (match !scope_names with n :: r -> scope_names := r; "add scope " ^ n | [] -> "add scope ?")
  | IRemoveScope -> "rem runtime scope"
  | ICallExpr (_, args) -> "callExpr " ^ string_of_int (List.length args)

(* the names the real AddScopeInstr carries, in the order the generator emits them *)
let rec scope_names_of (e : expr) : string list =
  match e with
  | EBegin es | EAnd es | EOr es -> List.concat_map scope_names_of es
  | ECond (arms, d) -> List.concat_map (fun (c, b) -> scope_names_of c @ scope_names_of b) arms @ scope_names_of d
  | EDef (_, e1) | ESet (_, e1) -> scope_names_of e1
  | ELet (seq, bs, body) ->
    (if seq then "runtime letseq" else "runtime let") :: (List.concat_map (fun (_, e1) -> scope_names_of e1) bs @ List.concat_map scope_names_of body)
  | EScope es -> "newScope" :: List.concat_map scope_names_of es
  | _ -> []

let listing (forms : expr list) : string =
  let e = EBegin forms in
  if not (f0 e) then "NOTF0"
  else begin
    let names = ref (scope_names_of e) in
    String.concat ";" (List.map (show_instr names) (gen e))
  end

(* listing of the F1 generator model (coq/Model/GenF1.v).  The extraction renames the second
   instruction type: its constructors are IPush0 .. ICallExpr0, ILoopStart .. ICont. *)
let rec scope_names_f1 (e : expr) : string list =
  match e with
  | EBegin es | EAnd es | EOr es -> List.concat_map scope_names_f1 es
  | ECond (arms, d) -> List.concat_map (fun (c, b) -> scope_names_f1 c @ scope_names_f1 b) arms @ scope_names_f1 d
  | EDef (_, e1) | ESet (_, e1) -> scope_names_f1 e1
  | ELet (seq, bs, body) ->
    (if seq then "runtime letseq" else "runtime let") :: (List.concat_map (fun (_, e1) -> scope_names_f1 e1) bs @ List.concat_map scope_names_f1 body)
  | EScope es -> "newScope" :: List.concat_map scope_names_f1 es
  | EFor (_, i, t, st, body) ->
    "LOOP" :: (scope_names_f1 i @ scope_names_f1 st @ scope_names_f1 t @ List.concat_map scope_names_f1 body)
  | _ -> []

let show_f1 (names0 : string list) (fname : string) (code : instr0 list) : string =
    let names = ref names0 in
    let loopnames : (int, string) Hashtbl.t = Hashtbl.create 8 in
    let lname id = let i = int_of_nat id in
      (match Hashtbl.find_opt loopnames i with
       | Some s -> s
       | None -> let s = "L" ^ string_of_int (Hashtbl.length loopnames + 1) in Hashtbl.replace loopnames i s; s) in
    let last_loop = ref "" in
    let ni n = string_of_int (int_of_nat n) in
    let show i = match i with
      | IPush0 e -> "push " ^ show_lit e
      | IEnvToStack0 x -> "envToStack " ^ name_of x
      | IPop0 -> "pop"
      | IDup0 -> "dup"
      | IBranch0 (true, off) -> "br " ^ ni off
      | IBranch0 (false, off) -> "brn " ^ ni off
      | IJump0 off -> "jump " ^ ni off
      | IJumpBack off -> "jump -" ^ ni off
      | IPutEnv0 x -> "popStackPutEnv " ^ name_of x
      | IUpdate0 x -> "putup " ^ name_of x
      | IAddScope0 ->
        (match !names with
         | "LOOP" :: r -> names := r; "add scope runtime " ^ !last_loop
         | n :: r -> names := r; "add scope " ^ n
         | [] -> "add scope ?")
      | IRemoveScope0 -> "rem runtime scope"
      | ICallExpr0 (_, args) -> "callExpr " ^ string_of_int (List.length args)
      | ILoopStart (id, bo, co) -> last_loop := lname id; "loopstart " ^ lname id ^ " brk=" ^ ni bo ^ " cont=" ^ ni co
      | ILabel -> "label"
      | IPushMark id -> "push-stack-mark " ^ lname id
      | IPopUntilMark id -> "pop-until-stack-mark " ^ lname id
      | IClearMark id -> "clear-stack-mark " ^ lname id
      | IBreak (id, k) -> "break " ^ lname id ^ " pop=" ^ ni k
      | ICont (id, k) -> "continue " ^ lname id ^ " pop=" ^ ni k
      | IAddFuncScope -> "add func scope runtime " ^ fname
      | IReturn -> "ret" in
    String.concat ";" (List.map show code)

let listing_f1 (forms : expr list) : string =
  let e = EBegin forms in
  if not (f1_ok e && cc [] e) then "NOTF1"
  else show_f1 (scope_names_f1 e) "" (f1_gen f1_top O e)

(* bytecode=3: one (defn NAME (P..) - BODY..): the code of the function body (GenF1.fun_code) *)
let listing_fn (forms : expr list) : string =
  match forms with
  | [EDefn (nm, ps, None, body)] ->
    if List.for_all f1_ok body && f1_init_ne body && List.for_all (cc []) body
    then show_f1 (List.concat_map scope_names_f1 body) (name_of nm) (f1_fun_code ps body)
    else "NOTF2"
  | _ -> "NOTF2"

(* scope=1: replay the scope events of a real run on the extracted machine coq/Model/ScopeImpl.v and
   print, at every "d" event, the lookup structure in the format of harness/cmd/c03scope:
   L:<live scopes, top first>|C:<captured stack of the current function and of its parents> *)
let replay_scope (evs : string list) : string =
  let st = ref init_istateF in
  let tbl : (int, fnF) Hashtbl.t = Hashtbl.create 16 in
  Hashtbl.replace tbl 0 !st.curF;
  let next = ref 1 in
  let outs = ref [] in
  let premise_bad = ref false in
  let dump () =
    let num : (int, int) Hashtbl.t = Hashtbl.create 16 in
    let n i = (match Hashtbl.find_opt num i with Some k -> k | None -> let k = Hashtbl.length num + 1 in Hashtbl.replace num i k; k) in
    let sc (s : scopeF) =
      let base = string_of_int (n (int_of_nat s.sf_id)) in
      if s.sf_fun then base ^ "f{" ^ String.concat "." (List.map (fun t -> string_of_int (n (int_of_nat t))) s.sf_tmpl) ^ "}" else base in
    let lst l = String.concat "." (List.rev (List.fold_left (fun acc x -> sc x :: acc) [] l)) in
    let l = "L:" ^ lst !st.liveF in
    let rec chain f = match f with
      | GMain cl -> ["[" ^ lst cl ^ "]"]
      | GSub (_, cl, par) ->
        let here = (match cl with Some c -> "[" ^ lst c ^ "]" | None -> "-") in   (* numbered before the parents *)
        let rest = chain par in here :: rest in
    let body = l ^ "|C:" ^ String.concat ";" (chain !st.curF) in
    (* the invariant cov of Proofs/ScopeImplProofs.v, in its decidable form, tested at every dump; the premise of
       cov_call / cov_tail_call tested at every function entry.  A failure marks the dump, which then cannot equal
       the real one, so the tie reports it. *)
    let body = if covb !st then body else body ^ "!COV" in
    if !premise_bad then (premise_bad := false; body ^ "!PREMISE") else body in
  let num_of s = int_of_string (String.sub s 1 (String.length s - 1)) in
  List.iter (fun e ->
    match e.[0] with
    | 'p' -> let id = nat_of_int !next in incr next;
      if String.length e >= 2 && e.[1] = '1' then begin
        let ts = if String.length e > 3 then String.split_on_char '.' (String.sub e 3 (String.length e - 3)) else [] in
        let ts = List.filter (fun x -> x <> "") ts in
        let tm = List.map (fun t -> nat_of_int (int_of_string t)) ts in
        if not (call_premise_b tm !st.curF) then premise_bad := true;
        st := add_func_scopeF id tm !st
      end else st := add_scopeF id !st
    | 'o' -> st := pop_scopesF (nat_of_int (num_of e)) !st
    | 'c' -> Hashtbl.replace tbl (num_of e) (create_closureF !st)
    | 's' ->
      (match String.split_on_char ':' (String.sub e 1 (String.length e - 1)) with
       | [id; par] ->
         st := set_curF (Hashtbl.find tbl (int_of_string par)) !st;
         let f = pseudoF !st in Hashtbl.replace tbl (int_of_string id) f; st := set_curF f !st
       | _ -> failwith "bad s event")
    | 'u' -> st := set_curF (Hashtbl.find tbl (num_of e)) !st
    | 'd' -> outs := dump () :: !outs
    | _ -> failwith ("bad scope event " ^ e)) evs;
  String.concat " " (List.rev !outs)

let () =
  iter_lines (fun line ->
    match split_tab line with
    | id :: body :: _ when String.length body >= 7 && String.sub body 0 7 = "scope=1" ->
      (try
        let evs = List.filter (fun x -> x <> "") (String.split_on_char ' ' (String.sub body 7 (String.length body - 7))) in
        Printf.printf "%s\t%s\t-\n%!" id (replay_scope evs)
      with Failure m -> Printf.printf "%s\tBADINPUT:%s\t-\n%!" id m | Not_found -> Printf.printf "%s\tBADINPUT:unknown function\t-\n%!" id)
    | id :: body :: _ ->
      (try
        let fuel = ref 300 and failat = ref 0 and bytecode = ref false and f1mode = ref false and fnmode = ref false in
        let toks = tokenize body in
        let rec opts = function
          | t :: r when String.length t > 5 && String.sub t 0 5 = "fuel=" -> fuel := int_of_string (String.sub t 5 (String.length t - 5)); opts r
          | t :: r when String.length t > 7 && String.sub t 0 7 = "failat=" -> failat := int_of_string (String.sub t 7 (String.length t - 7)); opts r
          | "bytecode=1" :: r -> bytecode := true; opts r
          | "bytecode=2" :: r -> bytecode := true; f1mode := true; opts r
          | "bytecode=3" :: r -> bytecode := true; fnmode := true; opts r
          | t :: r when t <> "(" && t <> ")" && String.contains t '=' && t <> "==" && t <> "!=" && t <> "<=" && t <> ">=" -> opts r
          | r -> r in
        let toks = opts toks in
        let forms = List.map expr_of (parse_all toks) in
        if !bytecode then Printf.printf "%s\t%s\t-\n%!" id (if !fnmode then listing_fn forms else if !f1mode then listing_f1 forms else listing forms)
        else begin
          let o = eval_program_cfg (nat_of_int !fuel) (nat_of_int !failat) forms in
          Printf.printf "%s\t%s\t-\n%!" id (show_outcome o)
        end
      with Failure m -> Printf.printf "%s\tBADINPUT:%s\t-\n%!" id m)
    | _ -> failwith ("bad line: " ^ line))
