// census: tie (T) of property C20.  Type-checks package zygo of the repository (go/types with the
// "source" importer: the third-party modules are read from the module cache, offline) and writes
// coq/Generated/Census.v:
//
//	generated_census  : every `for ... range <expression of map type>` of the non-test files, with
//	                    file, enclosing function, ordinal of the walk inside that function, the map
//	                    expression and a classification computed syntactically from the loop body
//	                    and from what follows the loop;
//	generated_globals : every package-level variable whose type can hold shared mutable state
//	                    (map, slice, pointer, channel, or a struct containing one) that is written
//	                    outside init(), with the writers.
//
// Fails loudly (non-zero exit) when the package does not type-check or a range operand has no type.
package main

import (
	"flag"
	"fmt"
	"go/ast"
	"go/build"
	"go/importer"
	"go/parser"
	"go/token"
	"go/types"
	"os"
	"path/filepath"
	"sort"
	"strings"
)

type site struct {
	file, fn   string
	idx        int
	mapExpr    string
	class      string
	keyDirect  bool
	calls      []string
	line       int
	detail     string
	sortedWith string
}

type global struct {
	file, name, typ string
	writers         []string
}

var (
	fset      *token.FileSet
	info      *types.Info
	pkg       *types.Package
	funcDecls = map[*types.Func]*ast.FuncDecl{}
)

func die(f string, a ...interface{}) {
	fmt.Fprintf(os.Stderr, "census: "+f+"\n", a...)
	os.Exit(1)
}

func main() {
	repo := flag.String("repo", "/repo", "repository root")
	out := flag.String("out", "", "output .v file")
	flag.Parse()
	if *out == "" {
		die("--out required")
	}
	dir := filepath.Join(*repo, "zygo")
	os.Setenv("GOFLAGS", "-mod=mod")
	os.Setenv("GOPROXY", "off")
	os.Unsetenv("GOTOOLCHAIN")
	if err := os.Chdir(dir); err != nil {
		die("%v", err)
	}
	fset = token.NewFileSet()
	ctx := build.Default
	ctx.BuildTags = nil
	bp, err := ctx.ImportDir(dir, 0)
	if err != nil {
		die("cannot list package zygo: %v", err)
	}
	names := append([]string{}, bp.GoFiles...)
	sort.Strings(names)
	var files []*ast.File
	for _, f := range names {
		af, err := parser.ParseFile(fset, filepath.Join(dir, f), nil, 0)
		if err != nil {
			die("parse %s: %v", f, err)
		}
		files = append(files, af)
	}
	if len(files) < 20 {
		die("only %d source files found in %s", len(files), dir)
	}
	var terrs []string
	conf := types.Config{
		Importer: importer.ForCompiler(fset, "source", nil),
		Error:    func(err error) { terrs = append(terrs, err.Error()) },
	}
	info = &types.Info{
		Types: map[ast.Expr]types.TypeAndValue{},
		Defs:  map[*ast.Ident]types.Object{},
		Uses:  map[*ast.Ident]types.Object{},
	}
	pkg, _ = conf.Check("zygo", fset, files, info)
	if len(terrs) > 0 {
		if len(terrs) > 8 {
			terrs = terrs[:8]
		}
		die("package zygo does not type-check (go/types, source importer):\n  %s", strings.Join(terrs, "\n  "))
	}

	for _, f := range files {
		for _, d := range f.Decls {
			if fd, ok := d.(*ast.FuncDecl); ok {
				if fn, ok := info.Defs[fd.Name].(*types.Func); ok {
					funcDecls[fn] = fd
				}
			}
		}
	}
	var sites []site
	for _, f := range files {
		fname := filepath.Base(fset.Position(f.Pos()).Filename)
		if strings.HasPrefix(fname, "verif_") {
			continue // the verification hooks are not part of the subject
		}
		for _, d := range f.Decls {
			fd, ok := d.(*ast.FuncDecl)
			if !ok || fd.Body == nil {
				continue
			}
			fn := funcName(fd)
			walkBlocks(fd.Body, func(list []ast.Stmt, i int, label string) {
				rs, ok := list[i].(*ast.RangeStmt)
				if !ok {
					return
				}
				tv, ok := info.Types[rs.X]
				if !ok || tv.Type == nil {
					die("%s: range operand without a type", fset.Position(rs.Pos()))
				}
				if _, isMap := tv.Type.Underlying().(*types.Map); !isMap {
					return
				}
				s := classify(rs, list[i+1:], label)
				s.file, s.fn = fname, fn
				s.mapExpr = types.ExprString(rs.X)
				s.line = fset.Position(rs.Pos()).Line
				sites = append(sites, s)
			})
		}
	}
	sort.SliceStable(sites, func(i, j int) bool {
		if sites[i].file != sites[j].file {
			return sites[i].file < sites[j].file
		}
		return sites[i].line < sites[j].line
	})
	count := map[string]int{}
	for i := range sites {
		k := sites[i].file + ":" + sites[i].fn
		sites[i].idx = count[k]
		count[k]++
	}
	if len(sites) == 0 {
		die("no map walk found: the source no longer has the shape this tool understands")
	}
	globals := findGlobals(files)
	write(*out, sites, globals)
	fmt.Printf("census: %d map walks, %d written package-level variables\n", len(sites), len(globals))
}

func funcName(fd *ast.FuncDecl) string {
	if fd.Recv != nil && len(fd.Recv.List) > 0 {
		t := fd.Recv.List[0].Type
		if st, ok := t.(*ast.StarExpr); ok {
			t = st.X
		}
		return types.ExprString(t) + "." + fd.Name.Name
	}
	return fd.Name.Name
}

// walkBlocks calls f for every statement with the statement list that contains it (so that
// the statements FOLLOWING a loop are known) and the label attached to it.
func walkBlocks(n ast.Node, f func(list []ast.Stmt, i int, label string)) {
	var visitList func(list []ast.Stmt)
	visitList = func(list []ast.Stmt) {
		for i, st := range list {
			label := ""
			if ls, ok := st.(*ast.LabeledStmt); ok {
				label = ls.Label.Name
				list2 := append([]ast.Stmt{}, list...)
				list2[i] = ls.Stmt
				f(list2, i, label)
			} else {
				f(list, i, "")
			}
		}
	}
	ast.Inspect(n, func(x ast.Node) bool {
		switch b := x.(type) {
		case *ast.BlockStmt:
			visitList(b.List)
		case *ast.CaseClause:
			visitList(b.Body)
		case *ast.CommClause:
			visitList(b.Body)
		}
		return true
	})
}

func objOf(e ast.Expr) types.Object {
	if id, ok := e.(*ast.Ident); ok {
		if o := info.Uses[id]; o != nil {
			return o
		}
		return info.Defs[id]
	}
	return nil
}

func isMapType(e ast.Expr) bool {
	tv, ok := info.Types[e]
	if !ok || tv.Type == nil {
		return false
	}
	_, m := tv.Type.Underlying().(*types.Map)
	return m
}

func isStringType(e ast.Expr) bool {
	tv, ok := info.Types[e]
	if !ok || tv.Type == nil {
		return false
	}
	b, ok := tv.Type.Underlying().(*types.Basic)
	return ok && b.Info()&types.IsString != 0
}

func isNumeric(e ast.Expr) bool {
	tv, ok := info.Types[e]
	if !ok || tv.Type == nil {
		return false
	}
	b, ok := tv.Type.Underlying().(*types.Basic)
	return ok && b.Info()&types.IsNumeric != 0
}

var outputFuncs = map[string]bool{"Print": true, "Printf": true, "Println": true, "Fprint": true, "Fprintf": true, "Fprintln": true,
	"Write": true, "WriteString": true}

type effects struct {
	exits      []string        // return / break / panic / goto out of the walk
	exitConst  bool            // every exit is `return <constants>`
	appends    map[string]bool // slices appended to (printed expression)
	appendElem []ast.Expr      // the elements appended (nil entry: append(s, xs...))
	fills      []string        // maps assigned into
	fillDirect bool            // every fill uses exactly the walk's key variable as index
	deletes    int
	accum      []string // numeric accumulators
	strcat     []string // string concatenations
	output     []string // fmt.Print* and friends
	calls      map[string]bool
	otherWrite []string // assignments to anything declared outside the body
}

func classify(rs *ast.RangeStmt, following []ast.Stmt, label string) site {
	ef := &effects{appends: map[string]bool{}, calls: map[string]bool{}, exitConst: true, fillDirect: true}
	var keyObj types.Object
	if id, ok := rs.Key.(*ast.Ident); ok && id.Name != "_" {
		keyObj = info.Defs[id]
		if keyObj == nil {
			keyObj = info.Uses[id]
		}
	}
	local := map[types.Object]bool{}
	scan(rs.Body, rs, label, 0, keyObj, local, ef)

	s := site{keyDirect: ef.fillDirect}
	for c := range ef.calls {
		s.calls = append(s.calls, c)
	}
	sort.Strings(s.calls)
	var why []string
	add := func(f string, a ...interface{}) { why = append(why, fmt.Sprintf(f, a...)) }
	switch {
	case len(ef.output) > 0 || len(ef.strcat) > 0:
		s.class = "OrderObservable"
		add("writes output in walk order: %s", strings.Join(append(ef.output, ef.strcat...), ", "))
	case len(ef.exits) > 0:
		if ef.exitConst && len(ef.appends) == 0 && len(ef.fills) == 0 && len(ef.accum) == 0 && len(ef.otherWrite) == 0 && ef.deletes == 0 {
			s.class = "ExistsQuery"
			add("leaves the walk only by returning constants (%s); no other effect", strings.Join(ef.exits, "; "))
		} else {
			s.class = "EarlyExitFirstMatch"
			add("leaves the walk at the first element that satisfies a condition: %s", strings.Join(ef.exits, "; "))
		}
	case len(ef.appends) > 0:
		// collected into a slice: order-independent only when that slice is sorted before any other use
		if len(ef.appends) == 1 && len(ef.fills) == 0 && len(ef.accum) == 0 && len(ef.otherWrite) == 0 {
			var sl string
			for k := range ef.appends {
				sl = k
			}
			if how, call := sortedNext(sl, following); how != "" {
				s.sortedWith = how
				plain, desc := comparator(how, call, keyObj, ef.appendElem)
				if plain {
					s.class = "SortedAfter"
				} else {
					s.class = "SortedCustomComparator"
				}
				add("collects into %s, next use of %s is %s; comparator: %s", sl, sl, how, desc)
				break
			}
		}
		s.class = "OrderObservable"
		ks := []string{}
		for k := range ef.appends {
			ks = append(ks, k)
		}
		sort.Strings(ks)
		add("appends to %s in walk order without sorting it before its next use", strings.Join(ks, ", "))
	case len(ef.otherWrite) > 0:
		s.class = "OrderObservable"
		add("assigns to %s (last writer wins)", strings.Join(ef.otherWrite, ", "))
	case len(ef.fills) > 0 || len(ef.accum) > 0 || ef.deletes > 0:
		s.class = "CommutativeFill"
		add("fills %s / accumulates %s / %d deletes", strings.Join(ef.fills, ","), strings.Join(ef.accum, ","), ef.deletes)
	case len(s.calls) > 0:
		s.class = "CallsOnly"
		add("only calls %s with the element", strings.Join(s.calls, ", "))
	default:
		s.class = "CommutativeFill"
		add("no effect")
	}
	s.detail = strings.Join(why, "; ")
	return s
}

// sortedNext: the first following statement that mentions the slice must be a sort call on it.
func sortedNext(sl string, following []ast.Stmt) (string, *ast.CallExpr) {
	for _, st := range following {
		if !mentions(st, sl) {
			continue
		}
		es, ok := st.(*ast.ExprStmt)
		if !ok {
			return "", nil
		}
		call, ok := es.X.(*ast.CallExpr)
		if !ok {
			return "", nil
		}
		sel, ok := call.Fun.(*ast.SelectorExpr)
		if !ok {
			return "", nil
		}
		pk, ok := sel.X.(*ast.Ident)
		if !ok {
			return "", nil
		}
		if pn, ok := info.Uses[pk].(*types.PkgName); !ok || pn.Imported().Path() != "sort" {
			return "", nil
		}
		switch sel.Sel.Name {
		case "Strings", "Ints", "Float64s", "Slice", "SliceStable", "Sort", "Stable":
			return "sort." + sel.Sel.Name, call
		}
		return "", nil
	}
	return "", nil
}

// comparator decides whether the order used by the sort call is the plain `<` on a string or
// integer that is the walk's KEY (keys of one map are pairwise distinct, so no two collected
// items tie -- the side condition of sorted_walk_indep).  Anything else (a Less method or a
// sort.Slice function that is not literally `x[i].F < x[j].F`, a compared field that is not
// filled with the walk key, sort.Float64s) is a custom comparator.
func comparator(how string, call *ast.CallExpr, keyObj types.Object, elems []ast.Expr) (bool, string) {
	if call == nil || len(call.Args) == 0 {
		return false, "no argument"
	}
	var field string // "" = the element itself
	var desc string
	switch how {
	case "sort.Strings", "sort.Ints":
		desc = how + " (plain < on the element)"
	case "sort.Float64s":
		return false, "sort.Float64s (NaN ties)"
	case "sort.Sort", "sort.Stable":
		tv, ok := info.Types[call.Args[0]]
		if !ok || tv.Type == nil {
			return false, "argument without type"
		}
		obj, _, _ := types.LookupFieldOrMethod(tv.Type, true, pkg, "Less")
		fn, ok := obj.(*types.Func)
		if !ok {
			return false, "no Less method found for " + tv.Type.String()
		}
		fd := funcDecls[fn]
		if fd == nil || fd.Body == nil || fd.Recv == nil || len(fd.Recv.List) == 0 || len(fd.Recv.List[0].Names) == 0 {
			return false, "Less of " + types.TypeString(tv.Type, types.RelativeTo(pkg)) + " is not declared in package zygo"
		}
		name := types.TypeString(tv.Type, types.RelativeTo(pkg)) + ".Less"
		f, why := plainLess(fd.Body, fd.Recv.List[0].Names[0].Name, fd.Type.Params)
		if why != "" {
			return false, name + ": " + why
		}
		field, desc = f, name+" is plain < on ["+f+"]"
	case "sort.Slice", "sort.SliceStable":
		if len(call.Args) != 2 {
			return false, "unexpected arguments"
		}
		fl, ok := call.Args[1].(*ast.FuncLit)
		if !ok {
			return false, "the less function is not a literal"
		}
		f, why := plainLess(fl.Body, types.ExprString(call.Args[0]), fl.Type.Params)
		if why != "" {
			return false, how + " function: " + why
		}
		field, desc = f, how+" function is plain < on ["+f+"]"
	default:
		return false, how
	}
	// the compared thing must be the walk key
	if keyObj == nil {
		return false, desc + ", but the walk has no key variable"
	}
	if len(elems) == 0 {
		return false, desc + ", but nothing is appended"
	}
	for _, e := range elems {
		if e == nil {
			return false, desc + ", but elements are appended with ..."
		}
		if field == "" {
			if objOf(e) != keyObj {
				return false, desc + ", but the appended element " + types.ExprString(e) + " is not the walk key"
			}
			continue
		}
		if u, ok := e.(*ast.UnaryExpr); ok && u.Op == token.AND {
			e = u.X
		}
		cl, ok := e.(*ast.CompositeLit)
		if !ok {
			return false, desc + ", but the appended element " + types.ExprString(e) + " is not a composite literal"
		}
		found := false
		for _, el := range cl.Elts {
			kv, ok := el.(*ast.KeyValueExpr)
			if !ok {
				continue
			}
			if id, ok := kv.Key.(*ast.Ident); ok && id.Name == field {
				if objOf(kv.Value) == keyObj {
					found = true
				} else {
					return false, desc + ", but field " + field + " is filled with " + types.ExprString(kv.Value) + ", not with the walk key"
				}
			}
		}
		if !found {
			return false, desc + ", but field " + field + " is not filled with the walk key"
		}
	}
	return true, desc + " = the walk key"
}

// plainLess: the body must be exactly `return base[i].F < base[j].F` (F a possibly empty field
// path, i and j the two parameters in this order) on strings or integers.  Returns F.
func plainLess(body *ast.BlockStmt, base string, params *ast.FieldList) (string, string) {
	var pn []string
	for _, f := range params.List {
		for _, n := range f.Names {
			pn = append(pn, n.Name)
		}
	}
	if len(pn) != 2 {
		return "", "not two parameters"
	}
	if len(body.List) != 1 {
		return "", "body is not a single return statement"
	}
	rt, ok := body.List[0].(*ast.ReturnStmt)
	if !ok || len(rt.Results) != 1 {
		return "", "body is not a single return statement"
	}
	be, ok := rt.Results[0].(*ast.BinaryExpr)
	if !ok || be.Op != token.LSS {
		return "", "result is not an `x < y` expression: " + types.ExprString(rt.Results[0])
	}
	side := func(e ast.Expr, idx string) (string, bool) {
		path := []string{}
		for {
			if se, ok := e.(*ast.SelectorExpr); ok {
				path = append([]string{se.Sel.Name}, path...)
				e = se.X
				continue
			}
			break
		}
		ix, ok := e.(*ast.IndexExpr)
		if !ok || types.ExprString(ix.X) != base || types.ExprString(ix.Index) != idx {
			return "", false
		}
		return strings.Join(path, "."), true
	}
	fx, okx := side(be.X, pn[0])
	fy, oky := side(be.Y, pn[1])
	if !okx || !oky || fx != fy {
		return "", "operands are not " + base + "[" + pn[0] + "].F and " + base + "[" + pn[1] + "].F: " + types.ExprString(be)
	}
	tv, ok := info.Types[be.X]
	if !ok {
		return "", "operand without type"
	}
	b, ok := tv.Type.Underlying().(*types.Basic)
	if !ok || b.Info()&(types.IsString|types.IsInteger) == 0 {
		return "", "compared values are neither strings nor integers"
	}
	return fx, ""
}

func mentions(n ast.Node, name string) bool {
	found := false
	ast.Inspect(n, func(x ast.Node) bool {
		if e, ok := x.(ast.Expr); ok {
			if types.ExprString(e) == name {
				found = true
			}
		}
		return !found
	})
	return found
}

func isConstExpr(e ast.Expr) bool {
	if tv, ok := info.Types[e]; ok {
		if tv.Value != nil || tv.IsNil() {
			return true
		}
	}
	if id, ok := e.(*ast.Ident); ok {
		// package-level variables that are never reassigned are not tracked: only true constants count
		_ = id
	}
	return false
}

// scan collects the effects of the statements of a walk body.  depth counts the enclosing
// for/switch/select statements INSIDE the body (an unlabeled break inside them does not leave the walk).
func scan(n ast.Node, rs *ast.RangeStmt, label string, depth int, keyObj types.Object, local map[types.Object]bool, ef *effects) {
	declaredInside := func(e ast.Expr) bool {
		// root identifier of e declared inside the walk body (or the walk's own key/value)?
		for {
			switch x := e.(type) {
			case *ast.SelectorExpr:
				e = x.X
				continue
			case *ast.IndexExpr:
				e = x.X
				continue
			case *ast.StarExpr:
				e = x.X
				continue
			case *ast.ParenExpr:
				e = x.X
				continue
			}
			break
		}
		o := objOf(e)
		if o == nil {
			return false
		}
		return o.Pos() >= rs.Pos() && o.Pos() <= rs.End()
	}
	var visit func(n ast.Node, depth int)
	visitStmts := func(l []ast.Stmt, depth int) {
		for _, s := range l {
			visit(s, depth)
		}
	}
	exprCalls := func(e ast.Node) {
		ast.Inspect(e, func(x ast.Node) bool {
			switch c := x.(type) {
			case *ast.FuncLit:
				return false
			case *ast.CallExpr:
				if tv, ok := info.Types[c.Fun]; ok && tv.IsType() {
					return true // conversion
				}
				name := types.ExprString(c.Fun)
				if id, ok := c.Fun.(*ast.Ident); ok {
					if _, isB := info.Uses[id].(*types.Builtin); isB {
						if id.Name == "panic" {
							ef.exits = append(ef.exits, "panic(...)")
							ef.exitConst = false
						}
						return true
					}
				}
				if sel, ok := c.Fun.(*ast.SelectorExpr); ok {
					if outputFuncs[sel.Sel.Name] {
						ef.output = append(ef.output, name)
						return true
					}
					// method or package function: record by its last component(s)
					if pk, ok := sel.X.(*ast.Ident); ok {
						if _, isPkg := info.Uses[pk].(*types.PkgName); isPkg {
							ef.calls[name] = true
							return true
						}
					}
					name = sel.Sel.Name
				}
				ef.calls[name] = true
			}
			return true
		})
	}
	visit = func(n ast.Node, depth int) {
		switch s := n.(type) {
		case nil:
			return
		case *ast.BlockStmt:
			visitStmts(s.List, depth)
		case *ast.ExprStmt:
			if c, ok := s.X.(*ast.CallExpr); ok {
				if id, ok := c.Fun.(*ast.Ident); ok && id.Name == "delete" {
					if _, isB := info.Uses[id].(*types.Builtin); isB {
						ef.deletes++
						for _, a := range c.Args {
							exprCalls(a)
						}
						return
					}
				}
			}
			exprCalls(s.X)
		case *ast.AssignStmt:
			for _, r := range s.Rhs {
				exprCalls(r)
			}
			for i, l := range s.Lhs {
				if id, ok := l.(*ast.Ident); ok && id.Name == "_" {
					continue
				}
				if s.Tok == token.DEFINE {
					continue
				}
				// x = append(x, ...)
				if len(s.Rhs) == len(s.Lhs) {
					if c, ok := s.Rhs[i].(*ast.CallExpr); ok {
						if id, ok := c.Fun.(*ast.Ident); ok && id.Name == "append" && len(c.Args) > 0 &&
							types.ExprString(c.Args[0]) == types.ExprString(l) && !declaredInside(l) {
							ef.appends[types.ExprString(l)] = true
							ef.appendElem = append(ef.appendElem, c.Args[1:]...)
							if c.Ellipsis.IsValid() {
								ef.appendElem = append(ef.appendElem, nil) // append(s, xs...): elements unknown
							}
							continue
						}
					}
				}
				if ix, ok := l.(*ast.IndexExpr); ok && isMapType(ix.X) {
					exprCalls(ix.Index)
					if declaredInside(ix.X) {
						continue
					}
					ef.fills = append(ef.fills, types.ExprString(ix.X))
					if o := objOf(ix.Index); o == nil || o != keyObj {
						ef.fillDirect = false
					}
					continue
				}
				if declaredInside(l) {
					continue
				}
				switch s.Tok {
				case token.ADD_ASSIGN:
					if isStringType(l) {
						ef.strcat = append(ef.strcat, types.ExprString(l)+" += ...")
					} else {
						ef.accum = append(ef.accum, types.ExprString(l))
					}
				case token.MUL_ASSIGN, token.OR_ASSIGN, token.AND_ASSIGN, token.XOR_ASSIGN:
					if isNumeric(l) {
						ef.accum = append(ef.accum, types.ExprString(l))
					} else {
						ef.otherWrite = append(ef.otherWrite, types.ExprString(l))
					}
				default:
					ef.otherWrite = append(ef.otherWrite, types.ExprString(l))
				}
			}
		case *ast.IncDecStmt:
			if !declaredInside(s.X) {
				ef.accum = append(ef.accum, types.ExprString(s.X))
			}
		case *ast.DeclStmt:
			exprCalls(s)
		case *ast.IfStmt:
			visit(s.Init, depth)
			exprCalls(s.Cond)
			visit(s.Body, depth)
			visit(s.Else, depth)
		case *ast.ForStmt:
			visit(s.Init, depth+1)
			if s.Cond != nil {
				exprCalls(s.Cond)
			}
			visit(s.Post, depth+1)
			visit(s.Body, depth+1)
		case *ast.RangeStmt:
			exprCalls(s.X)
			visit(s.Body, depth+1)
		case *ast.SwitchStmt:
			visit(s.Init, depth+1)
			if s.Tag != nil {
				exprCalls(s.Tag)
			}
			visit(s.Body, depth+1)
		case *ast.TypeSwitchStmt:
			visit(s.Init, depth+1)
			visit(s.Assign, depth+1)
			visit(s.Body, depth+1)
		case *ast.SelectStmt:
			visit(s.Body, depth+1)
		case *ast.CaseClause:
			for _, e := range s.List {
				exprCalls(e)
			}
			visitStmts(s.Body, depth)
		case *ast.CommClause:
			visit(s.Comm, depth)
			visitStmts(s.Body, depth)
		case *ast.LabeledStmt:
			visit(s.Stmt, depth)
		case *ast.ReturnStmt:
			txt := "return"
			for _, r := range s.Results {
				exprCalls(r)
				txt += " " + types.ExprString(r)
				if !isConstExpr(r) {
					ef.exitConst = false
				}
			}
			ef.exits = append(ef.exits, txt)
		case *ast.BranchStmt:
			switch s.Tok {
			case token.BREAK:
				if (s.Label == nil && depth == 0) || (s.Label != nil && s.Label.Name == label && label != "") {
					ef.exits = append(ef.exits, "break")
					ef.exitConst = false
				} else if s.Label != nil && s.Label.Name != label {
					// break out of an enclosing labelled statement: also leaves the walk if the label is outside
					if !labelInside(rs.Body, s.Label.Name) {
						ef.exits = append(ef.exits, "break "+s.Label.Name)
						ef.exitConst = false
					}
				}
			case token.GOTO:
				ef.exits = append(ef.exits, "goto "+s.Label.Name)
				ef.exitConst = false
			case token.CONTINUE:
				if s.Label != nil && s.Label.Name != label && !labelInside(rs.Body, s.Label.Name) {
					ef.exits = append(ef.exits, "continue "+s.Label.Name)
					ef.exitConst = false
				}
			}
		case *ast.GoStmt:
			exprCalls(s.Call)
			ef.calls["go"] = true
		case *ast.DeferStmt:
			exprCalls(s.Call)
			ef.calls["defer"] = true
		case *ast.SendStmt:
			ef.output = append(ef.output, "channel send")
		case *ast.EmptyStmt:
		default:
			die("%s: statement form %T inside a map walk is not understood by the census", fset.Position(n.Pos()), n)
		}
	}
	visit(n, depth)
}

func labelInside(n ast.Node, name string) bool {
	found := false
	ast.Inspect(n, func(x ast.Node) bool {
		if l, ok := x.(*ast.LabeledStmt); ok && l.Label.Name == name {
			found = true
		}
		return !found
	})
	return found
}

// ---------------------------------------------------------------- package-level mutable state

func holdsShared(t types.Type, seen map[types.Type]bool) bool {
	if seen[t] {
		return false
	}
	seen[t] = true
	switch u := t.Underlying().(type) {
	case *types.Map, *types.Slice, *types.Pointer, *types.Chan:
		return true
	case *types.Struct:
		for i := 0; i < u.NumFields(); i++ {
			if holdsShared(u.Field(i).Type(), seen) {
				return true
			}
		}
	case *types.Array:
		return holdsShared(u.Elem(), seen)
	}
	return false
}

func findGlobals(files []*ast.File) []global {
	type ginfo struct {
		file    string
		obj     *types.Var
		writers map[string]bool
	}
	gl := map[types.Object]*ginfo{}
	for _, f := range files {
		fname := filepath.Base(fset.Position(f.Pos()).Filename)
		for _, d := range f.Decls {
			gd, ok := d.(*ast.GenDecl)
			if !ok || gd.Tok != token.VAR {
				continue
			}
			for _, sp := range gd.Specs {
				for _, id := range sp.(*ast.ValueSpec).Names {
					if v, ok := info.Defs[id].(*types.Var); ok && id.Name != "_" {
						gl[v] = &ginfo{file: fname, obj: v, writers: map[string]bool{}}
					}
				}
			}
		}
	}
	root := func(e ast.Expr) (types.Object, bool) {
		deep := false
		for {
			switch x := e.(type) {
			case *ast.SelectorExpr:
				e, deep = x.X, true
				continue
			case *ast.IndexExpr:
				e, deep = x.X, true
				continue
			case *ast.StarExpr:
				e, deep = x.X, true
				continue
			case *ast.ParenExpr:
				e = x.X
				continue
			}
			break
		}
		return objOf(e), deep
	}
	// methods that write through their receiver (directly, or by calling such a method on it)
	type meth struct {
		fd      *ast.FuncDecl
		recv    types.Object
		typ     string
		writes  bool
		callsOn []string // methods called on the receiver
	}
	meths := map[string]*meth{} // "T.M"
	var funcs []*ast.FuncDecl
	for _, f := range files {
		for _, d := range f.Decls {
			fd, ok := d.(*ast.FuncDecl)
			if !ok || fd.Body == nil {
				continue
			}
			funcs = append(funcs, fd)
			if fd.Recv == nil || len(fd.Recv.List) == 0 || len(fd.Recv.List[0].Names) == 0 {
				continue
			}
			st, ok := fd.Recv.List[0].Type.(*ast.StarExpr)
			if !ok {
				continue
			}
			m := &meth{fd: fd, recv: info.Defs[fd.Recv.List[0].Names[0]], typ: types.ExprString(st.X)}
			meths[m.typ+"."+fd.Name.Name] = m
			ast.Inspect(fd.Body, func(x ast.Node) bool {
				chk := func(l ast.Expr) {
					if o, deep := root(l); o != nil && o == m.recv && deep {
						m.writes = true
					}
				}
				switch s := x.(type) {
				case *ast.AssignStmt:
					if s.Tok != token.DEFINE {
						for _, l := range s.Lhs {
							chk(l)
						}
					}
				case *ast.IncDecStmt:
					chk(s.X)
				case *ast.CallExpr:
					if id, ok := s.Fun.(*ast.Ident); ok && id.Name == "delete" && len(s.Args) > 0 {
						chk(s.Args[0])
					}
					if sel, ok := s.Fun.(*ast.SelectorExpr); ok {
						if o := objOf(sel.X); o != nil && o == m.recv {
							m.callsOn = append(m.callsOn, m.typ+"."+sel.Sel.Name)
						}
					}
				}
				return true
			})
		}
	}
	for changed := true; changed; {
		changed = false
		for _, m := range meths {
			if m.writes {
				continue
			}
			for _, c := range m.callsOn {
				if mm := meths[c]; mm != nil && mm.writes {
					m.writes, changed = true, true
				}
			}
		}
	}
	typeNameOf := func(t types.Type) string {
		if p, ok := t.(*types.Pointer); ok {
			t = p.Elem()
		}
		if n, ok := t.(*types.Named); ok {
			return n.Obj().Name()
		}
		return ""
	}
	for _, fd := range funcs {
		if fd.Name.Name == "init" && fd.Recv == nil {
			continue
		}
		fn := funcName(fd)
		// whole-variable stores `g = rhs`: store_always = a statement of the function body itself
		// (not nested in a branch or loop), no return/panic/goto before it, and rhs built only
		// from constants, function names, composite literals, make/new: the stored value depends
		// on nothing but the function (theorem store_always_history_indep).  Anything else is
		// store_conditional_or_dependent (the lazily filled singleton: store_if_unset_refuted).
		always := map[*ast.AssignStmt]bool{}
		early := false
		for _, st := range fd.Body.List {
			if as, ok := st.(*ast.AssignStmt); ok && as.Tok == token.ASSIGN && !early {
				free := true
				for _, r := range as.Rhs {
					if !stateFree(r) {
						free = false
					}
				}
				if free {
					always[as] = true
				}
			}
			ast.Inspect(st, func(x ast.Node) bool {
				switch y := x.(type) {
				case *ast.FuncLit:
					return false
				case *ast.ReturnStmt:
					early = true
				case *ast.BranchStmt:
					if y.Tok == token.GOTO {
						early = true
					}
				case *ast.CallExpr:
					if id, ok := y.Fun.(*ast.Ident); ok && id.Name == "panic" {
						early = true
					}
				}
				return true
			})
		}
		ast.Inspect(fd.Body, func(x ast.Node) bool {
			note := func(lhs ast.Expr) {
				if o, _ := root(lhs); o != nil {
					if g, ok := gl[o]; ok {
						g.writers[fn] = true
					}
				}
			}
			switch s := x.(type) {
			case *ast.AssignStmt:
				if s.Tok != token.DEFINE {
					for _, l := range s.Lhs {
						if o, deep := root(l); o != nil && !deep {
							if g, ok := gl[o]; ok {
								if always[s] {
									g.writers[fn+" (store_always)"] = true
								} else {
									g.writers[fn+" (store_conditional_or_dependent)"] = true
								}
								continue
							}
						}
						note(l)
					}
				}
			case *ast.IncDecStmt:
				note(s.X)
			case *ast.UnaryExpr:
				if s.Op == token.AND {
					if o := objOf(s.X); o != nil {
						if g, ok := gl[o]; ok {
							g.writers[fn+" (takes its address)"] = true
						}
					}
				}
			case *ast.CallExpr:
				if id, ok := s.Fun.(*ast.Ident); ok && id.Name == "delete" && len(s.Args) > 0 {
					note(s.Args[0])
				}
				if sel, ok := s.Fun.(*ast.SelectorExpr); ok {
					if o := objOf(sel.X); o != nil {
						if g, ok := gl[o]; ok {
							if mm := meths[typeNameOf(g.obj.Type())+"."+sel.Sel.Name]; mm != nil && mm.writes {
								g.writers[fn+" (calls "+sel.Sel.Name+")"] = true
							}
						}
					}
				}
			}
			return true
		})
	}
	var out []global
	for _, g := range gl {
		if !holdsShared(g.obj.Type(), map[types.Type]bool{}) {
			// a scalar that is reassigned after init is shared state too
			if len(g.writers) == 0 {
				continue
			}
		}
		if len(g.writers) == 0 {
			continue
		}
		ws := []string{}
		for w := range g.writers {
			ws = append(ws, w)
		}
		sort.Strings(ws)
		out = append(out, global{file: g.file, name: g.obj.Name(), typ: types.TypeString(g.obj.Type(), types.RelativeTo(pkg)), writers: ws})
	}
	sort.Slice(out, func(i, j int) bool {
		if out[i].file != out[j].file {
			return out[i].file < out[j].file
		}
		return out[i].name < out[j].name
	})
	return out
}

// stateFree: the expression reads no variable (local, parameter, receiver or package-level) and
// calls nothing but make/new/conversions; function names and constants are allowed.
func stateFree(e ast.Expr) bool {
	ok := true
	ast.Inspect(e, func(x ast.Node) bool {
		switch y := x.(type) {
		case *ast.FuncLit:
			ok = false
			return false
		case *ast.KeyValueExpr:
			// the key of a struct literal field is a field name, not a variable
			if !stateFree(y.Value) {
				ok = false
			}
			if _, isId := y.Key.(*ast.Ident); !isId && !stateFree(y.Key) {
				ok = false
			}
			return false
		case *ast.CallExpr:
			if tv, has := info.Types[y.Fun]; has && tv.IsType() {
				return true
			}
			if id, isId := y.Fun.(*ast.Ident); isId && (id.Name == "make" || id.Name == "new") {
				if _, isB := info.Uses[id].(*types.Builtin); isB {
					return true
				}
			}
			ok = false
			return false
		case *ast.Ident:
			if o := info.Uses[y]; o != nil {
				if _, isVar := o.(*types.Var); isVar {
					ok = false
				}
			}
		}
		return true
	})
	return ok
}

// ---------------------------------------------------------------- output

func q(s string) string { return `"` + strings.ReplaceAll(s, `"`, `""`) + `"` }

func qlist(l []string) string {
	qs := make([]string, len(l))
	for i, s := range l {
		qs[i] = q(s)
	}
	return "[" + strings.Join(qs, "; ") + "]"
}

func write(path string, sites []site, globals []global) {
	var b strings.Builder
	b.WriteString("(* GENERATED by translator/cmd/census from the repository's zygo/*.go -- do not edit.\n")
	b.WriteString("   Every `for .. range <map>` of package zygo (non-test files) with its syntactic classification,\n")
	b.WriteString("   and the package-level variables written outside init().  Line numbers appear only in remarks. *)\n")
	b.WriteString("From Coq Require Import String List.\nRequire Import ZV.Model.MapWalk.\nImport ListNotations.\nOpen Scope string_scope.\n\n")
	b.WriteString("Definition generated_census : list site := [\n")
	for i, s := range sites {
		sep := ";"
		if i == len(sites)-1 {
			sep = ""
		}
		kd := "false"
		if s.keyDirect {
			kd = "true"
		}
		det := strings.ReplaceAll(strings.ReplaceAll(s.detail, "(*", "( *"), "*)", "* )")
		fmt.Fprintf(&b, "  (* line %d: %s *)\n  mkSite %s %s %d %s %s %s %s%s\n", s.line, det, q(s.file), q(s.fn), s.idx, q(s.mapExpr), s.class, kd, qlist(s.calls), sep)
	}
	b.WriteString("].\n\nDefinition generated_globals : list global_var := [\n")
	for i, g := range globals {
		sep := ";"
		if i == len(globals)-1 {
			sep = ""
		}
		fmt.Fprintf(&b, "  mkGlobal %s %s %s %s%s\n", q(g.file), q(g.name), q(g.typ), qlist(g.writers), sep)
	}
	b.WriteString("].\n")
	if err := os.WriteFile(path, []byte(b.String()), 0644); err != nil {
		die("%v", err)
	}
}
