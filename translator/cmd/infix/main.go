// infix: reads zygo/pratt.go of the repository and writes the operator table of the
// infix (Pratt) parser as Gallina data (coq/Generated/InfixTable.v).
//
// Extracted, all by go/parser + go/ast (no evaluation of the code):
//   - every registration in (*Zlisp).InitInfixOps: name, binding power, constructor,
//     and the overrides of MunchRight/MunchLeft made there (star, dot, if, for, break, continue, arrayOp);
//   - from the BODIES of the constructors Infix/Infixr/Prefix/Assignment/PostfixAssign the
//     argument each passes to pr.Expression (bp, bp-1, ...), the shape of the list it builds
//     and (Assignment) which operators are rewritten to `set`;
//   - from the bodies of starOpMunchRight / dotOpMunchLeft / arrayOpMunchLeft / the `if` closure
//     the literal right binding powers and list heads;
//   - the constants of (*Zlisp).LeftBindingPower and the stop condition / dispatch keys of
//     (*Pratt).Expression.
// Any shape it does not understand is a fatal error (non-zero exit).
package main

import (
	"bytes"
	"flag"
	"fmt"
	"go/ast"
	"go/parser"
	"go/printer"
	"go/token"
	"os"
	"path/filepath"
	"strconv"
	"strings"
)

var fset = token.NewFileSet()

func die(pos token.Pos, f string, a ...interface{}) {
	where := ""
	if pos.IsValid() {
		where = fset.Position(pos).String() + ": "
	}
	fmt.Fprintf(os.Stderr, "translator/infix: %s%s\n", where, fmt.Sprintf(f, a...))
	os.Exit(3)
}

func src(n ast.Node) string {
	var b bytes.Buffer
	printer.Fprint(&b, fset, n)
	return b.String()
}

// ---- Gallina rendering -------------------------------------------------------

func qs(s string) string { return "\"" + strings.ReplaceAll(s, "\"", "\"\"") + "\"" }
func qz(n int) string {
	if n < 0 {
		return "(" + strconv.Itoa(n) + ")"
	}
	return strconv.Itoa(n)
}

// ---- analysis of a muncher body ----------------------------------------------

// rbpArg describes the 2nd argument of a pr.Expression call: either bp+off (rel) or a literal.
type rbpArg struct {
	rel bool
	n   int
}

func (r rbpArg) at(bp int) int {
	if r.rel {
		return bp + r.n
	}
	return r.n
}

func intLit(e ast.Expr) (int, bool) {
	switch x := e.(type) {
	case *ast.BasicLit:
		if x.Kind == token.INT {
			n, err := strconv.Atoi(x.Value)
			return n, err == nil
		}
	case *ast.ParenExpr:
		return intLit(x.X)
	case *ast.UnaryExpr:
		if x.Op == token.SUB {
			n, ok := intLit(x.X)
			return -n, ok
		}
	}
	return 0, false
}

func parseRbp(e ast.Expr, bpName string) rbpArg {
	if n, ok := intLit(e); ok {
		return rbpArg{false, n}
	}
	switch x := e.(type) {
	case *ast.Ident:
		if x.Name == bpName && bpName != "" {
			return rbpArg{true, 0}
		}
	case *ast.ParenExpr:
		return parseRbp(x.X, bpName)
	case *ast.BinaryExpr:
		if id, ok := x.X.(*ast.Ident); ok && id.Name == bpName && bpName != "" {
			if n, ok := intLit(x.Y); ok {
				if x.Op == token.SUB {
					return rbpArg{true, -n}
				}
				if x.Op == token.ADD {
					return rbpArg{true, n}
				}
			}
		}
	}
	die(e.Pos(), "right binding power passed to Expression has an unknown shape: %s", src(e))
	return rbpArg{}
}

type munch struct {
	exprArgs []rbpArg // arguments of the pr.Expression calls, in source order
	lists    [][]string
	strs     []string // all string literals
	calls    []string // names of functions called
}

func analyse(body ast.Node, bpName string) munch {
	var m munch
	ast.Inspect(body, func(n ast.Node) bool {
		switch x := n.(type) {
		case *ast.CallExpr:
			switch f := x.Fun.(type) {
			case *ast.SelectorExpr:
				m.calls = append(m.calls, f.Sel.Name)
				if f.Sel.Name == "Expression" {
					if len(x.Args) != 2 {
						die(x.Pos(), "Expression call with %d arguments", len(x.Args))
					}
					m.exprArgs = append(m.exprArgs, parseRbp(x.Args[1], bpName))
				}
			case *ast.Ident:
				m.calls = append(m.calls, f.Name)
				if f.Name == "MakeList" && len(x.Args) == 1 {
					if cl, ok := x.Args[0].(*ast.CompositeLit); ok {
						var els []string
						for _, e := range cl.Elts {
							els = append(els, src(e))
						}
						m.lists = append(m.lists, els)
					}
				}
			}
		case *ast.BasicLit:
			if x.Kind == token.STRING {
				s, _ := strconv.Unquote(x.Value)
				m.strs = append(m.strs, s)
			}
		}
		return true
	})
	return m
}

func hasCall(m munch, name string) bool {
	for _, c := range m.calls {
		if c == name {
			return true
		}
	}
	return false
}

func eqs(a []string, b ...string) bool {
	if len(a) != len(b) {
		return false
	}
	for i := range a {
		if a[i] != b[i] {
			return false
		}
	}
	return true
}

// ---- constructors --------------------------------------------------------------

type ctor struct {
	name    string
	led     string // "bin" "postfix" "" (none)
	ledArg  rbpArg
	nud     string // "prefix" ""
	nudArg  rbpArg
	setOps  []string // Assignment: operators whose head becomes `set`
	setHead string
}

func fieldFuncLit(cl *ast.CompositeLit, key string) *ast.FuncLit {
	for _, e := range cl.Elts {
		kv, ok := e.(*ast.KeyValueExpr)
		if !ok {
			die(e.Pos(), "InfixOp literal with positional fields")
		}
		if id, ok := kv.Key.(*ast.Ident); ok && id.Name == key {
			fl, ok := kv.Value.(*ast.FuncLit)
			if !ok {
				die(kv.Pos(), "%s is not a function literal", key)
			}
			return fl
		}
	}
	return nil
}

func fieldExpr(cl *ast.CompositeLit, key string) ast.Expr {
	for _, e := range cl.Elts {
		if kv, ok := e.(*ast.KeyValueExpr); ok {
			if id, ok := kv.Key.(*ast.Ident); ok && id.Name == key {
				return kv.Value
			}
		}
	}
	return nil
}

func analyseCtor(fd *ast.FuncDecl) ctor {
	c := ctor{name: fd.Name.Name}
	ps := fd.Type.Params.List
	var names []string
	for _, p := range ps {
		for _, n := range p.Names {
			names = append(names, n.Name)
		}
	}
	if !eqs(names, "op", "bp") {
		die(fd.Pos(), "constructor %s: parameters are %v, expected (op, bp)", c.name, names)
	}
	var lit *ast.CompositeLit
	registered := false
	operInit := ""
	ast.Inspect(fd.Body, func(n ast.Node) bool {
		switch x := n.(type) {
		case *ast.CompositeLit:
			if id, ok := x.Type.(*ast.Ident); ok && id.Name == "InfixOp" {
				if lit != nil {
					die(x.Pos(), "constructor %s: two InfixOp literals", c.name)
				}
				lit = x
			}
		case *ast.AssignStmt:
			if len(x.Lhs) == 1 && len(x.Rhs) == 1 {
				l, r := src(x.Lhs[0]), src(x.Rhs[0])
				if l == "env.infixOps[op]" && r == "iop" {
					registered = true
				}
				if l == "oper" && x.Tok == token.DEFINE {
					operInit = r
				}
			}
		}
		return true
	})
	if lit == nil {
		die(fd.Pos(), "constructor %s: no InfixOp literal", c.name)
	}
	if !registered {
		die(fd.Pos(), "constructor %s: does not register env.infixOps[op] = iop", c.name)
	}
	if operInit != "env.MakeSymbol(op)" {
		die(fd.Pos(), "constructor %s: oper := %s, expected env.MakeSymbol(op)", c.name, operInit)
	}
	if e := fieldExpr(lit, "Bp"); e == nil || src(e) != "bp" {
		die(lit.Pos(), "constructor %s: Bp field is not the parameter bp", c.name)
	}
	if e := fieldExpr(lit, "Sym"); e == nil || src(e) != "oper" {
		die(lit.Pos(), "constructor %s: Sym field is not oper", c.name)
	}
	if fl := fieldFuncLit(lit, "MunchLeft"); fl != nil {
		m := analyse(fl.Body, "bp")
		if len(m.lists) != 1 {
			die(fl.Pos(), "constructor %s: MunchLeft builds %d lists", c.name, len(m.lists))
		}
		switch {
		case len(m.exprArgs) == 1 && eqs(m.lists[0], "oper", "left", "right"):
			c.led, c.ledArg = "bin", m.exprArgs[0]
		case len(m.exprArgs) == 0 && eqs(m.lists[0], "oper", "left"):
			c.led = "postfix"
		default:
			die(fl.Pos(), "constructor %s: MunchLeft has an unknown shape (%d Expression calls, list %v)", c.name, len(m.exprArgs), m.lists[0])
		}
		// Assignment rewrites the head for some operators: if op == "=" || op == ":=" { oper = operSet }
		ast.Inspect(fl.Body, func(n ast.Node) bool {
			is, ok := n.(*ast.IfStmt)
			if !ok {
				return true
			}
			if len(is.Body.List) == 1 && src(is.Body.List[0]) == "oper = operSet" && is.Else == nil {
				var walk func(e ast.Expr)
				walk = func(e ast.Expr) {
					be, ok := e.(*ast.BinaryExpr)
					if !ok {
						die(e.Pos(), "constructor %s: unknown condition for the set rewrite: %s", c.name, src(e))
					}
					if be.Op == token.LOR {
						walk(be.X)
						walk(be.Y)
						return
					}
					if be.Op == token.EQL && src(be.X) == "op" {
						if bl, ok := be.Y.(*ast.BasicLit); ok && bl.Kind == token.STRING {
							s, _ := strconv.Unquote(bl.Value)
							c.setOps = append(c.setOps, s)
							return
						}
					}
					die(e.Pos(), "constructor %s: unknown condition for the set rewrite: %s", c.name, src(e))
				}
				walk(is.Cond)
			} else if strings.Contains(src(is.Body), "oper =") {
				die(is.Pos(), "constructor %s: unknown rewrite of oper", c.name)
			}
			return true
		})
		if len(c.setOps) > 0 {
			ast.Inspect(fd.Body, func(n ast.Node) bool {
				if as, ok := n.(*ast.AssignStmt); ok && len(as.Lhs) == 1 && src(as.Lhs[0]) == "operSet" {
					if ce, ok := as.Rhs[0].(*ast.CallExpr); ok && len(ce.Args) == 1 && strings.HasSuffix(src(ce.Fun), "MakeSymbol") {
						if bl, ok := ce.Args[0].(*ast.BasicLit); ok {
							c.setHead, _ = strconv.Unquote(bl.Value)
						}
					}
				}
				return true
			})
			if c.setHead == "" {
				die(fd.Pos(), "constructor %s: operSet is not env.MakeSymbol(\"...\")", c.name)
			}
		}
	}
	if fl := fieldFuncLit(lit, "MunchRight"); fl != nil {
		m := analyse(fl.Body, "bp")
		if len(m.exprArgs) == 1 && len(m.lists) == 1 && eqs(m.lists[0], "oper", "right") {
			c.nud, c.nudArg = "prefix", m.exprArgs[0]
		} else {
			die(fl.Pos(), "constructor %s: MunchRight has an unknown shape", c.name)
		}
	}
	if c.led == "" && c.nud == "" {
		die(fd.Pos(), "constructor %s: neither MunchLeft nor MunchRight", c.name)
	}
	return c
}

// ---- entries -------------------------------------------------------------------

type entry struct {
	name, ctor string
	bp         int
	nud, led   string // Gallina terms
}

func gallinaLed(c ctor, name string, bp int) string {
	switch c.led {
	case "bin":
		head := name
		for _, s := range c.setOps {
			if s == name {
				head = c.setHead
			}
		}
		return fmt.Sprintf("(LBin %s %s)", qz(c.ledArg.at(bp)), qs(head))
	case "postfix":
		return fmt.Sprintf("(LPostfix %s)", qs(name))
	}
	return "LDrop"
}

func gallinaNud(c ctor, name string, bp int) string {
	if c.nud == "prefix" {
		return fmt.Sprintf("(NPrefix %s %s)", qz(c.nudArg.at(bp)), qs(name))
	}
	return "NAtom"
}

func main() {
	repo := flag.String("repo", "/repo", "repository root")
	out := flag.String("out", "", "output file")
	flag.Parse()
	if *out == "" {
		die(token.NoPos, "--out required")
	}
	path := filepath.Join(*repo, "zygo", "pratt.go")
	file, err := parser.ParseFile(fset, path, nil, 0)
	if err != nil {
		die(token.NoPos, "cannot parse %s: %v", path, err)
	}
	funcs := map[string]*ast.FuncDecl{}
	for _, d := range file.Decls {
		if fd, ok := d.(*ast.FuncDecl); ok {
			funcs[fd.Name.Name] = fd
		}
	}
	need := func(n string) *ast.FuncDecl {
		fd := funcs[n]
		if fd == nil || fd.Body == nil {
			die(token.NoPos, "function %s not found in pratt.go", n)
		}
		return fd
	}
	ctors := map[string]ctor{}
	for _, n := range []string{"Infix", "Infixr", "Prefix", "Assignment", "PostfixAssign"} {
		ctors[n] = analyseCtor(need(n))
	}

	// ---- InitInfixOps
	var entries []*entry
	byVar := map[string]*entry{}
	byName := map[string]*entry{}
	arrayBp, arrayLed := -1, ""
	regCall := func(e ast.Expr) *entry {
		ce, ok := e.(*ast.CallExpr)
		if !ok {
			return nil
		}
		se, ok := ce.Fun.(*ast.SelectorExpr)
		if !ok || src(se.X) != "env" {
			return nil
		}
		c, ok := ctors[se.Sel.Name]
		if !ok {
			die(e.Pos(), "InitInfixOps: unknown constructor %s", se.Sel.Name)
		}
		if len(ce.Args) != 2 {
			die(e.Pos(), "InitInfixOps: constructor call with %d arguments", len(ce.Args))
		}
		bl, ok := ce.Args[0].(*ast.BasicLit)
		if !ok || bl.Kind != token.STRING {
			die(e.Pos(), "InitInfixOps: operator name is not a string literal")
		}
		name, _ := strconv.Unquote(bl.Value)
		bp, ok := intLit(ce.Args[1])
		if !ok {
			die(e.Pos(), "InitInfixOps: binding power of %s is not an integer literal", name)
		}
		en := &entry{name: name, ctor: c.name, bp: bp, nud: gallinaNud(c, name, bp), led: gallinaLed(c, name, bp)}
		if old := byName[name]; old != nil {
			// a later registration replaces the earlier one in the Go map
			*old = *en
			return old
		}
		entries = append(entries, en)
		byName[name] = en
		return en
	}
	override := func(en *entry, field string, rhs ast.Expr) {
		switch field {
		case "MunchRight":
			switch x := rhs.(type) {
			case *ast.Ident:
				switch x.Name {
				case "forOpMunchRight":
					need("forOpMunchRight")
					en.nud = "NFor"
				default:
					m := analyse(need(x.Name).Body, "")
					if len(m.exprArgs) == 1 && len(m.lists) == 1 && len(m.lists[0]) == 2 && m.lists[0][1] == "right" &&
						strings.HasPrefix(m.lists[0][0], "env.MakeSymbol(\"") && len(m.strs) == 1 {
						en.nud = fmt.Sprintf("(NPrefix %s %s)", qz(m.exprArgs[0].at(0)), qs(m.strs[0]))
					} else {
						die(rhs.Pos(), "InitInfixOps: MunchRight override %s has an unknown shape", x.Name)
					}
				}
			case *ast.CallExpr:
				if src(x.Fun) == "loopControlOpMunchRight" && len(x.Args) == 1 {
					bl, ok := x.Args[0].(*ast.BasicLit)
					if !ok {
						die(rhs.Pos(), "loopControlOpMunchRight argument is not a literal")
					}
					s, _ := strconv.Unquote(bl.Value)
					m := analyse(need("loopControlOpMunchRight").Body, "")
					if len(m.exprArgs) != 0 {
						die(rhs.Pos(), "loopControlOpMunchRight calls Expression")
					}
					en.nud = fmt.Sprintf("(NCtl %s)", qs(s))
				} else {
					die(rhs.Pos(), "InitInfixOps: unknown MunchRight override %s", src(rhs))
				}
			case *ast.FuncLit:
				// the `if` closure: Expression(r1); Expression(r2); [else Expression(r3)] -> (cond ...)
				m := analyse(x.Body, "")
				okShape := len(m.exprArgs) == 3 && len(m.lists) == 1 && len(m.lists[0]) == 4 &&
					m.lists[0][0] == "env.MakeSymbol(\"cond\")" && m.lists[0][1] == "right" && m.lists[0][2] == "thenExpr" && m.lists[0][3] == "elseExpr"
				hasElse := false
				for _, s := range m.strs {
					if s == "else" {
						hasElse = true
					}
				}
				if !okShape || !hasElse {
					die(rhs.Pos(), "InitInfixOps: closure MunchRight of %s has an unknown shape", en.name)
				}
				en.nud = fmt.Sprintf("(NIf %s %s %s)", qz(m.exprArgs[0].n), qz(m.exprArgs[1].n), qz(m.exprArgs[2].n))
			default:
				die(rhs.Pos(), "InitInfixOps: unknown MunchRight override %s", src(rhs))
			}
		case "MunchLeft":
			id, ok := rhs.(*ast.Ident)
			if !ok {
				die(rhs.Pos(), "InitInfixOps: unknown MunchLeft override %s", src(rhs))
			}
			en.led = ledOfFunc(need(id.Name))
		default:
			die(rhs.Pos(), "InitInfixOps: override of field %s", field)
		}
	}
	for _, st := range need("InitInfixOps").Body.List {
		switch x := st.(type) {
		case *ast.ExprStmt:
			if regCall(x.X) == nil {
				die(st.Pos(), "InitInfixOps: unknown statement %s", src(st))
			}
		case *ast.AssignStmt:
			if len(x.Lhs) != 1 || len(x.Rhs) != 1 {
				die(st.Pos(), "InitInfixOps: unknown statement %s", src(st))
			}
			if id, ok := x.Lhs[0].(*ast.Ident); ok {
				if id.Name == "arrayOp" {
					ue, ok := x.Rhs[0].(*ast.UnaryExpr)
					if !ok {
						die(st.Pos(), "arrayOp: unknown shape")
					}
					cl, ok := ue.X.(*ast.CompositeLit)
					if !ok {
						die(st.Pos(), "arrayOp: unknown shape")
					}
					for _, e := range cl.Elts {
						kv := e.(*ast.KeyValueExpr)
						switch src(kv.Key) {
						case "Bp":
							n, ok := intLit(kv.Value)
							if !ok {
								die(kv.Pos(), "arrayOp.Bp is not a literal")
							}
							arrayBp = n
						case "MunchLeft":
							fid, ok := kv.Value.(*ast.Ident)
							if !ok {
								die(kv.Pos(), "arrayOp.MunchLeft is not a function name")
							}
							arrayLed = ledOfFunc(need(fid.Name))
						default:
							die(kv.Pos(), "arrayOp: unknown field %s", src(kv.Key))
						}
					}
					continue
				}
				en := regCall(x.Rhs[0])
				if en == nil || x.Tok != token.DEFINE {
					die(st.Pos(), "InitInfixOps: unknown statement %s", src(st))
				}
				byVar[id.Name] = en
				continue
			}
			if se, ok := x.Lhs[0].(*ast.SelectorExpr); ok {
				v, ok := se.X.(*ast.Ident)
				if !ok || byVar[v.Name] == nil {
					die(st.Pos(), "InitInfixOps: assignment to a field of an unknown operator: %s", src(st))
				}
				override(byVar[v.Name], se.Sel.Name, x.Rhs[0])
				continue
			}
			die(st.Pos(), "InitInfixOps: unknown statement %s", src(st))
		default:
			die(st.Pos(), "InitInfixOps: unknown statement %s", src(st))
		}
	}
	if arrayBp < 0 || arrayLed == "" {
		die(token.NoPos, "InitInfixOps: arrayOp is not set")
	}

	// ---- LeftBindingPower
	lbp := analyseLBP(need("LeftBindingPower"))
	// ---- Expression
	keys := analyseExpression(need("Expression"))

	var b strings.Builder
	b.WriteString("(* GENERATED by /verif/translator/cmd/infix from zygo/pratt.go — do not edit.\n")
	b.WriteString("   One entry per registration in InitInfixOps (in source order); the right binding powers are\n")
	b.WriteString("   computed from the argument each constructor body passes to pr.Expression. *)\n")
	b.WriteString("From Coq Require Import ZArith String List.\nImport ListNotations.\nRequire Import ZV.Model.PrattTypes.\nOpen Scope Z_scope.\nOpen Scope string_scope.\n\n")
	b.WriteString("(* constructor bodies: argument of pr.Expression relative to bp *)\n")
	b.WriteString("Definition ctor_rbp_offsets : list (string * string * Z) := [\n")
	var rows []string
	for _, n := range []string{"Infix", "Infixr", "Prefix", "Assignment", "PostfixAssign"} {
		c := ctors[n]
		if c.led == "bin" {
			rows = append(rows, fmt.Sprintf("  (%s, \"led\", %s)", qs(n), qz(c.ledArg.n)))
		}
		if c.nud == "prefix" {
			rows = append(rows, fmt.Sprintf("  (%s, \"nud\", %s)", qs(n), qz(c.nudArg.n)))
		}
	}
	b.WriteString(strings.Join(rows, ";\n") + "\n].\n\n")
	b.WriteString("Definition infix_entries : list entry := [\n")
	rows = nil
	for _, e := range entries {
		rows = append(rows, fmt.Sprintf("  mkEntry %s %s %s %s %s", qs(e.name), qz(e.bp), qs(e.ctor), e.nud, e.led))
	}
	b.WriteString(strings.Join(rows, ";\n") + "\n].\n\n")
	var zs []string
	for _, s := range lbp.zeroSyms {
		zs = append(zs, qs(s))
	}
	selMax := analyseSelector(need("normalizeArraySelector"))
	checkRangeBinding(need("lowerRangeBinding"))
	fmt.Fprintf(&b, "Definition infix_lbp : lbpconsts := mkLbp %s %s %s %s %s %s %s %s %s %s %s %s [%s] %s %s %s %s %s %s %d %s.\n",
		qz(lbp.c["SexpInt"]), qz(lbp.c["SexpFloat"]), qz(lbp.c["SexpBool"]), qz(lbp.c["SexpStr"]),
		qz(lbp.c["SexpArray"]), qz(lbp.c["SexpComma"]), qz(lbp.c["SexpSemicolon"]), qz(lbp.c["SexpComment"]),
		qz(lbp.c["SexpPair"]), qz(lbp.c["SexpHash"]), qz(lbp.dot), qz(lbp.symDefault),
		strings.Join(zs, "; "), qz(lbp.zeroVal), qz(lbp.noLed), qs(keys.comma), qs(keys.dot), qz(arrayBp), arrayLed, selMax, lbp.other)
	fc := analyseFor(need("lowerGoFor"), need("lowerRangeFor"))
	fmt.Fprintf(&b, "\n(* lowerGoFor / lowerRangeFor: semicolons of a three-clause header; guard `len(header) %s assignPos+%d`\n   in front of header[assignPos+%d]; sourceTokens := header[assignPos+%d:] *)\n", fc.guardOp, fc.guardOff, fc.indexOff, fc.sourceOff)
	fmt.Fprintf(&b, "Definition for_consts : forconsts := mkFor %d %v %d %d %d.\n", fc.nsemi, fc.guardOp == "<=", fc.guardOff, fc.indexOff, fc.sourceOff)
	if err := os.WriteFile(*out, []byte(b.String()), 0644); err != nil {
		die(token.NoPos, "write: %v", err)
	}
	fmt.Printf("infix table: %d operators\n", len(entries))
}

// ledOfFunc classifies a top-level MunchLeft function (dotOpMunchLeft, arrayOpMunchLeft).
func ledOfFunc(fd *ast.FuncDecl) string {
	m := analyse(fd.Body, "")
	if len(m.exprArgs) != 0 || len(m.lists) != 1 || len(m.lists[0]) != 3 || m.lists[0][1] != "left" {
		die(fd.Pos(), "%s: unknown MunchLeft shape", fd.Name.Name)
	}
	l := m.lists[0]
	switch {
	case l[0] == "env.MakeSymbol(\"hashidx\")" && l[2] == "pr.CnodeStack[0]":
		return "LDotIdx"
	case l[0] == "oper" && l[2] == "selector" && hasCall(m, "normalizeArraySelector") &&
		strings.Contains(src(fd.Body), "oper := env.MakeSymbol(\"arrayidx\")") &&
		strings.Contains(src(fd.Body), "normalizeArraySelector(env, pr.CnodeStack[0])"):
		return "LIndex"
	}
	die(fd.Pos(), "%s: unknown MunchLeft shape %v", fd.Name.Name, l)
	return ""
}

type lbpInfo struct {
	c          map[string]int
	zeroSyms   []string
	zeroVal    int
	dot        int
	noLed      int
	other      string // Gallina option Z: what the function returns for a type without a case
	symDefault int
}

func returnsConst(stmts []ast.Stmt, pos token.Pos) int {
	first := true
	val := 0
	for _, s := range stmts {
		ast.Inspect(s, func(n ast.Node) bool {
			r, ok := n.(*ast.ReturnStmt)
			if !ok {
				return true
			}
			if len(r.Results) != 2 || src(r.Results[1]) != "nil" {
				die(r.Pos(), "LeftBindingPower: return with an unknown shape")
			}
			n2, ok := intLit(r.Results[0])
			if !ok {
				die(r.Pos(), "LeftBindingPower: returned power is not a literal: %s", src(r.Results[0]))
			}
			if !first && n2 != val {
				die(r.Pos(), "LeftBindingPower: one case returns different constants")
			}
			first, val = false, n2
			return true
		})
	}
	if first {
		die(pos, "LeftBindingPower: case without return")
	}
	return val
}

func analyseLBP(fd *ast.FuncDecl) lbpInfo {
	info := lbpInfo{c: map[string]int{}}
	var ts *ast.TypeSwitchStmt
	for _, st := range fd.Body.List {
		if x, ok := st.(*ast.TypeSwitchStmt); ok {
			ts = x
		}
	}
	if ts == nil {
		die(fd.Pos(), "LeftBindingPower: no type switch")
	}
	seenSym := false
	for _, cc := range ts.Body.List {
		clause := cc.(*ast.CaseClause)
		if clause.List == nil {
			die(clause.Pos(), "LeftBindingPower: default case not understood")
		}
		var types []string
		for _, t := range clause.List {
			types = append(types, strings.TrimPrefix(src(t), "*"))
		}
		if len(types) == 1 && types[0] == "SexpSymbol" {
			seenSym = true
			// expected: op, found := env.infixOps[x.name]; if x.name == "if" {return 0}; if found {return op.Bp}; if x.isDot {return K}; return D
			stage := 0
			for _, s := range clause.Body {
				switch y := s.(type) {
				case *ast.AssignStmt:
					if stage != 0 || src(y) != "op, found := env.infixOps[x.name]" {
						die(y.Pos(), "LeftBindingPower(symbol): unknown statement %s", src(y))
					}
					stage = 1
				case *ast.IfStmt:
					c := src(y.Cond)
					switch {
					case stage == 1 && strings.HasPrefix(c, "x.name == "):
						be := y.Cond.(*ast.BinaryExpr)
						s2, _ := strconv.Unquote(src(be.Y))
						info.zeroSyms = append(info.zeroSyms, s2)
						info.zeroVal = returnsConst(y.Body.List, y.Pos())
					case (stage == 1 || stage == 2) && c == "found":
						// expected: if op.MunchLeft == nil { return K, nil }; return op.Bp, nil
						if len(y.Body.List) != 2 {
							die(y.Pos(), "LeftBindingPower(symbol): body of `if found` has %d statements, expected `if op.MunchLeft == nil {return K, nil}; return op.Bp, nil`", len(y.Body.List))
						}
						inner, ok := y.Body.List[0].(*ast.IfStmt)
						if !ok || src(inner.Cond) != "op.MunchLeft == nil" || inner.Else != nil {
							die(y.Pos(), "LeftBindingPower(symbol): expected `if op.MunchLeft == nil` inside `if found`")
						}
						info.noLed = returnsConst(inner.Body.List, inner.Pos())
						if src(y.Body.List[1]) != "return op.Bp, nil" {
							die(y.Pos(), "LeftBindingPower(symbol): a found operator with a MunchLeft does not return op.Bp")
						}
						stage = 2
					case stage == 2 && c == "x.isDot":
						info.dot = returnsConst(y.Body.List, y.Pos())
						stage = 3
					default:
						die(y.Pos(), "LeftBindingPower(symbol): unknown or out-of-order test %s", c)
					}
				case *ast.ReturnStmt:
					if stage != 3 {
						die(y.Pos(), "LeftBindingPower(symbol): return out of order")
					}
					info.symDefault = returnsConst([]ast.Stmt{y}, y.Pos())
					stage = 4
				default:
					die(s.Pos(), "LeftBindingPower(symbol): unknown statement %s", src(s))
				}
			}
			if stage != 4 {
				die(clause.Pos(), "LeftBindingPower(symbol): incomplete shape")
			}
			continue
		}
		v := returnsConst(clause.Body, clause.Pos())
		for _, t := range types {
			info.c[t] = v
		}
	}
	if !seenSym {
		die(fd.Pos(), "LeftBindingPower: no symbol case")
	}
	// the statement after the type switch: what a type without a case gets
	last, ok := fd.Body.List[len(fd.Body.List)-1].(*ast.ReturnStmt)
	if !ok || len(last.Results) != 2 {
		die(fd.Pos(), "LeftBindingPower: the function does not end in a return")
	}
	if src(last.Results[1]) == "nil" {
		n, ok := intLit(last.Results[0])
		if !ok {
			die(last.Pos(), "LeftBindingPower: default power is not a literal")
		}
		info.other = fmt.Sprintf("(Some %s)", qz(n))
	} else if strings.HasPrefix(src(last.Results[1]), "fmt.Errorf(") {
		info.other = "None"
	} else {
		die(last.Pos(), "LeftBindingPower: final return has an unknown shape")
	}
	if ts.Body.List[len(ts.Body.List)-1].(*ast.CaseClause).List == nil {
		die(fd.Pos(), "LeftBindingPower: default case not understood")
	}
	for _, t := range []string{"SexpInt", "SexpFloat", "SexpBool", "SexpStr", "SexpArray", "SexpComma", "SexpSemicolon", "SexpComment", "SexpPair", "SexpHash"} {
		if _, ok := info.c[t]; !ok {
			die(fd.Pos(), "LeftBindingPower: no case for %s", t)
		}
	}
	return info
}

type exprKeys struct{ comma, dot string }

// analyseExpression checks the stop condition of the led loop and collects the table keys used in
// the dispatch on the token type.
func analyseExpression(fd *ast.FuncDecl) exprKeys {
	var k exprKeys
	stop := 0
	var loop *ast.ForStmt
	for _, st := range fd.Body.List {
		if f, ok := st.(*ast.ForStmt); ok {
			loop = f
		}
	}
	if loop == nil || src(loop.Cond) != "!p.IsEOF()" || loop.Init != nil || loop.Post != nil {
		die(fd.Pos(), "Expression: led loop `for !p.IsEOF()` not found")
	}
	ast.Inspect(loop.Body, func(n ast.Node) bool {
		switch x := n.(type) {
		case *ast.IfStmt:
			if len(x.Body.List) == 1 {
				if br, ok := x.Body.List[0].(*ast.BranchStmt); ok && br.Tok == token.BREAK {
					if src(x.Cond) != "rbp >= nextLbp" {
						die(x.Pos(), "Expression: stop condition of the led loop is `%s`, expected `rbp >= nextLbp`", src(x.Cond))
					}
					stop++
				}
			}
		case *ast.CaseClause:
			if len(x.List) == 1 {
				body := ""
				for _, s := range x.Body {
					body += src(s) + "\n"
				}
				switch src(x.List[0]) {
				case "*SexpComma":
					k.comma = lit1(body, x.Pos())
				case "*SexpArray":
					if strings.TrimSpace(body) != "curOp = arrayOp" {
						die(x.Pos(), "Expression: array token does not dispatch to arrayOp")
					}
				case "*SexpPair":
					if strings.Contains(body, "curOp") {
						die(x.Pos(), "Expression: pair token sets curOp")
					}
				}
			}
		}
		return true
	})
	// the isDot dispatch inside the symbol case
	s := src(loop.Body)
	i := strings.Index(s, "if x.isDot {")
	if i < 0 {
		die(loop.Pos(), "Expression: isDot dispatch not found")
	}
	k.dot = lit1(s[i:i+60], loop.Pos())
	if stop != 1 {
		die(loop.Pos(), "Expression: %d stop conditions in the led loop", stop)
	}
	if !strings.Contains(s, "nextLbp, err := env.LeftBindingPower(p.NextToken)") {
		die(loop.Pos(), "Expression: nextLbp is not env.LeftBindingPower(p.NextToken)")
	}
	if k.comma == "" {
		die(loop.Pos(), "Expression: comma dispatch not found")
	}
	// the CnodeStack discipline mirrored by coq/Model/PrattStack.v (exprS / loopS): push in front at
	// entry, overwrite the front in the led loop before Advance, pop the front at exit; the MunchLeft
	// functions read index 0 (checked where their bodies are read)
	whole := src(fd.Body)
	push := strings.Index(whole, "p.CnodeStack = append([]Sexp{p.NextToken}, p.CnodeStack...)")
	pop := strings.LastIndex(whole, "p.CnodeStack = p.CnodeStack[1:]")
	loopAt := strings.Index(whole, "for !p.IsEOF()")
	if push < 0 || pop < 0 || !(push < loopAt && loopAt < pop) || strings.Count(whole, "p.CnodeStack =") != 2 {
		die(fd.Pos(), "Expression: CnodeStack is not pushed in front at entry and popped from the front after the led loop")
	}
	set := strings.Index(s, "p.CnodeStack[0] = p.NextToken")
	adv := strings.Index(s, "p.Advance()")
	if set < 0 || adv < 0 || set > adv || strings.Count(s, "p.CnodeStack[") != 1 {
		die(loop.Pos(), "Expression: the led loop does not set CnodeStack[0] = NextToken before Advance")
	}
	return k
}

func lit1(s string, pos token.Pos) string {
	i := strings.Index(s, "env.infixOps[\"")
	if i < 0 {
		die(pos, "Expression: expected env.infixOps[\"...\"] in %q", s)
	}
	s = s[i+len("env.infixOps[\""):]
	j := strings.Index(s, "\"")
	return s[:j]
}

type forInfo struct {
	nsemi, guardOff, indexOff, sourceOff int
	guardOp                              string
}

// assignPos+N  ->  N
func plusOff(e ast.Expr, base string) (int, bool) {
	be, ok := e.(*ast.BinaryExpr)
	if !ok || be.Op != token.ADD || src(be.X) != base {
		return 0, false
	}
	return intLit(be.Y)
}

func analyseFor(goFor, rangeFor *ast.FuncDecl) forInfo {
	fi := forInfo{nsemi: -1, guardOff: -1, indexOff: -1, sourceOff: -1}
	ast.Inspect(goFor.Body, func(n ast.Node) bool {
		if is, ok := n.(*ast.IfStmt); ok {
			if be, ok := is.Cond.(*ast.BinaryExpr); ok && be.Op == token.NEQ && src(be.X) == "nsemi" {
				if k, ok := intLit(be.Y); ok {
					fi.nsemi = k
				}
			}
		}
		return true
	})
	ast.Inspect(rangeFor.Body, func(n ast.Node) bool {
		switch x := n.(type) {
		case *ast.IfStmt:
			be, ok := x.Cond.(*ast.BinaryExpr)
			if !ok || be.Op != token.LOR {
				return true
			}
			l, ok := be.X.(*ast.BinaryExpr)
			if !ok || src(l.X) != "len(header)" {
				return true
			}
			off, ok := plusOff(l.Y, "assignPos")
			if !ok || (l.Op != token.LEQ && l.Op != token.LSS) {
				die(x.Pos(), "lowerRangeFor: guard `%s` has an unknown shape", src(l))
			}
			fi.guardOp, fi.guardOff = l.Op.String(), off
			ue, ok := be.Y.(*ast.UnaryExpr)
			if !ok || ue.Op != token.NOT {
				die(x.Pos(), "lowerRangeFor: second half of the guard has an unknown shape: %s", src(be.Y))
			}
			ce, ok := ue.X.(*ast.CallExpr)
			if !ok || src(ce.Fun) != "isSymbolNamed" || len(ce.Args) != 2 || src(ce.Args[1]) != "\"range\"" {
				die(x.Pos(), "lowerRangeFor: second half of the guard has an unknown shape: %s", src(be.Y))
			}
			ie, ok := ce.Args[0].(*ast.IndexExpr)
			if !ok || src(ie.X) != "header" {
				die(x.Pos(), "lowerRangeFor: indexed expression has an unknown shape: %s", src(ce.Args[0]))
			}
			io, ok := plusOff(ie.Index, "assignPos")
			if !ok {
				die(x.Pos(), "lowerRangeFor: index has an unknown shape: %s", src(ie.Index))
			}
			fi.indexOff = io
		case *ast.AssignStmt:
			if len(x.Lhs) == 1 && src(x.Lhs[0]) == "sourceTokens" {
				se, ok := x.Rhs[0].(*ast.SliceExpr)
				if !ok || src(se.X) != "header" || se.High != nil {
					die(x.Pos(), "lowerRangeFor: sourceTokens has an unknown shape: %s", src(x.Rhs[0]))
				}
				so, ok := plusOff(se.Low, "assignPos")
				if !ok {
					die(x.Pos(), "lowerRangeFor: slice bound has an unknown shape: %s", src(se.Low))
				}
				fi.sourceOff = so
			}
		}
		return true
	})
	if fi.nsemi < 0 || fi.guardOff < 0 || fi.indexOff < 0 || fi.sourceOff < 0 {
		die(rangeFor.Pos(), "lowerGoFor/lowerRangeFor: guard, index, slice or semicolon count not found (%+v)", fi)
	}
	return fi
}

// analyseSelector reads the "nothing to parse" short-cut of normalizeArraySelector:
// if len(tokens) <= N  (or < N) { return &SexpArray{Val: tokens ...} }  -> largest length passed through unparsed
func analyseSelector(fd *ast.FuncDecl) int {
	found, val := 0, 0
	for _, st := range fd.Body.List {
		is, ok := st.(*ast.IfStmt)
		if !ok {
			continue
		}
		be, ok := is.Cond.(*ast.BinaryExpr)
		if !ok || src(be.X) != "len(tokens)" {
			continue
		}
		n, ok := intLit(be.Y)
		if !ok || (be.Op != token.LEQ && be.Op != token.LSS) {
			die(is.Pos(), "normalizeArraySelector: guard `%s` has an unknown shape", src(is.Cond))
		}
		rs, ok := is.Body.List[len(is.Body.List)-1].(*ast.ReturnStmt)
		if !ok || len(rs.Results) != 2 || !strings.Contains(src(rs.Results[0]), "Val: tokens") {
			die(is.Pos(), "normalizeArraySelector: the short-cut does not return the tokens unparsed")
		}
		if be.Op == token.LSS {
			n--
		}
		found++
		val = n
	}
	if found != 1 {
		die(fd.Pos(), "normalizeArraySelector: expected exactly one `len(tokens) <= N` short-cut, found %d", found)
	}
	if !strings.Contains(src(fd.Body), "parseArraySelectorIndex(env, tokens)") {
		die(fd.Pos(), "normalizeArraySelector: the index is not parsed by parseArraySelectorIndex(env, tokens)")
	}
	return val
}

// checkRangeBinding: the single-target branch of lowerRangeBinding must choose def for := and set for =,
// the two-target branch mdef under `if define`.
func checkRangeBinding(fd *ast.FuncDecl) {
	okSet, okDef, okMdef := false, false, false
	ast.Inspect(fd.Body, func(n ast.Node) bool {
		switch x := n.(type) {
		case *ast.AssignStmt:
			if len(x.Lhs) == 1 && src(x.Lhs[0]) == "op" && x.Tok == token.DEFINE && src(x.Rhs[0]) == "\"set\"" {
				okSet = true
			}
		case *ast.IfStmt:
			if src(x.Cond) == "define" {
				b := src(x.Body)
				if strings.Contains(b, "op = \"def\"") {
					okDef = true
				}
				if strings.Contains(b, "\"mdef\"") {
					okMdef = true
				}
			}
		}
		return true
	})
	if !okSet || !okDef || !okMdef {
		die(fd.Pos(), "lowerRangeBinding: unknown shape (single target: op := \"set\"; if define { op = \"def\" }: %v/%v; two targets: mdef under `if define`: %v)", okSet, okDef, okMdef)
	}
}
