// pkgroutes: tie (T) of property C18.  Reads the non-test source files of package zygo (go/parser,
// syntactic) and writes coq/Generated/PkgRoutes.v: the census of every ROUTE into the dot-path
// resolution code --
//
//	helper_sites  : every call dotGetSetHelper(env, <name>, <acc>)   (file, function, access)
//	walker_sites  : every call <recv>.nestedPathGetSet(env, <slice>, <acc>) (file, function, slice, access)
//	private_sites : every call errIfPrivate(<part>, <pkg>)           (file, function, hop)
//
// access: AGet (third argument nil), ASet (&<ident>: the value to store), APass (the caller's own setVal)
// slice : SWhole (path / dotpaths as is), SFrom1 (path[1:]), SFromI1 (dotpaths[i+1:])
// hop   : HFinalSet / HFinalGet / HEnterHash -- read off the guarding condition of the call
//
// Fails loudly (non-zero exit) when a call has a shape it does not understand.
package main

import (
	"bytes"
	"flag"
	"fmt"
	"go/ast"
	"go/parser"
	"go/printer"
	"go/token"
	"os"
	"path/filepath"
	"sort"
	"strconv"
	"strings"
)

func die(f string, a ...interface{}) {
	fmt.Fprintf(os.Stderr, "pkgroutes: "+f+"\n", a...)
	os.Exit(1)
}

var fset = token.NewFileSet()

func show(n ast.Node) string {
	var b bytes.Buffer
	printer.Fprint(&b, fset, n)
	return b.String()
}

func bytesOf(s string) string {
	var parts []string
	for _, c := range []byte(s) {
		parts = append(parts, strconv.Itoa(int(c)))
	}
	return "[" + strings.Join(parts, "; ") + "]"
}

func access(e ast.Expr) (string, bool) {
	switch x := e.(type) {
	case *ast.Ident:
		if x.Name == "nil" {
			return "AGet", true
		}
		if x.Name == "setVal" {
			return "APass", true
		}
	case *ast.UnaryExpr:
		if x.Op == token.AND {
			if _, ok := x.X.(*ast.Ident); ok {
				return "ASet", true
			}
		}
	}
	return "", false
}

func slice(e ast.Expr) (string, bool) {
	switch x := e.(type) {
	case *ast.Ident:
		if x.Name == "path" || x.Name == "dotpaths" {
			return "SWhole", true
		}
	case *ast.SliceExpr:
		if x.High != nil || x.Max != nil || x.Low == nil {
			return "", false
		}
		id, ok := x.X.(*ast.Ident)
		if !ok || (id.Name != "path" && id.Name != "dotpaths") {
			return "", false
		}
		switch show(x.Low) {
		case "1":
			return "SFrom1", true
		case "i + 1", "i+1":
			return "SFromI1", true
		}
	}
	return "", false
}

// the name argument must be the whole spelling of a symbol: <ident>.name
func wholeName(e ast.Expr) bool {
	s, ok := e.(*ast.SelectorExpr)
	if !ok || s.Sel.Name != "name" {
		return false
	}
	switch x := s.X.(type) {
	case *ast.Ident:
		return true
	case *ast.SelectorExpr: // p.sym.name, c.sym.name
		_, ok := x.X.(*ast.Ident)
		return ok && x.Sel.Name == "sym"
	}
	return false
}

// the hop at which errIfPrivate is consulted: the innermost enclosing if / case clause
func hopOf(stack []ast.Node) (string, bool) {
	for i := len(stack) - 1; i >= 0; i-- {
		switch x := stack[i].(type) {
		case *ast.IfStmt:
			c := strings.Join(strings.Fields(show(x.Cond)), " ")
			switch c {
			case "setVal != nil && i == lenpath-1":
				return "HFinalSet", true
			case "i == lenpath-1":
				return "HFinalGet", true
			case "err != nil":
				continue
			}
			return "", false
		case *ast.CaseClause:
			if len(x.List) == 1 && show(x.List[0]) == "*SexpHash" {
				// must be the go-deeper switch: x := ret.(type)
				return "HEnterHash", true
			}
			if len(x.List) == 0 { // default: of the final-element switch; keep climbing to the if
				continue
			}
			return "", false
		}
	}
	return "", false
}

func main() {
	repo := flag.String("repo", "/repo", "repository root")
	out := flag.String("out", "", "output .v file")
	flag.Parse()
	if *out == "" {
		die("--out required")
	}
	files, err := filepath.Glob(filepath.Join(*repo, "zygo", "*.go"))
	if err != nil || len(files) == 0 {
		die("no source files under %s/zygo", *repo)
	}
	sort.Strings(files)
	var helpers, walkers, privs []string
	defined := map[string]bool{}
	for _, fn := range files {
		base := filepath.Base(fn)
		if strings.HasSuffix(base, "_test.go") || strings.HasPrefix(base, "verif_") {
			continue
		}
		f, err := parser.ParseFile(fset, fn, nil, 0)
		if err != nil {
			die("parse %s: %v", fn, err)
		}
		for _, d := range f.Decls {
			fd, ok := d.(*ast.FuncDecl)
			if !ok || fd.Body == nil {
				continue
			}
			fname := fd.Name.Name
			if fd.Recv != nil && len(fd.Recv.List) == 1 {
				t := show(fd.Recv.List[0].Type)
				fname = strings.TrimPrefix(t, "*") + "." + fname
			}
			switch {
			case base == "functions.go" && (fname == "dotGetSetHelper" || fname == "errIfPrivate"),
				base == "stack.go" && fname == "Stack.nestedPathGetSet",
				base == "hashutils.go" && fname == "SexpHash.nestedPathGetSet":
				defined[fname] = true
			}
			var stack []ast.Node
			ast.Inspect(fd.Body, func(n ast.Node) bool {
				if n == nil {
					stack = stack[:len(stack)-1]
					return true
				}
				stack = append(stack, n)
				c, ok := n.(*ast.CallExpr)
				if !ok {
					return true
				}
				switch fun := c.Fun.(type) {
				case *ast.Ident:
					switch fun.Name {
					case "dotGetSetHelper":
						if len(c.Args) != 3 || show(c.Args[0]) != "env" {
							die("%s: %s: dotGetSetHelper call of unknown shape: %s", base, fname, show(c))
						}
						if !wholeName(c.Args[1]) {
							die("%s: %s: dotGetSetHelper is not given the whole spelling of a symbol: %s", base, fname, show(c))
						}
						a, ok := access(c.Args[2])
						if !ok || a == "APass" {
							die("%s: %s: dotGetSetHelper third argument of unknown shape: %s", base, fname, show(c))
						}
						helpers = append(helpers, fmt.Sprintf("  (* %s: %s: %s *)\n  (%s, %s, %s)", base, fname, show(c), bytesOf(base), bytesOf(fname), a))
					case "errIfPrivate":
						if len(c.Args) != 2 || show(c.Args[0]) != "curSym.name" || show(c.Args[1]) != "curStack" {
							die("%s: %s: errIfPrivate call of unknown shape: %s", base, fname, show(c))
						}
						h, ok := hopOf(stack[:len(stack)-1])
						if !ok {
							die("%s: %s: errIfPrivate under a condition of unknown shape (line %d)", base, fname, fset.Position(c.Pos()).Line)
						}
						privs = append(privs, fmt.Sprintf("  (%s, %s, %s)", bytesOf(base), bytesOf(fname), h))
					}
				case *ast.SelectorExpr:
					if fun.Sel.Name == "nestedPathGetSet" {
						if len(c.Args) != 3 || show(c.Args[0]) != "env" {
							die("%s: %s: nestedPathGetSet call of unknown shape: %s", base, fname, show(c))
						}
						s, ok := slice(c.Args[1])
						if !ok {
							die("%s: %s: nestedPathGetSet path argument of unknown shape: %s", base, fname, show(c))
						}
						a, ok := access(c.Args[2])
						if !ok {
							die("%s: %s: nestedPathGetSet third argument of unknown shape: %s", base, fname, show(c))
						}
						walkers = append(walkers, fmt.Sprintf("  (* %s: %s: %s *)\n  (%s, %s, %s, %s)", base, fname, show(c), bytesOf(base), bytesOf(fname), s, a))
					}
				}
				return true
			})
		}
	}
	for _, w := range []string{"dotGetSetHelper", "errIfPrivate", "Stack.nestedPathGetSet", "SexpHash.nestedPathGetSet"} {
		if !defined[w] {
			die("%s is no longer defined where the model expects it", w)
		}
	}
	var b strings.Builder
	b.WriteString("(* GENERATED by translator/cmd/pkgroutes from zygo/*.go.  Do not edit. *)\n")
	b.WriteString("From Coq Require Import ZArith List.\nImport ListNotations.\nOpen Scope Z_scope.\n\n")
	b.WriteString("Inductive access := AGet | ASet | APass.\n")
	b.WriteString("Inductive pslice := SWhole | SFrom1 | SFromI1.\n")
	b.WriteString("Inductive hop := HFinalSet | HFinalGet | HEnterHash.\n\n")
	b.WriteString("(* (file, function, access) of every call of dotGetSetHelper *)\n")
	b.WriteString("Definition helper_sites : list (list Z * list Z * access) := [\n" + strings.Join(helpers, ";\n") + "\n].\n\n")
	b.WriteString("(* (file, function, slice of the path handed on, access) of every call of a nestedPathGetSet method *)\n")
	b.WriteString("Definition walker_sites : list (list Z * list Z * pslice * access) := [\n" + strings.Join(walkers, ";\n") + "\n].\n\n")
	b.WriteString("(* (file, function, hop) of every call of errIfPrivate *)\n")
	b.WriteString("Definition private_sites : list (list Z * list Z * hop) := [\n" + strings.Join(privs, ";\n") + "\n].\n")
	if err := os.WriteFile(*out, []byte(b.String()), 0o644); err != nil {
		die("write: %v", err)
	}
}
