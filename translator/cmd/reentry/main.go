// reentry: tie (T) of property C05.  Reads the non-test source files of package zygo (go/parser,
// syntactic) and writes coq/Generated/Reentry.v:
//
//	generated_reentries : every function that re-enters the VM, i.e. contains a call <recv>.Run()
//	                      with no arguments, with: number of such calls, whether the receiver is a
//	                      fresh interpreter made by Duplicate() in the same function (own stacks),
//	                      number of captureControlState / restoreControlState calls, number of Run
//	                      calls whose error branch (the `if err != nil` directly after the call)
//	                      restores, whether the function simply returns recv.Run() (top-level entry),
//	                      whether a defer puts pc / curfunc back;
//	generated_captures  : every function that calls captureControlState, with its number of
//	                      restoreControlState calls and whether it recovers panics;
//	run_loop_restores   : Zlisp.Run restores the captured state in the error branch that follows
//	                      instr.Execute(env) and then moves pc to the end of the current function.
//
// Fails loudly when Zlisp.Run, captureControlState or restoreControlState cannot be found.
package main

import (
	"bytes"
	"flag"
	"fmt"
	"go/ast"
	"go/parser"
	"go/printer"
	"go/token"
	"os"
	"path/filepath"
	"sort"
	"strings"
)

func die(f string, a ...interface{}) {
	fmt.Fprintf(os.Stderr, "reentry: "+f+"\n", a...)
	os.Exit(1)
}

var fset = token.NewFileSet()

func show(n ast.Node) string {
	var b bytes.Buffer
	printer.Fprint(&b, fset, n)
	return b.String()
}

func methodCall(n ast.Node, name string) (*ast.CallExpr, bool) {
	c, ok := n.(*ast.CallExpr)
	if !ok {
		return nil, false
	}
	s, ok := c.Fun.(*ast.SelectorExpr)
	if !ok || s.Sel.Name != name {
		return nil, false
	}
	return c, true
}

func count(n ast.Node, name string) int {
	k := 0
	ast.Inspect(n, func(x ast.Node) bool {
		if x == nil {
			return false
		}
		if _, ok := methodCall(x, name); ok {
			k++
		}
		return true
	})
	return k
}

func isRunCall(n ast.Node) (*ast.CallExpr, bool) {
	c, ok := methodCall(n, "Run")
	if !ok || len(c.Args) != 0 {
		return nil, false
	}
	return c, true
}


// ---- census of the read / compile phases (second part of coq/Generated/Reentry.v) ----

// structFields returns the field names of `type <name> struct` in file af.
func structFields(af *ast.File, name string) []string {
	var out []string
	for _, d := range af.Decls {
		gd, ok := d.(*ast.GenDecl)
		if !ok {
			continue
		}
		for _, sp := range gd.Specs {
			ts, ok := sp.(*ast.TypeSpec)
			if !ok || ts.Name.Name != name {
				continue
			}
			st, ok := ts.Type.(*ast.StructType)
			if !ok {
				continue
			}
			for _, f := range st.Fields.List {
				for _, n := range f.Names {
					out = append(out, n.Name)
				}
			}
		}
	}
	return out
}

func findFunc(af *ast.File, name string) *ast.FuncDecl {
	for _, d := range af.Decls {
		if fd, ok := d.(*ast.FuncDecl); ok && fd.Body != nil && fnName(fd) == name {
			return fd
		}
	}
	return nil
}

// clearedFields: the fields of the receiver that the TOP-LEVEL statements of fd assign
// unconditionally (recv.f = .., recv.f.Reset(), recv.f = recv.f[:0]); calls of other methods of
// receiver fields are reported as "f.Method()".
func clearedFields(fd *ast.FuncDecl) (fields []string, calls []string) {
	recv := fd.Recv.List[0].Names[0].Name
	for _, st := range fd.Body.List {
		switch s := st.(type) {
		case *ast.AssignStmt:
			for _, l := range s.Lhs {
				if se, ok := l.(*ast.SelectorExpr); ok {
					if id, ok := se.X.(*ast.Ident); ok && id.Name == recv {
						fields = append(fields, se.Sel.Name)
					}
				}
			}
		case *ast.ExprStmt:
			if c, ok := s.X.(*ast.CallExpr); ok {
				if se, ok := c.Fun.(*ast.SelectorExpr); ok {
					if inner, ok := se.X.(*ast.SelectorExpr); ok {
						if id, ok := inner.X.(*ast.Ident); ok && id.Name == recv {
							if se.Sel.Name == "Reset" && len(c.Args) == 0 && inner.Sel.Name != "lexer" {
								fields = append(fields, inner.Sel.Name) // bytes.Buffer.Reset()
							} else {
								calls = append(calls, inner.Sel.Name+"."+se.Sel.Name)
							}
						}
					}
				}
			}
		case *ast.IfStmt:
			// `if p.stop != nil { p.stop(); p.stop = nil }`: the field ends up nil either way
			txt := strings.ReplaceAll(show(s), " ", "")
			txt = strings.ReplaceAll(strings.ReplaceAll(txt, "\n", ""), "\t", "")
			for _, f := range []string{"stop"} {
				if strings.HasPrefix(txt, "if"+recv+"."+f+"!=nil{") && strings.Contains(txt, recv+"."+f+"=nil") {
					fields = append(fields, f)
				}
			}
		}
	}
	sort.Strings(fields)
	sort.Strings(calls)
	return
}

func strList(xs []string) string {
	var q []string
	for _, x := range xs {
		q = append(q, fmt.Sprintf("%q", x))
	}
	return "[" + strings.Join(q, "; ") + "]"
}

func phaseCensus(repo string, sb *strings.Builder) string {
	parse := func(base string) *ast.File {
		af, err := parser.ParseFile(fset, filepath.Join(repo, "zygo", base), nil, 0)
		if err != nil {
			die("parse %s: %v", base, err)
		}
		return af
	}
	lex, par, gen, envf, expr := parse("lexer.go"), parse("parser.go"), parse("generator.go"), parse("environment.go"), parse("expressions.go")
	lf, pf := structFields(lex, "Lexer"), structFields(par, "Parser")
	if len(lf) == 0 || len(pf) == 0 {
		die("type Lexer / type Parser struct not found")
	}
	lreset, rain := findFunc(lex, "Lexer.Reset"), findFunc(par, "Parser.ResetAddNewInput")
	if lreset == nil || rain == nil {
		die("Lexer.Reset / Parser.ResetAddNewInput not found")
	}
	lclr, _ := clearedFields(lreset)
	pclr, pcalls := clearedFields(rain)
	// parser.recur: every increment is directly followed by a deferred decrement
	incs, balanced := 0, 0
	ast.Inspect(par, func(x ast.Node) bool {
		bl, ok := x.(*ast.BlockStmt)
		if !ok {
			return true
		}
		for i, st := range bl.List {
			if id, ok := st.(*ast.IncDecStmt); ok && strings.HasSuffix(show(id.X), ".recur") && id.Tok == token.INC {
				incs++
				if i+1 < len(bl.List) {
					if d, ok := bl.List[i+1].(*ast.DeferStmt); ok && strings.Contains(strings.ReplaceAll(show(d), " ", ""), ".recur--") {
						balanced++
					}
				}
			}
		}
		return true
	})
	// every load entry point resets the parser before it reads: the first statement of the function
	resetFirst := func(af *ast.File, fn string, call string) bool {
		fd := findFunc(af, fn)
		if fd == nil {
			die("%s not found", fn)
		}
		return len(fd.Body.List) > 0 && strings.Contains(strings.ReplaceAll(show(fd.Body.List[0]), " ", ""), call)
	}
	loadStreamResets := resetFirst(envf, "Zlisp.LoadStream", "env.parser.ResetAddNewInput(")
	// GenerateForLoop: the statement after `gen.env.loopstack.Push(loop)` is `defer gen.env.loopstack.Pop()`, and
	// no other Pop of the loop stack exists in the generator
	fl := findFunc(gen, "Generator.GenerateForLoop")
	if fl == nil {
		die("Generator.GenerateForLoop not found")
	}
	pushes, deferred := 0, 0
	for i, st := range fl.Body.List {
		if strings.ReplaceAll(show(st), " ", "") == "gen.env.loopstack.Push(loop)" {
			pushes++
			if i+1 < len(fl.Body.List) && strings.ReplaceAll(show(fl.Body.List[i+1]), " ", "") == "defergen.env.loopstack.Pop()" {
				deferred++
			}
		}
	}
	allPush, allPop := 0, 0
	ast.Inspect(gen, func(x ast.Node) bool {
		if c, ok := x.(*ast.CallExpr); ok {
			t := strings.ReplaceAll(show(c.Fun), " ", "")
			if strings.HasSuffix(t, "loopstack.Push") {
				allPush++
			}
			if strings.HasSuffix(t, "loopstack.Pop") {
				allPop++
			}
		}
		return true
	})
	// LoadExpressions: env.mainfunc.fun is appended to only after GenerateBegin returned without error
	le := findFunc(envf, "Zlisp.LoadExpressions")
	if le == nil {
		die("Zlisp.LoadExpressions not found")
	}
	genAt, retAt, appAt := -1, -1, -1
	for i, st := range le.Body.List {
		t := strings.ReplaceAll(show(st), " ", "")
		switch {
		case strings.HasPrefix(t, "err:=gen.GenerateBegin("):
			genAt = i
		case genAt >= 0 && retAt < 0 && strings.HasPrefix(t, "iferr!=nil{") && strings.Contains(t, "returnerr"):
			retAt = i
		case strings.HasPrefix(t, "env.mainfunc.fun=append(env.mainfunc.fun,"):
			appAt = i
		}
	}
	appendAfter := genAt >= 0 && retAt == genAt+1 && appAt > retAt
	// SexpLazyArg.Force: every `lazy.Forced = true` that follows the Run call comes after the error return of Run
	fo := findFunc(expr, "SexpLazyArg.Force")
	if fo == nil {
		die("SexpLazyArg.Force not found")
	}
	runAt, forcedBefore, forcedAfter, guard := -1, 0, 0, false
	for i, st := range fo.Body.List {
		t := strings.ReplaceAll(show(st), " ", "")
		if strings.Contains(t, "env.Run()") && runAt < 0 {
			runAt = i
			if i+1 < len(fo.Body.List) {
				n := strings.ReplaceAll(show(fo.Body.List[i+1]), " ", "")
				guard = strings.HasPrefix(n, "iferr!=nil{") && strings.Contains(n, "return")
			}
			continue
		}
		if _, ok := st.(*ast.AssignStmt); ok && t == "lazy.Forced=true" {
			if runAt < 0 {
				forcedBefore++
			} else {
				forcedAfter++
			}
		}
	}
	if runAt < 0 {
		die("SexpLazyArg.Force no longer calls env.Run()")
	}
	b := func(x bool) string {
		if x {
			return "true"
		}
		return "false"
	}
	sb.WriteString("\n(* census of the read / compile phases: see Model/Phases.v part 6 *)\n")
	fmt.Fprintf(sb, "Definition lexer_fields : list string := %s.\n", strList(lf))
	fmt.Fprintf(sb, "Definition lexer_reset_clears : list string := %s.\n", strList(lclr))
	fmt.Fprintf(sb, "Definition parser_fields : list string := %s.\n", strList(pf))
	fmt.Fprintf(sb, "Definition parser_reset_clears : list string := %s.\n", strList(pclr))
	fmt.Fprintf(sb, "Definition parser_reset_calls : list string := %s.\n", strList(pcalls))
	fmt.Fprintf(sb, "Definition parser_recur_incs : nat := %d.\nDefinition parser_recur_balanced : nat := %d.\n", incs, balanced)
	fmt.Fprintf(sb, "Definition load_stream_resets_first : bool := %s.\n", b(loadStreamResets))
	fmt.Fprintf(sb, "Definition forloop_pushes : nat := %d.\nDefinition forloop_deferred_pops : nat := %d.\n", pushes, deferred)
	fmt.Fprintf(sb, "Definition generator_loop_pushes : nat := %d.\nDefinition generator_loop_pops : nat := %d.\n", allPush, allPop)
	fmt.Fprintf(sb, "Definition load_appends_after_compile : bool := %s.\n", b(appendAfter))
	fmt.Fprintf(sb, "Definition force_run_guarded : bool := %s.\nDefinition force_marks_before_run : nat := %d.\nDefinition force_marks_after_run : nat := %d.\n", b(guard), forcedBefore, forcedAfter)
	return fmt.Sprintf("lexer fields %d (reset clears %d), parser fields %d (reset clears %d)", len(lf), len(lclr), len(pf), len(pclr))
}

type rec struct {
	fn, file                           string
	runs, captures, restores, guarded int
	dupRecv, returnsRun, deferPc       bool
}

func fnName(d *ast.FuncDecl) string {
	if d.Recv != nil && len(d.Recv.List) == 1 {
		t := d.Recv.List[0].Type
		if s, ok := t.(*ast.StarExpr); ok {
			t = s.X
		}
		return show(t) + "." + d.Name.Name
	}
	return d.Name.Name
}

// guardedRuns counts, in every statement list, the statements that contain a Run call and are
// directly followed by `if err != nil { .. restoreControlState .. }`.
func guardedRuns(body *ast.BlockStmt) int {
	g := 0
	var lists func(n ast.Node)
	lists = func(n ast.Node) {
		ast.Inspect(n, func(x ast.Node) bool {
			var stmts []ast.Stmt
			switch b := x.(type) {
			case *ast.BlockStmt:
				stmts = b.List
			case *ast.CaseClause:
				stmts = b.Body
			case *ast.CommClause:
				stmts = b.Body
			default:
				return true
			}
			for i, s := range stmts {
				as, ok := s.(*ast.AssignStmt)
				if !ok {
					continue
				}
				has := false
				for _, r := range as.Rhs {
					if _, ok := isRunCall(r); ok {
						has = true
					}
				}
				if !has || i+1 >= len(stmts) {
					continue
				}
				ifs, ok := stmts[i+1].(*ast.IfStmt)
				if !ok || strings.ReplaceAll(show(ifs.Cond), " ", "") != "err!=nil" {
					continue
				}
				if count(ifs.Body, "restoreControlState") > 0 {
					g++
				}
			}
			return true
		})
	}
	lists(body)
	return g
}

func main() {
	repo := flag.String("repo", "/repo", "repository root")
	out := flag.String("out", "", "output file")
	flag.Parse()
	if *out == "" {
		die("--out required")
	}
	files, err := filepath.Glob(filepath.Join(*repo, "zygo", "*.go"))
	if err != nil || len(files) == 0 {
		die("no source files under %s/zygo", *repo)
	}
	sort.Strings(files)
	var recs []rec
	type capt struct {
		fn                 string
		captures, restores int
		recovers           bool
	}
	var capts []capt
	runLoop := false
	foundRun, foundCapture, foundRestore := false, false, false
	for _, f := range files {
		base := filepath.Base(f)
		if strings.HasSuffix(base, "_test.go") || strings.HasPrefix(base, "verif_") {
			continue
		}
		af, err := parser.ParseFile(fset, f, nil, 0)
		if err != nil {
			die("parse %s: %v", f, err)
		}
		for _, d := range af.Decls {
			fd, ok := d.(*ast.FuncDecl)
			if !ok || fd.Body == nil {
				continue
			}
			name := fnName(fd)
			switch name {
			case "Zlisp.captureControlState":
				foundCapture = true
			case "Zlisp.restoreControlState":
				foundRestore = true
			}
			nc, nr := count(fd.Body, "captureControlState"), count(fd.Body, "restoreControlState")
			if nc > 0 {
				rcv := false
				ast.Inspect(fd.Body, func(x ast.Node) bool {
					if c, ok := x.(*ast.CallExpr); ok {
						if id, ok := c.Fun.(*ast.Ident); ok && id.Name == "recover" {
							rcv = true
						}
					}
					return true
				})
				capts = append(capts, capt{name, nc, nr, rcv})
			}
			if name == "Zlisp.Run" {
				foundRun = true
				// the run loop: `err := instr.Execute(env)` .. `if err != nil { env.restoreControlState(<captured>); env.pc = functionSize(env.curfunc); return .. }`
				ast.Inspect(fd.Body, func(x ast.Node) bool {
					ifs, ok := x.(*ast.IfStmt)
					if !ok || strings.ReplaceAll(show(ifs.Cond), " ", "") != "err!=nil" {
						return true
					}
					txt := strings.ReplaceAll(show(ifs.Body), " ", "")
					i := strings.Index(txt, "env.restoreControlState(")
					j := strings.Index(txt, "env.pc=functionSize(env.curfunc)")
					k := strings.Index(txt, "return")
					if i >= 0 && j > i && k > j {
						runLoop = true
					}
					return true
				})
				if count(fd.Body, "Execute") != 1 {
					die("Zlisp.Run no longer has exactly one instr.Execute call")
				}
				continue
			}
			r := rec{fn: name, file: base, captures: nc, restores: nr}
			dups := map[string]bool{}
			ast.Inspect(fd.Body, func(x ast.Node) bool {
				switch s := x.(type) {
				case *ast.AssignStmt:
					for i, rhs := range s.Rhs {
						if _, ok := methodCall(rhs, "Duplicate"); ok && i < len(s.Lhs) {
							if id, ok := s.Lhs[i].(*ast.Ident); ok {
								dups[id.Name] = true
							}
						}
					}
				case *ast.ReturnStmt:
					for _, e := range s.Results {
						if _, ok := isRunCall(e); ok {
							r.returnsRun = true
						}
					}
				case *ast.DeferStmt:
					txt := strings.ReplaceAll(show(s), " ", "")
					if strings.Contains(txt, "env.pc=") && strings.Contains(txt, "env.curfunc=") {
						r.deferPc = true
					}
				}
				return true
			})
			allDup := true
			ast.Inspect(fd.Body, func(x ast.Node) bool {
				if c, ok := isRunCall(x); ok {
					r.runs++
					recv := show(c.Fun.(*ast.SelectorExpr).X)
					if !dups[recv] {
						allDup = false
					}
				}
				return true
			})
			if r.runs == 0 {
				continue
			}
			r.dupRecv = allDup
			r.guarded = guardedRuns(fd.Body)
			recs = append(recs, r)
		}
	}
	if !foundRun || !foundCapture || !foundRestore {
		die("Zlisp.Run / captureControlState / restoreControlState not found (run=%v capture=%v restore=%v)", foundRun, foundCapture, foundRestore)
	}
	if len(recs) == 0 {
		die("no re-entry point found: the shape of the source changed")
	}
	sort.Slice(recs, func(i, j int) bool { return recs[i].file+recs[i].fn < recs[j].file+recs[j].fn })
	sort.Slice(capts, func(i, j int) bool { return capts[i].fn < capts[j].fn })
	b := func(x bool) string {
		if x {
			return "true"
		}
		return "false"
	}
	var sb strings.Builder
	sb.WriteString("(* GENERATED by translator/cmd/reentry from zygo/*.go — do not edit. *)\n")
	sb.WriteString("From Coq Require Import String List.\nRequire Import ZV.Model.CtrlState.\nImport ListNotations.\nOpen Scope string_scope.\n\n")
	sb.WriteString("Definition generated_reentries : list reentry := [\n")
	for i, r := range recs {
		sep := ";"
		if i == len(recs)-1 {
			sep = ""
		}
		fmt.Fprintf(&sb, "  mkReentry %q %q %d %s %d %d %d %s %s%s\n", r.fn, r.file, r.runs, b(r.dupRecv), r.captures, r.restores, r.guarded, b(r.returnsRun), b(r.deferPc), sep)
	}
	sb.WriteString("].\n\nDefinition generated_captures : list capture_site := [\n")
	for i, c := range capts {
		sep := ";"
		if i == len(capts)-1 {
			sep = ""
		}
		fmt.Fprintf(&sb, "  mkCapture %q %d %d %s%s\n", c.fn, c.captures, c.restores, b(c.recovers), sep)
	}
	sb.WriteString("].\n\n")
	fmt.Fprintf(&sb, "Definition run_loop_restores : bool := %s.\n", b(runLoop))
	phaseMsg := phaseCensus(*repo, &sb)
	if err := os.WriteFile(*out, []byte(sb.String()), 0644); err != nil {
		die("write: %v", err)
	}
	fmt.Printf("reentry: %d re-entry functions, %d capture sites, run loop restores: %v\n", len(recs), len(capts), runLoop)
	fmt.Println("reentry: " + phaseMsg)
}
