// reentry: tie (T) of property C05.  Reads the non-test source files of package zygo (go/parser,
// syntactic) and writes coq/Generated/Reentry.v:
//
//	generated_reentries : every function that re-enters the VM, i.e. contains a call <recv>.Run()
//	                      with no arguments, with: number of such calls, whether the receiver is a
//	                      fresh interpreter made by Duplicate() in the same function (own stacks),
//	                      number of captureControlState / restoreControlState calls, number of Run
//	                      calls whose error branch (the `if err != nil` directly after the call)
//	                      restores, whether the function simply returns recv.Run() (top-level entry),
//	                      whether a defer puts pc / curfunc back;
//	generated_captures  : every function that calls captureControlState, with its number of
//	                      restoreControlState calls and whether it recovers panics;
//	run_loop_restores   : Zlisp.Run restores the captured state in the error branch that follows
//	                      instr.Execute(env) and then moves pc to the end of the current function.
//
// Fails loudly when Zlisp.Run, captureControlState or restoreControlState cannot be found.
package main

import (
	"bytes"
	"flag"
	"fmt"
	"go/ast"
	"go/parser"
	"go/printer"
	"go/token"
	"os"
	"path/filepath"
	"sort"
	"strings"
)

func die(f string, a ...interface{}) {
	fmt.Fprintf(os.Stderr, "reentry: "+f+"\n", a...)
	os.Exit(1)
}

var fset = token.NewFileSet()

func show(n ast.Node) string {
	var b bytes.Buffer
	printer.Fprint(&b, fset, n)
	return b.String()
}

func methodCall(n ast.Node, name string) (*ast.CallExpr, bool) {
	c, ok := n.(*ast.CallExpr)
	if !ok {
		return nil, false
	}
	s, ok := c.Fun.(*ast.SelectorExpr)
	if !ok || s.Sel.Name != name {
		return nil, false
	}
	return c, true
}

func count(n ast.Node, name string) int {
	k := 0
	ast.Inspect(n, func(x ast.Node) bool {
		if x == nil {
			return false
		}
		if _, ok := methodCall(x, name); ok {
			k++
		}
		return true
	})
	return k
}

func isRunCall(n ast.Node) (*ast.CallExpr, bool) {
	c, ok := methodCall(n, "Run")
	if !ok || len(c.Args) != 0 {
		return nil, false
	}
	return c, true
}

type rec struct {
	fn, file                           string
	runs, captures, restores, guarded int
	dupRecv, returnsRun, deferPc       bool
}

func fnName(d *ast.FuncDecl) string {
	if d.Recv != nil && len(d.Recv.List) == 1 {
		t := d.Recv.List[0].Type
		if s, ok := t.(*ast.StarExpr); ok {
			t = s.X
		}
		return show(t) + "." + d.Name.Name
	}
	return d.Name.Name
}

// guardedRuns counts, in every statement list, the statements that contain a Run call and are
// directly followed by `if err != nil { .. restoreControlState .. }`.
func guardedRuns(body *ast.BlockStmt) int {
	g := 0
	var lists func(n ast.Node)
	lists = func(n ast.Node) {
		ast.Inspect(n, func(x ast.Node) bool {
			var stmts []ast.Stmt
			switch b := x.(type) {
			case *ast.BlockStmt:
				stmts = b.List
			case *ast.CaseClause:
				stmts = b.Body
			case *ast.CommClause:
				stmts = b.Body
			default:
				return true
			}
			for i, s := range stmts {
				as, ok := s.(*ast.AssignStmt)
				if !ok {
					continue
				}
				has := false
				for _, r := range as.Rhs {
					if _, ok := isRunCall(r); ok {
						has = true
					}
				}
				if !has || i+1 >= len(stmts) {
					continue
				}
				ifs, ok := stmts[i+1].(*ast.IfStmt)
				if !ok || strings.ReplaceAll(show(ifs.Cond), " ", "") != "err!=nil" {
					continue
				}
				if count(ifs.Body, "restoreControlState") > 0 {
					g++
				}
			}
			return true
		})
	}
	lists(body)
	return g
}

func main() {
	repo := flag.String("repo", "/repo", "repository root")
	out := flag.String("out", "", "output file")
	flag.Parse()
	if *out == "" {
		die("--out required")
	}
	files, err := filepath.Glob(filepath.Join(*repo, "zygo", "*.go"))
	if err != nil || len(files) == 0 {
		die("no source files under %s/zygo", *repo)
	}
	sort.Strings(files)
	var recs []rec
	type capt struct {
		fn                 string
		captures, restores int
		recovers           bool
	}
	var capts []capt
	runLoop := false
	foundRun, foundCapture, foundRestore := false, false, false
	for _, f := range files {
		base := filepath.Base(f)
		if strings.HasSuffix(base, "_test.go") || strings.HasPrefix(base, "verif_") {
			continue
		}
		af, err := parser.ParseFile(fset, f, nil, 0)
		if err != nil {
			die("parse %s: %v", f, err)
		}
		for _, d := range af.Decls {
			fd, ok := d.(*ast.FuncDecl)
			if !ok || fd.Body == nil {
				continue
			}
			name := fnName(fd)
			switch name {
			case "Zlisp.captureControlState":
				foundCapture = true
			case "Zlisp.restoreControlState":
				foundRestore = true
			}
			nc, nr := count(fd.Body, "captureControlState"), count(fd.Body, "restoreControlState")
			if nc > 0 {
				rcv := false
				ast.Inspect(fd.Body, func(x ast.Node) bool {
					if c, ok := x.(*ast.CallExpr); ok {
						if id, ok := c.Fun.(*ast.Ident); ok && id.Name == "recover" {
							rcv = true
						}
					}
					return true
				})
				capts = append(capts, capt{name, nc, nr, rcv})
			}
			if name == "Zlisp.Run" {
				foundRun = true
				// the run loop: `err := instr.Execute(env)` .. `if err != nil { env.restoreControlState(<captured>); env.pc = functionSize(env.curfunc); return .. }`
				ast.Inspect(fd.Body, func(x ast.Node) bool {
					ifs, ok := x.(*ast.IfStmt)
					if !ok || strings.ReplaceAll(show(ifs.Cond), " ", "") != "err!=nil" {
						return true
					}
					txt := strings.ReplaceAll(show(ifs.Body), " ", "")
					i := strings.Index(txt, "env.restoreControlState(")
					j := strings.Index(txt, "env.pc=functionSize(env.curfunc)")
					k := strings.Index(txt, "return")
					if i >= 0 && j > i && k > j {
						runLoop = true
					}
					return true
				})
				if count(fd.Body, "Execute") != 1 {
					die("Zlisp.Run no longer has exactly one instr.Execute call")
				}
				continue
			}
			r := rec{fn: name, file: base, captures: nc, restores: nr}
			dups := map[string]bool{}
			ast.Inspect(fd.Body, func(x ast.Node) bool {
				switch s := x.(type) {
				case *ast.AssignStmt:
					for i, rhs := range s.Rhs {
						if _, ok := methodCall(rhs, "Duplicate"); ok && i < len(s.Lhs) {
							if id, ok := s.Lhs[i].(*ast.Ident); ok {
								dups[id.Name] = true
							}
						}
					}
				case *ast.ReturnStmt:
					for _, e := range s.Results {
						if _, ok := isRunCall(e); ok {
							r.returnsRun = true
						}
					}
				case *ast.DeferStmt:
					txt := strings.ReplaceAll(show(s), " ", "")
					if strings.Contains(txt, "env.pc=") && strings.Contains(txt, "env.curfunc=") {
						r.deferPc = true
					}
				}
				return true
			})
			allDup := true
			ast.Inspect(fd.Body, func(x ast.Node) bool {
				if c, ok := isRunCall(x); ok {
					r.runs++
					recv := show(c.Fun.(*ast.SelectorExpr).X)
					if !dups[recv] {
						allDup = false
					}
				}
				return true
			})
			if r.runs == 0 {
				continue
			}
			r.dupRecv = allDup
			r.guarded = guardedRuns(fd.Body)
			recs = append(recs, r)
		}
	}
	if !foundRun || !foundCapture || !foundRestore {
		die("Zlisp.Run / captureControlState / restoreControlState not found (run=%v capture=%v restore=%v)", foundRun, foundCapture, foundRestore)
	}
	if len(recs) == 0 {
		die("no re-entry point found: the shape of the source changed")
	}
	sort.Slice(recs, func(i, j int) bool { return recs[i].file+recs[i].fn < recs[j].file+recs[j].fn })
	sort.Slice(capts, func(i, j int) bool { return capts[i].fn < capts[j].fn })
	b := func(x bool) string {
		if x {
			return "true"
		}
		return "false"
	}
	var sb strings.Builder
	sb.WriteString("(* GENERATED by translator/cmd/reentry from zygo/*.go — do not edit. *)\n")
	sb.WriteString("From Coq Require Import String List.\nRequire Import ZV.Model.CtrlState.\nImport ListNotations.\nOpen Scope string_scope.\n\n")
	sb.WriteString("Definition generated_reentries : list reentry := [\n")
	for i, r := range recs {
		sep := ";"
		if i == len(recs)-1 {
			sep = ""
		}
		fmt.Fprintf(&sb, "  mkReentry %q %q %d %s %d %d %d %s %s%s\n", r.fn, r.file, r.runs, b(r.dupRecv), r.captures, r.restores, r.guarded, b(r.returnsRun), b(r.deferPc), sep)
	}
	sb.WriteString("].\n\nDefinition generated_captures : list capture_site := [\n")
	for i, c := range capts {
		sep := ";"
		if i == len(capts)-1 {
			sep = ""
		}
		fmt.Fprintf(&sb, "  mkCapture %q %d %d %s%s\n", c.fn, c.captures, c.restores, b(c.recovers), sep)
	}
	sb.WriteString("].\n\n")
	fmt.Fprintf(&sb, "Definition run_loop_restores : bool := %s.\n", b(runLoop))
	if err := os.WriteFile(*out, []byte(sb.String()), 0644); err != nil {
		die("write: %v", err)
	}
	fmt.Printf("reentry: %d re-entry functions, %d capture sites, run loop restores: %v\n", len(recs), len(capts), runLoop)
}
