// sandbox: regenerate coq/Generated/SandboxTables.v from the Go source of /repo.
//
// Reads zygo/*.go (non-test, without the files built only under tag verif) and
// cmd/zygo/main.go with go/parser and emits, as Gallina data:
//   (1) per configuration (bare sandbox, sandbox + StandardSetup, cmd/zygo -sandbox) every
//       (script name -> Go function) binding, builder, Go macro, script-text macro (with the names
//       its body mentions), dynamic sources of non-function globals;
//   (2) the special forms of the compiler (the name switch of Generator.GenerateCallBySymbol and
//       every other comparison of a symbol name with a string literal in the compiler's call path);
//   (3) for every Go function identifier used by (1)/(2), for the implicit function values the VM
//       holds, and for the VM/compiler core itself: the EFFECT CLASSES reached through the
//       intra-package call graph (direct sinks = selector expressions on imported packages).
// Also writes a JSON side file (same data, for the harness and the check driver).
//
// The program exits non-zero whenever the source has a shape it does not understand.
package main

import (
	"encoding/json"
	"flag"
	"fmt"
	"go/ast"
	"go/parser"
	"go/token"
	"os"
	"path/filepath"
	"sort"
	"strconv"
	"strings"
)

// onDie: writes a names-only JSON side file (special forms, names of every table) when the translator gives up and no
// tables file exists yet, so that the canary harness still knows what to call (it never decides anything from it).
var onDie func()

func die(format string, a ...interface{}) {
	fmt.Fprintf(os.Stderr, "translator/sandbox: SHAPE NOT UNDERSTOOD: "+format+"\n", a...)
	if onDie != nil {
		f := onDie
		onDie = nil
		f()
	}
	os.Exit(2)
}

// ---------------------------------------------------------------------------------------------
// effect classification of direct sinks

var effectNames = []string{"file_read", "file_write", "process", "env_read", "env_write", "exit", "net", "chdir", "stdin_read", "terminal", "unknown"}

// package path -> "pure" (no selector of it is a sink) or "sinks" (classified per selector below)
var importClass = map[string]string{
	"fmt": "sinks", "errors": "pure", "reflect": "pure", "strings": "pure", "time": "pure", "io": "pure", "bytes": "pure",
	"strconv": "pure", "sort": "pure", "runtime": "pure", "math": "pure", "bufio": "pure", "unsafe": "pure", "regexp": "pure",
	"encoding/gob": "pure", "unicode/utf8": "pure", "unicode": "pure", "sync/atomic": "pure", "sync": "pure",
	"runtime/pprof": "pure", "runtime/debug": "pure", "path": "pure", "math/rand": "pure", "iter": "pure", "hash/fnv": "pure",
	"flag": "pure", "encoding/json": "pure", "encoding/binary": "pure", "encoding/base64": "pure",
	"github.com/ugorji/go/codec": "pure", "github.com/tinylib/msgp/msgp": "pure", "github.com/shurcooL/go-goon": "pure",
	"github.com/glycerine/greenpack/msgp": "pure", "github.com/glycerine/blake2b": "pure", "4d63.com/tz": "pure",
	"os": "sinks", "os/exec": "all:process", "io/ioutil": "sinks", "github.com/glycerine/liner": "all:terminal",
	"syscall": "all:unknown", "net": "all:net", "net/http": "all:net", "plugin": "all:unknown", "os/signal": "all:process",
	"path/filepath": "sinks", "log": "pure", "os/user": "all:env_read",
	"github.com/glycerine/zygomys/v9/zygo": "pure", // cmd/zygo only; calls into the package are resolved separately
}

var sinkClass = map[string][]string{
	// os
	"os.Open": {"file_read"}, "os.ReadFile": {"file_read"}, "os.ReadDir": {"file_read"}, "os.Stat": {"file_read"}, "os.Lstat": {"file_read"},
	"os.Getwd": {"file_read"}, "os.Readlink": {"file_read"}, "os.DirFS": {"file_read"},
	"os.OpenFile": {"file_read", "file_write"}, "os.Create": {"file_write"}, "os.WriteFile": {"file_write"}, "os.Remove": {"file_write"},
	"os.RemoveAll": {"file_write"}, "os.Rename": {"file_write"}, "os.Mkdir": {"file_write"}, "os.MkdirAll": {"file_write"},
	"os.Chmod": {"file_write"}, "os.Chown": {"file_write"}, "os.Truncate": {"file_write"}, "os.Symlink": {"file_write"}, "os.Link": {"file_write"},
	"os.MkdirTemp": {"file_write"}, "os.CreateTemp": {"file_write"}, "os.Chtimes": {"file_write"}, "os.NewFile": {"file_read", "file_write"},
	"os.Chdir": {"chdir"},
	"os.Getenv": {"env_read"}, "os.Environ": {"env_read"}, "os.LookupEnv": {"env_read"}, "os.ExpandEnv": {"env_read"}, "os.Expand": {},
	"os.Hostname": {"env_read"}, "os.UserHomeDir": {"env_read"}, "os.TempDir": {"env_read"}, "os.Executable": {"env_read"},
	"os.Setenv": {"env_write"}, "os.Unsetenv": {"env_write"}, "os.Clearenv": {"env_write"},
	"os.Exit": {"exit"}, "os.StartProcess": {"process"}, "os.FindProcess": {"process"}, "os.Pipe": {"process"},
	"os.Stdin": {"stdin_read"},
	// writing to the host's standard output / error is what the sandbox-safe print functions do by design
	"os.Stdout": {}, "os.Stderr": {},
	"os.Args": {}, "os.Getpid": {}, "os.File": {}, "os.FileInfo": {}, "os.FileMode": {}, "os.PathError": {}, "os.IsNotExist": {}, "os.IsExist": {},
	"os.ModePerm": {}, "os.O_RDONLY": {}, "os.O_WRONLY": {}, "os.O_RDWR": {}, "os.O_CREATE": {}, "os.O_TRUNC": {}, "os.O_APPEND": {}, "os.O_EXCL": {},
	"os.ErrNotExist": {}, "os.PathSeparator": {}, "os.Signal": {}, "os.Interrupt": {},
	// io/ioutil
	"ioutil.ReadFile": {"file_read"}, "ioutil.ReadDir": {"file_read"}, "ioutil.WriteFile": {"file_write"}, "ioutil.TempFile": {"file_write"},
	"ioutil.TempDir": {"file_write"}, "ioutil.ReadAll": {}, "ioutil.Discard": {}, "ioutil.NopCloser": {},
	// path/filepath
	"filepath.Walk": {"file_read"}, "filepath.WalkDir": {"file_read"}, "filepath.Glob": {"file_read"}, "filepath.Abs": {"file_read"}, "filepath.EvalSymlinks": {"file_read"},
	"filepath.Join": {}, "filepath.Base": {}, "filepath.Dir": {}, "filepath.Ext": {}, "filepath.Clean": {}, "filepath.Split": {}, "filepath.IsAbs": {}, "filepath.Rel": {}, "filepath.Separator": {},
	// fmt: only the scanning functions read the host's standard input
	"fmt.Scan": {"stdin_read"}, "fmt.Scanln": {"stdin_read"}, "fmt.Scanf": {"stdin_read"},
}

// ---------------------------------------------------------------------------------------------
// package loading and call graph

type node struct {
	key     string
	recv    string // receiver type name or ""
	name    string
	bodies  []ast.Node
	imports map[string]string // local import name -> path (of the file)
	decl    *ast.FuncDecl
	skip    map[ast.Node]bool // sub-trees analysed as separate pseudo nodes
	sinks   map[string]bool   // direct sinks "pkg.Sel"
	callees map[string]bool
	dyn     int // calls through function-typed values the analysis cannot resolve
	guarded bool // body starts with `if <..>.<sandbox flag> { return <error> }`
	pos     token.Position
}

type pkgInfo struct {
	fset     *token.FileSet
	nodes    map[string]*node
	methods  map[string][]string // method name -> node keys
	funcs    map[string]bool     // plain function names
	types    map[string]bool     // declared type names
	files    []*ast.File
	fileOf   map[*ast.File]string
	pkgVarFn map[string]string // package-level var name -> function literal node key
}

func importsOf(f *ast.File) map[string]string {
	m := map[string]string{}
	for _, im := range f.Imports {
		p, _ := strconv.Unquote(im.Path.Value)
		name := p
		if i := strings.LastIndex(p, "/"); i >= 0 {
			name = p[i+1:]
		}
		if p == "github.com/shurcooL/go-goon" {
			name = "goon"
		}
		if im.Name != nil {
			name = im.Name.Name
		}
		if name == "_" || name == "." {
			die("import %q uses name %q", p, name)
		}
		if _, ok := importClass[p]; !ok {
			die("import of package %q is not classified (pure / sinks); classify it in translator/cmd/sandbox", p)
		}
		m[name] = p
	}
	return m
}

func recvTypeName(fd *ast.FuncDecl) string {
	if fd.Recv == nil || len(fd.Recv.List) == 0 {
		return ""
	}
	return typeName(fd.Recv.List[0].Type)
}

func typeName(t ast.Expr) string {
	switch x := t.(type) {
	case *ast.StarExpr:
		return typeName(x.X)
	case *ast.Ident:
		return x.Name
	case *ast.IndexExpr:
		return typeName(x.X)
	case *ast.ParenExpr:
		return typeName(x.X)
	}
	return ""
}

func buildOnlyVerif(f *ast.File, src []byte) bool {
	// a file is skipped when its build constraint is exactly "verif" (hooks for the harness)
	head := string(src)
	if i := strings.Index(head, "package "); i >= 0 {
		head = head[:i]
	}
	for _, ln := range strings.Split(head, "\n") {
		ln = strings.TrimSpace(ln)
		if strings.HasPrefix(ln, "//go:build ") {
			c := strings.TrimSpace(strings.TrimPrefix(ln, "//go:build "))
			if c == "verif" {
				return true
			}
			if c == "!verif" {
				return false
			}
			die("build constraint %q not understood", c)
		}
	}
	return false
}

func loadPkg(dir string) *pkgInfo {
	p := &pkgInfo{fset: token.NewFileSet(), nodes: map[string]*node{}, methods: map[string][]string{}, funcs: map[string]bool{},
		types: map[string]bool{}, fileOf: map[*ast.File]string{}, pkgVarFn: map[string]string{}}
	ents, err := os.ReadDir(dir)
	if err != nil {
		die("cannot read %s: %v", dir, err)
	}
	for _, e := range ents {
		n := e.Name()
		if !strings.HasSuffix(n, ".go") || strings.HasSuffix(n, "_test.go") {
			continue
		}
		path := filepath.Join(dir, n)
		src, err := os.ReadFile(path)
		if err != nil {
			die("%v", err)
		}
		f, err := parser.ParseFile(p.fset, path, src, 0)
		if err != nil {
			die("parse %s: %v", path, err)
		}
		if buildOnlyVerif(f, src) {
			continue
		}
		p.files = append(p.files, f)
		p.fileOf[f] = n
	}
	if len(p.files) < 10 && filepath.Base(filepath.Dir(dir)) != "cmd" {
		die("package directory %s has only %d files", dir, len(p.files))
	}
	for _, f := range p.files {
		imps := importsOf(f)
		for _, d := range f.Decls {
			switch x := d.(type) {
			case *ast.FuncDecl:
				r := recvTypeName(x)
				key := x.Name.Name
				if r != "" {
					key = r + "." + x.Name.Name
				}
				if _, dup := p.nodes[key]; dup {
					if x.Name.Name == "init" {
						key = key + "#" + p.fileOf[f]
					} else {
						die("function %s declared twice", key)
					}
				}
				nd := &node{key: key, recv: r, name: x.Name.Name, imports: imps, decl: x, pos: p.fset.Position(x.Pos())}
				if x.Body != nil {
					nd.bodies = []ast.Node{x.Body}
				}
				p.nodes[key] = nd
				if r != "" {
					p.methods[x.Name.Name] = append(p.methods[x.Name.Name], key)
				} else {
					p.funcs[x.Name.Name] = true
				}
			case *ast.GenDecl:
				for _, s := range x.Specs {
					switch sp := s.(type) {
					case *ast.TypeSpec:
						p.types[sp.Name.Name] = true
					case *ast.ValueSpec:
						for i, nm := range sp.Names {
							if i < len(sp.Values) {
								if fl, ok := sp.Values[i].(*ast.FuncLit); ok {
									key := "var:" + nm.Name
									p.nodes[key] = &node{key: key, name: nm.Name, imports: imps, bodies: []ast.Node{fl.Body}, pos: p.fset.Position(fl.Pos())}
									p.pkgVarFn[nm.Name] = key
								}
							}
						}
					}
				}
			}
		}
	}
	return p
}

// declared type of an identifier that is a parameter / receiver / typed local (light inference)
func identType(id *ast.Ident) string {
	if id.Obj == nil || id.Obj.Decl == nil {
		return ""
	}
	switch d := id.Obj.Decl.(type) {
	case *ast.Field:
		return typeName(d.Type)
	case *ast.ValueSpec:
		if d.Type != nil {
			return typeName(d.Type)
		}
	}
	return ""
}

func (p *pkgInfo) analyse(nd *node) {
	nd.sinks = map[string]bool{}
	nd.callees = map[string]bool{}
	var visit func(n ast.Node) bool
	visit = func(n ast.Node) bool {
		if n == nil {
			return false
		}
		if nd.skip != nil && nd.skip[n] {
			return false
		}
		switch x := n.(type) {
		case *ast.SelectorExpr:
			if id, ok := x.X.(*ast.Ident); ok && id.Obj == nil {
				if path, isPkg := nd.imports[id.Name]; isPkg {
					cls := importClass[path]
					switch {
					case cls == "pure":
					case strings.HasPrefix(cls, "all:"):
						nd.sinks[id.Name+"."+x.Sel.Name] = true
					case cls == "sinks":
						full := id.Name + "." + x.Sel.Name
						if path == "fmt" {
							if _, ok := sinkClass[full]; ok {
								nd.sinks[full] = true
							}
						} else {
							if _, ok := sinkClass[full]; !ok {
								die("%s: selector %s of package %q is not classified as sink / harmless", p.fset.Position(x.Pos()), full, path)
							}
							nd.sinks[full] = true
						}
					}
					return false
				}
			}
			// method (or field) selection: resolve by receiver type when known, else by name
			name := x.Sel.Name
			if keys, ok := p.methods[name]; ok {
				resolved := false
				if id, ok := x.X.(*ast.Ident); ok {
					if t := identType(id); t != "" && p.types[t] {
						if _, ok := p.nodes[t+"."+name]; ok {
							nd.callees[t+"."+name] = true
							resolved = true
						}
					}
				}
				if !resolved {
					for _, k := range keys {
						nd.callees[k] = true
					}
				}
			}
			ast.Inspect(x.X, visit)
			return false
		case *ast.Ident:
			if x.Obj == nil || x.Obj.Kind == ast.Fun {
				if p.funcs[x.Name] {
					nd.callees[x.Name] = true
				}
			}
			if x.Obj == nil || x.Obj.Kind == ast.Var {
				if k, ok := p.pkgVarFn[x.Name]; ok {
					nd.callees[k] = true
				}
			}
			return false
		case *ast.CallExpr:
			// count calls the graph cannot resolve: through a function-typed local, parameter or field
			switch f := x.Fun.(type) {
			case *ast.Ident:
				if f.Obj != nil && f.Obj.Kind == ast.Var {
					nd.dyn++
				}
			case *ast.SelectorExpr:
				if _, isMethod := p.methods[f.Sel.Name]; !isMethod {
					if id, ok := f.X.(*ast.Ident); !ok || id.Obj != nil {
						nd.dyn++
					}
				}
			}
		case *ast.KeyValueExpr:
			// struct literal field names are not references
			if _, ok := x.Key.(*ast.Ident); ok {
				ast.Inspect(x.Value, visit)
				return false
			}
		}
		return true
	}
	for _, b := range nd.bodies {
		ast.Inspect(b, visit)
	}
}

// ---------------------------------------------------------------------------------------------
// sandbox flag and guards

// endsInField: x.f, x.y.f ...
func endsInField(e ast.Expr, field string) bool {
	s, ok := e.(*ast.SelectorExpr)
	return ok && field != "" && s.Sel.Name == field
}

// errorOnly: the returned expressions do nothing but build an error / constant
func errorOnly(r *ast.ReturnStmt) bool {
	ok := true
	for _, e := range r.Results {
		ast.Inspect(e, func(n ast.Node) bool {
			c, isCall := n.(*ast.CallExpr)
			if !isCall {
				return true
			}
			if s, isSel := c.Fun.(*ast.SelectorExpr); isSel {
				if id, isId := s.X.(*ast.Ident); isId && id.Obj == nil &&
					((id.Name == "fmt" && (s.Sel.Name == "Errorf" || s.Sel.Name == "Sprintf")) || (id.Name == "errors" && s.Sel.Name == "New")) {
					return true
				}
			}
			ok = false
			return false
		})
	}
	return ok
}

// markGuards: a node is guarded when its first statement is `if <..>.<flag> { return <error only> }`
func (p *pkgInfo) markGuards(flag string) int {
	n := 0
	if flag == "" {
		return 0
	}
	for _, nd := range p.nodes {
		if len(nd.bodies) != 1 {
			continue
		}
		blk, ok := nd.bodies[0].(*ast.BlockStmt)
		if !ok || len(blk.List) == 0 {
			continue
		}
		is, ok := blk.List[0].(*ast.IfStmt)
		if !ok || is.Init != nil || is.Else != nil || !endsInField(is.Cond, flag) || len(is.Body.List) != 1 {
			continue
		}
		if r, ok := is.Body.List[0].(*ast.ReturnStmt); ok && errorOnly(r) {
			nd.guarded = true
			n++
		}
	}
	return n
}

// ---------------------------------------------------------------------------------------------
// transitive effects with one witness path per (node, effect)

type effInfo struct {
	effs map[string]string // effect -> witness path "A -> B -> os.Open"
}

func (p *pkgInfo) effects(cutGuarded bool) map[string]*effInfo {
	res := map[string]*effInfo{}
	keys := make([]string, 0, len(p.nodes))
	for k := range p.nodes {
		keys = append(keys, k)
	}
	sort.Strings(keys)
	for _, k := range keys {
		nd := p.nodes[k]
		ei := &effInfo{effs: map[string]string{}}
		var sinks []string
		for s := range nd.sinks {
			if cutGuarded && nd.guarded {
				break
			}
			sinks = append(sinks, s)
		}
		sort.Strings(sinks)
		for _, s := range sinks {
			pkgName := s[:strings.Index(s, ".")]
			cls := importClass[nd.imports[pkgName]]
			var effs []string
			if strings.HasPrefix(cls, "all:") {
				effs = []string{strings.TrimPrefix(cls, "all:")}
			} else {
				effs = sinkClass[s]
			}
			for _, e := range effs {
				if _, ok := ei.effs[e]; !ok {
					ei.effs[e] = k + " -> " + s
				}
			}
		}
		res[k] = ei
	}
	for changed := true; changed; {
		changed = false
		for _, k := range keys {
			nd := p.nodes[k]
			var cs []string
			for c := range nd.callees {
				cs = append(cs, c)
			}
			if cutGuarded && nd.guarded {
				cs = nil
			}
			sort.Strings(cs)
			for _, c := range cs {
				ce, ok := res[c]
				if !ok {
					continue
				}
				var es []string
				for e := range ce.effs {
					es = append(es, e)
				}
				sort.Strings(es)
				for _, e := range es {
					if _, have := res[k].effs[e]; !have {
						res[k].effs[e] = k + " -> " + ce.effs[e]
						changed = true
					}
				}
			}
		}
	}
	return res
}

// ---------------------------------------------------------------------------------------------
// tables

type binding struct {
	Name string `json:"name"`
	Kind string `json:"kind"` // function builtin builder gomacro value
	Fn   string `json:"fn"`   // Go function identifier (node key) or "" for values
}

type scriptMacro struct {
	Name     string   `json:"name"`
	Mentions []string `json:"mentions"`
	Text     string   `json:"text"`
}

type config struct {
	Bindings     []binding     `json:"bindings"`
	ScriptMacros []scriptMacro `json:"script_macros"`
	DynSources   []string      `json:"dyn_sources"`
	Constructor  string        `json:"constructor"`
}

type tableEntry struct {
	name string
	fn   string
}

type translator struct {
	p        *pkgInfo
	tables   map[string][]tableEntry // table function name -> entries (after merging)
	tableSet map[string]bool
	setup    map[string]bool // functions that (transitively) register names
	flag     string          // field of Zlisp set to true by NewZlispSandbox ("" when there is none)
	pseudoN  int
}

func strLit(e ast.Expr) (string, bool) {
	bl, ok := e.(*ast.BasicLit)
	if !ok || bl.Kind != token.STRING {
		return "", false
	}
	s, err := strconv.Unquote(bl.Value)
	if err != nil {
		return "", false
	}
	return s, true
}

func isMapOfUserFunc(t ast.Expr) bool {
	m, ok := t.(*ast.MapType)
	if !ok {
		return false
	}
	k, ok1 := m.Key.(*ast.Ident)
	v, ok2 := m.Value.(*ast.Ident)
	return ok1 && ok2 && k.Name == "string" && v.Name == "ZlispUserFunction"
}

// goFnOf resolves the value expression of a table entry / Add* call to a node key.
func (t *translator) goFnOf(e ast.Expr, where string) string {
	switch x := e.(type) {
	case *ast.Ident:
		if t.p.funcs[x.Name] {
			return x.Name
		}
		if k, ok := t.p.pkgVarFn[x.Name]; ok {
			return k
		}
		die("%s: value %s is not a function declared in the package", where, x.Name)
	case *ast.CallExpr:
		if id, ok := x.Fun.(*ast.Ident); ok && t.p.funcs[id.Name] {
			return id.Name // factory: the effects of the whole declaration (with its function literals) count
		}
		die("%s: value is a call of something that is not a package function", where)
	case *ast.FuncLit:
		t.pseudoN++
		key := fmt.Sprintf("lit:%s#%d", where, t.pseudoN)
		// imports: of the file containing the literal
		t.p.nodes[key] = &node{key: key, name: key, bodies: []ast.Node{x.Body}, imports: t.importsAt(x.Pos()), pos: t.p.fset.Position(x.Pos())}
		return key
	}
	die("%s: value expression of type %T not understood", where, e)
	return ""
}

func (t *translator) importsAt(pos token.Pos) map[string]string {
	for _, f := range t.p.files {
		if f.Pos() <= pos && pos <= f.End() {
			return importsOf(f)
		}
	}
	die("position without file")
	return nil
}

// collectTables finds every func() map[string]ZlispUserFunction and reads it.
func (t *translator) collectTables() {
	t.tables = map[string][]tableEntry{}
	t.tableSet = map[string]bool{}
	pending := map[string][]string{} // merged tables: name -> parts
	for key, nd := range t.p.nodes {
		fd := nd.decl
		if fd == nil || fd.Recv != nil || fd.Type.Results == nil || len(fd.Type.Results.List) != 1 || !isMapOfUserFunc(fd.Type.Results.List[0].Type) {
			continue
		}
		if key == "MergeFuncMap" {
			continue
		}
		if fd.Type.Params != nil && len(fd.Type.Params.List) > 0 {
			die("table function %s takes parameters", key)
		}
		if fd.Body == nil || len(fd.Body.List) != 1 {
			die("table function %s: body is not a single return statement", key)
		}
		ret, ok := fd.Body.List[0].(*ast.ReturnStmt)
		if !ok || len(ret.Results) != 1 {
			die("table function %s: body is not a single return statement", key)
		}
		t.tableSet[key] = true
		switch r := ret.Results[0].(type) {
		case *ast.CompositeLit:
			if !isMapOfUserFunc(r.Type) {
				die("table function %s returns a literal of another type", key)
			}
			seen := map[string]bool{}
			var es []tableEntry
			for _, el := range r.Elts {
				kv, ok := el.(*ast.KeyValueExpr)
				if !ok {
					die("table %s: element is not key:value", key)
				}
				name, ok := strLit(kv.Key)
				if !ok {
					die("table %s: key is not a string literal", key)
				}
				if seen[name] {
					die("table %s: duplicate key %q", key, name)
				}
				seen[name] = true
				es = append(es, tableEntry{name, t.goFnOf(kv.Value, "table "+key+" key "+name)})
			}
			t.tables[key] = es
		case *ast.CallExpr:
			id, ok := r.Fun.(*ast.Ident)
			if !ok || id.Name != "MergeFuncMap" {
				die("table function %s returns a call of something other than MergeFuncMap", key)
			}
			for _, a := range r.Args {
				c, ok := a.(*ast.CallExpr)
				if !ok || len(c.Args) != 0 {
					die("table function %s: MergeFuncMap argument is not a call f()", key)
				}
				cid, ok := c.Fun.(*ast.Ident)
				if !ok {
					die("table function %s: MergeFuncMap argument is not a call f()", key)
				}
				pending[key] = append(pending[key], cid.Name)
			}
		default:
			die("table function %s: return expression %T not understood", key, r)
		}
	}
	// MergeFuncMap must still be the plain union
	if mf, ok := t.p.nodes["MergeFuncMap"]; !ok || mf.decl.Body == nil {
		die("MergeFuncMap not found")
	}
	for len(pending) > 0 {
		progress := false
		for key, parts := range pending {
			ready := true
			for _, q := range parts {
				if _, ok := t.tables[q]; !ok {
					ready = false
					if !t.tableSet[q] {
						die("table function %s merges %s which is not a table function", key, q)
					}
				}
			}
			if !ready {
				continue
			}
			var es []tableEntry
			for _, q := range parts {
				es = append(es, t.tables[q]...)
			}
			t.tables[key] = es
			delete(pending, key)
			progress = true
		}
		if !progress {
			die("cyclic MergeFuncMap tables")
		}
	}
}

var registerCalls = map[string]string{"AddFunction": "function", "AddBuilder": "builder", "AddMacro": "gomacro", "AddGlobal": "value"}
var evalCalls = map[string]bool{"EvalString": true, "LoadString": true, "EvalExpressions": true, "LoadExpressions": true, "SourceFile": true,
	"SourceExpressions": true, "LoadFile": true, "LoadStream": true, "SourceStream": true}

// computeSetup marks every function that directly or transitively calls Add*/Eval* (registration-relevant).
func (t *translator) computeSetup() {
	t.setup = map[string]bool{}
	direct := map[string]bool{}
	for k, nd := range t.p.nodes {
		for _, b := range nd.bodies {
			ast.Inspect(b, func(n ast.Node) bool {
				if c, ok := n.(*ast.CallExpr); ok {
					if s, ok := c.Fun.(*ast.SelectorExpr); ok {
						if _, ok := registerCalls[s.Sel.Name]; ok {
							direct[k] = true
						}
					}
				}
				return true
			})
		}
	}
	for k := range direct {
		t.setup[k] = true
	}
	for changed := true; changed; {
		changed = false
		for k, nd := range t.p.nodes {
			if t.setup[k] {
				continue
			}
			for c := range nd.callees {
				if t.setup[c] {
					t.setup[k] = true
					changed = true
					break
				}
			}
		}
	}
}

// symbols mentioned in script text (names a macro body can reach)
func scriptSymbols(src string) []string {
	seen := map[string]bool{}
	var out []string
	i := 0
	for i < len(src) {
		c := src[i]
		switch {
		case c == '"':
			i++
			for i < len(src) && src[i] != '"' {
				if src[i] == '\\' {
					i++
				}
				i++
			}
			i++
		case c == '/' && i+1 < len(src) && src[i+1] == '/':
			for i < len(src) && src[i] != '\n' {
				i++
			}
		case strings.ContainsRune(" \t\r\n()[]{}^~@%,;", rune(c)):
			i++
		default:
			j := i
			for j < len(src) && !strings.ContainsRune(" \t\r\n()[]{}^~@%,;\"", rune(src[j])) {
				j++
			}
			tok := src[i:j]
			i = j
			if tok == "&" {
				continue
			}
			if _, err := strconv.ParseFloat(tok, 64); err == nil {
				continue
			}
			if !seen[tok] {
				seen[tok] = true
				out = append(out, tok)
			}
		}
	}
	sort.Strings(out)
	return out
}

type walker struct {
	t      *translator
	cfg    *config
	strs   map[string]string // local string variables holding script text
	flags  map[string]bool   // cfg.<Field> values for ReplMain
	depth  int
	funcsP string // inside NewZlispWithFuncs: name of the table bound to parameter funcs
	sandboxedCfg bool
	ctor   string
	// enumeration of ReplMain over flag assignments (family plans)
	strSet    map[string]bool // string flags that are non-empty in this assignment
	consulted map[string]bool // cfg.<Field>s consulted by conditions that decide construction / registration
	plan      *planRec        // when non-nil: record constructor and top-level setup steps instead of insisting on the sandbox
}

// planRec: what ReplMain does to make its interpreter under one flag assignment
type planRec struct {
	Ctor  string   // NewZlispSandbox / NewZlisp / ...
	Steps []string // registration-relevant functions ReplMain calls on it, in order
}

func cfgFieldsIn(e ast.Expr) []string {
	var out []string
	ast.Inspect(e, func(n ast.Node) bool {
		if s, ok := n.(*ast.SelectorExpr); ok {
			if id, ok := s.X.(*ast.Ident); ok && id.Name == "cfg" {
				out = append(out, s.Sel.Name)
			}
		}
		return true
	})
	return out
}

func (w *walker) note(e ast.Expr) {
	if w.consulted != nil {
		for _, f := range cfgFieldsIn(e) {
			w.consulted[f] = true
		}
	}
}

func (w *walker) add(b binding) { w.cfg.Bindings = append(w.cfg.Bindings, b) }

func (w *walker) scriptText(src, where string) {
	s := strings.TrimSpace(src)
	if !strings.HasPrefix(s, "(defmac ") {
		die("%s: script text evaluated during setup is not a (defmac ...) form: %.60q", where, s)
	}
	rest := strings.TrimSpace(s[len("(defmac "):])
	k := strings.IndexAny(rest, " \t\n[")
	if k <= 0 {
		die("%s: cannot find the macro name in %.60q", where, s)
	}
	name := rest[:k]
	// exactly one top-level form
	depth, forms := 0, 0
	inStr := false
	for i := 0; i < len(s); i++ {
		c := s[i]
		if inStr {
			if c == '\\' {
				i++
			} else if c == '"' {
				inStr = false
			}
			continue
		}
		switch c {
		case '"':
			inStr = true
		case '(', '[', '{':
			depth++
		case ')', ']', '}':
			depth--
			if depth == 0 {
				forms++
			}
		}
	}
	if depth != 0 || forms != 1 {
		die("%s: script text is not exactly one balanced form: %.60q", where, s)
	}
	w.cfg.ScriptMacros = append(w.cfg.ScriptMacros, scriptMacro{Name: name, Mentions: scriptSymbols(rest[k:]), Text: s})
}

func (w *walker) condValue(e ast.Expr) (bool, bool) {
	if endsInField(e, w.t.flag) {
		return w.sandboxedCfg, true // the interpreter's own sandbox flag
	}
	switch x := e.(type) {
	case *ast.SelectorExpr:
		if id, ok := x.X.(*ast.Ident); ok && id.Name == "cfg" {
			v, known := w.flags[x.Sel.Name]
			return v, known
		}
	case *ast.UnaryExpr:
		if x.Op == token.NOT {
			v, ok := w.condValue(x.X)
			return !v, ok
		}
	case *ast.ParenExpr:
		return w.condValue(x.X)
	case *ast.BinaryExpr:
		// cfg.Str != "" / == ""
		if s, ok := x.X.(*ast.SelectorExpr); ok {
			if id, ok := s.X.(*ast.Ident); ok && id.Name == "cfg" {
				if lit, ok := strLit(x.Y); ok && lit == "" {
					if _, isStr := stringFlags[s.Sel.Name]; isStr {
						empty := !w.strSet[s.Sel.Name]
						return (x.Op == token.EQL) == empty, x.Op == token.EQL || x.Op == token.NEQ
					}
				}
			}
		}
		// len(args) > 0: script file given on the command line -- both branches are walked by the caller
	}
	return false, false
}

var stringFlags = map[string]bool{"CpuProfile": true, "MemProfile": true, "Command": true, "Prompt": true, "ExtensionsVersion": true}

func (w *walker) stmts(list []ast.Stmt, where string) {
	for _, s := range list {
		w.stmt(s, where)
	}
}

func (w *walker) stmt(s ast.Stmt, where string) {
	switch x := s.(type) {
	case *ast.ExprStmt:
		w.expr(x.X, where)
	case *ast.AssignStmt:
		if len(x.Lhs) == 1 && len(x.Rhs) == 1 {
			if id, ok := x.Lhs[0].(*ast.Ident); ok {
				if lit, ok := strLit(x.Rhs[0]); ok {
					w.strs[id.Name] = lit
					return
				}
			}
		}
		for _, r := range x.Rhs {
			w.expr(r, where)
		}
	case *ast.DeclStmt, *ast.ReturnStmt, *ast.IncDecStmt, *ast.BranchStmt, *ast.EmptyStmt:
		if r, ok := s.(*ast.ReturnStmt); ok {
			for _, e := range r.Results {
				w.expr(e, where)
			}
		}
	case *ast.DeferStmt:
		w.expr(x.Call, where)
	case *ast.BlockStmt:
		w.stmts(x.List, where)
	case *ast.IfStmt:
		if x.Init != nil {
			w.stmt(x.Init, where)
		}
		if !w.containsSetup(x) {
			return
		}
		if v, known := w.condValue(x.Cond); known {
			w.note(x.Cond)
			if v {
				w.stmts(x.Body.List, where)
			} else if x.Else != nil {
				w.stmt(x.Else, where)
			}
			return
		}
		die("%s: registration-relevant code under a condition the translator cannot decide (%s)", where, w.t.p.fset.Position(x.Pos()))
	case *ast.RangeStmt:
		w.rangeStmt(x, where)
	case *ast.ForStmt, *ast.SwitchStmt, *ast.TypeSwitchStmt, *ast.SelectStmt, *ast.GoStmt, *ast.LabeledStmt, *ast.SendStmt:
		if w.containsSetup(s) {
			die("%s: registration-relevant code inside a %T (%s)", where, s, w.t.p.fset.Position(s.Pos()))
		}
	default:
		die("%s: statement %T not understood", where, s)
	}
}

// containsSetup: does the sub-tree contain a registration call or a call of a registration-relevant function?
func (w *walker) containsSetup(n ast.Node) bool {
	found := false
	ast.Inspect(n, func(m ast.Node) bool {
		c, ok := m.(*ast.CallExpr)
		if !ok {
			return true
		}
		switch f := c.Fun.(type) {
		case *ast.SelectorExpr:
			if _, ok := registerCalls[f.Sel.Name]; ok {
				found = true
			}
			if evalCalls[f.Sel.Name] {
				found = true
			}
			for _, k := range w.t.p.methods[f.Sel.Name] {
				if w.t.setup[k] {
					found = true
				}
			}
		case *ast.Ident:
			if w.t.setup[f.Name] {
				found = true
			}
		}
		return true
	})
	return found
}

func (w *walker) rangeStmt(x *ast.RangeStmt, where string) {
	if !w.containsSetup(x) {
		return
	}
	pos := w.t.p.fset.Position(x.Pos())
	// pattern A (ImportBaseTypes): loops (possibly nested) over data taken from GoStructRegistry.<F> whose only
	// registration is env.AddGlobal(e.RegisteredName, e): type values from a dynamic source
	{
		okA := true
		nReg := 0
		var sources []string
		ast.Inspect(x, func(m ast.Node) bool {
			switch y := m.(type) {
			case *ast.SelectorExpr:
				if id, ok := y.X.(*ast.Ident); ok && id.Name == "GoStructRegistry" {
					sources = append(sources, "GoStructRegistry."+y.Sel.Name)
				}
			case *ast.CallExpr:
				f, ok := y.Fun.(*ast.SelectorExpr)
				if !ok {
					if id, ok := y.Fun.(*ast.Ident); ok && w.t.setup[id.Name] {
						okA = false
					}
					return true
				}
				if _, reg := registerCalls[f.Sel.Name]; reg {
					nReg++
					good := false
					if f.Sel.Name == "AddGlobal" && len(y.Args) == 2 {
						if ns, ok := y.Args[0].(*ast.SelectorExpr); ok && ns.Sel.Name == "RegisteredName" {
							if a, ok := ns.X.(*ast.Ident); ok {
								if v, ok := y.Args[1].(*ast.Ident); ok && v.Name == a.Name {
									good = true
								}
							}
						}
					}
					if !good {
						okA = false
					}
				} else if evalCalls[f.Sel.Name] {
					okA = false
				} else {
					for _, k := range w.t.p.methods[f.Sel.Name] {
						if w.t.setup[k] {
							okA = false
						}
					}
				}
			}
			return true
		})
		if okA && nReg == 1 && len(sources) > 0 {
			w.cfg.DynSources = append(w.cfg.DynSources, sources...)
			return
		}
	}
	// pattern B (NewZlispWithFuncs): for _, key := range funcNames { function := funcs[key]; sym := ..;
	//   env.builtins[sym.number] = MakeUserFunction(key, function); env.AddFunction(key, function) }
	if w.funcsP != "" {
		okB := false
		sawBuiltins, sawAdd := false, false
		for _, st := range x.Body.List {
			switch y := st.(type) {
			case *ast.AssignStmt:
				if len(y.Lhs) == 1 && len(y.Rhs) == 1 {
					if ix, ok := y.Lhs[0].(*ast.IndexExpr); ok {
						if s, ok := ix.X.(*ast.SelectorExpr); ok && s.Sel.Name == "builtins" {
							if c, ok := y.Rhs[0].(*ast.CallExpr); ok {
								if id, ok := c.Fun.(*ast.Ident); ok && id.Name == "MakeUserFunction" {
									sawBuiltins = true
								}
							}
						}
					}
				}
			case *ast.ExprStmt:
				if c, ok := y.X.(*ast.CallExpr); ok {
					if f, ok := c.Fun.(*ast.SelectorExpr); ok {
						if f.Sel.Name == "AddFunction" {
							sawAdd = true
						} else if _, reg := registerCalls[f.Sel.Name]; reg {
							die("%s: unexpected %s in the builtin registration loop (%s)", where, f.Sel.Name, pos)
						}
					}
				}
			}
		}
		okB = sawBuiltins && sawAdd
		if okB {
			for _, e := range w.t.tables[w.funcsP] {
				w.add(binding{e.name, "builtin", e.fn})
				w.add(binding{e.name, "function", e.fn})
			}
			return
		}
	}
	die("%s: registration inside a range loop of unknown shape (%s)", where, pos)
}

func (w *walker) expr(e ast.Expr, where string) {
	switch x := e.(type) {
	case *ast.CallExpr:
		w.call(x, where)
	case *ast.ParenExpr:
		w.expr(x.X, where)
	case *ast.UnaryExpr:
		w.expr(x.X, where)
	case *ast.FuncLit:
		if w.containsSetup(x) {
			die("%s: registration inside a function literal (%s)", where, w.t.p.fset.Position(x.Pos()))
		}
	}
}

func (w *walker) call(c *ast.CallExpr, where string) {
	pos := w.t.p.fset.Position(c.Pos())
	for _, a := range c.Args {
		if inner, ok := a.(*ast.CallExpr); ok && w.containsSetup(inner) {
			w.call(inner, where)
		}
	}
	switch f := c.Fun.(type) {
	case *ast.SelectorExpr:
		name := f.Sel.Name
		if kind, ok := registerCalls[name]; ok {
			if len(c.Args) != 2 {
				die("%s: %s with %d arguments (%s)", where, name, len(c.Args), pos)
			}
			lit, ok := strLit(c.Args[0])
			if !ok {
				die("%s: %s with a name that is not a string literal (%s)", where, name, pos)
			}
			if kind == "value" {
				fn := ""
				// a function value registered through AddGlobal would be a binding the tables must know
				if ce, ok := c.Args[1].(*ast.CallExpr); ok {
					if id, ok := ce.Fun.(*ast.Ident); ok && (id.Name == "MakeUserFunction" || id.Name == "MakeBuilderFunction") && len(ce.Args) == 2 {
						fn = w.t.goFnOf(ce.Args[1], where+" AddGlobal "+lit)
						k := "function"
						if id.Name == "MakeBuilderFunction" {
							k = "builder"
						}
						w.add(binding{lit, k, fn})
						return
					}
				}
				if id, ok := c.Args[1].(*ast.Ident); !ok || (id.Name != "SexpNull") {
					die("%s: AddGlobal(%q, <%T>) registers a value the translator cannot classify (%s)", where, lit, c.Args[1], pos)
				}
				w.add(binding{lit, "value", ""})
				return
			}
			w.add(binding{lit, kind, w.t.goFnOf(c.Args[1], where+" "+name+" "+lit)})
			return
		}
		if evalCalls[name] {
			if len(c.Args) == 1 {
				if id, ok := c.Args[0].(*ast.Ident); ok {
					if src, ok := w.strs[id.Name]; ok {
						w.scriptText(src, where)
						return
					}
				}
				if src, ok := strLit(c.Args[0]); ok {
					w.scriptText(src, where)
					return
				}
			}
			if w.flags != nil && (name == "EvalString" || name == "LoadFile") {
				return // ReplMain evaluating the user's script / -c command: that is the script itself
			}
			die("%s: %s of text that is not a string literal (%s)", where, name, pos)
		}
		// a method of the package that registers names: walk into it
		var targets []string
		if id, ok := f.X.(*ast.Ident); ok {
			if tn := identType(id); tn != "" {
				if _, ok := w.t.p.nodes[tn+"."+name]; ok {
					targets = []string{tn + "." + name}
				}
			}
			if len(targets) == 0 && (id.Name == "env") {
				if _, ok := w.t.p.nodes["Zlisp."+name]; ok {
					targets = []string{"Zlisp." + name}
				}
			}
			if id.Name == "zygo" && id.Obj == nil { // cmd/zygo: zygo.ReplMain(cfg)
				if w.t.setup[name] {
					w.walkFunc(name)
				}
				return
			}
		}
		if len(targets) == 0 {
			for _, k := range w.t.p.methods[name] {
				if w.t.setup[k] {
					targets = append(targets, k)
				}
			}
			if len(targets) > 1 {
				die("%s: call of method %s cannot be resolved to one registration-relevant method (%s)", where, name, pos)
			}
		}
		for _, k := range targets {
			if w.t.setup[k] {
				if w.plan != nil && where == "ReplMain" {
					w.plan.Steps = append(w.plan.Steps, k)
				}
				w.walkFunc(k)
			}
		}
	case *ast.Ident:
		if w.t.tableSet[f.Name] {
			return
		}
		if f.Name == "NewZlispWithFuncs" {
			if len(c.Args) != 1 {
				die("%s: NewZlispWithFuncs with %d arguments", where, len(c.Args))
			}
			ac, ok := c.Args[0].(*ast.CallExpr)
			if !ok {
				die("%s: NewZlispWithFuncs argument is not a call of a table function (%s)", where, pos)
			}
			id, ok := ac.Fun.(*ast.Ident)
			if !ok || !w.t.tableSet[id.Name] {
				die("%s: NewZlispWithFuncs argument is not a call of a table function (%s)", where, pos)
			}
			old := w.funcsP
			w.funcsP = id.Name
			w.cfg.Constructor = w.ctor + "(" + id.Name + ")"
			w.walkFunc("NewZlispWithFuncs")
			w.funcsP = old
			return
		}
		if w.t.setup[f.Name] {
			if w.plan != nil && where == "ReplMain" {
				w.plan.Steps = append(w.plan.Steps, f.Name)
			}
			w.walkFunc(f.Name)
		}
	}
}

func (w *walker) walkFunc(key string) {
	nd, ok := w.t.p.nodes[key]
	if !ok || nd.decl == nil || nd.decl.Body == nil {
		die("setup function %s not found", key)
	}
	w.depth++
	if w.depth > 12 {
		die("setup call chain too deep at %s", key)
	}
	saved := w.strs
	w.strs = map[string]string{}
	w.stmts(nd.decl.Body.List, key)
	w.strs = saved
	w.depth--
}

// ---------------------------------------------------------------------------------------------
// special forms: name-keyed dispatch in the compiler

type specialForm struct {
	Name   string `json:"name"`
	Fn     string `json:"fn"`     // pseudo node analysed for effects
	Target string `json:"target"` // first function the case body calls (documentation)
	Site   string `json:"site"`
}

func firstCallName(n ast.Node) string {
	name := ""
	ast.Inspect(n, func(m ast.Node) bool {
		if name != "" {
			return false
		}
		if c, ok := m.(*ast.CallExpr); ok {
			switch f := c.Fun.(type) {
			case *ast.SelectorExpr:
				name = f.Sel.Name
			case *ast.Ident:
				name = f.Name
			}
			return false
		}
		return true
	})
	return name
}

// isNameOf: expression X.name
func isDotName(e ast.Expr) bool {
	s, ok := e.(*ast.SelectorExpr)
	return ok && s.Sel.Name == "name"
}

func (t *translator) specialForms() []specialForm {
	var out []specialForm
	seen := map[string]bool{}
	// every method of Generator is searched for dispatch on a symbol's name
	var keys []string
	for k, nd := range t.p.nodes {
		if nd.recv == "Generator" {
			keys = append(keys, k)
		}
	}
	sort.Strings(keys)
	foundMain := false
	for _, k := range keys {
		nd := t.p.nodes[k]
		if nd.decl == nil || nd.decl.Body == nil {
			continue
		}
		ast.Inspect(nd.decl.Body, func(n ast.Node) bool {
			switch x := n.(type) {
			case *ast.SwitchStmt:
				if x.Tag == nil || !isDotName(x.Tag) {
					return true
				}
				if k == "Generator.GenerateCallBySymbol" {
					foundMain = true
				}
				for _, cc := range x.Body.List {
					cl := cc.(*ast.CaseClause)
					if cl.List == nil {
						die("%s: the switch on a symbol name has a default clause", k)
					}
					body := &ast.BlockStmt{List: cl.Body}
					for _, e := range cl.List {
						name, ok := strLit(e)
						if !ok {
							die("%s: case label of the switch on a symbol name is not a string literal", k)
						}
						if seen[name] {
							die("special form %q dispatched twice", name)
						}
						seen[name] = true
						key := "special:" + name
						t.p.nodes[key] = &node{key: key, name: key, bodies: []ast.Node{body}, imports: nd.imports, pos: t.p.fset.Position(cl.Pos())}
						out = append(out, specialForm{Name: name, Fn: key, Target: firstCallName(body), Site: k})
					}
					if nd.skip == nil {
						nd.skip = map[ast.Node]bool{}
					}
					for _, st := range cl.Body {
						nd.skip[st] = true
					}
				}
				return false
			case *ast.IfStmt:
				// if X.name == "lit" { ... }
				be, ok := x.Cond.(*ast.BinaryExpr)
				if !ok || be.Op != token.EQL {
					return true
				}
				var lit string
				var okl bool
				if isDotName(be.X) {
					lit, okl = strLit(be.Y)
				} else if isDotName(be.Y) {
					lit, okl = strLit(be.X)
				}
				if !okl {
					return true
				}
				key := "special:" + lit + "@" + k
				t.p.nodes[key] = &node{key: key, name: key, bodies: []ast.Node{x.Body}, imports: nd.imports, pos: t.p.fset.Position(x.Pos())}
				out = append(out, specialForm{Name: lit, Fn: key, Target: firstCallName(x.Body), Site: k})
				if nd.skip == nil {
					nd.skip = map[ast.Node]bool{}
				}
				nd.skip[x.Body] = true
				return true
			}
			return true
		})
	}
	if !foundMain || len(out) < 10 {
		die("the switch on sym.name in Generator.GenerateCallBySymbol was not found (special forms: %d)", len(out))
	}
	sort.Slice(out, func(i, j int) bool { return out[i].Name+out[i].Fn < out[j].Name+out[j].Fn })
	return out
}

// implicit function values: MakeUserFunction / MakeBuilderFunction outside the registration functions
func (t *translator) implicitPrims() []binding {
	var out []binding
	seen := map[string]bool{}
	scan := func(n ast.Node, where string) {
		ast.Inspect(n, func(m ast.Node) bool {
			c, ok := m.(*ast.CallExpr)
			if !ok {
				return true
			}
			id, ok := c.Fun.(*ast.Ident)
			if !ok || (id.Name != "MakeUserFunction" && id.Name != "MakeBuilderFunction") || len(c.Args) != 2 {
				return true
			}
			if _, isParam := c.Args[1].(*ast.Ident); isParam {
				if a := c.Args[1].(*ast.Ident); a.Obj != nil && a.Obj.Kind == ast.Var {
					return true // forwarding a parameter (AddFunction, NewZlispWithFuncs, MakeBuilderFunction)
				}
			}
			fn := t.goFnOf(c.Args[1], "implicit function value in "+where)
			if !seen[fn] {
				seen[fn] = true
				out = append(out, binding{Name: where, Kind: "implicit", Fn: fn})
			}
			return true
		})
	}
	for _, f := range t.p.files {
		for _, d := range f.Decls {
			switch x := d.(type) {
			case *ast.FuncDecl:
				if x.Body != nil {
					key := x.Name.Name
					if r := recvTypeName(x); r != "" {
						key = r + "." + key
					}
					scan(x.Body, key)
				}
			case *ast.GenDecl:
				scan(x, "package variable")
			}
		}
	}
	sort.Slice(out, func(i, j int) bool { return out[i].Fn < out[j].Fn })
	return out
}

// ---------------------------------------------------------------------------------------------
// output

func coqStr(s string) string { return `"` + strings.ReplaceAll(s, `"`, `""`) + `"` }

func coqStrList(xs []string) string {
	var q []string
	for _, x := range xs {
		q = append(q, coqStr(x))
	}
	return "[" + strings.Join(q, "; ") + "]"
}

func effCtor(e string) string {
	return "E" + strings.ReplaceAll(e, "_", "")
}

func main() {
	repo := flag.String("repo", "/repo", "repository root")
	outPath := flag.String("out", "", "output .v file")
	jsonPath := flag.String("json", "", "output JSON side file (default: <out>.json)")
	flag.Parse()
	if *outPath == "" {
		die("--out is required")
	}
	p := loadPkg(filepath.Join(*repo, "zygo"))
	t := &translator{p: p}

	// special forms first (registers pseudo nodes and carves them out of the Generator methods)
	specials := t.specialForms()
	t.collectTables()
	for _, nd := range p.nodes {
		p.analyse(nd)
	}
	t.computeSetup()
	onDie = func() {
		jp := *jsonPath
		if jp == "" {
			return
		}
		if _, err := os.Stat(jp); err == nil {
			return // a fuller file of an earlier run exists
		}
		names := map[string]bool{}
		for _, es := range t.tables {
			for _, e := range es {
				names[e.name] = true
			}
		}
		for _, nd := range p.nodes {
			for _, b := range nd.bodies {
				ast.Inspect(b, func(n ast.Node) bool {
					if c, ok := n.(*ast.CallExpr); ok {
						if s, ok := c.Fun.(*ast.SelectorExpr); ok {
							if _, reg := registerCalls[s.Sel.Name]; reg && len(c.Args) == 2 {
								if lit, ok := strLit(c.Args[0]); ok {
									names[lit] = true
								}
							}
						}
					}
					return true
				})
			}
		}
		var ns []string
		for n := range names {
			ns = append(ns, n)
		}
		sort.Strings(ns)
		var sfj [][2]string
		for _, s := range specials {
			sfj = append(sfj, [2]string{s.Name, s.Fn})
		}
		js, _ := json.MarshalIndent(map[string]interface{}{"special_forms": sfj, "all_names": ns, "partial": true}, "", " ")
		os.WriteFile(jp, js, 0644)
	}

	// the interpreter's sandbox flag: a field of the interpreter that NewZlispSandbox sets to true
	if nd, ok := p.nodes["NewZlispSandbox"]; ok && nd.decl.Body != nil {
		ast.Inspect(nd.decl.Body, func(n ast.Node) bool {
			as, ok := n.(*ast.AssignStmt)
			if !ok || len(as.Lhs) != 1 || len(as.Rhs) != 1 {
				return true
			}
			sel, ok := as.Lhs[0].(*ast.SelectorExpr)
			v, ok2 := as.Rhs[0].(*ast.Ident)
			if ok && ok2 && v.Name == "true" && strings.Contains(strings.ToLower(sel.Sel.Name), "sandbox") {
				if t.flag != "" && t.flag != sel.Sel.Name {
					die("NewZlispSandbox sets two sandbox flags (%s, %s)", t.flag, sel.Sel.Name)
				}
				t.flag = sel.Sel.Name
			}
			return true
		})
	} else {
		die("NewZlispSandbox not found")
	}
	if t.flag != "" {
		// the flag must not be switched off anywhere in the package
		for k, nd := range p.nodes {
			for _, b := range nd.bodies {
				ast.Inspect(b, func(n ast.Node) bool {
					if as, ok := n.(*ast.AssignStmt); ok {
						for i, l := range as.Lhs {
							if endsInField(l, t.flag) && k != "NewZlispSandbox" {
								// copying the flag (Clone / Duplicate) is fine; anything else is not understood
								if i < len(as.Rhs) && endsInField(as.Rhs[i], t.flag) {
									continue
								}
								die("%s assigns the sandbox flag %s", k, t.flag)
							}
						}
					}
					return true
				})
			}
		}
	}
	familyCopies := map[string]bool{"Zlisp.Duplicate": false, "Zlisp.Clone": false}
	famMakers := map[string][]string{} // Duplicate / Clone -> the functions (itself, helpers it calls) that make the new interpreter value
	{
		// every function that makes another interpreter value (new(Zlisp), Zlisp{...}) must copy the flag; for Duplicate and
		// Clone (and the helpers they call to make the value) the answer goes into the family tables instead of failing here
		makesM, copiesM := map[string]bool{}, map[string]bool{}
		for k, nd := range p.nodes {
			makes, copies := false, false
			for _, b := range nd.bodies {
				ast.Inspect(b, func(n ast.Node) bool {
					switch x := n.(type) {
					case *ast.CallExpr:
						if id, ok := x.Fun.(*ast.Ident); ok && id.Name == "new" && len(x.Args) == 1 && typeName(x.Args[0]) == "Zlisp" {
							makes = true
						}
					case *ast.CompositeLit:
						if x.Type != nil && typeName(x.Type) == "Zlisp" {
							makes = true
						}
					case *ast.AssignStmt:
						for i, l := range x.Lhs {
							if t.flag != "" && endsInField(l, t.flag) && i < len(x.Rhs) && endsInField(x.Rhs[i], t.flag) {
								copies = true
							}
						}
					}
					return true
				})
			}
			makesM[k], copiesM[k] = makes, copies
		}
		exempt := map[string]bool{"NewZlispWithFuncs": true}
		for _, fam := range []string{"Zlisp.Duplicate", "Zlisp.Clone"} {
			nd, ok := p.nodes[fam]
			if !ok {
				die("family: %s not found", fam)
			}
			var makers []string
			if makesM[fam] {
				makers = append(makers, fam)
			}
			var cs []string
			for c := range nd.callees {
				cs = append(cs, c)
			}
			sort.Strings(cs)
			for _, c := range cs {
				if makesM[c] && c != fam && c != "NewZlispWithFuncs" {
					makers = append(makers, c)
				}
			}
			if len(makers) == 0 {
				die("%s no longer makes a new interpreter value (directly or through a helper): shape not understood", fam)
			}
			copied := copiesM[fam]
			if !copied {
				copied = true
				for _, m := range makers {
					if !copiesM[m] {
						copied = false
					}
				}
			}
			for _, m := range makers {
				exempt[m] = true
			}
			exempt[fam] = true
			familyCopies[fam] = copied && t.flag != ""
			famMakers[fam] = makers
		}
		if t.flag != "" {
			for k := range p.nodes {
				if makesM[k] && !copiesM[k] && !exempt[k] {
					die("%s makes a new interpreter value without copying the sandbox flag %s", k, t.flag)
				}
			}
		}
	}
	guardedN := p.markGuards(t.flag)

	// configurations
	cfgs := map[string]*config{}
	mk := func(name string, walk func(w *walker)) {
		c := &config{Bindings: []binding{}, ScriptMacros: []scriptMacro{}, DynSources: []string{}}
		w := &walker{t: t, cfg: c, strs: map[string]string{}, sandboxedCfg: name != "full"}
		walk(w)
		cfgs[name] = c
	}
	ctor := func(w *walker, name string) {
		nd, ok := p.nodes[name]
		if !ok || nd.decl.Body == nil || len(nd.decl.Body.List) == 0 || len(nd.decl.Body.List) > 6 {
			die("%s: constructor body not understood", name)
		}
		w.ctor = name
		w.stmts(nd.decl.Body.List, name)
		if w.cfg.Constructor == "" {
			die("%s does not call NewZlispWithFuncs(<table>())", name)
		}
	}
	sandboxCtor := func(w *walker) { ctor(w, "NewZlispSandbox") }
	mk("bare", func(w *walker) { sandboxCtor(w) })
	mk("std", func(w *walker) { sandboxCtor(w); w.walkFunc("Zlisp.StandardSetup") })
	// control configuration (not sandboxed): NewZlisp() + StandardSetup()
	mk("full", func(w *walker) { ctor(w, "NewZlisp"); w.walkFunc("Zlisp.StandardSetup") })
	// cmd/zygo -sandbox
	mainPkg := loadPkg(filepath.Join(*repo, "cmd", "zygo"))
	mk("bin", func(w *walker) {
		// flag definition: -sandbox sets cfg.Sandboxed
		df, ok := p.nodes["ZlispConfig.DefineFlags"]
		if !ok {
			die("ZlispConfig.DefineFlags not found")
		}
		okFlag := false
		boolFlags := map[string]bool{}
		ast.Inspect(df.decl.Body, func(n ast.Node) bool {
			c, ok := n.(*ast.CallExpr)
			if !ok {
				return true
			}
			s, ok := c.Fun.(*ast.SelectorExpr)
			if !ok || len(c.Args) < 3 {
				return true
			}
			u, ok := c.Args[0].(*ast.UnaryExpr)
			if !ok {
				return true
			}
			fs, ok := u.X.(*ast.SelectorExpr)
			if !ok {
				return true
			}
			flagName, _ := strLit(c.Args[1])
			switch s.Sel.Name {
			case "BoolVar":
				def, ok := c.Args[2].(*ast.Ident)
				if !ok || def.Name != "false" {
					die("flag -%s does not default to false", flagName)
				}
				boolFlags[fs.Sel.Name] = false
				if flagName == "sandbox" && fs.Sel.Name == "Sandboxed" {
					okFlag = true
				}
			case "StringVar":
				if d, ok := strLit(c.Args[2]); !ok || d != "" {
					die("string flag -%s does not default to the empty string", flagName)
				}
				stringFlags[fs.Sel.Name] = true
			}
			return true
		})
		if !okFlag {
			die("flag -sandbox is not bound to cfg.Sandboxed")
		}
		boolFlags["Sandboxed"] = true
		w.flags = boolFlags
		// main() must hand over to zygo.ReplMain(cfg) and register nothing itself
		mn, ok := mainPkg.nodes["main"]
		if !ok {
			die("cmd/zygo: main not found")
		}
		calls := false
		ast.Inspect(mn.decl.Body, func(n ast.Node) bool {
			if c, ok := n.(*ast.CallExpr); ok {
				if s, ok := c.Fun.(*ast.SelectorExpr); ok {
					if id, ok := s.X.(*ast.Ident); ok && id.Name == "zygo" && s.Sel.Name == "ReplMain" {
						calls = true
					}
					if _, reg := registerCalls[s.Sel.Name]; reg {
						die("cmd/zygo main registers names itself")
					}
				}
			}
			return true
		})
		if !calls {
			die("cmd/zygo main does not call zygo.ReplMain")
		}
		// the configuration ReplMain receives must be what ONE parse of the command line produced:
		// flags defined once, parsed once, no field of cfg written afterwards (a second DefineFlags /
		// Parse / a fresh FlagSet re-assigns defaults and can silently drop -sandbox)
		nDefine, nParse, nCtor := 0, 0, 0
		for _, mnd := range mainPkg.nodes {
			for _, b := range mnd.bodies {
				ast.Inspect(b, func(n ast.Node) bool {
					switch x := n.(type) {
					case *ast.CallExpr:
						if s, ok := x.Fun.(*ast.SelectorExpr); ok {
							switch s.Sel.Name {
							case "DefineFlags":
								nDefine++
							case "Parse":
								nParse++
							case "NewZlispConfig":
								nCtor++
							case "NewFlagSet", "Set", "BoolVar", "StringVar", "Var":
								die("cmd/zygo: %s called outside the library's flag definition (%s)", s.Sel.Name, mainPkg.fset.Position(x.Pos()))
							}
						}
					case *ast.AssignStmt:
						for _, l := range x.Lhs {
							if sel, ok := l.(*ast.SelectorExpr); ok {
								die("cmd/zygo: assignment to %s.%s: the configuration is written outside flag parsing (%s)", typeName(sel.X), sel.Sel.Name, mainPkg.fset.Position(x.Pos()))
							}
						}
					case *ast.UnaryExpr:
						if x.Op == token.AND {
							if _, ok := x.X.(*ast.SelectorExpr); ok {
								die("cmd/zygo: address of a configuration field taken (%s)", mainPkg.fset.Position(x.Pos()))
							}
						}
					}
					return true
				})
			}
		}
		if nDefine != 1 || nParse != 1 || nCtor != 1 {
			die("cmd/zygo: expected exactly one NewZlispConfig, one DefineFlags and one Parse, found %d/%d/%d", nCtor, nDefine, nParse)
		}
		// inside the library nothing but the flag definition may write cfg.Sandboxed, and nobody re-defines the flags
		for k, znd := range p.nodes {
			for _, b := range znd.bodies {
				ast.Inspect(b, func(n ast.Node) bool {
					switch x := n.(type) {
					case *ast.CallExpr:
						if s, ok := x.Fun.(*ast.SelectorExpr); ok && s.Sel.Name == "DefineFlags" {
							die("%s calls DefineFlags again", k)
						}
					case *ast.AssignStmt:
						for _, l := range x.Lhs {
							if endsInField(l, "Sandboxed") {
								die("%s assigns the Sandboxed field of the configuration", k)
							}
						}
					case *ast.UnaryExpr:
						if x.Op == token.AND && endsInField(x.X, "Sandboxed") && k != "ZlispConfig.DefineFlags" {
							die("%s takes the address of the Sandboxed field of the configuration", k)
						}
					case *ast.IncDecStmt:
					}
					return true
				})
			}
		}
		w.ctor = "NewZlispSandbox"
		w.walkReplMain()
	})

	// ---- the interpreter family (Model/Family.v) ----
	// what one setup function registers, by value of the interpreter's sandbox flag
	regsOf := func(fn string, sb bool) *config {
		c := &config{Bindings: []binding{}, ScriptMacros: []scriptMacro{}, DynSources: []string{}}
		w := &walker{t: t, cfg: c, strs: map[string]string{}, sandboxedCfg: sb}
		w.walkFunc(fn)
		return c
	}
	ctorOf := func(name string, sb bool) *config {
		c := &config{Bindings: []binding{}, ScriptMacros: []scriptMacro{}, DynSources: []string{}}
		w := &walker{t: t, cfg: c, strs: map[string]string{}, sandboxedCfg: sb}
		ctor(w, name)
		return c
	}
	for _, k := range []string{"Zlisp.StandardSetup", "Zlisp.ImportDemoData", "Zlisp.Duplicate", "Zlisp.Clone"} {
		if _, ok := p.nodes[k]; !ok {
			die("family: %s not found", k)
		}
	}
	famRegs := map[string]*config{
		"ctor_sandbox": ctorOf("NewZlispSandbox", true), "ctor_full": ctorOf("NewZlisp", false),
		"std_regs_sb": regsOf("Zlisp.StandardSetup", true), "std_regs_open": regsOf("Zlisp.StandardSetup", false),
		"demo_regs_sb": regsOf("Zlisp.ImportDemoData", true), "demo_regs_open": regsOf("Zlisp.ImportDemoData", false),
	}
	// Duplicate / Clone share the binding tables with the parent: X.builtins = Y.builtins, X.macros = Y.macros and the
	// parent's global scope (linearstack.elements[0] pushed, or the scope stack cloned)
	familyShares := map[string]bool{}
	for _, k := range []string{"Zlisp.Duplicate", "Zlisp.Clone"} {
		got := map[string]bool{}
		var famBodies []ast.Node
		for _, m := range append([]string{k}, famMakers[k]...) {
			famBodies = append(famBodies, p.nodes[m].bodies...)
		}
		for _, b := range famBodies {
			ast.Inspect(b, func(n ast.Node) bool {
				switch x := n.(type) {
				case *ast.AssignStmt:
					for i, l := range x.Lhs {
						for _, f := range []string{"builtins", "macros"} {
							if endsInField(l, f) && i < len(x.Rhs) && endsInField(x.Rhs[i], f) {
								got[f] = true
							}
						}
					}
				case *ast.CallExpr:
					if sel, ok := x.Fun.(*ast.SelectorExpr); ok && sel.Sel.Name == "Push" && len(x.Args) == 1 {
						if ix, ok := x.Args[0].(*ast.IndexExpr); ok && endsInField(ix.X, "elements") {
							if lit, ok := ix.Index.(*ast.BasicLit); ok && lit.Value == "0" {
								got["global"] = true
							}
						}
					}
				}
				return true
			})
		}
		familyShares[k] = got["builtins"] && got["macros"] && got["global"]
	}
	// ReplMain under EVERY assignment of the configuration flags its construction / registration depends on
	type planRow struct {
		Flags []bool   `json:"flags"`
		Ctor  string   `json:"ctor"`
		Steps []string `json:"steps"`
		N     int      `json:"bindings"`
	}
	var planFlags []string
	var planRows []planRow
	{
		df := p.nodes["ZlispConfig.DefineFlags"]
		isBool := map[string]bool{}
		ast.Inspect(df.decl.Body, func(n ast.Node) bool {
			if c, ok := n.(*ast.CallExpr); ok && len(c.Args) >= 3 {
				if s, ok := c.Fun.(*ast.SelectorExpr); ok && s.Sel.Name == "BoolVar" {
					if u, ok := c.Args[0].(*ast.UnaryExpr); ok {
						if fs, ok := u.X.(*ast.SelectorExpr); ok {
							isBool[fs.Sel.Name] = true
						}
					}
				}
			}
			return true
		})
		relevant := map[string]bool{"Sandboxed": true}
		for round := 0; ; round++ {
			if round > 6 {
				die("ReplMain: the set of construction-relevant flags does not stabilise")
			}
			planFlags = planFlags[:0]
			for f := range relevant {
				planFlags = append(planFlags, f)
			}
			sort.Strings(planFlags)
			if len(planFlags) > 8 {
				die("ReplMain: %d flags decide construction / registration: %v", len(planFlags), planFlags)
			}
			planRows = planRows[:0]
			grew := false
			for m := 0; m < 1<<uint(len(planFlags)); m++ {
				fl := map[string]bool{}
				for f := range isBool {
					fl[f] = false
				}
				ss := map[string]bool{}
				var vec []bool
				for i, f := range planFlags {
					v := m&(1<<uint(i)) != 0
					vec = append(vec, v)
					if isBool[f] {
						fl[f] = v
					} else {
						ss[f] = v
					}
				}
				c := &config{Bindings: []binding{}, ScriptMacros: []scriptMacro{}, DynSources: []string{}}
				w := &walker{t: t, cfg: c, strs: map[string]string{}, flags: fl, strSet: ss, consulted: map[string]bool{}, plan: &planRec{}}
				w.walkReplMain()
				for f := range w.consulted {
					if !relevant[f] {
						relevant[f] = true
						grew = true
					}
				}
				planRows = append(planRows, planRow{vec, w.plan.Ctor, append([]string{}, w.plan.Steps...), len(c.Bindings)})
				// the composition the family model uses must be what the walk produced
				want := []binding{}
				switch w.plan.Ctor {
				case "NewZlispSandbox":
					want = append(want, famRegs["ctor_sandbox"].Bindings...)
				case "NewZlisp":
					want = append(want, famRegs["ctor_full"].Bindings...)
				default:
					die("ReplMain constructs its interpreter with %s: not a constructor the family model knows", w.plan.Ctor)
				}
				sfx := "_open"
				if w.plan.Ctor == "NewZlispSandbox" {
					sfx = "_sb"
				}
				for _, st := range w.plan.Steps {
					switch st {
					case "Zlisp.StandardSetup":
						want = append(want, famRegs["std_regs"+sfx].Bindings...)
					case "Zlisp.ImportDemoData":
						want = append(want, famRegs["demo_regs"+sfx].Bindings...)
					default:
						die("ReplMain calls the registration-relevant function %s: not a step the family model knows", st)
					}
				}
				if len(want) != len(c.Bindings) {
					die("ReplMain under %v=%v: %d bindings walked, %d composed from constructor + steps", planFlags, vec, len(c.Bindings), len(want))
				}
				for i := range want {
					if want[i] != c.Bindings[i] {
						die("ReplMain under %v=%v: binding %d differs (%v vs %v)", planFlags, vec, i, c.Bindings[i], want[i])
					}
				}
			}
			if !grew {
				break
			}
		}
	}

	// everything any table binds + every Add* literal name anywhere (candidate names for the harness)
	allNames := map[string]bool{}
	for _, es := range t.tables {
		for _, e := range es {
			allNames[e.name] = true
		}
	}
	for _, nd := range p.nodes {
		for _, b := range nd.bodies {
			ast.Inspect(b, func(n ast.Node) bool {
				if c, ok := n.(*ast.CallExpr); ok {
					if s, ok := c.Fun.(*ast.SelectorExpr); ok {
						if _, reg := registerCalls[s.Sel.Name]; reg && len(c.Args) == 2 {
							if lit, ok := strLit(c.Args[0]); ok {
								allNames[lit] = true
							}
						}
					}
				}
				return true
			})
		}
	}
	implicit := t.implicitPrims()

	// VM / compiler core entry points
	vm := []string{"Zlisp.EvalString", "Zlisp.EvalExpressions", "Zlisp.LoadString", "Zlisp.LoadExpressions", "Zlisp.Run", "Zlisp.Apply", "Zlisp.CallUserFunction", "Zlisp.CallFunction"}
	for _, k := range vm {
		if _, ok := p.nodes[k]; !ok {
			die("VM entry point %s not found", k)
		}
	}
	for _, k := range p.methods["Execute"] {
		vm = append(vm, k)
	}
	sort.Strings(vm)

	// pseudo nodes added after the first analysis pass
	for _, nd := range p.nodes {
		if nd.sinks == nil {
			p.analyse(nd)
		}
	}
	// the Generator methods were analysed before the special forms were carved out? no: specialForms ran first.
	eff := p.effects(false)
	effS := p.effects(true) // for sandboxed configurations: functions guarded by the sandbox flag are cut

	// function identifiers the tables use
	used := map[string]bool{}
	for _, c := range cfgs {
		for _, b := range c.Bindings {
			if b.Fn != "" {
				used[b.Fn] = true
			}
		}
	}
	for _, c := range famRegs {
		for _, b := range c.Bindings {
			if b.Fn != "" {
				used[b.Fn] = true
			}
		}
	}
	for _, s := range specials {
		used[s.Fn] = true
	}
	for _, b := range implicit {
		used[b.Fn] = true
	}
	for _, k := range vm {
		used[k] = true
	}
	for _, es := range t.tables {
		for _, e := range es {
			used[e.fn] = true
		}
	}
	var usedKeys []string
	for k := range used {
		if _, ok := eff[k]; !ok {
			die("no effect information for %s", k)
		}
		usedKeys = append(usedKeys, k)
	}
	sort.Strings(usedKeys)

	effList := func(k string) []string {
		var es []string
		for _, e := range effectNames {
			if _, ok := eff[k].effs[e]; ok {
				es = append(es, e)
			}
		}
		return es
	}

	// ---------------- Coq ----------------
	var sb strings.Builder
	w := func(format string, a ...interface{}) { fmt.Fprintf(&sb, format, a...) }
	w("(* GENERATED by translator/cmd/sandbox from the Go source of the repository -- do not edit. *)\n")
	w("From Coq Require Import String List.\nImport ListNotations.\nOpen Scope string_scope.\n\n")
	w("Inductive effect := ")
	for i, e := range effectNames {
		if i > 0 {
			w(" | ")
		}
		w("%s", effCtor(e))
	}
	w(".\n\n")
	w("Inductive bkind := KFunction | KBuiltin | KBuilder | KGoMacro | KValue | KImplicit.\n\n")
	w("(* Go function identifier -> effect classes reached through the intra-package call graph. *)\n")
	w("Definition fn_effects : list (string * list effect) := [\n")
	for i, k := range usedKeys {
		var es []string
		for _, e := range effList(k) {
			es = append(es, effCtor(e))
		}
		sep := ";"
		if i == len(usedKeys)-1 {
			sep = ""
		}
		w("  (%s, [%s])%s", coqStr(k), strings.Join(es, "; "), sep)
		if len(es) > 0 {
			var paths []string
			for _, e := range effList(k) {
				paths = append(paths, e+": "+eff[k].effs[e])
			}
			w(" (* %s *)", strings.ReplaceAll(strings.Join(paths, " | "), "*)", "* )"))
		}
		w("\n")
	}
	w("].\n\n")
	sameS := true
	effListS := func(k string) []string {
		var es []string
		for _, e := range effectNames {
			if _, ok := effS[k].effs[e]; ok {
				es = append(es, e)
			}
		}
		return es
	}
	for _, k := range usedKeys {
		if strings.Join(effList(k), ",") != strings.Join(effListS(k), ",") {
			sameS = false
		}
	}
	w("(* the same for sandboxed configurations: %d function(s) start with a guard on the interpreter's sandbox flag %q and are cut *)\n", guardedN, t.flag)
	if sameS {
		w("Definition fn_effects_sandboxed : list (string * list effect) := fn_effects.\n\n")
	} else {
		w("Definition fn_effects_sandboxed : list (string * list effect) := [\n")
		for i, k := range usedKeys {
			var es []string
			for _, e := range effListS(k) {
				es = append(es, effCtor(e))
			}
			sep := ";"
			if i == len(usedKeys)-1 {
				sep = ""
			}
			w("  (%s, [%s])%s\n", coqStr(k), strings.Join(es, "; "), sep)
		}
		w("].\n\n")
	}
	w("Definition special_forms : list (string * string) := [\n")
	for i, s := range specials {
		sep := ";"
		if i == len(specials)-1 {
			sep = ""
		}
		w("  (%s, %s)%s (* %s: %s *)\n", coqStr(s.Name), coqStr(s.Fn), sep, s.Site, s.Target)
	}
	w("].\n\n")
	w("Definition implicit_prims : list (string * bkind * string) := [\n")
	for i, b := range implicit {
		sep := ";"
		if i == len(implicit)-1 {
			sep = ""
		}
		w("  (%s, KImplicit, %s)%s\n", coqStr("<"+b.Name+">"), coqStr(b.Fn), sep)
	}
	w("].\n\n")
	w("Definition vm_core : list string := %s.\n\n", coqStrList(vm))
	kindCtor := map[string]string{"function": "KFunction", "builtin": "KBuiltin", "builder": "KBuilder", "gomacro": "KGoMacro", "value": "KValue"}
	for _, name := range []string{"bare", "std", "bin", "full"} {
		c := cfgs[name]
		w("(* configuration %s: %s *)\n", name, c.Constructor)
		w("Definition bindings_%s : list (string * bkind * string) := [\n", name)
		for i, b := range c.Bindings {
			sep := ";"
			if i == len(c.Bindings)-1 {
				sep = ""
			}
			w("  (%s, %s, %s)%s\n", coqStr(b.Name), kindCtor[b.Kind], coqStr(b.Fn), sep)
		}
		w("].\n")
		w("Definition script_macros_%s : list (string * list string) := [\n", name)
		for i, m := range c.ScriptMacros {
			sep := ";"
			if i == len(c.ScriptMacros)-1 {
				sep = ""
			}
			w("  (%s, %s)%s\n", coqStr(m.Name), coqStrList(m.Mentions), sep)
		}
		w("].\n")
		w("Definition dyn_sources_%s : list string := %s.\n\n", name, coqStrList(c.DynSources))
	}
	w("(* ---- the interpreter family (Model/Family.v) ---- *)\n")
	for _, name := range []string{"ctor_sandbox", "ctor_full", "std_regs_sb", "std_regs_open", "demo_regs_sb", "demo_regs_open"} {
		c := famRegs[name]
		w("Definition %s : list (string * bkind * string) := [\n", name)
		for i, b := range c.Bindings {
			sep := ";"
			if i == len(c.Bindings)-1 {
				sep = ""
			}
			w("  (%s, %s, %s)%s\n", coqStr(b.Name), kindCtor[b.Kind], coqStr(b.Fn), sep)
		}
		w("].\n")
		w("Definition %s_macros : list (string * list string) := [\n", name)
		for i, m := range c.ScriptMacros {
			sep := ";"
			if i == len(c.ScriptMacros)-1 {
				sep = ""
			}
			w("  (%s, %s)%s\n", coqStr(m.Name), coqStrList(m.Mentions), sep)
		}
		w("].\n\n")
	}
	coqBool := func(b bool) string {
		if b {
			return "true"
		}
		return "false"
	}
	w("(* environment.go Duplicate / Clone: is the sandbox flag copied from the parent; are env.builtins, env.macros and the global scope shared with it *)\n")
	w("Definition duplicate_copies_flag : bool := %s.\nDefinition clone_copies_flag : bool := %s.\n", coqBool(familyCopies["Zlisp.Duplicate"]), coqBool(familyCopies["Zlisp.Clone"]))
	w("Definition duplicate_shares_tables : bool := %s.\nDefinition clone_shares_tables : bool := %s.\n\n", coqBool(familyShares["Zlisp.Duplicate"]), coqBool(familyShares["Zlisp.Clone"]))
	w("(* repl.go ReplMain under every assignment of the configuration flags that decide construction / registration:\n   (values of replmain_flags, (constructor is NewZlispSandbox, registration-relevant functions called on the interpreter in order)) *)\n")
	w("Definition replmain_flags : list string := %s.\n", coqStrList(planFlags))
	w("Definition replmain_plans : list (list bool * (bool * list string)) := [\n")
	for i, r := range planRows {
		var vs []string
		for _, v := range r.Flags {
			vs = append(vs, coqBool(v))
		}
		sep := ";"
		if i == len(planRows)-1 {
			sep = ""
		}
		w("  ([%s], (%s, %s))%s\n", strings.Join(vs, "; "), coqBool(r.Ctor == "NewZlispSandbox"), coqStrList(r.Steps), sep)
	}
	w("].\n")
	if err := os.WriteFile(*outPath, []byte(sb.String()), 0644); err != nil {
		die("%v", err)
	}

	// ---------------- JSON ----------------
	jp := *jsonPath
	if jp == "" {
		jp = strings.TrimSuffix(strings.TrimSuffix(*outPath, ".tmp"), ".v") + ".json"
	}
	effJ := map[string][]string{}
	effSJ := map[string][]string{}
	pathJ := map[string]map[string]string{}
	for _, k := range usedKeys {
		effJ[k] = effList(k)
		effSJ[k] = effListS(k)
		if len(eff[k].effs) > 0 {
			pathJ[k] = eff[k].effs
		}
	}
	var guardedFns []string
	for k, nd := range p.nodes {
		if nd.guarded {
			guardedFns = append(guardedFns, k)
		}
	}
	sort.Strings(guardedFns)
	var names []string
	for n := range allNames {
		names = append(names, n)
	}
	sort.Strings(names)
	var sfj [][2]string
	for _, s := range specials {
		sfj = append(sfj, [2]string{s.Name, s.Fn})
	}
	dyn := 0
	for _, nd := range p.nodes {
		dyn += nd.dyn
	}
	tablesJ := map[string][][2]string{}
	for k, es := range t.tables {
		for _, e := range es {
			tablesJ[k] = append(tablesJ[k], [2]string{e.name, e.fn})
		}
	}
	js, _ := json.MarshalIndent(map[string]interface{}{
		"special_forms": sfj, "special_form_sites": specials, "all_names": names, "configs": cfgs, "effects": effJ, "effects_sandboxed": effSJ, "paths": pathJ,
		"sandbox_flag": t.flag, "guarded_functions": guardedFns,
		"family": map[string]interface{}{"regs": famRegs, "copies_flag": familyCopies, "shares_tables": familyShares, "replmain_flags": planFlags, "replmain_plans": planRows},
		"implicit": implicit, "vm_core": vm, "tables": tablesJ, "unresolved_dynamic_calls": dyn, "functions_analysed": len(p.nodes),
	}, "", " ")
	if err := os.WriteFile(jp, js, 0644); err != nil {
		die("%v", err)
	}
	fmt.Printf("sandbox tables: %d functions analysed, %d special forms, bindings bare=%d std=%d bin=%d, %d identifiers with effects listed\n",
		len(p.nodes), len(specials), len(cfgs["bare"].Bindings), len(cfgs["std"].Bindings), len(cfgs["bin"].Bindings), len(usedKeys))
}

// walkReplMain walks zygo.ReplMain with cfg.Sandboxed = true and every other flag at its default.
func (w *walker) walkReplMain() {
	nd, ok := w.t.p.nodes["ReplMain"]
	if !ok || nd.decl.Body == nil {
		die("ReplMain not found")
	}
	sawCtor := false
	for _, s := range nd.decl.Body.List {
		// if cfg.Sandboxed { env = NewZlispSandbox() } else { env = NewZlisp() }
		if is, ok := s.(*ast.IfStmt); ok {
			if v, known := w.condValue(is.Cond); known {
				if w.containsSetup(is) {
					w.note(is.Cond)
				}
				var body []ast.Stmt
				if v {
					body = is.Body.List
				} else if is.Else != nil {
					if b, ok := is.Else.(*ast.BlockStmt); ok {
						body = b.List
					} else {
						body = []ast.Stmt{is.Else}
					}
				}
				for _, st := range body {
					if as, ok := st.(*ast.AssignStmt); ok && len(as.Rhs) == 1 {
						if c, ok := as.Rhs[0].(*ast.CallExpr); ok {
							if id, ok := c.Fun.(*ast.Ident); ok && strings.HasPrefix(id.Name, "NewZlisp") {
								w.note(is.Cond)
								if w.plan != nil {
									// enumeration over flag assignments: record what is constructed
									if w.plan.Ctor != "" {
										die("ReplMain constructs two interpreters (%s, %s)", w.plan.Ctor, id.Name)
									}
									w.plan.Ctor = id.Name
									cn, ok := w.t.p.nodes[id.Name]
									if !ok || cn.decl.Body == nil || len(c.Args) != 0 {
										die("ReplMain: constructor %s not understood", id.Name)
									}
									sawCtor = true
									w.ctor = id.Name
									w.sandboxedCfg = id.Name == "NewZlispSandbox"
									w.stmts(cn.decl.Body.List, id.Name)
									continue
								}
								if id.Name != "NewZlispSandbox" {
									die("ReplMain under -sandbox constructs the interpreter with %s", id.Name)
								}
								sawCtor = true
								cn := w.t.p.nodes["NewZlispSandbox"]
								w.stmts(cn.decl.Body.List, "NewZlispSandbox")
								continue
							}
						}
					}
					if w.containsSetup(st) {
						w.note(is.Cond)
					}
					w.stmt(st, "ReplMain")
				}
				continue
			}
			// `if len(args) > 0 { runScript(...) }` and `if runRepl { Repl(env, cfg) }`: walk the body
			if w.containsSetup(is) {
				w.stmts(is.Body.List, "ReplMain")
				if is.Else != nil {
					w.stmt(is.Else, "ReplMain")
				}
			}
			continue
		}
		w.stmt(s, "ReplMain")
	}
	if !sawCtor {
		die("ReplMain: construction of the interpreter under cfg.Sandboxed not found")
	}
}
