// tailsites: tie (T) of property C09.  Reads the non-test source files of package zygo and writes
// coq/Generated/TailSites.v: for every function that drives the code generator, the value of the
// generator's Tail flag at every place where a sub-form is handed to the compiler.
//
// Method: a collecting semantics over the finite domain of the flag.  The function body (go/ast) is
// executed on SETS of abstract states; a state maps the tracked booleans (`G.Tail` of every generator
// variable G = the receiver or a local made by NewGenerator / NewSubGenerator, and local booleans
// computed from them such as `oldtail`, `selfTail`) to true/false.  Unknown conditions take both
// branches, loops run to the fixpoint of the state set, `if err != nil` blocks are error paths
// (compilation aborts) and are skipped, `defer func(){..}()` bodies run at every return.  Each function
// is executed twice: with the receiver's flag false and true at entry (the ghost value `in`).
//
//	tail_sites : (function, callee, argument text, ordinal, flags seen when in=false, flags seen when in=true)
//	             for every call  G.Generate*(..) / G.generate*(..)
//	tail_exits : (function, flags of the receiver at a normal return when in=false / in=true)
//	tail_gotos : (function, a GotoInstr{0} can be emitted when in=false / in=true)
//
//	tail_new_generator, tail_new_subgenerator, tail_after_reset : summaries of the constructors and of Reset
//
// NewGenerator, NewSubGenerator and the methods of Generator that are not compiling methods (Reset ..) are
// executed first; a call of one of them applies its own summary (nothing about them is built in, except
// that new(Generator) has Tail = false).  A call of a compiling method (Generate*/generate*) on G with flag
// v is ASSUMED to leave G.Tail in {v, false}; that every method keeps this promise is what `exit_ok`
// checks on tail_exits in Coq (induction on the depth of the compile recursion).  A local closure
// (GenerateInclude's sourceItem) is executed at every call of it (a recursive call inside it is skipped).  Fails loudly on any assignment to a
// generator's Tail it cannot evaluate.
package main

import (
	"bytes"
	"flag"
	"fmt"
	"go/ast"
	"go/parser"
	"go/printer"
	"go/token"
	"os"
	"path/filepath"
	"sort"
	"strings"
)

func die(f string, a ...interface{}) {
	fmt.Fprintf(os.Stderr, "tailsites: "+f+"\n", a...)
	os.Exit(1)
}

var fset = token.NewFileSet()

func show(n ast.Node) string {
	var b bytes.Buffer
	printer.Fprint(&b, fset, n)
	return strings.Join(strings.Fields(b.String()), " ")
}

// ---- abstract states

type state struct {
	v      map[string]bool // tracked booleans
	defers []int           // registered defer bodies (indices into interp.deferBodies)
}

func (s state) key() string {
	ks := make([]string, 0, len(s.v))
	for k := range s.v {
		ks = append(ks, k)
	}
	sort.Strings(ks)
	var b strings.Builder
	for _, k := range ks {
		fmt.Fprintf(&b, "%s=%v;", k, s.v[k])
	}
	fmt.Fprintf(&b, "|%v", s.defers)
	return b.String()
}

func (s state) with(k string, val bool) state {
	n := state{v: make(map[string]bool, len(s.v)+1), defers: s.defers}
	for a, b := range s.v {
		n.v[a] = b
	}
	n.v[k] = val
	return n
}

type states map[string]state

func (ss states) add(s state) { ss[s.key()] = s }
func union(a, b states) states {
	r := states{}
	for k, v := range a {
		r[k] = v
	}
	for k, v := range b {
		r[k] = v
	}
	return r
}

type bset struct{ f, t bool }

func (b bset) String() string {
	switch {
	case b.f && b.t:
		return "SBoth"
	case b.f:
		return "SF"
	case b.t:
		return "ST"
	}
	return "SNone"
}
func (b *bset) put(v bool) {
	if v {
		b.t = true
	} else {
		b.f = true
	}
}

type siteKey struct {
	fn, callee, arg string
	pos             token.Pos
}
type siteRec struct {
	key siteKey
	in  [2]bset
}

type interp struct {
	fn          string
	recv        string          // receiver generator variable ("" when the function is not a method of Generator)
	gens        map[string]bool // generator variables
	in          bool
	sites       map[siteKey]*siteRec
	exits       *[2]bset
	gotos       *[2]bool
	deferBodies []*ast.BlockStmt
	methods     map[string]bool
	ctor        map[string]*[2]bset // NewGenerator / NewSubGenerator: Tail of the result, by the receiver's flag
	helper      map[string]*[2]bset // other methods of Generator (Reset ..): the receiver's flag afterwards
	ctorRet     *bset               // when a constructor is being executed: Tail of the returned generator
	closures    map[string]*ast.FuncLit // local closures, executed where they are CALLED
	running     map[string]bool
	inClosure   int
	// loop / closure context
	brk, cont, ret *states
}

func isNil(e ast.Expr) bool { id, ok := e.(*ast.Ident); return ok && id.Name == "nil" }

func isErrNotNil(e ast.Expr) bool {
	b, ok := e.(*ast.BinaryExpr)
	if !ok || b.Op != token.NEQ {
		return false
	}
	id, ok := b.X.(*ast.Ident)
	return ok && strings.HasPrefix(strings.ToLower(id.Name), "err") && isNil(b.Y)
}

// genTail recognises G.Tail for a generator variable G.
func (it *interp) genTail(e ast.Expr) (string, bool) {
	s, ok := e.(*ast.SelectorExpr)
	if !ok || s.Sel.Name != "Tail" {
		return "", false
	}
	id, ok := s.X.(*ast.Ident)
	if !ok || !it.gens[id.Name] {
		return "", false
	}
	return id.Name + ".Tail", true
}

// eval returns the possible values of a boolean expression in state s; known=false when the
// expression mentions nothing that is tracked.
func (it *interp) eval(e ast.Expr, s state) (bset, bool) {
	switch x := e.(type) {
	case *ast.ParenExpr:
		return it.eval(x.X, s)
	case *ast.Ident:
		if x.Name == "true" {
			return bset{t: true}, true
		}
		if x.Name == "false" {
			return bset{f: true}, true
		}
		if v, ok := s.v[x.Name]; ok {
			return bset{f: !v, t: v}, true
		}
	case *ast.SelectorExpr:
		if k, ok := it.genTail(x); ok {
			v, have := s.v[k]
			if !have {
				die("%s: %s read before it is known", it.fn, k)
			}
			return bset{f: !v, t: v}, true
		}
	case *ast.UnaryExpr:
		if x.Op == token.NOT {
			a, k := it.eval(x.X, s)
			return bset{f: a.t, t: a.f}, k
		}
	case *ast.BinaryExpr:
		if x.Op == token.LAND || x.Op == token.LOR {
			a, ka := it.eval(x.X, s)
			b, kb := it.eval(x.Y, s)
			var r bset
			for _, av := range []bool{false, true} {
				if (av && !a.t) || (!av && !a.f) {
					continue
				}
				for _, bv := range []bool{false, true} {
					if (bv && !b.t) || (!bv && !b.f) {
						continue
					}
					if x.Op == token.LAND {
						r.put(av && bv)
					} else {
						r.put(av || bv)
					}
				}
			}
			return r, ka || kb
		}
	}
	return bset{f: true, t: true}, false
}

func (it *interp) isSite(c *ast.CallExpr) (gen, callee string, ok bool) {
	s, isSel := c.Fun.(*ast.SelectorExpr)
	if !isSel {
		return
	}
	id, isId := s.X.(*ast.Ident)
	if !isId || !it.gens[id.Name] {
		return
	}
	n := s.Sel.Name
	if (strings.HasPrefix(n, "Generate") || strings.HasPrefix(n, "generate")) && it.methods[n] {
		return id.Name, n, true
	}
	return
}

// calls executes, in source order, the calls inside an expression that matter: compiling methods
// (sites), Reset, and the emission of GotoInstr{0}.
func (it *interp) calls(e ast.Node, ss states) states {
	if e == nil {
		return ss
	}
	var list []*ast.CallExpr
	ast.Inspect(e, func(n ast.Node) bool {
		if _, isLit := n.(*ast.FuncLit); isLit {
			return false
		}
		if c, ok := n.(*ast.CallExpr); ok {
			list = append(list, c)
		}
		return true
	})
	// innermost calls run first: sort by end position
	sort.SliceStable(list, func(i, j int) bool { return list[i].End() < list[j].End() })
	for _, c := range list {
		if id, isId := c.Fun.(*ast.Ident); isId {
			if fl := it.closures[id.Name]; fl != nil && !it.running[id.Name] {
				it.running[id.Name] = true
				save, saveRet := it.ret, it.ctorRet
				rs := states{}
				it.ret, it.ctorRet = &rs, nil
				it.inClosure++
				rest := it.block(fl.Body.List, ss)
				it.inClosure--
				it.ret, it.ctorRet = save, saveRet
				it.running[id.Name] = false
				ss = union(rest, rs)
				continue
			}
		}
		if g, callee, ok := it.isSite(c); ok {
			args := make([]string, len(c.Args))
			for i, a := range c.Args {
				args[i] = show(a)
			}
			k := siteKey{it.fn, callee, strings.Join(args, ", "), c.Pos()}
			rec := it.sites[k]
			if rec == nil {
				rec = &siteRec{key: k}
				it.sites[k] = rec
			}
			out := states{}
			for _, s := range ss {
				v, have := s.v[g+".Tail"]
				if !have {
					die("%s: flag of %s unknown at %s", it.fn, g, show(c))
				}
				idx := 0
				if it.in {
					idx = 1
				}
				rec.in[idx].put(v)
				out.add(s) // the callee leaves the flag as it was ...
				if v {
					out.add(s.with(g+".Tail", false)) // ... or cleared (assumed; checked by exits_ok)
				}
			}
			ss = out
			continue
		}
		if s, ok := c.Fun.(*ast.SelectorExpr); ok {
			if id, isId := s.X.(*ast.Ident); isId && it.gens[id.Name] {
				if sum, ok := it.helper[s.Sel.Name]; ok {
					// a method of Generator that is not a compiling method (Reset ..): its own summary
					out := states{}
					for _, st := range ss {
						v := st.v[id.Name+".Tail"]
						r := sum[0]
						if v {
							r = sum[1]
						}
						if r.f {
							out.add(st.with(id.Name+".Tail", false))
						}
						if r.t {
							out.add(st.with(id.Name+".Tail", true))
						}
					}
					ss = out
				}
				switch s.Sel.Name {
				case "AddInstruction":
					if len(c.Args) == 1 && strings.HasPrefix(show(c.Args[0]), "GotoInstr{0}") && len(ss) > 0 {
						if it.in {
							it.gotos[1] = true
						} else {
							it.gotos[0] = true
						}
					}
				}
			}
		}
	}
	return ss
}

func (it *interp) assign(lhs ast.Expr, rhs ast.Expr, ss states) states {
	// G.Tail = e
	if k, ok := it.genTail(lhs); ok {
		out := states{}
		for _, s := range ss {
			vals, known := it.eval(rhs, s)
			if !known {
				die("%s: cannot evaluate the right-hand side of %s = %s", it.fn, show(lhs), show(rhs))
			}
			if vals.f {
				out.add(s.with(k, false))
			}
			if vals.t {
				out.add(s.with(k, true))
			}
		}
		return out
	}
	id, isId := lhs.(*ast.Ident)
	if !isId {
		if sel, ok := lhs.(*ast.SelectorExpr); ok && sel.Sel.Name == "Tail" {
			if x, isX := sel.X.(*ast.Ident); isX && it.gens[x.Name] {
				die("%s: unexpected write %s", it.fn, show(lhs))
			}
		}
		return ss
	}
	// G := NewGenerator(..) / X.NewSubGenerator()
	if c, ok := rhs.(*ast.CallExpr); ok {
		name := ""
		switch f := c.Fun.(type) {
		case *ast.Ident:
			name = f.Name
		case *ast.SelectorExpr:
			name = f.Sel.Name
		}
		if name == "new" && len(c.Args) == 1 && show(c.Args[0]) == "Generator" {
			it.gens[id.Name] = true
			out := states{}
			for _, s := range ss {
				out.add(s.with(id.Name+".Tail", false)) // Go's zero value
			}
			return out
		}
		if name == "NewGenerator" || name == "NewSubGenerator" {
			sum := it.ctor[name]
			if sum == nil {
				die("%s: no summary for constructor %s", it.fn, name)
			}
			it.gens[id.Name] = true
			out := states{}
			for _, s := range ss {
				r := sum[0]
				if sel, isSel := c.Fun.(*ast.SelectorExpr); isSel {
					if x, isX := sel.X.(*ast.Ident); isX && it.gens[x.Name] && s.v[x.Name+".Tail"] {
						r = sum[1]
					}
				}
				if !r.f && !r.t {
					die("%s: constructor %s has no result", it.fn, name)
				}
				if r.f {
					out.add(s.with(id.Name+".Tail", false))
				}
				if r.t {
					out.add(s.with(id.Name+".Tail", true))
				}
			}
			return out
		}
	}
	// a local boolean computed from tracked values
	out := states{}
	for _, s := range ss {
		vals, known := it.eval(rhs, s)
		_, tracked := s.v[id.Name]
		if !known && !tracked {
			out.add(s)
			continue
		}
		if vals.f {
			out.add(s.with(id.Name, false))
		}
		if vals.t {
			out.add(s.with(id.Name, true))
		}
	}
	return out
}

func (it *interp) block(list []ast.Stmt, ss states) states {
	for _, st := range list {
		if len(ss) == 0 {
			break
		}
		ss = it.stmt(st, ss)
	}
	return ss
}

func (it *interp) doReturn(ss states) {
	if it.inClosure > 0 {
		// return from a local closure: the enclosing function's deferred calls do not run yet
		for _, s := range ss {
			it.ret.add(s)
		}
		return
	}
	for _, s := range ss {
		cur := states{}
		cur.add(state{v: s.v})
		for i := len(s.defers) - 1; i >= 0; i-- {
			cur = it.block(it.deferBodies[s.defers[i]].List, cur)
		}
		for _, e := range cur {
			it.ret.add(e)
		}
	}
}

func (it *interp) stmt(st ast.Stmt, ss states) states {
	switch x := st.(type) {
	case nil:
		return ss
	case *ast.BlockStmt:
		return it.block(x.List, ss)
	case *ast.LabeledStmt:
		return it.stmt(x.Stmt, ss)
	case *ast.ExprStmt:
		return it.calls(x.X, ss)
	case *ast.DeclStmt:
		return it.calls(x, ss)
	case *ast.IncDecStmt, *ast.EmptyStmt, *ast.GoStmt, *ast.SendStmt:
		return ss
	case *ast.AssignStmt:
		for _, r := range x.Rhs {
			if fl, ok := r.(*ast.FuncLit); ok {
				// a local closure (GenerateInclude's sourceItem): remembered, its body runs at every call
				if len(x.Lhs) == 1 {
					if id, isId := x.Lhs[0].(*ast.Ident); isId {
						it.closures[id.Name] = fl
						continue
					}
				}
				die("%s: closure not assigned to a local variable", it.fn)
			}
			ss = it.calls(r, ss)
		}
		if len(x.Lhs) == len(x.Rhs) {
			for i := range x.Lhs {
				if _, ok := x.Rhs[i].(*ast.FuncLit); ok {
					continue
				}
				ss = it.assign(x.Lhs[i], x.Rhs[i], ss)
			}
		} else {
			for _, l := range x.Lhs {
				if _, ok := it.genTail(l); ok {
					die("%s: multi-value assignment to %s", it.fn, show(l))
				}
			}
		}
		return ss
	case *ast.DeferStmt:
		fl, ok := x.Call.Fun.(*ast.FuncLit)
		if !ok {
			if strings.Contains(show(x), ".Tail") {
				die("%s: defer not understood: %s", it.fn, show(x))
			}
			return ss
		}
		idx := -1
		for i, b := range it.deferBodies {
			if b == fl.Body {
				idx = i
			}
		}
		if idx < 0 {
			it.deferBodies = append(it.deferBodies, fl.Body)
			idx = len(it.deferBodies) - 1
		}
		out := states{}
		for _, s := range ss {
			n := state{v: s.v, defers: append(append([]int{}, s.defers...), idx)}
			out.add(n)
		}
		return out
	case *ast.ReturnStmt:
		for _, r := range x.Results {
			ss = it.calls(r, ss)
		}
		if it.ctorRet != nil && len(x.Results) == 1 {
			if id, ok := x.Results[0].(*ast.Ident); ok && it.gens[id.Name] {
				for _, s := range ss {
					it.ctorRet.put(s.v[id.Name+".Tail"])
				}
			} else {
				die("%s: constructor returns something else than a local generator", it.fn)
			}
		}
		it.doReturn(ss)
		return states{}
	case *ast.BranchStmt:
		switch x.Tok {
		case token.BREAK:
			if it.brk != nil {
				*it.brk = union(*it.brk, ss)
			}
			return states{}
		case token.CONTINUE:
			if it.cont != nil {
				*it.cont = union(*it.cont, ss)
			}
			return states{}
		}
		return ss
	case *ast.IfStmt:
		ss = it.stmt(x.Init, ss)
		if isErrNotNil(x.Cond) {
			// error path: the compilation is abandoned
			if x.Else != nil {
				return it.stmt(x.Else, ss)
			}
			return ss
		}
		ss = it.calls(x.Cond, ss)
		yes, no := states{}, states{}
		for _, s := range ss {
			v, _ := it.eval(x.Cond, s)
			if v.t {
				yes.add(s)
			}
			if v.f {
				no.add(s)
			}
		}
		a := it.block(x.Body.List, yes)
		if x.Else != nil {
			no = it.stmt(x.Else, no)
		}
		return union(a, no)
	case *ast.ForStmt, *ast.RangeStmt:
		var body *ast.BlockStmt
		var post ast.Stmt
		var cond ast.Expr
		if f, ok := x.(*ast.ForStmt); ok {
			ss = it.stmt(f.Init, ss)
			body, post, cond = f.Body, f.Post, f.Cond
		} else {
			r := x.(*ast.RangeStmt)
			ss = it.calls(r.X, ss)
			body = r.Body
		}
		saveB, saveC := it.brk, it.cont
		brk := states{}
		seen := states{}
		cur := ss
		for len(cur) > 0 {
			fresh := states{}
			for k, s := range cur {
				if _, ok := seen[k]; !ok {
					seen[k] = s
					fresh[k] = s
				}
			}
			if len(fresh) == 0 {
				break
			}
			cont := states{}
			it.brk, it.cont = &brk, &cont
			if cond != nil {
				fresh = it.calls(cond, fresh)
			}
			after := union(it.block(body.List, fresh), cont)
			cur = it.stmt(post, after)
		}
		it.brk, it.cont = saveB, saveC
		return union(union(seen, cur), brk)
	case *ast.SwitchStmt, *ast.TypeSwitchStmt:
		var body *ast.BlockStmt
		if s, ok := x.(*ast.SwitchStmt); ok {
			ss = it.stmt(s.Init, ss)
			ss = it.calls(s.Tag, ss)
			body = s.Body
		} else {
			t := x.(*ast.TypeSwitchStmt)
			ss = it.stmt(t.Init, ss)
			body = t.Body
		}
		saveB := it.brk
		brk := states{}
		it.brk = &brk
		out := states{}
		hasDefault := false
		for _, cl := range body.List {
			cc := cl.(*ast.CaseClause)
			if cc.List == nil {
				hasDefault = true
			}
			out = union(out, it.block(cc.Body, ss))
		}
		if !hasDefault {
			out = union(out, ss)
		}
		it.brk = saveB
		return union(out, brk)
	case *ast.SelectStmt:
		return ss
	}
	die("%s: statement not understood: %T", it.fn, st)
	return nil
}

func coqStr(s string) string { return "\"" + strings.ReplaceAll(s, "\"", "\"\"") + "\"" }

func main() {
	repo := flag.String("repo", "/repo", "repository root")
	outp := flag.String("out", "", "output .v")
	flag.Parse()
	if *outp == "" {
		die("--out required")
	}
	files, _ := filepath.Glob(filepath.Join(*repo, "zygo", "*.go"))
	sort.Strings(files)
	type fn struct {
		decl *ast.FuncDecl
		name string
		recv string
	}
	var fns []fn
	methods := map[string]bool{}
	for _, f := range files {
		base := filepath.Base(f)
		if strings.HasSuffix(base, "_test.go") || strings.HasPrefix(base, "verif_") {
			continue
		}
		af, err := parser.ParseFile(fset, f, nil, 0)
		if err != nil {
			die("parse %s: %v", f, err)
		}
		for _, d := range af.Decls {
			fd, ok := d.(*ast.FuncDecl)
			if !ok || fd.Body == nil {
				continue
			}
			recv := ""
			name := fd.Name.Name
			if fd.Recv != nil && len(fd.Recv.List) == 1 {
				if strings.TrimPrefix(show(fd.Recv.List[0].Type), "*") == "Generator" {
					if len(fd.Recv.List[0].Names) == 1 {
						recv = fd.Recv.List[0].Names[0].Name
					}
					methods[name] = true
				} else {
					name = strings.TrimPrefix(show(fd.Recv.List[0].Type), "*") + "." + name
				}
			}
			fns = append(fns, fn{fd, name, recv})
		}
	}
	if !methods["Generate"] || !methods["GenerateCallBySymbol"] || !methods["GenerateBegin"] {
		die("Generator.Generate / GenerateCallBySymbol / GenerateBegin not found")
	}
	var sites []*siteRec
	type exitRec struct {
		fn string
		e  [2]bset
	}
	var exits []exitRec
	type gotoRec struct {
		fn string
		g  [2]bool
	}
	var gotos []gotoRec
	ctor := map[string]*[2]bset{}
	helper := map[string]*[2]bset{}
	isCompiling := func(n string) bool { return strings.HasPrefix(n, "Generate") || strings.HasPrefix(n, "generate") }
	rank := func(f fn) int {
		switch {
		case f.name == "NewGenerator":
			return 0
		case f.name == "NewSubGenerator":
			return 1
		case f.recv != "" && !isCompiling(f.name):
			return 2
		}
		return 3
	}
	sort.SliceStable(fns, func(i, j int) bool { return rank(fns[i]) < rank(fns[j]) })
	for _, f := range fns {
		// only functions that mention a generator
		txt := show(f.decl.Body)
		if f.recv == "" && !strings.Contains(txt, "NewGenerator(") && f.name != "NewGenerator" {
			continue
		}
		smap := map[siteKey]*siteRec{}
		var ex [2]bset
		var gt [2]bool
		for _, in := range []bool{false, true} {
			it := &interp{fn: f.name, recv: f.recv, gens: map[string]bool{}, in: in, sites: smap, exits: &ex, gotos: &gt, methods: methods, ctor: ctor, helper: helper, closures: map[string]*ast.FuncLit{}, running: map[string]bool{}}
			if rank(f) <= 1 {
				if ctor[f.name] == nil {
					ctor[f.name] = &[2]bset{}
				}
				idx := 0
				if in {
					idx = 1
				}
				it.ctorRet = &ctor[f.name][idx]
			}
			init := state{v: map[string]bool{}}
			if f.recv != "" {
				it.gens[f.recv] = true
				init.v[f.recv+".Tail"] = in
			}
			rs := states{}
			it.ret = &rs
			ss := states{}
			ss.add(init)
			end := it.block(f.decl.Body.List, ss)
			it.doReturn(end)
			if f.recv != "" {
				idx := 0
				if in {
					idx = 1
				}
				for _, s := range rs {
					ex[idx].put(s.v[f.recv+".Tail"])
				}
			}
		}
		var keys []siteKey
		for k := range smap {
			keys = append(keys, k)
		}
		sort.Slice(keys, func(i, j int) bool { return keys[i].pos < keys[j].pos })
		for _, k := range keys {
			sites = append(sites, smap[k])
		}
		if f.recv != "" && isCompiling(f.name) {
			exits = append(exits, exitRec{f.name, ex})
		}
		if rank(f) == 2 {
			e := ex
			helper[f.name] = &e
		}
		if gt[0] || gt[1] {
			gotos = append(gotos, gotoRec{f.name, gt})
		}
	}
	if ctor["NewGenerator"] == nil || ctor["NewSubGenerator"] == nil || helper["Reset"] == nil {
		die("NewGenerator / NewSubGenerator / Generator.Reset not found")
	}
	if len(sites) < 30 || len(gotos) == 0 {
		die("only %d sites / %d goto emitters found: the generator no longer has the shape this translator understands", len(sites), len(gotos))
	}
	var b strings.Builder
	b.WriteString("(* GENERATED by translator/cmd/tailsites from zygo/*.go — do not edit. *)\n")
	b.WriteString("From Coq Require Import String List.\nRequire Import ZV.Model.TailSites.\nImport ListNotations.\nOpen Scope string_scope.\n\n")
	b.WriteString("Definition tail_sites : list site := [\n")
	ord := map[string]int{}
	for i, s := range sites {
		k := s.key.fn + "\x00" + s.key.callee + "\x00" + s.key.arg
		o := ord[k]
		ord[k]++
		sep := ";"
		if i == len(sites)-1 {
			sep = ""
		}
		fmt.Fprintf(&b, "  mkSite %s %s %s %d %s %s%s\n", coqStr(s.key.fn), coqStr(s.key.callee), coqStr(s.key.arg), o, s.in[0], s.in[1], sep)
	}
	b.WriteString("].\n\nDefinition tail_exits : list fexit := [\n")
	for i, e := range exits {
		sep := ";"
		if i == len(exits)-1 {
			sep = ""
		}
		fmt.Fprintf(&b, "  mkExit %s %s %s%s\n", coqStr(e.fn), e.e[0], e.e[1], sep)
	}
	b.WriteString("].\n\nDefinition tail_gotos : list fgoto := [\n")
	for i, g := range gotos {
		sep := ";"
		if i == len(gotos)-1 {
			sep = ""
		}
		fmt.Fprintf(&b, "  mkGoto %s %v %v%s\n", coqStr(g.fn), g.g[0], g.g[1], sep)
	}
	b.WriteString("].\n\n(* Tail of the generator returned by the constructors, and the flag after Reset, by the receiver's flag *)\n")
	fmt.Fprintf(&b, "Definition tail_new_generator : fset := %s.\n", ctor["NewGenerator"][0])
	fmt.Fprintf(&b, "Definition tail_new_subgenerator : fset * fset := (%s, %s).\n", ctor["NewSubGenerator"][0], ctor["NewSubGenerator"][1])
	fmt.Fprintf(&b, "Definition tail_after_reset : fset * fset := (%s, %s).\n", helper["Reset"][0], helper["Reset"][1])
	if err := os.WriteFile(*outp, []byte(b.String()), 0o644); err != nil {
		die("%v", err)
	}
	fmt.Printf("tailsites: %d sites, %d exits, %d goto emitters\n", len(sites), len(exits), len(gotos))
}
