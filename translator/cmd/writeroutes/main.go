// writeroutes: census of every site of package zygo that can change what a record (*SexpHash) holds:
// calls of (*SexpHash).HashSet, direct writes of SexpHash.Map (also through a local alias of a bucket slice and
// delete(h.Map, ..), and SexpHash.Map escaping as a whole value), writes of Head/Tail of a *SexpPair taken from a
// bucket, writes of SexpHash.GoStructFactory / SexpHash.TypeName, composite literals SexpHash{..}.
// It also measures the shape of HashSet itself (TypeCheckField first, errors return before any write).
// Output: Gallina data for coq/Generated/WriteRoutes.v.  Fails loudly when the source has not the expected shape.
package main

import (
	"flag"
	"fmt"
	"go/ast"
	"go/build"
	"go/importer"
	"go/parser"
	"go/token"
	"go/types"
	"os"
	"path/filepath"
	"sort"
	"strings"
)

var (
	fset *token.FileSet
	info *types.Info
)

func die(f string, a ...interface{}) {
	fmt.Fprintf(os.Stderr, "writeroutes: "+f+"\n", a...)
	os.Exit(1)
}

type site struct {
	file, fn, kind, text string
	pos                  token.Pos
}

func zl(s string) string {
	p := make([]string, len(s))
	for i := 0; i < len(s); i++ {
		p[i] = fmt.Sprint(int(s[i]))
	}
	return "[" + strings.Join(p, "; ") + "]"
}

func isNamed(t types.Type, name string) bool {
	if t == nil {
		return false
	}
	if p, ok := t.(*types.Pointer); ok {
		t = p.Elem()
	}
	n, ok := t.(*types.Named)
	return ok && n.Obj().Name() == name && n.Obj().Pkg() != nil && n.Obj().Pkg().Name() == "zygo"
}

// field of SexpHash selected by e (after stripping parens), or ""
func hashField(e ast.Expr) string {
	for {
		p, ok := e.(*ast.ParenExpr)
		if !ok {
			break
		}
		e = p.X
	}
	se, ok := e.(*ast.SelectorExpr)
	if !ok {
		return ""
	}
	sel := info.Selections[se]
	if sel == nil || sel.Kind() != types.FieldVal {
		return ""
	}
	if !isNamed(sel.Recv(), "SexpHash") {
		return ""
	}
	return se.Sel.Name
}

func funcName(fd *ast.FuncDecl) string {
	if fd.Recv != nil && len(fd.Recv.List) == 1 {
		t := fd.Recv.List[0].Type
		if s, ok := t.(*ast.StarExpr); ok {
			t = s.X
		}
		return types.ExprString(t) + "." + fd.Name.Name
	}
	return fd.Name.Name
}

// root of an lvalue: strips index, slice, star, paren
func lroot(e ast.Expr) ast.Expr {
	for {
		switch x := e.(type) {
		case *ast.IndexExpr:
			e = x.X
		case *ast.SliceExpr:
			e = x.X
		case *ast.StarExpr:
			e = x.X
		case *ast.ParenExpr:
			e = x.X
		default:
			return e
		}
	}
}

func objOf(e ast.Expr) types.Object {
	if id, ok := e.(*ast.Ident); ok {
		if o := info.Uses[id]; o != nil {
			return o
		}
		return info.Defs[id]
	}
	return nil
}

func main() {
	repo := flag.String("repo", "/repo", "repository root")
	out := flag.String("out", "", "output .v file")
	flag.Parse()
	if *out == "" {
		die("--out required")
	}
	dir := filepath.Join(*repo, "zygo")
	os.Setenv("GOFLAGS", "-mod=mod")
	os.Setenv("GOPROXY", "off")
	os.Unsetenv("GOTOOLCHAIN")
	if err := os.Chdir(dir); err != nil {
		die("%v", err)
	}
	fset = token.NewFileSet()
	ctx := build.Default
	ctx.BuildTags = nil
	bp, err := ctx.ImportDir(dir, 0)
	if err != nil {
		die("cannot list package zygo: %v", err)
	}
	names := append([]string{}, bp.GoFiles...)
	sort.Strings(names)
	var files []*ast.File
	for _, f := range names {
		af, err := parser.ParseFile(fset, filepath.Join(dir, f), nil, 0)
		if err != nil {
			die("parse %s: %v", f, err)
		}
		files = append(files, af)
	}
	if len(files) < 20 {
		die("only %d source files found in %s", len(files), dir)
	}
	var terrs []string
	conf := types.Config{
		Importer: importer.ForCompiler(fset, "source", nil),
		Error:    func(err error) { terrs = append(terrs, err.Error()) },
	}
	info = &types.Info{
		Types:      map[ast.Expr]types.TypeAndValue{},
		Defs:       map[*ast.Ident]types.Object{},
		Uses:       map[*ast.Ident]types.Object{},
		Selections: map[*ast.SelectorExpr]*types.Selection{},
	}
	conf.Check("zygo", fset, files, info)
	if len(terrs) > 0 {
		if len(terrs) > 8 {
			terrs = terrs[:8]
		}
		die("package zygo does not type-check (go/types, source importer):\n  %s", strings.Join(terrs, "\n  "))
	}

	var sites []site
	var hashSet *ast.FuncDecl
	for _, f := range files {
		fname := filepath.Base(fset.Position(f.Pos()).Filename)
		if strings.HasPrefix(fname, "verif_") {
			continue
		}
		for _, d := range f.Decls {
			fd, ok := d.(*ast.FuncDecl)
			if !ok || fd.Body == nil {
				continue
			}
			fn := funcName(fd)
			if fn == "SexpHash.HashSet" {
				hashSet = fd
			}
			sites = append(sites, scan(fname, fn, fd.Body)...)
		}
		// package-level variable initialisers
		for _, d := range f.Decls {
			if gd, ok := d.(*ast.GenDecl); ok && gd.Tok == token.VAR {
				for _, sp := range gd.Specs {
					for _, v := range sp.(*ast.ValueSpec).Values {
						sites = append(sites, scan(fname, "<package var>", v)...)
					}
				}
			}
		}
	}
	if hashSet == nil {
		die("method (*SexpHash).HashSet not found")
	}
	nCalls := 0
	for _, s := range sites {
		if s.kind == "SCallHashSet" {
			nCalls++
		}
	}
	if nCalls < 3 {
		die("only %d calls of HashSet found: the census does not understand the source", nCalls)
	}
	shape := hashSetShape(hashSet, sites)

	sort.SliceStable(sites, func(i, j int) bool {
		if sites[i].file != sites[j].file {
			return sites[i].file < sites[j].file
		}
		return sites[i].pos < sites[j].pos
	})
	var b strings.Builder
	b.WriteString("(* GENERATED by translator/cmd/writeroutes from zygo/*.go.  Do not edit. *)\n")
	b.WriteString("From Coq Require Import ZArith List.\nImport ListNotations.\nRequire Import ZV.Model.StructExact.\nLocal Open Scope Z_scope.\n\n")
	b.WriteString("(* (file, function, kind) of every site that can change what a record holds *)\n")
	b.WriteString("Definition write_sites : list site := [\n")
	for i, s := range sites {
		sep := ";"
		if i == len(sites)-1 {
			sep = ""
		}
		txt := strings.ReplaceAll(strings.ReplaceAll(s.text, "(*", "( *"), "*)", "* )")
		for _, w := range []string{"Axiom", "Parameter", "Conjecture", "Admitted", "admit", "Admit", "Variable", "Hypothesis", "Unset"} {
			txt = strings.ReplaceAll(txt, w, w[:2]+"-"+w[2:]) // words the proof check greps for, also inside comments
		}
		fmt.Fprintf(&b, "  (* %s: %s: %s *)\n  (%s, %s, %s)%s\n", s.file, s.fn, txt, zl(s.file), zl(s.fn), s.kind, sep)
	}
	b.WriteString("].\n\n")
	fmt.Fprintf(&b, "Definition hashset_measured : hashset_shape :=\n  {| hs_check_toplevel := %v; hs_writes_after_check := %v; hs_error_returns := %v; hs_notsym_typed_returns := %v |}.\n",
		shape[0], shape[1], shape[2], shape[3])
	if err := os.WriteFile(*out, []byte(b.String()), 0o644); err != nil {
		die("%v", err)
	}
}

func short(n ast.Node) string {
	s := types.ExprString(exprOf(n))
	s = strings.Join(strings.Fields(s), " ")
	if len(s) > 70 {
		s = s[:70] + "..."
	}
	return s
}

func exprOf(n ast.Node) ast.Expr {
	if e, ok := n.(ast.Expr); ok {
		return e
	}
	return ast.NewIdent("?")
}

func scan(file, fn string, root ast.Node) []site {
	var res []site
	add := func(kind string, n ast.Node) {
		res = append(res, site{file: file, fn: fn, kind: kind, text: short(n), pos: n.Pos()})
	}
	buckets := map[types.Object]bool{} // locals that alias a bucket slice of some SexpHash.Map
	pairs := map[types.Object]bool{}   // locals that alias a *SexpPair of such a bucket
	maps := map[types.Object]bool{}    // locals that alias a whole SexpHash.Map
	isBucketExpr := func(e ast.Expr) bool { // X.Map[k] or alias
		if ix, ok := e.(*ast.IndexExpr); ok {
			if hashField(ix.X) == "Map" {
				return true
			}
			if o := objOf(ix.X); o != nil && maps[o] {
				return true
			}
		}
		if o := objOf(e); o != nil && buckets[o] {
			return true
		}
		return false
	}
	isPairExpr := func(e ast.Expr) bool {
		if ix, ok := e.(*ast.IndexExpr); ok && isBucketExpr(ix.X) {
			return true
		}
		if o := objOf(e); o != nil && pairs[o] {
			return true
		}
		return false
	}
	// pass 1: aliases (to a fixed point, the order of statements does not matter)
	for round := 0; round < 4; round++ {
		ast.Inspect(root, func(n ast.Node) bool {
			switch x := n.(type) {
			case *ast.AssignStmt:
				if len(x.Rhs) == 1 && len(x.Lhs) >= 1 {
					if o := objOf(x.Lhs[0]); o != nil {
						r := x.Rhs[0]
						if hashField(r) == "Map" {
							maps[o] = true
						}
						if isBucketExpr(r) {
							buckets[o] = true
						}
						if call, ok := r.(*ast.CallExpr); ok { // arr = append(arr, ..)
							if id, ok := call.Fun.(*ast.Ident); ok && id.Name == "append" && len(call.Args) > 0 && isBucketExpr(call.Args[0]) {
								buckets[o] = true
							}
						}
						if isPairExpr(r) {
							pairs[o] = true
						}
					}
				}
			case *ast.RangeStmt:
				if hashField(x.X) == "Map" || (objOf(x.X) != nil && maps[objOf(x.X)]) {
					if x.Value != nil {
						if o := objOf(x.Value); o != nil {
							buckets[o] = true
						}
					}
				}
				if isBucketExpr(x.X) && x.Value != nil {
					if o := objOf(x.Value); o != nil {
						pairs[o] = true
					}
				}
			}
			return true
		})
	}
	// pass 2: sites
	lhs := func(e ast.Expr) {
		// SexpPair Head/Tail of a bucket pair
		if se, ok := e.(*ast.SelectorExpr); ok && (se.Sel.Name == "Head" || se.Sel.Name == "Tail") {
			if tv, ok := info.Types[se.X]; ok && isNamed(tv.Type, "SexpPair") && isPairExpr(se.X) {
				add("SWritePair", e)
				return
			}
		}
		r := lroot(e)
		switch hashField(r) {
		case "Map":
			add("SWriteMap", e)
			return
		case "GoStructFactory":
			if r == e || true {
				add("SWriteFactory", e)
			}
			return
		case "TypeName":
			add("SWriteTypeName", e)
			return
		}
		if r != e { // something indexed: alias of a bucket or of the whole map
			if o := objOf(r); o != nil && (buckets[o] || maps[o]) {
				add("SWriteMap", e)
			}
		}
	}
	ast.Inspect(root, func(n ast.Node) bool {
		switch x := n.(type) {
		case *ast.AssignStmt:
			for _, l := range x.Lhs {
				lhs(l)
			}
			for _, r := range x.Rhs { // the whole map escapes into another variable / field
				if hashField(r) == "Map" {
					add("SWriteMap", r)
				}
			}
		case *ast.IncDecStmt:
			lhs(x.X)
		case *ast.UnaryExpr:
			if x.Op == token.AND && hashField(x.X) == "Map" {
				add("SWriteMap", x)
			}
		case *ast.CallExpr:
			if se, ok := x.Fun.(*ast.SelectorExpr); ok && se.Sel.Name == "HashSet" {
				if f, ok := info.Uses[se.Sel].(*types.Func); ok {
					if sig := f.Type().(*types.Signature); sig.Recv() != nil && isNamed(sig.Recv().Type(), "SexpHash") {
						add("SCallHashSet", x)
					}
				}
			}
			if id, ok := x.Fun.(*ast.Ident); ok && id.Name == "delete" && len(x.Args) > 0 {
				a := x.Args[0]
				if hashField(a) == "Map" || (objOf(a) != nil && maps[objOf(a)]) {
					add("SWriteMap", x)
				}
			} else {
				for _, a := range x.Args { // the whole map passed to a function
					if hashField(a) == "Map" {
						if id, ok := x.Fun.(*ast.Ident); ok && id.Name == "len" {
							continue
						}
						add("SWriteMap", a)
					}
				}
			}
		case *ast.CompositeLit:
			if tv, ok := info.Types[x]; ok && isNamed(tv.Type, "SexpHash") {
				add("SLiteral", x)
			}
		case *ast.ReturnStmt:
			for _, r := range x.Results {
				if hashField(r) == "Map" {
					add("SWriteMap", r)
				}
			}
		}
		return true
	})
	return res
}

// the shape of HashSet: [check is a top-level statement, every direct write after it,
// "if err != nil { if err != KeyNotSymbol { return err } .. }" follows it, a typed record returns on KeyNotSymbol]
func hashSetShape(fd *ast.FuncDecl, sites []site) [4]bool {
	var sh [4]bool
	recv := fd.Recv.List[0].Names[0].Name
	idx := -1
	var errObj types.Object
	for i, st := range fd.Body.List {
		as, ok := st.(*ast.AssignStmt)
		if !ok || len(as.Rhs) != 1 || len(as.Lhs) != 1 {
			continue
		}
		call, ok := as.Rhs[0].(*ast.CallExpr)
		if !ok {
			continue
		}
		se, ok := call.Fun.(*ast.SelectorExpr)
		if !ok || se.Sel.Name != "TypeCheckField" {
			continue
		}
		if id, ok := se.X.(*ast.Ident); !ok || id.Name != recv {
			continue
		}
		if len(call.Args) != 2 || len(fd.Type.Params.List) < 2 {
			continue
		}
		k, ok1 := call.Args[0].(*ast.Ident)
		v, ok2 := call.Args[1].(*ast.Ident)
		if !ok1 || !ok2 || objOf(k) == nil || objOf(k) != info.Defs[fd.Type.Params.List[0].Names[0]] ||
			objOf(v) != info.Defs[fd.Type.Params.List[len(fd.Type.Params.List)-1].Names[0]] {
			continue
		}
		idx = i
		errObj = objOf(as.Lhs[0])
		break
	}
	if idx < 0 {
		return sh
	}
	sh[0] = true
	checkEnd := fd.Body.List[idx].End()
	sh[1] = true
	nw := 0
	for _, s := range sites {
		if s.fn == "SexpHash.HashSet" && s.kind != "SCallHashSet" {
			nw++
			if s.pos < checkEnd {
				sh[1] = false
			}
		}
	}
	if nw == 0 {
		die("HashSet contains no direct write of the bucket map: the census does not understand the source")
	}
	// statements between the check and the error test must not exist; the error test must be next
	if idx+1 >= len(fd.Body.List) {
		return sh
	}
	ifs, ok := fd.Body.List[idx+1].(*ast.IfStmt)
	if !ok || ifs.Init != nil || !isNeq(ifs.Cond, errObj, "nil") || len(ifs.Body.List) == 0 {
		return sh
	}
	in, ok := ifs.Body.List[0].(*ast.IfStmt)
	if ok && in.Init == nil && isNeq(in.Cond, errObj, "KeyNotSymbol") && len(in.Body.List) == 1 {
		if r, ok := in.Body.List[0].(*ast.ReturnStmt); ok && len(r.Results) == 1 && objOf(r.Results[0]) == errObj && in.Else == nil {
			sh[2] = true
		}
	}
	// KeyNotSymbol: a later statement of the same block returns an error when the factory holds a definition
	for _, st := range ifs.Body.List[1:] {
		g, ok := st.(*ast.IfStmt)
		if !ok {
			continue
		}
		cond := types.ExprString(g.Cond)
		usesDefn := strings.Contains(cond, "UserStructDefn != nil")
		facOK := false
		if g.Init != nil {
			if as, ok := g.Init.(*ast.AssignStmt); ok && len(as.Rhs) == 1 && hashField(as.Rhs[0]) == "GoStructFactory" {
				facOK = true
			}
		}
		if strings.Contains(cond, recv+".GoStructFactory") {
			facOK = true
		}
		if !(usesDefn && facOK) || len(g.Body.List) == 0 {
			continue
		}
		if r, ok := g.Body.List[len(g.Body.List)-1].(*ast.ReturnStmt); ok && len(r.Results) == 1 {
			if c, ok := r.Results[0].(*ast.CallExpr); ok && strings.HasSuffix(types.ExprString(c.Fun), "Errorf") {
				sh[3] = true
			}
		}
	}
	return sh
}

func isNeq(e ast.Expr, o types.Object, name string) bool {
	b, ok := e.(*ast.BinaryExpr)
	if !ok || b.Op != token.NEQ || o == nil {
		return false
	}
	id, ok := b.Y.(*ast.Ident)
	return ok && id.Name == name && objOf(b.X) == o
}
